import JenVerif.FileRender
import JenVerif.Heap
import JenVerif.Gen.Constructs
import JenVerif.Gen.Tokens
import JenVerif.Gen.Reserved
import JenVerif.Gen.StdHints
import JenVerif.Gen.IsPrint
import JenVerif.DriverSyn
import JenVerif.GenNames
import JenVerif.Props.C08
/-
  Line-protocol driver (tie 2): interprets recipes with the model's semantics and prints the
  raw (unformatted) bytes of every render.  Core-only, so it is also built as a `lean_exe`.
  Protocol: see /verif/harness/PROTOCOL.md.
-/

open Code

structure DFile where
  st : FileS
  body : List HCode
  syn : List GoSyn.Decl := []

mutual
def hOfCode : Code → HCode
  | .nilc => .nilc
  | .tok k s => .tok k s
  | .lit v => .lit v
  | .group g items => .group g (hOfCodes items)
  | .stmt items => .stmt (hOfCodes items)
  | .dict ps => .dict (hOfPairs ps)
  | .tag items => .tag items
  | .comment t => .comment t
def hOfCodes : List Code → List HCode
  | [] => []
  | c :: cs => hOfCode c :: hOfCodes cs
def hOfPairs : List (Code × Code) → List (HCode × HCode)
  | [] => []
  | (k, v) :: ps => (hOfCode k, hOfCode v) :: hOfPairs ps
end

structure DState where
  files : List (Nat × DFile) := []
  heap : Heap := []
  lower : List (Str × Str) := []

def DState.file (d : DState) (i : Nat) : DFile :=
  match d.files.find? (·.1 == i) with
  | some (_, f) => f
  | none => ⟨{}, [], []⟩

def DState.setFile (d : DState) (i : Nat) (f : DFile) : DState :=
  { d with files := (i, f) :: d.files.filter (·.1 != i) }

def asciiLower (s : Str) : Str := s.map fun c => if 65 ≤ c && c ≤ 90 then c + 32 else c

def mkCfg (d : DState) : Cfg :=
  { toLower := fun s => match AList.lookup d.lower s with
      | some l => l
      | none => asciiLower s
    isPrint := Gen.isPrint
    reserved := b!"C" :: Gen.reserved
    stdHints := Gen.stdHints }

def findConstruct (api : Str) : Option Gen.Construct := Gen.constructs.find? (·.api == api)

def kindOf (k : Str) : TokKind :=
  if k == b!"pkg" then .pkg else if k == b!"ident" then .ident else if k == b!"kw" then .kw
  else if k == b!"op" then .op else if k == b!"delim" then .delim else if k == b!"layout" then .layout else .null

def numTy (s : String) : Option NumTy :=
  match s with
  | "int8" => some .int8 | "int16" => some .int16 | "int32" => some .int32 | "int64" => some .int64
  | "uint" => some .uint | "uint8" => some .uint8 | "uint16" => some .uint16 | "uint32" => some .uint32
  | "uint64" => some .uint64 | "uintptr" => some .uintptr
  | _ => none

mutual
partial def pArg : P HCode := do
  let t ← next
  match t with
  | "N" => pure .nilc
  | "NS" => pure .nilc
  | "R" => pure (.ref (← nextReg))
  | "S" => do
    let n ← nextNat
    let items ← rep n pSItem
    pure (.stmt items.flatten)
  | "D" => do
    let n ← nextNat
    let ps ← rep n (do let k ← pArg; let v ← pArg; pure (k, v))
    pure (.dict ps)
  | _ => throw s!"bad arg tag {t}"
partial def pFuncItem : P HCode := do
  let t ← next
  match t with
  | "m" => pArg
  | "a" => do let a ← pArg; pure (.stmt [a])
  -- "h": an Add performed re-entrantly from inside the next item's callback; the callback runs
  -- while that item is built, i.e. before it is appended, so it is an Add at this place
  | "h" => do let a ← pArg; pure (.stmt [a])
  | _ => throw s!"bad func item tag {t}"
partial def pSItem : P (List HCode) := do
  let t ← next
  match t with
  | "K" => do
    let api ← nextStr
    let es := Gen.tokens.filter (·.api == api)
    if es.isEmpty then throw s!"unknown token api {esc api}"
    let arg ← if es.any (·.dynamic) then nextStr else pure []
    pure (es.map fun e => .tok (kindOf e.kind) (if e.dynamic then arg else e.content))
  | "Q" => do
    let p ← nextStr
    let n ← nextStr
    let info := match findConstruct b!"Qual" with
      | some c => c.info
      | none => qualInfo
    pure [.group info [.tok .pkg p, .tok .ident n]]
  | "L" => do
    let ty ← next
    match ty with
    | "bool" => do let v ← next; pure [.lit (.bool (v == "1"))]
    | "str" => do pure [.lit (.str (← nextStr))]
    | "int" => do let v ← next; pure [.lit (.int v.toInt!)]
    | "f64" => do pure [.lit (.f64 (← nextStr))]
    | "f32" => do pure [.lit (.f32 (← nextStr))]
    | "c128" => do let re ← nextStr; let im ← nextStr; pure [.lit (.c128 re im)]
    | "c64" => do let re ← nextStr; let im ← nextStr; pure [.lit (.c64 re im)]
    | "rune" => do let v ← next; pure [.lit (.rune v.toInt!)]
    | "byte" => do let v ← nextNat; pure [.lit (.byte (UInt8.ofNat v))]
    | _ =>
      match numTy ty with
      | some nt => do let v ← next; pure [.lit (.sized nt v.toInt!)]
      | none => throw s!"bad literal type {ty}"
  | "G" => do
    let api ← nextStr
    let n ← nextNat
    let args ← rep n pArg
    match findConstruct api with
    | some c => pure [.group c.info args]
    | none => throw s!"unknown construct {esc api}"
  | "GF" => do
    let api ← nextStr
    let n ← nextNat
    let args ← rep n pFuncItem
    match findConstruct api with
    | some c => pure [.group c.info args]
    | none => throw s!"unknown construct {esc api}"
  | "C" => do
    let o ← nextStr; let c ← nextStr; let s ← nextStr; let m ← next
    let n ← nextNat
    let args ← rep n pArg
    pure [.group ⟨b!"custom", o, c, s, m == "1"⟩ args]
  | "CF" => do
    let o ← nextStr; let c ← nextStr; let s ← nextStr; let m ← next
    let n ← nextNat
    let args ← rep n pFuncItem
    pure [.group ⟨b!"custom", o, c, s, m == "1"⟩ args]
  | "A" => do
    let n ← nextNat
    let kvs ← rep n (do let k ← nextStr; let v ← nextStr; pure (k, v))
    pure [.tag kvs]
  | "M" => do pure [.comment (← nextStr)]
  | "ADD" => do
    let n ← nextNat
    rep n pArg
  | _ => throw s!"bad item tag {t}"
end

partial def pSItems : P (List HCode) := do
  let mut acc : List HCode := []
  while !(← get).isEmpty do
    acc := acc ++ (← pSItem)
  pure acc

def resolveFuel : Nat := 1000000

def bodyCode (d : DState) (f : DFile) : List Code :=
  Heap.resolveList d.heap resolveFuel f.body

def effStr : Effect → String
  | .format i => s!"format:{esc i}"
  | .callerWrite b => s!"write:{esc b}"
  | .fsWrite b => s!"fswrite:{esc b}"

def resStr : Result → String
  | .ok => "ok"
  | .errMisuse => "err:misuse"
  | .errFormat _ => "err:format"
  | .errWriter => "err:writer"
  | .errFs => "err:fs"

/-- one protocol line → new state and output lines -/
def step (d : DState) (line : String) : Except String (DState × List String) := do
  let toks := (line.trimAscii.toString.splitOn " ").filter (· != "")
  match toks with
  | [] => pure (d, [])
  | cmd :: rest =>
    let run {α} (p : P α) : Except String α := do
      let (a, left) ← p.run rest
      if !left.isEmpty then throw s!"trailing tokens: {left}"
      pure a
    match cmd with
    | "case" => pure ({}, [s!"case {String.intercalate " " rest}"])
    | "end" => pure (d, ["."])
    | "lower" => do
      let (a, b) ← run (do let a ← nextStr; let b ← nextStr; pure (a, b))
      pure ({ d with lower := AList.insert d.lower a b }, [])
    | "file" => do
      let (i, f) ← run (do
        let i ← nextReg
        let kind ← next
        match kind with
        | "new" => do let n ← nextStr; pure (i, Registry.newFile n)
        | "path" => do
          let p ← nextStr
          pure (i, Registry.newFilePath (mkCfg d).toLower p)
        | "pathname" => do let p ← nextStr; let n ← nextStr; pure (i, Registry.newFilePathName p n)
        | _ => throw "bad file kind")
      pure (d.setFile i ⟨f, [], []⟩, [])
    | "set" => do
      let (i, k, v) ← run (do let i ← nextReg; let k ← next; let v ← nextStr; pure (i, k, v))
      let f := d.file i
      let st ← match k with
        | "prefix" => pure { f.st with pfx := v }
        | "noformat" => pure { f.st with noFormat := v == b!"1" }
        | "canonical" => pure { f.st with canonical := v }
        | _ => throw "bad set key"
      pure (d.setFile i { f with st := st }, [])
    | "hintname" => do
      let (i, p, n) ← run (do let i ← nextReg; let p ← nextStr; let n ← nextStr; pure (i, p, n))
      let f := d.file i
      pure (d.setFile i { f with st := (C08.Op.hintName p n).run (mkCfg d) f.st }, [])
    | "hintalias" => do
      let (i, p, n) ← run (do let i ← nextReg; let p ← nextStr; let n ← nextStr; pure (i, p, n))
      let f := d.file i
      pure (d.setFile i { f with st := (C08.Op.hintAlias p n).run (mkCfg d) f.st }, [])
    | "hintnames" => do
      let (i, m) ← run (do
        let i ← nextReg
        let n ← nextNat
        let m ← rep n (do let p ← nextStr; let v ← nextStr; pure (p, v))
        pure (i, m))
      let f := d.file i
      pure (d.setFile i { f with st := (C08.Op.hintNames m).run (mkCfg d) f.st }, [])
    | "anon" => do
      let (i, ps) ← run (do let i ← nextReg; let n ← nextNat; let ps ← rep n nextStr; pure (i, ps))
      let f := d.file i
      pure (d.setFile i { f with st := ps.foldl (fun st p => (C08.Op.anon p).run (mkCfg d) st) f.st }, [])
    | "hc" => do
      let (i, t) ← run (do let i ← nextReg; let t ← nextStr; pure (i, t))
      let f := d.file i
      pure (d.setFile i { f with st := Registry.headerComment f.st t }, [])
    | "pc" => do
      let (i, t) ← run (do let i ← nextReg; let t ← nextStr; pure (i, t))
      let f := d.file i
      pure (d.setFile i { f with st := Registry.packageComment f.st t }, [])
    | "cgo" => do
      let (i, t) ← run (do let i ← nextReg; let t ← nextStr; pure (i, t))
      let f := d.file i
      pure (d.setFile i { f with st := Registry.cgoPreamble f.st t }, [])
    | "stmt" => do
      let (r, items) ← run (do let r ← nextReg; let items ← pSItems; pure (r, items))
      pure ({ d with heap := Heap.set d.heap r items }, [])
    | "app" => do
      let (r, items) ← run (do let r ← nextReg; let items ← pSItems; pure (r, items))
      pure ({ d with heap := Heap.append d.heap r items }, [])
    | "clone" => do
      let (a, b) ← run (do let a ← nextReg; let b ← nextReg; pure (a, b))
      pure ({ d with heap := Heap.clone d.heap a b }, [])
    | "fadd" => do
      let (i, args) ← run (do let i ← nextReg; let n ← nextNat; let args ← rep n pArg; pure (i, args))
      let f := d.file i
      pure (d.setFile i { f with body := f.body ++ [.stmt args] }, [])
    | "fnew" => do
      let (r, i, items) ← run (do let r ← nextReg; let i ← nextReg; let items ← pSItems; pure (r, i, items))
      let f := d.file i
      let d := { d with heap := Heap.set d.heap r items }
      pure (d.setFile i { f with body := f.body ++ [.ref r] }, [])
    | "gs" => do
      -- gs <F> <n> <decl>*n : declarations as GoSyn terms, built with the LEAN builder
      let (i, ds) ← run (do let i ← nextReg; let n ← nextNat; let ds ← rep n pDecl; pure (i, ds))
      let f := d.file i
      pure (d.setFile i { f with body := f.body ++ hOfCodes (ds.map GoSyn.buildD), syn := f.syn ++ ds }, [])
    | "render" => do
      let i ← run nextReg
      let f := d.file i
      let body := bodyCode d f
      let cfg := mkCfg d
      if misuse f.st.np (.group fileInfo body) then
        pure (d, ["E misuse"])
      else
        -- the history semantics the theorems of Props/C08 are about (`C08.Op.run`) is what runs here
        let r := ((renderFileRaw cfg f.st body).1, (C08.Op.renderFile body).run cfg f.st)
        let extra := if f.syn.isEmpty then [] else
          -- C01: the reference printer's text under the final naming
          let e : Code.Env := { np := r.2.np, name := fun p => (Registry.lookupImp r.2 p).name }
          [s!"P {esc (fileHead cfg.isPrint r.2 ++ renderImports cfg.isPrint r.2 ++ GoSyn.printFile e f.syn)}"]
        pure (d.setFile i { f with st := r.2 }, [s!"R {esc r.1}"] ++ extra)
    | "frag" => do
      let (s, i) ← run (do let s ← nextReg; let i ← nextReg; pure (s, i))
      let f := d.file i
      let c := Heap.resolve d.heap resolveFuel (.ref s)
      let cfg := mkCfg d
      if misuse f.st.np c then pure (d, ["E misuse"])
      else
        let r := ((renderS cfg f.st none c).1, (C08.Op.renderFrag c).run cfg f.st)
        pure (d.setFile i { f with st := r.2 }, [s!"R {esc r.1}"])
    | "gfrag" => do
      let (g, i) ← run (do let g ← nextReg; let i ← nextReg; pure (g, i))
      let gf := d.file g
      let f := d.file i
      let c := Code.group fileInfo (bodyCode d gf)
      let cfg := mkCfg d
      if misuse f.st.np c then pure (d, ["E misuse"])
      else
        let r := renderS cfg f.st none c
        pure (d.setFile i { f with st := r.2 }, [s!"R {esc r.1}"])
    | "gennames" => do
      -- gennames <standard> <novendor> <prefix-filter> <n> (<std> <path> <name>)*n : model of getPackages
      let (st, nv, pfx, ls) ← run (do
        let st ← next; let nv ← next; let pfx ← nextStr
        let n ← nextNat
        let ls ← rep n (do let a ← next; let p ← nextStr; let nm ← nextStr; pure ({ standard := a == "true", path := p, name := nm } : GenNames.Line))
        pure (st, nv, pfx, ls))
      let table := GenNames.getPackages (fun p => Str.isPrefixOf pfx p) (st == "1") (nv == "1") ls []
      let sorted := table.mergeSort (fun a b => Str.le a.1 b.1)
      pure (d, [s!"T {sorted.length} " ++ String.intercalate " " (sorted.map fun e => s!"{esc e.1} {esc e.2}")])
    | "fx" => do
      -- fx <file|save> <noformat> <misuse> <raw> <fmtok> <fmtout> <writerok> <fsok>
      let (kind, nf, mis, raw, fok, fout, wok, fsok) ← run (do
        let kind ← next; let nf ← next; let mis ← next; let raw ← nextStr
        let fok ← next; let fout ← nextStr; let wok ← next; let fsok ← next
        pure (kind, nf, mis, raw, fok, fout, wok, fsok))
      let w : World := { gofmt := fun _ => if fok == "1" then some fout else none,
                         writer := fun _ => wok == "1", fs := fun _ => fsok == "1" }
      let r := if kind == "save" then fileSaveFrom w (nf == "1") (mis == "1") raw
               else fileRenderFrom w (nf == "1") (mis == "1") raw
      pure (d, [s!"X {resStr r.1} {String.intercalate " " (r.2.map effStr)}"])
    | _ => throw s!"unknown command {cmd}"

partial def loop (h : IO.FS.Stream) (out : IO.FS.Stream) (d : DState) : IO Unit := do
  let line ← h.getLine
  if line.isEmpty then return ()
  match step d line with
  | .ok (d', outs) =>
    for o in outs do out.putStrLn o
    loop h out d'
  | .error e =>
    out.putStrLn s!"! {e}"
    loop h out d

def main : IO Unit := do
  let out ← IO.getStdout
  loop (← IO.getStdin) out {}
  out.flush
