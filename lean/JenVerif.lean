import JenVerif.Str
import JenVerif.Code
import JenVerif.Quote
import JenVerif.Lit
import JenVerif.Registry
import JenVerif.Render
import JenVerif.FileRender
import JenVerif.Heap
