import JenVerif.Str
/-
  Model of `strconv.Quote`, `strconv.QuoteRune`, `strconv.CanBackquote` and of the UTF-8
  decoder/encoder they are built on (Go 1.23 `strconv/quote.go`, `unicode/utf8`).

  `isPrint : Nat → Bool` (strconv.IsPrint) is a *parameter*: theorems assume only `PSafe`.
  ASCII is fixed inside the model (0x20 ≤ r < 0x7f), as in strconv.
-/

namespace Quote

def runeError : Nat := 0xFFFD
def maxRune : Nat := 0x10FFFF

def validRune (r : Nat) : Bool := (r < 0xD800) || (0xDFFF < r && r ≤ maxRune)

def isCont (b : UInt8) : Bool := 0x80 ≤ b && b ≤ 0xBF

/-- `utf8.DecodeRuneInString` : (rune, width); `(runeError, 1)` on any invalid or short
    sequence; `(runeError, 0)` on empty input. -/
def decodeRune : Str → Nat × Nat
  | [] => (runeError, 0)
  | b0 :: rest =>
    if b0 < 0x80 then (b0.toNat, 1)
    else if b0 < 0xC2 then (runeError, 1)
    else if b0 ≤ 0xDF then
      match rest with
      | b1 :: _ => if isCont b1 then ((b0.toNat - 0xC0) * 64 + (b1.toNat - 0x80), 2) else (runeError, 1)
      | _ => (runeError, 1)
    else if b0 ≤ 0xEF then
      match rest with
      | b1 :: b2 :: _ =>
        let lo : UInt8 := if b0 == 0xE0 then 0xA0 else 0x80
        let hi : UInt8 := if b0 == 0xED then 0x9F else 0xBF
        if lo ≤ b1 && b1 ≤ hi && isCont b2 then
          ((b0.toNat - 0xE0) * 4096 + (b1.toNat - 0x80) * 64 + (b2.toNat - 0x80), 3)
        else (runeError, 1)
      | _ => (runeError, 1)
    else if b0 ≤ 0xF4 then
      match rest with
      | b1 :: b2 :: b3 :: _ =>
        let lo : UInt8 := if b0 == 0xF0 then 0x90 else 0x80
        let hi : UInt8 := if b0 == 0xF4 then 0x8F else 0xBF
        if lo ≤ b1 && b1 ≤ hi && isCont b2 && isCont b3 then
          ((b0.toNat - 0xF0) * 262144 + (b1.toNat - 0x80) * 4096 + (b2.toNat - 0x80) * 64 + (b3.toNat - 0x80), 4)
        else (runeError, 1)
      | _ => (runeError, 1)
    else (runeError, 1)

/-- `utf8.AppendRune` (invalid runes are encoded as U+FFFD) -/
def encodeRune (r : Nat) : Str :=
  let r := if validRune r then r else runeError
  if r < 0x80 then [UInt8.ofNat r]
  else if r < 0x800 then [UInt8.ofNat (0xC0 + r / 64), UInt8.ofNat (0x80 + r % 64)]
  else if r < 0x10000 then
    [UInt8.ofNat (0xE0 + r / 4096), UInt8.ofNat (0x80 + (r / 64) % 64), UInt8.ofNat (0x80 + r % 64)]
  else
    [UInt8.ofNat (0xF0 + r / 262144), UInt8.ofNat (0x80 + (r / 4096) % 64),
     UInt8.ofNat (0x80 + (r / 64) % 64), UInt8.ofNat (0x80 + r % 64)]

def hex2 (b : Nat) : Str := [Str.hexDigit (b / 16 % 16), Str.hexDigit (b % 16)]
def hex4 (r : Nat) : Str := hex2 (r / 256) ++ hex2 (r % 256)
def hex8 (r : Nat) : Str := hex4 (r / 65536) ++ hex4 (r % 65536)

/-- strconv.IsPrint with the ASCII part fixed -/
def printable (isPrint : Nat → Bool) (r : Nat) : Bool :=
  if r < 0x80 then 0x20 ≤ r && r < 0x7F else isPrint r

/-- `appendEscapedRune(buf, r, quote, false, false)` -/
def escapeRune (isPrint : Nat → Bool) (q : UInt8) (r : Nat) : Str :=
  if r == q.toNat || r == 0x5C then [0x5C, UInt8.ofNat r]
  else if printable isPrint r then encodeRune r
  else if r == 7 then b!"\\a"
  else if r == 8 then b!"\\b"
  else if r == 12 then b!"\\f"
  else if r == 10 then b!"\\n"
  else if r == 13 then b!"\\r"
  else if r == 9 then b!"\\t"
  else if r == 11 then b!"\\v"
  else if r < 0x20 || r == 0x7F then b!"\\x" ++ hex2 r
  else
    let r := if validRune r then r else runeError
    if r < 0x10000 then b!"\\u" ++ hex4 r else b!"\\U" ++ hex8 r

/-- body of `appendQuotedWith` -/
def quoteBody (isPrint : Nat → Bool) (q : UInt8) : Nat → Str → Str
  | 0, _ => []
  | _, [] => []
  | fuel + 1, b0 :: rest =>
    let (r, w) := decodeRune (b0 :: rest)
    if w == 1 && r == runeError then
      b!"\\x" ++ hex2 b0.toNat ++ quoteBody isPrint q fuel rest
    else
      escapeRune isPrint q r ++ quoteBody isPrint q fuel ((b0 :: rest).drop w)

/-- `strconv.Quote` -/
def quote (isPrint : Nat → Bool) (s : Str) : Str :=
  [0x22] ++ quoteBody isPrint 0x22 s.length s ++ [0x22]

/-- `strconv.QuoteRune` on an `int32` value (invalid code points become U+FFFD) -/
def quoteRune (isPrint : Nat → Bool) (r : Int) : Str :=
  let n : Nat := if r < 0 then runeError else if validRune r.toNat then r.toNat else runeError
  [0x27] ++ escapeRune isPrint 0x27 n ++ [0x27]

/-- `strconv.CanBackquote` -/
def canBackquote : Nat → Str → Bool
  | 0, _ => true
  | _, [] => true
  | fuel + 1, b0 :: rest =>
    let (r, w) := decodeRune (b0 :: rest)
    if w > 1 then
      if r == 0xFEFF then false else canBackquote fuel ((b0 :: rest).drop w)
    else if r == runeError then false
    else if (r < 0x20 && r != 9) || r == 0x60 || r == 0x7F then false
    else canBackquote fuel rest

/-- assumption on the delegated `strconv.IsPrint` (non-ASCII part): validated exhaustively
    against the real function by the harness, and proved for the regenerated range table. -/
def PSafe (isPrint : Nat → Bool) : Prop :=
  ∀ r, isPrint r = true → 0x80 ≤ r ∧ validRune r = true ∧ r ≠ 0xFEFF

end Quote
