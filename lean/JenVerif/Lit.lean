import JenVerif.Quote
import JenVerif.Code
/-
  Literal rendering (jen/tokens.go:39-76): exactly jennifer's case split over the value's type.
  `fmt`'s `%#v`: signed integers in decimal, unsigned in `0x` lower-case hex, strings through
  `strconv.Quote`, bools as `true`/`false`, floats through `strconv.FormatFloat(v,'g',-1,bits)`
  (the text is carried by the value, see `LitVal`), complex as `(re±imi)`.
-/
namespace Lit

/-- `%#v` of an integer of the given signedness (an unsigned value is never negative) -/
def fmtInt (signed : Bool) (v : Int) : Str :=
  if signed then Str.intDec v else b!"0x" ++ Str.natHex v.toNat

/-- the `+` flag of fmt applied to an already formatted float text -/
def forceSign (t : Str) : Str :=
  match t with
  | 45 :: _ => t
  | 43 :: _ => t
  | _ => 43 :: t

def fmtComplex (re im : Str) : Str := b!"(" ++ re ++ forceSign im ++ b!"i)"

/-- jennifer's float64 fix-up: append ".0" unless the text has a '.' or an 'e' -/
def floatFix (t : Str) : Str :=
  if !t.elem 46 && !t.elem 101 then t ++ b!".0" else t

def render (isPrint : Nat → Bool) : LitVal → Str
  | .bool true => b!"true"
  | .bool false => b!"false"
  | .str s => Quote.quote isPrint s
  | .int v => Str.intDec v
  | .sized ty v => ty.name ++ b!"(" ++ fmtInt ty.signed v ++ b!")"
  | .f64 t => floatFix t
  | .f32 t => b!"float32(" ++ t ++ b!")"
  | .c128 re im => fmtComplex re im
  | .c64 re im => b!"complex64" ++ fmtComplex re im
  | .rune r => Quote.quoteRune isPrint r
  | .byte b => b!"byte(0x" ++ Str.natHex b.toNat ++ b!")"

end Lit
