import JenVerif.Props.Common
import JenVerif.Lemmas.PermLemmas
/-
  C19 — Cgo: the "C" import is never renamed and its preamble sits directly above it.
-/
namespace C19
open Code Registry RegistryInv RegistryGood Refine Props PermLemmas

/-- "C" is registered as ("C", not aliased) whatever the hints and the prefix, in every state
    that satisfies the registry invariant -/
theorem C_registered_as_C {cfg : Cfg} {f : FileS} (hI : Inv cfg f) (hl : isLocal f b!"C" = false) :
    (register cfg f b!"C").1 = b!"C" ∧ lookupImp (register cfg f b!"C").2 b!"C" = ⟨b!"C", false⟩ :=
  register_C hI hl

/-- "C" is never a dot import and never null (unless it is the file's own path) -/
theorem C_never_dot (f : FileS) : isDotImport f b!"C" = false := by simp [isDotImport]

/-- a reference `Qual("C", n)` renders as `C.n`, whatever hints name "C" -/
theorem C_qualifier {cfg : Cfg} {f : FileS} (hI : Inv cfg f) (prev : Option Code) (n : Str) (hl : isLocal f b!"C" = false) :
    (renderS cfg f prev (Code.qual b!"C" n)).1 = b!"C." ++ n := by
  have h1 := register_C (cfg := cfg) hI hl
  have hnp : (register cfg f b!"C").2.np b!"C" = false := by
    have hp := (register_frame cfg f b!"C").2.2.1
    simp [FileS.np, isDotImport, isLocal, hp]
    simpa [isLocal] using hl
  have hreg : isReg (register cfg f b!"C").2 b!"C" = true := by
    simp [isReg, h1.2]
  have hl1 : isLocal (register cfg f b!"C").2 b!"C" = false := by
    have hp := (register_frame cfg f b!"C").2.2.1
    simpa [isLocal, hp] using hl
  rw [C06_renderS_qual]
  simp only [hnp, Bool.false_eq_true, if_false]
  rw [register_reg hl1 hreg, h1.2]
  rfl
where
  C06_renderS_qual : ∀ {cfg : Cfg} {f : FileS} {prev : Option Code} {p n : Str},
      renderS cfg f prev (Code.qual p n) =
        if (register cfg f p).2.np p then (n, (register cfg f p).2)
        else ((register cfg (register cfg f p).2 p).1 ++ b!"." ++ n, (register cfg (register cfg f p).2 p).2) := by
    intro cfg f prev p n
    simp only [Code.qual, renderS, qualInfo, renderItemsS, isNull, allNull, effDelims, closeSep, itemLead]
    by_cases h : (register cfg f p).2.np p = true
    · simp [h]
    · simp [h]

/-- the import spec printed for "C" never carries a name — also for the Anon entry `_` -/
theorem C_never_aliased_in_block (isPrint : Nat → Bool) (d : Def) :
    importSpec isPrint (b!"C", d) = Quote.quote isPrint b!"C" := by
  simp [importSpec]

/-- with a preamble: the main block lists everything but "C"; then the preamble comments in the
    order given, each followed by a newline; then `import "C"` as its own declaration -/
theorem preamble_layout (isPrint : Nat → Bool) (f : FileS) (h : f.cgo ≠ []) :
    renderImports isPrint f =
      importsMain isPrint (f.imports.filter fun e => !(e.1 == b!"C")) ++
      (f.cgo.map fun c => renderComment c ++ b!"\n").flatten ++ b!"import \"C\"\n\n" := by
  have he : f.cgo.isEmpty = false := by simpa using h
  rw [renderImports_eq]
  simp [he, commentLines]

/-- without a preamble "C" is listed with the other imports and nothing follows the block -/
theorem no_preamble_layout (isPrint : Nat → Bool) (f : FileS) (h : f.cgo = []) :
    renderImports isPrint f = importsMain isPrint f.imports := by
  rw [renderImports_eq]
  simp only [h, List.isEmpty_nil, Bool.not_true, Bool.and_false, Bool.not_false, Bool.false_eq_true, if_false,
    List.append_nil]
  congr 1
  exact List.filter_eq_self.mpr (fun _ _ => rfl)

/-- `import "C"` is printed iff "C" is in the table (referenced or Anon'd) or a preamble exists -/
theorem present_iff (isPrint : Nat → Bool) (f : FileS) :
    (f.cgo ≠ [] → ∃ pre, renderImports isPrint f = pre ++ b!"import \"C\"\n\n") ∧
    (f.cgo = [] → renderImports isPrint f = importsMain isPrint f.imports) := by
  refine ⟨fun h => ⟨_, by rw [preamble_layout isPrint f h]⟩, no_preamble_layout isPrint f⟩

-- non-vacuity: a file with a preamble and two imports
example : renderImports (fun _ => false) { imports := [(b!"C", ⟨b!"C", false⟩), (b!"fmt", ⟨b!"fmt", false⟩)], cgo := [b!"#include <a.h>"] } =
    b!"import \"fmt\"\n\n// #include <a.h>\nimport \"C\"\n\n" := by decide

end C19
