import JenVerif.Lemmas.RegistryGood
import JenVerif.Gen.Reserved
import JenVerif.Gen.StdHints
/-
  Instantiation of the model's parameters with the tables REGENERATED from /repo:
  `reserved` (jen/reserved.go) and `standardLibraryHints` (jen/hints.go).
  `isValidAlias` additionally rejects the name `C` (taken by cgo), hence `b!"C" :: Gen.reserved`.
-/
namespace Props
open RegistryInv

def cfgOf (toLower : Str → Str) (isPrint : Nat → Bool) : Cfg :=
  { toLower := toLower, isPrint := isPrint, reserved := b!"C" :: Gen.reserved, stdHints := Gen.stdHints }

/-- decidable form of `StdOk` over the regenerated table -/
def stdOkB (t : List (Str × Str)) : Bool := t.all fun e => e.2.isEmpty || (isIdent e.2 && e.2 != b!"_")

theorem stdOk_of_check {cfg : Cfg} (h : stdOkB cfg.stdHints = true) : StdOk cfg := by
  intro p n hm
  have := List.all_eq_true.mp h (p, n) hm
  simp only [Bool.or_eq_true, Bool.and_eq_true, List.isEmpty_iff, bne_iff_ne, ne_eq] at this
  rcases this with h0 | ⟨h1, h2⟩
  · exact Or.inl h0
  · exact Or.inr ⟨h1, h2⟩

/-- OBLIGATION (regenerated table): every name in `standardLibraryHints` is an identifier -/
theorem stdHints_check : stdOkB Gen.stdHints = true := by decide +kernel

theorem stdOk (toLower : Str → Str) (isPrint : Nat → Bool) : StdOk (cfgOf toLower isPrint) :=
  stdOk_of_check stdHints_check

end Props
