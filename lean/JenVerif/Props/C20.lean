import JenVerif.Heap
import JenVerif.Lemmas.ListSem
import JenVerif.Gen.Api
/-
  C20 — Clone isolation: clones and originals never corrupt each other.
  Heap model: statements are registers; `Clone` makes a new statement whose single item is a
  REFERENCE to the original; every builder method appends in place to its receiver.
-/
namespace C20
open Heap

theorem get_set_self (h : Heap) (r : Nat) (xs : List HCode) : get (set h r xs) r = xs := by
  induction h with
  | nil => simp [Heap.set, Heap.get]
  | cons e rest ih =>
    obtain ⟨r', it⟩ := e
    by_cases hr : (r' == r) = true
    · simp [Heap.set, Heap.get, hr]
    · simp [Heap.set, Heap.get, hr, ih]

theorem get_set_other (h : Heap) (r q : Nat) (xs : List HCode) (hq : q ≠ r) : get (set h r xs) q = get h q := by
  induction h with
  | nil =>
    have : (r == q) = false := by simpa using fun e => hq e.symm
    simp [Heap.set, Heap.get, this]
  | cons e rest ih =>
    obtain ⟨r', it⟩ := e
    by_cases hr : (r' == r) = true
    · have e1 : r' = r := by simpa using hr
      have : (r == q) = false := by simpa using fun e => hq e.symm
      subst e1
      simp [Heap.set, Heap.get, this]
    · simp [Heap.set, Heap.get, hr, ih]

/-- tokens appended to a statement are kept, in order, after everything it held before -/
theorem append_self (h : Heap) (c : Nat) (xs : List HCode) : get (append h c xs) c = get h c ++ xs :=
  get_set_self h c _

/-- appending to one statement (a clone, say) leaves the items of every OTHER statement — the
    original, sibling clones — untouched -/
theorem append_other (h : Heap) (c o : Nat) (xs : List HCode) (ho : o ≠ c) : get (append h c xs) o = get h o :=
  get_set_other h c o _ ho

/-- a fresh clone is one reference to the original; cloning changes no other statement -/
theorem clone_self (h : Heap) (d s : Nat) : get (clone h d s) d = [.ref s] := get_set_self h d _
theorem clone_other (h : Heap) (d s o : Nat) (ho : o ≠ d) : get (clone h d s) o = get h o := get_set_other h d o _ ho

/-- OBLIGATION (regenerated from /repo on every check): the body of `Statement.Clone` is exactly
    `return &Statement{s}` — a NEW statement whose single item is the receiver pointer — which is
    what `Heap.clone` says (`set h dst [.ref src]`).  A Clone that copies, splices, shares a
    backing array or looks through nested clones has another shape and breaks this obligation. -/
theorem clone_is_wrap :
    Gen.api.any (fun d => d.name == b!"Clone" && d.recv == Gen.Recv.stmt && d.shape == Gen.Shape.cloneWrap && d.nparams == 0) = true := by
  decide +kernel

/-! ### snapshots: references point to older statements -/

mutual
/-- every reference inside `t` points to a register below `c` -/
def refsBelow (c : Nat) : HCode → Bool
  | .ref r => r < c
  | .group _ items => refsBelowL c items
  | .stmt items => refsBelowL c items
  | .dict ps => refsBelowP c ps
  | _ => true
def refsBelowL (c : Nat) : List HCode → Bool
  | [] => true
  | t :: ts => refsBelow c t && refsBelowL c ts
def refsBelowP (c : Nat) : List (HCode × HCode) → Bool
  | [] => true
  | (k, v) :: ps => refsBelow c k && refsBelow c v && refsBelowP c ps
end

/-- the heap invariant kept by every history in which a statement only ever receives
    references to statements created before it (Clone, Add(s) of an existing statement) -/
def Older (h : Heap) : Prop := ∀ r, refsBelowL r (get h r) = true

theorem refsBelowL_mono {c d : Nat} (hcd : c ≤ d) : ∀ t : HCode, refsBelow c t = true → refsBelow d t = true := by
  intro t
  exact refsBelow_mono_aux hcd t
where
  refsBelow_mono_aux {c d : Nat} (hcd : c ≤ d) : ∀ t : HCode, refsBelow c t = true → refsBelow d t = true
    | .ref r, h => by simp [refsBelow] at h ⊢; omega
    | .nilc, _ => by simp [refsBelow]
    | .tok _ _, _ => by simp [refsBelow]
    | .lit _, _ => by simp [refsBelow]
    | .group _ items, h => by simp only [refsBelow] at h ⊢; exact monoL hcd items h
    | .stmt items, h => by simp only [refsBelow] at h ⊢; exact monoL hcd items h
    | .dict ps, h => by simp only [refsBelow] at h ⊢; exact monoP hcd ps h
    | .tag _, _ => by simp [refsBelow]
    | .comment _, _ => by simp [refsBelow]
  monoL {c d : Nat} (hcd : c ≤ d) : ∀ ts : List HCode, refsBelowL c ts = true → refsBelowL d ts = true
    | [], _ => by simp [refsBelowL]
    | t :: ts, h => by
        simp only [refsBelowL, Bool.and_eq_true] at h ⊢
        exact ⟨refsBelow_mono_aux hcd t h.1, monoL hcd ts h.2⟩
  monoP {c d : Nat} (hcd : c ≤ d) : ∀ ps : List (HCode × HCode), refsBelowP c ps = true → refsBelowP d ps = true
    | [], _ => by simp [refsBelowP]
    | (k, v) :: ps, h => by
        simp only [refsBelowP, Bool.and_eq_true] at h ⊢
        exact ⟨⟨refsBelow_mono_aux hcd k h.1.1, refsBelow_mono_aux hcd v h.1.2⟩, monoP hcd ps h.2⟩

mutual
/-- a term whose references are all below `c` resolves the same before and after anything is
    appended to statement `c` (or to any statement ≥ c) -/
theorem resolve_frame (h : Heap) (hO : Older h) (c : Nat) (xs : List HCode) :
    ∀ (fuel : Nat) (t : HCode), refsBelow c t = true → resolve (append h c xs) fuel t = resolve h fuel t
  | 0, _, _ => by simp [resolve]
  | fuel + 1, .ref r, ht => by
      have hr : r < c := by simpa [refsBelow] using ht
      have hne : r ≠ c := by omega
      simp only [resolve, append_other h c r xs hne]
      rw [resolveList_frame h hO c xs fuel (get h r) (refsBelowL_mono.monoL (c := r) (d := c) (by omega) _ (hO r))]
  | fuel + 1, .nilc, _ => by simp [resolve]
  | fuel + 1, .tok _ _, _ => by simp [resolve]
  | fuel + 1, .lit _, _ => by simp [resolve]
  | fuel + 1, .group g items, ht => by
      simp only [refsBelow] at ht
      simp only [resolve, resolveList_frame h hO c xs fuel items ht]
  | fuel + 1, .stmt items, ht => by
      simp only [refsBelow] at ht
      simp only [resolve, resolveList_frame h hO c xs fuel items ht]
  | fuel + 1, .dict ps, ht => by
      simp only [refsBelow] at ht
      simp only [resolve, resolvePairs_frame h hO c xs fuel ps ht]
  | fuel + 1, .tag _, _ => by simp [resolve]
  | fuel + 1, .comment _, _ => by simp [resolve]
theorem resolveList_frame (h : Heap) (hO : Older h) (c : Nat) (xs : List HCode) :
    ∀ (fuel : Nat) (ts : List HCode), refsBelowL c ts = true → resolveList (append h c xs) fuel ts = resolveList h fuel ts
  | 0, _, _ => by simp [resolveList]
  | fuel + 1, [], _ => by simp [resolveList]
  | fuel + 1, t :: ts, ht => by
      simp only [refsBelowL, Bool.and_eq_true] at ht
      simp only [resolveList, resolve_frame h hO c xs fuel t ht.1, resolveList_frame h hO c xs fuel ts ht.2]
theorem resolvePairs_frame (h : Heap) (hO : Older h) (c : Nat) (xs : List HCode) :
    ∀ (fuel : Nat) (ps : List (HCode × HCode)), refsBelowP c ps = true → resolvePairs (append h c xs) fuel ps = resolvePairs h fuel ps
  | 0, _, _ => by simp [resolvePairs]
  | fuel + 1, [], _ => by simp [resolvePairs]
  | fuel + 1, (k, v) :: ps, ht => by
      simp only [refsBelowP, Bool.and_eq_true] at ht
      simp only [resolvePairs, resolve_frame h hO c xs fuel k ht.1.1, resolve_frame h hO c xs fuel v ht.1.2,
        resolvePairs_frame h hO c xs fuel ps ht.2]
end

/-- MAIN: anything appended to a clone `c` (a newer statement) leaves the SNAPSHOT — hence the
    rendering under every file — of the original `o` unchanged, for every fuel -/
theorem clone_append_frames_original (h : Heap) (hO : Older h) (o c : Nat) (hoc : o < c) (xs : List HCode) (fuel : Nat) :
    resolve (append h c xs) fuel (.ref o) = resolve h fuel (.ref o) :=
  resolve_frame h hO c xs fuel (.ref o) (by simp [refsBelow, hoc])

/-- the snapshot of a clone is the snapshot of its original AS IT IS NOW followed by the clone's
    own tokens, in order (later appends to the original show through the reference, later
    appends to the clone follow it) -/
theorem clone_tokens_kept_in_order (h : Heap) (d s : Nat) (own : List HCode) (fuel : Nat)
    (hd : get h d = .ref s :: own) :
    resolve h (fuel + 2) (.ref d) =
      .stmt (resolve h fuel (.ref s) :: resolveList h fuel own) := by
  cases fuel with
  | zero => simp [resolve, resolveList, hd]
  | succ n => simp [resolve, resolveList, hd]

/-- a statement wrapping one statement renders like the inner one -/
theorem wrapper_renders_same (cfg : Cfg) (e : Code.Env) (xs : List Code) :
    Code.renderP cfg e none (.stmt [.stmt xs]) = Code.renderP cfg e none (.stmt xs) := by
  simp only [Code.renderP, Code.renderStmtP, Code.isNull]
  by_cases hn : Code.allNull e.np xs = true
  · simp only [hn, if_true]
    exact (allNull_renders_nothing cfg e xs true none hn).symm
  · simp [hn]
where
  allNull_renders_nothing (cfg : Cfg) (e : Code.Env) : ∀ (xs : List Code) (first : Bool) (prev : Option Code),
      Code.allNull e.np xs = true → Code.renderStmtP cfg e first prev xs = []
    | [], _, _, _ => by simp [Code.renderStmtP]
    | x :: xs, first, prev, h => by
        simp only [Code.allNull, Bool.and_eq_true] at h
        simp [Code.renderStmtP, h.1, allNull_renders_nothing cfg e xs first (some x) h.2]

/-- an unmodified clone renders exactly like its original (under every file / naming): its
    snapshot is a one-item statement wrapping the original's snapshot -/
theorem fresh_clone_renders_same (cfg : Cfg) (e : Code.Env) (h : Heap) (d s : Nat) (fuel : Nat) :
    Code.renderP cfg e none (resolve (clone h d s) (fuel + 3) (.ref d)) =
      Code.renderP cfg e none (resolve (clone h d s) (fuel + 1) (.ref s)) := by
  have hd : get (clone h d s) d = [.ref s] := clone_self h d s
  simp only [resolve, resolveList, hd]
  exact wrapper_renders_same cfg e _

-- non-vacuity: original S1 = [a], clone S2 of S1, then `b` appended to the clone and `c` to the
-- original: the clone shows a c b, the original a c
example :
    let h0 : Heap := set [] 1 [.tok .ident b!"a"]
    let h1 := clone h0 2 1
    let h2 := append h1 2 [.tok .ident b!"b"]
    let h3 := append h2 1 [.tok .ident b!"c"]
    get h3 1 = [.tok .ident b!"a", .tok .ident b!"c"] ∧ get h3 2 = [.ref 1, .tok .ident b!"b"] := ⟨rfl, rfl⟩

end C20
