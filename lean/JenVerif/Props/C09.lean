import JenVerif.Lemmas.Frame
import JenVerif.Gen.Globals
/-
  C09 — Files do not interfere: no hidden global state, safe to build concurrently.

  What Lean carries: (1) the regenerated fact that package jen has no writable package-level
  state; (2) non-interference of any interleaving of operations on several Files in the model,
  where all state is explicit; (3) a Code value shared by Files renders in each File as a
  function of THAT File's state only (the tree is an immutable value: after the D5 repair
  rendering mutates nothing in it).  What Lean cannot exhibit: the Go memory model and the
  scheduler ("free of data races") — supported by the race detector run of the harness.
-/
namespace C09
open Code

/-- OBLIGATION (regenerated): no function of package jen (outside `init`) writes — assigns,
    appends to, increments, deletes from, takes the address of — a package-level variable, calls a
    method on one (other than a compiled regexp, which is read-only) or hands one to another
    function: the package-level variables are inert tables, there is no hidden global state -/
theorem no_global_state : Gen.globalWrites = [] ∧ Gen.globalSuspicious = [] := by
  decide

/-- operations on a family of Files, each naming the File it acts on -/
inductive Op
  | hintName (p n : Str)
  | hintAlias (p n : Str)
  | anon (p : Str)
  | render (body : List Code)
  | frag (c : Code)

def Op.run (cfg : Cfg) (f : FileS) : Op → FileS × Option Str
  | .hintName p n => (Registry.importName f p n, none)
  | .hintAlias p n => (Registry.importAlias f p n, none)
  | .anon p => (Registry.anon f p, none)
  | .render body => ((renderFileRaw cfg f body).2, some (renderFileRaw cfg f body).1)
  | .frag c => ((renderS cfg f none c).2, some (renderS cfg f none c).1)

abbrev Files := Nat → FileS

def upd (fs : Files) (i : Nat) (f : FileS) : Files := fun j => if j = i then f else fs j

/-- run an interleaved history; collect (file index, output) of every render -/
def runAll (cfg : Cfg) : Files → List (Nat × Op) → Files × List (Nat × Str)
  | fs, [] => (fs, [])
  | fs, (i, op) :: rest =>
    let r := op.run cfg (fs i)
    let t := runAll cfg (upd fs i r.1) rest
    (t.1, (match r.2 with | some o => [(i, o)] | none => []) ++ t.2)

/-- run the projection of the history on file i alone -/
def runOne (cfg : Cfg) : FileS → List Op → FileS × List Str
  | f, [] => (f, [])
  | f, op :: rest =>
    let r := op.run cfg f
    let t := runOne cfg r.1 rest
    (t.1, (match r.2 with | some o => [o] | none => []) ++ t.2)

def proj (i : Nat) (h : List (Nat × Op)) : List Op := (h.filter fun e => e.1 == i).map (·.2)
def outs (i : Nat) (o : List (Nat × Str)) : List Str := (o.filter fun e => e.1 == i).map (·.2)

/-- NON-INTERFERENCE: in every interleaved history over any number of Files, the outputs of
    File i's renders and its final state are those of the history projected on File i — building
    or rendering other Files before or in between never changes them -/
theorem noninterference (cfg : Cfg) (i : Nat) : ∀ (h : List (Nat × Op)) (fs : Files),
    (runAll cfg fs h).1 i = (runOne cfg (fs i) (proj i h)).1 ∧
    outs i (runAll cfg fs h).2 = (runOne cfg (fs i) (proj i h)).2
  | [], fs => by simp [runAll, runOne, proj, outs]
  | (j, op) :: rest, fs => by
      have ih := noninterference cfg i rest (upd fs j (op.run cfg (fs j)).1)
      by_cases hj : j = i
      · subst hj
        have hu : upd fs j (op.run cfg (fs j)).1 j = (op.run cfg (fs j)).1 := by simp [upd]
        rw [hu] at ih
        simp only [runAll, proj, List.filter_cons, beq_self_eq_true, if_true, List.map_cons, runOne]
        refine ⟨ih.1, ?_⟩
        have hp : proj j rest = (rest.filter fun e => e.1 == j).map (·.2) := rfl
        rw [← hp, ← ih.2]
        cases (op.run cfg (fs j)).2 <;> simp [outs]
      · have hij : ¬ i = j := fun e => hj e.symm
        have hu : upd fs j (op.run cfg (fs j)).1 i = fs i := by
          simp only [upd, hij, if_false]
        rw [hu] at ih
        have hji : (j == i) = false := by simpa using hj
        simp only [runAll, proj, List.filter_cons, hji, Bool.false_eq_true, if_false]
        refine ⟨ih.1, ?_⟩
        have hp : proj i rest = (rest.filter fun e => e.1 == i).map (·.2) := rfl
        rw [← hp, ← ih.2]
        cases (op.run cfg (fs j)).2 <;> simp [outs, hji]

/-- a Code value shared by Files rendered one after another renders in File B exactly as in a
    history without File A: rendering is a function of (the File's state, the value) -/
theorem shared_code_per_file (cfg : Cfg) (c : Code) (fa fb : FileS) :
    (runAll cfg (fun j => if j = 0 then fa else fb) [(0, .frag c), (1, .frag c)]).2 =
      [(0, (renderS cfg fa none c).1), (1, (renderS cfg fb none c).1)] := by
  simp [runAll, Op.run, upd]

/-- a File's output does not depend on any field of the File other than the ones documented:
    the registry fields are read by the renderer, the rest only by the head of the file -/
theorem output_depends_only_on_own_state (cfg : Cfg) (f g : FileS) (prev : Option Code) (c : Code) :
    (renderS cfg (Frame.setRest f g) prev c).1 = (renderS cfg f prev c).1 := (Frame.renderS_frame cfg c f g prev).1

end C09
