import JenVerif.Props.Common
import JenVerif.Lemmas.Frame
import JenVerif.Lemmas.PermLemmas
/-
  C03 — Every qualified identifier resolves to the package it was built with.
-/
namespace C03
open Code Registry RegistryInv RegistryGood Refine Frame Props PermLemmas

/-- the unformatted file is: head ++ import block ++ body, where the body is the PURE rendering
    under the FINAL table `f1` and the import block is printed from that same table: a
    qualifier written for path p is exactly `(lookupImp f1 p).name`, in every place of the file -/
theorem file_uses_final_table {cfg : Cfg} {f : FileS} (hH : HintsOk f) (hS : StdOk cfg) (body : List Code) :
    let f1 := (renderFileRaw cfg f body).2
    (renderFileRaw cfg f body).1 =
      fileHead cfg.isPrint f1 ++ renderImports cfg.isPrint f1 ++ renderP cfg (envOf f1) none (.group fileInfo body) ∧
    ∀ p, renderP cfg (envOf f1) none (.tok .pkg p) = (lookupImp f1 p).name :=
  ⟨(renderFileRaw_pure cfg f body (good_of_hintsOk hH hS)).2, fun _ => rfl⟩

/-- the same path is referred to by the same qualifier everywhere, also across later renders:
    a registered name never changes -/
theorem same_path_same_name (cfg : Cfg) (f : FileS) (p q : Str) (hq : isReg f q = true) :
    lookupImp (register cfg f p).2 q = lookupImp f q := register_keeps hq

/-- the import block lists every table entry (except "C" when a preamble exists) exactly once:
    the printed specs are the entries sorted by path … -/
theorem block_lists_table (isPrint : Nat → Bool) (f : FileS) :
    renderImports isPrint f =
      importsMain isPrint (f.imports.filter fun e => !(e.1 == b!"C" && !f.cgo.isEmpty)) ++
        (if !f.cgo.isEmpty then commentLines f.cgo ++ b!"import \"C\"\n\n" else []) :=
  renderImports_eq isPrint f

/-- … and the spec for path p binds exactly the registered name: `name "p"` for an alias,
    `"p"` alone otherwise -/
theorem spec_binds_name (isPrint : Nat → Bool) (p : Str) (d : Def) (hC : p ≠ b!"C") :
    importSpec isPrint (p, d) = if d.alias then d.name ++ b!" " ++ Quote.quote isPrint p else Quote.quote isPrint p := by
  simp [importSpec, hC]

/-- when no alias is written, the qualifier is the package's real name: the user's ImportName
    or the standard-library table's entry — never a guess -/
theorem unaliased_is_real_name (cfg : Cfg) (f : FileS) (p : Str) (h : (chooseDef cfg f p).alias = false) :
    ((lookupHint f p).name ≠ [] ∧ (lookupHint f p).alias = false ∧ (chooseDef cfg f p).name = (lookupHint f p).name) ∨
    ((lookupHint f p).name = [] ∧ stdHint cfg p ≠ [] ∧ (chooseDef cfg f p).name = stdHint cfg p) := by
  have hn : (chooseDef cfg f p).name = (chooseBase cfg f p).1 := by
    by_cases h' : (chooseDef cfg f p).name = (chooseBase cfg f p).1
    · exact h'
    · have := renamed_is_aliased cfg f p h'
      rw [h] at this; cases this
  have hb : (chooseBase cfg f p).2 = false := by
    rw [chooseDef_eq] at h
    simp only [Bool.or_eq_false_iff] at h
    exact h.1
  by_cases hu : (lookupHint f p).name = []
  · right
    by_cases hs : stdHint cfg p = []
    · have : chooseBase cfg f p = (guessAlias cfg.toLower p, true) := by simp [chooseBase, hu, hs]
      rw [this] at hb; cases hb
    · refine ⟨hu, hs, ?_⟩
      rw [hn]; simp [chooseBase, hu, hs]
  · left
    have e : chooseBase cfg f p = ((lookupHint f p).name, (lookupHint f p).alias) := by simp [chooseBase, hu]
    rw [e] at hb hn
    exact ⟨hu, hb, hn⟩

/-- if the uniquifier or the prefix changed the candidate, the entry is an explicit alias: a
    name the package does not declare is never left un-aliased -/
theorem renamed_is_aliased (cfg : Cfg) (f : FileS) (p : Str) :
    (chooseDef cfg f p).name ≠ (chooseBase cfg f p).1 → (chooseDef cfg f p).alias = true :=
  RegistryInv.renamed_is_aliased cfg f p

/-- a path first Anon'd and then referenced is registered under a real name, never `_` -/
theorem anon_then_referenced {cfg : Cfg} {f : FileS} (hH : HintsOk f) (hS : StdOk cfg) (p : Str)
    (hl : isLocal f p = false) :
    let f' := anon f p
    (register cfg f' p).1 ≠ b!"_" ∧ (register cfg f' p).1 ≠ [] ∧
    (lookupImp (register cfg f' p).2 p).name = (register cfg f' p).1 := by
  have hH' : HintsOk (anon f p) := anon_hintsOk hH p
  have hl' : isLocal (anon f p) p = false := hl
  have := register_returns_stored (cfg := cfg) hH' hS hl'
  exact ⟨this.2.2, this.2.1, this.1⟩

/-- every referenced non-local path is in the table under a real name after the render, so its
    qualifier is bound by the block (C04 gives exactness) -/
theorem referenced_is_bound {cfg : Cfg} {f : FileS} (hH : HintsOk f) (hS : StdOk cfg) (body : List Code) (p : Str)
    (hv : visitsItems f.np body p = true) (hl : isLocal f p = false) :
    isReg (renderFileRaw cfg f body).2 p = true :=
  (file_imports_exact cfg f body (good_of_hintsOk hH hS) p).2 hv hl

/-- COMPOSITE: after rendering a File, for every referenced non-local path p: the table has
    exactly one entry for p, its name d.name is what every reference to p prints, it is a real
    name (never "", never `_`), and the import block's spec for p is `d.name "p"` when d is an
    alias and `"p"` when it is not — in which case d.name is the user's ImportName or the
    standard-library table's name.  (A dot import is the alias ".": references print bare.) -/
theorem qualifier_is_bound {cfg : Cfg} {f : FileS} (hH : HintsOk f) (hS : StdOk cfg) (hI : Inv cfg f)
    (hI1 : Inv cfg (renderFileRaw cfg f body).2) (p : Str)
    (hv : visitsItems f.np body p = true) (hl : isLocal f p = false) (hC : p ≠ b!"C") :
    let f1 := (renderFileRaw cfg f body).2
    let d := lookupImp f1 p
    (p, d) ∈ f1.imports ∧ d.name ≠ [] ∧ d.name ≠ b!"_" ∧
    renderP cfg (envOf f1) none (.tok .pkg p) = d.name ∧
    (∀ e, (p, e) ∈ f1.imports → e = d) ∧
    importSpec cfg.isPrint (p, d) =
      (if d.alias then d.name ++ b!" " ++ Quote.quote cfg.isPrint p else Quote.quote cfg.isPrint p) := by
  have hreg := referenced_is_bound hH hS body p hv hl
  have hn := (isReg_iff _ p).mp hreg
  have hmem := lookupImp_mem hn.1
  refine ⟨hmem, hn.1, hn.2, rfl, ?_, spec_binds_name cfg.isPrint p _ hC⟩
  intro e he
  -- one entry per path
  have nd := hI1.keysDistinct
  have : AList.lookup (renderFileRaw cfg f body).2.imports p = some e := lookup_of_mem_nodup nd he
  simp [lookupImp, this]
where
  lookup_of_mem_nodup {β} {m : List (Str × β)} {k : Str} {v : β} (nd : (m.map (·.1)).Nodup) (h : (k, v) ∈ m) :
      AList.lookup m k = some v := by
    induction m with
    | nil => cases h
    | cons e rest ih =>
      obtain ⟨k', v'⟩ := e
      simp only [List.map_cons, List.nodup_cons] at nd
      simp only [List.mem_cons] at h
      rcases h with h | h
      · cases h; simp [AList.lookup]
      · have hne : (k' == k) = false := by
          cases hk : (k' == k)
          · rfl
          · have : k' = k := by simpa using hk
            subst this
            exact absurd (List.mem_map.mpr ⟨(k', v), h, rfl⟩) nd.1
        simp only [AList.lookup, hne, Bool.false_eq_true, if_false]
        exact ih nd.2 h

end C03
