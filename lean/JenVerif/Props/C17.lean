import JenVerif.Lemmas.TagRT
/-
  C17 — Struct tags round-trip through reflect.StructTag.
  Spec side: `StructTag.lookup` (transcribed from reflect.StructTag.Lookup, Go 1.23) and
  `GoLex` (Go's string literal syntax).
-/
namespace C17
open TagRT

/-- for every map with distinct conventional keys and ARBITRARY byte-string values, the one
    literal that `Tag` renders, read as Go source and looked up with reflect's algorithm, gives
    back exactly the value for every key: both quoting layers are inverted -/
theorem lookup_roundtrip {isPrint : Nat → Bool} (h : Quote.PSafe isPrint) (m : List (Str × Str))
    (nd : (m.map (·.1)).Nodup) (hk : ∀ kv ∈ m, StructTag.convKey kv.1 = true) (kv : Str × Str) (hm : kv ∈ m) (rest : Str) :
    (readGoLiteral (renderTag isPrint m ++ rest)).bind (fun r => StructTag.lookup r.1 kv.1) = some kv.2 :=
  TagRT.lookup_roundtrip h m nd hk kv hm rest

/-- a key that was not given is not found -/
theorem lookup_absent {isPrint : Nat → Bool} (h : Quote.PSafe isPrint) (m : List (Str × Str))
    (hk : ∀ kv ∈ m, StructTag.convKey kv.1 = true) (key : Str) (hne : ∀ kv ∈ m, kv.1 ≠ key) (rest : Str) :
    (readGoLiteral (renderTag isPrint m ++ rest)).bind (fun r => StructTag.lookup r.1 key) = none :=
  TagRT.lookup_absent h m hk key (fun kv hm => (hne kv hm).symm) rest

/-- the tag is ONE valid Go string literal whatever the values contain (quotes, back quotes,
    newlines, non-UTF-8 bytes): the reader consumes exactly the literal -/
theorem literal_valid {isPrint : Nat → Bool} (h : Quote.PSafe isPrint) (m : List (Str × Str)) (rest : Str) :
    ∃ v, readGoLiteral (renderTag isPrint m ++ rest) = some (v, rest) := TagRT.literal_valid h m rest

/-- keys appear in sorted order; the text is `k:"v"` entries joined by single spaces -/
theorem keys_sorted {isPrint : Nat → Bool} (h : Quote.PSafe isPrint) (m : List (Str × Str)) (rest : Str) :
    readGoLiteral (renderTag isPrint m ++ rest) = some (Str.join b!" " ((m.mergeSort tagLe).map (entry isPrint)), rest) ∧
    (m.mergeSort tagLe).Pairwise (fun a b => Str.le a.1 b.1 = true) ∧ (m.mergeSort tagLe).Perm m :=
  TagRT.keys_sorted h m rest

/-- an empty map renders nothing: the tag item is null -/
theorem empty_is_null (np : Str → Bool) (m : List (Str × Str)) : Code.isNull np (.tag m) = true ↔ m = [] :=
  TagRT.tag_null_iff np m

/-- the order in which Go iterates the map does not matter -/
theorem order_independent (isPrint : Nat → Bool) {l₁ l₂ : List (Str × Str)} (h : l₁.Perm l₂) (nd : (l₁.map (·.1)).Nodup) :
    renderTag isPrint l₁ = renderTag isPrint l₂ := TagRT.tag_perm isPrint h nd

end C17
