import JenVerif.Props.Common
import JenVerif.Lemmas.Frame
/-
  C08 — Rendering is repeatable and import names are stable across renders.
-/
namespace C08
open Code Registry RegistryInv RegistryGood Refine Frame Props

/-- rendering a File twice: same raw bytes AND the state is a fixed point (so a third, fourth …
    render is the same again); the formatted bytes are a function of the raw bytes -/
theorem file_render_idempotent {cfg : Cfg} {f : FileS} (hH : HintsOk f) (hS : StdOk cfg) (body : List Code) :
    renderFileRaw cfg (renderFileRaw cfg f body).2 body = renderFileRaw cfg f body :=
  renderFileRaw_idempotent cfg f body (good_of_hintsOk hH hS)

theorem file_render_idempotent_effects (w : World) {cfg : Cfg} {f : FileS} (hH : HintsOk f) (hS : StdOk cfg) (body : List Code) :
    let r1 := fileRender w cfg f body
    fileRender w cfg r1.2.2 body = r1 := by
  have h := file_render_idempotent (cfg := cfg) hH hS body
  have hf := other_fields_untouched cfg f none (.group fileInfo body)
  simp only [fileRender]
  have hs : (renderFileRaw cfg f body).2 = (renderS cfg f none (.group fileInfo body)).2 := rfl
  have hnp : (renderFileRaw cfg f body).2.np = f.np := by
    funext p
    exact (renderS_ext cfg f none (.group fileInfo body) (good_of_hintsOk hH hS)).np p
  have hnf : (renderFileRaw cfg f body).2.noFormat = f.noFormat := by rw [hs]; exact hf.2.2.2.2.2.2.1
  rw [h, hnp, hnf]

/-- a Statement or Group rendered twice with the same File: same text, state fixed -/
theorem fragment_idempotent {cfg : Cfg} {f : FileS} (hH : HintsOk f) (hS : StdOk cfg) (prev : Option Code) (c : Code) :
    renderS cfg (renderS cfg f prev c).2 prev c = renderS cfg f prev c :=
  rerender_fixed_point' cfg f prev c (good_of_hintsOk hH hS)

/-- histories over one File -/
inductive Op
  | hintName (p n : Str)
  | hintAlias (p n : Str)
  | hintNames (m : List (Str × Str))
  | anon (p : Str)
  | renderFile (body : List Code)
  | renderFrag (c : Code)

def okName (n : Str) : Prop := n = [] ∨ (isIdent n = true ∧ n ≠ b!"_")

/-- the property's guard: hint names are identifiers (aliases may be "."), and Anon is not used
    on a path that is already registered under a real name -/
def Op.ok (f : FileS) : Op → Prop
  | .hintName _ n => okName n
  | .hintAlias _ n => okName n ∨ n = b!"."
  | .hintNames m => ∀ e ∈ m, okName e.2
  | .anon p => isReg f p = false
  | .renderFile _ => True
  | .renderFrag _ => True

def Op.run (cfg : Cfg) (f : FileS) : Op → FileS
  | .hintName p n => importName f p n
  | .hintAlias p n => importAlias f p n
  | .hintNames m => importNames f m
  | .anon p => Registry.anon f p
  | .renderFile body => (renderFileRaw cfg f body).2
  | .renderFrag c => (renderS cfg f none c).2

def runAll (cfg : Cfg) : FileS → List Op → FileS
  | f, [] => f
  | f, op :: ops => runAll cfg (op.run cfg f) ops

/-- guard along the whole history -/
def okAll (cfg : Cfg) : FileS → List Op → Prop
  | _, [] => True
  | f, op :: ops => op.ok f ∧ okAll cfg (op.run cfg f) ops

theorem lookupImp_congr {f g : FileS} (h : g.imports = f.imports) (p : Str) : lookupImp g p = lookupImp f p := by
  simp [lookupImp, h]

/-- one step keeps every registered name and the hint guard -/
theorem step_keeps {cfg : Cfg} (hS : StdOk cfg) (f : FileS) (hH : HintsOk f) (op : Op) (hok : op.ok f) :
    HintsOk (op.run cfg f) ∧ ∀ p, isReg f p = true → lookupImp (op.run cfg f) p = lookupImp f p := by
  cases op with
  | hintName p n => exact ⟨importName_hintsOk hH p hok, fun q _ => lookupImp_congr rfl q⟩
  | hintAlias p n =>
    refine ⟨importAlias_hintsOk hH p ?_, fun q _ => lookupImp_congr rfl q⟩
    rcases hok with h | h
    · rcases h with h | h
      · exact Or.inl h
      · exact Or.inr (Or.inr h)
    · exact Or.inr (Or.inl h)
  | hintNames m =>
    exact ⟨importNames_hintsOk m hH hok, fun q _ => lookupImp_congr (importNames_imports m f).1 q⟩
  | anon p =>
    refine ⟨anon_hintsOk hH p, fun q hq => ?_⟩
    have : q ≠ p := by
      intro e; subst e
      have : isReg f q = false := hok
      rw [this] at hq; cases hq
    exact anon_other f this
  | renderFile body =>
    have hg := good_of_hintsOk (cfg := cfg) hH hS
    have he : Ext f (renderFileRaw cfg f body).2 := renderS_ext cfg f none (.group fileInfo body) hg
    exact ⟨hintsOk_static hH he.static, he.keep⟩
  | renderFrag c =>
    have hg := good_of_hintsOk (cfg := cfg) hH hS
    have he : Ext f (renderS cfg f none c).2 := renderS_ext cfg f none c hg
    exact ⟨hintsOk_static hH he.static, he.keep⟩

/-- NAME STABILITY over all histories: once a path is registered under a real name — i.e. once
    it has appeared in any output produced with the File — every later state of the File, after
    any interleaving of renders, fragment renders and later hints, still maps it to that name
    (and the import block, printed from the same table, declares it) -/
theorem names_stable {cfg : Cfg} (hS : StdOk cfg) : ∀ (ops : List Op) (f : FileS), HintsOk f → okAll cfg f ops →
    ∀ p, isReg f p = true → lookupImp (runAll cfg f ops) p = lookupImp f p
  | [], _, _, _, _, _ => rfl
  | op :: ops, f, hH, hok, p, hp => by
      have s := step_keeps (cfg := cfg) hS f hH op hok.1
      have hp' : isReg (op.run cfg f) p = true := by
        rw [isReg_of_lookup_eq (s.2 p hp)]; exact hp
      rw [runAll, names_stable hS ops _ s.1 hok.2 p hp', s.2 p hp]

/-- what a render prints for a path is the name in the table (T-R), so "appeared under a name
    in an output" is "registered under that name" -/
theorem printed_name_is_registered {cfg : Cfg} {f : FileS} (hH : HintsOk f) (hS : StdOk cfg) (p : Str) (hl : isLocal f p = false) :
    (register cfg f p).1 = (lookupImp (register cfg f p).2 p).name ∧ isReg (register cfg f p).2 p = true :=
  ⟨(register_returns_stored hH hS hl).1.symm, register_isReg hH hS hl⟩

end C08
