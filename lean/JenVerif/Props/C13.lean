import JenVerif.Lemmas.ListSem
import JenVerif.Lemmas.Refine
import JenVerif.Lemmas.Frame
import JenVerif.Gen.Constructs
/-
  C13 — nil and Null() items vanish from lists; Empty() keeps its separator.
  Stated on the pure renderer (every environment) and lifted to the stateful renderer by T-R.
-/
namespace C13
open Code Refine

/-- nil, `Null()`, statements / delimiter-less groups / Dicts made only of such items and an
    empty Tag are null under every file -/
theorem void_is_null (np : Str → Bool) (c : Code) (h : void c = true) : isNull np c = true :=
  void_isNull np c h

/-- inserting a void item at ANY position of ANY group's item list — any construct, any arity —
    leaves the rendering unchanged -/
theorem insert_void_anywhere (cfg : Cfg) (e : Env) (prev : Option Code) (g : GInfo) (xs ys : List Code) (v : Code)
    (hv : void v = true) :
    renderP cfg e prev (.group g (xs ++ v :: ys)) = renderP cfg e prev (.group g (xs ++ ys)) :=
  render_insert_void cfg e prev g xs ys v hv

/-- … and any number of void items at any positions: two item lists with the same non-null
    items render identically -/
theorem same_kept_same_output (cfg : Cfg) (e : Env) (prev : Option Code) (g : GInfo) (xs ys : List Code)
    (h : (xs.filter fun c => !isNull e.np c) = (ys.filter fun c => !isNull e.np c)) :
    renderP cfg e prev (.group g xs) = renderP cfg e prev (.group g ys) :=
  render_same_kept cfg e prev g xs ys h

/-- the rendered list is exactly the remaining (non-null) items, in order, each once, for every
    arity: separator before every kept item but the first, a newline before each in multi-line
    groups -/
theorem kept_items_in_order (cfg : Cfg) (e : Env) (g : GInfo) (cs : List Code) :
    (renderItemsP cfg e g true cs).1 =
      joinItems g true ((cs.filter fun c => !isNull e.np c).map (renderP cfg e none)) :=
  renderItemsP_closed cfg e g true cs

/-- instantiated for EVERY construct of the regenerated table (Call, Params, List, Values, Index,
    Block, Defs, Case, Types, Union, Return, If/For/Switch, the built-ins, …): a construct added
    to jennifer later is covered by the same quantifier -/
theorem every_construct (cfg : Cfg) (e : Env) (prev : Option Code) :
    ∀ c ∈ Gen.constructs, ∀ (xs ys : List Code) (v : Code), void v = true →
      renderP cfg e prev (.group c.info (xs ++ v :: ys)) = renderP cfg e prev (.group c.info (xs ++ ys)) :=
  fun c _ xs ys v hv => render_insert_void cfg e prev c.info xs ys v hv

/-- `Empty()` is not null and renders nothing: it takes part in separation like a real item -/
theorem empty_separates (cfg : Cfg) (e : Env) (g : GInfo) (a b : Code)
    (ha : isNull e.np a = false) (hb : isNull e.np b = false) :
    (renderItemsP cfg e g true [a, Code.empty, b]).1 =
      itemLead g true ++ renderP cfg e none a ++ (itemLead g false ++ (itemLead g false ++ renderP cfg e none b)) := by
  have he : isNull e.np Code.empty = false := by simp [Code.empty, isNull]
  have hr : renderP cfg e none Code.empty = [] := by simp [Code.empty, renderP, tokText]
  simp [renderItemsP, ha, hb, he, hr]

theorem void_not_pkg (v : Code) (hv : void v = true) : ∀ s, v ≠ .tok .pkg s := by
  intro s e
  subst e
  simp [void] at hv

/-- STATEFUL renderer (imports registered while rendering), with NO side condition: a void item
    inserted at any position of any group's item list changes neither the text, nor the
    "nothing was rendered" flag, nor the registry reached — under every file state -/
theorem insert_void_stateful_items (cfg : Cfg) (g : GInfo) (v : Code) (hv : void v = true) :
    ∀ (xs ys : List Code) (first : Bool) (f : FileS),
      renderItemsS cfg g first f (xs ++ v :: ys) = renderItemsS cfg g first f (xs ++ ys)
  | [], ys, first, f => by
      simpa using Frame.null_item_contributes_nothing cfg g first f v ys (void_isNull f.np v hv) (void_not_pkg v hv)
  | x :: xs, ys, first, f => by
      simp only [List.cons_append]
      rw [renderItemsS_cons, renderItemsS_cons]
      rw [insert_void_stateful_items cfg g v hv xs ys first, insert_void_stateful_items cfg g v hv xs ys false]

theorem allNull_insert_void (np : Str → Bool) (v : Code) (hv : void v = true) (xs ys : List Code) :
    allNull np (xs ++ v :: ys) = allNull np (xs ++ ys) := by
  simp [allNull_append, allNull, void_isNull np v hv]

/-- … hence for the whole group, in File.Render / RenderWithFile as well -/
theorem insert_void_stateful (cfg : Cfg) (f : FileS) (prev : Option Code) (g : GInfo) (xs ys : List Code) (v : Code)
    (hv : void v = true) :
    renderS cfg f prev (.group g (xs ++ v :: ys)) = renderS cfg f prev (.group g (xs ++ ys)) := by
  simp only [renderS, allNull_insert_void f.np v hv xs ys, insert_void_stateful_items cfg g v hv xs ys true f]

theorem countKept_insert_null (np : Str → Bool) (v : Code) (hv : isNull np v = true) (ys : List Code) :
    ∀ xs : List Code, countKept np (xs ++ v :: ys) = countKept np (xs ++ ys)
  | [] => by simp [countKept, hv]
  | x :: xs => by simp [countKept, countKept_insert_null np v hv ys xs]

theorem misuseItems_insert_null (np : Str → Bool) (b : Bool) (v : Code) (hv : isNull np v = true) (ys : List Code) :
    ∀ xs : List Code, misuseItems np b (xs ++ v :: ys) = misuseItems np b (xs ++ ys)
  | [] => by simp [misuseItems, hv]
  | x :: xs => by simp [misuseItems, misuseItems_insert_null np b v hv ys xs]

/-- the OUTCOME is unchanged too (D15 repair): a void item inserted at any position of any
    group — `Values` holding a `Dict` included — neither causes nor hides the misuse error
    "Dict beside other items"; with `insert_void_stateful` the whole result of a render
    (error or not, bytes, registry) is the same with and without the void item -/
theorem insert_void_keeps_outcome (np : Str → Bool) (g : GInfo) (xs ys : List Code) (v : Code)
    (hv : void v = true) :
    misuse np (.group g (xs ++ v :: ys)) = misuse np (.group g (xs ++ ys)) := by
  have hn := void_isNull np v hv
  simp only [misuse, allNull_insert_void np v hv xs ys, countKept_insert_null np v hn ys xs,
    misuseItems_insert_null np _ v hn ys xs]

-- non-vacuity / the D15 witness: nil and Null() beside a Dict in Values are no misuse
example :
    let vals : GInfo := ⟨b!"values", b!"{", b!"}", b!",", false⟩
    misuse (fun _ => false) (.group vals [.nilc, .dict [(.tok .ident b!"a", .lit (.int 1))], Code.null]) = false := by
  decide

/-- the limit of the property, made explicit: inside a STATEMENT a void item directly between
    `Case(…)` and the following `Block` changes the output, because the case-block test looks at
    the raw previous item (the property's constructs are lists, not this position) -/
theorem boundary_case_block :
    let cfg : Cfg := ⟨id, fun _ => false, [], []⟩
    let e : Env := ⟨fun _ => false, id⟩
    let cse := Code.group ⟨b!"case", b!"case ", b!":", b!",", false⟩ [.tok .ident b!"x"]
    let blk := Code.group ⟨b!"block", b!"{", b!"}", [], true⟩ [.tok .ident b!"y"]
    renderStmtP cfg e true none [cse, blk] ≠ renderStmtP cfg e true none [cse, Code.null, blk] := by
  decide

-- non-vacuity: a void item that is a nested structure
example : void (.stmt [.nilc, Code.null, .group ⟨b!"list", [], [], b!",", false⟩ [.tag []], .dict [(Code.null, .tok .ident b!"x")]]) = true := by
  decide

end C13
