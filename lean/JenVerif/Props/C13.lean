import JenVerif.Lemmas.ListSem
import JenVerif.Lemmas.Refine
import JenVerif.Gen.Constructs
/-
  C13 — nil and Null() items vanish from lists; Empty() keeps its separator.
  Stated on the pure renderer (every environment) and lifted to the stateful renderer by T-R.
-/
namespace C13
open Code Refine

/-- nil, `Null()`, statements / delimiter-less groups / Dicts made only of such items and an
    empty Tag are null under every file -/
theorem void_is_null (np : Str → Bool) (c : Code) (h : void c = true) : isNull np c = true :=
  void_isNull np c h

/-- inserting a void item at ANY position of ANY group's item list — any construct, any arity —
    leaves the rendering unchanged -/
theorem insert_void_anywhere (cfg : Cfg) (e : Env) (prev : Option Code) (g : GInfo) (xs ys : List Code) (v : Code)
    (hv : void v = true) :
    renderP cfg e prev (.group g (xs ++ v :: ys)) = renderP cfg e prev (.group g (xs ++ ys)) :=
  render_insert_void cfg e prev g xs ys v hv

/-- … and any number of void items at any positions: two item lists with the same non-null
    items render identically -/
theorem same_kept_same_output (cfg : Cfg) (e : Env) (prev : Option Code) (g : GInfo) (xs ys : List Code)
    (h : (xs.filter fun c => !isNull e.np c) = (ys.filter fun c => !isNull e.np c)) :
    renderP cfg e prev (.group g xs) = renderP cfg e prev (.group g ys) :=
  render_same_kept cfg e prev g xs ys h

/-- the rendered list is exactly the remaining (non-null) items, in order, each once, for every
    arity: separator before every kept item but the first, a newline before each in multi-line
    groups -/
theorem kept_items_in_order (cfg : Cfg) (e : Env) (g : GInfo) (cs : List Code) :
    (renderItemsP cfg e g true cs).1 =
      joinItems g true ((cs.filter fun c => !isNull e.np c).map (renderP cfg e none)) :=
  renderItemsP_closed cfg e g true cs

/-- instantiated for EVERY construct of the regenerated table (Call, Params, List, Values, Index,
    Block, Defs, Case, Types, Union, Return, If/For/Switch, the built-ins, …): a construct added
    to jennifer later is covered by the same quantifier -/
theorem every_construct (cfg : Cfg) (e : Env) (prev : Option Code) :
    ∀ c ∈ Gen.constructs, ∀ (xs ys : List Code) (v : Code), void v = true →
      renderP cfg e prev (.group c.info (xs ++ v :: ys)) = renderP cfg e prev (.group c.info (xs ++ ys)) :=
  fun c _ xs ys v hv => render_insert_void cfg e prev c.info xs ys v hv

/-- `Empty()` is not null and renders nothing: it takes part in separation like a real item -/
theorem empty_separates (cfg : Cfg) (e : Env) (g : GInfo) (a b : Code)
    (ha : isNull e.np a = false) (hb : isNull e.np b = false) :
    (renderItemsP cfg e g true [a, Code.empty, b]).1 =
      itemLead g true ++ renderP cfg e none a ++ (itemLead g false ++ (itemLead g false ++ renderP cfg e none b)) := by
  have he : isNull e.np Code.empty = false := by simp [Code.empty, isNull]
  have hr : renderP cfg e none Code.empty = [] := by simp [Code.empty, renderP, tokText]
  simp [renderItemsP, ha, hb, he, hr]

/-- lifted to the stateful renderer (which registers imports while rendering): with void items
    inserted, the text is unchanged under every later naming, because void items contain no
    rendered package token -/
theorem insert_void_stateful (cfg : Cfg) (f : FileS) (hg : Good cfg f) (prev : Option Code) (g : GInfo)
    (xs ys : List Code) (v : Code) (hv : void v = true) (f3 f3' : FileS)
    (h3 : Ext (renderS cfg f prev (.group g (xs ++ v :: ys))).2 f3)
    (h3' : Ext (renderS cfg f prev (.group g (xs ++ ys))).2 f3') (he : envOf f3 = envOf f3') :
    (renderS cfg f prev (.group g (xs ++ v :: ys))).1 = (renderS cfg f prev (.group g (xs ++ ys))).1 := by
  have s1 := renderS_spec cfg (.group g (xs ++ v :: ys)) f prev hg trivial
  have s2 := renderS_spec cfg (.group g (xs ++ ys)) f prev hg trivial
  unfold Spec at s1 s2
  rw [s1.2 f3 h3, s2.2 f3' h3', he]
  exact render_insert_void cfg (envOf f3') prev g xs ys v hv

/-- the limit of the property, made explicit: inside a STATEMENT a void item directly between
    `Case(…)` and the following `Block` changes the output, because the case-block test looks at
    the raw previous item (the property's constructs are lists, not this position) -/
theorem boundary_case_block :
    let cfg : Cfg := ⟨id, fun _ => false, [], []⟩
    let e : Env := ⟨fun _ => false, id⟩
    let cse := Code.group ⟨b!"case", b!"case ", b!":", b!",", false⟩ [.tok .ident b!"x"]
    let blk := Code.group ⟨b!"block", b!"{", b!"}", [], true⟩ [.tok .ident b!"y"]
    renderStmtP cfg e true none [cse, blk] ≠ renderStmtP cfg e true none [cse, Code.null, blk] := by
  decide

-- non-vacuity: a void item that is a nested structure
example : void (.stmt [.nilc, Code.null, .group ⟨b!"list", [], [], b!",", false⟩ [.tag []], .dict [(Code.null, .tok .ident b!"x")]]) = true := by
  decide

end C13
