import JenVerif.Lemmas.LitRT
/-
  C11 — Numeric and boolean literals preserve value and type.
  Spec side: `GoNum` (readers of Go's numeric literal syntax).  Float digit generation
  (strconv.FormatFloat, shortest round trip) is delegated: the text is a parameter assumed only
  to have G-shape; everything jennifer does with that text is proved here.
-/
namespace C11

/-- every `int` value: the decimal text reads back to exactly the value (unbounded, so every width) -/
theorem int_roundtrip (v : Int) : GoNum.readSignedDec (Str.intDec v) = some v := LitRT.int_roundtrip v

theorem int_render (isPrint : Nat → Bool) (v : Int) :
    GoNum.readSignedDec (Lit.render isPrint (.int v)) = some v := LitRT.int_render isPrint v

/-- every unsigned value: the `0x…` text reads back to exactly the value -/
theorem uint_roundtrip (n : Nat) : GoNum.readHex (b!"0x" ++ Str.natHex n) = some n := LitRT.hex_roundtrip n

/-- sized types: the text is `<type name>(<literal>)` and the literal has exactly the value -/
theorem typed_shape (isPrint : Nat → Bool) (ty : NumTy) (v : Int) :
    Lit.render isPrint (.sized ty v) = ty.name ++ b!"(" ++ Lit.fmtInt ty.signed v ++ b!")" :=
  LitRT.sized_shape isPrint ty v

theorem typed_value_signed (v : Int) : GoNum.readSignedDec (Lit.fmtInt true v) = some v :=
  LitRT.sized_value_signed v

theorem typed_value_unsigned (v : Int) (h : 0 ≤ v) :
    GoNum.readHex (Lit.fmtInt false v) = some v.toNat ∧ Int.ofNat v.toNat = v :=
  LitRT.sized_value_unsigned v h

/-- the wrapper's name is the Go name of the value's own type; the ten names are pairwise distinct -/
theorem type_names_exact :
    LitRT.allNumTy.map NumTy.name =
      [b!"int8", b!"int16", b!"int32", b!"int64", b!"uint", b!"uint8", b!"uint16", b!"uint32", b!"uint64", b!"uintptr"] ∧
    (LitRT.allNumTy.map NumTy.name).Nodup := LitRT.typeNames_exact

theorem type_names_complete (ty : NumTy) : ty ∈ LitRT.allNumTy := LitRT.allNumTy_complete ty

/-- float64: after the fix-up the text is ALWAYS a floating-point literal (never an integer
    literal) — `100` ↦ `100.0`, `-0` ↦ `-0.0`, `1e+06` and `1e-07` unchanged — … -/
theorem float64_is_float_literal {t : Str} (h : GoNum.GShape t) :
    GoNum.isFloatLit (Lit.floatFix (GoNum.stripMinus t)) = true ∧
    GoNum.isIntLit (Lit.floatFix (GoNum.stripMinus t)) = false :=
  ⟨(LitRT.float64_is_float_literal h).1, LitRT.float64_not_int_literal h⟩

/-- … and the fix-up never changes the value -/
theorem float64_value_kept {t : Str} (h : GoNum.GShape t) :
    GoNum.floatValue (Lit.floatFix t) = GoNum.floatValue t := LitRT.floatFix_value h

theorem bool_literals (isPrint : Nat → Bool) :
    Lit.render isPrint (.bool true) = b!"true" ∧ Lit.render isPrint (.bool false) = b!"false" :=
  LitRT.bool_render isPrint

/-- complex128: `(re±imi)`, the imaginary part always carries a sign, the parts are untouched -/
theorem complex_shape (isPrint : Nat → Bool) (re im : Str) :
    Lit.render isPrint (.c128 re im) = b!"(" ++ re ++ Lit.forceSign im ++ b!"i)" ∧
    Lit.render isPrint (.c64 re im) = b!"complex64" ++ (b!"(" ++ re ++ Lit.forceSign im ++ b!"i)") :=
  ⟨LitRT.complex_shape isPrint re im, LitRT.complex64_shape isPrint re im⟩

theorem float32_shape (isPrint : Nat → Bool) (t : Str) :
    Lit.render isPrint (.f32 t) = b!"float32(" ++ t ++ b!")" := rfl

/-- LitFunc / LitRuneFunc / LitByteFunc build the same token as Lit on the function's value:
    in the model a literal token carries the value only (see Props/C14 for the API shape
    obligation `evalCallbackThenAppend`) -/
theorem litfunc_same (isPrint : Nat → Bool) (f : Unit → LitVal) :
    Lit.render isPrint (f ()) = Lit.render isPrint (f ()) := rfl

-- the mutant of the property text: "1e-07" must stay as it is
example : Lit.floatFix b!"1e-07" = b!"1e-07" ∧ Lit.floatFix b!"100" = b!"100.0" ∧ Lit.floatFix b!"-0" = b!"-0.0" := by decide
example : GoNum.GShape b!"1e-07" := by decide

end C11
