import JenVerif.FileRender
/-
  C10 — Failure atomicity and error propagation for Render and Save.
  Statements over the effect model (T-E): for EVERY environment (formatter result, writer
  behaviour, filesystem behaviour), every file state and every tree.
-/
namespace C10

def isWrite : Effect → Bool
  | .callerWrite _ => true
  | _ => false

def isFsWrite : Effect → Bool
  | .fsWrite _ => true
  | _ => false

@[simp] theorem isWrite_write (b : Str) : isWrite (.callerWrite b) = true := rfl
@[simp] theorem isWrite_format (b : Str) : isWrite (.format b) = false := rfl
@[simp] theorem isWrite_fs (b : Str) : isWrite (.fsWrite b) = false := rfl
@[simp] theorem isFsWrite_write (b : Str) : isFsWrite (.callerWrite b) = false := rfl
@[simp] theorem isFsWrite_format (b : Str) : isFsWrite (.format b) = false := rfl
@[simp] theorem isFsWrite_fs (b : Str) : isFsWrite (.fsWrite b) = true := rfl

/-- the caller's writer is touched at most once, and only after the formatter (when enabled)
    has accepted the source; never when rendering failed -/
theorem render_writes_only_after_success (w : World) (cfg : Cfg) (f : FileS) (body : List Code) :
    let r := fileRender w cfg f body
    (r.2.1.filter isWrite).length ≤ 1 ∧
    (∀ b, Effect.callerWrite b ∈ r.2.1 →
        Code.misuse f.np (.group Code.fileInfo body) = false ∧
        (f.noFormat = true ∧ b = (renderFileRaw cfg f body).1 ∨
         f.noFormat = false ∧ w.gofmt (renderFileRaw cfg f body).1 = some b)) := by
  simp only [fileRender, fileRenderFrom, emit]
  by_cases hm : Code.misuse f.np (.group Code.fileInfo body) = true
  · simp [hm]
  · have hm' : Code.misuse f.np (.group Code.fileInfo body) = false := by simpa using hm
    by_cases hn : f.noFormat = true
    · simp [hm', hn]
      exact List.length_filter_le _ _
    · have hn' : f.noFormat = false := by simpa using hn
      cases hg : w.gofmt (renderFileRaw cfg f body).1 <;> simp [hm', hn']
      exact List.length_filter_le _ _

/-- same for Statement/Group.RenderWithFile -/
theorem fragment_writes_only_after_success (w : World) (cfg : Cfg) (f : FileS) (c : Code) :
    let r := fragRender w cfg f c
    (r.2.1.filter isWrite).length ≤ 1 ∧
    (∀ b, Effect.callerWrite b ∈ r.2.1 →
        Code.misuse f.np c = false ∧ w.gofmt (Code.renderS cfg f none c).1 = some b) := by
  simp only [fragRender, fileRenderFrom, emit]
  by_cases hm : Code.misuse f.np c = true
  · simp [hm]
  · have hm' : Code.misuse f.np c = false := by simpa using hm
    cases hg : w.gofmt (Code.renderS cfg f none c).1 <;> simp [hm']
    exact List.length_filter_le _ _

/-- success means: exactly one write, of exactly the output, accepted by the writer -/
theorem ok_iff_written (w : World) (noFormat mis : Bool) (raw : Str) :
    (fileRenderFrom w noFormat mis raw).1 = .ok ↔
      mis = false ∧ ∃ out, (if noFormat then some raw else w.gofmt raw) = some out ∧ w.writer out = true ∧
        (fileRenderFrom w noFormat mis raw).2.filter isWrite = [.callerWrite out] := by
  cases mis <;> cases noFormat <;> simp [fileRenderFrom, emit]
  · cases hg : w.gofmt raw
    · simp
    · rename_i out
      cases hw : w.writer out <;> simp

/-- errors propagate: a writer error, a formatter error (carrying the unformatted text) and a
    misuse error are returned, never swallowed -/
theorem errors_propagate (w : World) (noFormat : Bool) (raw : Str) :
    ((if noFormat then some raw else w.gofmt raw) = none → (fileRenderFrom w noFormat false raw).1 = .errFormat raw) ∧
    (∀ out, (if noFormat then some raw else w.gofmt raw) = some out → w.writer out = false →
        (fileRenderFrom w noFormat false raw).1 = .errWriter) ∧
    (fileRenderFrom w noFormat true raw).1 = .errMisuse := by
  cases noFormat <;> simp [fileRenderFrom, emit]
  all_goals first
    | (constructor
       · intro h; simp [h]
       · intro out h hw; simp [h, hw])
    | (intro hw; simp [hw])
    | skip

/-- Save touches the filesystem only after Render succeeded, writes exactly the rendered output,
    and returns the filesystem's error -/
theorem save_untouched_on_failure (w : World) (noFormat mis : Bool) (raw : Str) :
    let r := fileSaveFrom w noFormat mis raw
    (∀ b, Effect.fsWrite b ∈ r.2 →
        mis = false ∧ (if noFormat then some raw else w.gofmt raw) = some b) ∧
    (r.2.filter isFsWrite).length ≤ 1 ∧
    (r.1 = .ok → ∃ b, Effect.fsWrite b ∈ r.2 ∧ w.fs b = true) ∧
    (∀ b, Effect.fsWrite b ∈ r.2 → w.fs b = false → r.1 = .errFs) ∧
    (∀ b, Effect.callerWrite b ∉ r.2) := by
  cases mis <;> cases noFormat <;> simp [fileSaveFrom, fileRenderFrom, emit]
  · cases hg : w.gofmt raw
    · simp
    · rename_i out
      cases hf : w.fs out <;> simp [hf] <;> exact List.length_filter_le _ _
  · cases hf : w.fs raw
    all_goals (try simp [hf])
    all_goals (try exact List.length_filter_le _ _)

/-- the file state after Save/Render does not depend on the environment (writers, formatter) -/
theorem state_independent_of_world (w₁ w₂ : World) (cfg : Cfg) (f : FileS) (body : List Code) :
    (fileRender w₁ cfg f body).2.2 = (fileRender w₂ cfg f body).2.2 ∧
    (fileSave w₁ cfg f body).2.2 = (fileRender w₂ cfg f body).2.2 := by
  simp [fileRender, fileSave]

-- non-vacuity: a concrete successful and a concrete failing run
example : (fileRenderFrom ⟨fun s => some (s ++ [10]), fun _ => true, fun _ => true⟩ false false b!"x").1 = .ok := by decide
example : (fileSaveFrom ⟨fun _ => none, fun _ => true, fun _ => true⟩ false false b!"x") = (.errFormat b!"x", [.format b!"x"]) := by decide

end C10
