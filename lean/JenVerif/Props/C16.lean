import JenVerif.Lemmas.PermLemmas
import JenVerif.Lemmas.Refine
/-
  C16 — Dict renders every non-null pair exactly once, in key order.
-/
namespace C16
open Code PermLemmas

def keptPair (np : Str → Bool) (p : Code × Code) : Bool := !(isNull np p.1 || isNull np p.2)

/-- the texts handed to the sorter are those of EXACTLY the pairs with both sides non-null:
    each once, none merged — whatever their number and however their keys compare -/
theorem pairs_exact (cfg : Cfg) (e : Env) : ∀ ps : List (Code × Code),
    dictPairsP cfg e ps = (ps.filter (keptPair e.np)).map fun p => (renderP cfg e none p.1, renderP cfg e none p.2)
  | [] => by simp [dictPairsP]
  | (k, v) :: ps => by
      simp only [dictPairsP, dictTextsP, keptPair, List.filter_cons]
      by_cases h : (isNull e.np k || isNull e.np v) = true
      · simp [h, pairs_exact cfg e ps, keptPair]
      · simp [h, pairs_exact cfg e ps, keptPair]

/-- what is written is a permutation of those texts (nothing dropped, nothing duplicated),
    ordered by key text (then by value text) -/
theorem sorted_is_permutation (cfg : Cfg) (e : Env) (ps : List (Code × Code)) :
    ((dictPairsP cfg e ps).mergeSort dictLe).Perm (dictPairsP cfg e ps) ∧
    ((dictPairsP cfg e ps).mergeSort dictLe).Pairwise (fun a b => dictLe a b = true) :=
  ⟨List.mergeSort_perm _ _, List.pairwise_mergeSort (fun a b c => dictLe_trans a b c) (fun a b => dictLe_total a b) _⟩

/-- layout: no pair → nothing; one pair → `k:v` inline; several → a newline, then `k:v,` + newline each -/
theorem layout_none (cfg : Cfg) (e : Env) (ps : List (Code × Code)) (h : dictPairsP cfg e ps = []) :
    renderP cfg e none (.dict ps) = [] := by
  simp [renderP, h, dictBodyP]

theorem layout_one (cfg : Cfg) (e : Env) (ps : List (Code × Code)) (kt vt : Str) (h : dictPairsP cfg e ps = [(kt, vt)]) :
    renderP cfg e none (.dict ps) = kt ++ b!":" ++ vt := by
  simp [renderP, h, dictBodyP]

theorem layout_many (n : Nat) (hn : n > 1) (first : Bool) (kt vt : Str) (rest : List (Str × Str)) :
    dictBodyP n first ((kt, vt) :: rest) =
      (if first then b!"\n" else []) ++ kt ++ b!":" ++ vt ++ b!",\n" ++ dictBodyP n false rest := by
  simp [dictBodyP, hn]

/-- a Dict whose pairs all have a null side is null (renders nothing, takes no separator) -/
theorem all_null_dict_is_null (np : Str → Bool) (ps : List (Code × Code)) :
    isNull np (.dict ps) = true ↔ (ps.filter (keptPair np)) = [] := by
  simp only [isNull]
  induction ps with
  | nil => simp [dictNull]
  | cons p ps ih =>
    obtain ⟨k, v⟩ := p
    by_cases h : (isNull np k || isNull np v) = true
    · simp [dictNull, keptPair, h, ih]
    · simp [dictNull, keptPair, h]

/-- the documented misuse — a non-null Dict beside another item that renders something in
    Values — is reported -/
theorem dict_must_be_alone (np : Str → Bool) (g : GInfo) (hg : g.name = b!"values") (ps : List (Code × Code)) (x : Code)
    (hd : isNull np (.dict ps) = false) (hx : isNull np x = false) :
    misuse np (.group g [.dict ps, x]) = true := by
  simp [misuse, misuseItems, countKept, hg, hd, hx, isDict]

/-- … and an item that renders nothing (nil, Null(), an empty list: C13) is not "another item":
    the Dict beside it is treated exactly like the Dict alone (D15 repair), on either side -/
theorem dict_beside_void_is_alone (np : Str → Bool) (g : GInfo) (ps : List (Code × Code)) (x : Code)
    (hx : isNull np x = true) :
    misuse np (.group g [.dict ps, x]) = misuse np (.group g [.dict ps]) ∧
    misuse np (.group g [x, .dict ps]) = misuse np (.group g [.dict ps]) := by
  by_cases hd : isNull np (.dict ps) = true <;>
    simp [misuse, misuseItems, countKept, allNull, hd, hx]

/-- a Dict alone in Values is never the misuse by itself -/
theorem dict_alone_ok (np : Str → Bool) (g : GInfo) (ps : List (Code × Code)) :
    misuse np (.group g [.dict ps]) = (!(g.name == b!"types" && isNull np (.dict ps)) && !isNull np (.dict ps) && misusePairs np ps) := by
  by_cases hd : isNull np (.dict ps) = true <;> by_cases ht : g.name = b!"types" <;>
    simp [misuse, misuseItems, countKept, allNull, hd, ht, isDict]

/-- the stateful renderer writes the same body (T-R): under any later naming -/
theorem stateful_eq_pure (cfg : Cfg) (f : FileS) (hg : Refine.Good cfg f) (ps : List (Code × Code)) (f3 : FileS)
    (h3 : Refine.Ext (renderS cfg f none (.dict ps)).2 f3) :
    (renderS cfg f none (.dict ps)).1 = renderP cfg (Refine.envOf f3) none (.dict ps) :=
  (Refine.renderS_spec cfg (.dict ps) f none hg trivial).2 f3 h3

-- the D6 witness, now kept apart: two pairs with the same key text stay two pairs
example :
    let cfg : Cfg := ⟨id, fun _ => false, [], []⟩
    let e : Env := ⟨fun _ => false, id⟩
    let f := Code.stmt [.tok .ident b!"f", .group ⟨b!"call", b!"(", b!")", b!",", false⟩ []]
    dictPairsP cfg e [(f, .lit (.int 2)), (f, .lit (.int 1))] = [(b!"f ()", b!"2"), (b!"f ()", b!"1")] := by
  decide

end C16
