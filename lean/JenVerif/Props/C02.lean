import JenVerif.Lemmas.Frame
/-
  C02 — A successful render is valid Go and exactly gofmt of the raw rendering.

  The formatter is a parameter (`World.gofmt`; `none` = rejected).  For every formatter, writer,
  file state and tree (valid or nonsensical):
-/
namespace C02
open Code Frame

/-- the formatted mode and the NoFormat mode differ ONLY in the final formatting step: same raw
    source, same registry afterwards -/
theorem modes_share_raw (cfg : Cfg) (f : FileS) (body : List Code) (b : Bool) :
    (renderFileRaw cfg { f with noFormat := b } body).1 = (renderFileRaw cfg f body).1 ∧
    (renderFileRaw cfg { f with noFormat := b } body).2 = { (renderFileRaw cfg f body).2 with noFormat := b } :=
  noFormat_irrelevant cfg f body b

/-- what a formatted File.Render writes is exactly gofmt applied to what the identically built
    NoFormat file writes -/
theorem formatted_is_gofmt_of_raw (w : World) (cfg : Cfg) (f : FileS) (body : List Code) (out raw : Str)
    (h1 : Effect.callerWrite out ∈ (fileRender w cfg { f with noFormat := false } body).2.1)
    (h2 : Effect.callerWrite raw ∈ (fileRender w cfg { f with noFormat := true } body).2.1) :
    w.gofmt raw = some out := by
  have e1 := (noFormat_irrelevant cfg f body false).1
  have e2 := (noFormat_irrelevant cfg f body true).1
  simp only [fileRender, fileRenderFrom, emit] at h1 h2
  rw [e1] at h1
  rw [e2] at h2
  have hnp : ∀ b, ({ f with noFormat := b } : FileS).np = f.np := fun _ => rfl
  simp only [hnp] at h1 h2
  by_cases hm : misuse f.np (.group fileInfo body) = true
  · simp [hm] at h1
  · have hm' : misuse f.np (.group fileInfo body) = false := by simpa using hm
    simp only [hm', Bool.false_eq_true, if_false, if_true] at h1 h2
    have hr : raw = (renderFileRaw cfg f body).1 := by simpa using h2
    subst hr
    cases hg : w.gofmt (renderFileRaw cfg f body).1 with
    | none => simp [hg] at h1
    | some o => simp [hg] at h1; rw [h1]

/-- no success path bypasses the formatter, none applies it twice -/
theorem ok_implies_formatter_accepted (w : World) (cfg : Cfg) (f : FileS) (body : List Code) (hf : f.noFormat = false)
    (hok : (fileRender w cfg f body).1 = .ok) :
    ∃ out, w.gofmt (renderFileRaw cfg f body).1 = some out ∧
      (fileRender w cfg f body).2.1 = [.format (renderFileRaw cfg f body).1, .callerWrite out] := by
  simp only [fileRender, fileRenderFrom, emit, hf] at hok ⊢
  by_cases hm : misuse f.np (.group fileInfo body) = true
  · simp [hm] at hok
  · have hm' : misuse f.np (.group fileInfo body) = false := by simpa using hm
    simp only [hm', Bool.false_eq_true, if_false] at hok ⊢
    cases hg : w.gofmt (renderFileRaw cfg f body).1 with
    | none => simp [hg] at hok
    | some o => exact ⟨o, rfl, by simp⟩

/-- fragments (Statement/Group render) always go through the formatter -/
theorem fragment_is_gofmt_of_raw (w : World) (cfg : Cfg) (f : FileS) (c : Code) (hok : (fragRender w cfg f c).1 = .ok) :
    ∃ out, w.gofmt (renderS cfg f none c).1 = some out ∧ Effect.callerWrite out ∈ (fragRender w cfg f c).2.1 := by
  simp only [fragRender, fileRenderFrom, emit] at hok ⊢
  by_cases hm : misuse f.np c = true
  · simp [hm] at hok
  · have hm' : misuse f.np c = false := by simpa using hm
    simp only [hm', Bool.false_eq_true, if_false] at hok ⊢
    cases hg : w.gofmt (renderS cfg f none c).1 with
    | none => simp [hg] at hok
    | some o => exact ⟨o, rfl, by simp⟩

/-- an invalid composition is reported as an ERROR: the outcomes of a render are ok / misuse
    error / formatter error / writer error — the renderer is a total function (nil items
    included), there is no panic outcome after the D4/D10 repairs -/
theorem never_a_panic (w : World) (cfg : Cfg) (f : FileS) (body : List Code) :
    (fileRender w cfg f body).1 = .ok ∨ (fileRender w cfg f body).1 = .errMisuse ∨
    (fileRender w cfg f body).1 = .errFormat (renderFileRaw cfg f body).1 ∨ (fileRender w cfg f body).1 = .errWriter := by
  simp only [fileRender, fileRenderFrom, emit]
  by_cases hm : misuse f.np (.group fileInfo body) = true
  · simp [hm]
  · have hm' : misuse f.np (.group fileInfo body) = false := by simpa using hm
    simp only [hm', Bool.false_eq_true, if_false]
    by_cases hn : f.noFormat = true
    · simp only [hn, if_true]
      cases hw : w.writer (renderFileRaw cfg f body).1 <;> simp [hw]
    · have hn' : f.noFormat = false := by simpa using hn
      simp only [hn', Bool.false_eq_true, if_false]
      cases hg : w.gofmt (renderFileRaw cfg f body).1 with
      | none => simp
      | some o => cases hw : w.writer o <;> simp [hw]

/-- a formatter rejection is never emitted as if valid: nothing is written -/
theorem rejected_not_emitted (w : World) (cfg : Cfg) (f : FileS) (body : List Code) (hf : f.noFormat = false)
    (hg : w.gofmt (renderFileRaw cfg f body).1 = none) (hm : misuse f.np (.group fileInfo body) = false) :
    (fileRender w cfg f body).1 = .errFormat (renderFileRaw cfg f body).1 ∧
    ∀ b, Effect.callerWrite b ∉ (fileRender w cfg f body).2.1 := by
  simp [fileRender, fileRenderFrom, emit, hf, hg, hm]

end C02
