import JenVerif.Lemmas.QuoteRT
import JenVerif.Lemmas.LitRT
import JenVerif.Gen.IsPrint
/-
  C12 — String, rune and byte literals preserve their exact content.
  Spec side: `GoLex` (how the Go specification reads string and rune literals).
  `strconv.IsPrint` is a parameter; theorems assume `PSafe` only, which is PROVED below for the
  table regenerated from the installed toolchain.
-/
namespace C12
open Quote

/-- every byte string — invalid UTF-8, control characters, quotes, newlines included — reads
    back to exactly itself, and the reader stops exactly at the closing quote (nothing leaks) -/
theorem string_roundtrip {isPrint : Nat → Bool} (h : PSafe isPrint) (s rest : Str) :
    GoLex.readString (Lit.render isPrint (.str s) ++ rest) = some (s, rest) :=
  QuoteRT.string_roundtrip h s rest

/-- the literal is one line of legal source: no raw newline, NUL or BOM, valid UTF-8 -/
theorem string_one_line {isPrint : Nat → Bool} (h : PSafe isPrint) (s : Str) :
    (10 ∉ quote isPrint s ∧ 0 ∉ quote isPrint s) ∧
    GoLex.scanLine (quote isPrint s).length (quote isPrint s) = true :=
  ⟨QuoteRT.string_one_line h s, QuoteRT.string_scan_line h s⟩

/-- every valid code point reads back to itself -/
theorem rune_roundtrip {isPrint : Nat → Bool} (h : PSafe isPrint) (r : Nat) (rest : Str) (hr : validRune r = true) :
    GoLex.readRune (Lit.render isPrint (.rune (Int.ofNat r)) ++ rest) = some (r, rest) :=
  QuoteRT.rune_roundtrip h r rest hr

/-- every byte: `byte(0x..)` with exactly the value -/
theorem byte_roundtrip (isPrint : Nat → Bool) (b : UInt8) :
    ∃ digits, Lit.render isPrint (.byte b) = b!"byte(0x" ++ digits ++ b!")" ∧
      GoNum.readHex (b!"0x" ++ digits) = some b.toNat := LitRT.byte_roundtrip isPrint b

/-- decidable form of `PSafe` for a range table -/
def pSafeB (rs : List (Nat × Nat)) : Bool :=
  rs.all fun p => decide (0x80 ≤ p.1) && decide (p.1 ≤ p.2) &&
    (decide (p.2 < 0xD800) || (decide (0xDFFF < p.1) && decide (p.2 ≤ 0x10FFFF))) &&
    (decide (p.2 < 0xFEFF) || decide (0xFEFF < p.1))

/-- OBLIGATION (table regenerated from the toolchain's strconv.IsPrint): the assumption on the
    delegated function holds for the table the model driver runs with -/
theorem isPrint_table_safe : pSafeB Gen.isPrintRanges = true := by decide +kernel

theorem pSafe_gen : PSafe Gen.isPrint := by
  intro r hr
  simp only [Gen.isPrint, List.any_eq_true, Bool.and_eq_true, decide_eq_true_eq] at hr
  obtain ⟨p, hp, h1, h2⟩ := hr
  have := List.all_eq_true.mp isPrint_table_safe p hp
  simp only [Bool.and_eq_true, Bool.or_eq_true, decide_eq_true_eq] at this
  obtain ⟨⟨⟨a, _⟩, c⟩, d⟩ := this
  refine ⟨by omega, ?_, ?_⟩
  · have hm : maxRune = 1114111 := rfl
    simp only [validRune, Bool.or_eq_true, Bool.and_eq_true, decide_eq_true_eq]
    rcases c with c | c
    · left; omega
    · right
      obtain ⟨c1, c2⟩ := c
      exact ⟨by omega, by omega⟩
  · rcases d with d | d <;> omega

/-- the unconditional instance for the concrete table -/
theorem string_roundtrip_gen (s rest : Str) :
    GoLex.readString (quote Gen.isPrint s ++ rest) = some (s, rest) :=
  QuoteRT.string_roundtrip pSafe_gen s rest

-- non-vacuity
example : GoLex.readString (quote (fun _ => false) b!"a\"b\n" ++ b!"; y") = some (b!"a\"b\n", b!"; y") := by decide

end C12
