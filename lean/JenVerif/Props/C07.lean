import JenVerif.Lemmas.PermLemmas
import JenVerif.Gen.Globals
/-
  C07 — Output is deterministic: it never depends on Go map iteration order.
  Every function of the model that ranges over a Go map takes the entries as a LIST (the
  iteration order is a parameter); the theorems say the result is the same for any two
  permutations of it.
-/
namespace C07
open PermLemmas

/-- Tag: any iteration order of the map gives the same literal -/
theorem tag_perm (isPrint : Nat → Bool) {l₁ l₂ : List (Str × Str)} (h : l₁.Perm l₂) (nd : (l₁.map (·.1)).Nodup) :
    renderTag isPrint l₁ = renderTag isPrint l₂ := PermLemmas.tag_perm isPrint h nd

/-- import block: any iteration order of the import table gives the same block -/
theorem importBlock_perm (isPrint : Nat → Bool) {f₁ f₂ : FileS} (h : f₁.imports.Perm f₂.imports)
    (nd : (f₁.imports.map (·.1)).Nodup) (hc : f₁.cgo = f₂.cgo) :
    renderImports isPrint f₁ = renderImports isPrint f₂ := PermLemmas.imports_perm' isPrint h nd hc

/-- alias validity does not depend on the order of the import table -/
theorem validAlias_perm (cfg : Cfg) (f : FileS) {i₁ i₂ : List (Str × Def)} (h : i₁.Perm i₂) (a : Str) :
    Registry.isValidAlias cfg { f with imports := i₁ } a = Registry.isValidAlias cfg { f with imports := i₂ } a :=
  PermLemmas.isValidAlias_perm' cfg (f₁ := { f with imports := i₁ }) (f₂ := { f with imports := i₂ }) h a

/-- ImportNames: any iteration order of the argument map gives the same hint table … -/
theorem importNames_perm (f : FileS) {m₁ m₂ : List (Str × Str)} (h : m₁.Perm m₂) (nd : (m₁.map (·.1)).Nodup) (p : Str) :
    AList.lookup (Registry.importNames f m₁).hints p = AList.lookup (Registry.importNames f m₂).hints p :=
  PermLemmas.importNames_perm f h nd p

/-- Dict: once the texts of the kept pairs are fixed, any order of the pairs gives the same
    body (sorted by key text, then by value text) -/
theorem dict_perm (n : Nat) (first : Bool) {l₁ l₂ : List (Str × Str)} (h : l₁.Perm l₂) :
    Code.dictBodyP n first (l₁.mergeSort dictLe) = Code.dictBodyP n first (l₂.mergeSort dictLe) :=
  PermLemmas.dict_body_perm n first h

/-- OBLIGATION (regenerated): no function of package jen writes a package-level variable — there
    is no other incidental state -/
theorem no_global_writes : Gen.globalWrites = [] ∧ Gen.globalSuspicious = [] := by decide

theorem dictPairsP_perm (cfg : Cfg) (e : Code.Env) {ps₁ ps₂ : List (Code × Code)} (h : ps₁.Perm ps₂) :
    (Code.dictPairsP cfg e ps₁).Perm (Code.dictPairsP cfg e ps₂) := by
  induction h with
  | nil => exact List.Perm.refl _
  | cons x _ ih =>
    obtain ⟨k, v⟩ := x
    simp only [Code.dictPairsP, Code.dictTextsP]
    split
    · exact ih
    · exact List.Perm.cons _ ih
  | swap x y l =>
    obtain ⟨k, v⟩ := x
    obtain ⟨k', v'⟩ := y
    simp only [Code.dictPairsP, Code.dictTextsP]
    split <;> split <;> first | exact List.Perm.refl _ | exact List.Perm.swap _ _ _
  | trans _ _ ih1 ih2 => exact ih1.trans ih2

/-- Dict under a FIXED naming: any iteration order of the map renders the same bytes, with no
    hypothesis on the keys (equal key texts included) -/
theorem dict_render_perm (cfg : Cfg) (e : Code.Env) {ps₁ ps₂ : List (Code × Code)} (h : ps₁.Perm ps₂) :
    Code.renderP cfg e none (.dict ps₁) = Code.renderP cfg e none (.dict ps₂) := by
  simp only [Code.renderP]
  rw [PermLemmas.dict_sorted_perm (dictPairsP_perm cfg e h)]

/- `render_perm` for the STATEFUL renderer (a whole File whose Dicts are iterated in two
   different orders renders the same bytes) is FALSE on the current tree when the keys/values of
   a multi-pair Dict reference not-yet-imported packages that compete for one alias (known
   finding D7): the order in which they are first rendered decides who gets `d` and who `d1`.
   What is proved: under any fixed naming the Dict is permutation-invariant (`dict_render_perm`),
   and by T-R the stateful text is the pure text under the final naming; the final naming itself
   is order-independent whenever rendering the pairs registers nothing new. -/

end C07
