import JenVerif.Props.Common
import JenVerif.Lemmas.GenNamesLemmas
/-
  C18 — Standard-library packages are referred to by their real names.

  Proved: a path found in the regenerated `standardLibraryHints` table (and not hinted by the
  user) is either imported WITHOUT alias under exactly the table's name, or imported WITH an
  explicit alias; the qualifier written is always the registered name.  That the table's name is
  the package's declared name is data about the Go distribution: validated exhaustively by the
  harness against GOROOT/src, not provable here.
-/
namespace C18
open Registry RegistryInv RegistryGood Props

/-- OBLIGATION (regenerated table): names are identifiers; keys are distinct -/
theorem table_wellformed : stdOkB Gen.stdHints = true ∧ (Gen.stdHints.map (·.1)).Nodup := by
  refine ⟨stdHints_check, ?_⟩
  decide +kernel

/-- a table hit without a user hint: the candidate is the table's name, not aliased -/
theorem table_hit_base (cfg : Cfg) (f : FileS) (p : Str) (hu : (lookupHint f p).name = [])
    (hs : stdHint cfg p ≠ []) : chooseBase cfg f p = (stdHint cfg p, false) := by
  simp [chooseBase, hu, hs]

/-- … and the registered definition is either exactly (table name, no alias) or an alias -/
theorem table_hit_not_aliased (cfg : Cfg) (f : FileS) (p : Str) (hu : (lookupHint f p).name = [])
    (hs : stdHint cfg p ≠ []) :
    chooseDef cfg f p = ⟨stdHint cfg p, false⟩ ∨ (chooseDef cfg f p).alias = true := by
  by_cases ha : (chooseDef cfg f p).alias = true
  · exact Or.inr ha
  · left
    have ha' : (chooseDef cfg f p).alias = false := by simpa using ha
    have hb := table_hit_base cfg f p hu hs
    have hn : (chooseDef cfg f p).name = (chooseBase cfg f p).1 := by
      by_cases h : (chooseDef cfg f p).name = (chooseBase cfg f p).1
      · exact h
      · have := renamed_is_aliased cfg f p h
        rw [ha'] at this; cases this
    cases hcd : chooseDef cfg f p with
    | mk nm al =>
      rw [hcd] at hn ha'
      simp only at hn ha'
      rw [hn, ha', hb]

/-- an unaliased import is only ever written for a name the package really has: the table's
    name or a name the user supplied through ImportName(s) -/
theorem unaliased_is_real_name (cfg : Cfg) (f : FileS) (p : Str) (h : (chooseDef cfg f p).alias = false) :
    ((lookupHint f p).name ≠ [] ∧ (lookupHint f p).alias = false ∧ (chooseDef cfg f p).name = (lookupHint f p).name) ∨
    ((lookupHint f p).name = [] ∧ stdHint cfg p ≠ [] ∧ (chooseDef cfg f p).name = stdHint cfg p) := by
  have hn : (chooseDef cfg f p).name = (chooseBase cfg f p).1 := by
    by_cases h' : (chooseDef cfg f p).name = (chooseBase cfg f p).1
    · exact h'
    · have := renamed_is_aliased cfg f p h'
      rw [h] at this; cases this
  have hb : (chooseBase cfg f p).2 = false := by
    rw [chooseDef_eq] at h
    simp only [Bool.or_eq_false_iff] at h
    exact h.1
  by_cases hu : (lookupHint f p).name = []
  · right
    by_cases hs : stdHint cfg p = []
    · have : chooseBase cfg f p = (guessAlias cfg.toLower p, true) := by simp [chooseBase, hu, hs]
      rw [this] at hb; cases hb
    · refine ⟨hu, hs, ?_⟩
      rw [hn, table_hit_base cfg f p hu hs]
  · left
    have e : chooseBase cfg f p = ((lookupHint f p).name, (lookupHint f p).alias) := by simp [chooseBase, hu]
    rw [e] at hb hn
    exact ⟨hu, hb, hn⟩

/-- the qualifier written for a path is the name the table stores for it (so it equals the
    import spec's name, or the real name when the spec has none) -/
theorem qualifier_is_registered {cfg : Cfg} {f : FileS} (hH : HintsOk f) (hS : StdOk cfg) (p : Str)
    (hl : isLocal f p = false) :
    (register cfg f p).1 = (lookupImp (register cfg f p).2 p).name :=
  (register_returns_stored hH hS hl).1.symm

/-- gennames: every entry (p, n) of the table it produces comes from a line of `go list` with the
    requested Standard flag, a package name other than `main`, a path accepted by the filter and
    un-vendored to p, and n is that line's package name (the first such line wins).  The lines
    themselves (what `go list` prints for the installed toolchain) and the regexp filter are
    parameters; the harness runs the real gennames and `go list` and compares. -/
theorem gennames_lines (accepts : Str → Bool) (standard novendor : Bool) (ls : List GenNames.Line) (p n : Str)
    (h : (p, n) ∈ GenNames.getPackages accepts standard novendor ls []) :
    ∃ l ∈ ls, l.standard = standard ∧ l.name ≠ b!"main" ∧ accepts l.path = true ∧ GenNames.unvendorPath l.path = p ∧ l.name = n :=
  GenNamesLemmas.gennames_lines accepts standard novendor ls p n h

-- non-vacuity: the regenerated table has entries, e.g. math/rand and crypto/rand share a name
example : AList.lookup Gen.stdHints b!"math/rand" = some b!"rand" ∧ AList.lookup Gen.stdHints b!"crypto/rand" = some b!"rand" := by
  decide +kernel

end C18
