import JenVerif.Props.Common
import JenVerif.Lemmas.Frame
/-
  C05 — Import names are unique and legal for any path, hint and prefix.
-/
namespace C05
open Registry RegistryInv Props

/-- the Go specification's 25 keywords -/
def goKeywords : List Str := [b!"break", b!"default", b!"func", b!"interface", b!"select", b!"case", b!"defer", b!"go",
  b!"map", b!"struct", b!"chan", b!"else", b!"goto", b!"package", b!"switch", b!"const", b!"fallthrough", b!"if",
  b!"range", b!"type", b!"continue", b!"for", b!"import", b!"return", b!"var"]

/-- the universe scope of Go 1.21+: types, constants, zero value, functions -/
def goPredeclared : List Str := [b!"any", b!"bool", b!"byte", b!"comparable", b!"complex64", b!"complex128", b!"error",
  b!"float32", b!"float64", b!"int", b!"int8", b!"int16", b!"int32", b!"int64", b!"rune", b!"string", b!"uint", b!"uint8",
  b!"uint16", b!"uint32", b!"uint64", b!"uintptr", b!"true", b!"false", b!"iota", b!"nil", b!"append", b!"cap", b!"clear",
  b!"close", b!"complex", b!"copy", b!"delete", b!"imag", b!"len", b!"make", b!"max", b!"min", b!"new", b!"panic",
  b!"print", b!"println", b!"real", b!"recover"]

/-- OBLIGATION (regenerated table): every keyword and every predeclared identifier is reserved -/
theorem reserved_covers : (goKeywords ++ goPredeclared).all (fun w => Gen.reserved.contains w) = true := by
  decide +kernel

theorem reserved_covers_mem (tl : Str → Str) (ip : Nat → Bool) (w : Str) (h : w ∈ goKeywords ++ goPredeclared) :
    w ∈ (cfgOf tl ip).reserved := by
  have := List.all_eq_true.mp reserved_covers w h
  simp only [cfgOf, List.mem_cons]
  right
  simpa using this

/-- for EVERY byte string and EVERY lower-casing function the guessed alias is in `[a-z][a-z0-9]*` -/
theorem guessAlias_legal (toLower : Str → Str) (p : Str) : isLowerIdent (guessAlias toLower p) = true :=
  RegistryInv.guessAlias_legal toLower p

/-- the uniquifier terminates within its fuel and returns the least acceptable index -/
theorem uniquify_terminates (cfg : Cfg) (f : FileS) (name : Str) (alias : Bool) :
    let i := uniqLoop cfg f name alias (uniqFuel cfg f) 0
    acceptable cfg f name alias i = true ∧ (∀ j, j < i → acceptable cfg f name alias j = false) ∧
    i ≤ 2 * (cfg.reserved.length + f.imports.length) :=
  ⟨(uniqLoop_spec cfg f name alias).1, (uniqLoop_spec cfg f name alias).2, uniqLoop_le_bound cfg f name alias⟩

/-- operations on the registry of one file -/
inductive RegOp
  | register (p : Str)
  | anon (p : Str)
  | importName (p n : Str)
  | importAlias (p n : Str)
  | importNames (m : List (Str × Str))

def okName (n : Str) : Prop := n = [] ∨ (isIdent n = true ∧ n ≠ b!"_")

/-- the property's guard on user input: names given to ImportName(s) are identifiers, aliases are
    identifiers or "." ; nobody names another package `C` -/
def RegOp.ok : RegOp → Prop
  | .register _ => True
  | .anon _ => True
  | .importName _ n => okName n
  | .importAlias _ n => okName n ∨ n = b!"."
  | .importNames m => ∀ e ∈ m, okName e.2

def RegOp.run (cfg : Cfg) (f : FileS) : RegOp → FileS
  | .register p => (Registry.register cfg f p).2
  | .anon p => Registry.anon f p
  | .importName p n => Registry.importName f p n
  | .importAlias p n => Registry.importAlias f p n
  | .importNames m => Registry.importNames f m

theorem cfree (tl : Str → Str) (ip : Nat → Bool) {f : FileS} (hI : Inv (cfgOf tl ip) f) : CFree f :=
  cfree_of_reserved hI (by simp [cfgOf])

/-- one step preserves the invariant and the hint guard -/
theorem step_inv (tl : Str → Str) (ip : Nat → Bool) (f : FileS) (op : RegOp) (hok : op.ok)
    (hI : Inv (cfgOf tl ip) f) (hH : HintsOk f) :
    Inv (cfgOf tl ip) (op.run (cfgOf tl ip) f) ∧ HintsOk (op.run (cfgOf tl ip) f) := by
  cases op with
  | register p =>
    exact ⟨register_inv hI hH (stdOk tl ip) p (cfree_cguard (cfree tl ip hI) p), register_hintsOk hH p⟩
  | anon p => exact ⟨anon_inv hI p, anon_hintsOk hH p⟩
  | importName p n => exact ⟨importName_inv hI p n, importName_hintsOk hH p hok⟩
  | importAlias p n =>
    refine ⟨importAlias_inv hI p n, importAlias_hintsOk hH p ?_⟩
    rcases hok with h | h
    · rcases h with h | h
      · exact Or.inl h
      · exact Or.inr (Or.inr h)
    · exact Or.inr (Or.inl h)
  | importNames m => exact ⟨importNames_inv hI m, importNames_hintsOk m hH hok⟩

/-- C05 for every reachable state: after ANY sequence of registrations, Anon calls and hint
    calls (within the guard), on a file with any legal prefix, the import table has one entry
    per path, distinct paths never share a real name, and every real name is an identifier that
    is neither a keyword nor predeclared nor otherwise reserved -/
theorem names_unique_and_legal (tl : Str → Str) (ip : Nat → Bool) (f0 : FileS)
    (h0 : f0.imports = []) (hH0 : HintsOk f0) (ops : List RegOp) (hok : ∀ op ∈ ops, op.ok) :
    let f := ops.foldl (fun f op => op.run (cfgOf tl ip) f) f0
    Inv (cfgOf tl ip) f ∧ HintsOk f := by
  have hI0 : Inv (cfgOf tl ip) f0 := inv_congr (f := {}) (by simp [h0]) (inv_empty _)
  suffices ∀ (ops : List RegOp) (f : FileS), (∀ op ∈ ops, op.ok) → Inv (cfgOf tl ip) f → HintsOk f →
      Inv (cfgOf tl ip) (ops.foldl (fun f op => op.run (cfgOf tl ip) f) f) ∧
      HintsOk (ops.foldl (fun f op => op.run (cfgOf tl ip) f) f) from this ops f0 hok hI0 hH0
  intro ops
  induction ops with
  | nil => intro f _ hI hH; exact ⟨hI, hH⟩
  | cons op ops ih =>
    intro f hok hI hH
    have s := step_inv tl ip f op (hok op (by simp)) hI hH
    exact ih _ (fun o ho => hok o (by simp [ho])) s.1 s.2

/-- spelled out: a keyword or predeclared identifier is never an import name -/
theorem no_reserved_name (tl : Str → Str) (ip : Nat → Bool) {f : FileS} (hI : Inv (cfgOf tl ip) f)
    (p : Str) (d : Def) (hm : (p, d) ∈ f.imports) (hr : realName d.name = true) (hp : p ≠ b!"C") :
    isIdent d.name = true ∧ d.name ∉ goKeywords ++ goPredeclared := by
  have h := hI.namesLegal p d hm hr
  refine ⟨h.1, fun hw => ?_⟩
  rcases h.2 with h2 | h2
  · exact h2 (reserved_covers_mem tl ip _ hw)
  · exact hp h2

/-- the uniqueness is of the FINAL (prefixed) names: the stored name is what is checked -/
theorem prefixed_unique (cfg : Cfg) (f : FileS) (p : Str) :
    isValidAlias cfg f (chooseDef cfg f p).name = true := chooseDef_valid cfg f p

/-- a renamed candidate is always written as an explicit alias -/
theorem renamed_is_aliased (cfg : Cfg) (f : FileS) (p : Str) :
    (chooseDef cfg f p).name ≠ (chooseBase cfg f p).1 → (chooseDef cfg f p).alias = true :=
  RegistryInv.renamed_is_aliased cfg f p

/-- the registrations performed INSIDE the renderer keep the invariant: any chain of `register`
    steps does -/
theorem regFrom_inv (tl : Str → Str) (ip : Nat → Bool) {S : Str → Bool} {f f' : FileS}
    (h : Frame.RegFrom (cfgOf tl ip) S f f') (hI : Inv (cfgOf tl ip) f) (hH : HintsOk f) :
    Inv (cfgOf tl ip) f' ∧ HintsOk f' := by
  induction h with
  | refl => exact ⟨hI, hH⟩
  | step _ _ ih =>
    exact ⟨register_inv ih.1 ih.2 (stdOk tl ip) _ (cfree_cguard (cfree tl ip ih.1) _), register_hintsOk ih.2 _⟩

/-- C05 for rendered files: after File.Render / RenderWithFile of ANY tree, from any state that
    satisfies the invariant (e.g. any state reached as in `names_unique_and_legal`), the import
    table still has one entry per path, unique and legal names -/
theorem render_keeps_names_unique_and_legal (tl : Str → Str) (ip : Nat → Bool) (f : FileS) (prev : Option Code) (c : Code)
    (hI : Inv (cfgOf tl ip) f) (hH : HintsOk f) :
    Inv (cfgOf tl ip) (Code.renderS (cfgOf tl ip) f prev c).2 ∧ HintsOk (Code.renderS (cfgOf tl ip) f prev c).2 :=
  regFrom_inv tl ip (Frame.renderS_reach (cfgOf tl ip) c f prev) hI hH

-- non-vacuity: a file with a keyword hint, a prefix and colliding paths satisfies the guard and
-- reaches a state with three distinct legal names (checked by evaluation in RegistryInv)
example : HintsOk RegistryInv.f0 := RegistryInv.hintsOk_f0

end C05
