import JenVerif.Lemmas.CommentLemmas
import JenVerif.Lemmas.ListSem
import JenVerif.Lemmas.QuoteRT
import JenVerif.FileRender
/-
  C15 — Comments are contained and preserved; file-level comments are placed right.
  Spec side: `GoComment.skipComment` (how the Go specification delimits comments).
-/
namespace C15
open Code CommentLemmas

/-- one-line text: rendered in line style; with the newline that follows it in every multi-line
    group, the comment ends exactly before that newline: nothing after it is swallowed and the
    text is verbatim inside -/
theorem line_comment_contained (t : Str) (hd : InDomain t) (h : t.elem 10 = false) (rest : Str) :
    GoComment.skipComment (renderComment t ++ [10] ++ rest) = some (b!"// " ++ t, [10] ++ rest) :=
  CommentLemmas.line_comment_contained hd h rest

/-- text with newlines: rendered in block style, verbatim, and the comment ends exactly at the
    `*/` that the renderer appends — whatever follows -/
theorem block_comment_contained (t : Str) (hd : InDomain t) (h : t.elem 10 = true) (rest : Str) :
    GoComment.skipComment (renderComment t ++ rest) = some (renderComment t, rest) ∧
    renderComment t = b!"/*\n" ++ t ++ (if t.getLast? = some 10 then [] else [10]) ++ b!"*/" :=
  ⟨CommentLemmas.block_comment_contained hd h rest, CommentLemmas.renderComment_block hd h⟩

/-- in a multi-line group with a closer (Block, Defs, Struct, Interface — looked up by their
    regenerated `multi` flag) every kept item's text is followed by a newline: the next item's
    lead, or the "\n"/",\n" written before the closer.  Hence a line comment ending an item can
    never swallow the closer or the next item. -/
theorem multi_items_end_with_newline (g : GInfo) (hm : g.multi = true) (hc : g.cls ≠ []) :
    (∀ first, ∃ r, itemLead g first = r ++ [10]) ∧
    (∃ r, closeSep g g.cls false = [10] ++ r ∨ closeSep g g.cls false = b!",\n") := by
  constructor
  · intro first
    exact ⟨if !first && g.sep != [] then g.sep else [], by simp [itemLead, hm]⟩
  · have : (g.cls != []) = true := by simpa using hc
    by_cases hs : g.sep == b!"," <;> simp [closeSep, hm, this, hs]

/-- the body of a File is a multi-line group without closer: every item is preceded by a newline
    and the comment-ending item is followed by the next item's newline or by the end of input -/
theorem file_items_on_own_lines : Code.fileInfo.multi = true ∧ Code.fileInfo.cls = [] ∧ itemLead Code.fileInfo true = [10] := by
  decide

/-- file-level layout of the unformatted source: headers, a BLANK line, package comments,
    `package name`, optional ` // import "<quoted path>"`, blank line -/
theorem file_header_layout (isPrint : Nat → Bool) (f : FileS) :
    fileHead isPrint f =
      (if f.headers.isEmpty then [] else commentLines f.headers ++ b!"\n") ++ commentLines f.comments ++
      b!"package " ++ f.name ++
      (if f.canonical.isEmpty then [] else b!" // import " ++ Quote.quote isPrint f.canonical) ++ b!"\n\n" := rfl

/-- every header / package comment occupies its own line(s): each is followed by a newline -/
theorem comment_lines_newline (cs : List Str) :
    commentLines cs = (cs.map fun c => renderComment c ++ b!"\n").flatten := rfl

/-- the canonical-path annotation is one well-formed string literal for EVERY path -/
theorem canonical_annotation_wellformed {isPrint : Nat → Bool} (h : Quote.PSafe isPrint) (p rest : Str) :
    GoLex.readString (Quote.quote isPrint p ++ rest) = some (p, rest) :=
  QuoteRT.string_roundtrip h p rest

-- non-vacuity: text that looks like code, and a multi-line text ending in '*'
example : InDomain b!"x := 1; }" := by decide
example : GoComment.skipComment (renderComment b!"x := 1; }" ++ b!"\n}") = some (b!"// x := 1; }", b!"\n}") := by decide

end C15
