import JenVerif.Heap
import JenVerif.FileRender
import JenVerif.Gen.Api
import JenVerif.Gen.Constructs
import JenVerif.Gen.Tokens
/-
  C14 — All forms of a construct are equivalent; callbacks run once, at build time.

  Tie: `Gen.api` is regenerated from /repo on every check; each exported function/method body is
  classified into a SHAPE by matching its normalised statements (translator/main.go `shapeOf`):
    delegateToNew            func X(a…) *Statement { return newStatement().X(a…) }
    groupAppend              func (g *Group) X(a…) *Statement { s := X(a…); g.items = append(g.items, s); return s }
    stmtAppendGroup          func (s *Statement) X(a…) … { g := &Group{…}; *s = append(*s, g); return s }
    stmtAppendGroupCallback  … g := &Group{…}; f(g); *s = append(*s, g); return s
    stmtAppendToken / stmtAppendOther / stmtAppendItems / evalCallbackThenAppend / callbackOnSelf
  Anything else is `other`.  The heap semantics of each shape is defined below; the theorems are
  proved once per shape and lifted to every API entry by the table obligations.
-/
namespace C14
open Heap Gen

/-- methods that are not constructs (rendering, cloning, file settings …) -/
def nonConstructs : List Str := [b!"Anon", b!"CgoPreamble", b!"Clone", b!"DictFunc", b!"GoString", b!"HeaderComment",
  b!"ImportAlias", b!"ImportName", b!"ImportNames", b!"IsReservedWord", b!"NewFile", b!"NewFilePath", b!"NewFilePathName",
  b!"PackageComment", b!"Render", b!"RenderWithFile", b!"Save"]

/-- OBLIGATION: every construct-like API entry has a recognised shape -/
theorem shapes_recognised :
    Gen.api.all (fun d => d.shape != Shape.other || nonConstructs.contains d.name) = true := by decide +kernel

def isStmtConstruct (d : ApiEntry) : Bool :=
  d.recv == Recv.stmt && d.shape != Shape.other && d.shape != Shape.cloneWrap

/-- OBLIGATION: every construct exists in all three forms: a package function that delegates to
    the Statement method on a new statement, and a Group method that builds through the function
    form, appends the new statement to the group and returns it -/
theorem forms_complete :
    Gen.api.all (fun d => !isStmtConstruct d ||
      (Gen.api.any (fun x => x.name == d.name && x.recv == Recv.func && x.shape == Shape.delegateToNew &&
          x.nparams == d.nparams && x.variadic == d.variadic) &&
       Gen.api.any (fun x => x.name == d.name && x.recv == Recv.group && x.shape == Shape.groupAppend &&
          x.nparams == d.nparams && x.variadic == d.variadic))) = true := by decide +kernel

/-- … and no package function or Group method exists without its Statement method -/
theorem no_orphan_forms :
    Gen.api.all (fun d => !((d.recv == Recv.func && d.shape == Shape.delegateToNew) || (d.recv == Recv.group && d.shape == Shape.groupAppend)) ||
      Gen.api.any (fun x => x.name == d.name && isStmtConstruct x)) = true := by decide +kernel

/-- variadic constructs that deliberately have no Func variant (genjen/data.go `preventFunc`) -/
def preventFunc : List Str := [b!"Make"]

/-- OBLIGATION: every variadic group construct has a …Func variant built from the SAME
    name/open/close/separator/multi (so the two render identically on the same items) -/
theorem funcvariants_complete :
    Gen.constructs.all (fun c => !(c.arity == Arity.variadic && !c.dynamic) || preventFunc.contains c.api ||
      Gen.constructs.any (fun x => x.api == c.api ++ b!"Func" && x.arity == Arity.callback && x.info == c.info)) = true := by
  decide +kernel

/-- OBLIGATION: a Func variant never exists with different delimiters than its plain form -/
theorem funcvariants_same_group :
    Gen.constructs.all (fun x => !(x.arity == Arity.callback) ||
      Gen.constructs.any (fun c => c.api ++ b!"Func" == x.api && c.info == x.info && c.dynamic == x.dynamic)) = true := by
  decide +kernel

/-! ### heap semantics of the shapes -/

/-- statement form: append the built item to the receiver, in place; return the receiver -/
def stmtForm (h : Heap) (s : Nat) (item : HCode) : Heap := append h s [item]

/-- function form `newStatement().X(a…)`: the Statement method on a fresh, empty statement -/
def funcForm (h : Heap) (fresh : Nat) (item : HCode) : Heap := stmtForm (set h fresh []) fresh item

/-- group form: build through the function form, append the new statement to the group, return it -/
def groupForm (h : Heap) (items : List HCode) (fresh : Nat) (item : HCode) : Heap × List HCode × Nat :=
  (funcForm h fresh item, items ++ [.ref fresh], fresh)

theorem get_set_self (h : Heap) (r : Nat) (xs : List HCode) : get (set h r xs) r = xs := by
  induction h with
  | nil => simp [Heap.set, Heap.get]
  | cons e rest ih =>
    obtain ⟨r', it⟩ := e
    by_cases hr : (r' == r) = true
    · simp [Heap.set, Heap.get, hr]
    · simp [Heap.set, Heap.get, hr, ih]

/-- the function form yields a statement holding exactly the item the method form would append
    to an empty statement -/
theorem func_eq_method_on_new (h : Heap) (fresh : Nat) (item : HCode) :
    get (funcForm h fresh item) fresh = [item] := by
  simp [funcForm, stmtForm, Heap.append, get_set_self]

/-- the Group form returns that same statement AND the group's items grew by exactly it -/
theorem group_form_appends_and_returns (h : Heap) (items : List HCode) (fresh : Nat) (item : HCode) :
    let r := groupForm h items fresh item
    get r.1 r.2.2 = [item] ∧ r.2.1 = items ++ [.ref r.2.2] := by
  simp [groupForm, func_eq_method_on_new]

/-- a Func variant whose callback adds the items `xs` to the group builds the same group as the
    variadic form called with `xs` (same `GInfo` by `funcvariants_complete`) -/
theorem funcvariant_eq_variadic (g : GInfo) (xs : List HCode) :
    (HCode.group g ([] ++ xs)) = HCode.group g xs := by simp

/-- rendering never runs user code: no constructor of `Code` carries a function, so `renderS` /
    `renderP` are functions of first-order data only.  The render entry points of a Statement or
    Group are ONE function of the model: `Render(w)` is `RenderWithFile(w, NewFile(""))` by
    definition, and `GoString()` returns exactly the bytes that `Render` hands to its writer — for
    every tree, every formatter and every writer (whether or not the writer accepts them) — and
    succeeds whenever `Render` does. -/
theorem render_entrypoints_agree (w : World) (cfg : Cfg) (c : Code) :
    fragRenderFresh w cfg c = fragRender w cfg (Registry.newFile []) c ∧
    (fragGoString w.gofmt cfg c).2.1 = Effect.written (fragRenderFresh w cfg c).2.1 ∧
    ((fragRenderFresh w cfg c).1 = .ok → (fragGoString w.gofmt cfg c).1 = .ok) ∧
    ((fragGoString w.gofmt cfg c).1 = .ok →
      (fragRenderFresh w cfg c).1 = .ok ∨ (fragRenderFresh w cfg c).1 = .errWriter) := by
  refine ⟨rfl, ?_, ?_, ?_⟩ <;>
  · simp only [fragGoString, goStringFrom, fragRenderFresh, fragRender, fileRenderFrom, emit, World.buffered]
    by_cases hm : Code.misuse (Registry.newFile []).np c = true
    · simp [hm, Effect.written]
    · simp only [hm, Bool.false_eq_true, if_false]
      cases hg : w.gofmt (Code.renderS cfg (Registry.newFile []) none c).1 with
      | none => simp [Effect.written]
      | some out => cases hw : w.writer out <;> simp [Effect.written]

/-- the same for a File: `GoString` is `Render` into a buffer -/
theorem file_gostring_is_render (w : World) (cfg : Cfg) (f : FileS) (body : List Code) :
    (fileGoString w.gofmt cfg f body).2.1 = Effect.written (fileRender w cfg f body).2.1 ∧
    (fileGoString w.gofmt cfg f body).2.2 = (fileRender w cfg f body).2.2 ∧
    ((fileRender w cfg f body).1 = .ok → (fileGoString w.gofmt cfg f body).1 = .ok) := by
  refine ⟨?_, ?_, ?_⟩ <;>
  · simp only [fileGoString, goStringFrom, fileRender, fileRenderFrom, emit, World.buffered]
    by_cases hm : Code.misuse f.np (.group Code.fileInfo body) = true
    · simp [hm, Effect.written]
    · simp only [hm, Bool.false_eq_true, if_false]
      cases hn : f.noFormat
      · simp only [Bool.false_eq_true, if_false]
        cases hg : w.gofmt (renderFileRaw cfg f body).1 with
        | none => simp [Effect.written]
        | some out => cases hw : w.writer out <;> simp [Effect.written]
      · cases hw : w.writer (renderFileRaw cfg f body).1 <;> simp [Effect.written]

/-- OBLIGATION: the API entries that take a callback are exactly those whose shape CALLS it
    inside the constructing function (`f(g)`, `f()`, `f(s)`) — checked on the regenerated
    bodies; a lazily stored callback would be shape `other` -/
theorem callbacks_run_at_build :
    Gen.api.all (fun d => !(d.takesFunc && d.recv == Recv.stmt) ||
      d.shape == Shape.stmtAppendGroupCallback || d.shape == Shape.evalCallbackThenAppend || d.shape == Shape.callbackOnSelf) = true := by
  decide +kernel

-- non-vacuity: the table has the three forms of Call and the Func variant
example : Gen.api.any (fun d => d.name == b!"CallFunc" && d.shape == Shape.stmtAppendGroupCallback) = true := by decide +kernel

end C14
