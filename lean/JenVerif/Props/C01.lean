import JenVerif.Lemmas.PrinterEq
import JenVerif.Props.Common
import JenVerif.Lemmas.Frame
/-
  C01 — Faithful rendering: any Go program built through the DSL re-parses to itself.

  Proved: the renderer's half.  `GoSyn` is a transcription of go/ast's syntactic categories;
  `GoSyn.build…` chooses the documented DSL element for each construct, looking every group's
  open/close/separator/multi and every token up in the tables REGENERATED from /repo;
  `GoSyn.print…` is a plain reference printer (explicit separators, no null items, no "first"
  flags, no case-block special case).  Theorem: rendering the built tree = the reference text,
  for every tree of every category; and for a whole File the unformatted source is
  head ++ import block ++ that text (T-R).
  Not proved (trusted, validated on all of GOROOT/src and generated programs by the harness):
  that gofmt + go/parser read the reference text back to the same tree.
-/
namespace C01
open Code GoSyn PrinterEq Registry RegistryInv RegistryGood Refine Props

/-- OBLIGATIONS (regenerated tables): the delimiters of every construct the builder uses -/
theorem lookup_Call : ginfo b!"Call" = ⟨b!"call", b!"(", b!")", b!",", false⟩ := ginfo_Call
theorem lookup_Params : ginfo b!"Params" = ⟨b!"params", b!"(", b!")", b!",", false⟩ := ginfo_Params
theorem lookup_Index : ginfo b!"Index" = ⟨b!"index", b!"[", b!"]", b!":", false⟩ := ginfo_Index
theorem lookup_Types : ginfo b!"Types" = ⟨b!"types", b!"[", b!"]", b!",", false⟩ := ginfo_Types
theorem lookup_Values : ginfo b!"Values" = ⟨b!"values", b!"{", b!"}", b!",", false⟩ := ginfo_Values
theorem lookup_Block : ginfo b!"Block" = ⟨b!"block", b!"{", b!"}", [], true⟩ := ginfo_Block
theorem lookup_Case : ginfo b!"Case" = ⟨b!"case", b!"case ", b!":", b!",", false⟩ := ginfo_Case
theorem lookup_Return : ginfo b!"Return" = ⟨b!"return", b!"return ", [], b!",", false⟩ := ginfo_Return
theorem lookup_If_For_Switch :
    ginfo b!"If" = ⟨b!"if", b!"if ", [], b!";", false⟩ ∧ ginfo b!"For" = ⟨b!"for", b!"for ", [], b!";", false⟩ ∧
    ginfo b!"Switch" = ⟨b!"switch", b!"switch ", [], b!";", false⟩ := ⟨ginfo_If, ginfo_For, ginfo_Switch⟩
theorem lookup_Struct_Interface_Defs :
    ginfo b!"Struct" = ⟨b!"struct", b!"struct{", b!"}", [], true⟩ ∧
    ginfo b!"Interface" = ⟨b!"interface", b!"interface{", b!"}", [], true⟩ ∧
    ginfo b!"Defs" = ⟨b!"defs", b!"(", b!")", [], true⟩ := ⟨ginfo_Struct, ginfo_Interface, ginfo_Defs⟩
theorem lookup_rest :
    ginfo b!"Parens" = ⟨b!"parens", b!"(", b!")", [], false⟩ ∧ ginfo b!"Assert" = ⟨b!"assert", b!".(", b!")", [], false⟩ ∧
    ginfo b!"Map" = ⟨b!"map", b!"map[", b!"]", [], false⟩ ∧ ginfo b!"List" = ⟨b!"list", [], [], b!",", false⟩ ∧
    ginfo b!"Qual" = Code.qualInfo := ⟨ginfo_Parens, ginfo_Assert, ginfo_Map, ginfo_List, ginfo_Qual⟩
theorem lookup_tokens :
    tokEntry b!"Default" = (.kw, b!"default") ∧ tokEntry b!"Func" = (.kw, b!"func") ∧ tokEntry b!"Else" = (.kw, b!"else") ∧
    tokEntry b!"Range" = (.kw, b!"range") ∧ tokEntry b!"Empty" = (.op, []) ∧ tokEntry b!"Line" = (.layout, b!"\n") ∧
    tokEntry b!"Dot" = (.delim, b!".") :=
  ⟨tokEntry_Default, tokEntry_Func, tokEntry_Else, tokEntry_Range, tokEntry_Empty, tokEntry_Line, tokEntry_Dot⟩

/-- MAIN: for every expression/type, statement, declaration and file body: rendering the tree
    that the documented builder produces gives exactly the reference printer's text — for all
    compositions, nesting depths and arities -/
theorem render_build_eq_print_expr (cfg : Cfg) (x : Expr) (e : Env) (h : WellFormed e x) :
    renderP cfg e none (build x) = print e x := render_build_eq_print cfg x e h

theorem render_build_eq_print_stmt (cfg : Cfg) (s : Stmt) (e : Env) (h : WellFormedS e s) :
    renderP cfg e none (buildS s) = printS e s := PrinterEq.render_build_eq_print_stmt cfg s e h

theorem render_build_eq_print_decl (cfg : Cfg) (d : Decl) (e : Env) (h : WellFormedD e d) :
    renderP cfg e none (buildD d) = printD e d := PrinterEq.render_build_eq_print_decl cfg d e h

theorem render_build_eq_print_file (cfg : Cfg) (ds : List Decl) (e : Env) (h : wfFile e.np ds = true) :
    renderP cfg e none (buildFile ds) = printFile e ds := PrinterEq.render_build_eq_print_file cfg ds e h

/-- the reference printer writes, for each list-like category, open ++ items joined by the
    separator ++ close, for EVERY arity (a property of `print`: this is what makes it auditable) -/
theorem print_call_every_arity (e : Env) (f : Expr) (args : List Expr) :
    print e (.call f args) = print e f ++ b!" (" ++ (b!"," : Str).intercalate (args.map (print e)) ++ b!")" :=
  (PrinterEq.print_lists_every_item e).1 f args

/-- the whole File (stateful renderer, imports registered on the fly): the unformatted source is
    head ++ import block ++ the reference text of the declarations under the final naming; the
    render cannot fail with the Values/Dict misuse error -/
theorem file_render {cfg : Cfg} {f : FileS} (hH : HintsOk f) (hS : StdOk cfg) (ds : List Decl)
    (hw : wfFile (renderFileRaw cfg f (ds.map buildD)).2.np ds = true) :
    let f1 := (renderFileRaw cfg f (ds.map buildD)).2
    (renderFileRaw cfg f (ds.map buildD)).1 =
      fileHead cfg.isPrint f1 ++ renderImports cfg.isPrint f1 ++ printFile (envOf f1) ds ∧
    misuse f.np (buildFile ds) = false := by
  have h := (renderFileRaw_pure cfg f (ds.map buildD) (good_of_hintsOk hH hS)).2
  refine ⟨?_, buildFile_no_misuse f.np ds⟩
  rw [h]
  congr 1
  exact PrinterEq.render_build_eq_print_file cfg ds (envOf _) hw

end C01
