import JenVerif.Props.Common
import JenVerif.Lemmas.Frame
/-
  C04 — The import block is exact: used paths and anonymous imports, nothing else.
  `Frame.visits np c p` : does the traversal of `c` hand path `p` to the registry — i.e. is there
  a package token for `p` that is reached (not inside an item that is skipped as null).
-/
namespace C04
open Code Registry RegistryInv RegistryGood Refine Frame Props

/-- EXACTNESS for a file render: a path is in the import table afterwards iff it was there
    before (Anon imports, earlier renders) or a reached reference names it (and it is not the
    file's own path); and every reached non-local reference is imported under a real name -/
theorem block_paths_exact {cfg : Cfg} {f : FileS} (hH : HintsOk f) (hS : StdOk cfg) (body : List Code) (p : Str) :
    (p ∈ (renderFileRaw cfg f body).2.imports.map (·.1) →
      p ∈ f.imports.map (·.1) ∨ (visitsItems f.np body p = true ∧ isLocal f p = false)) ∧
    (visitsItems f.np body p = true → isLocal f p = false → isReg (renderFileRaw cfg f body).2 p = true) :=
  file_imports_exact cfg f body (good_of_hintsOk hH hS) p

/-- each path once: the table has one entry per path in every reachable state (C05's invariant),
    so the printed block — which lists the table — has no duplicate -/
theorem no_duplicate_paths {cfg : Cfg} {f : FileS} (hI : Inv cfg f) : (f.imports.map (·.1)).Nodup := hI.keysDistinct

/-- hints alone import nothing: the hint setters never touch the import table -/
theorem hints_alone_import_nothing (f : FileS) (p n : Str) (m : List (Str × Str)) :
    (importName f p n).imports = f.imports ∧ (importAlias f p n).imports = f.imports ∧
    (importNames f m).imports = f.imports := hints_do_not_import f p n m

/-- a path that is hinted but never reached is not imported by rendering -/
theorem unreferenced_hint_not_imported {cfg : Cfg} {f : FileS} (hH : HintsOk f) (hS : StdOk cfg) (body : List Code) (p : Str)
    (hnew : p ∉ f.imports.map (·.1)) (hv : visitsItems f.np body p = false) :
    p ∉ (renderFileRaw cfg f body).2.imports.map (·.1) := by
  intro h
  rcases (block_paths_exact hH hS body p).1 h with h' | h'
  · exact hnew h'
  · rw [hv] at h'; cases h'.1

/-- elements that render nothing contribute nothing: a null item of a group (that is not itself
    a bare package token) is skipped without touching the registry … -/
theorem void_contributes_nothing (cfg : Cfg) (g : GInfo) (first : Bool) (f : FileS) (c : Code) (cs : List Code)
    (hn : isNull f.np c = true) (hd : ∀ s, c ≠ .tok .pkg s) :
    renderItemsS cfg g first f (c :: cs) = renderItemsS cfg g first f cs :=
  null_item_contributes_nothing cfg g first f c cs hn hd

/-- … a Dict pair with a null side is never visited, nor is an all-null type-parameter list -/
theorem omitted_pairs_not_visited (np : Str → Bool) (k v : Code) (ps : List (Code × Code)) (p : Str)
    (h : (isNull np k || isNull np v) = true) : visitsPairs np ((k, v) :: ps) p = visitsPairs np ps p := by
  simp [visitsPairs, h]

theorem empty_types_not_visited (np : Str → Bool) (g : GInfo) (items : List Code) (p : Str)
    (hg : g.name = b!"types") (hn : allNull np items = true) : visits np (.group g items) p = false := by
  simp [visits, hg, hn]

/-- Anon stores exactly the `_` entry for the path -/
theorem anon_entry (f : FileS) (p : Str) : lookupImp (anon f p) p = ⟨b!"_", true⟩ := anon_lookup f p

end C04
