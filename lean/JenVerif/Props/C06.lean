import JenVerif.Props.Common
/-
  C06 — References to the local package and to dot-imports are unqualified.
-/
namespace C06
open Code Registry RegistryInv RegistryGood Refine Props

theorem np_local {f : FileS} {p : Str} (h : isLocal f p = true) : f.np p = true := by
  simp [FileS.np, h]

/-- rendering `Qual(path, name)` unfolds to: pre-register the package token, then (if it is
    not null) print its qualifier and a dot, then the name -/
theorem renderS_qual (cfg : Cfg) (f : FileS) (prev : Option Code) (p n : Str) :
    renderS cfg f prev (Code.qual p n) =
      if (register cfg f p).2.np p then (n, (register cfg f p).2)
      else ((register cfg (register cfg f p).2 p).1 ++ b!"." ++ n, (register cfg (register cfg f p).2 p).2) := by
  simp only [Code.qual, renderS, qualInfo, renderItemsS, isNull, allNull, effDelims, closeSep, itemLead]
  by_cases h : (register cfg f p).2.np p = true
  · simp [h]
  · simp [h]

/-- a reference to the file's own package path renders as the bare name and registers nothing:
    exact string equality with the File's path is the only test, so this holds for that path
    and for no other -/
theorem local_bare (cfg : Cfg) (f : FileS) (prev : Option Code) (p n : Str) (h : isLocal f p = true) :
    renderS cfg f prev (Code.qual p n) = (n, f) := by
  rw [renderS_qual, register_local h]
  simp [np_local h]

/-- a dot-imported path (other than the local one and "C") renders as the bare name and is
    registered as `(".", alias)`, which the import block prints as `. "path"` — whatever the
    prefix, the other hints and the number of dot imports already present -/
theorem dot_bare_and_imported {cfg : Cfg} {f : FileS} (hH : HintsOk f) (hS : StdOk cfg) (prev : Option Code) (p n : Str)
    (hl : isLocal f p = false) (hC : p ≠ b!"C") (hr : isReg f p = false) (hd : hintDot f p = true) :
    (renderS cfg f prev (Code.qual p n)).1 = n ∧
    lookupImp (renderS cfg f prev (Code.qual p n)).2 p = ⟨b!".", true⟩ ∧
    ∀ isPrint, importSpec isPrint (p, lookupImp (renderS cfg f prev (Code.qual p n)).2 p) = b!". " ++ Quote.quote isPrint p := by
  have hnp : (register cfg f p).2.np p = true := by
    rw [register_np hH hS]
    simp [FileS.np, isDotImport_unreg hC hr, hd]
  have hdef : chooseDef cfg f p = ⟨b!".", true⟩ := by
    have h1 := chooseDef_dot_iff hH hS p
    rw [hd] at h1
    have hn : (chooseDef cfg f p).name = b!"." := by simpa using h1
    have ha : (chooseDef cfg f p).alias = true := by
      -- the base is the hint (".", true)
      have hh : ((lookupHint f p).name != []) = true := by
        simp only [hintDot, Bool.and_eq_true, beq_iff_eq] at hd
        simp [hd.1]
      have e : chooseBase cfg f p = ((lookupHint f p).name, (lookupHint f p).alias) := by simp [chooseBase, hh]
      simp only [hintDot, Bool.and_eq_true] at hd
      rw [chooseDef_eq, e]
      simp [hd.2]
    cases hcd : chooseDef cfg f p with
    | mk nm al => rw [hcd] at hn ha; simp at hn ha; simp [hn, ha]
  rw [renderS_qual]
  simp only [hnp, if_true]
  refine ⟨trivial, ?_, ?_⟩
  · rw [register_new hl hr hC, hdef]; exact lookupImp_insert_self f p _
  · intro isPrint
    rw [register_new hl hr hC, hdef, lookupImp_insert_self]
    simp [importSpec, hC]

/-- any other path — however much it resembles the local one — is qualified by its registered,
    non-empty name and is in the import table afterwards -/
theorem near_miss_imported {cfg : Cfg} {f : FileS} (hH : HintsOk f) (hS : StdOk cfg) (prev : Option Code) (p n : Str)
    (hl : isLocal f p = false) (hnd : f.np p = false) :
    let r := renderS cfg f prev (Code.qual p n)
    r.1 = (lookupImp r.2 p).name ++ b!"." ++ n ∧ (lookupImp r.2 p).name ≠ [] ∧ (lookupImp r.2 p).name ≠ b!"_" ∧
    isReg r.2 p = true := by
  have hnp : (register cfg f p).2.np p = false := by rw [register_np hH hS]; exact hnd
  have hH1 : HintsOk (register cfg f p).2 := register_hintsOk hH p
  have hl1 : isLocal (register cfg f p).2 p = false := by
    have := (register_frame cfg f p).2.2.1
    simpa [isLocal, this] using hl
  have hs := register_returns_stored (cfg := cfg) hH1 hS hl1
  simp only [renderS_qual, hnp, Bool.false_eq_true, if_false]
  exact ⟨by rw [hs.1], by rw [hs.1]; exact hs.2.1, by rw [hs.1]; exact hs.2.2, register_isReg hH1 hS hl1⟩

/-- the local test is exact equality: a path different from the File's path is never local -/
theorem local_iff_equal (f : FileS) (p : Str) : isLocal f p = true ↔ f.path = p := by
  simp [isLocal]

-- non-vacuity
example : isLocal { path := b!"a.com/x" } b!"a.com/x" = true ∧ isLocal { path := b!"a.com/x" } b!"a.com/x/" = false := by decide

end C06
