import JenVerif.Render
/-
  File assembly (jen/jen.go): `renderImports`, `File.Render`, `File.Save`,
  `Statement/Group.RenderWithFile`, as programs over an effect signature whose results are
  supplied by the environment (`World`): the formatter, the caller's writer, the filesystem.
-/

open Code

def importSpec (isPrint : Nat → Bool) (e : Str × Def) : Str :=
  if e.2.alias && e.1 != b!"C" then e.2.name ++ b!" " ++ Quote.quote isPrint e.1
  else Quote.quote isPrint e.1

def pathLe (a b : Str × Def) : Bool := Str.le a.1 b.1

def commentLines (cs : List Str) : Str := (cs.map fun c => renderComment c ++ b!"\n").flatten

/-- jen/jen.go:96 `renderImports` -/
def renderImports (isPrint : Nat → Bool) (f : FileS) : Str :=
  let separateCgo := !f.cgo.isEmpty
  let filtered := f.imports.filter fun e => !(e.1 == b!"C" && separateCgo)
  let main : Str := match filtered with
    | [] => []
    | [e] => b!"import " ++ importSpec isPrint e ++ b!"\n\n"
    | es => b!"import (\n" ++ ((es.mergeSort pathLe).map fun e => importSpec isPrint e ++ b!"\n").flatten ++ b!")\n\n"
  main ++ (if separateCgo then commentLines f.cgo ++ b!"import \"C\"\n\n" else [])

/-- everything `File.Render` writes before the import block -/
def fileHead (isPrint : Nat → Bool) (f : FileS) : Str :=
  (if f.headers.isEmpty then [] else commentLines f.headers ++ b!"\n") ++
  commentLines f.comments ++ b!"package " ++ f.name ++
  (if f.canonical.isEmpty then [] else b!" // import " ++ Quote.quote isPrint f.canonical) ++ b!"\n\n"

/-- the unformatted source of a file and the file state after rendering -/
def renderFileRaw (cfg : Cfg) (f : FileS) (body : List Code) : Str × FileS :=
  let r := renderS cfg f none (.group fileInfo body)
  (fileHead cfg.isPrint r.2 ++ renderImports cfg.isPrint r.2 ++ r.1, r.2)

/-! ### effect model (T-E) -/

inductive Effect
  | format (input : Str)
  | callerWrite (bytes : Str)
  | fsWrite (bytes : Str)
deriving Repr, DecidableEq

inductive Result
  | ok
  | errMisuse
  | errFormat (raw : Str)
  | errWriter
  | errFs
deriving Repr, DecidableEq

/-- the environment: delegated, arbitrary behaviours -/
structure World where
  gofmt : Str → Option Str
  writer : Str → Bool
  fs : Str → Bool

/-- common tail of every render entry point: format unless disabled, then exactly one write -/
def emit (w : World) (noFormat : Bool) (raw : Str) : Result × List Effect :=
  if noFormat then
    (if w.writer raw then .ok else .errWriter, [.callerWrite raw])
  else
    match w.gofmt raw with
    | none => (.errFormat raw, [.format raw])
    | some out => (if w.writer out then .ok else .errWriter, [.format raw, .callerWrite out])

/-- `File.Render` once the raw source is known -/
def fileRenderFrom (w : World) (noFormat misuse : Bool) (raw : Str) : Result × List Effect :=
  if misuse then (.errMisuse, []) else emit w noFormat raw

/-- `File.Save` once the raw source is known: render into a private buffer (a writer that never
    fails), then one `os.WriteFile` -/
def fileSaveFrom (w : World) (noFormat misuse : Bool) (raw : Str) : Result × List Effect :=
  let r := fileRenderFrom { w with writer := fun _ => true } noFormat misuse raw
  match r.1 with
  | .ok =>
    let out := match r.2.getLast? with
      | some (.callerWrite b) => b
      | _ => []
    (if w.fs out then .ok else .errFs,
     (r.2.filter fun e => match e with | .callerWrite _ => false | _ => true) ++ [.fsWrite out])
  | e => (e, r.2)

/-- `File.Render` -/
def fileRender (w : World) (cfg : Cfg) (f : FileS) (body : List Code) : Result × List Effect × FileS :=
  let r := renderFileRaw cfg f body
  let e := fileRenderFrom w f.noFormat (misuse f.np (.group fileInfo body)) r.1
  (e.1, e.2, r.2)

/-- `Statement.RenderWithFile` / `Group.RenderWithFile` for a fragment `c` -/
def fragRender (w : World) (cfg : Cfg) (f : FileS) (c : Code) : Result × List Effect × FileS :=
  let r := renderS cfg f none c
  let e := fileRenderFrom w false (misuse f.np c) r.1
  (e.1, e.2, r.2)

/-- `File.Save` -/
def fileSave (w : World) (cfg : Cfg) (f : FileS) (body : List Code) : Result × List Effect × FileS :=
  let r := renderFileRaw cfg f body
  let e := fileSaveFrom w f.noFormat (misuse f.np (.group fileInfo body)) r.1
  (e.1, e.2, r.2)

/-! ### the remaining entry points: `Render` (fresh File) and `GoString` (in-memory buffer) -/

/-- everything written to the caller's writer along a trace (what an in-memory buffer holds) -/
def Effect.written (es : List Effect) : Str :=
  (es.filterMap fun e => match e with | .callerWrite b => some b | _ => none).flatten

/-- an environment whose writer is an in-memory buffer (never fails) -/
def World.buffered (gofmt : Str → Option Str) : World := ⟨gofmt, fun _ => true, fun _ => true⟩

/-- `Statement.Render` / `Group.Render`: `RenderWithFile(w, NewFile(""))` -/
def fragRenderFresh (w : World) (cfg : Cfg) (c : Code) : Result × List Effect × FileS :=
  fragRender w cfg (Registry.newFile []) c

/-- `GoString`: the content of the buffer after a successful `Render`; any other result is the
    error the function panics with -/
def goStringFrom (r : Result × List Effect × FileS) : Result × Str × FileS :=
  match r.1 with
  | .ok => (.ok, Effect.written r.2.1, r.2.2)
  | e => (e, [], r.2.2)

/-- `Statement.GoString` / `Group.GoString` -/
def fragGoString (gofmt : Str → Option Str) (cfg : Cfg) (c : Code) : Result × Str × FileS :=
  goStringFrom (fragRenderFresh (World.buffered gofmt) cfg c)

/-- `File.GoString` -/
def fileGoString (gofmt : Str → Option Str) (cfg : Cfg) (f : FileS) (body : List Code) : Result × Str × FileS :=
  goStringFrom (fileRender (World.buffered gofmt) cfg f body)
