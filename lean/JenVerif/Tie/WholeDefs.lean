import JenVerif.Tie.DictSrc
/-
  Tie 1b, capstone — tying the knot.  The node-level theorems of NullSrc / RenderSrc / DictSrc are
  stated with the MODEL as the recursion parameter ("the model satisfies the code's equations").
  Here the recursion is closed on the code side: `srcRec cfg n` is the null test and the renderer
  ASSEMBLED FROM THE TRANSLATED GO METHODS, dispatching on the constructor of `Code` exactly as Go
  dispatches on the dynamic type, with `n` levels of nesting allowed (Go's recursion is structural
  on the finite tree).  NO leaf is hand-modelled any more: tokens and literals (`.tok` / `.lit`) go
  through the translated `token.render` (`Gen.Src.token_render`, tied to the model by
  `Tie.token_render_eq` in TokenSrc.lean; its fmt/strconv verbs are the primitives of GoPrim.lean),
  tags and comments through the translated `tag.render` / `comment.render`.  `f.register` is the
  model's `register`, tied to the translated one by `Tie.register_src_eq_model`.
-/
namespace Tie
open Code

def typOf : TokKind → Go.TokTyp
  | .pkg => .packageToken
  | .ident => .identifierToken
  | .kw => .keywordToken
  | .op => .operatorToken
  | .delim => .delimiterToken
  | .layout => .layoutToken
  | .null => .nullToken

mutual
/-- nesting depth of a tree -/
def depth : Code → Nat
  | .group _ items => depthL items + 1
  | .stmt items => depthL items + 1
  | .dict ps => depthP ps + 1
  | _ => 0
def depthL : List Code → Nat
  | [] => 0
  | c :: cs => max (depth c) (depthL cs)
def depthP : List (Code × Code) → Nat
  | [] => 0
  | (k, v) :: ps => max (max (depth k) (depth v)) (depthP ps)
end

/-- the Code interface's two methods, implemented by the TRANSLATED Go methods, `n` levels deep -/
def srcRec (cfg : Cfg) : Nat → Go.Rec
  | 0 => { null := fun _ _ => true, render := fun _ _ _ _ => none, register := Registry.register cfg }
  | n + 1 =>
    { null := fun f c => match c with
        | .nilc => true
        | .tok k s => Gen.Src.token_isNull cfg (typOf k) s f
        | .lit _ => Gen.Src.token_isNull cfg .literalToken [] f
        | .group g items => Gen.Src.Group_isNull cfg (srcRec cfg n).null g items f
        | .stmt items => Gen.Src.Statement_isNull cfg (srcRec cfg n).null items f
        | .dict ps => Gen.Src.Dict_isNull cfg (srcRec cfg n).null ps f
        | .tag t => Gen.Src.tag_isNull cfg t f
        | .comment t => Gen.Src.comment_isNull cfg t f
      render := fun f w prev c => match c with
        | .nilc => some (w, f)
        | .group g items => Gen.Src.Group_render cfg (srcRec cfg n) g items f w prev
        | .stmt items => Gen.Src.Statement_render cfg (srcRec cfg n) items f w
        | .dict ps => Gen.Src.Dict_render cfg (srcRec cfg n) ps f w
        | .tag t => some (Gen.Src.tag_render cfg t f w, f)
        | .comment t => some (Gen.Src.comment_render cfg t f w, f)
        | .tok k s => Gen.Src.token_render cfg (srcRec cfg n) (Go.tokTyp (.tok k s)) (Go.dynOf (.tok k s)) f w
        | .lit v => Gen.Src.token_render cfg (srcRec cfg n) (Go.tokTyp (.lit v)) (Go.dynOf (.lit v)) f w
      register := Registry.register cfg }

end Tie
