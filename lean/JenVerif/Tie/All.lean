import JenVerif.Tie.Registry
import JenVerif.Tie.EntrySrc
import JenVerif.Tie.DictSrc
import JenVerif.Tie.Whole
import JenVerif.Tie.FileOpsSrc
import JenVerif.Tie.WrapSrc
import JenVerif.Tie.Closed
import JenVerif.Tie.PreviousSrc
import JenVerif.Tie.OnCode
/-
  Tie 1b, all groups: every theorem `Gen.Src.X … = <model>` about the functions translated from
  /repo's Go source on this run (see DESIGN.md §11).  `bin/check.py` builds this module.
-/
