import JenVerif.Gen.SrcRegistry
/-
  Tie 1b for `guessAlias`: the function TRANSLATED from jen/file.go (Gen.Src.guessAlias, over the
  Go primitives of GoPrim.lean and the parameter `Go.Lib`) equals the hand-written model
  `Registry.guessAlias`, for every byte string, every `cfg.toLower`, and every library satisfying
  the documented ASCII behaviour `Go.Lib.AsciiOk`, as soon as the loop fuel is at least `guessFuel`.
-/
namespace Tie
open Registry

/-! ### (1) `strings.HasSuffix(s, "/")` and `s[:len(s)-1]` -/

theorem isPrefixOf_single (c : UInt8) (t : Str) : Str.isPrefixOf [c] t = (t.head? == some c) := by
  cases t with
  | nil => simp [Str.isPrefixOf]
  | cons x xs =>
    simp only [Str.isPrefixOf, Bool.and_true, List.head?_cons, Option.some_beq_some]
    exact Bool.beq_comm

theorem hasSuffix_single (c : UInt8) (s : Str) : Go.hasSuffix s [c] = (s.getLast? == some c) := by
  unfold Go.hasSuffix
  rw [List.reverse_singleton, isPrefixOf_single, List.head?_reverse]

theorem slice_dropLast (s : Str) : Go.slice s (0 : Int) ((Int.ofNat s.length) - (1 : Int)) = s.dropLast := by
  unfold Go.slice
  have h : (Int.ofNat s.length - 1).toNat = s.length - 1 := by
    show ((s.length : Int) - 1).toNat = s.length - 1
    omega
  rw [h, List.dropLast_eq_take]
  simp

theorem slice_to_len (s : Str) (k : Nat) : Go.slice s (Int.ofNat k) (Int.ofNat s.length) = s.drop k := by
  unfold Go.slice
  simp

/-! ### (2) `strings.Contains(s, "/")`, `s[strings.LastIndex(s, "/")+1:]` versus `lastElem` -/

theorem isPrefixOf_slash_cons (c : UInt8) (cs : Str) : Str.isPrefixOf [47] (c :: cs) = (c == 47) := by
  rw [isPrefixOf_single]
  simp

theorem lastElem_noSub (s acc : Str) (h : Str.hasSub s [47] = false) : lastElem acc s = acc ++ s := by
  induction s generalizing acc with
  | nil => simp [lastElem]
  | cons c cs ih =>
    unfold Str.hasSub at h
    rw [isPrefixOf_slash_cons, Bool.or_eq_false_iff] at h
    unfold lastElem
    rw [if_neg (by simp [h.1]), ih _ h.2]
    simp

theorem lastIndexFrom_noSub (s : Str) (i : Nat) (acc : Int) (h : Str.hasSub s [47] = false) :
    Go.lastIndexFrom [47] s i acc = acc := by
  induction s generalizing i acc with
  | nil => simp [Go.lastIndexFrom]
  | cons c cs ih =>
    unfold Str.hasSub at h
    rw [isPrefixOf_slash_cons, Bool.or_eq_false_iff] at h
    unfold Go.lastIndexFrom
    rw [isPrefixOf_slash_cons, ih _ _ h.2]
    simp [h.1]

theorem lastIndexFrom_sub (s : Str) (i : Nat) (acc : Int) (acc' : Str) (h : Str.hasSub s [47] = true) :
    ∃ k : Nat, Go.lastIndexFrom [47] s i acc = Int.ofNat (i + k) ∧ s.drop (k + 1) = lastElem acc' s := by
  induction s generalizing i acc acc' with
  | nil => simp [Str.hasSub] at h
  | cons c cs ih =>
    unfold Str.hasSub at h
    rw [isPrefixOf_slash_cons] at h
    unfold Go.lastIndexFrom lastElem
    rw [isPrefixOf_slash_cons]
    cases hs : Str.hasSub cs [47] with
    | true =>
      by_cases hc : c = 47
      · obtain ⟨k, h1, h2⟩ := ih (i + 1) (Int.ofNat i) [] hs
        refine ⟨k + 1, ?_, ?_⟩
        · simp only [hc, beq_self_eq_true, if_true]
          rw [h1]; congr 1; omega
        · simp only [hc, beq_self_eq_true, if_true, List.drop_succ_cons]
          exact h2
      · have hc' : (c == 47) = false := by simp [hc]
        obtain ⟨k, h1, h2⟩ := ih (i + 1) acc (acc' ++ [c]) hs
        refine ⟨k + 1, ?_, ?_⟩
        · simp only [hc', Bool.false_eq_true, if_false]
          rw [h1]; congr 1; omega
        · simp only [hc', Bool.false_eq_true, if_false, List.drop_succ_cons]
          exact h2
    | false =>
      rw [hs, Bool.or_false] at h
      refine ⟨0, ?_, ?_⟩
      · simp only [h, if_true]
        rw [lastIndexFrom_noSub _ _ _ hs]; rfl
      · simp only [h, if_true]
        rw [lastElem_noSub _ _ hs]; simp

theorem slice_lastIndex (a : Str) (h : Str.hasSub a [47] = true) :
    Go.slice a ((Go.lastIndex a [47]) + (1 : Int)) (Int.ofNat a.length) = lastElem [] a := by
  obtain ⟨k, h1, h2⟩ := lastIndexFrom_sub a 0 (-1) [] h
  unfold Go.lastIndex
  rw [h1]
  have e : Int.ofNat (0 + k) + 1 = Int.ofNat (k + 1) := by
    show ((0 + k : Nat) : Int) + 1 = ((k + 1 : Nat) : Int)
    omega
  rw [e, slice_to_len, h2]

/-- the second statement of the Go function, as one equation -/
theorem lastSeg_eq (a : Str) :
    (if Str.hasSub a [47] then Go.slice a ((Go.lastIndex a [47]) + (1 : Int)) (Int.ofNat a.length) else a)
      = lastElem [] a := by
  cases h : Str.hasSub a [47] with
  | true => simp only [if_true]; exact slice_lastIndex a h
  | false => simp only [Bool.false_eq_true, if_false]; rw [lastElem_noSub _ _ h]; rfl

/-! ### (3) the digit-stripping loop -/

theorem lowerAlnum_ascii (b : UInt8) (h : isLowerAlnum b = true) : b.toNat < 128 := by
  simp only [isLowerAlnum, Bool.or_eq_true, Bool.and_eq_true, decide_eq_true_eq,
    UInt8.le_iff_toNat_le, UInt8.reduceToNat] at h
  omega

theorem isDigit_toNat (b : UInt8) : (decide (48 ≤ b.toNat) && decide (b.toNat ≤ 57)) = isDigit b := by
  simp only [isDigit, UInt8.le_iff_toNat_le, UInt8.reduceToNat]

/-- For any loop whose condition is `unicode.IsDigit(firstRune)` and whose body is
    `alias = alias[runeLen:]; firstRune, runeLen = utf8.DecodeRuneInString(alias)`, started in the
    state `(s, DecodeRuneInString(s))` with `s` ASCII: `fuel ≥ |s| + 1` iterations reach the fixed
    point, whose first component is `s` without its leading digits. -/
theorem digitLoop (lib : Go.Lib) (hl : lib.AsciiOk)
    (c : Str × Int × Int → Bool) (b : Str × Int × Int → Str × Int × Int)
    (hc : ∀ t, c t = lib.isDigitRune t.2.1)
    (hb : ∀ t, b t = (Go.slice t.1 t.2.2 (Int.ofNat t.1.length),
                      (lib.decodeRune (Go.slice t.1 t.2.2 (Int.ofNat t.1.length))).1,
                      (lib.decodeRune (Go.slice t.1 t.2.2 (Int.ofNat t.1.length))).2))
    (s : Str) (hs : ∀ x ∈ s, x.toNat < 128) (fuel : Nat) (hf : s.length + 1 ≤ fuel) :
    (Go.loop fuel c b (s, (lib.decodeRune s).1, (lib.decodeRune s).2)).1 = s.dropWhile isDigit := by
  induction s generalizing fuel with
  | nil =>
    cases fuel with
    | zero => simp at hf
    | succ n =>
      unfold Go.loop
      rw [hc, hl.decode_empty]
      simp [hl.digit_error]
  | cons x xs ih =>
    cases fuel with
    | zero => simp at hf
    | succ n =>
      have hx : x.toNat < 128 := hs x (by simp)
      unfold Go.loop
      rw [hc, hb, hl.decode_ascii x xs hx]
      simp only []
      rw [hl.digit_ascii _ hx, isDigit_toNat, List.dropWhile_cons]
      cases hd : isDigit x with
      | false => simp
      | true =>
        simp only [if_true]
        have e : Go.slice (x :: xs) 1 (Int.ofNat (x :: xs).length) = xs := by
          have := slice_to_len (x :: xs) 1
          simpa using this
        rw [e]
        exact ih (fun y hy => hs y (by simp [hy])) n (by simp at hf; omega)

/-! ### (4) assembly -/

/-- the string that reaches the digit-stripping loop, before the regexp filter -/
def guessMid (cfg : Cfg) (p : Str) : Str :=
  cfg.toLower (lastElem [] (if p.getLast? == some 47 then p.dropLast else p))

/-- fuel that suffices for the digit-stripping loop of guessAlias -/
def guessFuel (cfg : Cfg) (p : Str) : Nat := (guessMid cfg p).length + 1

theorem pkg_tail (a : Str) : (if (a == ([] : Str)) then b!"pkg" else a) = (if a.isEmpty then b!"pkg" else a) := by
  cases a <;> simp

theorem guessAlias_eq (cfg : Cfg) (lib : Go.Lib) (hl : lib.AsciiOk) (p : Str) (fuel : Nat)
    (hf : guessFuel cfg p ≤ fuel) :
    Gen.Src.guessAlias cfg lib fuel p = Registry.guessAlias cfg.toLower p := by
  unfold Gen.Src.guessAlias Registry.guessAlias
  simp only [hasSuffix_single, slice_dropLast, lastSeg_eq, Go.removeNotLowerAlnum, pkg_tail]
  rw [digitLoop lib hl _ _ (fun _ => rfl) (fun _ => rfl)]
  · intro x hx
    exact lowerAlnum_ascii x (List.mem_filter.mp hx).2
  · have := List.length_filter_le isLowerAlnum (guessMid cfg p)
    unfold guessFuel at hf
    unfold guessMid at this hf
    omega

example : Go.Lib.ascii.AsciiOk where
  decode_empty := rfl
  decode_ascii := by intro b s h; simp [Go.Lib.ascii, h]
  digit_ascii := by
    intro n _
    have h1 : decide ((48 : Int) ≤ (n : Int)) = decide (48 ≤ n) := decide_eq_decide.mpr (by omega)
    have h2 : decide ((n : Int) ≤ (57 : Int)) = decide (n ≤ 57) := decide_eq_decide.mpr (by omega)
    show (decide ((48 : Int) ≤ (n : Int)) && decide ((n : Int) ≤ (57 : Int))) = _
    rw [h1, h2]
  digit_error := by decide

end Tie

#print axioms Tie.guessAlias_eq
