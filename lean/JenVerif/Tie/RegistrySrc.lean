import JenVerif.Gen.SrcRegistry
import JenVerif.Props.Common
/-
  Tie 1b — the import-registry functions TRANSLATED from /repo's Go source (Gen/SrcRegistry.lean,
  regenerated on every check) are equal to the hand-written model functions that the property
  theorems are about.  One theorem per translated function; a theorem that no longer checks means
  the Go function changed in a way the automation cannot see through (or left the translated
  subset): the check then falls back to the behavioural tie with the escalated budget.
-/
namespace Tie
open Registry Props

theorem IsReservedWord_eq (cfg : Cfg) (a : Str) : Gen.Src.IsReservedWord cfg a = Gen.reserved.contains a := by
  unfold Gen.Src.IsReservedWord
  induction Gen.reserved with
  | nil => simp
  | cons w ws ih => simp_all [List.any_cons]

theorem isLocal_eq (cfg : Cfg) (f : FileS) (p : Str) : Gen.Src.isLocal cfg f p = isLocal f p := by
  simp [Gen.Src.isLocal, isLocal]

/-- (proof by exhaustive case analysis on the three conditions: any Boolean rearrangement of the
    Go condition — De Morgan, reordered tests, early return of the other branch — still checks) -/
theorem prefixed_eq (cfg : Cfg) (f : FileS) (n : Str) (a : Bool) : Gen.Src.prefixed cfg f n a = prefixed f n a := by
  unfold Gen.Src.prefixed prefixed
  by_cases h1 : f.pfx = [] <;> by_cases h2 : n = b!"." <;> cases a <;> simp [h1, h2, List.append_assoc]

theorem isValidAlias_eq (tl : Str → Str) (ip : Nat → Bool) (f : FileS) (a : Str) :
    Gen.Src.isValidAlias (cfgOf tl ip) f a = isValidAlias (cfgOf tl ip) f a := by
  unfold Gen.Src.isValidAlias isValidAlias
  rw [IsReservedWord_eq]
  simp only [cfgOf, Go.anyEntry, List.contains_cons]
  by_cases h1 : a = b!"."
  · simp [h1]
  · by_cases h2 : a = b!"C"
    · simp [h1, h2]
    · have h2' : ¬ (b!"C" = a) := fun h => h2 h.symm
      have : (f.imports.any fun e => a == e.2.name) = (f.imports.any fun e => e.2.name == a) := by
        congr 1; funext e; exact Bool.beq_comm
      have e1 : (a == b!".") = false := by simpa using h1
      have e2 : (a == b!"C") = false := by simpa using h2
      simp only [h1, h2, this, e1, e2]
      cases f.imports.any fun e => e.2.name == a <;> simp

theorem isDotImport_eq (cfg : Cfg) (f : FileS) (p : Str) : Gen.Src.isDotImport cfg f p = isDotImport f p := by
  unfold Gen.Src.isDotImport isDotImport isReg lookupImp lookupHint Go.getDef Go.has
  by_cases h1 : p = b!"C"
  · simp [h1]
  · simp only [h1, beq_iff_eq, if_false]
    cases hh : AList.lookup f.hints p <;> cases hi : AList.lookup f.imports p <;> simp [Bool.and_comm]

theorem Anon_eq (cfg : Cfg) (f : FileS) (ps : List Str) : Gen.Src.Anon cfg f ps = ps.foldl anon f := by
  rfl

theorem ImportName_eq (cfg : Cfg) (f : FileS) (p n : Str) : Gen.Src.ImportName cfg f p n = importName f p n := by
  simp [Gen.Src.ImportName, importName]

theorem ImportAlias_eq (cfg : Cfg) (f : FileS) (p n : Str) : Gen.Src.ImportAlias cfg f p n = importAlias f p n := by
  simp [Gen.Src.ImportAlias, importAlias]

/-- `m` is the map's content in the order the runtime iterates it -/
theorem ImportNames_eq (cfg : Cfg) (f : FileS) (m : List (Str × Str)) : Gen.Src.ImportNames cfg f m = importNames f m := by
  simp [Gen.Src.ImportNames, importNames, importName]

end Tie
