import JenVerif.Tie.NullSrc
import JenVerif.Lemmas.Refine
/-
  Tie 1b, fourth group — the RENDER methods of Statement and Group.
  `Gen.Src.Statement_render`, `Group_renderItems`, `Group_render` are literal translations of the Go
  methods; their dynamic calls (`c.isNull(f)`, `c.render(f, w, ctx)`, `f.register(path)`) go to the
  parameter `rec : Go.Rec`.  With the MODEL put in for `rec` (`modelRec`: null test `Code.isNull`,
  render = `none` on misuse, else append `Code.renderS`'s text and thread its state), every translated
  method computes exactly what the model says about that node: the model's stateful renderer and its
  misuse predicate are a fixed point of the code's equations, node by node (no induction over the
  tree here, only over the item list of the one node).
  Method: each translated loop is first restated (`stmtStep`, `itemStep`; equality with the generated
  text by `rfl`, i.e. insensitive to bound-variable names), then the fold is related to
  `renderStmtS` / `renderItemsS` and `misuseList` / `misuseItems` by induction on the item list,
  using np-stability (`Refine.Ext`) of `renderS` and `register` on `Good` states.
-/
namespace Tie
open Code Refine

/-- the model, in the shape of the recursion parameter of the translated render methods -/
def modelRec (cfg : Cfg) : Go.Rec where
  null := fun f c => Code.isNull f.np c
  render := fun f w prev c =>
    if Code.misuse f.np c then none
    else some (w ++ (Code.renderS cfg f prev c).1, (Code.renderS cfg f prev c).2)
  register := Registry.register cfg

/-! ### misuse depends on `np` only pointwise -/

theorem countKept_congr (np np' : Str → Bool) (h : ∀ p, np' p = np p) : ∀ cs, countKept np' cs = countKept np cs
  | [] => rfl
  | c :: cs => by simp [countKept, isNull_congr np np' h c, countKept_congr np np' h cs]

mutual
theorem misuse_congr (np np' : Str → Bool) (h : ∀ p, np' p = np p) : ∀ c, misuse np' c = misuse np c
  | .nilc => by simp [misuse]
  | .tok _ _ => by simp [misuse]
  | .lit _ => by simp [misuse]
  | .group g items => by
      simp [misuse, allNull_congr np np' h items, misuseItems_congr np np' h _ items, countKept_congr np np' h items]
  | .stmt items => by simp [misuse, misuseList_congr np np' h items]
  | .dict ps => by simp [misuse, misusePairs_congr np np' h ps]
  | .tag _ => by simp [misuse]
  | .comment _ => by simp [misuse]
theorem misuseItems_congr (np np' : Str → Bool) (h : ∀ p, np' p = np p) (b : Bool) :
    ∀ cs, misuseItems np' b cs = misuseItems np b cs
  | [] => by simp [misuseItems]
  | c :: cs => by
      simp [misuseItems, isNull_congr np np' h c, misuse_congr np np' h c, misuseItems_congr np np' h b cs]
theorem misuseList_congr (np np' : Str → Bool) (h : ∀ p, np' p = np p) :
    ∀ cs, misuseList np' cs = misuseList np cs
  | [] => by simp [misuseList]
  | c :: cs => by
      simp [misuseList, isNull_congr np np' h c, misuse_congr np np' h c, misuseList_congr np np' h cs]
theorem misusePairs_congr (np np' : Str → Bool) (h : ∀ p, np' p = np p) :
    ∀ ps, misusePairs np' ps = misusePairs np ps
  | [] => by simp [misusePairs]
  | (k, v) :: ps => by
      simp [misusePairs, isNull_congr np np' h k, isNull_congr np np' h v, misuse_congr np np' h k,
        misuse_congr np np' h v, misusePairs_congr np np' h ps]
end

theorem misuse_ext {f f' : FileS} (h : Ext f f') (c : Code) : misuse f'.np c = misuse f.np c :=
  misuse_congr _ _ h.np c
theorem misuseList_ext {f f' : FileS} (h : Ext f f') (cs : List Code) : misuseList f'.np cs = misuseList f.np cs :=
  misuseList_congr _ _ h.np cs
theorem misuseItems_ext {f f' : FileS} (h : Ext f f') (b : Bool) (cs : List Code) :
    misuseItems f'.np b cs = misuseItems f.np b cs :=
  misuseItems_congr _ _ h.np b cs

/-! ### small facts -/

theorem isNil_or_isNull (np : Str → Bool) (c : Code) : (Go.isNil c || isNull np c) = isNull np c := by
  cases h : Go.isNil c
  · rfl
  · rw [isNil_isNull np c h]; rfl

theorem renderS_ext (cfg : Cfg) (f : FileS) (hg : Good cfg f) (prev : Option Code) (c : Code)
    (hn : isNull f.np c = false) : Ext f (renderS cfg f prev c).2 :=
  (renderS_spec cfg c f prev hg (pkgNonNull_of_nonNull f c hn)).1

theorem append_if_ne_nil (w s : Str) : (if (s != ([] : Str)) = true then w ++ s else w) = w ++ s := by
  cases s <;> simp

theorem goIsDict_eq (c : Code) : Go.isDict c = Code.isDict c := by
  cases c <;> rfl

theorem preReg_eq (cfg : Cfg) (f : FileS) (c : Code) :
    (if (Go.isToken c && (Go.tokTyp c == Go.TokTyp.packageToken)) = true
      then (Registry.register cfg f (Go.tokContent c)).2 else f) = preReg cfg f c := by
  cases c with
  | tok k s => cases k <;> simp [Go.isToken, Go.tokTyp, Go.tokContent, preReg]
  | lit v => cases v <;> simp [Go.isToken, Go.tokTyp, preReg]
  | _ => simp [Go.isToken, preReg]

theorem caseOrDefault_eq (prev : Option Code) :
    ((Go.isGroupO prev && ((Go.groupInfoO prev).name == b!"case")) ||
      (Go.isTokenO prev && Go.tokContentIsO prev b!"default")) = isCaseOrDefault prev := by
  cases prev with
  | none => simp [Go.isGroupO, Go.isTokenO, isCaseOrDefault]
  | some c =>
    cases c with
    | lit v => cases v <;> simp [Go.isGroupO, Go.isTokenO, Go.isGroup, Go.isToken, Go.tokContentIsO, Go.tokContentIs, isCaseOrDefault]
    | _ => simp [Go.isGroupO, Go.isTokenO, Go.isGroup, Go.isToken, Go.groupInfoO, Go.groupInfo, Go.tokContentIsO, Go.tokContentIs, isCaseOrDefault]

/-! ### Statement.render -/

/-- loop body of `Statement.render`, restated -/
def stmtStep (cfg : Cfg) (st : FileS × Bool × Str × Option Code) (c : Code) :
    Option (FileS × Bool × Str × Option Code) :=
  if Go.isNil c || isNull st.1.np c then some (st.1, st.2.1, st.2.2.1, some c)
  else
    match (modelRec cfg).render st.1 (if !st.2.1 then st.2.2.1 ++ b!" " else st.2.2.1) st.2.2.2 c with
    | none => none
    | some t => some (t.2, false, t.1, some c)

def stmtFin : Option (FileS × Bool × Str × Option Code) → Option (Str × FileS)
  | none => none
  | some t => some (t.2.2.1, t.1)

theorem Statement_render_shape (cfg : Cfg) (f : FileS) (items : List Code) (w : Str) :
    Gen.Src.Statement_render cfg (modelRec cfg) items f w =
      stmtFin (Go.foldOpt (stmtStep cfg) (f, true, w, none) items) := rfl

theorem stmt_fold (cfg : Cfg) : ∀ (cs : List Code) (f : FileS) (first : Bool) (w : Str) (prev : Option Code),
    Good cfg f →
    stmtFin (Go.foldOpt (stmtStep cfg) (f, first, w, prev) cs) =
      if misuseList f.np cs then none
      else some (w ++ (renderStmtS cfg first prev f cs).1, (renderStmtS cfg first prev f cs).2)
  | [], f, first, w, prev, _ => by
      simp [Go.foldOpt, stmtFin, misuseList, renderStmtS]
  | c :: cs, f, first, w, prev, hg => by
      rw [Go.foldOpt, renderStmtS, misuseList]
      simp only [stmtStep, isNil_or_isNull]
      by_cases hn : isNull f.np c = true
      · simp only [hn, if_true]
        rw [stmt_fold cfg cs f first w (some c) hg]
        simp
      · have hn' : isNull f.np c = false := by simpa using hn
        simp only [hn', Bool.false_eq_true, if_false, modelRec]
        by_cases hm : misuse f.np c = true
        · simp [hm, stmtFin]
        · have hm' : misuse f.np c = false := by simpa using hm
          have he := renderS_ext cfg f hg prev c hn'
          simp only [hm', Bool.false_eq_true, if_false]
          rw [stmt_fold cfg cs _ false _ (some c) (good_of_ext hg he), misuseList_ext he]
          cases first <;> simp [List.append_assoc]

theorem Statement_render_eq (cfg : Cfg) (f : FileS) (hg : Good cfg f) (items : List Code) (w : Str) :
    Gen.Src.Statement_render cfg (modelRec cfg) items f w = (modelRec cfg).render f w none (.stmt items) := by
  rw [Statement_render_shape, stmt_fold cfg items f true w none hg]
  simp only [modelRec, misuse, renderS] <;> rfl

/-! ### Group.renderItems -/

/-- loop body of `Group.renderItems`, restated (`big` : the group has more than one item that
    renders something, asked at the state the loop has reached) -/
def itemStep (cfg : Cfg) (g : GInfo) (big : FileS → Bool) (st : FileS × Bool × Str) (c : Code) :
    Option (FileS × Bool × Str) :=
  let f0 := if Go.isToken c && (Go.tokTyp c == Go.TokTyp.packageToken)
    then ((modelRec cfg).register st.1 (Go.tokContent c)).2 else st.1
  if Go.isNil c || isNull f0.np c then some (f0, st.2.1, st.2.2)
  else if (g.name == b!"values") && (Go.isDict c && big f0) then none
  else
    match (modelRec cfg).render f0
      (if g.multi then (if !st.2.1 && g.sep != ([] : Str) then st.2.2 ++ g.sep else st.2.2) ++ b!"\n"
        else (if !st.2.1 && g.sep != ([] : Str) then st.2.2 ++ g.sep else st.2.2)) none c with
    | none => none
    | some t => some (t.2, false, t.1)

def itemFin : Option (FileS × Bool × Str) → Option (Bool × Str × FileS)
  | none => none
  | some t => some (t.2.1, t.2.2, t.1)

theorem Group_renderItems_shape (cfg : Cfg) (f : FileS) (g : GInfo) (items : List Code) (w : Str) :
    Gen.Src.Group_renderItems cfg (modelRec cfg) g items f w =
      itemFin (Go.foldOpt (itemStep cfg g
        (fun f' => decide (Gen.Src.Group_countItems cfg (modelRec cfg).null g items f' > (1 : Int)))) (f, true, w) items) := rfl

/-- the translated counting loop is the model's `countKept` -/
theorem countItems_fold (np : Str → Bool) : ∀ (cs : List Code) (n : Int),
    List.foldl (fun (n : Int) c => if (!(Go.isNil c) && !(isNull np c)) = true then n + 1 else n) n cs =
      n + (countKept np cs : Int)
  | [], n => by simp [countKept]
  | c :: cs, n => by
      rw [List.foldl, countItems_fold np cs, countKept]
      have h := isNil_or_isNull np c
      cases hn : isNull np c <;> cases hl : Go.isNil c <;> simp_all <;> omega

theorem Group_countItems_eq (cfg : Cfg) (g : GInfo) (items : List Code) (f : FileS) :
    Gen.Src.Group_countItems cfg (modelRec cfg).null g items f = (countKept f.np items : Int) := by
  have h := countItems_fold f.np items 0
  simp only [Int.zero_add] at h
  exact h

theorem countKept_ext {f f' : FileS} (h : Ext f f') (cs : List Code) : countKept f'.np cs = countKept f.np cs :=
  countKept_congr _ _ h.np cs

theorem item_fold (cfg : Cfg) (g : GInfo) (bigF : FileS → Bool) (big : Bool) : ∀ (cs : List Code) (f : FileS) (first : Bool) (w : Str),
    Good cfg f → (∀ f', Ext f f' → bigF f' = big) →
    itemFin (Go.foldOpt (itemStep cfg g bigF) (f, first, w) cs) =
      if misuseItems f.np (g.name == b!"values" && big) cs then none
      else some ((renderItemsS cfg g first f cs).2.1, w ++ (renderItemsS cfg g first f cs).1,
        (renderItemsS cfg g first f cs).2.2)
  | [], f, first, w, _, _ => by
      simp [Go.foldOpt, itemFin, misuseItems, renderItemsS]
  | c :: cs, f, first, w, hg, hb => by
      have he0 := preReg_ext cfg f hg c
      have hg0 := good_of_ext hg he0
      have hb0 : ∀ f', Ext (preReg cfg f c) f' → bigF f' = big := fun f' h' => hb f' (he0.trans h')
      rw [Go.foldOpt, renderItemsS_cons, misuseItems]
      simp only [itemStep, isNil_or_isNull]
      have hreg : (modelRec cfg).register = Registry.register cfg := rfl
      rw [hreg, preReg_eq, ← isNull_ext he0 c]
      by_cases hn : isNull (preReg cfg f c).np c = true
      · simp only [hn, if_true]
        rw [item_fold cfg g bigF big cs _ first w hg0 hb0, misuseItems_ext he0]
      · have hn' : isNull (preReg cfg f c).np c = false := by simpa using hn
        simp only [hn', Bool.false_eq_true, if_false, goIsDict_eq, hb0 _ (Ext.refl _)]
        by_cases hd : (g.name == b!"values" && (Code.isDict c && big)) = true
        · have hd' : ((g.name == b!"values" && big) && Code.isDict c) = true := by
            revert hd; cases (g.name == b!"values") <;> cases big <;> cases Code.isDict c <;> simp
          simp [hd, hd', itemFin]
        · have hd0 : (g.name == b!"values" && (Code.isDict c && big)) = false := by simpa using hd
          have hd' : ((g.name == b!"values" && big) && Code.isDict c) = false := by
            revert hd0; cases (g.name == b!"values") <;> cases big <;> cases Code.isDict c <;> simp
          simp only [hd0, hd', Bool.false_eq_true, if_false, Bool.false_or, modelRec]
          rw [← misuse_ext he0 c]
          by_cases hm : misuse (preReg cfg f c).np c = true
          · simp [hm, itemFin]
          · have hm' : misuse (preReg cfg f c).np c = false := by simpa using hm
            have he := renderS_ext cfg _ hg0 none c hn'
            simp only [hm', Bool.false_eq_true, if_false, Bool.false_or]
            rw [item_fold cfg g bigF big cs _ false _ (good_of_ext hg0 he) (fun f' h' => hb0 f' (he.trans h')), misuseItems_ext he, misuseItems_ext he0]
            by_cases hmi : misuseItems f.np (g.name == b!"values" && big) cs = true
            · simp [hmi]
            · simp only [hmi, itemLead]
              cases first <;> cases g.multi <;> by_cases hs : g.sep = [] <;> simp [hs, List.append_assoc]

theorem decide_len (n : Nat) : decide ((Int.ofNat n) > (1 : Int)) = decide (n > 1) := by
  have : ((Int.ofNat n) > (1 : Int)) ↔ n > 1 := by
    show (1 : Int) < (n : Int) ↔ 1 < n
    omega
  exact decide_eq_decide.mpr this

theorem decide_cnt (n : Nat) : decide (((n : Nat) : Int) > (1 : Int)) = decide (n > 1) := by
  have : (((n : Nat) : Int) > (1 : Int)) ↔ n > 1 := by
    show (1 : Int) < (n : Int) ↔ 1 < n
    omega
  exact decide_eq_decide.mpr this

theorem Group_renderItems_eq (cfg : Cfg) (f : FileS) (hg : Good cfg f) (g : GInfo) (items : List Code) (w : Str) :
    Gen.Src.Group_renderItems cfg (modelRec cfg) g items f w =
      if Code.misuseItems f.np (g.name == b!"values" && decide (countKept f.np items > 1)) items then none
      else some ((Code.renderItemsS cfg g true f items).2.1, w ++ (Code.renderItemsS cfg g true f items).1,
        (Code.renderItemsS cfg g true f items).2.2) := by
  rw [Group_renderItems_shape, item_fold cfg g _ (decide (countKept f.np items > 1)) items f true w hg]
  intro f' he
  rw [Group_countItems_eq, decide_cnt, countKept_ext he]

/-! ### Group.render -/

theorem pair_eta {α β} (p : α × β) : (p.1, p.2) = p := rfl

theorem delims_eq (g : GInfo) (prev : Option Code) :
    (if (g.name == b!"block" && !prev.isNone) = true
      then (if isCaseOrDefault prev = true then (([] : Str), ([] : Str)) else (g.cls, g.opn))
      else (g.cls, g.opn)) = ((effDelims g prev).2, (effDelims g prev).1) := by
  unfold effDelims
  cases prev with
  | none => simp [isCaseOrDefault]
  | some c => cases (g.name == b!"block") <;> cases isCaseOrDefault (some c) <;> simp

theorem closeSep_eq (g : GInfo) (cls w : Str) (e : Bool) :
    (if (!e && g.multi && cls != ([] : Str)) = true
      then w ++ (if (g.sep == b!",") = true then b!",\n" else b!"\n") else w) = w ++ closeSep g cls e := by
  unfold closeSep
  by_cases h : (!e && g.multi && cls != ([] : Str)) = true
  · simp only [h, if_true]
  · simp only [h, if_false, List.append_nil, Bool.false_eq_true]

theorem Group_render_eq (cfg : Cfg) (f : FileS) (hg : Good cfg f) (g : GInfo) (items : List Code) (w : Str)
    (prev : Option Code) :
    Gen.Src.Group_render cfg (modelRec cfg) g items f w prev = (modelRec cfg).render f w prev (.group g items) := by
  unfold Gen.Src.Group_render
  have hnull : (modelRec cfg).null = modelNull := rfl
  simp only [hnull, Group_isNullItems_eq, Group_renderItems_eq cfg f hg, caseOrDefault_eq, append_if_ne_nil,
    pair_eta, delims_eq, closeSep_eq]
  simp only [modelRec, misuse, renderS]
  by_cases ht : (g.name == b!"types" && allNull f.np items) = true
  · simp only [ht, if_true, Bool.false_eq_true, if_false, List.append_nil]
  · simp only [ht, if_false, Bool.false_eq_true]
    by_cases hm : misuseItems f.np (g.name == b!"values" && decide (countKept f.np items > 1)) items = true
    · simp only [hm, if_true]
    · simp only [hm, if_false, Bool.false_eq_true, List.append_assoc]

/-- the hypothesis `Good cfg f` is satisfiable (by every state passing the hint guard) -/
example : ∃ cfg f, Good cfg f :=
  ⟨RegistryInv.cfg0, RegistryInv.f0, RegistryGood.good_of_hintsOk RegistryInv.hintsOk_f0 RegistryInv.stdOk_cfg0⟩

#print axioms Statement_render_eq
#print axioms Group_renderItems_eq
#print axioms Group_countItems_eq
#print axioms Group_render_eq

end Tie
