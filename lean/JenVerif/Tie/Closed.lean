import JenVerif.Tie.Whole
import JenVerif.Tie.WrapSrc
/-
  Tie 1b, closing theorem — the ENTRY POINTS with the recursion closed on the CODE side.
  `Tie/EntrySrc` and `Tie/WrapSrc` prove the translated entry points equal to the model when the
  model itself is plugged in for the dynamic calls (`modelRec`).  Here the dynamic calls go to
  `srcRec cfg n`, the renderer ASSEMBLED FROM THE TRANSLATED GO METHODS (Tie/WholeDefs): nothing of
  the hand-written model is left on the left-hand side.  For every tree of depth < n, every File
  state inside the hint guard, every formatter, writer and filesystem:

      translated File.Render / Save / GoString, Statement|Group . RenderWithFile / Render / GoString,
      calling the translated render methods, calling the translated isNull methods, calling the
      translated register …   =   the model's fileRender / fileSave / fragRender / …

  (same result, same effect trace, same File state unless the render stopped at the misuse error).
-/
namespace Tie
open Code Refine

/-- File.Render consults its recursion parameter once: to render the root group -/
theorem Render_rec_congr (cfg : Cfg) (r r' : Go.Rec) (w : World) (items : List Code) (f : FileS)
    (h : r.render f [] none (.group fileInfo items) = r'.render f [] none (.group fileInfo items)) :
    Gen.Src.Render cfg r w items f = Gen.Src.Render cfg r' w items f := by
  unfold Gen.Src.Render
  simp only [h]

theorem Save_rec_congr (cfg : Cfg) (r r' : Go.Rec) (w : World) (items : List Code) (f : FileS) (name : Str)
    (h : r.render f [] none (.group fileInfo items) = r'.render f [] none (.group fileInfo items)) :
    Gen.Src.Save cfg r w items f name = Gen.Src.Save cfg r' w items f name := by
  unfold Gen.Src.Save
  simp only [Render_rec_congr cfg r r' _ items f h]

theorem root_render (cfg : Cfg) (n : Nat) (items : List Code) (hn : depth (.group fileInfo items) < n)
    (ht : TagsOk (.group fileInfo items)) (f : FileS) (hg : Good cfg f) :
    (srcRec cfg n).render f [] none (.group fileInfo items) = (modelRec cfg).render f [] none (.group fileInfo items) :=
  srcRec_render cfg _ n hn ht f (Or.inr (Or.inl ⟨_, _, rfl⟩)) hg [] none

/-- File.Render, closed -/
theorem File_Render_closed (tl : Str → Str) (ip : Nat → Bool) (w : World) (f : FileS)
    (hI : RegistryInv.Inv (Props.cfgOf tl ip) f) (hH : RegistryInv.HintsOk f) (items : List Code) (n : Nat)
    (hn : depth (.group fileInfo items) < n) (ht : TagsOk (.group fileInfo items)) :
    let cfg := Props.cfgOf tl ip
    (Gen.Src.Render cfg (srcRec cfg n) w items f).1 = (fileRender w cfg f items).1 ∧
    (Gen.Src.Render cfg (srcRec cfg n) w items f).2.1 = (fileRender w cfg f items).2.1 ∧
    (misuse f.np (.group fileInfo items) = false →
      (Gen.Src.Render cfg (srcRec cfg n) w items f).2.2 = (fileRender w cfg f items).2.2) := by
  intro cfg
  have hg : Good cfg f := RegistryGood.good_of_hintsOk hH (Props.stdOk tl ip)
  rw [Render_rec_congr cfg _ (modelRec cfg) w items f (root_render cfg n items hn ht f hg)]
  exact File_Render_eq_of_inv tl ip w f hI hH items

/-- File.Save, closed -/
theorem File_Save_closed (tl : Str → Str) (ip : Nat → Bool) (w : World) (f : FileS)
    (hI : RegistryInv.Inv (Props.cfgOf tl ip) f) (hH : RegistryInv.HintsOk f) (items : List Code) (name : Str) (n : Nat)
    (hn : depth (.group fileInfo items) < n) (ht : TagsOk (.group fileInfo items)) :
    let cfg := Props.cfgOf tl ip
    (Gen.Src.Save cfg (srcRec cfg n) w items f name).1 = (fileSave w cfg f items).1 ∧
    (Gen.Src.Save cfg (srcRec cfg n) w items f name).2.1 = (fileSave w cfg f items).2.1 ∧
    (misuse f.np (.group fileInfo items) = false →
      (Gen.Src.Save cfg (srcRec cfg n) w items f name).2.2 = (fileSave w cfg f items).2.2) := by
  intro cfg
  have hg : Good cfg f := RegistryGood.good_of_hintsOk hH (Props.stdOk tl ip)
  rw [Save_rec_congr cfg _ (modelRec cfg) w items f name (root_render cfg n items hn ht f hg)]
  exact File_Save_eq_of_inv tl ip w f hI hH items name

/-- the fragment entry points call the translated `Statement.render` / `Group.render` directly: with
    `srcRec cfg n` as their recursion parameter that IS `srcRec cfg (n+1)` on the fragment -/
theorem Statement_RenderWithFile_rec (cfg : Cfg) (n : Nat) (w : World) (items : List Code) (f : FileS)
    (hn : depth (.stmt items) < n + 1) (ht : TagsOk (.stmt items)) (hg : Good cfg f) :
    Gen.Src.Statement_RenderWithFile cfg (srcRec cfg n) w items f =
      Gen.Src.Statement_RenderWithFile cfg (modelRec cfg) w items f := by
  have h1 : Gen.Src.Statement_render cfg (srcRec cfg n) items f [] = (srcRec cfg (n + 1)).render f [] none (.stmt items) := rfl
  have h2 := srcRec_render cfg (.stmt items) (n + 1) hn ht f (Or.inr (Or.inr (Or.inl ⟨_, rfl⟩))) hg [] none
  have h3 := Statement_render_eq cfg f hg items []
  unfold Gen.Src.Statement_RenderWithFile
  simp only [h1, h2, h3]

theorem Group_RenderWithFile_rec (cfg : Cfg) (n : Nat) (w : World) (g : GInfo) (items : List Code) (f : FileS)
    (hn : depth (.group g items) < n + 1) (ht : TagsOk (.group g items)) (hg : Good cfg f) :
    Gen.Src.Group_RenderWithFile cfg (srcRec cfg n) w g items f =
      Gen.Src.Group_RenderWithFile cfg (modelRec cfg) w g items f := by
  have h1 : Gen.Src.Group_render cfg (srcRec cfg n) g items f [] none = (srcRec cfg (n + 1)).render f [] none (.group g items) := rfl
  have h2 := srcRec_render cfg (.group g items) (n + 1) hn ht f (Or.inr (Or.inl ⟨_, _, rfl⟩)) hg [] none
  have h3 := Group_render_eq cfg f hg g items [] none
  unfold Gen.Src.Group_RenderWithFile
  simp only [h1, h2, h3]

/-- Statement.RenderWithFile, closed -/
theorem Statement_RenderWithFile_closed (cfg : Cfg) (w : World) (f : FileS) (hg : Good cfg f) (items : List Code) (n : Nat)
    (hn : depth (.stmt items) < n + 1) (ht : TagsOk (.stmt items)) :
    (Gen.Src.Statement_RenderWithFile cfg (srcRec cfg n) w items f).1 = (fragRender w cfg f (.stmt items)).1 ∧
    (Gen.Src.Statement_RenderWithFile cfg (srcRec cfg n) w items f).2.1 = (fragRender w cfg f (.stmt items)).2.1 ∧
    (misuse f.np (.stmt items) = false →
      (Gen.Src.Statement_RenderWithFile cfg (srcRec cfg n) w items f).2.2 = (fragRender w cfg f (.stmt items)).2.2) := by
  rw [Statement_RenderWithFile_rec cfg n w items f hn ht hg]
  exact Statement_RenderWithFile_eq cfg w f hg items

/-- Group.RenderWithFile, closed -/
theorem Group_RenderWithFile_closed (cfg : Cfg) (w : World) (f : FileS) (hg : Good cfg f) (g : GInfo) (items : List Code) (n : Nat)
    (hn : depth (.group g items) < n + 1) (ht : TagsOk (.group g items)) :
    (Gen.Src.Group_RenderWithFile cfg (srcRec cfg n) w g items f).1 = (fragRender w cfg f (.group g items)).1 ∧
    (Gen.Src.Group_RenderWithFile cfg (srcRec cfg n) w g items f).2.1 = (fragRender w cfg f (.group g items)).2.1 ∧
    (misuse f.np (.group g items) = false →
      (Gen.Src.Group_RenderWithFile cfg (srcRec cfg n) w g items f).2.2 = (fragRender w cfg f (.group g items)).2.2) := by
  rw [Group_RenderWithFile_rec cfg n w g items f hn ht hg]
  exact Group_RenderWithFile_eq cfg w f hg g items

/-- Statement.Render and Statement.GoString, closed (fresh File from the translated `NewFile`) -/
theorem Statement_GoString_closed (tl : Str → Str) (ip : Nat → Bool) (gofmt : Str → Option Str) (items : List Code) (n : Nat)
    (hn : depth (.stmt items) < n + 1) (ht : TagsOk (.stmt items)) :
    let cfg := Props.cfgOf tl ip
    (Gen.Src.Statement_GoString cfg (srcRec cfg n) gofmt items).1 = (fragGoString gofmt cfg (.stmt items)).1 ∧
    (Gen.Src.Statement_GoString cfg (srcRec cfg n) gofmt items).2.1 = (fragGoString gofmt cfg (.stmt items)).2.1 := by
  intro cfg
  have h : Gen.Src.Statement_GoString cfg (srcRec cfg n) gofmt items = Gen.Src.Statement_GoString cfg (modelRec cfg) gofmt items := by
    unfold Gen.Src.Statement_GoString Gen.Src.Statement_Render
    rw [Statement_RenderWithFile_rec cfg n _ items _ hn ht (by rw [NewFile_eq]; exact good_newFile tl ip [])]
  rw [h]
  exact Statement_GoString_eq tl ip gofmt items

theorem Group_GoString_closed (tl : Str → Str) (ip : Nat → Bool) (gofmt : Str → Option Str) (g : GInfo) (items : List Code) (n : Nat)
    (hn : depth (.group g items) < n + 1) (ht : TagsOk (.group g items)) :
    let cfg := Props.cfgOf tl ip
    (Gen.Src.Group_GoString cfg (srcRec cfg n) gofmt g items).1 = (fragGoString gofmt cfg (.group g items)).1 ∧
    (Gen.Src.Group_GoString cfg (srcRec cfg n) gofmt g items).2.1 = (fragGoString gofmt cfg (.group g items)).2.1 := by
  intro cfg
  have h : Gen.Src.Group_GoString cfg (srcRec cfg n) gofmt g items = Gen.Src.Group_GoString cfg (modelRec cfg) gofmt g items := by
    unfold Gen.Src.Group_GoString Gen.Src.Group_Render
    rw [Group_RenderWithFile_rec cfg n _ g items _ hn ht (by rw [NewFile_eq]; exact good_newFile tl ip [])]
  rw [h]
  exact Group_GoString_eq tl ip gofmt g items

-- non-vacuity: the example tree of Tie/Whole as a Statement, rendered through the closed GoString
example (tl : Str → Str) (ip : Nat → Bool) (gofmt : Str → Option Str) :
    ∃ items, exTree = .stmt items ∧ depth (.stmt items) < 3 + 1 ∧ TagsOk (.stmt items) :=
  ⟨_, rfl, exTree_depth, exTree_tagsOk⟩

#print axioms File_Render_closed
#print axioms File_Save_closed
#print axioms Statement_RenderWithFile_closed
#print axioms Group_RenderWithFile_closed
#print axioms Statement_GoString_closed
#print axioms Group_GoString_closed

end Tie
