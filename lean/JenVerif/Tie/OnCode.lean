import JenVerif.Tie.Closed
import JenVerif.Props.C10
import JenVerif.Props.C13
import JenVerif.Props.C08
import JenVerif.Props.C07
import JenVerif.Props.C17
import JenVerif.Props.C15
import JenVerif.Props.C06
import JenVerif.Props.C04
import JenVerif.Props.C19
import JenVerif.Props.C03
import JenVerif.Props.C16
import JenVerif.Props.C12
import JenVerif.Props.C11
import JenVerif.Tie.TokenSrc
/-
  Property statements transferred to the TRANSLATED code.

  The theorems of `Props/Cxx.lean` are about the model; `Tie/Closed` says the translated entry points,
  closed under the translated render / null / register methods (`srcRec`), ARE the model.  This file
  composes the two for a few properties, so that the statement a user relies on is visibly one about
  the functions of /repo as translated on this run — no model definition in the subject position:

  * C10 (atomicity): the translated `File.Render` hands its caller's writer at most one buffer, and
    only the accepted formatter output (or the raw source under NoFormat), never after a failure;
    the translated `File.Save` touches the filesystem at most once and only with such a buffer;
  * C02: a successful translated `File.Render` wrote exactly gofmt(raw) resp. raw;
  * C13: inserting a void item anywhere in a Group leaves the translated `Group.RenderWithFile`'s
    result, effect trace and File state unchanged (for every formatter and writer);
  * C07: the translated `tag.render`, `File.renderImports`, `File.ImportNames` — which range over Go
    maps, their iteration order being a parameter of the translation — give the same result for any
    two orders;
  * C17: the literal written by the translated `tag.render`, read back and looked up with reflect's
    algorithm, yields every value; C15: what the translated `comment.render` writes is one comment
    that ends where it should, whatever follows;
  * C08: the translated `File.Render` run a second time on the state left by the first gives the same
    result and the same effect trace.
-/
namespace Tie
open Code Refine

variable (tl : Str → Str) (ip : Nat → Bool)

/-- C10 / C02 on the translated `File.Render` -/
theorem C10_render_on_code (w : World) (f : FileS)
    (hI : RegistryInv.Inv (Props.cfgOf tl ip) f) (hH : RegistryInv.HintsOk f) (items : List Code) (n : Nat)
    (hn : depth (.group fileInfo items) < n) (ht : TagsOk (.group fileInfo items)) :
    let cfg := Props.cfgOf tl ip
    let r := Gen.Src.Render cfg (srcRec cfg n) w items f
    (r.2.1.filter C10.isWrite).length ≤ 1 ∧
    (∀ b, Effect.callerWrite b ∈ r.2.1 →
        Code.misuse f.np (.group Code.fileInfo items) = false ∧
        (f.noFormat = true ∧ b = (renderFileRaw cfg f items).1 ∨
         f.noFormat = false ∧ w.gofmt (renderFileRaw cfg f items).1 = some b)) ∧
    (r.1 = .ok → ∃ out, Effect.callerWrite out ∈ r.2.1 ∧ w.writer out = true) := by
  intro cfg r
  have hc := File_Render_closed tl ip w f hI hH items n hn ht
  have hm := C10.render_writes_only_after_success w cfg f items
  have e1 : r.1 = (fileRender w cfg f items).1 := hc.1
  have e2 : r.2.1 = (fileRender w cfg f items).2.1 := hc.2.1
  refine ⟨?_, ?_, ?_⟩
  · rw [e2]; exact hm.1
  · rw [e2]; exact hm.2
  · rw [e1, e2]
    intro hok
    have := (C10.ok_iff_written w f.noFormat (Code.misuse f.np (.group Code.fileInfo items)) (renderFileRaw cfg f items).1).mp hok
    obtain ⟨_, out, _, hw, hl⟩ := this
    refine ⟨out, ?_, hw⟩
    have hmem : Effect.callerWrite out ∈ (fileRenderFrom w f.noFormat (Code.misuse f.np (.group Code.fileInfo items)) (renderFileRaw cfg f items).1).2.filter C10.isWrite := by
      rw [hl]; simp
    exact (List.mem_filter.mp hmem).1

/-- C10 on the translated `File.Save`: the filesystem is touched at most once, last, and only with
    the accepted output -/
theorem C10_save_on_code (w : World) (f : FileS)
    (hI : RegistryInv.Inv (Props.cfgOf tl ip) f) (hH : RegistryInv.HintsOk f) (items : List Code) (name : Str) (n : Nat)
    (hn : depth (.group fileInfo items) < n) (ht : TagsOk (.group fileInfo items)) :
    let cfg := Props.cfgOf tl ip
    let r := Gen.Src.Save cfg (srcRec cfg n) w items f name
    (∀ b, Effect.fsWrite b ∈ r.2.1 →
        Code.misuse f.np (.group Code.fileInfo items) = false ∧
        (if f.noFormat then some (renderFileRaw cfg f items).1 else w.gofmt (renderFileRaw cfg f items).1) = some b) ∧
    (r.2.1.filter C10.isFsWrite).length ≤ 1 ∧
    (r.1 = .ok → ∃ b, Effect.fsWrite b ∈ r.2.1 ∧ w.fs b = true) := by
  intro cfg r
  have hc := File_Save_closed tl ip w f hI hH items name n hn ht
  have hm := C10.save_untouched_on_failure w f.noFormat (Code.misuse f.np (.group Code.fileInfo items)) (renderFileRaw cfg f items).1
  have e1 : r.1 = (fileSave w cfg f items).1 := hc.1
  have e2 : r.2.1 = (fileSave w cfg f items).2.1 := hc.2.1
  refine ⟨?_, ?_, ?_⟩
  · rw [e2]; exact hm.1
  · rw [e2]; exact hm.2.1
  · rw [e1, e2]; exact hm.2.2.1

/-- C13 on the translated `Group.RenderWithFile`: a void item inserted at any position of any group
    changes nothing observable — result, effect trace, File state — for every formatter and writer -/
theorem C13_insert_void_on_code (cfg : Cfg) (w : World) (f : FileS) (hg : Good cfg f) (g : GInfo)
    (xs ys : List Code) (v : Code) (hv : void v = true) (n : Nat)
    (hn1 : depth (.group g (xs ++ v :: ys)) < n + 1) (ht1 : TagsOk (.group g (xs ++ v :: ys)))
    (hn2 : depth (.group g (xs ++ ys)) < n + 1) (ht2 : TagsOk (.group g (xs ++ ys))) :
    (Gen.Src.Group_RenderWithFile cfg (srcRec cfg n) w g (xs ++ v :: ys) f).1 =
      (Gen.Src.Group_RenderWithFile cfg (srcRec cfg n) w g (xs ++ ys) f).1 ∧
    (Gen.Src.Group_RenderWithFile cfg (srcRec cfg n) w g (xs ++ v :: ys) f).2.1 =
      (Gen.Src.Group_RenderWithFile cfg (srcRec cfg n) w g (xs ++ ys) f).2.1 ∧
    (misuse f.np (.group g (xs ++ ys)) = false →
      (Gen.Src.Group_RenderWithFile cfg (srcRec cfg n) w g (xs ++ v :: ys) f).2.2 =
        (Gen.Src.Group_RenderWithFile cfg (srcRec cfg n) w g (xs ++ ys) f).2.2) := by
  have a := Group_RenderWithFile_closed cfg w f hg g (xs ++ v :: ys) n hn1 ht1
  have b := Group_RenderWithFile_closed cfg w f hg g (xs ++ ys) n hn2 ht2
  have hm : misuse f.np (.group g (xs ++ v :: ys)) = misuse f.np (.group g (xs ++ ys)) :=
    C13.insert_void_keeps_outcome f.np g xs ys v hv
  have hr : renderS cfg f none (.group g (xs ++ v :: ys)) = renderS cfg f none (.group g (xs ++ ys)) :=
    C13.insert_void_stateful cfg f none g xs ys v hv
  have hfr : fragRender w cfg f (.group g (xs ++ v :: ys)) = fragRender w cfg f (.group g (xs ++ ys)) := by
    simp only [fragRender, hm, hr]
  refine ⟨?_, ?_, ?_⟩
  · rw [a.1, b.1, hfr]
  · rw [a.2.1, b.2.1, hfr]
  · intro h0
    rw [a.2.2 (hm.trans h0), b.2.2 h0, hfr]

/-- C08 on the translated `File.Render`: rendered again on the state the first render left, it
    returns the same result and the same effect trace -/
theorem C08_rerender_on_code (w : World) (f : FileS)
    (hI : RegistryInv.Inv (Props.cfgOf tl ip) f) (hH : RegistryInv.HintsOk f) (items : List Code) (n : Nat)
    (hn : depth (.group fileInfo items) < n) (ht : TagsOk (.group fileInfo items))
    (hm : misuse f.np (.group fileInfo items) = false) :
    let cfg := Props.cfgOf tl ip
    let r1 := Gen.Src.Render cfg (srcRec cfg n) w items f
    let r2 := Gen.Src.Render cfg (srcRec cfg n) w items r1.2.2
    r2.1 = r1.1 ∧ r2.2.1 = r1.2.1 := by
  intro cfg r1 r2
  have c1 := File_Render_closed tl ip w f hI hH items n hn ht
  have hs : r1.2.2 = (fileRender w cfg f items).2.2 := c1.2.2 hm
  have hinv := C05.render_keeps_names_unique_and_legal tl ip f none (.group fileInfo items) hI hH
  have hs' : (fileRender w cfg f items).2.2 = (renderS cfg f none (.group fileInfo items)).2 := rfl
  have c2 := File_Render_closed tl ip w r1.2.2 (by rw [hs, hs']; exact hinv.1) (by rw [hs, hs']; exact hinv.2) items n hn ht
  have idem := C08.file_render_idempotent_effects w (cfg := cfg) hH (Props.stdOk tl ip) items
  have e : fileRender w cfg r1.2.2 items = fileRender w cfg f items := by
    rw [hs]; exact idem
  refine ⟨?_, ?_⟩
  · show r2.1 = r1.1
    rw [c2.1, e, ← c1.1]
  · show r2.2.1 = r1.2.1
    rw [c2.2.1, e, ← c1.2.1]

/-- C07 on the translated `tag.render`: the Go code ranges over the caller's map; `t₁`, `t₂` are the
    map's entries in any two iteration orders — the bytes written are the same -/
theorem C07_tag_on_code (cfg : Cfg) (f : FileS) (out : Str) {t₁ t₂ : List (Str × Str)} (h : t₁.Perm t₂)
    (hk : (t₁.map (·.1)).Nodup) :
    Gen.Src.tag_render cfg t₁ f out = Gen.Src.tag_render cfg t₂ f out := by
  have hk2 : (t₂.map (·.1)).Nodup := (List.Perm.nodup_iff (List.Perm.map _ h)).mp hk
  rw [tag_render_eq cfg t₁ f out hk, tag_render_eq cfg t₂ f out hk2, C07.tag_perm cfg.isPrint h hk]
  have : t₁.isEmpty = t₂.isEmpty := by
    cases t₁ <;> cases t₂ <;> simp_all
  rw [this]

/-- C07 on the translated `File.renderImports`: `f₁`, `f₂` differ only in the iteration order of the
    import table (a Go map) — the import block written is the same -/
theorem C07_imports_on_code (cfg : Cfg) (out : Str) {f₁ f₂ : FileS} (h : f₁.imports.Perm f₂.imports)
    (hk : (f₁.imports.map (·.1)).Nodup) (hc : f₁.cgo = f₂.cgo) :
    Gen.Src.renderImports cfg f₁ out = Gen.Src.renderImports cfg f₂ out := by
  have hk2 : (f₂.imports.map (·.1)).Nodup := (List.Perm.nodup_iff (List.Perm.map _ h)).mp hk
  rw [renderImports_src_eq_model cfg f₁ out hk, renderImports_src_eq_model cfg f₂ out hk2,
    C07.importBlock_perm cfg.isPrint h hk hc]

/-- C07 on the translated `File.ImportNames`: any iteration order of the argument map leaves the same
    hint for every path -/
theorem C07_importNames_on_code (cfg : Cfg) (f : FileS) {m₁ m₂ : List (Str × Str)} (h : m₁.Perm m₂)
    (nd : (m₁.map (·.1)).Nodup) (p : Str) :
    AList.lookup (Gen.Src.ImportNames cfg f m₁).hints p = AList.lookup (Gen.Src.ImportNames cfg f m₂).hints p := by
  rw [ImportNames_eq, ImportNames_eq]
  exact C07.importNames_perm f h nd p

/-- C17 on the translated `tag.render`: what it writes for a non-empty map with distinct conventional
    keys is ONE Go string literal which, read back and looked up with reflect's algorithm, yields
    every value exactly — for arbitrary byte-string values and whatever source text follows -/
theorem C17_lookup_on_code (cfg : Cfg) (h : Quote.PSafe cfg.isPrint) (f : FileS) (m : List (Str × Str))
    (nd : (m.map (·.1)).Nodup) (hk : ∀ kv ∈ m, StructTag.convKey kv.1 = true) (kv : Str × Str) (hm : kv ∈ m) (rest : Str) :
    (TagRT.readGoLiteral (Gen.Src.tag_render cfg m f [] ++ rest)).bind (fun r => StructTag.lookup r.1 kv.1) = some kv.2 := by
  rw [tag_render_eq cfg m f [] nd]
  have hne : m.isEmpty = false := by cases m <;> simp_all
  simp only [hne, List.nil_append]
  exact C17.lookup_roundtrip h m nd hk kv hm rest

/-- C15 on the translated `comment.render`: a one-line text in the property's domain is written as a
    line comment that ends at the line break — whatever code follows stays code -/
theorem C15_line_comment_on_code (cfg : Cfg) (f : FileS) (t : Str) (hd : CommentLemmas.InDomain t)
    (h : t.elem 10 = false) (rest : Str) :
    GoComment.skipComment (Gen.Src.comment_render cfg t f [] ++ [10] ++ rest) = some (b!"// " ++ t, [10] ++ rest) := by
  rw [comment_render_eq]
  simp only [List.nil_append]
  exact C15.line_comment_contained t hd h rest

/-- … and a text with line breaks as a block comment that ends exactly at the `*/` it appends -/
theorem C15_block_comment_on_code (cfg : Cfg) (f : FileS) (t : Str) (hd : CommentLemmas.InDomain t)
    (h : t.elem 10 = true) (rest : Str) :
    GoComment.skipComment (Gen.Src.comment_render cfg t f [] ++ rest) = some (Gen.Src.comment_render cfg t f [], rest) := by
  rw [comment_render_eq]
  simp only [List.nil_append]
  exact (C15.block_comment_contained t hd h rest).1

/-- C06 on the translated renderer: `Qual(p, n)` with `p` the File's own path — rendered by the
    translated `Group.render` calling the translated `token.isNull` / `token.render` / `register` —
    writes the bare name and leaves the File (its import table) untouched -/
theorem C06_local_on_code (cfg : Cfg) (f : FileS) (hg : Good cfg f) (w : Str) (prev : Option Code) (p n : Str)
    (h : Registry.isLocal f p = true) :
    (srcRec cfg 3).render f w prev (Code.qual p n) = some (w ++ n, f) := by
  have hd : depth (Code.qual p n) < 3 := by simp [Code.qual, depth, depthL]
  have ht : TagsOk (Code.qual p n) := by simp [Code.qual, TagsOk, TagsOkL]
  rw [srcRec_render cfg _ 3 hd ht f (Or.inr (Or.inl ⟨_, _, rfl⟩)) hg w prev]
  have hm : misuse f.np (Code.qual p n) = false := by
    simp [Code.qual, misuse, misuseItems, Code.qualInfo, isDict]
  simp only [modelRec, hm, Bool.false_eq_true, if_false, C06.local_bare cfg f prev p n h]

/-- C04 on the translated `File.Render`: the import table it leaves behind (from which the block is
    printed) holds, beyond what was there before, exactly the non-local paths the traversal visits —
    and every visited non-local path is registered under a real name -/
theorem C04_block_exact_on_code (w : World) (f : FileS)
    (hI : RegistryInv.Inv (Props.cfgOf tl ip) f) (hH : RegistryInv.HintsOk f) (items : List Code) (n : Nat)
    (hn : depth (.group fileInfo items) < n) (ht : TagsOk (.group fileInfo items))
    (hm : misuse f.np (.group fileInfo items) = false) (p : Str) :
    let cfg := Props.cfgOf tl ip
    let f' := (Gen.Src.Render cfg (srcRec cfg n) w items f).2.2
    (p ∈ f'.imports.map (·.1) →
      p ∈ f.imports.map (·.1) ∨ (Frame.visitsItems f.np items p = true ∧ Registry.isLocal f p = false)) ∧
    (Frame.visitsItems f.np items p = true → Registry.isLocal f p = false → Registry.isReg f' p = true) := by
  intro cfg f'
  have hc := File_Render_closed tl ip w f hI hH items n hn ht
  have hs : f' = (renderFileRaw cfg f items).2 := hc.2.2 hm
  rw [hs]
  exact C04.block_paths_exact hH (Props.stdOk tl ip) items p

/-- C19 on the translated `File.register`: the cgo pseudo-package is registered as `C`, unaliased,
    whatever hints, prefix and other imports the File has (every library satisfying `AsciiOk`, every
    sufficient fuel) -/
theorem C19_C_on_code (lib : Go.Lib) (hl : lib.AsciiOk) (f : FileS)
    (hI : RegistryInv.Inv (Props.cfgOf tl ip) f) (hloc : Registry.isLocal f b!"C" = false) (fuel : Nat)
    (hf : registerFuel tl ip f b!"C" ≤ fuel) :
    (Gen.Src.register (Props.cfgOf tl ip) lib fuel f b!"C").1 = b!"C" ∧
    Registry.lookupImp (Gen.Src.register (Props.cfgOf tl ip) lib fuel f b!"C").2 b!"C" = ⟨b!"C", false⟩ := by
  rw [register_src_eq_model tl ip lib hl f b!"C" fuel hf]
  exact C19.C_registered_as_C hI hloc

/-- C03 on the translated `File.Render` (NoFormat, so the bytes are jennifer's own): what it hands to
    the writer is the file head, the import block printed from the table it LEAVES BEHIND, and the body
    rendered purely under that same final table — every qualifier in the body is the name the block
    declares for its path -/
theorem C03_final_table_on_code (w : World) (f : FileS)
    (hI : RegistryInv.Inv (Props.cfgOf tl ip) f) (hH : RegistryInv.HintsOk f) (items : List Code) (n : Nat)
    (hn : depth (.group fileInfo items) < n) (ht : TagsOk (.group fileInfo items))
    (hm : misuse f.np (.group fileInfo items) = false) (hnf : f.noFormat = true) :
    let cfg := Props.cfgOf tl ip
    let r := Gen.Src.Render cfg (srcRec cfg n) w items f
    r.2.1 = [Effect.callerWrite (fileHead cfg.isPrint r.2.2 ++ renderImports cfg.isPrint r.2.2 ++
      renderP cfg (envOf r.2.2) none (.group fileInfo items))] := by
  intro cfg r
  have hc := File_Render_closed tl ip w f hI hH items n hn ht
  have hs : r.2.2 = (renderFileRaw cfg f items).2 := hc.2.2 hm
  have he : r.2.1 = (fileRender w cfg f items).2.1 := hc.2.1
  have hraw := (C03.file_uses_final_table (cfg := cfg) hH (Props.stdOk tl ip) items).1
  rw [he, hs, ← hraw]
  simp [fileRender, fileRenderFrom, emit, hm, hnf]

/-- C16 on the translated `Dict.render` (closed): what it writes is the layout of the SORTED list of
    text pairs; that list is a permutation of exactly the non-null pairs' texts — each once — under the
    naming of the File state it leaves behind, and it is ordered by key text (then value text) -/
theorem C16_dict_on_code (cfg : Cfg) (f : FileS) (hg : Good cfg f) (ps : List (Code × Code)) (n : Nat)
    (hn : depth (.dict ps) < n) (ht : TagsOk (.dict ps)) (w : Str) (hm : misusePairs f.np ps = false) :
    let f' := (renderS cfg f none (.dict ps)).2
    let sorted := (dictPairsP cfg (envOf f') ps).mergeSort dictLe
    (srcRec cfg n).render f w none (.dict ps) = some (w ++ dictBodyP sorted.length true sorted, f') ∧
    sorted.Perm ((ps.filter (C16.keptPair (envOf f').np)).map
      fun p => (renderP cfg (envOf f') none p.1, renderP cfg (envOf f') none p.2)) ∧
    sorted.Pairwise (fun a b => dictLe a b = true) := by
  intro f' sorted
  have h1 := srcRec_render cfg (.dict ps) n hn ht f (Or.inr (Or.inr (Or.inr ⟨_, rfl⟩))) hg w none
  have hmis : misuse f.np (.dict ps) = false := by simpa [misuse] using hm
  have h2 := C16.stateful_eq_pure cfg f hg ps f' (Ext.refl _)
  have hs := C16.sorted_is_permutation cfg (envOf f') ps
  refine ⟨?_, ?_, hs.2⟩
  · rw [h1]
    simp only [modelRec, hmis, Bool.false_eq_true, if_false, h2]
    rfl
  · have hp : sorted.Perm (dictPairsP cfg (envOf f') ps) := hs.1
    rw [C16.pairs_exact cfg (envOf f') ps] at hp
    exact hp

/-- C12 on the translated `token.render`: for EVERY byte string (quotes, backslashes, line breaks,
    NUL, invalid UTF-8 …) what it writes for `Lit(s)`, read back with Go's string-literal grammar, is
    exactly `s`, and the reader stops exactly where the literal ends — whatever follows, whatever the
    recursion parameter and File state -/
theorem C12_string_on_code (cfg : Cfg) (h : Quote.PSafe cfg.isPrint) (rec : Go.Rec) (f : FileS) (s rest : Str) :
    ∃ out, Gen.Src.token_render cfg rec (Go.tokTyp (.lit (.str s))) (Go.dynOf (.lit (.str s))) f [] = some (out, f) ∧
      GoLex.readString (out ++ rest) = some (s, rest) := by
  refine ⟨_, by rw [token_render_lit], ?_⟩
  simp only [List.nil_append]
  exact C12.string_roundtrip h s rest

/-- … and every byte value is written as `byte(0x<digits>)` with exactly that value -/
theorem C12_byte_on_code (cfg : Cfg) (rec : Go.Rec) (f : FileS) (b : UInt8) :
    ∃ digits, Gen.Src.token_render cfg rec (Go.tokTyp (.lit (.byte b))) (Go.dynOf (.lit (.byte b))) f [] =
        some (b!"byte(0x" ++ digits ++ b!")", f) ∧
      GoNum.readHex (b!"0x" ++ digits) = some b.toNat := by
  obtain ⟨digits, h1, h2⟩ := C12.byte_roundtrip cfg.isPrint b
  refine ⟨digits, ?_, h2⟩
  rw [token_render_lit, h1]
  rfl

/-- C11 on the translated `token.render`: an untyped int is written as a decimal literal with exactly
    its value; a sized integer as `<type name>(<literal>)` with the Go name of its own type -/
theorem C11_int_on_code (cfg : Cfg) (rec : Go.Rec) (f : FileS) (v : Int) :
    ∃ out, Gen.Src.token_render cfg rec (Go.tokTyp (.lit (.int v))) (Go.dynOf (.lit (.int v))) f [] = some (out, f) ∧
      GoNum.readSignedDec out = some v := by
  refine ⟨_, by rw [token_render_lit], ?_⟩
  simp only [List.nil_append]
  exact C11.int_render cfg.isPrint v

theorem C11_sized_on_code (cfg : Cfg) (rec : Go.Rec) (f : FileS) (ty : NumTy) (v : Int) :
    Gen.Src.token_render cfg rec (Go.tokTyp (.lit (.sized ty v))) (Go.dynOf (.lit (.sized ty v))) f [] =
      some (ty.name ++ b!"(" ++ Lit.fmtInt ty.signed v ++ b!")", f) := by
  rw [token_render_lit, C11.typed_shape]
  rfl

#print axioms C11_int_on_code
#print axioms C11_sized_on_code
#print axioms C12_string_on_code
#print axioms C12_byte_on_code
#print axioms C16_dict_on_code
#print axioms C03_final_table_on_code
#print axioms C19_C_on_code
#print axioms C04_block_exact_on_code
#print axioms C06_local_on_code
#print axioms C17_lookup_on_code
#print axioms C15_line_comment_on_code
#print axioms C15_block_comment_on_code
#print axioms C07_tag_on_code
#print axioms C07_imports_on_code
#print axioms C07_importNames_on_code
#print axioms C10_render_on_code
#print axioms C10_save_on_code
#print axioms C13_insert_void_on_code
#print axioms C08_rerender_on_code

end Tie
