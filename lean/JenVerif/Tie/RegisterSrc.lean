import JenVerif.Tie.RegistrySrc
/-
  Tie 1b — `Gen.Src.register` (translated from `(*File).register`, jen/file.go) equals the
  hand-written model `Registry.register`.
-/
set_option linter.unusedSimpArgs false
namespace Tie
open Registry RegistryInv Props

/-- the candidate differs from the base name exactly at the indices `≠ 0` -/
theorem candidate_bne_name (name : Str) (k : Nat) : (candidate name k != name) = (k != 0) := by
  by_cases h : k = 0
  · subst h; rw [candidate_zero]; simp
  · have h' : candidate name k ≠ name := fun e =>
      h (candidate_injective (e.trans (candidate_zero name).symm))
    rw [bne_iff_ne.mpr h', bne_iff_ne.mpr h]

/-- a `Go.loop` over the state `(i, unique)` whose condition / body act like the uniquifier on the
    states `(k, candidate name k)` computes `uniqLoop` -/
theorem loop_uniq (cfg : Cfg) (f : FileS) (name : Str) (alias : Bool)
    (cond : Int × Str → Bool) (body : Int × Str → Int × Str)
    (hc : ∀ k, cond (Int.ofNat k, candidate name k) = !acceptable cfg f name alias k)
    (hb : ∀ k, body (Int.ofNat k, candidate name k) = (Int.ofNat (k + 1), candidate name (k + 1))) :
    ∀ fuel k, Go.loop fuel cond body (Int.ofNat k, candidate name k) =
      (Int.ofNat (uniqLoop cfg f name alias fuel k),
        candidate name (uniqLoop cfg f name alias fuel k)) := by
  intro fuel
  induction fuel with
  | zero => intro k; rfl
  | succ n ih =>
    intro k
    unfold Go.loop uniqLoop
    rw [hc k]
    cases acceptable cfg f name alias k with
    | true => rfl
    | false =>
      simp only [Bool.not_false, if_true, Bool.false_eq_true, if_false]
      rw [hb k, ih (k + 1)]

theorem loop_uniq_zero (cfg : Cfg) (f : FileS) (name : Str) (alias : Bool) (fuel : Nat)
    (cond : Int × Str → Bool) (body : Int × Str → Int × Str)
    (hc : ∀ k, cond (Int.ofNat k, candidate name k) = !acceptable cfg f name alias k)
    (hb : ∀ k, body (Int.ofNat k, candidate name k) = (Int.ofNat (k + 1), candidate name (k + 1))) :
    Go.loop fuel cond body ((0 : Int), name) =
      (Int.ofNat (uniqLoop cfg f name alias fuel 0),
        candidate name (uniqLoop cfg f name alias fuel 0)) :=
  loop_uniq cfg f name alias cond body hc hb fuel 0

/-- any fuel `≥ uniqFuel` gives the same index: the loop has already stopped -/
theorem uniqLoop_fuel (cfg : Cfg) (f : FileS) (name : Str) (alias : Bool) (fuel : Nat)
    (hf : uniqFuel cfg f ≤ fuel) :
    uniqLoop cfg f name alias fuel 0 = uniqLoop cfg f name alias (uniqFuel cfg f) 0 := by
  obtain ⟨k, hk, hacc⟩ := uniqLoop_finds cfg f name alias
  obtain ⟨a1, _, _, a4⟩ := uniqLoop_min cfg f name alias fuel 0 k (Nat.zero_le _)
    (by unfold uniqFuel at hf; omega) hacc
  obtain ⟨b1, _, _, b4⟩ := uniqLoop_min cfg f name alias (uniqFuel cfg f) 0 k (Nat.zero_le _)
    (by unfold uniqFuel; omega) hacc
  rcases Nat.lt_trichotomy (uniqLoop cfg f name alias fuel 0)
      (uniqLoop cfg f name alias (uniqFuel cfg f) 0) with h | h | h
  · have := b4 _ (Nat.zero_le _) h
    rw [a1] at this; cases this
  · exact h
  · have := a4 _ (Nat.zero_le _) h
    rw [b1] at this; cases this

theorem ite_true_or (c a : Bool) : (if c = true then true else a) = (a || c) := by
  cases c <;> cases a <;> rfl

/-- the part of the proof after the choice of `(name, alias)`: replace the generated loop by
    `uniqLoop`, then the fuel by `uniqFuel`, then compare -/
local macro "finish_reg" tl:term "," ip:term "," f:term "," fuel:term "," hf:term "," n:term "," a:term : tactic =>
  `(tactic| (
    rw [loop_uniq_zero (cfgOf $tl $ip) $f $n $a $fuel _ _
      (by intro k; simp only [acceptable, candidate_bne_name, Bool.not_and])
      (by intro k; rfl)]
    rw [uniqLoop_fuel (cfgOf $tl $ip) $f $n $a $fuel $hf]
    simp only [candidate_bne_name, ite_true_or] <;> rfl))

theorem register_eq (tl : Str → Str) (ip : Nat → Bool) (lib : Go.Lib) (f : FileS) (p : Str)
    (fuel : Nat)
    (hg : Gen.Src.guessAlias (cfgOf tl ip) lib fuel p = guessAlias tl p)
    (hf : uniqFuel (cfgOf tl ip) f ≤ fuel) :
    Gen.Src.register (cfgOf tl ip) lib fuel f p = register (cfgOf tl ip) f p := by
  have e1 : lookupHint f p = Go.getDef f.hints p := rfl
  have e2 : stdHint (cfgOf tl ip) p = Go.getStr Gen.stdHints p := rfl
  cases h1 : isLocal f p with
  | true =>
    rw [register_local h1]
    unfold Gen.Src.register
    simp only [isLocal_eq, h1, if_true]
  | false =>
    cases h2 : isReg f p with
    | true =>
      rw [register_reg h1 h2]
      have h2' : ((Go.getDef f.imports p).name != [] && (Go.getDef f.imports p).name != b!"_") = true := h2
      unfold Gen.Src.register
      simp only [isLocal_eq, h1, h2', if_true, Bool.false_eq_true, if_false]
      rfl
    | false =>
      have h2' : ((Go.getDef f.imports p).name != [] && (Go.getDef f.imports p).name != b!"_") = false := h2
      by_cases h3 : p = b!"C"
      · subst h3
        rw [register_C_new h1 h2]
        unfold Gen.Src.register
        simp only [isLocal_eq, h1, h2', if_true, Bool.false_eq_true, if_false, BEq.rfl]
      · rw [register_new h1 h2 h3]
        have h3' : (p == b!"C") = false := by simpa using h3
        unfold Gen.Src.register chooseDef chooseBase
        rw [e1, e2]
        cases h4 : ((Go.getDef f.hints p).name != [])
        · cases h5 : (Go.getStr Gen.stdHints p != [])
          · simp only [isLocal_eq, isValidAlias_eq, prefixed_eq, hg, h1, h2', h3', h4, h5, if_true,
              Bool.false_eq_true, if_false]
            finish_reg tl, ip, f, fuel, hf, (guessAlias tl p), true
          · simp only [isLocal_eq, isValidAlias_eq, prefixed_eq, hg, h1, h2', h3', h4, h5, if_true,
              Bool.false_eq_true, if_false]
            finish_reg tl, ip, f, fuel, hf, (Go.getStr Gen.stdHints p), false
        · simp only [isLocal_eq, isValidAlias_eq, prefixed_eq, hg, h1, h2', h3', h4, if_true,
              Bool.false_eq_true, if_false]
          finish_reg tl, ip, f, fuel, hf, (Go.getDef f.hints p).name, (Go.getDef f.hints p).alias

/-- the hypotheses are satisfiable (and the conclusion can be used) -/
example : Gen.Src.register (cfgOf id fun _ => true) Go.Lib.ascii 200 {} b!"a/b1" =
    register (cfgOf id fun _ => true) {} b!"a/b1" :=
  register_eq id (fun _ => true) Go.Lib.ascii {} b!"a/b1" 200 (by decide +kernel) (by decide +kernel)

end Tie

#print axioms Tie.register_eq
