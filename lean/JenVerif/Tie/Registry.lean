import JenVerif.Tie.RegisterSrc
import JenVerif.Tie.GuessAliasSrc
import JenVerif.Tie.TextSrc
import JenVerif.Tie.ImportsSrc
import JenVerif.Tie.NullSrc
import JenVerif.Tie.RenderSrc
/-
  Tie 1b, summary: every function of jennifer's import registry, TRANSLATED from /repo's Go source
  on this run (Gen/SrcRegistry.lean), equals the hand-written model function that the property
  theorems (C03 C04 C05 C06 C08 C18 C19 …) are stated about — for all inputs, all file states,
  every `strings.ToLower`, every library satisfying `Go.Lib.AsciiOk`, and every fuel above an
  explicit bound (the Go loops have no fuel: the bound says when the translation's loop has
  stopped by its own condition).
-/
namespace Tie
open Registry Props

/-- fuel that suffices for both loops of `register` (digit stripping in guessAlias, uniquifier) -/
def registerFuel (tl : Str → Str) (ip : Nat → Bool) (f : FileS) (p : Str) : Nat :=
  max (guessFuel (cfgOf tl ip) p) (uniqFuel (cfgOf tl ip) f)

/-- `(*File).register` as written in /repo = the model's `Registry.register` -/
theorem register_src_eq_model (tl : Str → Str) (ip : Nat → Bool) (lib : Go.Lib) (hl : lib.AsciiOk)
    (f : FileS) (p : Str) (fuel : Nat) (hf : registerFuel tl ip f p ≤ fuel) :
    Gen.Src.register (cfgOf tl ip) lib fuel f p = register (cfgOf tl ip) f p := by
  have h1 : guessFuel (cfgOf tl ip) p ≤ fuel := Nat.le_trans (Nat.le_max_left _ _) hf
  have h2 : uniqFuel (cfgOf tl ip) f ≤ fuel := Nat.le_trans (Nat.le_max_right _ _) hf
  exact register_eq tl ip lib f p fuel (guessAlias_eq (cfgOf tl ip) lib hl p fuel h1) h2

/-- more fuel never changes the result: the translated loops have terminated -/
theorem register_src_fuel_stable (tl : Str → Str) (ip : Nat → Bool) (lib : Go.Lib) (hl : lib.AsciiOk)
    (f : FileS) (p : Str) (fuel fuel' : Nat) (hf : registerFuel tl ip f p ≤ fuel) (hf' : registerFuel tl ip f p ≤ fuel') :
    Gen.Src.register (cfgOf tl ip) lib fuel f p = Gen.Src.register (cfgOf tl ip) lib fuel' f p := by
  rw [register_src_eq_model tl ip lib hl f p fuel hf, register_src_eq_model tl ip lib hl f p fuel' hf']

/-- TRANSFER (C05 stated about the code as written): the registry invariant — one entry per
    path, distinct paths never share a real name, every real name is a legal, unreserved Go
    identifier — is preserved by the TRANSLATED `register`, for every path string -/
theorem register_src_keeps_invariant (tl : Str → Str) (ip : Nat → Bool) (lib : Go.Lib) (hl : lib.AsciiOk)
    (f : FileS) (p : Str) (fuel : Nat) (hf : registerFuel tl ip f p ≤ fuel)
    (hI : RegistryInv.Inv (cfgOf tl ip) f) (hH : RegistryInv.HintsOk f) (hC : RegistryInv.CGuard f p) :
    RegistryInv.Inv (cfgOf tl ip) (Gen.Src.register (cfgOf tl ip) lib fuel f p).2 := by
  rw [register_src_eq_model tl ip lib hl f p fuel hf]
  exact RegistryInv.register_inv hI hH (Props.stdOk tl ip) p hC

/-- TRANSFER (C08): what the translated `register` returns for a path is what the table then
    holds for it: a (non-local) path registered under a real name keeps that name, table unchanged -/
theorem register_src_returns_stored_name (tl : Str → Str) (ip : Nat → Bool) (lib : Go.Lib) (hl : lib.AsciiOk)
    (f : FileS) (p : Str) (fuel : Nat) (hf : registerFuel tl ip f p ≤ fuel) (hloc : isLocal f p = false) (h : isReg f p = true) :
    Gen.Src.register (cfgOf tl ip) lib fuel f p = ((lookupImp f p).name, f) := by
  rw [register_src_eq_model tl ip lib hl f p fuel hf]
  unfold register
  simp [hloc, h]

/-- `(*File).renderImports` as written in /repo = the model's import block, for every file state
    whose import table is a map (distinct keys — C05's invariant) -/
theorem renderImports_src_eq_model (cfg : Cfg) (f : FileS) (out : Str) (hk : (f.imports.map (·.1)).Nodup) :
    Gen.Src.renderImports cfg f out = out ++ renderImports cfg.isPrint f :=
  renderImports_eq cfg f out (fun c o => comment_render_eq cfg c f o) hk

/-- TRANSFER (C04/C19 stated about the code as written): in every state that satisfies the
    registry invariant, the TRANSLATED renderImports prints exactly the model's import block -/
theorem renderImports_src_of_inv (tl : Str → Str) (ip : Nat → Bool) (f : FileS) (out : Str)
    (hI : RegistryInv.Inv (cfgOf tl ip) f) :
    Gen.Src.renderImports (cfgOf tl ip) f out = out ++ renderImports ip f :=
  renderImports_src_eq_model (cfgOf tl ip) f out hI.keysDistinct

-- non-vacuity and a concrete evaluation of the TRANSLATED code: two paths ending in /d
example : (Gen.Src.register (cfgOf id (fun _ => true)) Go.Lib.ascii 300
      (Gen.Src.register (cfgOf id (fun _ => true)) Go.Lib.ascii 300 {} b!"a.com/d").2 b!"b.com/d").1 = b!"d1" := by
  decide +kernel

end Tie
