import JenVerif.Tie.RegistrySrc
/-
  Tie 1b, third group — NULL-NESS.  `isNull` is a method of the `Code` interface with six
  implementations that call each other through the interface.  The translator renders every
  dynamic call `c.isNull(f)` as a call of a PARAMETER `recNull` (open recursion); the theorems
  below say that the model's `Code.isNull`, put in for `recNull`, satisfies every translated
  equation: the model's null test is a fixed point of the code's six definitions, node by node.
  Since `Code` is an inductive type (finite trees; the Go recursion is structural on the same
  tree), that fixed point is unique — the model's `isNull` IS what the Go methods compute.
  Outside the model: typed nil receivers (a nil *Group or *Statement stored in a Code value; the
  translated `g == nil` / `s == nil` tests are `false`), Dict pairs with a Go nil key or value.
-/
namespace Tie
open Code Registry

/-- the model's null test, in the shape of the recursion parameter -/
def modelNull (f : FileS) (c : Code) : Bool := Code.isNull f.np c

/-- token kinds of the model for the token types of jen/tokens.go (literal tokens are the separate
    constructor `Code.lit`; `qualifiedToken` is never constructed) -/
def kindOf : Go.TokTyp → Option TokKind
  | .packageToken => some .pkg
  | .identifierToken => some .ident
  | .keywordToken => some .kw
  | .operatorToken => some .op
  | .delimiterToken => some .delim
  | .layoutToken => some .layout
  | .nullToken => some .null
  | _ => none

theorem ite_not_b (b : Bool) : (if b = true then false else true) = !b := by cases b <;> rfl

theorem isNil_isNull (np : Str → Bool) (c : Code) (h : Go.isNil c = true) : isNull np c = true := by
  cases c with
  | nilc => rw [isNull]
  | _ => simp [Go.isNil] at h

theorem allNull_eq_any (np : Str → Bool) (cs : List Code) :
    allNull np cs = !(cs.any fun c => !(Go.isNil c) && !(isNull np c)) := by
  induction cs with
  | nil => simp [allNull]
  | cons c cs ih =>
    simp only [allNull, ih, List.any_cons]
    have hn := isNil_isNull np c
    cases h1 : Go.isNil c <;> cases h2 : isNull np c <;> simp_all

theorem Group_isNullItems_eq (cfg : Cfg) (f : FileS) (g : GInfo) (items : List Code) :
    Gen.Src.Group_isNullItems cfg modelNull g items f = allNull f.np items := by
  unfold Gen.Src.Group_isNullItems
  rw [allNull_eq_any]
  simp only [modelNull]
  exact ite_not_b _

theorem Group_isNull_eq (cfg : Cfg) (f : FileS) (g : GInfo) (items : List Code) :
    Gen.Src.Group_isNull cfg modelNull g items f = isNull f.np (.group g items) := by
  unfold Gen.Src.Group_isNull
  rw [Group_isNullItems_eq]
  simp only [isNull]
  by_cases h1 : g.opn = [] <;> by_cases h2 : g.cls = [] <;> simp [h1, h2]

theorem Statement_isNull_eq (cfg : Cfg) (f : FileS) (items : List Code) :
    Gen.Src.Statement_isNull cfg modelNull items f = isNull f.np (.stmt items) := by
  unfold Gen.Src.Statement_isNull
  simp only [isNull]
  rw [allNull_eq_any]
  simp only [modelNull, Bool.false_eq_true, if_false]
  exact ite_not_b _

theorem dictNull_eq_any (np : Str → Bool) (ps : List (Code × Code)) :
    dictNull np ps = !(ps.any fun kv => !(isNull np kv.1) && !(isNull np kv.2)) := by
  induction ps with
  | nil => simp [dictNull]
  | cons p ps ih =>
    obtain ⟨k, v⟩ := p
    simp only [dictNull, ih, List.any_cons]
    cases isNull np k <;> cases isNull np v <;> simp

theorem Dict_isNull_eq (cfg : Cfg) (f : FileS) (ps : List (Code × Code)) :
    Gen.Src.Dict_isNull cfg modelNull ps f = isNull f.np (.dict ps) := by
  unfold Gen.Src.Dict_isNull
  simp only [isNull]
  rw [dictNull_eq_any]
  simp only [modelNull]
  cases ps with
  | nil => simp
  | cons p ps =>
    have : (Int.ofNat (p :: ps).length == (0 : Int)) = false := by
      rw [beq_eq_false_iff_ne]
      intro h
      have := Int.ofNat.inj h
      simp at this
    simp only [this, Bool.false_or, Bool.false_eq_true, if_false]
    exact ite_not_b _

theorem comment_isNull_eq (cfg : Cfg) (f : FileS) (c : Str) :
    Gen.Src.comment_isNull cfg c f = isNull f.np (.comment c) := by
  simp [Gen.Src.comment_isNull, isNull]

theorem tag_isNull_model (cfg : Cfg) (f : FileS) (t : List (Str × Str)) :
    Gen.Src.tag_isNull cfg t f = isNull f.np (.tag t) := by
  unfold Gen.Src.tag_isNull
  cases t with
  | nil => simp [isNull]
  | cons p ps =>
    rw [isNull]
    simp only [List.isEmpty_cons, beq_eq_false_iff_ne]
    intro h
    have := Int.ofNat.inj h
    simp at this

/-- tokens that are not literals: package tokens are null iff the path is dot-imported or local,
    the null token is null, nothing else is -/
theorem token_isNull_eq (cfg : Cfg) (f : FileS) (typ : Go.TokTyp) (k : TokKind) (s : Str) (hk : kindOf typ = some k) :
    Gen.Src.token_isNull cfg typ s f = isNull f.np (.tok k s) := by
  unfold Gen.Src.token_isNull
  rw [isDotImport_eq, isLocal_eq]
  cases typ <;> simp [kindOf] at hk <;> subst hk <;> simp [isNull, FileS.np]

/-- literal tokens are never null -/
theorem token_isNull_lit (cfg : Cfg) (f : FileS) (typ : Go.TokTyp) (s : Str) (v : LitVal)
    (hl : typ = .literalToken ∨ typ = .literalRuneToken ∨ typ = .literalByteToken) :
    Gen.Src.token_isNull cfg typ s f = isNull f.np (.lit v) := by
  unfold Gen.Src.token_isNull
  rcases hl with h | h | h <;> subst h <;> simp [isNull]

/-- a Go nil in an item list is skipped by the callers' `c != nil` test and null in the model -/
theorem nil_is_null (f : FileS) : Go.isNil .nilc = true ∧ modelNull f .nilc = true := by
  simp [Go.isNil, modelNull, isNull]

end Tie
