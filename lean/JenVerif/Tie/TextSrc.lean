import JenVerif.Gen.SrcRegistry
import JenVerif.Lemmas.PermLemmas
/-
  Tie 1b for the text renderers `comment.render` (jen/comments.go), `tag.isNull` and `tag.render`
  (jen/tag.go): the functions TRANSLATED from the Go source (Gen.Src.comment_render,
  Gen.Src.tag_isNull, Gen.Src.tag_render; the `io.Writer` is the bytes written so far) equal the
  hand-written model functions `renderComment` and `renderTag` of Render.lean.

  The Go map of a tag is an association list in iteration order; its keys are distinct.
-/
namespace Tie
open List

/-! ### `strings.Contains(s, "\n")`, `strings.HasSuffix(s, "\n")` -/

private theorem isPrefixOf_one (c : UInt8) (t : Str) : Str.isPrefixOf [c] t = (t.head? == some c) := by
  cases t with
  | nil => simp [Str.isPrefixOf]
  | cons x xs =>
    simp only [Str.isPrefixOf, Bool.and_true, List.head?_cons, Option.some_beq_some]
    exact Bool.beq_comm

private theorem hasSuffix_one (c : UInt8) (s : Str) : Go.hasSuffix s [c] = (s.getLast? == some c) := by
  unfold Go.hasSuffix
  rw [List.reverse_singleton, isPrefixOf_one, List.head?_reverse]

private theorem hasSub_one (c : UInt8) (s : Str) : Str.hasSub s [c] = s.elem c := by
  induction s with
  | nil => rfl
  | cons x xs ih =>
    unfold Str.hasSub
    rw [ih, isPrefixOf_one]
    simp only [List.head?_cons, Option.some_beq_some, List.elem_cons]
    rw [Bool.beq_comm]
    cases (c == x) <;> rfl

/-! ### `comment.render` -/

theorem comment_render_eq (cfg : Cfg) (c : Str) (f : FileS) (out : Str) :
    Gen.Src.comment_render cfg c f out = out ++ renderComment c := by
  unfold Gen.Src.comment_render renderComment
  simp only [hasSub_one, hasSuffix_one]
  cases Str.isPrefixOf b!"//" c || Str.isPrefixOf b!"/*" c with
  | true => simp only [if_true]
  | false =>
    cases List.elem 10 c with
    | true =>
      cases c.getLast? == some 10 <;>
        simp only [if_true, if_false, Bool.not_true, Bool.not_false, Bool.false_eq_true,
          List.append_assoc, List.append_nil]
    | false => simp only [if_false, Bool.false_eq_true, List.append_assoc]

/-! ### `tag.isNull` -/

theorem tag_isNull_eq (cfg : Cfg) (t : List (Str × Str)) (f : FileS) :
    Gen.Src.tag_isNull cfg t f = t.isEmpty := by
  unfold Gen.Src.tag_isNull
  cases t with
  | nil => rfl
  | cons x xs =>
    simp only [List.length_cons, List.isEmpty_cons]
    rw [beq_eq_false_iff_ne]
    show ((xs.length + 1 : Nat) : Int) ≠ 0
    omega

/-! ### `tag.render` -/

/-- the first loop collects the keys in iteration order -/
private theorem collect_keys (t : List (Str × Str)) (acc : List Str) :
    List.foldl (fun acc kv => acc ++ [kv.1]) acc t = acc ++ t.map (·.1) := by
  induction t generalizing acc with
  | nil => simp
  | cons x xs ih => simp [ih]

/-- sorting the keys = the keys of the pairs sorted by key -/
private theorem sort_keys (t : List (Str × Str)) :
    Go.sortStrings (t.map (·.1)) = (t.mergeSort tagLe).map (·.1) := by
  unfold Go.sortStrings
  refine Perm.eq_of_pairwise (le := fun a b => Str.le a b = true)
    (fun a b _ _ h1 h2 => PermLemmas.le_antisymm h1 h2)
    (pairwise_mergeSort (le := Str.le) (fun a b c => PermLemmas.le_trans (a := a) (b := b) (c := c))
      PermLemmas.le_total (t.map (·.1))) ?_ ?_
  · exact List.pairwise_map.2
      (pairwise_mergeSort PermLemmas.tagLe_trans PermLemmas.tagLe_total t)
  · exact (mergeSort_perm _ _).trans ((mergeSort_perm t tagLe).map (·.1)).symm

/-- `m[k]` of a map with distinct keys, for an entry of the map -/
private theorem getStr_of_mem {t : List (Str × Str)} (nd : (t.map (·.1)).Nodup) {kv : Str × Str}
    (h : kv ∈ t) : Go.getStr t kv.1 = kv.2 := by
  unfold Go.getStr
  induction t with
  | nil => cases h
  | cons x xs ih =>
    obtain ⟨k', v'⟩ := x
    simp only [map_cons, nodup_cons, mem_map, not_exists, not_and] at nd
    unfold AList.lookup
    rcases mem_cons.1 h with rfl | h'
    · simp
    · have hne : (k' == kv.1) = false := by
        rw [beq_eq_false_iff_ne]
        intro e
        exact nd.1 kv h' e.symm
      simp only [hne, Bool.false_eq_true, if_false]
      exact ih nd.2 h'

private theorem join_cons (sep x : Str) (rest : List Str) :
    Str.join sep (x :: rest) = x ++ (rest.map (sep ++ ·)).flatten := by
  induction rest generalizing x with
  | nil => simp [Str.join]
  | cons y ys ih =>
    unfold Str.join
    rw [ih]
    simp [List.append_assoc]

/-- the second loop once the accumulator is non-empty: every round adds a separator -/
private theorem fold_nonempty (sep : Str) (g : Str → Str) (step : Str → Str → Str)
    (hstep : ∀ s k, s ≠ [] → step s k = s ++ sep ++ g k)
    (ks : List Str) (acc : Str) (hacc : acc ≠ []) :
    List.foldl step acc ks = acc ++ (ks.map (fun k => sep ++ g k)).flatten := by
  induction ks generalizing acc with
  | nil => simp
  | cons k ks ih =>
    rw [List.foldl_cons, hstep acc k hacc, ih]
    · simp [List.append_assoc]
    · intro e
      simp only [List.append_eq_nil_iff] at e
      exact hacc e.1.1

/-- the second loop from the empty accumulator is `Str.join` (all pieces being non-empty) -/
private theorem fold_join (sep : Str) (g : Str → Str) (step : Str → Str → Str)
    (hstep0 : ∀ k, step [] k = g k)
    (hstep : ∀ s k, s ≠ [] → step s k = s ++ sep ++ g k)
    (hg : ∀ k, g k ≠ [])
    (ks : List Str) :
    List.foldl step [] ks = Str.join sep (ks.map g) := by
  cases ks with
  | nil => rfl
  | cons k ks =>
    rw [List.foldl_cons, hstep0, fold_nonempty sep g step hstep ks (g k) (hg k), List.map_cons,
      join_cons, List.map_map]
    rfl

private theorem len_pos_iff (s : Str) : decide ((Int.ofNat s.length) > (0 : Int)) = !s.isEmpty := by
  cases s with
  | nil => rfl
  | cons x xs =>
    simp only [List.length_cons, List.isEmpty_cons, Bool.not_false, decide_eq_true_eq]
    show (0 : Int) < ((xs.length + 1 : Nat) : Int)
    omega

/-- a Go map has distinct keys -/
theorem tag_render_eq (cfg : Cfg) (t : List (Str × Str)) (f : FileS) (out : Str)
    (hk : (t.map (·.1)).Nodup) :
    Gen.Src.tag_render cfg t f out
      = out ++ (if t.isEmpty then [] else renderTag cfg.isPrint t) := by
  unfold Gen.Src.tag_render
  rw [tag_isNull_eq]
  cases hte : t.isEmpty with
  | true => simp
  | false =>
    simp only [Bool.false_eq_true, if_false]
    have h1 := collect_keys t []
    simp only [List.nil_append] at h1
    rw [h1, sort_keys]
    have h2 : ∀ ks : List Str,
        List.foldl (fun (s : Str) (k : Str) =>
          (if decide ((Int.ofNat s.length) > (0 : Int)) then s ++ b!" " else s)
            ++ (k ++ b!":" ++ Quote.quote cfg.isPrint (Go.getStr t k))) ([] : Str) ks
        = Str.join b!" " (ks.map fun k => k ++ b!":" ++ Quote.quote cfg.isPrint (Go.getStr t k)) := by
      intro ks
      apply fold_join
      · intro k; rfl
      · intro s k hs
        rw [len_pos_iff]
        cases s with
        | nil => exact absurd rfl hs
        | cons x xs => rfl
      · intro k e
        simp at e
    rw [h2, List.map_map]
    have h3 : List.map ((fun k => k ++ b!":" ++ Quote.quote cfg.isPrint (Go.getStr t k)) ∘ (·.1))
          (t.mergeSort tagLe)
        = List.map (fun kv => kv.1 ++ b!":" ++ Quote.quote cfg.isPrint kv.2) (t.mergeSort tagLe) := by
      apply List.map_congr_left
      intro kv hkv
      simp only [Function.comp]
      rw [getStr_of_mem hk (mem_mergeSort.1 hkv)]
    rw [h3]
    unfold renderTag
    simp only [List.append_assoc]

#print axioms comment_render_eq
#print axioms tag_isNull_eq
#print axioms tag_render_eq

example (cfg : Cfg) (f : FileS) (out : Str) :
    Gen.Src.tag_render cfg [(b!"json", b!"a"), (b!"db", b!"b")] f out
      = out ++ renderTag cfg.isPrint [(b!"json", b!"a"), (b!"db", b!"b")] :=
  tag_render_eq cfg _ f out (by decide)

end Tie
