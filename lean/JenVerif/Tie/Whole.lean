import JenVerif.Tie.WholeDefs
import JenVerif.Tie.TextSrc
import JenVerif.Tie.TokenSrc
/-
  Tie 1b, capstone — the knot tied.  `srcRec cfg n` (WholeDefs.lean) is the null test and the renderer
  ASSEMBLED FROM THE TRANSLATED GO METHODS, `n` levels deep.  Here: on every tree of depth `< n` it is
  the model (`Code.isNull`, `modelRec cfg` = `Code.renderS` + `Code.misuse`).

  Method: induction on `n`.  The node-level theorems (NullSrc / RenderSrc / DictSrc / TextSrc / TokenSrc) say what
  each translated method computes when its recursion parameter IS the model.  What is added here is
  CONGRUENCE of each translated method in its recursion parameter: the parameter is only ever applied
  to children of the node, `render` only to non-null children and only at `Good` file states that
  extend the start state, so a parameter that agrees with the model there (the induction hypothesis)
  gives the same result as the model.  The congruence of the loops is a generic fold lemma with an
  invariant (`foldOpt_congr`, `foldOpt_inv`).
-/
namespace Tie
open Code Refine

/-! ### generic: congruence of an error-propagating loop under an invariant -/

theorem foldOpt_congr {σ α} (P : σ → Prop) (step step' : σ → α → Option σ) :
    ∀ (xs : List α) (s : σ), P s →
    (∀ x ∈ xs, ∀ s, P s → step s x = step' s x) →
    (∀ x ∈ xs, ∀ s s', P s → step' s x = some s' → P s') →
    Go.foldOpt step s xs = Go.foldOpt step' s xs
  | [], s, _, _, _ => rfl
  | x :: xs, s, hP, h1, h2 => by
    unfold Go.foldOpt
    rw [h1 x (by simp) s hP]
    cases h : step' s x with
    | none => rfl
    | some s' =>
      exact foldOpt_congr P step step' xs s' (h2 x (by simp) s s' hP h)
        (fun y hy => h1 y (by simp [hy])) (fun y hy => h2 y (by simp [hy]))

theorem foldOpt_inv {σ α} (P : σ → Prop) (step : σ → α → Option σ) :
    ∀ (xs : List α) (s r : σ), P s →
    (∀ x ∈ xs, ∀ s s', P s → step s x = some s' → P s') →
    Go.foldOpt step s xs = some r → P r
  | [], s, r, hP, _, h => by
    simp only [Go.foldOpt, Option.some.injEq] at h
    exact h ▸ hP
  | x :: xs, s, r, hP, h2, h => by
    unfold Go.foldOpt at h
    cases hs : step s x with
    | none => rw [hs] at h; cases h
    | some s' =>
      rw [hs] at h
      exact foldOpt_inv P step xs s' r (h2 x (by simp) s s' hP hs) (fun y hy => h2 y (by simp [hy])) h

/-! ### depth and tag well-formedness of children -/

theorem depth_le_of_mem {c : Code} : ∀ {items : List Code}, c ∈ items → depth c ≤ depthL items
  | [], h => by cases h
  | d :: ds, h => by
    rw [depthL]
    rcases List.mem_cons.1 h with rfl | h'
    · exact Nat.le_max_left _ _
    · exact Nat.le_trans (depth_le_of_mem h') (Nat.le_max_right _ _)

theorem depth_le_of_memP {k v : Code} : ∀ {ps : List (Code × Code)}, (k, v) ∈ ps →
    depth k ≤ depthP ps ∧ depth v ≤ depthP ps
  | [], h => by cases h
  | (k', v') :: ps, h => by
    rw [depthP]
    rcases List.mem_cons.1 h with e | h'
    · cases e
      exact ⟨Nat.le_trans (Nat.le_max_left _ _) (Nat.le_max_left _ _),
        Nat.le_trans (Nat.le_max_right _ _) (Nat.le_max_left _ _)⟩
    · have := depth_le_of_memP h'
      exact ⟨Nat.le_trans this.1 (Nat.le_max_right _ _), Nat.le_trans this.2 (Nat.le_max_right _ _)⟩

mutual
/-- the tags of a tree are Go maps: their keys are distinct -/
def TagsOk : Code → Prop
  | .group _ items => TagsOkL items
  | .stmt items => TagsOkL items
  | .dict ps => TagsOkP ps
  | .tag t => (t.map (·.1)).Nodup
  | _ => True
def TagsOkL : List Code → Prop
  | [] => True
  | c :: cs => TagsOk c ∧ TagsOkL cs
def TagsOkP : List (Code × Code) → Prop
  | [] => True
  | (k, v) :: ps => TagsOk k ∧ TagsOk v ∧ TagsOkP ps
end

theorem tagsOk_of_mem {c : Code} : ∀ {items : List Code}, TagsOkL items → c ∈ items → TagsOk c
  | [], _, h => by cases h
  | d :: ds, ht, h => by
    rw [TagsOkL] at ht
    rcases List.mem_cons.1 h with rfl | h'
    · exact ht.1
    · exact tagsOk_of_mem ht.2 h'

theorem tagsOk_of_memP {k v : Code} : ∀ {ps : List (Code × Code)}, TagsOkP ps → (k, v) ∈ ps →
    TagsOk k ∧ TagsOk v
  | [], _, h => by cases h
  | (k', v') :: ps, ht, h => by
    rw [TagsOkP] at ht
    rcases List.mem_cons.1 h with e | h'
    · cases e; exact ⟨ht.1, ht.2.1⟩
    · exact tagsOk_of_memP ht.2.2 h'

/-! ### the null test -/

theorem any_congr_mem {α} (p q : α → Bool) : ∀ (l : List α), (∀ x ∈ l, p x = q x) → l.any p = l.any q
  | [], _ => rfl
  | x :: xs, h => by
    rw [List.any_cons, List.any_cons, h x (by simp), any_congr_mem p q xs (fun y hy => h y (by simp [hy]))]

theorem Group_isNullItems_congr (cfg : Cfg) (r r' : FileS → Code → Bool) (g : GInfo) (items : List Code) (f : FileS)
    (h : ∀ c ∈ items, r f c = r' f c) :
    Gen.Src.Group_isNullItems cfg r g items f = Gen.Src.Group_isNullItems cfg r' g items f := by
  unfold Gen.Src.Group_isNullItems
  rw [any_congr_mem _ _ items (fun c hc => by rw [h c hc])]

theorem foldl_congr_mem {σ α} (step step' : σ → α → σ) : ∀ (xs : List α) (s : σ),
    (∀ x ∈ xs, ∀ s, step s x = step' s x) → List.foldl step s xs = List.foldl step' s xs
  | [], _, _ => rfl
  | x :: xs, s, h => by
    rw [List.foldl, List.foldl, h x (by simp) s]
    exact foldl_congr_mem step step' xs _ (fun y hy => h y (by simp [hy]))

theorem Group_countItems_congr (cfg : Cfg) (r r' : FileS → Code → Bool) (g : GInfo) (items : List Code) (f : FileS)
    (h : ∀ c ∈ items, r f c = r' f c) :
    Gen.Src.Group_countItems cfg r g items f = Gen.Src.Group_countItems cfg r' g items f := by
  unfold Gen.Src.Group_countItems
  exact foldl_congr_mem _ _ items _ (fun c hc n => by simp only [h c hc])

theorem Group_isNull_congr (cfg : Cfg) (r r' : FileS → Code → Bool) (g : GInfo) (items : List Code) (f : FileS)
    (h : ∀ c ∈ items, r f c = r' f c) :
    Gen.Src.Group_isNull cfg r g items f = Gen.Src.Group_isNull cfg r' g items f := by
  unfold Gen.Src.Group_isNull
  rw [Group_isNullItems_congr cfg r r' g items f h]

theorem Statement_isNull_congr (cfg : Cfg) (r r' : FileS → Code → Bool) (items : List Code) (f : FileS)
    (h : ∀ c ∈ items, r f c = r' f c) :
    Gen.Src.Statement_isNull cfg r items f = Gen.Src.Statement_isNull cfg r' items f := by
  unfold Gen.Src.Statement_isNull
  rw [any_congr_mem _ _ items (fun c hc => by rw [h c hc])]

theorem Dict_isNull_congr (cfg : Cfg) (r r' : FileS → Code → Bool) (ps : List (Code × Code)) (f : FileS)
    (h : ∀ kv ∈ ps, r f kv.1 = r' f kv.1 ∧ r f kv.2 = r' f kv.2) :
    Gen.Src.Dict_isNull cfg r ps f = Gen.Src.Dict_isNull cfg r' ps f := by
  unfold Gen.Src.Dict_isNull
  simp only [any_congr_mem (fun (kv : Code × Code) => (!(r f kv.1)) && (!(r f kv.2)))
    (fun kv => (!(r' f kv.1)) && (!(r' f kv.2))) ps (fun kv hkv => by rw [(h kv hkv).1, (h kv hkv).2])]

theorem kindOf_typOf (k : TokKind) : kindOf (typOf k) = some k := by cases k <;> rfl

/-- the null test assembled from the six translated isNull methods is the model's -/
theorem srcRec_null_ind (cfg : Cfg) : ∀ (n : Nat) (c : Code), depth c < n → ∀ f : FileS,
    (srcRec cfg n).null f c = Code.isNull f.np c
  | 0, _, hn, _ => absurd hn (Nat.not_lt_zero _)
  | n + 1, c, hn, f => by
    cases c with
    | nilc => simp [srcRec, isNull]
    | tok k s => exact token_isNull_eq cfg f (typOf k) k s (kindOf_typOf k)
    | lit v => exact token_isNull_lit cfg f .literalToken [] v (Or.inl rfl)
    | group g items =>
      rw [depth] at hn
      show Gen.Src.Group_isNull cfg (srcRec cfg n).null g items f = _
      rw [Group_isNull_congr cfg _ modelNull g items f
        (fun c hc => srcRec_null_ind cfg n c (by have := depth_le_of_mem hc; omega) f)]
      exact Group_isNull_eq cfg f g items
    | stmt items =>
      rw [depth] at hn
      show Gen.Src.Statement_isNull cfg (srcRec cfg n).null items f = _
      rw [Statement_isNull_congr cfg _ modelNull items f
        (fun c hc => srcRec_null_ind cfg n c (by have := depth_le_of_mem hc; omega) f)]
      exact Statement_isNull_eq cfg f items
    | dict ps =>
      rw [depth] at hn
      show Gen.Src.Dict_isNull cfg (srcRec cfg n).null ps f = _
      rw [Dict_isNull_congr cfg _ modelNull ps f (fun kv hkv => by
        have := depth_le_of_memP (k := kv.1) (v := kv.2) hkv
        exact ⟨srcRec_null_ind cfg n kv.1 (by omega) f, srcRec_null_ind cfg n kv.2 (by omega) f⟩)]
      exact Dict_isNull_eq cfg f ps
    | tag t => exact tag_isNull_model cfg f t
    | comment t => exact comment_isNull_eq cfg f t

/-! ### what the model's `render` does to the state -/

theorem modelRec_null (cfg : Cfg) (f : FileS) (c : Code) : (modelRec cfg).null f c = isNull f.np c := rfl

theorem modelRec_register (cfg : Cfg) : (modelRec cfg).register = Registry.register cfg := rfl

theorem modelRec_render_ext (cfg : Cfg) {f : FileS} (hg : Good cfg f) {c : Code} (hn : isNull f.np c = false)
    {w : Str} {p : Option Code} {t : Str × FileS} (h : (modelRec cfg).render f w p c = some t) : Ext f t.2 := by
  simp only [modelRec] at h
  split at h
  · cases h
  · cases h
    exact renderS_ext cfg f hg p c hn

/-- what the congruence lemmas ask of a recursion parameter on a set `S` of codes (the children) -/
structure Agrees (cfg : Cfg) (r : Go.Rec) (S : Code → Prop) : Prop where
  null : ∀ c, S c → ∀ f, r.null f c = isNull f.np c
  render : ∀ c, S c → ∀ f w p, Good cfg f → isNull f.np c = false →
    r.render f w p c = (modelRec cfg).render f w p c
  register : r.register = Registry.register cfg

/-! ### Statement.render -/

def stmtStepR (r : Go.Rec) (st : FileS × Bool × Str × Option Code) (c : Code) :
    Option (FileS × Bool × Str × Option Code) :=
  if Go.isNil c || r.null st.1 c then some (st.1, st.2.1, st.2.2.1, some c)
  else
    match r.render st.1 (if !st.2.1 then st.2.2.1 ++ b!" " else st.2.2.1) st.2.2.2 c with
    | none => none
    | some t => some (t.2, false, t.1, some c)

theorem Statement_render_shapeR (cfg : Cfg) (r : Go.Rec) (f : FileS) (items : List Code) (w : Str) :
    Gen.Src.Statement_render cfg r items f w =
      stmtFin (Go.foldOpt (stmtStepR r) (f, true, w, none) items) := rfl

theorem Statement_render_congr (cfg : Cfg) (r : Go.Rec) (S : Code → Prop) (ha : Agrees cfg r S)
    (items : List Code) (hS : ∀ c ∈ items, S c) (f : FileS) (hg : Good cfg f) (w : Str) :
    Gen.Src.Statement_render cfg r items f w = Gen.Src.Statement_render cfg (modelRec cfg) items f w := by
  rw [Statement_render_shapeR, Statement_render_shapeR]
  congr 1
  apply foldOpt_congr (fun st => Good cfg st.1)
  · exact hg
  · intro c hc st hP
    simp only [stmtStepR, ha.null c (hS c hc), modelRec_null]
    by_cases hn : isNull st.1.np c = true
    · simp only [hn, Bool.or_true, if_true]
    · have hn' : isNull st.1.np c = false := by simpa using hn
      simp only [hn', ha.render c (hS c hc) _ _ _ hP hn']
  · intro c hc st st' hP h
    simp only [stmtStepR, modelRec_null, isNil_or_isNull] at h
    by_cases hn : isNull st.1.np c = true
    · simp only [hn, if_true, Option.some.injEq] at h
      cases h
      exact hP
    · have hn' : isNull st.1.np c = false := by simpa using hn
      simp only [hn', Bool.false_eq_true, if_false] at h
      split at h
      · cases h
      · rename_i t ht
        cases h
        exact good_of_ext hP (modelRec_render_ext cfg hP hn' ht)

/-! ### Group.renderItems, Group.render -/

def itemStepR (r : Go.Rec) (g : GInfo) (big : FileS → Bool) (st : FileS × Bool × Str) (c : Code) :
    Option (FileS × Bool × Str) :=
  let f0 := if Go.isToken c && (Go.tokTyp c == Go.TokTyp.packageToken)
    then (r.register st.1 (Go.tokContent c)).2 else st.1
  if Go.isNil c || r.null f0 c then some (f0, st.2.1, st.2.2)
  else if (g.name == b!"values") && (Go.isDict c && big f0) then none
  else
    match r.render f0
      (if g.multi then (if !st.2.1 && g.sep != ([] : Str) then st.2.2 ++ g.sep else st.2.2) ++ b!"\n"
        else (if !st.2.1 && g.sep != ([] : Str) then st.2.2 ++ g.sep else st.2.2)) none c with
    | none => none
    | some t => some (t.2, false, t.1)

theorem Group_renderItems_shapeR (cfg : Cfg) (r : Go.Rec) (f : FileS) (g : GInfo) (items : List Code) (w : Str) :
    Gen.Src.Group_renderItems cfg r g items f w =
      itemFin (Go.foldOpt (itemStepR r g
        (fun f' => decide (Gen.Src.Group_countItems cfg r.null g items f' > (1 : Int)))) (f, true, w) items) := rfl

theorem Group_renderItems_congr (cfg : Cfg) (r : Go.Rec) (S : Code → Prop) (ha : Agrees cfg r S)
    (g : GInfo) (items : List Code) (hS : ∀ c ∈ items, S c) (f : FileS) (hg : Good cfg f) (w : Str) :
    Gen.Src.Group_renderItems cfg r g items f w = Gen.Src.Group_renderItems cfg (modelRec cfg) g items f w := by
  rw [Group_renderItems_shapeR, Group_renderItems_shapeR]
  congr 1
  apply foldOpt_congr (fun st => Good cfg st.1)
  · exact hg
  · intro c hc st hP
    have hg0 := good_of_ext hP (preReg_ext cfg st.1 hP c)
    simp only [itemStepR, ha.register, modelRec_register, preReg_eq, ha.null c (hS c hc), modelRec_null,
      Group_countItems_congr cfg r.null (modelRec cfg).null g items _ (fun c' hc' => ha.null c' (hS c' hc') _)]
    by_cases hn : isNull (preReg cfg st.1 c).np c = true
    · simp only [hn, Bool.or_true, if_true]
    · have hn' : isNull (preReg cfg st.1 c).np c = false := by simpa using hn
      simp only [hn', ha.render c (hS c hc) _ _ _ hg0 hn']
  · intro c hc st st' hP h
    have hg0 := good_of_ext hP (preReg_ext cfg st.1 hP c)
    simp only [itemStepR, modelRec_register, preReg_eq, modelRec_null, isNil_or_isNull] at h
    by_cases hn : isNull (preReg cfg st.1 c).np c = true
    · simp only [hn, if_true, Option.some.injEq] at h
      cases h
      exact hg0
    · have hn' : isNull (preReg cfg st.1 c).np c = false := by simpa using hn
      simp only [hn', Bool.false_eq_true, if_false] at h
      split at h
      · cases h
      · split at h
        · cases h
        · rename_i t ht
          cases h
          exact good_of_ext hg0 (modelRec_render_ext cfg hg0 hn' ht)

theorem Group_render_congr (cfg : Cfg) (r : Go.Rec) (S : Code → Prop) (ha : Agrees cfg r S)
    (g : GInfo) (items : List Code) (hS : ∀ c ∈ items, S c) (f : FileS) (hg : Good cfg f) (w : Str)
    (prev : Option Code) :
    Gen.Src.Group_render cfg r g items f w prev = Gen.Src.Group_render cfg (modelRec cfg) g items f w prev := by
  unfold Gen.Src.Group_render
  have h1 : Gen.Src.Group_isNullItems cfg r.null g items f =
      Gen.Src.Group_isNullItems cfg (modelRec cfg).null g items f :=
    Group_isNullItems_congr cfg _ _ g items f (fun c hc => ha.null c (hS c hc) f)
  have h2 := Group_renderItems_congr cfg r S ha g items hS f hg
  simp only [h1, h2]

/-! ### Dict.render -/

def dStep1R (r : Go.Rec) (st : FileS × List KV) (kv : Code × Code) : Option (FileS × List KV) :=
  if r.null st.1 kv.1 || r.null st.1 kv.2 then some (st.1, st.2)
  else
    match r.render st.1 [] none kv.1 with
    | none => none
    | some t60 =>
      match r.render t60.2 [] none kv.2 with
      | none => none
      | some t61 => some (t61.2, st.2 ++ [(t60.1, t61.1, kv.1, kv.2)])

def dStep2R (r : Go.Rec) (n : Nat) (st : FileS × Bool × Str) (key : KV) : Option (FileS × Bool × Str) :=
  match r.render st.1
      (if st.2.1 && decide ((Int.ofNat n) > (1 : Int)) then (false, st.2.2 ++ ([10] : Str)) else (st.2.1, st.2.2)).2
      none key.2.2.1 with
  | none => none
  | some t65 =>
    match r.render t65.2 (t65.1 ++ b!":") none key.2.2.2 with
    | none => none
    | some t66 =>
      some (t66.2,
        (if st.2.1 && decide ((Int.ofNat n) > (1 : Int)) then (false, st.2.2 ++ ([10] : Str)) else (st.2.1, st.2.2)).1,
        if decide ((Int.ofNat n) > (1 : Int)) then t66.1 ++ ([44, 10] : Str) else t66.1)

def dictFinR (r : Go.Rec) (w : Str) : Option (FileS × List KV) → Option (Str × FileS)
  | none => none
  | some t => fin2 (Go.foldOpt (dStep2R r (Go.sortKV t.2).length) (t.1, true, w) (Go.sortKV t.2))

theorem Dict_render_shapeR (cfg : Cfg) (r : Go.Rec) (f : FileS) (ps : List (Code × Code)) (w : Str) :
    Gen.Src.Dict_render cfg r ps f w =
      dictFinR r w (Go.foldOpt (dStep1R r) (f, []) ps) := rfl

/-- invariant of both loops of `Dict.render`: the state is `Good` and extends the start state `f0`;
    the collected tuples hold children that are non-null (at `f0`, hence at every extension) -/
def DictInv (cfg : Cfg) (S : Code → Prop) (f0 : FileS) (f : FileS) (keys : List KV) : Prop :=
  Good cfg f ∧ Ext f0 f ∧
  ∀ t ∈ keys, S t.2.2.1 ∧ S t.2.2.2 ∧ isNull f0.np t.2.2.1 = false ∧ isNull f0.np t.2.2.2 = false

/-- two consecutive `render` calls of the model on non-null codes, from a `Good` state -/
theorem modelRec_render2 (cfg : Cfg) {f0 f : FileS} (hg : Good cfg f) (he : Ext f0 f) {k v : Code}
    (hk : isNull f0.np k = false) (hv : isNull f0.np v = false) :
    isNull f.np k = false ∧
    ∀ w p t, (modelRec cfg).render f w p k = some t →
      Good cfg t.2 ∧ Ext f0 t.2 ∧ isNull t.2.np v = false ∧
      ∀ w' p' t', (modelRec cfg).render t.2 w' p' v = some t' → Good cfg t'.2 ∧ Ext f0 t'.2 := by
  have hk' : isNull f.np k = false := by rw [isNull_ext he]; exact hk
  refine ⟨hk', ?_⟩
  intro w p t ht
  have he1 := modelRec_render_ext cfg hg hk' ht
  have hg1 := good_of_ext hg he1
  have hv' : isNull t.2.np v = false := by rw [isNull_ext (he.trans he1)]; exact hv
  refine ⟨hg1, he.trans he1, hv', ?_⟩
  intro w' p' t' ht'
  have he2 := modelRec_render_ext cfg hg1 hv' ht'
  exact ⟨good_of_ext hg1 he2, (he.trans he1).trans he2⟩

theorem dStep1_eq (cfg : Cfg) (r : Go.Rec) (S : Code → Prop) (ha : Agrees cfg r S)
    (kv : Code × Code) (hk : S kv.1) (hv : S kv.2) (st : FileS × List KV) (hg : Good cfg st.1) :
    dStep1R r st kv = dStep1R (modelRec cfg) st kv := by
  simp only [dStep1R, ha.null _ hk, ha.null _ hv, modelRec_null]
  by_cases hn : (isNull st.1.np kv.1 || isNull st.1.np kv.2) = true
  · simp only [hn, if_true]
  · have hn' : (isNull st.1.np kv.1 || isNull st.1.np kv.2) = false := by simpa using hn
    have hkn : isNull st.1.np kv.1 = false := by
      cases h : isNull st.1.np kv.1 <;> simp_all
    have hvn : isNull st.1.np kv.2 = false := by
      cases h : isNull st.1.np kv.2 <;> simp_all
    have h2 := (modelRec_render2 cfg hg (Ext.refl st.1) hkn hvn).2
    simp only [hn', Bool.false_eq_true, if_false, ha.render _ hk _ _ _ hg hkn]
    cases h60 : (modelRec cfg).render st.1 [] none kv.1 with
    | none => rfl
    | some t60 =>
      have := h2 _ _ _ h60
      simp only [ha.render _ hv _ _ _ this.1 this.2.2.1]

theorem dStep1_inv (cfg : Cfg) (S : Code → Prop) (f0 : FileS)
    (kv : Code × Code) (hk : S kv.1) (hv : S kv.2) (st st' : FileS × List KV)
    (hP : DictInv cfg S f0 st.1 st.2) (h : dStep1R (modelRec cfg) st kv = some st') :
    DictInv cfg S f0 st'.1 st'.2 := by
  obtain ⟨hg, he, hall⟩ := hP
  simp only [dStep1R, modelRec_null] at h
  by_cases hn : (isNull st.1.np kv.1 || isNull st.1.np kv.2) = true
  · simp only [hn, if_true, Option.some.injEq] at h
    cases h
    exact ⟨hg, he, hall⟩
  · have hn' : (isNull st.1.np kv.1 || isNull st.1.np kv.2) = false := by simpa using hn
    have hkn : isNull st.1.np kv.1 = false := by
      cases h : isNull st.1.np kv.1 <;> simp_all
    have hvn : isNull st.1.np kv.2 = false := by
      cases h : isNull st.1.np kv.2 <;> simp_all
    have hkn0 : isNull f0.np kv.1 = false := by rw [← isNull_ext he]; exact hkn
    have hvn0 : isNull f0.np kv.2 = false := by rw [← isNull_ext he]; exact hvn
    have h2 := (modelRec_render2 cfg hg he hkn0 hvn0).2
    simp only [hn', Bool.false_eq_true, if_false] at h
    split at h
    · cases h
    · rename_i t60 h60
      have h3 := h2 _ _ _ h60
      split at h
      · cases h
      · rename_i t61 h61
        have h4 := h3.2.2.2 _ _ _ h61
        cases h
        refine ⟨h4.1, h4.2, ?_⟩
        intro t ht
        rcases List.mem_append.1 ht with ht | ht
        · exact hall t ht
        · simp only [List.mem_singleton] at ht
          subst ht
          exact ⟨hk, hv, hkn0, hvn0⟩

theorem dStep2_eq (cfg : Cfg) (r : Go.Rec) (S : Code → Prop) (ha : Agrees cfg r S) (n : Nat) (f0 : FileS)
    (t : KV) (ht : S t.2.2.1 ∧ S t.2.2.2 ∧ isNull f0.np t.2.2.1 = false ∧ isNull f0.np t.2.2.2 = false)
    (st : FileS × Bool × Str) (hg : Good cfg st.1) (he : Ext f0 st.1) :
    dStep2R r n st t = dStep2R (modelRec cfg) n st t := by
  obtain ⟨hk, hv, hkn, hvn⟩ := ht
  have h2 := modelRec_render2 cfg hg he hkn hvn
  simp only [dStep2R, ha.render _ hk _ _ _ hg h2.1]
  split
  · rfl
  · rename_i t65 h65
    have := h2.2 _ _ _ h65
    simp only [ha.render _ hv _ _ _ this.1 this.2.2.1]

theorem dStep2_inv (cfg : Cfg) (n : Nat) (f0 : FileS)
    (t : KV) (ht : isNull f0.np t.2.2.1 = false ∧ isNull f0.np t.2.2.2 = false)
    (st st' : FileS × Bool × Str) (hg : Good cfg st.1) (he : Ext f0 st.1)
    (h : dStep2R (modelRec cfg) n st t = some st') : Good cfg st'.1 ∧ Ext f0 st'.1 := by
  have h2 := modelRec_render2 cfg hg he ht.1 ht.2
  simp only [dStep2R] at h
  split at h
  · cases h
  · rename_i t65 h65
    have h3 := h2.2 _ _ _ h65
    split at h
    · cases h
    · rename_i t66 h66
      have h4 := h3.2.2.2 _ _ _ h66
      cases h
      exact h4

theorem Dict_render_congr (cfg : Cfg) (r : Go.Rec) (S : Code → Prop) (ha : Agrees cfg r S)
    (ps : List (Code × Code)) (hS : ∀ kv ∈ ps, S kv.1 ∧ S kv.2) (f : FileS) (hg : Good cfg f) (w : Str) :
    Gen.Src.Dict_render cfg r ps f w = Gen.Src.Dict_render cfg (modelRec cfg) ps f w := by
  rw [Dict_render_shapeR, Dict_render_shapeR]
  have hP0 : DictInv cfg S f f (f, ([] : List KV)).2 := ⟨hg, Ext.refl f, by intro t ht; cases ht⟩
  have e1 : Go.foldOpt (dStep1R r) (f, []) ps = Go.foldOpt (dStep1R (modelRec cfg)) (f, []) ps := by
    apply foldOpt_congr (fun st => DictInv cfg S f st.1 st.2)
    · exact hP0
    · intro kv hkv st hP
      exact dStep1_eq cfg r S ha kv (hS kv hkv).1 (hS kv hkv).2 st hP.1
    · intro kv hkv st st' hP h
      exact dStep1_inv cfg S f kv (hS kv hkv).1 (hS kv hkv).2 st st' hP h
  rw [e1]
  cases hres : Go.foldOpt (dStep1R (modelRec cfg)) (f, []) ps with
  | none => rfl
  | some t =>
    have hP : DictInv cfg S f t.1 t.2 :=
      foldOpt_inv (fun st => DictInv cfg S f st.1 st.2) _ ps (f, []) t hP0
        (fun kv hkv st st' hP h => dStep1_inv cfg S f kv (hS kv hkv).1 (hS kv hkv).2 st st' hP h) hres
    simp only [dictFinR]
    congr 1
    apply foldOpt_congr (fun st => Good cfg st.1 ∧ Ext f st.1)
    · exact ⟨hP.1, hP.2.1⟩
    · intro key hkey st hst
      exact dStep2_eq cfg r S ha _ f key (hP.2.2 key (List.mem_mergeSort.mp hkey)) st hst.1 hst.2
    · intro key hkey st st' hst h
      have := hP.2.2 key (List.mem_mergeSort.mp hkey)
      exact dStep2_inv cfg _ f key ⟨this.2.2.1, this.2.2.2⟩ st st' hst.1 hst.2 h

/-! ### the knot -/

theorem srcRec_register (cfg : Cfg) : ∀ n, (srcRec cfg n).register = Registry.register cfg
  | 0 => rfl
  | _ + 1 => rfl

theorem modelRec_render_stmt_prev (cfg : Cfg) (f : FileS) (w : Str) (prev : Option Code) (items : List Code) :
    (modelRec cfg).render f w prev (.stmt items) = (modelRec cfg).render f w none (.stmt items) := by
  simp only [modelRec, renderS]

theorem modelRec_render_dict_prev (cfg : Cfg) (f : FileS) (w : Str) (prev : Option Code) (ps : List (Code × Code)) :
    (modelRec cfg).render f w prev (.dict ps) = (modelRec cfg).render f w none (.dict ps) := by
  simp only [modelRec, renderS]

/-- strongest form: the only code on which the assembled renderer and the model differ is the
    empty tag (null in both; `tag.render` returns at once, the model's `renderS` would write an
    empty literal — it is never rendered, being null) -/
theorem srcRec_render_strong (cfg : Cfg) : ∀ (n : Nat) (c : Code), depth c < n → TagsOk c → c ≠ .tag [] →
    ∀ (f : FileS), Good cfg f → ∀ (w : Str) (prev : Option Code),
    (srcRec cfg n).render f w prev c = (modelRec cfg).render f w prev c
  | 0, _, hn, _, _, _, _, _, _ => absurd hn (Nat.not_lt_zero _)
  | n + 1, c, hn, ht, hc, f, hg, w, prev => by
    have ha : Agrees cfg (srcRec cfg n) (fun c => depth c < n ∧ TagsOk c) :=
      ⟨fun c hc f => srcRec_null_ind cfg n c hc.1 f,
       fun c hc f w p hg hnn => srcRec_render_strong cfg n c hc.1 hc.2
         (by intro e; subst e; simp [isNull] at hnn) f hg w p,
       srcRec_register cfg n⟩
    cases c with
    | nilc => simp [srcRec, modelRec, misuse, renderS]
    | tok k s =>
      show Gen.Src.token_render cfg (srcRec cfg n) (Go.tokTyp (.tok k s)) (Go.dynOf (.tok k s)) f w = _
      rw [token_render_congr cfg (srcRec cfg n) (modelRec cfg) (srcRec_register cfg n),
        token_render_eq cfg _ (Or.inl ⟨k, s, rfl⟩) f w prev]
      simp [modelRec, misuse]
    | lit v =>
      show Gen.Src.token_render cfg (srcRec cfg n) (Go.tokTyp (.lit v)) (Go.dynOf (.lit v)) f w = _
      rw [token_render_congr cfg (srcRec cfg n) (modelRec cfg) (srcRec_register cfg n),
        token_render_eq cfg _ (Or.inr ⟨v, rfl⟩) f w prev]
      simp [modelRec, misuse]
    | group g items =>
      rw [depth] at hn
      rw [TagsOk] at ht
      show Gen.Src.Group_render cfg (srcRec cfg n) g items f w prev = _
      rw [Group_render_congr cfg _ _ ha g items
        (fun c hc => ⟨by have := depth_le_of_mem hc; omega, tagsOk_of_mem ht hc⟩) f hg w prev]
      exact Group_render_eq cfg f hg g items w prev
    | stmt items =>
      rw [depth] at hn
      rw [TagsOk] at ht
      show Gen.Src.Statement_render cfg (srcRec cfg n) items f w = _
      rw [Statement_render_congr cfg _ _ ha items
        (fun c hc => ⟨by have := depth_le_of_mem hc; omega, tagsOk_of_mem ht hc⟩) f hg w,
        modelRec_render_stmt_prev]
      exact Statement_render_eq cfg f hg items w
    | dict ps =>
      rw [depth] at hn
      rw [TagsOk] at ht
      show Gen.Src.Dict_render cfg (srcRec cfg n) ps f w = _
      rw [Dict_render_congr cfg _ _ ha ps (fun kv hkv => by
          have hd := depth_le_of_memP (k := kv.1) (v := kv.2) hkv
          have hto := tagsOk_of_memP (k := kv.1) (v := kv.2) ht hkv
          exact ⟨⟨by omega, hto.1⟩, ⟨by omega, hto.2⟩⟩) f hg w,
        modelRec_render_dict_prev]
      exact Dict_render_eq cfg f hg ps w
    | tag t =>
      rw [TagsOk] at ht
      show some (Gen.Src.tag_render cfg t f w, f) = _
      rw [tag_render_eq cfg t f w ht]
      cases t with
      | nil => exact absurd rfl hc
      | cons x xs => simp [modelRec, misuse, renderS]
    | comment t =>
      show some (Gen.Src.comment_render cfg t f w, f) = _
      rw [comment_render_eq]
      simp [modelRec, misuse, renderS]

/-- the renderer assembled from the translated render methods is the model's: same bytes, same File
    state, `none` exactly when the model's `misuse` holds — for every tree, at any sufficient depth.
    Side condition: `c` is non-null, or a composite (Group / Statement / Dict, null or not). -/
theorem srcRec_render (cfg : Cfg) (c : Code) (n : Nat) (hn : depth c < n) (ht : TagsOk c) (f : FileS)
    (hc : Code.isNull f.np c = false ∨ (∃ g items, c = .group g items) ∨ (∃ items, c = .stmt items) ∨
      (∃ ps, c = .dict ps))
    (hg : Good cfg f) (w : Str) (prev : Option Code) :
    (srcRec cfg n).render f w prev c = (modelRec cfg).render f w prev c := by
  refine srcRec_render_strong cfg n c hn ht ?_ f hg w prev
  intro e
  subst e
  rcases hc with h | ⟨_, _, h⟩ | ⟨_, h⟩ | ⟨_, h⟩
  · simp [isNull] at h
  · cases h
  · cases h
  · cases h

/-- the null test assembled from the six translated isNull methods is the model's -/
theorem srcRec_null (cfg : Cfg) (c : Code) (n : Nat) (hn : depth c < n) (f : FileS) :
    (srcRec cfg n).null f c = Code.isNull f.np c := srcRec_null_ind cfg n c hn f

/-- in particular at the root of a File (`.group fileInfo items`) or of any Group / Statement,
    with exactly the nesting the tree has -/
theorem srcRec_render_group (cfg : Cfg) (g : GInfo) (items : List Code) (ht : TagsOk (.group g items))
    (f : FileS) (hg : Good cfg f) (w : Str) (prev : Option Code) :
    (srcRec cfg (depth (.group g items) + 1)).render f w prev (.group g items) =
      (modelRec cfg).render f w prev (.group g items) :=
  srcRec_render cfg _ _ (Nat.lt_succ_self _) ht f (Or.inr (Or.inl ⟨g, items, rfl⟩)) hg w prev

theorem srcRec_render_stmt (cfg : Cfg) (items : List Code) (ht : TagsOk (.stmt items))
    (f : FileS) (hg : Good cfg f) (w : Str) (prev : Option Code) :
    (srcRec cfg (depth (.stmt items) + 1)).render f w prev (.stmt items) =
      (modelRec cfg).render f w prev (.stmt items) :=
  srcRec_render cfg _ _ (Nat.lt_succ_self _) ht f (Or.inr (Or.inr (Or.inl ⟨items, rfl⟩))) hg w prev

#print axioms Tie.srcRec_null
#print axioms Tie.srcRec_render_strong
#print axioms Tie.srcRec_render

/-! ### the hypotheses are satisfiable -/

/-- a Statement holding a Group (with a package token and a tag), a Dict and an empty tag -/
def exTree : Code :=
  .stmt [
    .group ⟨b!"parens", b!"(", b!")", b!",", false⟩
      [.tok .pkg b!"fmt", .tok .ident b!"x", .tag [(b!"json", b!"a"), (b!"db", b!"b")], .tag []],
    .dict [(.lit (.str b!"k"), .stmt [.tok .ident b!"v", .comment b!"c"])],
    .nilc]

theorem exTree_depth : depth exTree < 4 := by
  simp [exTree, depth, depthL, depthP]

theorem exTree_tagsOk : TagsOk exTree := by
  simp only [exTree, TagsOk, TagsOkL, TagsOkP, and_true, true_and]
  decide

theorem good0 : Good RegistryInv.cfg0 RegistryInv.f0 :=
  RegistryGood.good_of_hintsOk RegistryInv.hintsOk_f0 RegistryInv.stdOk_cfg0

example (f : FileS) : (srcRec RegistryInv.cfg0 4).null f exTree = Code.isNull f.np exTree :=
  srcRec_null _ _ 4 exTree_depth f

example (w : Str) (prev : Option Code) :
    (srcRec RegistryInv.cfg0 4).render RegistryInv.f0 w prev exTree =
      (modelRec RegistryInv.cfg0).render RegistryInv.f0 w prev exTree :=
  srcRec_render _ _ 4 exTree_depth exTree_tagsOk _ (Or.inr (Or.inr (Or.inl ⟨_, rfl⟩))) good0 w prev

/-- the side condition also holds in its first form: the example tree is not null -/
example : Code.isNull RegistryInv.f0.np exTree = false := by
  simp [exTree, isNull, allNull]

/-- and the rendering of the example succeeds (no misuse): the equation is between `some` values -/
example : ((srcRec RegistryInv.cfg0 4).render RegistryInv.f0 [] none exTree).isSome = true := by
  rw [srcRec_render _ _ 4 exTree_depth exTree_tagsOk _ (Or.inr (Or.inr (Or.inl ⟨_, rfl⟩))) good0]
  simp [modelRec, exTree, misuse, misuseList, misuseItems, misusePairs, isNull, allNull, dictNull, isDict]

end Tie
