import JenVerif.Tie.RenderSrc
/-
  Tie 1b, eighth group — `Statement.previous`, TRANSLATED from the Go source (the search loop with
  `break`, the guarded index expression), and what it returns.

  `Group.render` asks its context statement `s.previous(g)`: the item before the FIRST occurrence of
  the pointer `g` in `s`.  The translated `Group.render` / `Statement.render` (Tie/RenderSrc) pass the
  ANSWER — the raw previous item carried by the loop of `Statement.render` — instead of the question.
  This file closes that step: for every statement `pre ++ g :: post` in which no item of `pre` IS `g`
  (pointer comparison, the parameter `same`), the translated `previous` returns exactly the last
  item of `pre` (`none` when `g` is the first item) — the value the loop carries when it reaches `g`.
  What remains an assumption is only that a `*Group` does not occur twice in one statement (it can
  only if a caller captures the pointer handed to a callback and inserts it again; DESIGN §10.7).
  The index expression `(*s)[index-1]` is in range whenever it is evaluated.
-/
namespace Tie

theorem firstIndexFrom_append {α} (p : α → Bool) (d : Int) (pre : List α) (g : α) (post : List α)
    (hpre : ∀ x ∈ pre, p x = false) (hg : p g = true) (i : Int) :
    Go.firstIndexFrom p d i (pre ++ g :: post) = i + pre.length := by
  induction pre generalizing i with
  | nil => simp [Go.firstIndexFrom, hg]
  | cons x xs ih =>
    have hx : p x = false := hpre x (by simp)
    simp only [List.cons_append, Go.firstIndexFrom, hx, Bool.false_eq_true, if_false]
    rw [ih (fun y hy => hpre y (by simp [hy]))]
    simp only [List.length_cons]
    omega

theorem firstIndexFrom_none {α} (p : α → Bool) (d : Int) (xs : List α) (h : ∀ x ∈ xs, p x = false) (i : Int) :
    Go.firstIndexFrom p d i xs = d := by
  induction xs generalizing i with
  | nil => rfl
  | cons x xs ih =>
    simp only [Go.firstIndexFrom, h x (by simp), Bool.false_eq_true, if_false]
    exact ih (fun y hy => h y (by simp [hy])) _

/-- the translated `previous` on a statement in which the value occurs first at position `pre.length` -/
theorem Statement_previous_eq (cfg : Cfg) (same : Code → Bool) (pre : List Code) (g : Code) (post : List Code)
    (hpre : ∀ x ∈ pre, same x = false) (hg : same g = true) :
    Gen.Src.Statement_previous cfg (pre ++ g :: post) same = pre.getLast? := by
  simp only [Gen.Src.Statement_previous, Go.firstIndexOr, firstIndexFrom_append same _ pre g post hpre hg 0]
  cases hp : pre.length with
  | zero =>
    have : pre = [] := List.length_eq_zero_iff.mp hp
    subst this
    simp
  | succ n =>
    have hpos : decide ((0 : Int) + ((n + 1 : Nat) : Int) > 0) = true := by
      simp only [decide_eq_true_eq]; omega
    simp only [hpos, if_true, Go.itemAt]
    have hlt : ¬ ((0 : Int) + ((n + 1 : Nat) : Int) - 1 < 0) := by omega
    simp only [hlt, if_false]
    have hidx : ((0 : Int) + ((n + 1 : Nat) : Int) - 1).toNat = n := by omega
    rw [hidx, List.getLast?_eq_getElem?, hp]
    simp only [Nat.add_sub_cancel]
    rw [List.getElem?_append_left (by omega)]

/-- … and when the value does not occur in the statement at all: nil (the case-block test fails) -/
theorem Statement_previous_absent (cfg : Cfg) (same : Code → Bool) (items : List Code)
    (h : ∀ x ∈ items, same x = false) :
    Gen.Src.Statement_previous cfg items same = none := by
  simp [Gen.Src.Statement_previous, Go.firstIndexOr, firstIndexFrom_none same _ items h 0]

/-- the value carried by the loop of `Statement.render` (Tie/RenderSrc `stmtStep`: `some c` of the
    raw previous item, `none` at the first item) is this answer -/
theorem carried_prev_is_previous (cfg : Cfg) (same : Code → Bool) (pre : List Code) (g : Code) (post : List Code)
    (hpre : ∀ x ∈ pre, same x = false) (hg : same g = true) :
    Gen.Src.Statement_previous cfg (pre ++ g :: post) same =
      (pre.foldl (fun (_ : Option Code) c => some c) none) := by
  rw [Statement_previous_eq cfg same pre g post hpre hg]
  have key : ∀ (xs : List Code) (init : Option Code),
      xs.foldl (fun (_ : Option Code) c => some c) init = (match xs.getLast? with | some c => some c | none => init) := by
    intro xs
    induction xs with
    | nil => intro init; rfl
    | cons x xs ih =>
      intro init
      rw [List.foldl, ih]
      cases xs with
      | nil => rfl
      | cons y ys =>
        rw [List.getLast?_cons_cons]
        cases h : (y :: ys).getLast? with
        | none => exact absurd (List.getLast?_eq_none_iff.mp h) (by simp)
        | some z => rfl
  rw [key]
  cases pre.getLast? <;> rfl

-- non-vacuity: Case(x) directly before the Block that asks
def exCase : Code := .group ⟨b!"case", b!"case ", b!":", b!",", false⟩ [.tok .ident b!"x"]
def exBlock : Code := .group ⟨b!"block", b!"{", b!"}", [], true⟩ []
def isBlock : Code → Bool
  | .group gi _ => gi.name == b!"block"
  | _ => false
example : Gen.Src.Statement_previous RegistryInv.cfg0 ([exCase] ++ exBlock :: []) isBlock = [exCase].getLast? :=
  Statement_previous_eq _ isBlock [exCase] exBlock [] (by simp [exCase, isBlock]) (by simp [exBlock, isBlock])

#print axioms Statement_previous_eq
#print axioms Statement_previous_absent
#print axioms carried_prev_is_previous

end Tie
