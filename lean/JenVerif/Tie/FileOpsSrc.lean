import JenVerif.Tie.GuessAliasSrc
/-
  Tie 1b, sixth group — the constructors and the file-level setters of File, TRANSLATED from
  jen/file.go (`NewFile`, `NewFilePath`, `NewFilePathName`, `HeaderComment`, `PackageComment`,
  `CgoPreamble`), equal the model's operations (`Registry.newFile` …), which are the ones the
  driver executes in the correspondence and the ones the theorems of C06/C15/C19 start from.
  A constructor is translated as the pair (embedded Group's record, File state): the Group of every
  File is `Code.fileInfo` (no name, no delimiters, no separator, multi-line), its import table and
  hint table start empty, NoFormat / PackagePrefix / CanonicalPath / comments start at their zero
  values.
-/
namespace Tie
open Registry

theorem NewFile_eq (cfg : Cfg) (n : Str) : Gen.Src.NewFile cfg n = (Code.fileInfo, newFile n) := rfl

theorem NewFilePathName_eq (cfg : Cfg) (p n : Str) :
    Gen.Src.NewFilePathName cfg p n = (Code.fileInfo, newFilePathName p n) := rfl

/-- the package name of `NewFilePath` is `guessAlias` of the path (for every byte string, every
    `strings.ToLower`, every library satisfying `AsciiOk`, every sufficient fuel) -/
theorem NewFilePath_eq (cfg : Cfg) (lib : Go.Lib) (hl : lib.AsciiOk) (p : Str) (fuel : Nat)
    (hf : guessFuel cfg p ≤ fuel) :
    Gen.Src.NewFilePath cfg lib fuel p = (Code.fileInfo, newFilePath cfg.toLower p) := by
  unfold Gen.Src.NewFilePath newFilePath
  rw [guessAlias_eq cfg lib hl p fuel hf]
  rfl

theorem HeaderComment_eq (cfg : Cfg) (f : FileS) (t : Str) : Gen.Src.HeaderComment cfg f t = headerComment f t := rfl
theorem PackageComment_eq (cfg : Cfg) (f : FileS) (t : Str) : Gen.Src.PackageComment cfg f t = packageComment f t := rfl
theorem CgoPreamble_eq (cfg : Cfg) (f : FileS) (t : Str) : Gen.Src.CgoPreamble cfg f t = cgoPreamble f t := rfl

/-- consequences on the translated code: a fresh File is local to exactly its own path and to
    nothing when built by `NewFile` with a non-empty reference path; its tables are empty -/
theorem NewFilePath_local (cfg : Cfg) (lib : Go.Lib) (hl : lib.AsciiOk) (p q : Str) (fuel : Nat)
    (hf : guessFuel cfg p ≤ fuel) :
    isLocal (Gen.Src.NewFilePath cfg lib fuel p).2 q = (p == q) := by
  rw [NewFilePath_eq cfg lib hl p fuel hf]; rfl

theorem NewFile_tables_empty (cfg : Cfg) (n : Str) :
    (Gen.Src.NewFile cfg n).2.imports = [] ∧ (Gen.Src.NewFile cfg n).2.hints = [] ∧
    (Gen.Src.NewFile cfg n).2.noFormat = false ∧ (Gen.Src.NewFile cfg n).2.pfx = [] := ⟨rfl, rfl, rfl, rfl⟩

#print axioms NewFile_eq
#print axioms NewFilePath_eq
#print axioms NewFilePathName_eq
#print axioms HeaderComment_eq
#print axioms PackageComment_eq
#print axioms CgoPreamble_eq

end Tie
