import JenVerif.Tie.RenderSrc
/-
  Tie 1b — the RENDER method of Dict.
  `Gen.Src.Dict_render` is the literal translation of jennifer's `Dict.render` (jen/dict.go).  With the
  MODEL put in for the recursion parameter (`modelRec`), it computes exactly what the model says about
  a `.dict` node: `none` when `misusePairs` holds, otherwise the accumulated output followed by
  `renderDictWith`'s text, and its state.
  Method: the two loop bodies are restated (`dStep1`, `dStep2`; equality with the generated text by
  `rfl`), the first fold is related to a pair-level restatement `loop1P` of `dictLoop1`, sorting commutes
  with the projection to the model's triples (`List.map_mergeSort`), the second fold is related to
  `dictLoop2`; np-stability (`Refine.Ext`) of `renderS` on `Good` states carries null-ness and misuse
  of the kept pairs through all states reached.
-/
namespace Tie
open Code Refine

/-- the tuples collected by the first loop of `Dict.render`: key text, value text, key, value -/
abbrev KV := Str × Str × Code × Code

/-- the model's Dict entry of a pair -/
def entOf (cfg : Cfg) (k v : Code) : DEntry FileS :=
  { kNull := fun np => isNull np k, vNull := fun np => isNull np v,
    kR := fun f => renderS cfg f none k, vR := fun f => renderS cfg f none v }

/-- the model's triple of a collected tuple -/
def tupOf (cfg : Cfg) (t : KV) : Str × Str × DEntry FileS := (t.1, t.2.1, entOf cfg t.2.2.1 t.2.2.2)

/-- `dictLoop1` restated over the pairs themselves -/
def loop1P (cfg : Cfg) : FileS → List (Code × Code) → List KV × FileS
  | f, [] => ([], f)
  | f, (k, v) :: ps =>
    if isNull f.np k || isNull f.np v then loop1P cfg f ps
    else
      (((renderS cfg f none k).1, (renderS cfg (renderS cfg f none k).2 none v).1, k, v) ::
        (loop1P cfg (renderS cfg (renderS cfg f none k).2 none v).2 ps).1,
      (loop1P cfg (renderS cfg (renderS cfg f none k).2 none v).2 ps).2)

theorem dictEntriesS_cons (cfg : Cfg) (k v : Code) (ps : List (Code × Code)) :
    dictEntriesS cfg ((k, v) :: ps) = entOf cfg k v :: dictEntriesS cfg ps := by
  rw [dictEntriesS]; rfl

theorem dictLoop1_entries (cfg : Cfg) : ∀ (ps : List (Code × Code)) (f : FileS),
    dictLoop1 FileS.np f (dictEntriesS cfg ps) = ((loop1P cfg f ps).1.map (tupOf cfg), (loop1P cfg f ps).2)
  | [], f => by simp [dictEntriesS, dictLoop1, loop1P]
  | (k, v) :: ps, f => by
      rw [dictEntriesS_cons, dictLoop1, loop1P]
      simp only [entOf]
      by_cases hn : (isNull f.np k || isNull f.np v) = true
      · simp only [hn, if_true]
        exact dictLoop1_entries cfg ps f
      · simp only [hn, if_false, Bool.false_eq_true]
        rw [dictLoop1_entries cfg ps _]
        rfl

/-! ### the loop bodies, restated -/

/-- body of the first loop of `Dict.render` -/
def dStep1 (cfg : Cfg) (st : FileS × List KV) (kv : Code × Code) : Option (FileS × List KV) :=
  if (modelRec cfg).null st.1 kv.1 || (modelRec cfg).null st.1 kv.2 then some (st.1, st.2)
  else
    match (modelRec cfg).render st.1 [] none kv.1 with
    | none => none
    | some t60 =>
      match (modelRec cfg).render t60.2 [] none kv.2 with
      | none => none
      | some t61 => some (t61.2, st.2 ++ [(t60.1, t61.1, kv.1, kv.2)])

/-- body of the second loop of `Dict.render` (`n` : number of kept pairs) -/
def dStep2 (cfg : Cfg) (n : Nat) (st : FileS × Bool × Str) (key : KV) : Option (FileS × Bool × Str) :=
  match (modelRec cfg).render st.1
      (if st.2.1 && decide ((Int.ofNat n) > (1 : Int)) then (false, st.2.2 ++ ([10] : Str)) else (st.2.1, st.2.2)).2
      none key.2.2.1 with
  | none => none
  | some t65 =>
    match (modelRec cfg).render t65.2 (t65.1 ++ b!":") none key.2.2.2 with
    | none => none
    | some t66 =>
      some (t66.2,
        (if st.2.1 && decide ((Int.ofNat n) > (1 : Int)) then (false, st.2.2 ++ ([10] : Str)) else (st.2.1, st.2.2)).1,
        if decide ((Int.ofNat n) > (1 : Int)) then t66.1 ++ ([44, 10] : Str) else t66.1)

def fin2 : Option (FileS × Bool × Str) → Option (Str × FileS)
  | none => none
  | some t => some (t.2.2, t.1)

def dictFin (cfg : Cfg) (w : Str) : Option (FileS × List KV) → Option (Str × FileS)
  | none => none
  | some t => fin2 (Go.foldOpt (dStep2 cfg (Go.sortKV t.2).length) (t.1, true, w) (Go.sortKV t.2))

theorem Dict_render_shape (cfg : Cfg) (f : FileS) (ps : List (Code × Code)) (w : Str) :
    Gen.Src.Dict_render cfg (modelRec cfg) ps f w =
      dictFin cfg w (Go.foldOpt (dStep1 cfg) (f, []) ps) := rfl

/-! ### kept pairs: non-null, no misuse — stable along `Ext` -/

/-- what the first loop establishes about a collected tuple (when no kept pair is misused) -/
def Kept (np : Str → Bool) (t : KV) : Prop :=
  isNull np t.2.2.1 = false ∧ isNull np t.2.2.2 = false ∧
  misuse np t.2.2.1 = false ∧ misuse np t.2.2.2 = false

theorem kept_ext_iff {f f' : FileS} (h : Ext f f') (t : KV) : Kept f'.np t ↔ Kept f.np t := by
  unfold Kept
  rw [isNull_ext h, isNull_ext h, misuse_ext h, misuse_ext h]

theorem misusePairs_ext {f f' : FileS} (h : Ext f f') (ps : List (Code × Code)) :
    misusePairs f'.np ps = misusePairs f.np ps :=
  misusePairs_congr _ _ h.np ps

/-! ### first loop -/

theorem loop1P_facts (cfg : Cfg) : ∀ (ps : List (Code × Code)) (f : FileS), Good cfg f →
    Ext f (loop1P cfg f ps).2 ∧
    (misusePairs f.np ps = false → ∀ t ∈ (loop1P cfg f ps).1, Kept f.np t)
  | [], f, _ => by simp [loop1P, Ext.refl]
  | (k, v) :: ps, f, hg => by
      rw [loop1P, misusePairs]
      by_cases hn : (isNull f.np k || isNull f.np v) = true
      · simp only [hn, if_true, Bool.not_true, Bool.false_and, Bool.false_or]
        exact loop1P_facts cfg ps f hg
      · have hn' : (isNull f.np k || isNull f.np v) = false := by simpa using hn
        have hkn : isNull f.np k = false := by
          cases h : isNull f.np k <;> simp_all
        have hvn : isNull f.np v = false := by
          cases h : isNull f.np v <;> simp_all
        have he1 := renderS_ext cfg f hg none k hkn
        have hg1 := good_of_ext hg he1
        have hvn1 : isNull (renderS cfg f none k).2.np v = false := by rw [isNull_ext he1]; exact hvn
        have he2 := renderS_ext cfg _ hg1 none v hvn1
        have hg2 := good_of_ext hg1 he2
        have he02 := he1.trans he2
        have ih := loop1P_facts cfg ps _ hg2
        simp only [hn', Bool.false_eq_true, if_false, Bool.not_false, Bool.true_and]
        refine ⟨he02.trans ih.1, ?_⟩
        intro hm t ht
        have hm' : (misuse f.np k = false ∧ misuse f.np v = false) ∧ misusePairs f.np ps = false := by
          simpa using hm
        simp only [List.mem_cons] at ht
        cases ht with
        | inl h => subst h; exact ⟨hkn, hvn, hm'.1.1, hm'.1.2⟩
        | inr h =>
          have := ih.2 (by rw [misusePairs_ext he02]; exact hm'.2) t h
          exact (kept_ext_iff he02 t).mp this

theorem fold1 (cfg : Cfg) : ∀ (ps : List (Code × Code)) (f : FileS) (keys : List KV), Good cfg f →
    Go.foldOpt (dStep1 cfg) (f, keys) ps =
      if misusePairs f.np ps then none
      else some ((loop1P cfg f ps).2, keys ++ (loop1P cfg f ps).1)
  | [], f, keys, _ => by simp [Go.foldOpt, misusePairs, loop1P]
  | (k, v) :: ps, f, keys, hg => by
      rw [Go.foldOpt, loop1P, misusePairs]
      simp only [dStep1, modelRec]
      by_cases hn : (isNull f.np k || isNull f.np v) = true
      · simp only [hn, if_true, Bool.not_true, Bool.false_and, Bool.false_or]
        exact fold1 cfg ps f keys hg
      · have hn' : (isNull f.np k || isNull f.np v) = false := by simpa using hn
        have hkn : isNull f.np k = false := by
          cases h : isNull f.np k <;> simp_all
        have hvn : isNull f.np v = false := by
          cases h : isNull f.np v <;> simp_all
        have he1 := renderS_ext cfg f hg none k hkn
        have hg1 := good_of_ext hg he1
        have hvn1 : isNull (renderS cfg f none k).2.np v = false := by rw [isNull_ext he1]; exact hvn
        have he2 := renderS_ext cfg _ hg1 none v hvn1
        have hg2 := good_of_ext hg1 he2
        have he02 := he1.trans he2
        simp only [hn', Bool.false_eq_true, if_false, Bool.not_false, Bool.true_and]
        by_cases hmk : misuse f.np k = true
        · simp [hmk]
        · have hmk' : misuse f.np k = false := by simpa using hmk
          simp only [hmk', Bool.false_eq_true, if_false, Bool.false_or, List.nil_append]
          rw [misuse_ext he1 v]
          by_cases hmv : misuse f.np v = true
          · simp [hmv]
          · have hmv' : misuse f.np v = false := by simpa using hmv
            simp only [hmv', Bool.false_eq_true, if_false, Bool.false_or]
            rw [fold1 cfg ps _ _ hg2, misusePairs_ext he02]
            simp [List.append_assoc]

/-! ### second loop -/

/-- with at most one pair nothing is written for `first`: the flag is irrelevant -/
theorem dictLoop2_first {σ} (n : Nat) (hn : ¬ n > 1) (first : Bool) (f : σ) (ts : List (Str × Str × DEntry σ)) :
    dictLoop2 n first f ts = dictLoop2 n false f ts := by
  cases ts with
  | nil => simp [dictLoop2]
  | cons t ts => simp [dictLoop2, hn]

theorem fold2 (cfg : Cfg) (n : Nat) : ∀ (ts : List KV) (f : FileS) (first : Bool) (w : Str), Good cfg f →
    (∀ t ∈ ts, Kept f.np t) →
    fin2 (Go.foldOpt (dStep2 cfg n) (f, first, w) ts) =
      some (w ++ (dictLoop2 n first f (ts.map (tupOf cfg))).1, (dictLoop2 n first f (ts.map (tupOf cfg))).2)
  | [], f, first, w, _, _ => by simp [Go.foldOpt, fin2, dictLoop2]
  | t :: ts, f, first, w, hg, hall => by
      obtain ⟨hkn, hvn, hmk, hmv⟩ := hall t (by simp)
      have he1 := renderS_ext cfg f hg none t.2.2.1 hkn
      have hg1 := good_of_ext hg he1
      have hvn1 : isNull (renderS cfg f none t.2.2.1).2.np t.2.2.2 = false := by rw [isNull_ext he1]; exact hvn
      have he2 := renderS_ext cfg _ hg1 none t.2.2.2 hvn1
      have hg2 := good_of_ext hg1 he2
      have he02 := he1.trans he2
      have hmv1 : misuse (renderS cfg f none t.2.2.1).2.np t.2.2.2 = false := by rw [misuse_ext he1]; exact hmv
      have ih := fun first' w' => fold2 cfg n ts _ first' w' hg2
        (fun t' ht' => (kept_ext_iff he02 t').mpr (hall t' (by simp [ht'])))
      rw [Go.foldOpt, List.map_cons, dictLoop2]
      simp only [dStep2, modelRec, hmk, hmv1, Bool.false_eq_true, if_false, tupOf, entOf]
      rw [ih, decide_len]
      by_cases hn : n > 1
      · cases first <;> simp [hn, List.append_assoc]
      · simp only [hn, decide_false, Bool.and_false, Bool.false_eq_true, if_false]
        rw [dictLoop2_first n hn first]
        simp [List.append_assoc]

/-! ### sorting commutes with the projection to the model's triples -/

theorem sortKV_map (cfg : Cfg) (l : List KV) :
    (l.map (tupOf cfg)).mergeSort dictKeyLe = (Go.sortKV l).map (tupOf cfg) :=
  (List.map_mergeSort (r := Go.kvLe) (s := dictKeyLe) (f := tupOf cfg) (fun _ _ _ _ => rfl)).symm

theorem renderDict_loop1P (cfg : Cfg) (f : FileS) (ps : List (Code × Code)) :
    renderDictWith FileS.np f (dictEntriesS cfg ps) =
      dictLoop2 (Go.sortKV (loop1P cfg f ps).1).length true (loop1P cfg f ps).2
        ((Go.sortKV (loop1P cfg f ps).1).map (tupOf cfg)) := by
  unfold renderDictWith
  simp only [dictLoop1_entries, sortKV_map, List.length_map]

/-! ### Dict.render -/

theorem Dict_render_eq (cfg : Cfg) (f : FileS) (hg : Good cfg f) (ps : List (Code × Code)) (w : Str) :
    Gen.Src.Dict_render cfg (modelRec cfg) ps f w = (modelRec cfg).render f w none (.dict ps) := by
  rw [Dict_render_shape, fold1 cfg ps f [] hg]
  have hr : (modelRec cfg).render f w none (.dict ps) =
      if misusePairs f.np ps then none
      else some (w ++ (renderDictWith FileS.np f (dictEntriesS cfg ps)).1,
        (renderDictWith FileS.np f (dictEntriesS cfg ps)).2) := by
    simp only [modelRec, misuse, renderS] <;> rfl
  rw [hr]
  by_cases hm : misusePairs f.np ps = true
  · simp only [hm, if_true, dictFin]
  · have hm' : misusePairs f.np ps = false := by simpa using hm
    have facts := loop1P_facts cfg ps f hg
    have hg1 := good_of_ext hg facts.1
    have hall : ∀ t ∈ Go.sortKV (loop1P cfg f ps).1, Kept (loop1P cfg f ps).2.np t := by
      intro t ht
      have ht' : t ∈ (loop1P cfg f ps).1 := List.mem_mergeSort.mp ht
      exact (kept_ext_iff facts.1 t).mpr (facts.2 hm' t ht')
    simp only [hm', Bool.false_eq_true, if_false, dictFin, List.nil_append]
    rw [fold2 cfg _ _ _ true w hg1 hall, renderDict_loop1P]

/-- the same, with the model side spelled out -/
theorem Dict_render_eq' (cfg : Cfg) (f : FileS) (hg : Good cfg f) (ps : List (Code × Code)) (w : Str) :
    Gen.Src.Dict_render cfg (modelRec cfg) ps f w =
      if misusePairs f.np ps then none
      else some (w ++ (renderDictWith FileS.np f (dictEntriesS cfg ps)).1,
        (renderDictWith FileS.np f (dictEntriesS cfg ps)).2) := by
  rw [Dict_render_eq cfg f hg]
  simp only [modelRec, misuse, renderS] <;> rfl

/-- the hypothesis `Good cfg f` is satisfiable (by every state passing the hint guard) -/
example : ∃ cfg f, Good cfg f :=
  ⟨RegistryInv.cfg0, RegistryInv.f0, RegistryGood.good_of_hintsOk RegistryInv.hintsOk_f0 RegistryInv.stdOk_cfg0⟩

#print axioms Tie.Dict_render_eq

end Tie
