import JenVerif.Tie.Registry
import JenVerif.Lemmas.Frame
import JenVerif.Props.C05
/-
  Tie 1b, fifth group — the four ENTRY POINTS: `File.Render`, `Statement.RenderWithFile`,
  `Group.RenderWithFile`, `File.Save`.
  `Gen.Src.Render`, `Statement_RenderWithFile`, `Group_RenderWithFile`, `Save` are literal translations
  of the Go methods; every interaction with the outside is an `Effect` appended to a trace, its result
  is supplied by `world : World`.  With the MODEL as recursion parameter (`modelRec cfg`) each entry
  point returns the same `Result` and the same effect trace as the model's `fileRender` / `fragRender`
  / `fileSave`, for EVERY world, and the same file state whenever the render is not aborted by the
  misuse error (in that case Go returns before anything is written; the model's third component is
  the state a completed traversal would have reached, the code's is the state at the abort — the
  statement does not compare them).
  Method: `Render_shape` rewrites the translated `File.Render` into one `if misuse … else emit …`
  equation (comment loops by `comment_fold`, import block by `renderImports_src_eq_model`, then case
  analysis over the three flags and the world's answers, closed by `simp`); the fragment entry
  points are an instance of `frag_tail` up to definitional unfolding; `File.Save` is `Render_shape`
  for the world with the never-failing writer followed by evaluation of the (at most two-element)
  trace.  `noFormat`, `headers`, `name`, … are read by the code from the state AFTER the body render:
  `Frame.other_fields_untouched` (the renderer writes `imports` only).
  `Good cfg f` is needed for the fragment entry points (they go through the translated
  `Statement.render` / `Group.render`); `File.Render` / `File.Save` call `rec.render` at once and do
  not need it (the hypothesis is kept in the statements, unused).
-/
namespace Tie
open Code Refine

/-! ### helper lemmas -/

/-- the comment loops of `File.Render` -/
theorem comment_fold (cfg : Cfg) (f : FileS) : ∀ (l : List Str) (acc : Str),
    l.foldl (fun acc c => Gen.Src.comment_render cfg c f acc ++ ([10] : Str)) acc = acc ++ commentLines l
  | [], acc => by simp [commentLines]
  | c :: l, acc => by
      rw [List.foldl_cons, comment_fold cfg f l, comment_render_eq]
      simp [commentLines, List.append_assoc]

theorem decide_len_pos {α} (l : List α) : decide ((Int.ofNat l.length) > (0 : Int)) = !l.isEmpty := by
  cases l with
  | nil => rfl
  | cons a l =>
    have : ((Int.ofNat (a :: l).length) > (0 : Int)) := by
      show (0 : Int) < ((a :: l).length : Int)
      simp only [List.length_cons]; omega
    simp

theorem str_ne_nil (s : Str) : (s != ([] : Str)) = !s.isEmpty := by
  cases s <;> rfl

/-- the head of the file as `File.Render` writes it -/
theorem head_eq (cfg : Cfg) (f : FileS) :
    (((if (!f.headers.isEmpty) = true then ([] : Str) ++ commentLines f.headers ++ ([10] : Str) else ([] : Str)) ++
        commentLines f.comments ++ (b!"package " ++ f.name)) ++
      (if (!f.canonical.isEmpty) = true then b!" // import " ++ Quote.quote cfg.isPrint f.canonical else [])) ++
      ([10, 10] : Str) = fileHead cfg.isPrint f := by
  unfold fileHead
  cases f.headers.isEmpty <;> cases f.canonical.isEmpty <;> simp [List.append_assoc]

/-- `File.Render` in one equation -/
theorem Render_shape (cfg : Cfg) (w : World) (f : FileS) (items : List Code)
    (hk : ((renderS cfg f none (.group fileInfo items)).2.imports.map (·.1)).Nodup) :
    Gen.Src.Render cfg (modelRec cfg) w items f =
      if misuse f.np (.group fileInfo items) then (Result.errMisuse, [], f)
      else
        ((emit w (renderS cfg f none (.group fileInfo items)).2.noFormat (renderFileRaw cfg f items).1).1,
         (emit w (renderS cfg f none (.group fileInfo items)).2.noFormat (renderFileRaw cfg f items).1).2,
         (renderS cfg f none (.group fileInfo items)).2) := by
  unfold Gen.Src.Render
  simp only [modelRec]
  by_cases hm : misuse f.np (.group fileInfo items) = true
  · simp only [hm, if_true]
  · simp only [hm, if_false, Bool.false_eq_true]
    simp only [comment_fold, decide_len_pos, str_ne_nil, renderImports_src_eq_model _ _ _ hk]
    simp only [renderFileRaw, emit, fileHead]
    rcases Bool.eq_false_or_eq_true (renderS cfg f none (.group fileInfo items)).2.canonical.isEmpty with hc | hc <;>
    rcases Bool.eq_false_or_eq_true (renderS cfg f none (.group fileInfo items)).2.headers.isEmpty with hh | hh <;>
    rcases Bool.eq_false_or_eq_true (renderS cfg f none (.group fileInfo items)).2.noFormat with hn | hn <;>
      simp [hc, hh, hn, List.append_assoc]
    all_goals (split <;> simp [*])
    all_goals (split <;> rfl)

/-- the renderer does not touch `noFormat` -/
theorem renderS_noFormat_eq (cfg : Cfg) (f : FileS) (prev : Option Code) (c : Code) :
    (renderS cfg f prev c).2.noFormat = f.noFormat :=
  (Frame.other_fields_untouched cfg f prev c).2.2.2.2.2.2.1

/-! ### File.Render -/

set_option linter.unusedVariables false in
theorem File_Render_eq (cfg : Cfg) (w : World) (f : FileS) (hg : Good cfg f) (items : List Code)
    (hk : ((renderS cfg f none (.group fileInfo items)).2.imports.map (·.1)).Nodup) :
    (Gen.Src.Render cfg (modelRec cfg) w items f).1 = (fileRender w cfg f items).1 ∧
    (Gen.Src.Render cfg (modelRec cfg) w items f).2.1 = (fileRender w cfg f items).2.1 ∧
    (misuse f.np (.group fileInfo items) = false →
      (Gen.Src.Render cfg (modelRec cfg) w items f).2.2 = (fileRender w cfg f items).2.2) := by
  rw [Render_shape cfg w f items hk, renderS_noFormat_eq]
  simp only [fileRender, fileRenderFrom]
  by_cases hm : misuse f.np (.group fileInfo items) = true
  · simp [hm]
  · simp [hm, renderFileRaw]

/-! ### Statement.RenderWithFile, Group.RenderWithFile -/

/-- common tail of the two fragment entry points -/
theorem frag_tail (cfg : Cfg) (w : World) (f : FileS) (c : Code) :
    (match (modelRec cfg).render f [] none c with
      | none => (Result.errMisuse, ([] : List Effect), f)
      | some t =>
        match w.gofmt t.1 with
        | none => (Result.errFormat t.1, [] ++ [Effect.format t.1], t.2)
        | some b =>
          if w.writer b then (Result.ok, [] ++ [Effect.format t.1] ++ [Effect.callerWrite b], t.2)
          else (Result.errWriter, [] ++ [Effect.format t.1] ++ [Effect.callerWrite b], t.2)) =
      if misuse f.np c then (Result.errMisuse, [], f)
      else ((emit w false (renderS cfg f none c).1).1, (emit w false (renderS cfg f none c).1).2,
        (renderS cfg f none c).2) := by
  simp only [modelRec, emit]
  by_cases hm : misuse f.np c = true
  · simp only [hm, if_true]
  · simp only [hm, if_false, Bool.false_eq_true, List.nil_append]
    split
    · simp [*]
    · simp only [*]
      split <;> rfl

theorem frag_final (cfg : Cfg) (w : World) (f : FileS) (c : Code) (x : Result × List Effect × FileS)
    (h : x = if misuse f.np c then (Result.errMisuse, [], f)
      else ((emit w false (renderS cfg f none c).1).1, (emit w false (renderS cfg f none c).1).2,
        (renderS cfg f none c).2)) :
    x.1 = (fragRender w cfg f c).1 ∧ x.2.1 = (fragRender w cfg f c).2.1 ∧
    (misuse f.np c = false → x.2.2 = (fragRender w cfg f c).2.2) := by
  subst h
  simp only [fragRender, fileRenderFrom]
  by_cases hm : misuse f.np c = true
  · simp [hm]
  · simp [hm]

theorem Statement_RenderWithFile_eq (cfg : Cfg) (w : World) (f : FileS) (hg : Good cfg f) (items : List Code) :
    (Gen.Src.Statement_RenderWithFile cfg (modelRec cfg) w items f).1 = (fragRender w cfg f (.stmt items)).1 ∧
    (Gen.Src.Statement_RenderWithFile cfg (modelRec cfg) w items f).2.1 = (fragRender w cfg f (.stmt items)).2.1 ∧
    (misuse f.np (.stmt items) = false →
      (Gen.Src.Statement_RenderWithFile cfg (modelRec cfg) w items f).2.2 = (fragRender w cfg f (.stmt items)).2.2) := by
  apply frag_final
  unfold Gen.Src.Statement_RenderWithFile
  simp only [Statement_render_eq cfg f hg]
  exact frag_tail cfg w f (.stmt items)

theorem Group_RenderWithFile_eq (cfg : Cfg) (w : World) (f : FileS) (hg : Good cfg f) (g : GInfo) (items : List Code) :
    (Gen.Src.Group_RenderWithFile cfg (modelRec cfg) w g items f).1 = (fragRender w cfg f (.group g items)).1 ∧
    (Gen.Src.Group_RenderWithFile cfg (modelRec cfg) w g items f).2.1 = (fragRender w cfg f (.group g items)).2.1 ∧
    (misuse f.np (.group g items) = false →
      (Gen.Src.Group_RenderWithFile cfg (modelRec cfg) w g items f).2.2 = (fragRender w cfg f (.group g items)).2.2) := by
  apply frag_final
  unfold Gen.Src.Group_RenderWithFile
  simp only [Group_render_eq cfg f hg]
  exact frag_tail cfg w f (.group g items)

/-! ### File.Save -/

/-- with a writer that never fails, `emit` ends in `ok` or in a formatter error -/
theorem emit_true_result (w : World) (nf : Bool) (raw : Str) :
    (emit { w with writer := fun _ => true } nf raw).1 = Result.ok ∨
    (emit { w with writer := fun _ => true } nf raw).1 = Result.errFormat raw := by
  unfold emit
  cases nf
  · simp only [Bool.false_eq_true, if_false]
    split <;> simp
  · simp

/-- on the traces `emit` produces when it succeeds there is exactly one caller-write, the last
    effect: all caller-written bytes (`Go.callerWritten`, what the buffer of `File.Save` holds) are
    the bytes of the last effect (what the model's `fileSaveFrom` takes) -/
theorem emit_callerWritten (w : World) (nf : Bool) (raw : Str)
    (h : (emit w nf raw).1 = Result.ok) :
    Go.callerWritten (emit w nf raw).2 =
      (match (emit w nf raw).2.getLast? with
        | some (Effect.callerWrite b) => b
        | _ => []) := by
  revert h
  unfold emit
  cases nf
  · simp only [Bool.false_eq_true, if_false]
    split
    · simp
    · simp [Go.callerWritten]
  · simp [Go.callerWritten]

theorem withoutCallerWrites_eq (es : List Effect) :
    Go.withoutCallerWrites es = es.filter fun e => match e with | .callerWrite _ => false | _ => true := rfl

/-- the model's `fileSaveFrom` (bytes of the LAST effect) restated with the primitives of the
    translated `File.Save` (all caller-written bytes, concatenated): on every trace the private
    render can produce the two agree -/
theorem fileSaveFrom_callerWritten (w : World) (nf m : Bool) (raw : Str) :
    fileSaveFrom w nf m raw =
      (match (fileRenderFrom { w with writer := fun _ => true } nf m raw).1 with
        | .ok =>
          (if w.fs (Go.callerWritten (fileRenderFrom { w with writer := fun _ => true } nf m raw).2)
            then Result.ok else Result.errFs,
           Go.withoutCallerWrites (fileRenderFrom { w with writer := fun _ => true } nf m raw).2 ++
             [Effect.fsWrite (Go.callerWritten (fileRenderFrom { w with writer := fun _ => true } nf m raw).2)])
        | e => (e, (fileRenderFrom { w with writer := fun _ => true } nf m raw).2)) := by
  unfold fileSaveFrom fileRenderFrom emit
  cases m
  · cases nf
    · cases hgf : w.gofmt raw <;> simp [Go.callerWritten, Go.withoutCallerWrites]
    · simp [Go.callerWritten, Go.withoutCallerWrites]
  · simp

set_option linter.unusedVariables false in
theorem File_Save_eq (cfg : Cfg) (w : World) (f : FileS) (hg : Good cfg f) (items : List Code) (name : Str)
    (hk : ((renderS cfg f none (.group fileInfo items)).2.imports.map (·.1)).Nodup) :
    (Gen.Src.Save cfg (modelRec cfg) w items f name).1 = (fileSave w cfg f items).1 ∧
    (Gen.Src.Save cfg (modelRec cfg) w items f name).2.1 = (fileSave w cfg f items).2.1 ∧
    (misuse f.np (.group fileInfo items) = false →
      (Gen.Src.Save cfg (modelRec cfg) w items f name).2.2 = (fileSave w cfg f items).2.2) := by
  unfold Gen.Src.Save
  rw [Render_shape cfg _ f items hk, renderS_noFormat_eq]
  simp only [fileSave, fileSaveFrom, fileRenderFrom]
  by_cases hm : misuse f.np (.group fileInfo items) = true
  · simp [hm, Go.withoutCallerWrites]
  · simp only [hm, if_false, Bool.false_eq_true, List.nil_append, withoutCallerWrites_eq]
    have hsnd : (renderFileRaw cfg f items).2 = (renderS cfg f none (.group fileInfo items)).2 := rfl
    simp only [hsnd]
    generalize (renderFileRaw cfg f items).1 = raw
    unfold emit
    cases f.noFormat
    · cases hgf : w.gofmt raw
      · simp
      · rename_i out
        cases hfs : w.fs out <;> simp [Go.callerWritten, hfs]
    · cases hfs : w.fs raw <;> simp [Go.callerWritten, hfs]

/-! ### `hk` from the registry invariant (C05) -/

/-- File.Render, for every state satisfying the registry invariant and the hint guard -/
theorem File_Render_eq_of_inv (tl : Str → Str) (ip : Nat → Bool) (w : World) (f : FileS)
    (hI : RegistryInv.Inv (Props.cfgOf tl ip) f) (hH : RegistryInv.HintsOk f) (items : List Code) :
    (Gen.Src.Render (Props.cfgOf tl ip) (modelRec (Props.cfgOf tl ip)) w items f).1 =
      (fileRender w (Props.cfgOf tl ip) f items).1 ∧
    (Gen.Src.Render (Props.cfgOf tl ip) (modelRec (Props.cfgOf tl ip)) w items f).2.1 =
      (fileRender w (Props.cfgOf tl ip) f items).2.1 ∧
    (misuse f.np (.group fileInfo items) = false →
      (Gen.Src.Render (Props.cfgOf tl ip) (modelRec (Props.cfgOf tl ip)) w items f).2.2 =
        (fileRender w (Props.cfgOf tl ip) f items).2.2) :=
  File_Render_eq _ w f (RegistryGood.good_of_hintsOk hH (Props.stdOk tl ip)) items
    (C05.render_keeps_names_unique_and_legal tl ip f none (.group fileInfo items) hI hH).1.keysDistinct

/-- File.Save, for every state satisfying the registry invariant and the hint guard -/
theorem File_Save_eq_of_inv (tl : Str → Str) (ip : Nat → Bool) (w : World) (f : FileS)
    (hI : RegistryInv.Inv (Props.cfgOf tl ip) f) (hH : RegistryInv.HintsOk f) (items : List Code) (name : Str) :
    (Gen.Src.Save (Props.cfgOf tl ip) (modelRec (Props.cfgOf tl ip)) w items f name).1 =
      (fileSave w (Props.cfgOf tl ip) f items).1 ∧
    (Gen.Src.Save (Props.cfgOf tl ip) (modelRec (Props.cfgOf tl ip)) w items f name).2.1 =
      (fileSave w (Props.cfgOf tl ip) f items).2.1 ∧
    (misuse f.np (.group fileInfo items) = false →
      (Gen.Src.Save (Props.cfgOf tl ip) (modelRec (Props.cfgOf tl ip)) w items f name).2.2 =
        (fileSave w (Props.cfgOf tl ip) f items).2.2) :=
  File_Save_eq _ w f (RegistryGood.good_of_hintsOk hH (Props.stdOk tl ip)) items name
    (C05.render_keeps_names_unique_and_legal tl ip f none (.group fileInfo items) hI hH).1.keysDistinct

/-- the hypotheses are satisfiable: the empty file, any body (`Good`, and `hk` via the invariant) -/
example (tl : Str → Str) (ip : Nat → Bool) (items : List Code) :
    Good (Props.cfgOf tl ip) {} ∧
    ((renderS (Props.cfgOf tl ip) {} none (.group fileInfo items)).2.imports.map (·.1)).Nodup := by
  have hH : RegistryInv.HintsOk {} := ⟨fun p h hm => by simp at hm, Or.inl rfl⟩
  exact ⟨RegistryGood.good_of_hintsOk hH (Props.stdOk tl ip),
    (C05.render_keeps_names_unique_and_legal tl ip {} none (.group fileInfo items)
      (RegistryInv.inv_empty _) hH).1.keysDistinct⟩

example : RegistryInv.Inv RegistryInv.cfg0 RegistryInv.f0 ∧ RegistryInv.HintsOk RegistryInv.f0 :=
  ⟨RegistryInv.inv_f0, RegistryInv.hintsOk_f0⟩

#print axioms File_Render_eq
#print axioms Statement_RenderWithFile_eq
#print axioms Group_RenderWithFile_eq
#print axioms File_Save_eq
#print axioms File_Render_eq_of_inv
#print axioms File_Save_eq_of_inv
#print axioms fileSaveFrom_callerWritten

end Tie
