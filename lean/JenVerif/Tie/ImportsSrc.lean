import JenVerif.Gen.SrcRegistry
import JenVerif.FileRender
import JenVerif.Lemmas.PermLemmas
/-
  Tie 1b — `File.renderImports` TRANSLATED from /repo's Go source (Gen/SrcRegistry.lean) writes,
  after whatever the writer already holds, exactly the text of the hand-written model
  `renderImports` (FileRender.lean), for every file state whose import table is a map (distinct keys).
-/
namespace Tie
open List

/-! ### general facts about folds -/

/-- a loop that only appends to its accumulator -/
theorem foldl_append_flatten {α β : Type _} (g : α → List β) (l : List α) (acc : List β) :
    l.foldl (fun a x => a ++ g x) acc = acc ++ (l.map g).flatten := by
  induction l generalizing acc with
  | nil => simp
  | cons x xs ih => simp [ih, List.append_assoc]

/-- a loop that collects one value per element -/
theorem foldl_snoc_map {α β : Type _} (g : α → β) (l : List α) (acc : List β) :
    l.foldl (fun a x => a ++ [g x]) acc = acc ++ l.map g := by
  induction l generalizing acc with
  | nil => simp
  | cons x xs ih => simp [ih, List.append_assoc]

theorem flatten_map_single {α β : Type _} (g : α → β) (l : List α) :
    (l.map fun x => [g x]).flatten = l.map g := by
  induction l with
  | nil => rfl
  | cons x xs ih => simp [ih]

theorem ite_append_left {α : Type _} (c : Prop) [Decidable c] (s a b : List α) :
    (if c then s ++ a else s ++ b) = s ++ (if c then a else b) := by
  split <;> rfl

/-! ### association lists -/

theorem insert_fresh {β : Type _} (m : List (Str × β)) (k : Str) (v : β)
    (h : k ∉ m.map (·.1)) : AList.insert m k v = m ++ [(k, v)] := by
  induction m with
  | nil => rfl
  | cons e es ih =>
    obtain ⟨k', v'⟩ := e
    simp only [map_cons, mem_cons, not_or] at h
    have hk : ¬ (k' == k) = true := by
      intro e; exact h.1 (beq_iff_eq.mp e).symm
    simp only [AList.insert, if_neg hk, ih h.2, cons_append]

/-- building a map from the entries of a map (distinct keys), skipping some of them, keeps the
    remaining entries in their order -/
theorem foldl_insert_if {β : Type _} (c : Str × β → Bool) (l acc : List (Str × β))
    (h : ((acc ++ l).map (·.1)).Nodup) :
    l.foldl (fun m kv => if c kv = true then m else AList.insert m kv.1 kv.2) acc
      = acc ++ l.filter (fun e => !c e) := by
  induction l generalizing acc with
  | nil => simp
  | cons e es ih =>
    rw [foldl_cons]
    cases hc : c e with
    | true =>
      have h' : ((acc ++ es).map (·.1)).Nodup := by
        refine h.sublist (Sublist.map _ ?_)
        exact Sublist.append_left (sublist_cons_self e es) acc
      simp [ih acc h', hc]
    | false =>
      have hfresh : e.1 ∉ acc.map (·.1) := by
        intro hm
        simp only [map_append, map_cons, nodup_append, mem_cons, forall_eq_or_imp] at h
        exact h.2.2 _ hm |>.1 rfl
      have h' : (((acc ++ [e]) ++ es).map (·.1)).Nodup := by simpa using h
      simp only [Bool.false_eq_true, if_false]
      rw [insert_fresh acc e.1 e.2 hfresh, ih _ h']
      simp [hc]

theorem lookup_of_mem {β : Type _} {m : List (Str × β)} (nd : (m.map (·.1)).Nodup)
    {e : Str × β} (he : e ∈ m) : AList.lookup m e.1 = some e.2 := by
  induction m with
  | nil => cases he
  | cons x xs ih =>
    obtain ⟨k', v'⟩ := x
    simp only [map_cons, nodup_cons, mem_map, not_exists, not_and] at nd
    rcases mem_cons.1 he with rfl | he'
    · simp [AList.lookup]
    · have hk : ¬ (k' == e.1) = true := by
        intro h; exact nd.1 e he' (beq_iff_eq.mp h).symm
      simp only [AList.lookup, if_neg hk]
      exact ih nd.2 he'

theorem getDef_of_mem {m : List (Str × Def)} (nd : (m.map (·.1)).Nodup)
    {e : Str × Def} (he : e ∈ m) : Go.getDef m e.1 = e.2 := by
  simp [Go.getDef, lookup_of_mem nd he]

/-! ### sorting the keys = the keys of the sorted entries -/

theorem sortStrings_keys (m : List (Str × Def)) :
    Go.sortStrings (m.map (·.1)) = (m.mergeSort pathLe).map (·.1) := by
  unfold Go.sortStrings
  apply Perm.eq_of_pairwise (le := fun a b => Str.le a b = true)
  · intro a b _ _ h1 h2; exact PermLemmas.le_antisymm h1 h2
  · exact pairwise_mergeSort (le := Str.le) (fun a b c => PermLemmas.le_trans) PermLemmas.le_total _
  · have := pairwise_mergeSort PermLemmas.pathLe_trans PermLemmas.pathLe_total m
    exact (pairwise_map).2 this
  · exact (mergeSort_perm _ _).trans ((mergeSort_perm m pathLe).map _).symm

/-! ### Go integer tests on lengths -/

theorem len_pos_eq {α : Type _} (l : List α) :
    decide ((Int.ofNat l.length) > (0 : Int)) = !l.isEmpty := by
  cases l <;> simp <;> omega

theorem sep_eq (x d : Bool) : ((x || d) && d) = d := by cases x <;> cases d <;> rfl

theorem len_two_ne_one (n : Nat) : ((Int.ofNat (n + 1 + 1)) == (1 : Int)) = false := by
  simp; omega

theorem len_two_gt_one (n : Nat) : decide ((Int.ofNat (n + 1 + 1)) > (1 : Int)) = true := by
  simp; omega


set_option linter.unusedSimpArgs false in
theorem renderImports_eq (cfg : Cfg) (f : FileS) (out : Str)
    (hc : ∀ (c : Str) (o : Str), Gen.Src.comment_render cfg c f o = o ++ renderComment c)
    (hk : (f.imports.map (·.1)).Nodup) :
    Gen.Src.renderImports cfg f out = out ++ renderImports cfg.isPrint f := by
  rw [PermLemmas.renderImports_eq]
  unfold Gen.Src.renderImports
  simp only [sep_eq, len_pos_eq]
  rw [foldl_insert_if _ _ _ (by simpa using hk)]
  have hfl : ((f.imports.filter fun e => !(e.1 == b!"C" && !f.cgo.isEmpty)).map (·.1)).Nodup :=
    hk.sublist (filter_sublist.map _)
  simp only [nil_append]
  generalize f.imports.filter (fun e => !(e.1 == b!"C" && !f.cgo.isEmpty)) = fl at hfl ⊢
  simp only [hc, append_assoc, ite_append_left, foldl_snoc_map, foldl_append_flatten, nil_append,
    flatten_map_single, sortStrings_keys, map_map, commentLines]
  rcases fl with _ | ⟨e1, _ | ⟨e2, rest⟩⟩
  · cases f.cgo.isEmpty <;> simp [PermLemmas.importsMain]
  · cases f.cgo.isEmpty <;> simp [PermLemmas.importsMain, importSpec] <;> split <;> simp
  · simp only [length_cons, len_two_ne_one, len_two_gt_one, Bool.false_eq_true, if_false, if_true,
      PermLemmas.importsMain]
    generalize e1 :: e2 :: rest = fl at hfl
    have hm : ∀ G : Str → Str, (∀ e ∈ fl, G e.1 = importSpec cfg.isPrint e ++ [10]) →
        map (G ∘ fun x => x.fst) (fl.mergeSort pathLe)
          = map (fun e => importSpec cfg.isPrint e ++ [10]) (fl.mergeSort pathLe) := by
      intro G hG
      apply map_congr_left
      intro e he
      exact hG e (mem_mergeSort.1 he)
    rw [hm]
    · cases f.cgo.isEmpty <;> simp
    · intro e he
      simp only [getDef_of_mem hfl he, importSpec]
      split <;> simp

#print axioms Tie.renderImports_eq

/-! ### the hypothesis about comments is satisfiable (indeed it holds outright)

  Kept in its own namespace: the official proof of the comment tie lives in another module. -/
namespace ImportsSrc

theorem hasSub_nl (c : Str) : Str.hasSub c ([10] : Str) = c.elem 10 := by
  induction c with
  | nil => rfl
  | cons x xs ih =>
    simp only [Str.hasSub, Str.isPrefixOf, ih, List.elem_cons]
    cases xs <;> simp [Bool.beq_comm] <;> cases (x == 10) <;> rfl

theorem hasSuffix_nl (c : Str) : Go.hasSuffix c ([10] : Str) = (c.getLast? == some 10) := by
  unfold Go.hasSuffix
  rw [List.getLast?_eq_head?_reverse]
  generalize c.reverse = r
  cases r with
  | nil => rfl
  | cons b bs => cases bs <;> simp [Str.isPrefixOf, Bool.beq_comm]

theorem comment_render_eq (cfg : Cfg) (c : Str) (f : FileS) (o : Str) :
    Gen.Src.comment_render cfg c f o = o ++ renderComment c := by
  unfold Gen.Src.comment_render renderComment
  simp only [hasSub_nl, hasSuffix_nl]
  split
  · rfl
  · cases c.elem 10
    · simp
    · cases (c.getLast? == some 10) <;> simp

/-- the statement without the hypothesis about comments -/
theorem renderImports_eq' (cfg : Cfg) (f : FileS) (out : Str)
    (hk : (f.imports.map (·.1)).Nodup) :
    Gen.Src.renderImports cfg f out = out ++ renderImports cfg.isPrint f :=
  Tie.renderImports_eq cfg f out (fun c o => comment_render_eq cfg c f o) hk

end ImportsSrc

#print axioms Tie.ImportsSrc.renderImports_eq'

/-! ### concrete instances -/

def exCfg : Cfg := { toLower := id, isPrint := fun _ => true, reserved := [], stdHints := [] }

/-- three imports, one of them `"C"` with a cgo preamble: two remain in the block -/
def exFile : FileS :=
  { imports := [(b!"fmt", ⟨b!"fmt", false⟩), (b!"C", ⟨b!"C", false⟩), (b!"a/b", ⟨b!"x", true⟩)],
    cgo := [b!"#include <stdio.h>"] }

/-- the hypotheses of `renderImports_eq` are satisfiable -/
example : Gen.Src.renderImports exCfg exFile b!"package p\n\n"
    = b!"package p\n\n" ++ renderImports exCfg.isPrint exFile :=
  renderImports_eq exCfg exFile _ (fun c o => ImportsSrc.comment_render_eq exCfg c exFile o)
    (by decide)

/- Both sides computed on the concrete state.  `List.mergeSort` is defined by well-founded
   recursion, which `decide` cannot evaluate; `simp` unfolds the sort, `decide +kernel` evaluates
   the rest (`Quote.quote`, …). -/
example : Gen.Src.renderImports exCfg exFile b!"package p\n\n"
    = b!"package p\n\nimport (\nx \"a/b\"\n\"fmt\"\n)\n\n// #include <stdio.h>\nimport \"C\"\n\n" := by
  simp [Gen.Src.renderImports, Gen.Src.comment_render, exFile, exCfg, Go.getDef, AList.lookup,
    AList.insert, Go.sortStrings, List.mergeSort, List.MergeSort.Internal.splitInTwo, Str.le]
  decide +kernel

example : b!"package p\n\n" ++ renderImports exCfg.isPrint exFile
    = b!"package p\n\nimport (\nx \"a/b\"\n\"fmt\"\n)\n\n// #include <stdio.h>\nimport \"C\"\n\n" := by
  simp [renderImports, importSpec, pathLe, commentLines, exFile, exCfg, List.mergeSort,
    List.MergeSort.Internal.splitInTwo, Str.le]
  decide +kernel

/-- a single import next to `"C"`: no sorting involved, both sides evaluate in the kernel -/
def exFile1 : FileS :=
  { imports := [(b!"C", ⟨b!"C", false⟩), (b!"a/b", ⟨b!"x", true⟩)], cgo := [b!"#include <stdio.h>"] }

example : Gen.Src.renderImports exCfg exFile1 b!"package p\n\n"
    = b!"package p\n\n" ++ renderImports exCfg.isPrint exFile1 := by decide +kernel

end Tie
