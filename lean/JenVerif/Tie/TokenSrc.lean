import JenVerif.Tie.RenderSrc
/-
  Tie 1b for `token.render` (jen/tokens.go): the function TRANSLATED from the Go source
  (`Gen.Src.token_render`: a switch over the token type and, for literal tokens, a type switch over
  the dynamic content with fmt verbs) equals the hand-written model `Code.renderS` on every token of
  the model (`.tok k s` / `.lit v`), for every configuration, File state, accumulated output and
  context.  In particular the `panic` branch (unsupported literal type) is never taken.
-/
namespace Tie
open Code

/-! ### `strings.Contains(s, "c")` for a one-byte pattern -/

private theorem isPrefixOf_byte (c : UInt8) (t : Str) : Str.isPrefixOf [c] t = (t.head? == some c) := by
  cases t with
  | nil => simp [Str.isPrefixOf]
  | cons x xs =>
    simp only [Str.isPrefixOf, Bool.and_true, List.head?_cons, Option.some_beq_some]
    exact Bool.beq_comm

theorem hasSub_byte (c : UInt8) (s : Str) : Str.hasSub s [c] = s.elem c := by
  induction s with
  | nil => rfl
  | cons x xs ih =>
    unfold Str.hasSub
    rw [ih, isPrefixOf_byte]
    simp only [List.head?_cons, Option.some_beq_some, List.elem_cons]
    rw [Bool.beq_comm]
    cases (c == x) <;> rfl

/-! ### the recursion parameter is used through `register` only -/

theorem token_render_congr (cfg : Cfg) (r r' : Go.Rec) (h : r.register = r'.register)
    (typ : Go.TokTyp) (val : Go.Dyn) (f : FileS) (w : Str) :
    Gen.Src.token_render cfg r typ val f w = Gen.Src.token_render cfg r' typ val f w := by
  unfold Gen.Src.token_render
  rw [h]

/-! ### literal tokens -/

theorem token_render_lit (cfg : Cfg) (rec : Go.Rec) (v : LitVal) (f : FileS) (w : Str) :
    Gen.Src.token_render cfg rec (Go.tokTyp (.lit v)) (Go.dynOf (.lit v)) f w
      = some (w ++ Lit.render cfg.isPrint v, f) := by
  cases v with
  | bool b => cases b <;> rfl
  | str s => rfl
  | int v => rfl
  | sized ty v =>
    cases ty <;>
      simp [Gen.Src.token_render, Go.tokTyp, Go.dynOf, Go.dynIs, Go.dynType, Go.typeName, Go.sharpV,
        NumTy.name, Lit.render]
  | f64 t =>
    simp only [Gen.Src.token_render, Go.tokTyp, Go.dynOf, Go.sharpV, Lit.render, Lit.floatFix,
      hasSub_byte]
    have h1 : Go.dynIs (.lit (.f64 t)) ["bool", "string", "int", "complex128"] = false := by rfl
    have h2 : Go.dynIs (.lit (.f64 t)) ["float64"] = true := by rfl
    simp only [h1, h2, beq_self_eq_true, if_true, Bool.false_eq_true, if_false]
    split <;> rfl
  | f32 t =>
    simp [Gen.Src.token_render, Go.tokTyp, Go.dynOf, Go.dynIs, Go.dynType, Go.typeName, Go.sharpV,
      Lit.render]
  | c128 re im => rfl
  | c64 re im =>
    simp [Gen.Src.token_render, Go.tokTyp, Go.dynOf, Go.dynIs, Go.dynType, Go.typeName, Go.sharpV,
      Lit.render]
  | rune r => rfl
  | byte b =>
    simp [Gen.Src.token_render, Go.tokTyp, Go.dynOf, Go.sharpV, Lit.render]

/-! ### plain tokens -/

theorem token_render_text (s : Str) (f : FileS) (w : Str) :
    (if (s == b!"default") = true then some (w ++ s ++ b!":", f) else some (w ++ s, f))
      = some (w ++ tokText s, f) := by
  unfold tokText
  split <;> simp

theorem token_render_tok (cfg : Cfg) (k : TokKind) (s : Str) (f : FileS) (w : Str) (prev : Option Code) :
    Gen.Src.token_render cfg (modelRec cfg) (Go.tokTyp (.tok k s)) (Go.dynOf (.tok k s)) f w
      = some (w ++ (Code.renderS cfg f prev (.tok k s)).1, (Code.renderS cfg f prev (.tok k s)).2) := by
  cases k with
  | pkg => simp [Gen.Src.token_render, Go.tokTyp, Go.dynOf, Go.dynStr, renderS, modelRec]
  | ident => simp [Gen.Src.token_render, Go.tokTyp, Go.dynOf, Go.dynStr, renderS]
  | null => simp [Gen.Src.token_render, Go.tokTyp, renderS]
  | kw =>
    simp only [Gen.Src.token_render, Go.tokTyp, Go.dynOf, Go.dynStr, renderS]
    exact token_render_text s f w
  | op =>
    simp only [Gen.Src.token_render, Go.tokTyp, Go.dynOf, Go.dynStr, renderS]
    exact token_render_text s f w
  | delim =>
    simp only [Gen.Src.token_render, Go.tokTyp, Go.dynOf, Go.dynStr, renderS]
    exact token_render_text s f w
  | layout =>
    simp only [Gen.Src.token_render, Go.tokTyp, Go.dynOf, Go.dynStr, renderS]
    exact token_render_text s f w

/-! ### `token.render` -/

/-- the translated `token.render` is the model's renderer on every token (never an error) -/
theorem token_render_eq (cfg : Cfg) (c : Code) (hc : (∃ k s, c = .tok k s) ∨ (∃ v, c = .lit v))
    (f : FileS) (w : Str) (prev : Option Code) :
    Gen.Src.token_render cfg (modelRec cfg) (Go.tokTyp c) (Go.dynOf c) f w
      = some (w ++ (Code.renderS cfg f prev c).1, (Code.renderS cfg f prev c).2) := by
  rcases hc with ⟨k, s, rfl⟩ | ⟨v, rfl⟩
  · exact token_render_tok cfg k s f w prev
  · rw [token_render_lit]
    simp only [renderS]

/-- the hypothesis is satisfiable, and the result is what jennifer prints -/
example : Gen.Src.token_render RegistryInv.cfg0 (modelRec RegistryInv.cfg0)
    (Go.tokTyp (.lit (.sized .uint8 7))) (Go.dynOf (.lit (.sized .uint8 7))) RegistryInv.f0 b!"x := "
      = some (b!"x := uint8(0x7)", RegistryInv.f0) := by
  rw [token_render_eq _ _ (Or.inr ⟨_, rfl⟩) _ _ none]
  rfl

#print axioms Tie.token_render_eq

end Tie
