import JenVerif.Tie.EntrySrc
import JenVerif.Tie.FileOpsSrc
/-
  Tie 1b, seventh group — the remaining entry points, TRANSLATED from the Go source as wrappers of
  the translated ones: `Statement.Render` / `Group.Render` (= `RenderWithFile(w, NewFile(""))`) and
  `Statement.GoString` / `Group.GoString` / `File.GoString` (= `Render` into an in-memory buffer; an
  error is raised as a panic).  They equal the model's `fragRenderFresh` / `fragGoString` /
  `fileGoString` for EVERY tree, every formatter, every writer.  With these, every exported function
  of package jen that renders anything is tied to the model by translation + proof.
-/
namespace Tie
open Code Refine

theorem good_newFile (tl : Str → Str) (ip : Nat → Bool) (n : Str) : Good (Props.cfgOf tl ip) (Registry.newFile n) := by
  have hH : RegistryInv.HintsOk (Registry.newFile n) := ⟨fun p h hm => by simp [Registry.newFile] at hm, Or.inl rfl⟩
  exact RegistryGood.good_of_hintsOk hH (Props.stdOk tl ip)

theorem callerWritten_eq (es : List Effect) : Go.callerWritten es = Effect.written es := rfl

theorem Statement_Render_eq (tl : Str → Str) (ip : Nat → Bool) (w : World) (items : List Code) :
    let cfg := Props.cfgOf tl ip
    (Gen.Src.Statement_Render cfg (modelRec cfg) w items).1 = (fragRenderFresh w cfg (.stmt items)).1 ∧
    (Gen.Src.Statement_Render cfg (modelRec cfg) w items).2.1 = (fragRenderFresh w cfg (.stmt items)).2.1 ∧
    (misuse (Registry.newFile []).np (.stmt items) = false →
      (Gen.Src.Statement_Render cfg (modelRec cfg) w items).2.2 = (fragRenderFresh w cfg (.stmt items)).2.2) := by
  intro cfg
  unfold Gen.Src.Statement_Render fragRenderFresh
  rw [NewFile_eq]
  exact Statement_RenderWithFile_eq cfg w _ (good_newFile tl ip []) items

theorem Group_Render_eq (tl : Str → Str) (ip : Nat → Bool) (w : World) (g : GInfo) (items : List Code) :
    let cfg := Props.cfgOf tl ip
    (Gen.Src.Group_Render cfg (modelRec cfg) w g items).1 = (fragRenderFresh w cfg (.group g items)).1 ∧
    (Gen.Src.Group_Render cfg (modelRec cfg) w g items).2.1 = (fragRenderFresh w cfg (.group g items)).2.1 ∧
    (misuse (Registry.newFile []).np (.group g items) = false →
      (Gen.Src.Group_Render cfg (modelRec cfg) w g items).2.2 = (fragRenderFresh w cfg (.group g items)).2.2) := by
  intro cfg
  unfold Gen.Src.Group_Render fragRenderFresh
  rw [NewFile_eq]
  exact Group_RenderWithFile_eq cfg w _ (good_newFile tl ip []) g items

/-- the GoString wrapper applied to two runs that agree on result and trace (and on the state when
    the result is ok) gives the same result and the same string -/
theorem goString_congr (a b : Result × List Effect × FileS) (h1 : a.1 = b.1) (h2 : a.2.1 = b.2.1) :
    (match a.1 with
      | Result.ok => (Result.ok, ([] : Str) ++ Go.callerWritten a.2.1, a.2.2)
      | e => (e, ([] : Str), a.2.2)).1 = (goStringFrom b).1 ∧
    (match a.1 with
      | Result.ok => (Result.ok, ([] : Str) ++ Go.callerWritten a.2.1, a.2.2)
      | e => (e, ([] : Str), a.2.2)).2.1 = (goStringFrom b).2.1 := by
  unfold goStringFrom
  rw [h1, h2]
  cases b.1 <;> simp [callerWritten_eq]

theorem Statement_GoString_eq (tl : Str → Str) (ip : Nat → Bool) (gofmt : Str → Option Str) (items : List Code) :
    let cfg := Props.cfgOf tl ip
    (Gen.Src.Statement_GoString cfg (modelRec cfg) gofmt items).1 = (fragGoString gofmt cfg (.stmt items)).1 ∧
    (Gen.Src.Statement_GoString cfg (modelRec cfg) gofmt items).2.1 = (fragGoString gofmt cfg (.stmt items)).2.1 := by
  intro cfg
  have h := Statement_Render_eq tl ip (World.buffered gofmt) items
  exact goString_congr _ _ h.1 h.2.1

theorem Group_GoString_eq (tl : Str → Str) (ip : Nat → Bool) (gofmt : Str → Option Str) (g : GInfo) (items : List Code) :
    let cfg := Props.cfgOf tl ip
    (Gen.Src.Group_GoString cfg (modelRec cfg) gofmt g items).1 = (fragGoString gofmt cfg (.group g items)).1 ∧
    (Gen.Src.Group_GoString cfg (modelRec cfg) gofmt g items).2.1 = (fragGoString gofmt cfg (.group g items)).2.1 := by
  intro cfg
  have h := Group_Render_eq tl ip (World.buffered gofmt) g items
  exact goString_congr _ _ h.1 h.2.1

/-- File.GoString, for every state satisfying the registry invariant and the hint guard -/
theorem File_GoString_eq (tl : Str → Str) (ip : Nat → Bool) (gofmt : Str → Option Str) (f : FileS)
    (hI : RegistryInv.Inv (Props.cfgOf tl ip) f) (hH : RegistryInv.HintsOk f) (items : List Code) :
    let cfg := Props.cfgOf tl ip
    (Gen.Src.GoString cfg (modelRec cfg) gofmt items f).1 = (fileGoString gofmt cfg f items).1 ∧
    (Gen.Src.GoString cfg (modelRec cfg) gofmt items f).2.1 = (fileGoString gofmt cfg f items).2.1 := by
  intro cfg
  have h := File_Render_eq_of_inv tl ip (World.buffered gofmt) f hI hH items
  exact goString_congr _ _ h.1 h.2.1

#print axioms Statement_Render_eq
#print axioms Group_Render_eq
#print axioms Statement_GoString_eq
#print axioms Group_GoString_eq
#print axioms File_GoString_eq

end Tie
