import JenVerif.Str
/-
  The tree of `Code` values that jennifer's API builds, as data.

  Go side (jen/jen.go:15): `Code` is an interface with six implementations
  (token, *Group, *Statement, Dict, tag, comment); a Go `nil` can sit in any item list.
-/

/-- token kinds of jen/tokens.go (literal tokens are the separate constructor `Code.lit`). -/
inductive TokKind
  | pkg | ident | kw | op | delim | layout | null
deriving DecidableEq, Repr, Inhabited

/-- the five data fields of `jen.Group` besides its items -/
structure GInfo where
  name : Str
  opn : Str
  cls : Str
  sep : Str
  multi : Bool
deriving DecidableEq, Repr, Inhabited

/-- sized numeric types that `Lit` wraps in a conversion `T(v)` -/
inductive NumTy
  | int8 | int16 | int32 | int64 | uint | uint8 | uint16 | uint32 | uint64 | uintptr
deriving DecidableEq, Repr, Inhabited

def NumTy.name : NumTy → Str
  | .int8 => b!"int8" | .int16 => b!"int16" | .int32 => b!"int32" | .int64 => b!"int64"
  | .uint => b!"uint" | .uint8 => b!"uint8" | .uint16 => b!"uint16" | .uint32 => b!"uint32"
  | .uint64 => b!"uint64" | .uintptr => b!"uintptr"

def NumTy.signed : NumTy → Bool
  | .int8 | .int16 | .int32 | .int64 => true
  | _ => false

/-- literal *values* as handed to `Lit`, `LitRune`, `LitByte`.
    Float digit generation (`strconv.FormatFloat`, shortest round trip) is a delegated library
    behaviour: the text it produced travels with the value (`txt`), see DESIGN §2.2. -/
inductive LitVal
  | bool (b : Bool)
  | str (s : Str)
  | int (v : Int)
  | sized (ty : NumTy) (v : Int)
  | f64 (txt : Str)
  | f32 (txt : Str)
  | c128 (re im : Str)
  | c64 (re im : Str)
  | rune (r : Int)
  | byte (b : UInt8)
deriving DecidableEq, Repr, Inhabited

inductive Code
  | nilc
  | tok (k : TokKind) (s : Str)
  | lit (v : LitVal)
  | group (g : GInfo) (items : List Code)
  | stmt (items : List Code)
  | dict (pairs : List (Code × Code))
  | tag (items : List (Str × Str))
  | comment (text : Str)
deriving Repr, Inhabited

namespace Code

/-- `Null()` -/
def null : Code := .tok .null []
/-- `Empty()` : an operator token with empty content -/
def empty : Code := .tok .op []

/-- the group built by `Qual(path, name)` (jen/tokens.go) -/
def qualInfo : GInfo := ⟨b!"qual", [], [], b!".", false⟩
def qual (path name : Str) : Code := .group qualInfo [.tok .pkg path, .tok .ident name]

/-- the Group embedded in a `File` (jen/file.go: `&Group{multi: true}`) -/
def fileInfo : GInfo := ⟨[], [], [], [], true⟩

end Code
