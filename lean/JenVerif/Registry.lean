import JenVerif.Code
/-
  The import registry of a `File` (jen/file.go): `isLocal`, `isDotImport`, `isValidAlias`,
  `guessAlias`, `register`, and the hint setters `ImportName(s)`, `ImportAlias`, `Anon`.

  Delegated behaviour is a parameter (`Cfg`): `strings.ToLower`, and the two tables that the
  translator regenerates from /repo (`reserved`, `standardLibraryHints`).
-/

/-- jen/file.go `importdef` -/
structure Def where
  name : Str
  alias : Bool
deriving DecidableEq, Repr, Inhabited

/-- parameters of the model: delegated library behaviour and regenerated tables -/
structure Cfg where
  toLower : Str → Str
  isPrint : Nat → Bool
  reserved : List Str
  stdHints : List (Str × Str)

/-- the registry-relevant and file-assembly fields of `jen.File` (the body lives elsewhere) -/
structure FileS where
  name : Str := []
  path : Str := []
  imports : List (Str × Def) := []
  hints : List (Str × Def) := []
  comments : List Str := []
  headers : List Str := []
  cgo : List Str := []
  noFormat : Bool := false
  pfx : Str := []
  canonical : Str := []
deriving Repr, Inhabited

namespace Registry

def isLowerAlnum (c : UInt8) : Bool := (97 ≤ c && c ≤ 122) || (48 ≤ c && c ≤ 57)
def isDigit (c : UInt8) : Bool := 48 ≤ c && c ≤ 57

/-- the part after the last `/` (whole string when there is none) -/
def lastElem : Str → Str → Str
  | acc, [] => acc
  | acc, c :: cs => if c == 47 then lastElem [] cs else lastElem (acc ++ [c]) cs

/-- jen/file.go:227 `guessAlias` -/
def guessAlias (toLower : Str → Str) (p : Str) : Str :=
  let a := if p.getLast? == some 47 then p.dropLast else p
  let a := lastElem [] a
  let a := toLower a
  let a := a.filter isLowerAlnum
  let a := a.dropWhile isDigit
  if a.isEmpty then b!"pkg" else a

def lookupImp (f : FileS) (p : Str) : Def := (AList.lookup f.imports p).getD ⟨[], false⟩
def lookupHint (f : FileS) (p : Str) : Def := (AList.lookup f.hints p).getD ⟨[], false⟩

/-- registered under a real name (not absent, not the Anon entry `_`) -/
def isReg (f : FileS) (p : Str) : Bool :=
  (lookupImp f p).name != [] && (lookupImp f p).name != b!"_"

def isLocal (f : FileS) (p : Str) : Bool := f.path == p

/-- jen/file.go `isDotImport` (after the D8/D9 repairs: `"C"` never; a registered name is final) -/
def isDotImport (f : FileS) (p : Str) : Bool :=
  if p == b!"C" then false
  else if isReg f p then (lookupImp f p).name == b!"."
  else (lookupHint f p).name == b!"." && (lookupHint f p).alias

/-- jen/file.go:132 `isValidAlias` -/
def isValidAlias (cfg : Cfg) (f : FileS) (a : Str) : Bool :=
  a == b!"." || (!cfg.reserved.contains a && !f.imports.any (fun e => e.2.name == a))

/-- jen/file.go `prefixed` (repairs D2/D3) -/
def prefixed (f : FileS) (name : Str) (alias : Bool) : Str :=
  if f.pfx != [] && alias && name != b!"." then f.pfx ++ b!"_" ++ name else name

/-- `fmt.Sprintf("%s%d", name, i)` for i ≥ 1, `name` for i = 0 -/
def candidate (name : Str) (i : Nat) : Str := if i == 0 then name else name ++ Str.natDec i

def acceptable (cfg : Cfg) (f : FileS) (name : Str) (alias : Bool) (i : Nat) : Bool :=
  isValidAlias cfg f (candidate name i) &&
  isValidAlias cfg f (prefixed f (candidate name i) (alias || i != 0))

/-- the uniquifier loop with fuel; returns the accepted index -/
def uniqLoop (cfg : Cfg) (f : FileS) (name : Str) (alias : Bool) : Nat → Nat → Nat
  | 0, i => i
  | fuel + 1, i => if acceptable cfg f name alias i then i else uniqLoop cfg f name alias fuel (i + 1)

def uniqFuel (cfg : Cfg) (f : FileS) : Nat := 2 * (cfg.reserved.length + f.imports.length) + 1

def stdHint (cfg : Cfg) (p : Str) : Str := (AList.lookup cfg.stdHints p).getD []

/-- the (name, alias) candidate for a path: user hint > std table > guess -/
def chooseBase (cfg : Cfg) (f : FileS) (p : Str) : Str × Bool :=
  if (lookupHint f p).name != [] then ((lookupHint f p).name, (lookupHint f p).alias)
  else if stdHint cfg p != [] then (stdHint cfg p, false)
  else (guessAlias cfg.toLower p, true)

/-- the final (name, alias) chosen for a path not yet registered (and not "C") -/
def chooseDef (cfg : Cfg) (f : FileS) (p : Str) : Def :=
  let (name, alias) := chooseBase cfg f p
  let i := uniqLoop cfg f name alias (uniqFuel cfg f) 0
  let alias' := alias || i != 0
  ⟨prefixed f (candidate name i) alias', alias'⟩

/-- jen/file.go:157 `register` -/
def register (cfg : Cfg) (f : FileS) (p : Str) : Str × FileS :=
  if isLocal f p then ([], f)
  else if isReg f p then ((lookupImp f p).name, f)
  else if p == b!"C" then (b!"C", { f with imports := AList.insert f.imports p ⟨b!"C", false⟩ })
  else
    let d := chooseDef cfg f p
    (d.name, { f with imports := AList.insert f.imports p d })

def anon (f : FileS) (p : Str) : FileS :=
  { f with imports := AList.insert f.imports p ⟨b!"_", true⟩ }

def importName (f : FileS) (p n : Str) : FileS :=
  { f with hints := AList.insert f.hints p ⟨n, false⟩ }

def importAlias (f : FileS) (p n : Str) : FileS :=
  { f with hints := AList.insert f.hints p ⟨n, true⟩ }

/-- `ImportNames(map)`: the entries in the order the runtime iterates the map (a parameter) -/
def importNames (f : FileS) (m : List (Str × Str)) : FileS :=
  m.foldl (fun f e => importName f e.1 e.2) f

/-! constructors and the file-level setters (jen/file.go `NewFile`, `NewFilePath`, `NewFilePathName`,
    `HeaderComment`, `PackageComment`, `CgoPreamble`); the embedded Group of every File is
    `Code.fileInfo` -/

def newFile (name : Str) : FileS := { name := name }
def newFilePath (toLower : Str → Str) (path : Str) : FileS := { name := guessAlias toLower path, path := path }
def newFilePathName (path name : Str) : FileS := { name := name, path := path }
def headerComment (f : FileS) (t : Str) : FileS := { f with headers := f.headers ++ [t] }
def packageComment (f : FileS) (t : Str) : FileS := { f with comments := f.comments ++ [t] }
def cgoPreamble (f : FileS) (t : Str) : FileS := { f with cgo := f.cgo ++ [t] }

end Registry
