import JenVerif.Spec.GoSyn
/-
  Protocol helpers shared by the driver, and the reader of GoSyn terms (C01 three-way tie:
  the harness serialises a go/ast tree; the driver builds it with the LEAN builder `GoSyn.buildD`,
  renders it with the model and prints it with the reference printer).
-/

def hexVal (c : UInt8) : UInt8 :=
  if c ≥ 48 && c ≤ 57 then c - 48 else if c ≥ 97 && c ≤ 102 then c - 87 else if c ≥ 65 && c ≤ 70 then c - 55 else 0

def unescAux : List UInt8 → List UInt8
  | 37 :: a :: b :: rest => (hexVal a * 16 + hexVal b) :: unescAux rest
  | c :: rest => c :: unescAux rest
  | [] => []

def unesc (s : String) : Str := if s == "~" then [] else unescAux s.toUTF8.toList

def escByte (b : UInt8) : List Char :=
  if (b ≥ 48 && b ≤ 57) || (b ≥ 65 && b ≤ 90) || (b ≥ 97 && b ≤ 122) || b == 46 || b == 47 || b == 95 || b == 45 then
    [Char.ofNat b.toNat]
  else ['%', Char.ofNat (Str.hexDigit (b.toNat / 16)).toNat, Char.ofNat (Str.hexDigit (b.toNat % 16)).toNat]

def esc (s : Str) : String := if s.isEmpty then "~" else String.ofList (s.flatMap escByte)

abbrev P := StateT (List String) (Except String)

def next : P String := do
  match (← get) with
  | [] => throw "unexpected end of line"
  | t :: rest => set rest; pure t

def nextNat : P Nat := do
  let t ← next
  match t.toNat? with
  | some n => pure n
  | none => throw s!"expected number, got {t}"

def nextStr : P Str := do pure (unesc (← next))

def nextReg : P Nat := do
  let t ← next
  match (t.drop 1).toNat? with
  | some n => pure n
  | none => throw s!"expected register, got {t}"

def rep {α} (n : Nat) (p : P α) : P (List α) := do
  let mut acc := []
  for _ in [0:n] do
    acc := (← p) :: acc
  pure acc.reverse


open GoSyn

def binOpOf (t : String) : Option BinOp :=
  [("+", BinOp.add), ("-", .sub), ("*", .mul), ("/", .quo), ("%", .rem), ("&", .and), ("|", .or), ("^", .xor),
   ("<<", .shl), (">>", .shr), ("&^", .andNot), ("&&", .land), ("||", .lor), ("==", .eql), ("!=", .neq),
   ("<", .lss), ("<=", .leq), (">", .gtr), (">=", .geq)].lookup t

def unOpOf (t : String) : Option UnOp :=
  [("+", UnOp.pos), ("-", .neg), ("!", .not), ("^", .xor), ("&", .addr), ("<-", .recv), ("~", .tilde)].lookup t

def assignOpOf (t : String) : Option AssignOp :=
  [("=", AssignOp.assign), (":=", .define), ("+=", .add), ("-=", .sub), ("*=", .mul), ("/=", .quo), ("%=", .rem),
   ("&=", .and), ("|=", .or), ("^=", .xor), ("<<=", .shl), (">>=", .shr), ("&^=", .andNot)].lookup t

def need {α} (o : Option α) (what : String) : P α :=
  match o with
  | some a => pure a
  | none => throw s!"bad {what}"

def nextOpText : P String := do
  let s ← nextStr
  pure (String.fromUTF8! (ByteArray.mk s.toArray))

def pOpt {α} (p : P α) : P (Option α) := do
  let t ← next
  if t == "-" then pure none else if t == "+" then (do let a ← p; pure (some a)) else throw s!"bad option tag {t}"

def pStrs : P (List Str) := do
  let n ← nextNat
  rep n nextStr

mutual
partial def pExpr : P Expr := do
  let t ← next
  match t with
  | "Ei" => do pure (.ident (← nextStr))
  | "El" => do pure (.basicLit (← nextStr))
  | "Eq" => do let p ← nextStr; let n ← nextStr; pure (.qual p n)
  | "Es" => do let x ← pExpr; let s ← nextStr; pure (.selector x s)
  | "Ec" => do let f ← pExpr; let n ← nextNat; let args ← rep n pExpr; pure (.call f args)
  | "Ecs" => do let f ← pExpr; let n ← nextNat; let args ← rep n pExpr; let l ← pExpr; pure (.callSpread f args l)
  | "Ex" => do let x ← pExpr; let i ← pExpr; pure (.index x i)
  | "Exl" => do let x ← pExpr; let n ← nextNat; let is ← rep n pExpr; pure (.indexList x is)
  | "Esl" => do let x ← pExpr; let lo ← pOpt pExpr; let hi ← pOpt pExpr; pure (.slice x lo hi)
  | "Es3" => do let x ← pExpr; let lo ← pOpt pExpr; let hi ← pOpt pExpr; let mx ← pOpt pExpr; pure (.slice3 x lo hi mx)
  | "Ep" => do pure (.star (← pExpr))
  | "Eu" => do let op ← need (unOpOf (← nextOpText)) "unary operator"; let x ← pExpr; pure (.unary op x)
  | "Eb" => do let x ← pExpr; let op ← need (binOpOf (← nextOpText)) "binary operator"; let y ← pExpr; pure (.binary x op y)
  | "Epa" => do pure (.paren (← pExpr))
  | "Ea" => do let x ← pExpr; let ty ← pOpt pExpr; pure (.typeAssert x ty)
  | "EC" => do let ty ← pOpt pExpr; let n ← nextNat; let es ← rep n pExpr; pure (.compositeLit ty es)
  | "Ek" => do let k ← pExpr; let v ← pExpr; pure (.keyValue k v)
  | "EF" => do let ps ← pFields; let rs ← pResults; let body ← pStmts; pure (.funcLit ps rs body)
  | "EA" => do let len ← pOpt pExpr; let el ← pExpr; pure (.arrayType len el)
  | "EM" => do let k ← pExpr; let v ← pExpr; pure (.mapType k v)
  | "Eh" => do
    let d ← next
    let dir ← match d with
      | "both" => pure ChanDir.both | "send" => pure ChanDir.send | "recv" => pure ChanDir.recv
      | _ => throw "bad chan dir"
    pure (.chanType dir (← pExpr))
  | "Ef" => do let ps ← pFields; let rs ← pResults; pure (.funcType ps rs)
  | "ET" => do pure (.structType (← pFields))
  | "EI" => do let n ← nextNat; let es ← rep n pIElem; pure (.interfaceType es)
  | "Ee" => do pure (.ellipsis (← pOpt pExpr))
  | _ => throw s!"bad expr tag {t}"
partial def pField : P Field := do
  let names ← pStrs
  let ty ← pExpr
  let tag ← pOpt nextStr
  pure (.mk names ty tag)
partial def pFields : P (List Field) := do
  let n ← nextNat
  rep n pField
partial def pResults : P Results := do
  let t ← next
  match t with
  | "R0" => pure .none
  | "R1" => do pure (.type (← pExpr))
  | "Rn" => do pure (.fields (← pFields))
  | _ => throw s!"bad results tag {t}"
partial def pIElem : P IElem := do
  let t ← next
  match t with
  | "Im" => do let n ← nextStr; let ps ← pFields; let rs ← pResults; pure (.method n ps rs)
  | "Ie" => do pure (.embed (← pExpr))
  | _ => throw s!"bad interface element tag {t}"
partial def pStmts : P (List Stmt) := do
  let n ← nextNat
  rep n pStmt
partial def pExprs : P (List Expr) := do
  let n ← nextNat
  rep n pExpr
partial def pStmt : P Stmt := do
  let t ← next
  match t with
  | "Se" => do pure (.expr (← pExpr))
  | "Sa" => do let l ← pExprs; let op ← need (assignOpOf (← nextOpText)) "assign operator"; let r ← pExprs; pure (.assign l op r)
  | "Si" => do let x ← pExpr; let o ← next; pure (.incDec x (if o == "inc" then .inc else .dec))
  | "Ss" => do let c ← pExpr; let v ← pExpr; pure (.send c v)
  | "Sr" => do pure (.ret (← pExprs))
  | "Sb" => do
    let k ← next
    let tok ← match k with
      | "break" => pure BranchTok.brk | "continue" => pure BranchTok.cont | "goto" => pure BranchTok.goto
      | "fallthrough" => pure BranchTok.fallthrough | _ => throw "bad branch"
    pure (.branch tok (← pOpt nextStr))
  | "SB" => do pure (.block (← pStmts))
  | "Sif" => do let i ← pOpt pStmt; let c ← pExpr; let b ← pStmts; let e ← pOpt pStmt; pure (.ifS i c b e)
  | "Sf" => do let c ← pOpt pExpr; let b ← pStmts; pure (.forS c b)
  | "Sfc" => do let i ← pOpt pStmt; let c ← pOpt pExpr; let p ← pOpt pStmt; let b ← pStmts; pure (.forClause i c p b)
  | "Srg" => do
    let k ← pOpt pExpr; let v ← pOpt pExpr; let d ← next; let x ← pExpr; let b ← pStmts
    pure (.range k v (d == "1") x b)
  | "Ssw" => do let i ← pOpt pStmt; let tg ← pOpt pExpr; let n ← nextNat; let cs ← rep n pClause; pure (.switch i tg cs)
  | "Sts" => do let i ← pOpt pStmt; let a ← pStmt; let n ← nextNat; let cs ← rep n pClause; pure (.typeSwitch i a cs)
  | "Ssl" => do let n ← nextNat; let cs ← rep n pCommClause; pure (.select cs)
  | "Sg" => do pure (.go (← pExpr))
  | "Sd" => do pure (.defer (← pExpr))
  | "SD" => do pure (.decl (← pGenDecl))
  | "Sl" => do let l ← nextStr; let s ← pStmt; pure (.labeled l s)
  | _ => throw s!"bad stmt tag {t}"
partial def pClause : P Clause := do
  let xs ← pExprs
  let b ← pStmts
  pure (.mk xs b)
partial def pCommClause : P CommClause := do
  let c ← pOpt pStmt
  let b ← pStmts
  pure (.mk c b)
partial def pSpec : P Spec := do
  let t ← next
  match t with
  | "Pv" => do let ns ← pStrs; let ty ← pOpt pExpr; let vs ← pExprs; pure (.value ns ty vs)
  | "Pt" => do let n ← nextStr; let tps ← pFields; let al ← next; let ty ← pExpr; pure (.type n tps (al == "1") ty)
  | _ => throw s!"bad spec tag {t}"
partial def pGenDecl : P GenDecl := do
  let t ← next
  let k ← next
  let tok ← match k with
    | "var" => pure DeclTok.var | "const" => pure DeclTok.const | "type" => pure DeclTok.type | _ => throw "bad decl token"
  match t with
  | "G1" => do pure (.one tok (← pSpec))
  | "Gn" => do let n ← nextNat; let ss ← rep n pSpec; pure (.defs tok ss)
  | _ => throw s!"bad gendecl tag {t}"
end

partial def pDecl : P Decl := do
  let t ← next
  match t with
  | "Df" => do
    let recv ← pOpt pField
    let name ← nextStr
    let tps ← pFields
    let ps ← pFields
    let rs ← pResults
    let body ← pStmts
    pure (.func recv name tps ps rs body)
  | "Dg" => do pure (.gen (← pGenDecl))
  | _ => throw s!"bad decl tag {t}"
