import JenVerif.Registry
import JenVerif.Lit
/-
  Null-ness and the renderer (jen/group.go, statement.go, tokens.go, dict.go, tag.go, comments.go)
  on the repaired tree: nil items are null everywhere (D4, D15), a case-block's braces are dropped
  locally instead of in place (D5), Dict keeps pairs with equal key text apart (D6).

  `renderS` is the *stateful* renderer: it threads the file (import registry) exactly like the
  Go code, calling `register` at every package token.  `renderP` is the *pure* renderer under
  a fixed naming environment; `Lemmas/Refine.lean` proves they agree (T-R).
-/

/-- comment rendering, jen/comments.go:79 -/
def renderComment (t : Str) : Str :=
  if Str.isPrefixOf b!"//" t || Str.isPrefixOf b!"/*" t then t
  else if t.elem 10 then
    b!"/*\n" ++ t ++ (if t.getLast? == some 10 then [] else b!"\n") ++ b!"*/"
  else b!"// " ++ t

/-- order of `sort.Strings` on the keys of a tag -/
def tagLe (a b : Str × Str) : Bool := Str.le a.1 b.1

/-- struct tag rendering, jen/tag.go:41 (the map's entries in any order; keys distinct) -/
def renderTag (isPrint : Nat → Bool) (items : List (Str × Str)) : Str :=
  let sorted := items.mergeSort tagLe
  let str := Str.join b!" " (sorted.map fun kv => kv.1 ++ b!":" ++ Quote.quote isPrint kv.2)
  if Quote.canBackquote str.length str then b!"`" ++ str ++ b!"`" else Quote.quote isPrint str

/-- keyword / operator / layout / delimiter token text, jen/tokens.go:77 -/
def tokText (s : Str) : Str := if s == b!"default" then s ++ b!":" else s

/-- is the raw previous item of the enclosing statement a `Case` group or a token whose
    content is the string "default" (jen/group.go:45-55) -/
def isCaseOrDefault : Option Code → Bool
  | some (.group g _) => g.name == b!"case"
  | some (.tok _ s) => s == b!"default"
  | some (.lit (.str s)) => s == b!"default"
  | _ => false

/-- open/close actually written for a group rendered after `prev` inside a statement -/
def effDelims (g : GInfo) (prev : Option Code) : Str × Str :=
  if g.name == b!"block" && isCaseOrDefault prev then ([], []) else (g.opn, g.cls)

/-- text written between the last item and the closer of a multi-line group -/
def closeSep (g : GInfo) (cls : Str) (empty : Bool) : Str :=
  if !empty && g.multi && cls != [] then (if g.sep == b!"," then b!",\n" else b!"\n") else []

/-- text written before a kept item of a group -/
def itemLead (g : GInfo) (first : Bool) : Str :=
  (if !first && g.sep != [] then g.sep else []) ++ (if g.multi then b!"\n" else [])

/-- order in which Dict pairs are written: by key text, then by value text -/
def dictLe (a b : Str × Str) : Bool :=
  if a.1 == b.1 then Str.le a.2 b.2 else Str.le a.1 b.1

namespace Code

mutual
/-- `isNull` under a package-token null-ness test `np` (dot-imported or local path) -/
def isNull (np : Str → Bool) : Code → Bool
  | .nilc => true
  | .tok .pkg s => np s
  | .tok .null _ => true
  | .tok _ _ => false
  | .lit _ => false
  | .group g items => g.opn == [] && g.cls == [] && allNull np items
  | .stmt items => allNull np items
  | .dict ps => dictNull np ps
  | .tag items => items.isEmpty
  | .comment _ => false
def allNull (np : Str → Bool) : List Code → Bool
  | [] => true
  | c :: cs => isNull np c && allNull np cs
def dictNull (np : Str → Bool) : List (Code × Code) → Bool
  | [] => true
  | (k, v) :: ps => (isNull np k || isNull np v) && dictNull np ps
end

def isDict : Code → Bool
  | .dict _ => true
  | _ => false

end Code

/-- the package-token null-ness test of a file state (jen/tokens.go:31) -/
def FileS.np (f : FileS) (p : Str) : Bool := Registry.isDotImport f p || Registry.isLocal f p

/-- one Dict pair as seen by the Dict renderer: null tests and render closures of key and value -/
structure DEntry (σ : Type) where
  kNull : (Str → Bool) → Bool
  vNull : (Str → Bool) → Bool
  kR : σ → Str × σ
  vR : σ → Str × σ

/-- first loop of `Dict.render`: skip null pairs, render key and value to text (threading the state) -/
def dictLoop1 {σ} (np : σ → Str → Bool) : σ → List (DEntry σ) → List (Str × Str × DEntry σ) × σ
  | f, [] => ([], f)
  | f, e :: es =>
    if e.kNull (np f) || e.vNull (np f) then dictLoop1 np f es
    else
      let r1 := e.kR f
      let r2 := e.vR r1.2
      let r3 := dictLoop1 np r2.2 es
      ((r1.1, r2.1, e) :: r3.1, r3.2)

/-- second loop of `Dict.render` over the sorted pairs -/
def dictLoop2 {σ} (n : Nat) : Bool → σ → List (Str × Str × DEntry σ) → Str × σ
  | _, f, [] => ([], f)
  | first, f, t :: es =>
    let r1 := t.2.2.kR f
    let r2 := t.2.2.vR r1.2
    let r3 := dictLoop2 n false r2.2 es
    ((if first && n > 1 then b!"\n" else []) ++ r1.1 ++ b!":" ++ r2.1 ++ (if n > 1 then b!",\n" else []) ++ r3.1, r3.2)

def dictKeyLe {σ} (a b : Str × Str × DEntry σ) : Bool := dictLe (a.1, a.2.1) (b.1, b.2.1)

def renderDictWith {σ} (np : σ → Str → Bool) (f : σ) (es : List (DEntry σ)) : Str × σ :=
  let r1 := dictLoop1 np f es
  let sorted := r1.1.mergeSort dictKeyLe
  dictLoop2 sorted.length true r1.2 sorted

namespace Code

mutual
/-- the stateful renderer; `prev` is the raw previous item of the enclosing statement -/
def renderS (cfg : Cfg) (f : FileS) (prev : Option Code) : Code → Str × FileS
  | .nilc => ([], f)
  | .tok .pkg s => Registry.register cfg f s
  | .tok .null _ => ([], f)
  | .tok .ident s => (s, f)
  | .tok _ s => (tokText s, f)
  | .lit v => (Lit.render cfg.isPrint v, f)
  | .group g items =>
    if g.name == b!"types" && allNull f.np items then ([], f)
    else
      let d := effDelims g prev
      let r := renderItemsS cfg g true f items
      (d.1 ++ r.1 ++ closeSep g d.2 r.2.1 ++ d.2, r.2.2)
  | .stmt items => renderStmtS cfg true none f items
  | .dict ps => renderDictWith FileS.np f (dictEntriesS cfg ps)
  | .tag items => (renderTag cfg.isPrint items, f)
  | .comment t => (renderComment t, f)
/-- jen/group.go:86 `renderItems`: returns (text, nothing-was-rendered, state) -/
def renderItemsS (cfg : Cfg) (g : GInfo) (first : Bool) (f : FileS) : List Code → Str × Bool × FileS
  | [] => ([], first, f)
  | c :: cs =>
    let f0 := match c with
      | .tok .pkg s => (Registry.register cfg f s).2
      | _ => f
    if isNull f0.np c then renderItemsS cfg g first f0 cs
    else
      let r1 := renderS cfg f0 none c
      let r2 := renderItemsS cfg g false r1.2 cs
      (itemLead g first ++ r1.1 ++ r2.1, r2.2.1, r2.2.2)
/-- jen/statement.go:50 `Statement.render` -/
def renderStmtS (cfg : Cfg) (first : Bool) (prev : Option Code) (f : FileS) : List Code → Str × FileS
  | [] => ([], f)
  | c :: cs =>
    if isNull f.np c then renderStmtS cfg first (some c) f cs
    else
      let r1 := renderS cfg f prev c
      let r2 := renderStmtS cfg false (some c) r1.2 cs
      ((if first then [] else b!" ") ++ r1.1 ++ r2.1, r2.2)
def dictEntriesS (cfg : Cfg) : List (Code × Code) → List (DEntry FileS)
  | [] => []
  | (k, v) :: ps =>
    { kNull := fun np => isNull np k, vNull := fun np => isNull np v,
      kR := fun f => renderS cfg f none k, vR := fun f => renderS cfg f none v } :: dictEntriesS cfg ps
end

/-- naming environment of the pure renderer -/
structure Env where
  np : Str → Bool
  name : Str → Str

/-- first loop of Dict under a fixed environment -/
def dictTextsP (kn vn : Bool) (kt vt : Str) (rest : List (Str × Str)) : List (Str × Str) :=
  if kn || vn then rest else (kt, vt) :: rest

def dictBodyP (n : Nat) : Bool → List (Str × Str) → Str
  | _, [] => []
  | first, (kt, vt) :: es =>
    (if first && n > 1 then b!"\n" else []) ++ kt ++ b!":" ++ vt ++ (if n > 1 then b!",\n" else []) ++ dictBodyP n false es

mutual
/-- the pure renderer under a fixed environment -/
def renderP (cfg : Cfg) (e : Env) (prev : Option Code) : Code → Str
  | .nilc => []
  | .tok .pkg s => e.name s
  | .tok .null _ => []
  | .tok .ident s => s
  | .tok _ s => tokText s
  | .lit v => Lit.render cfg.isPrint v
  | .group g items =>
    if g.name == b!"types" && allNull e.np items then []
    else
      let d := effDelims g prev
      let r := renderItemsP cfg e g true items
      d.1 ++ r.1 ++ closeSep g d.2 r.2 ++ d.2
  | .stmt items => renderStmtP cfg e true none items
  | .dict ps =>
    let sorted := (dictPairsP cfg e ps).mergeSort dictLe
    dictBodyP sorted.length true sorted
  | .tag items => renderTag cfg.isPrint items
  | .comment t => renderComment t
def renderItemsP (cfg : Cfg) (e : Env) (g : GInfo) (first : Bool) : List Code → Str × Bool
  | [] => ([], first)
  | c :: cs =>
    if isNull e.np c then renderItemsP cfg e g first cs
    else
      let r2 := renderItemsP cfg e g false cs
      (itemLead g first ++ renderP cfg e none c ++ r2.1, r2.2)
def renderStmtP (cfg : Cfg) (e : Env) (first : Bool) (prev : Option Code) : List Code → Str
  | [] => []
  | c :: cs =>
    if isNull e.np c then renderStmtP cfg e first (some c) cs
    else (if first then [] else b!" ") ++ renderP cfg e prev c ++ renderStmtP cfg e false (some c) cs
def dictPairsP (cfg : Cfg) (e : Env) : List (Code × Code) → List (Str × Str)
  | [] => []
  | (k, v) :: ps =>
    dictTextsP (isNull e.np k) (isNull e.np v) (renderP cfg e none k) (renderP cfg e none v) (dictPairsP cfg e ps)
end

/-- number of items of a list that render something (jen/group.go `countItems`, D15 repair) -/
def countKept (np : Str → Bool) : List Code → Nat
  | [] => 0
  | c :: cs => (if isNull np c then 0 else 1) + countKept np cs

mutual
/-- does rendering reach the documented misuse "Dict beside other items in Values"
    (jen/group.go `renderItems`; an error after the D10 repair; only items that render
    something count as "other items" after the D15 repair) -/
def misuse (np : Str → Bool) : Code → Bool
  | .group g items =>
    if g.name == b!"types" && allNull np items then false
    else misuseItems np (g.name == b!"values" && countKept np items > 1) items
  | .stmt items => misuseList np items
  | .dict ps => misusePairs np ps
  | _ => false
def misuseItems (np : Str → Bool) (dictBad : Bool) : List Code → Bool
  | [] => false
  | c :: cs =>
    if isNull np c then misuseItems np dictBad cs
    else (dictBad && isDict c) || misuse np c || misuseItems np dictBad cs
def misuseList (np : Str → Bool) : List Code → Bool
  | [] => false
  | c :: cs => (!isNull np c && misuse np c) || misuseList np cs
def misusePairs (np : Str → Bool) : List (Code × Code) → Bool
  | [] => false
  | (k, v) :: ps =>
    (!(isNull np k || isNull np v) && (misuse np k || misuse np v)) || misusePairs np ps
end

end Code
