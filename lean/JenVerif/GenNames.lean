import JenVerif.Str
/-
  Model of the pure part of gennames (`gennames/hints.go: getPackages`): from the lines printed by
  `go list -e -f "{{ .Standard }} {{ .ImportPath }} {{ .Name }}"` to the path -> name table.
  The `exec` of `go list`, the environment and the regexp engine are outside the model: the lines
  and the filter predicate are parameters.
-/
namespace GenNames

structure Line where
  standard : Bool
  path : Str
  name : Str
deriving Repr, DecidableEq

/-- index just after the LAST occurrence of `pat` in `s`, scanning from position `i` -/
def lastIndexAux (pat : Str) : Nat → Str → Option Nat → Option Nat
  | _, [], acc => acc
  | i, c :: cs, acc =>
    lastIndexAux pat (i + 1) cs (if Str.isPrefixOf pat (c :: cs) then some i else acc)

/-- `strings.LastIndex(s, pat)` for a non-empty pattern -/
def lastIndex (s pat : Str) : Option Nat := lastIndexAux pat 0 s none

/-- cmd/go's `findVendor`, as copied into gennames: index of the final "vendor" path element -/
def findVendor (p : Str) : Option Nat :=
  match lastIndex p b!"/vendor/" with
  | some i => some (i + 1)
  | none => if Str.isPrefixOf b!"vendor/" p then some 0 else none

def hasVendor (p : Str) : Bool := (findVendor p).isSome

def unvendorPath (p : Str) : Str :=
  match findVendor p with
  | some i => p.drop (i + 7)
  | none => p

/-- the loop of `getPackages` -/
def getPackages (accepts : Str → Bool) (standard novendor : Bool) : List Line → List (Str × Str) → List (Str × Str)
  | [], acc => acc
  | l :: ls, acc =>
    if l.standard != standard then getPackages accepts standard novendor ls acc
    else if novendor && hasVendor l.path then getPackages accepts standard novendor ls acc
    else if l.name == b!"main" then getPackages accepts standard novendor ls acc
    else if !accepts l.path then getPackages accepts standard novendor ls acc
    else
      let p := unvendorPath l.path
      -- `if packages[path] != "" { continue }` : the first entry wins
      if ((AList.lookup acc p).getD []) != [] then getPackages accepts standard novendor ls acc
      else getPackages accepts standard novendor ls (AList.insert acc p l.name)

/-- a line that can produce an entry -/
def passesFilters (accepts : Str → Bool) (standard novendor : Bool) (l : Line) : Bool :=
  l.standard == standard && !(novendor && hasVendor l.path) && l.name != b!"main" && accepts l.path

end GenNames
