import JenVerif.Spec.StructTag
import JenVerif.Lemmas.QuoteRT
import JenVerif.Lemmas.PermLemmas
/-
  Struct tags (jen/tag.go, model `renderTag`) read back through
    * the Go-specification string-literal readers (`GoLex.readRaw` / `GoLex.readString`), and
    * `reflect.StructTag.Lookup` (model `StructTag.lookup`).

  Main results (namespace `TagRT`):
    scan_quoted_stops_at_end   the backslash-skipping scan of `reflect` stops at the closing quote
    literal_valid / literal_value   the rendered tag is exactly one Go string literal
    lookup_roundtrip           literal → value → Lookup(key) gives back the value of every key
    lookup_absent              … and a key that is not in the map is not found
    keys_sorted, keys_strictly_sorted   the entries appear sorted by key
    empty_is_null, tag_null_iff, renderTag_nil, tag_perm
  Core Lean only.
-/

namespace TagRT
open Quote GoLex StructTag QuoteRT

/-! ### the quoted-string scan of `reflect.StructTag.Lookup` on the output of `strconv.Quote` -/

/-- a byte that the scan steps over one at a time -/
def plainB (b : UInt8) : Prop := b ≠ 0x22 ∧ b ≠ 0x5C

instance (b : UInt8) : Decidable (plainB b) := by unfold plainB; infer_instance

/-- text made of plain bytes and of two-byte groups "backslash, any byte": the invariant of the
    body of `strconv.Quote` (all escape sequences are a backslash, one arbitrary byte – possibly a
    quote or a backslash – and then only hex digits, which are plain). -/
inductive Chunks : Str → Prop
  | nil : Chunks []
  | plain (c : UInt8) (t : Str) : plainB c → Chunks t → Chunks (c :: t)
  | esc (d : UInt8) (t : Str) : Chunks t → Chunks (0x5C :: d :: t)

theorem Chunks.append {a b : Str} (ha : Chunks a) (hb : Chunks b) : Chunks (a ++ b) := by
  induction ha with
  | nil => exact hb
  | plain c t hc _ ih => exact Chunks.plain c _ hc ih
  | esc d t _ ih => exact Chunks.esc d _ ih

theorem Chunks.of_plain {a : Str} (h : ∀ b ∈ a, plainB b) : Chunks a := by
  induction a with
  | nil => exact Chunks.nil
  | cons c t ih =>
    exact Chunks.plain c t (h c (by simp)) (ih (fun b hb => h b (by simp [hb])))

/-- backslash, any byte, then plain bytes -/
theorem Chunks.esc_plain (d : UInt8) {a : Str} (h : ∀ b ∈ a, plainB b) :
    Chunks ([0x5C, d] ++ a) := Chunks.esc d a (Chunks.of_plain h)

theorem hexDigit_plain : ∀ n, n < 16 → plainB (Str.hexDigit n) := by decide

theorem hex2_plain (v : Nat) : ∀ b ∈ hex2 v, plainB b := by
  intro b hb
  simp only [hex2, List.mem_cons, List.not_mem_nil, or_false] at hb
  rcases hb with rfl | rfl <;> exact hexDigit_plain _ (by omega)

theorem hex4_plain (v : Nat) : ∀ b ∈ hex4 v, plainB b := by
  intro b hb
  simp only [hex4, List.mem_append] at hb
  rcases hb with hb | hb <;> exact hex2_plain _ b hb

theorem hex8_plain (v : Nat) : ∀ b ∈ hex8 v, plainB b := by
  intro b hb
  simp only [hex8, List.mem_append] at hb
  rcases hb with hb | hb <;> exact hex4_plain _ b hb

theorem nil_plain : ∀ b ∈ ([] : Str), plainB b := fun b hb => absurd hb (by simp)

/-- the UTF-8 encoding of a valid code point other than `"` and `\` consists of plain bytes -/
theorem encodeRune_plain (r : Nat) (hv : validRune r = true) (h22 : r ≠ 0x22) (h5c : r ≠ 0x5C) :
    ∀ b ∈ encodeRune r, plainB b := by
  obtain ⟨c, t, he, h1, h2⟩ := encode_head r hv
  rw [he]
  by_cases hr : r < 0x80
  · obtain ⟨hc, ht⟩ := h1 hr
    subst ht
    intro b hb
    simp only [List.mem_cons, List.not_mem_nil, or_false] at hb
    subst hb
    constructor
    · intro h; rw [h] at hc; simp at hc; omega
    · intro h; rw [h] at hc; simp at hc; omega
  · intro b hb
    have := (h2 (by omega)).2.2 b hb
    constructor
    · intro h; rw [h] at this; simp at this
    · intro h; rw [h] at this; simp at this

/-- one escaped rune of `strconv.Quote` -/
theorem escapeRune_chunks (isPrint : Nat → Bool) (q : UInt8) (r : Nat) (hv : validRune r = true)
    (hq : q = 0x22) : Chunks (escapeRune isPrint q r) := by
  subst hq
  unfold escapeRune
  by_cases h1 : (r == (0x22 : UInt8).toNat || r == 0x5C) = true
  · rw [if_pos h1]; exact Chunks.esc_plain _ nil_plain
  rw [if_neg h1]
  simp only [Bool.or_eq_true, beq_iff_eq, not_or] at h1
  by_cases h2 : printable isPrint r = true
  · rw [if_pos h2]; exact Chunks.of_plain (encodeRune_plain r hv h1.1 h1.2)
  rw [if_neg h2]
  by_cases h : (r == 7) = true
  · rw [if_pos h]; exact Chunks.esc_plain _ nil_plain
  rw [if_neg h]; clear h
  by_cases h : (r == 8) = true
  · rw [if_pos h]; exact Chunks.esc_plain _ nil_plain
  rw [if_neg h]; clear h
  by_cases h : (r == 12) = true
  · rw [if_pos h]; exact Chunks.esc_plain _ nil_plain
  rw [if_neg h]; clear h
  by_cases h : (r == 10) = true
  · rw [if_pos h]; exact Chunks.esc_plain _ nil_plain
  rw [if_neg h]; clear h
  by_cases h : (r == 13) = true
  · rw [if_pos h]; exact Chunks.esc_plain _ nil_plain
  rw [if_neg h]; clear h
  by_cases h : (r == 9) = true
  · rw [if_pos h]; exact Chunks.esc_plain _ nil_plain
  rw [if_neg h]; clear h
  by_cases h : (r == 11) = true
  · rw [if_pos h]; exact Chunks.esc_plain _ nil_plain
  rw [if_neg h]; clear h
  by_cases hx : (decide (r < 0x20) || r == 0x7F) = true
  · rw [if_pos hx]; exact Chunks.esc_plain _ (hex2_plain r)
  rw [if_neg hx]
  dsimp only
  generalize (if validRune r = true then r else runeError) = r'
  split
  · exact Chunks.esc_plain _ (hex4_plain _)
  · exact Chunks.esc_plain _ (hex8_plain _)

/-- the body of `strconv.Quote(s)` (any byte string `s`, any `isPrint`) -/
theorem quoteBody_chunks (isPrint : Nat → Bool) :
    ∀ (fuel : Nat) (s : Str), Chunks (quoteBody isPrint 0x22 fuel s) := by
  intro fuel
  induction fuel with
  | zero => intro s; exact Chunks.nil
  | succ fuel ih =>
    intro s
    cases s with
    | nil => exact Chunks.nil
    | cons b0 t =>
      rw [quoteBody_cons]
      obtain ⟨r, w, hd⟩ : ∃ r w, decodeRune (b0 :: t) = (r, w) := ⟨_, _, rfl⟩
      rw [hd]
      dsimp only
      by_cases hc : (w == 1 && r == runeError) = true
      · rw [if_pos hc]
        exact (Chunks.esc_plain _ (hex2_plain _)).append (ih t)
      · rw [if_neg hc]
        have hc' : ¬ (w = 1 ∧ r = runeError) := by simpa using hc
        obtain ⟨hv, _⟩ := decode_encode b0 t r w hd hc'
        exact (escapeRune_chunks isPrint 0x22 r hv rfl).append (ih _)

/-- on chunked text followed by a quote, the scan stops exactly at that quote -/
theorem scan_chunks {a : Str} (ha : Chunks a) (rest : Str) :
    ∀ i, scanQuotedFrom (a ++ 0x22 :: rest) i = some (i + a.length) := by
  induction ha with
  | nil =>
    intro i
    cases rest with
    | nil => rfl
    | cons d t => rfl
  | plain c t hc _ ih =>
    intro i
    obtain ⟨d, u, hu⟩ : ∃ d u, t ++ 0x22 :: rest = d :: u := by
      cases t with
      | nil => exact ⟨_, _, rfl⟩
      | cons x y => exact ⟨_, _, rfl⟩
    have := ih (i + 1)
    rw [List.cons_append, hu] at *
    rw [scanQuotedFrom, if_neg (by simpa using hc.1), if_neg (by simpa using hc.2), this]
    simp only [List.length_cons]
    congr 1; omega
  | esc d t _ ih =>
    intro i
    have := ih (i + 2)
    rw [List.cons_append, List.cons_append, scanQuotedFrom, if_neg (by decide), if_pos (by decide),
      this]
    simp only [List.length_cons]
    congr 1; omega

/-- **The scan of `reflect.StructTag.Lookup` over a value written by `strconv.Quote`.**
    Started (with `i = 1`) on text that begins with `Quote(v)`, the loop
    `for i < len(tag) && tag[i] != '"' { if tag[i] == '\\' { i++ }; i++ }` ends with `i` the index
    of the closing quote of `Quote(v)` – for every byte string `v` (also invalid UTF-8), whatever
    follows, and for every `isPrint` (the `PSafe` assumption is not needed here). -/
theorem scan_quoted_stops_at_end (isPrint : Nat → Bool) (v rest : Str) :
    scanQuoted (quote isPrint v ++ rest) = some ((quote isPrint v).length - 1) := by
  unfold scanQuoted quote
  show scanQuotedFrom ((0x22 :: ((quoteBody isPrint 0x22 v.length v ++ [0x22]) ++ rest)).drop 1) 1 = _
  rw [List.drop_succ_cons, List.drop_zero, List.append_assoc]
  show scanQuotedFrom (quoteBody isPrint 0x22 v.length v ++ 0x22 :: rest) 1 = _
  rw [scan_chunks (quoteBody_chunks isPrint _ _) rest 1]
  simp only [List.length_append, List.length_cons, List.length_nil]
  congr 1

/-- consequence in the form used by `Lookup`: `qvalue` is `Quote(v)`, the remaining tag is `rest` -/
theorem scan_quoted_split (isPrint : Nat → Bool) (v rest : Str) :
    ∃ i, scanQuoted (quote isPrint v ++ rest) = some i ∧
      (quote isPrint v ++ rest).take (i + 1) = quote isPrint v ∧
      (quote isPrint v ++ rest).drop (i + 1) = rest := by
  refine ⟨_, scan_quoted_stops_at_end isPrint v rest, ?_, ?_⟩
  · have hl : (quote isPrint v).length - 1 + 1 = (quote isPrint v).length := by
      unfold quote; simp
    rw [hl, List.take_left]
  · have hl : (quote isPrint v).length - 1 + 1 = (quote isPrint v).length := by
      unfold quote; simp
    rw [hl, List.drop_left]

/-! ### one `key:"value"` entry through one iteration of the loop of `Lookup` -/

/-- the text of one entry, as written by jen/tag.go: `fmt.Sprintf("%s:%q", k, v)` -/
def entry (isPrint : Nat → Bool) (kv : Str × Str) : Str :=
  kv.1 ++ b!":" ++ quote isPrint kv.2

theorem convKey_iff (k : Str) : convKey k = true ↔
    k ≠ [] ∧ ∀ c ∈ k, 0x21 ≤ c.toNat ∧ c.toNat ≤ 0x7E ∧ c ≠ 0x22 ∧ c ≠ 0x3A := by
  unfold convKey
  simp only [Bool.and_eq_true, Bool.not_eq_true', List.isEmpty_eq_false_iff, List.all_eq_true,
    decide_eq_true_eq, UInt8.le_iff_toNat_le, UInt8.reduceToNat, bne_iff_ne, ne_eq]
  constructor
  · rintro ⟨h1, h2⟩
    exact ⟨h1, fun c hc => ⟨(h2 c hc).1.1.1, (h2 c hc).1.1.2, (h2 c hc).1.2, (h2 c hc).2⟩⟩
  · rintro ⟨h1, h2⟩
    exact ⟨h1, fun c hc => ⟨⟨⟨(h2 c hc).1, (h2 c hc).2.1⟩, (h2 c hc).2.2.1⟩, (h2 c hc).2.2.2⟩⟩

theorem isNameByte_of_conv (c : UInt8) (h1 : 0x21 ≤ c.toNat) (h2 : c.toNat ≤ 0x7E) (h3 : c ≠ 0x22)
    (h4 : c ≠ 0x3A) : isNameByte c = true := by
  unfold isNameByte
  simp only [Bool.and_eq_true, decide_eq_true_eq, bne_iff_ne, ne_eq, GT.gt, UInt8.lt_iff_toNat_lt,
    UInt8.reduceToNat]
  refine ⟨⟨⟨by omega, h4⟩, h3⟩, ?_⟩
  intro h; rw [h] at h2; simp at h2

theorem step_space (s : Str) : step (0x20 :: s) = step s := rfl

theorem lookupAux_space (fuel : Nat) (s key : Str) :
    lookupAux fuel (0x20 :: s) key = lookupAux fuel s key := by
  cases fuel with
  | zero => rfl
  | succ f => rw [lookupAux, lookupAux, step_space]

/-- one iteration on `k:"…" tail`: the name is `k`, the quoted value is exactly `Quote(v)`, and the
    remaining tag is `tail` -/
theorem step_entry (isPrint : Nat → Bool) (k v tail : Str) (hk : convKey k = true) :
    step (entry isPrint (k, v) ++ tail) = some (k, quote isPrint v, tail) := by
  obtain ⟨hne, hall⟩ := (convKey_iff k).mp hk
  have hname : ∀ c ∈ k, isNameByte c = true := fun c hc =>
    isNameByte_of_conv c (hall c hc).1 (hall c hc).2.1 (hall c hc).2.2.1 (hall c hc).2.2.2
  obtain ⟨c, t, rfl⟩ : ∃ c t, k = c :: t := by
    cases k with
    | nil => exact absurd rfl hne
    | cons c t => exact ⟨c, t, rfl⟩
  have hc20 : ¬ (c == 0x20) = true := by
    have := (hall c (by simp)).1
    simp only [beq_iff_eq]
    intro h; rw [h] at this; simp at this
  -- shape of the text
  have hshape : entry isPrint (c :: t, v) ++ tail =
      (c :: t) ++ (0x3A :: (quote isPrint v ++ tail)) := by
    simp [entry]
  have hq : ∃ u, quote isPrint v ++ tail = 0x22 :: u := ⟨_, rfl⟩
  obtain ⟨u, hu⟩ := hq
  rw [hshape]
  have hskip : skipSpaces ((c :: t) ++ (0x3A :: (quote isPrint v ++ tail))) =
      (c :: t) ++ (0x3A :: (quote isPrint v ++ tail)) := by
    rw [List.cons_append, skipSpaces, if_neg hc20]
  unfold step
  rw [hskip]
  dsimp only
  rw [if_neg (by simp), List.takeWhile_append_of_pos hname, List.dropWhile_append_of_pos hname]
  rw [List.takeWhile_cons_of_neg (by decide), List.dropWhile_cons_of_neg (by decide),
    List.append_nil]
  obtain ⟨i, hi, htake, hdrop⟩ := scan_quoted_split isPrint v tail
  rw [hu] at hi htake hdrop ⊢
  unfold afterName
  dsimp only
  rw [if_neg (by simp), hi]
  dsimp only
  rw [htake, hdrop]

variable {isPrint : Nat → Bool}

theorem unquote_quote (hp : PSafe isPrint) (v : Str) : unquote (quote isPrint v) = some v := by
  have := string_roundtrip hp v []
  rw [List.append_nil] at this
  unfold unquote
  rw [this]

/-- a matching entry at the head of the tag is found -/
theorem lookupAux_hit (hp : PSafe isPrint) (fuel : Nat) (k v tail : Str) (hk : convKey k = true) :
    lookupAux (fuel + 1) (entry isPrint (k, v) ++ tail) k = some v := by
  rw [lookupAux, step_entry isPrint k v tail hk]
  dsimp only
  rw [if_pos (by simp), unquote_quote hp]

/-- an entry with another key at the head of the tag is skipped -/
theorem lookupAux_skip (fuel : Nat) (k v tail key : Str) (hk : convKey k = true) (hne : key ≠ k) :
    lookupAux (fuel + 1) (entry isPrint (k, v) ++ tail) key = lookupAux fuel tail key := by
  rw [lookupAux, step_entry isPrint k v tail hk]
  dsimp only
  rw [if_neg (by simpa using hne)]

/-- the unquoted text of a tag: the entries joined by single spaces -/
def tagText (isPrint : Nat → Bool) (es : List (Str × Str)) : Str :=
  Str.join b!" " (es.map (entry isPrint))

theorem tagText_cons_cons (e e2 : Str × Str) (es : List (Str × Str)) :
    tagText isPrint (e :: e2 :: es) = entry isPrint e ++ (0x20 :: tagText isPrint (e2 :: es)) := by
  simp [tagText, Str.join]

theorem tagText_single (e : Str × Str) : tagText isPrint [e] = entry isPrint e ++ [] := by
  simp [tagText, Str.join]

/-- `Lookup` on the unquoted tag text finds the value of every key (keys distinct and in the
    conventional alphabet), skipping the entries in front of it -/
theorem lookupAux_tagText (hp : PSafe isPrint) :
    ∀ (es : List (Str × Str)), (es.map (·.1)).Nodup → (∀ kv ∈ es, convKey kv.1 = true) →
      ∀ kv ∈ es, ∀ fuel, (tagText isPrint es).length + 1 ≤ fuel →
        lookupAux fuel (tagText isPrint es) kv.1 = some kv.2 := by
  intro es
  induction es with
  | nil => intro _ _ kv hkv; cases hkv
  | cons e es' ih =>
    intro nd hall kv hkv fuel hf
    obtain ⟨f, rfl⟩ : ∃ f, fuel = f + 1 := ⟨fuel - 1, by omega⟩
    have hke : convKey e.1 = true := hall e (by simp)
    simp only [List.map_cons, List.nodup_cons, List.mem_map, not_exists, not_and] at nd
    cases es' with
    | nil =>
      have : kv = e := by simpa using hkv
      subst this
      rw [tagText_single]
      exact lookupAux_hit hp f kv.1 kv.2 [] hke
    | cons e2 es'' =>
      rw [tagText_cons_cons] at hf ⊢
      rcases List.mem_cons.mp hkv with rfl | hin
      · exact lookupAux_hit hp f kv.1 kv.2 _ hke
      · have hne : kv.1 ≠ e.1 := fun h => nd.1 kv hin h
        have : entry isPrint e = entry isPrint (e.1, e.2) := rfl
        rw [this, lookupAux_skip f e.1 e.2 _ kv.1 hke hne, lookupAux_space]
        refine ih nd.2 (fun x hx => hall x (List.mem_cons_of_mem _ hx)) kv hin f ?_
        simp only [List.length_append, List.length_cons] at hf
        omega

theorem lookup_tagText (hp : PSafe isPrint) (es : List (Str × Str)) (nd : (es.map (·.1)).Nodup)
    (hall : ∀ kv ∈ es, convKey kv.1 = true) (kv : Str × Str) (hkv : kv ∈ es) :
    lookup (tagText isPrint es) kv.1 = some kv.2 :=
  lookupAux_tagText hp es nd hall kv hkv _ (Nat.le_refl _)

/-! ### the outer layer: the tag is one Go string literal -/

/-- read one Go string literal (`string_lit = raw_string_lit | interpreted_string_lit`) off the
    front of `s`: (value, rest) -/
def readGoLiteral (s : Str) : Option (Str × Str) :=
  match s with
  | [] => none
  | c :: _ => if c == 0x60 then readRaw s else readString s

theorem renderTag_eq (isPrint : Nat → Bool) (m : List (Str × Str)) :
    renderTag isPrint m =
      if canBackquote (tagText isPrint (m.mergeSort tagLe)).length
          (tagText isPrint (m.mergeSort tagLe)) = true
      then b!"`" ++ tagText isPrint (m.mergeSort tagLe) ++ b!"`"
      else quote isPrint (tagText isPrint (m.mergeSort tagLe)) := rfl

/-- the rendered tag is exactly one Go string literal, whose value is the tag text: the sorted
    entries `key:"value"` joined by single spaces -/
theorem literal_value (hp : PSafe isPrint) (m : List (Str × Str)) (rest : Str) :
    readGoLiteral (renderTag isPrint m ++ rest) =
      some (tagText isPrint (m.mergeSort tagLe), rest) := by
  rw [renderTag_eq]
  split
  · rename_i h
    have := raw_roundtrip (tagText isPrint (m.mergeSort tagLe)) rest h
    show readGoLiteral (0x60 :: (tagText isPrint (m.mergeSort tagLe) ++ [0x60] ++ rest)) = _
    rw [readGoLiteral, if_pos (by decide)]
    exact this
  · have := string_roundtrip hp (tagText isPrint (m.mergeSort tagLe)) rest
    have hq : ∃ u, quote isPrint (tagText isPrint (m.mergeSort tagLe)) ++ rest = 0x22 :: u :=
      ⟨_, rfl⟩
    obtain ⟨u, hu⟩ := hq
    rw [hu] at this ⊢
    rw [readGoLiteral, if_neg (by decide)]
    exact this

/-- **literal_valid**: `renderTag` writes exactly one Go string literal (raw or interpreted) -/
theorem literal_valid (hp : PSafe isPrint) (m : List (Str × Str)) (rest : Str) :
    ∃ v, readGoLiteral (renderTag isPrint m ++ rest) = some (v, rest) :=
  ⟨_, literal_value hp m rest⟩

/-- **lookup_roundtrip**: the Go compiler's reading of the literal followed by
    `reflect.StructTag.Lookup` gives back the value stored under every key -/
theorem lookup_roundtrip (hp : PSafe isPrint) (m : List (Str × Str))
    (nd : (m.map (·.1)).Nodup) (hall : ∀ kv ∈ m, convKey kv.1 = true) :
    ∀ kv ∈ m, ∀ rest,
      (readGoLiteral (renderTag isPrint m ++ rest)).bind (fun r => lookup r.1 kv.1) = some kv.2 := by
  intro kv hkv rest
  rw [literal_value hp m rest]
  show lookup (tagText isPrint (m.mergeSort tagLe)) kv.1 = some kv.2
  have hperm := List.mergeSort_perm m tagLe
  refine lookup_tagText hp _ ?_ (fun x hx => hall x (List.mem_mergeSort.mp hx)) kv
    (List.mem_mergeSort.mpr hkv)
  exact ((hperm.map (·.1)).nodup_iff).mpr nd

theorem lookupAux_nil (fuel : Nat) (key : Str) : lookupAux fuel [] key = none := by
  cases fuel <;> rfl

theorem lookupAux_tagText_absent (key : Str) :
    ∀ (es : List (Str × Str)), (∀ kv ∈ es, convKey kv.1 = true) → (∀ kv ∈ es, key ≠ kv.1) →
      ∀ fuel, lookupAux fuel (tagText isPrint es) key = none := by
  intro es
  induction es with
  | nil => intro _ _ fuel; exact lookupAux_nil fuel key
  | cons e es' ih =>
    intro hall hne fuel
    cases fuel with
    | zero => rfl
    | succ f =>
      have hke : convKey e.1 = true := hall e (by simp)
      have he : entry isPrint e = entry isPrint (e.1, e.2) := rfl
      cases es' with
      | nil =>
        rw [tagText_single, he, lookupAux_skip f e.1 e.2 _ key hke (hne e (by simp))]
        exact lookupAux_nil f key
      | cons e2 es'' =>
        rw [tagText_cons_cons, he, lookupAux_skip f e.1 e.2 _ key hke (hne e (by simp)),
          lookupAux_space]
        exact ih (fun x hx => hall x (List.mem_cons_of_mem _ hx))
          (fun x hx => hne x (List.mem_cons_of_mem _ hx)) f

/-- a key that is not in the map is not found (`Lookup` answers `("", false)`) -/
theorem lookup_absent (hp : PSafe isPrint) (m : List (Str × Str))
    (hall : ∀ kv ∈ m, convKey kv.1 = true) (key : Str) (hne : ∀ kv ∈ m, key ≠ kv.1) (rest : Str) :
    (readGoLiteral (renderTag isPrint m ++ rest)).bind (fun r => lookup r.1 key) = none := by
  rw [literal_value hp m rest]
  exact lookupAux_tagText_absent key _ (fun x hx => hall x (List.mem_mergeSort.mp hx))
    (fun x hx => hne x (List.mem_mergeSort.mp hx)) _

/-- **keys_sorted**: the value of the literal is the list of entries, sorted by key (bytewise
    order of `sort.Strings`), joined by single spaces -/
theorem keys_sorted (hp : PSafe isPrint) (m : List (Str × Str)) (rest : Str) :
    readGoLiteral (renderTag isPrint m ++ rest) =
        some (Str.join b!" " ((m.mergeSort tagLe).map (entry isPrint)), rest) ∧
      (m.mergeSort tagLe).Pairwise (fun a b => Str.le a.1 b.1 = true) ∧
      (m.mergeSort tagLe).Perm m :=
  ⟨literal_value hp m rest,
   List.pairwise_mergeSort PermLemmas.tagLe_trans PermLemmas.tagLe_total m,
   List.mergeSort_perm m tagLe⟩

/-- with distinct keys the order is strict -/
theorem keys_strictly_sorted (m : List (Str × Str)) (nd : (m.map (·.1)).Nodup) :
    (m.mergeSort tagLe).Pairwise (fun a b => Str.lt a.1 b.1 = true) := by
  have h1 : (m.mergeSort tagLe).Pairwise (fun a b => Str.le a.1 b.1 = true) :=
    List.pairwise_mergeSort PermLemmas.tagLe_trans PermLemmas.tagLe_total m
  have h2 : (m.mergeSort tagLe).Pairwise (fun a b => a.1 ≠ b.1) := by
    have : ((m.mergeSort tagLe).map (·.1)).Nodup :=
      (((List.mergeSort_perm m tagLe).map (·.1)).nodup_iff).mpr nd
    exact List.pairwise_map.mp this
  refine (h1.and h2).imp ?_
  intro a b h
  unfold Str.lt
  simp only [Bool.and_eq_true, Bool.not_eq_true', beq_eq_false_iff_ne, ne_eq]
  exact ⟨h.1, h.2⟩

/-- **empty_is_null**: an empty tag is null, so it is never rendered -/
theorem empty_is_null (np : Str → Bool) : Code.isNull np (.tag []) = true := by
  simp [Code.isNull]

/-- a tag is null exactly when its map is empty -/
theorem tag_null_iff (np : Str → Bool) (m : List (Str × Str)) :
    Code.isNull np (.tag m) = true ↔ m = [] := by
  simp [Code.isNull]

/-- **tag_perm** (re-exported from `PermLemmas`): the rendering does not depend on the order in
    which the Go map is iterated -/
theorem tag_perm (isPrint : Nat → Bool) {l₁ l₂ : List (Str × Str)} (h : l₁.Perm l₂)
    (nd : (l₁.map (·.1)).Nodup) : renderTag isPrint l₁ = renderTag isPrint l₂ :=
  PermLemmas.tag_perm isPrint h nd

/-! ### Non-vacuity: the hypotheses are satisfiable, both kinds of outer literal occur -/

/-- on an already sorted list the sort is the identity (used to let the kernel evaluate examples;
    `List.mergeSort` itself is defined by well-founded recursion) -/
theorem renderTag_of_sorted (isPrint : Nat → Bool) (m : List (Str × Str))
    (h : m.Pairwise (fun a b => tagLe a b = true)) :
    renderTag isPrint m =
      if canBackquote (tagText isPrint m).length (tagText isPrint m) = true
      then b!"`" ++ tagText isPrint m ++ b!"`"
      else quote isPrint (tagText isPrint m) := by
  rw [renderTag_eq, List.mergeSort_of_pairwise h]

/-- what the renderer would write for an empty map (never reached: the tag is null) -/
theorem renderTag_nil (isPrint : Nat → Bool) : renderTag isPrint [] = b!"``" := by
  rw [renderTag_of_sorted _ _ List.Pairwise.nil]; rfl

section Examples
open Str

/-- a value with a double quote: the tag text has no back quote, the outer literal is raw -/
def m1 : List (Str × Str) := [(b!"json", b!"a\"b"), (b!"xml", b!"-")]
/-- a value with a back quote: the outer literal is an interpreted string, quoted twice -/
def m2 : List (Str × Str) := [(b!"json", b!"a`b,omitempty"), (b!"xml", b!"\n")]

example : (m1.map (·.1)).Nodup := by decide
example : ∀ kv ∈ m1, convKey kv.1 = true := by decide
example : (m2.map (·.1)).Nodup := by decide
example : ∀ kv ∈ m2, convKey kv.1 = true := by decide

example : renderTag (fun _ => false) m1 = b!"`json:\"a\\\"b\" xml:\"-\"`" := by
  rw [renderTag_of_sorted _ _ (by decide)]; decide
example : renderTag (fun _ => false) m2 =
    b!"\"json:\\\"a`b,omitempty\\\" xml:\\\"\\\\n\\\"\"" := by
  rw [renderTag_of_sorted _ _ (by decide)]; decide

/-- evaluated by the kernel, raw outer literal -/
example : (readGoLiteral (renderTag (fun _ => false) m1 ++ b!" // x")).bind
    (fun r => lookup r.1 b!"json") = some b!"a\"b" := by
  rw [renderTag_of_sorted _ _ (by decide)]; decide
example : (readGoLiteral (renderTag (fun _ => false) m1 ++ b!" // x")).bind
    (fun r => lookup r.1 b!"xml") = some b!"-" := by
  rw [renderTag_of_sorted _ _ (by decide)]; decide
/-- evaluated by the kernel, interpreted outer literal -/
example : (readGoLiteral (renderTag (fun _ => false) m2 ++ b!" // x")).bind
    (fun r => lookup r.1 b!"json") = some b!"a`b,omitempty" := by
  rw [renderTag_of_sorted _ _ (by decide)]; decide
example : (readGoLiteral (renderTag (fun _ => false) m2 ++ b!" // x")).bind
    (fun r => lookup r.1 b!"xml") = some b!"\n" := by
  rw [renderTag_of_sorted _ _ (by decide)]; decide
example : (readGoLiteral (renderTag (fun _ => false) m2 ++ b!" // x")).bind
    (fun r => lookup r.1 b!"yaml") = none := by
  rw [renderTag_of_sorted _ _ (by decide)]; decide

/-- the same facts as instances of the theorems (unsorted input, arbitrary continuation) -/
example (rest : Str) : (readGoLiteral (renderTag (fun _ => false) m1.reverse ++ rest)).bind
    (fun r => lookup r.1 b!"json") = some b!"a\"b" :=
  lookup_roundtrip PSafe_false m1.reverse (by decide) (by decide) (b!"json", b!"a\"b")
    (by decide) rest
example (rest : Str) : (readGoLiteral (renderTag (fun r => decide (0xE0 ≤ r ∧ r ≤ 0xF6)) m2 ++ rest)).bind
    (fun r => lookup r.1 b!"xml") = some b!"\n" :=
  lookup_roundtrip PSafe_latin m2 (by decide) (by decide) (b!"xml", b!"\n") (by decide) rest
example (rest : Str) : (readGoLiteral (renderTag (fun _ => false) m2 ++ rest)).bind
    (fun r => lookup r.1 b!"yaml") = none :=
  lookup_absent PSafe_false m2 (by decide) b!"yaml" (by decide) rest
example : renderTag (fun _ => false) m1.reverse = renderTag (fun _ => false) m1 :=
  tag_perm _ (List.reverse_perm _) (by decide)
/-- the scan on a value full of quotes, backslashes and invalid UTF-8 -/
example : scanQuoted (quote (fun _ => false) [0x22, 0x5C, 0x5C, 0x22, 0xFF, 0x0A] ++ b!" k:\"v\"") =
    some ((quote (fun _ => false) [0x22, 0x5C, 0x5C, 0x22, 0xFF, 0x0A]).length - 1) := by decide
example : quote (fun _ => false) [0x22, 0x5C, 0x5C, 0x22, 0xFF, 0x0A] =
    b!"\"\\\"\\\\\\\\\\\"\\xff\\n\"" := by decide

end Examples

end TagRT
