import JenVerif.Render
/-
  T-L: list semantics of the pure renderer — the rendered list is exactly the non-null items,
  in order, for every arity; null ("void") items can be inserted or removed anywhere.
-/
namespace Code

/-- closed form of a group's item rendering: each kept item preceded by its lead -/
def joinItems (g : GInfo) : Bool → List Str → Str
  | _, [] => []
  | first, t :: ts => itemLead g first ++ t ++ joinItems g false ts

theorem renderItemsP_filter (cfg : Cfg) (e : Env) (g : GInfo) : ∀ (first : Bool) (cs : List Code),
    renderItemsP cfg e g first cs = renderItemsP cfg e g first (cs.filter fun c => !isNull e.np c)
  | first, [] => by simp
  | first, c :: cs => by
      by_cases h : isNull e.np c = true
      · simp [renderItemsP, h, renderItemsP_filter cfg e g first cs]
      · simp [renderItemsP, h, renderItemsP_filter cfg e g false cs]

/-- the rendered items are exactly the non-null items, in order, each rendered once -/
theorem renderItemsP_closed (cfg : Cfg) (e : Env) (g : GInfo) : ∀ (first : Bool) (cs : List Code),
    (renderItemsP cfg e g first cs).1 =
      joinItems g first ((cs.filter fun c => !isNull e.np c).map (renderP cfg e none))
  | first, [] => by simp [renderItemsP, joinItems]
  | first, c :: cs => by
      by_cases h : isNull e.np c = true
      · simp [renderItemsP, h, renderItemsP_closed cfg e g first cs]
      · simp [renderItemsP, h, joinItems, renderItemsP_closed cfg e g false cs]

/-- the "nothing was rendered" flag is: first ∧ every item is null -/
theorem renderItemsP_empty (cfg : Cfg) (e : Env) (g : GInfo) : ∀ (first : Bool) (cs : List Code),
    (renderItemsP cfg e g first cs).2 = (first && allNull e.np cs)
  | first, [] => by simp [renderItemsP, allNull]
  | first, c :: cs => by
      by_cases h : isNull e.np c = true
      · simp [renderItemsP, h, allNull, renderItemsP_empty cfg e g first cs]
      · simp [renderItemsP, h, allNull, renderItemsP_empty cfg e g false cs]

theorem allNull_append (np : Str → Bool) : ∀ (xs ys : List Code),
    allNull np (xs ++ ys) = (allNull np xs && allNull np ys)
  | [], ys => by simp [allNull]
  | x :: xs, ys => by simp [allNull, allNull_append np xs ys, Bool.and_assoc]

theorem allNull_filter (np : Str → Bool) : ∀ cs : List Code,
    allNull np (cs.filter fun c => !isNull np c) = allNull np cs
  | [] => by simp
  | c :: cs => by
      by_cases h : isNull np c = true
      · simp [h, allNull, allNull_filter np cs]
      · simp [h, allNull]

/-- a group's rendering depends only on its non-null items -/
theorem renderP_group_filter (cfg : Cfg) (e : Env) (prev : Option Code) (g : GInfo) (cs : List Code) :
    renderP cfg e prev (.group g cs) = renderP cfg e prev (.group g (cs.filter fun c => !isNull e.np c)) := by
  simp only [renderP]
  rw [allNull_filter, ← renderItemsP_filter]

/-! ### void items -/

mutual
/-- items that are null whatever the file: nil, `Null()`, statements and delimiter-less groups
    made only of such items, an empty `Tag`, a Dict whose pairs all have a void side -/
def void : Code → Bool
  | .nilc => true
  | .tok .null _ => true
  | .tok _ _ => false
  | .lit _ => false
  | .group g items => g.opn == [] && g.cls == [] && voids items
  | .stmt items => voids items
  | .dict ps => voidPairs ps
  | .tag items => items.isEmpty
  | .comment _ => false
def voids : List Code → Bool
  | [] => true
  | c :: cs => void c && voids cs
def voidPairs : List (Code × Code) → Bool
  | [] => true
  | (k, v) :: ps => (void k || void v) && voidPairs ps
end

mutual
theorem void_isNull (np : Str → Bool) : ∀ c, void c = true → isNull np c = true
  | .nilc, _ => by simp [isNull]
  | .tok k s, h => by cases k <;> simp_all [void, isNull]
  | .lit _, h => by simp [void] at h
  | .group g items, h => by
      simp only [void, Bool.and_eq_true] at h
      simp only [isNull, Bool.and_eq_true]
      exact ⟨h.1, voids_allNull np items h.2⟩
  | .stmt items, h => by
      simp only [void] at h
      simp only [isNull]
      exact voids_allNull np items h
  | .dict ps, h => by
      simp only [void] at h
      simp only [isNull]
      exact voidPairs_dictNull np ps h
  | .tag items, h => by simpa [void, isNull] using h
  | .comment _, h => by simp [void] at h
theorem voids_allNull (np : Str → Bool) : ∀ cs, voids cs = true → allNull np cs = true
  | [], _ => by simp [allNull]
  | c :: cs, h => by
      simp only [voids, Bool.and_eq_true] at h
      simp only [allNull, Bool.and_eq_true]
      exact ⟨void_isNull np c h.1, voids_allNull np cs h.2⟩
theorem voidPairs_dictNull (np : Str → Bool) : ∀ ps, voidPairs ps = true → dictNull np ps = true
  | [], _ => by simp [dictNull]
  | (k, v) :: ps, h => by
      simp only [voidPairs, Bool.and_eq_true, Bool.or_eq_true] at h
      simp only [dictNull, Bool.and_eq_true, Bool.or_eq_true]
      refine ⟨?_, voidPairs_dictNull np ps h.2⟩
      cases h.1 with
      | inl hk => exact Or.inl (void_isNull np k hk)
      | inr hv => exact Or.inr (void_isNull np v hv)
end

/-- inserting a void item anywhere in a group's item list leaves its rendering unchanged -/
theorem render_insert_void (cfg : Cfg) (e : Env) (prev : Option Code) (g : GInfo) (xs ys : List Code) (v : Code)
    (hv : void v = true) :
    renderP cfg e prev (.group g (xs ++ v :: ys)) = renderP cfg e prev (.group g (xs ++ ys)) := by
  have hn := void_isNull e.np v hv
  rw [renderP_group_filter cfg e prev g (xs ++ v :: ys), renderP_group_filter cfg e prev g (xs ++ ys)]
  simp [List.filter_append, List.filter_cons, hn]

/-- … and any number of void items at any positions: if the non-void skeletons agree -/
theorem render_same_kept (cfg : Cfg) (e : Env) (prev : Option Code) (g : GInfo) (xs ys : List Code)
    (h : (xs.filter fun c => !isNull e.np c) = (ys.filter fun c => !isNull e.np c)) :
    renderP cfg e prev (.group g xs) = renderP cfg e prev (.group g ys) := by
  rw [renderP_group_filter cfg e prev g xs, renderP_group_filter cfg e prev g ys, h]

end Code
