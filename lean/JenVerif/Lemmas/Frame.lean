import JenVerif.Lemmas.Refine
import JenVerif.Lemmas.RegistryInv
import JenVerif.Lemmas.RegistryGood
/-
  Frame and footprint of the stateful renderer.

  PART 1 (frame): the renderer reads only `path`, `imports`, `hints`, `pfx` of the file state and
  writes only `imports`.

  PART 2 (footprint): the state after a render is obtained from the state before by `register`
  steps on exactly the package paths the traversal visits (`visits`); nothing else is imported,
  everything visited and not local is imported; a second render is a fixed point.
-/
namespace Frame
open Code Registry Refine

/-! ## PART 1 — frame -/

/-- `f`'s registry-relevant fields inside `g`'s other fields -/
def setRest (f g : FileS) : FileS :=
  { g with path := f.path, imports := f.imports, hints := f.hints, pfx := f.pfx }

theorem setRest_self (f : FileS) : setRest f f = f := rfl

theorem setRest_setRest (f g h : FileS) : setRest f (setRest g h) = setRest f h := rfl

@[simp] theorem setRest_path (f g : FileS) : (setRest f g).path = f.path := rfl
@[simp] theorem setRest_imports (f g : FileS) : (setRest f g).imports = f.imports := rfl
@[simp] theorem setRest_hints (f g : FileS) : (setRest f g).hints = f.hints := rfl
@[simp] theorem setRest_pfx (f g : FileS) : (setRest f g).pfx = f.pfx := rfl
@[simp] theorem setRest_name (f g : FileS) : (setRest f g).name = g.name := rfl
@[simp] theorem setRest_comments (f g : FileS) : (setRest f g).comments = g.comments := rfl
@[simp] theorem setRest_headers (f g : FileS) : (setRest f g).headers = g.headers := rfl
@[simp] theorem setRest_cgo (f g : FileS) : (setRest f g).cgo = g.cgo := rfl
@[simp] theorem setRest_noFormat (f g : FileS) : (setRest f g).noFormat = g.noFormat := rfl
@[simp] theorem setRest_canonical (f g : FileS) : (setRest f g).canonical = g.canonical := rfl

theorem lookupImp_setRest (f g : FileS) (p : Str) : lookupImp (setRest f g) p = lookupImp f p := rfl
theorem lookupHint_setRest (f g : FileS) (p : Str) : lookupHint (setRest f g) p = lookupHint f p := rfl
theorem isReg_setRest (f g : FileS) (p : Str) : isReg (setRest f g) p = isReg f p := rfl
theorem isLocal_setRest (f g : FileS) (p : Str) : isLocal (setRest f g) p = isLocal f p := rfl
theorem isDotImport_setRest (f g : FileS) (p : Str) : isDotImport (setRest f g) p = isDotImport f p := rfl
theorem np_setRest (f g : FileS) : (setRest f g).np = f.np := rfl
theorem isValidAlias_setRest (cfg : Cfg) (f g : FileS) (a : Str) :
    isValidAlias cfg (setRest f g) a = isValidAlias cfg f a := rfl
theorem prefixed_setRest (f g : FileS) (n : Str) (a : Bool) : prefixed (setRest f g) n a = prefixed f n a := rfl
theorem acceptable_setRest (cfg : Cfg) (f g : FileS) (n : Str) (a : Bool) (i : Nat) :
    acceptable cfg (setRest f g) n a i = acceptable cfg f n a i := rfl

theorem uniqLoop_setRest (cfg : Cfg) (f g : FileS) (n : Str) (a : Bool) (fuel i : Nat) :
    uniqLoop cfg (setRest f g) n a fuel i = uniqLoop cfg f n a fuel i := by
  induction fuel generalizing i with
  | zero => rfl
  | succ k ih => simp only [uniqLoop, acceptable_setRest, ih]

theorem uniqFuel_setRest (cfg : Cfg) (f g : FileS) : uniqFuel cfg (setRest f g) = uniqFuel cfg f := rfl
theorem chooseBase_setRest (cfg : Cfg) (f g : FileS) (p : Str) :
    chooseBase cfg (setRest f g) p = chooseBase cfg f p := rfl

theorem chooseDef_setRest (cfg : Cfg) (f g : FileS) (p : Str) :
    chooseDef cfg (setRest f g) p = chooseDef cfg f p := by
  simp only [chooseDef, chooseBase_setRest, uniqLoop_setRest, uniqFuel_setRest, prefixed_setRest]

/-- `register` reads only path/imports/hints/pfx and writes only imports -/
theorem register_setRest (cfg : Cfg) (f g : FileS) (p : Str) :
    register cfg (setRest f g) p = ((register cfg f p).1, setRest (register cfg f p).2 g) := by
  unfold register
  rw [isLocal_setRest, isReg_setRest, lookupImp_setRest, chooseDef_setRest]
  split
  · rfl
  · split
    · rfl
    · split <;> rfl

theorem preReg_setRest (cfg : Cfg) (f g : FileS) (c : Code) :
    preReg cfg (setRest f g) c = setRest (preReg cfg f c) g := by
  cases c with
  | tok k s => cases k <;> simp only [preReg, register_setRest]
  | _ => rfl

/-- a render closure that satisfies the frame property -/
def FrameOK (R : FileS → Str × FileS) : Prop :=
  ∀ f g, R (setRest f g) = ((R f).1, setRest (R f).2 g)

def EFrame (e : DEntry FileS) : Prop := FrameOK e.kR ∧ FrameOK e.vR

theorem dictLoop1_cons {σ} (np : σ → Str → Bool) (f : σ) (e : DEntry σ) (es : List (DEntry σ)) :
    dictLoop1 np f (e :: es) =
      if e.kNull (np f) || e.vNull (np f) then dictLoop1 np f es
      else
        (((e.kR f).1, (e.vR (e.kR f).2).1, e) :: (dictLoop1 np (e.vR (e.kR f).2).2 es).1,
          (dictLoop1 np (e.vR (e.kR f).2).2 es).2) := rfl

theorem dictLoop2_cons {σ} (n : Nat) (first : Bool) (f : σ) (t : Str × Str × DEntry σ)
    (es : List (Str × Str × DEntry σ)) :
    dictLoop2 n first f (t :: es) =
      ((if first && n > 1 then b!"\n" else []) ++ (t.2.2.kR f).1 ++ b!":" ++ (t.2.2.vR (t.2.2.kR f).2).1 ++
          (if n > 1 then b!",\n" else []) ++ (dictLoop2 n false (t.2.2.vR (t.2.2.kR f).2).2 es).1,
        (dictLoop2 n false (t.2.2.vR (t.2.2.kR f).2).2 es).2) := rfl

theorem renderDictWith_eq {σ} (np : σ → Str → Bool) (f : σ) (es : List (DEntry σ)) :
    renderDictWith np f es =
      dictLoop2 ((dictLoop1 np f es).1.mergeSort dictKeyLe).length true (dictLoop1 np f es).2
        ((dictLoop1 np f es).1.mergeSort dictKeyLe) := rfl

theorem dictLoop1_mem {σ} (np : σ → Str → Bool) (f : σ) (es : List (DEntry σ))
    (x : Str × Str × DEntry σ) (hx : x ∈ (dictLoop1 np f es).1) : x.2.2 ∈ es := by
  induction es generalizing f with
  | nil => simp [dictLoop1] at hx
  | cons e es ih =>
    rw [dictLoop1_cons] at hx
    split at hx
    · exact List.mem_cons_of_mem _ (ih f hx)
    · rcases List.mem_cons.1 hx with rfl | hx'
      · exact List.mem_cons_self
      · exact List.mem_cons_of_mem _ (ih _ hx')

theorem dictLoop1_frame (es : List (DEntry FileS)) (hes : ∀ e ∈ es, EFrame e) (f g : FileS) :
    dictLoop1 FileS.np (setRest f g) es =
      ((dictLoop1 FileS.np f es).1, setRest (dictLoop1 FileS.np f es).2 g) := by
  induction es generalizing f with
  | nil => rfl
  | cons e es ih =>
    have ih' := ih (fun e he => hes e (List.mem_cons_of_mem _ he))
    have he := hes e List.mem_cons_self
    rw [dictLoop1_cons, dictLoop1_cons, np_setRest]
    split
    · exact ih' f
    · rw [he.1 f g]
      simp only []
      rw [he.2 (e.kR f).2 g]
      simp only []
      rw [ih' (e.vR (e.kR f).2).2]

theorem dictLoop2_frame (n : Nat) (l : List (Str × Str × DEntry FileS))
    (hl : ∀ x ∈ l, EFrame x.2.2) (first : Bool) (f g : FileS) :
    dictLoop2 n first (setRest f g) l =
      ((dictLoop2 n first f l).1, setRest (dictLoop2 n first f l).2 g) := by
  induction l generalizing f first with
  | nil => rfl
  | cons x l ih =>
    have ih' := ih (fun e he => hl e (List.mem_cons_of_mem _ he))
    have he := hl x List.mem_cons_self
    rw [dictLoop2_cons, dictLoop2_cons, he.1 f g]
    simp only []
    rw [he.2 (x.2.2.kR f).2 g]
    simp only []
    rw [ih' false (x.2.2.vR (x.2.2.kR f).2).2]

theorem renderDictWith_frame (es : List (DEntry FileS)) (hes : ∀ e ∈ es, EFrame e) (f g : FileS) :
    renderDictWith FileS.np (setRest f g) es =
      ((renderDictWith FileS.np f es).1, setRest (renderDictWith FileS.np f es).2 g) := by
  rw [renderDictWith_eq, renderDictWith_eq, dictLoop1_frame es hes f g]
  simp only []
  apply dictLoop2_frame
  intro x hx
  exact hes _ (dictLoop1_mem _ _ _ x (List.mem_mergeSort.1 hx))

mutual
theorem renderS_frame_eq (cfg : Cfg) : ∀ (c : Code) (f g : FileS) (prev : Option Code),
    renderS cfg (setRest f g) prev c = ((renderS cfg f prev c).1, setRest (renderS cfg f prev c).2 g)
  | .nilc, f, g, prev => by simp only [renderS]
  | .tok k s, f, g, prev => by
    cases k <;> simp only [renderS] <;> exact register_setRest cfg f g s
  | .lit v, f, g, prev => by simp only [renderS]
  | .group gi items, f, g, prev => by
    have ih := renderItemsS_frame_eq cfg items gi true f g
    simp only [renderS, np_setRest]
    by_cases ht : (gi.name == b!"types" && allNull f.np items) = true
    · simp only [ht, if_true]
    · simp only [ht, ih, Bool.false_eq_true, if_false]
  | .stmt items, f, g, prev => by
    simp only [renderS]; exact renderStmtS_frame_eq cfg items true none f g
  | .dict ps, f, g, prev => by
    simp only [renderS]; exact renderDictWith_frame _ (dictEntriesS_frame cfg ps) f g
  | .tag items, f, g, prev => by simp only [renderS]
  | .comment t, f, g, prev => by simp only [renderS]
theorem renderItemsS_frame_eq (cfg : Cfg) : ∀ (cs : List Code) (gi : GInfo) (first : Bool) (f g : FileS),
    renderItemsS cfg gi first (setRest f g) cs =
      ((renderItemsS cfg gi first f cs).1, (renderItemsS cfg gi first f cs).2.1,
        setRest (renderItemsS cfg gi first f cs).2.2 g)
  | [], gi, first, f, g => by simp only [renderItemsS]
  | c :: cs, gi, first, f, g => by
    rw [renderItemsS_cons, renderItemsS_cons, preReg_setRest, np_setRest]
    split
    · exact renderItemsS_frame_eq cfg cs gi first _ g
    · rw [renderS_frame_eq cfg c (preReg cfg f c) g none]
      simp only []
      rw [renderItemsS_frame_eq cfg cs gi false _ g]
theorem renderStmtS_frame_eq (cfg : Cfg) : ∀ (cs : List Code) (first : Bool) (prev : Option Code) (f g : FileS),
    renderStmtS cfg first prev (setRest f g) cs =
      ((renderStmtS cfg first prev f cs).1, setRest (renderStmtS cfg first prev f cs).2 g)
  | [], first, prev, f, g => by simp only [renderStmtS]
  | c :: cs, first, prev, f, g => by
    rw [renderStmtS, renderStmtS, np_setRest]
    split
    · exact renderStmtS_frame_eq cfg cs first (some c) f g
    · rw [renderS_frame_eq cfg c f g prev]
      simp only []
      rw [renderStmtS_frame_eq cfg cs false (some c) _ g]
theorem dictEntriesS_frame (cfg : Cfg) : ∀ (ps : List (Code × Code)), ∀ e ∈ dictEntriesS cfg ps, EFrame e
  | [] => by simp [dictEntriesS]
  | (k, v) :: ps => by
    intro e he
    simp only [dictEntriesS, List.mem_cons] at he
    rcases he with rfl | he
    · exact ⟨fun f g => renderS_frame_eq cfg k f g none, fun f g => renderS_frame_eq cfg v f g none⟩
    · exact dictEntriesS_frame cfg ps e he
end


/-- FRAME: the renderer reads only path/imports/hints/pfx and writes only imports -/
theorem renderS_frame (cfg : Cfg) (c : Code) (f g : FileS) (prev : Option Code) :
    (renderS cfg (setRest f g) prev c).1 = (renderS cfg f prev c).1 ∧
    (renderS cfg (setRest f g) prev c).2 = setRest (renderS cfg f prev c).2 g := by
  rw [renderS_frame_eq]; exact ⟨rfl, rfl⟩

theorem renderItemsS_frame (cfg : Cfg) (cs : List Code) (gi : GInfo) (first : Bool) (f g : FileS) :
    (renderItemsS cfg gi first (setRest f g) cs).1 = (renderItemsS cfg gi first f cs).1 ∧
    (renderItemsS cfg gi first (setRest f g) cs).2.1 = (renderItemsS cfg gi first f cs).2.1 ∧
    (renderItemsS cfg gi first (setRest f g) cs).2.2 = setRest (renderItemsS cfg gi first f cs).2.2 g := by
  rw [renderItemsS_frame_eq]; exact ⟨rfl, rfl, rfl⟩

theorem renderStmtS_frame (cfg : Cfg) (cs : List Code) (first : Bool) (prev : Option Code) (f g : FileS) :
    (renderStmtS cfg first prev (setRest f g) cs).1 = (renderStmtS cfg first prev f cs).1 ∧
    (renderStmtS cfg first prev (setRest f g) cs).2 = setRest (renderStmtS cfg first prev f cs).2 g := by
  rw [renderStmtS_frame_eq]; exact ⟨rfl, rfl⟩

theorem renderDict_frame (cfg : Cfg) (ps : List (Code × Code)) (f g : FileS) :
    (renderDictWith FileS.np (setRest f g) (dictEntriesS cfg ps)).1 =
        (renderDictWith FileS.np f (dictEntriesS cfg ps)).1 ∧
    (renderDictWith FileS.np (setRest f g) (dictEntriesS cfg ps)).2 =
        setRest (renderDictWith FileS.np f (dictEntriesS cfg ps)).2 g := by
  rw [renderDictWith_frame _ (dictEntriesS_frame cfg ps)]; exact ⟨rfl, rfl⟩

/-! ### registration steps -/

/-- reflexive-transitive closure of `register` steps on paths of the set `S` -/
inductive RegFrom (cfg : Cfg) (S : Str → Bool) : FileS → FileS → Prop
  | refl (f : FileS) : RegFrom cfg S f f
  | step {f f' : FileS} {p : Str} : RegFrom cfg S f f' → S p = true →
      RegFrom cfg S f (register cfg f' p).2

theorem RegFrom.trans {cfg : Cfg} {S : Str → Bool} {f f1 f2 : FileS}
    (h1 : RegFrom cfg S f f1) (h2 : RegFrom cfg S f1 f2) : RegFrom cfg S f f2 := by
  induction h2 with
  | refl => exact h1
  | step _ hp ih => exact .step ih hp

theorem RegFrom.mono {cfg : Cfg} {S S' : Str → Bool} {f f' : FileS}
    (h : RegFrom cfg S f f') (hs : ∀ p, S p = true → S' p = true) : RegFrom cfg S' f f' := by
  induction h with
  | refl => exact .refl _
  | step _ hp ih => exact .step ih (hs _ hp)

theorem RegFrom.single {cfg : Cfg} {S : Str → Bool} (f : FileS) {p : Str} (hp : S p = true) :
    RegFrom cfg S f (register cfg f p).2 := .step (.refl f) hp

/-- registration steps touch no field but `imports` -/
theorem regFrom_fields {cfg : Cfg} {S : Str → Bool} {f f' : FileS} (h : RegFrom cfg S f f') :
    f'.name = f.name ∧ f'.path = f.path ∧ f'.hints = f.hints ∧ f'.comments = f.comments ∧
    f'.headers = f.headers ∧ f'.cgo = f.cgo ∧ f'.noFormat = f.noFormat ∧ f'.pfx = f.pfx ∧
    f'.canonical = f.canonical := by
  induction h with
  | refl => exact ⟨rfl, rfl, rfl, rfl, rfl, rfl, rfl, rfl, rfl⟩
  | @step f' p _ _ ih =>
    obtain ⟨a1, a2, a3, a4, a5, a6, a7, a8, a9⟩ := RegistryInv.register_frame cfg f' p
    obtain ⟨b1, b2, b3, b4, b5, b6, b7, b8, b9⟩ := ih
    exact ⟨a4.trans b1, a3.trans b2, a1.trans b3, a5.trans b4, a6.trans b5, a7.trans b6,
      a8.trans b7, a2.trans b8, a9.trans b9⟩

/-- reachable by registration steps (any paths); no hypothesis on the file -/
abbrev Reach (cfg : Cfg) : FileS → FileS → Prop := RegFrom cfg (fun _ => true)

theorem preReg_reach (cfg : Cfg) (f : FileS) (c : Code) : Reach cfg f (preReg cfg f c) := by
  unfold preReg
  split
  · exact RegFrom.single f rfl
  · exact .refl f

def EReach (cfg : Cfg) (e : DEntry FileS) : Prop :=
  ∀ f, Reach cfg f (e.kR f).2 ∧ Reach cfg f (e.vR f).2

theorem dictLoop1_reach (cfg : Cfg) (es : List (DEntry FileS)) (hes : ∀ e ∈ es, EReach cfg e) (f : FileS) :
    Reach cfg f (dictLoop1 FileS.np f es).2 := by
  induction es generalizing f with
  | nil => exact .refl f
  | cons e es ih =>
    have ih' := ih (fun e he => hes e (List.mem_cons_of_mem _ he))
    have he := hes e List.mem_cons_self
    rw [dictLoop1_cons]
    split
    · exact ih' f
    · exact ((he f).1.trans (he _).2).trans (ih' _)

theorem dictLoop2_reach (cfg : Cfg) (n : Nat) (l : List (Str × Str × DEntry FileS))
    (hl : ∀ x ∈ l, EReach cfg x.2.2) (first : Bool) (f : FileS) :
    Reach cfg f (dictLoop2 n first f l).2 := by
  induction l generalizing f first with
  | nil => exact .refl f
  | cons x l ih =>
    have ih' := ih (fun e he => hl e (List.mem_cons_of_mem _ he))
    have he := hl x List.mem_cons_self
    rw [dictLoop2_cons]
    exact ((he f).1.trans (he _).2).trans (ih' false _)

theorem renderDictWith_reach (cfg : Cfg) (es : List (DEntry FileS)) (hes : ∀ e ∈ es, EReach cfg e) (f : FileS) :
    Reach cfg f (renderDictWith FileS.np f es).2 := by
  rw [renderDictWith_eq]
  refine (dictLoop1_reach cfg es hes f).trans (dictLoop2_reach cfg _ _ ?_ true _)
  intro x hx
  exact hes _ (dictLoop1_mem _ _ _ x (List.mem_mergeSort.1 hx))

mutual
/-- the ONLY way the renderer changes the state is by `register` steps (no hypothesis) -/
theorem renderS_reach (cfg : Cfg) : ∀ (c : Code) (f : FileS) (prev : Option Code),
    Reach cfg f (renderS cfg f prev c).2
  | .nilc, f, prev => by simp only [renderS]; exact .refl f
  | .tok k s, f, prev => by
    cases k <;> simp only [renderS] <;> first | exact .refl f | exact RegFrom.single f rfl
  | .lit v, f, prev => by simp only [renderS]; exact .refl f
  | .group gi items, f, prev => by
    have ih := renderItemsS_reach cfg items gi true f
    simp only [renderS]
    split
    · exact .refl f
    · exact ih
  | .stmt items, f, prev => by
    simp only [renderS]; exact renderStmtS_reach cfg items true none f
  | .dict ps, f, prev => by
    simp only [renderS]; exact renderDictWith_reach cfg _ (dictEntriesS_reach cfg ps) f
  | .tag items, f, prev => by simp only [renderS]; exact .refl f
  | .comment t, f, prev => by simp only [renderS]; exact .refl f
theorem renderItemsS_reach (cfg : Cfg) : ∀ (cs : List Code) (gi : GInfo) (first : Bool) (f : FileS),
    Reach cfg f (renderItemsS cfg gi first f cs).2.2
  | [], gi, first, f => by simp only [renderItemsS]; exact .refl f
  | c :: cs, gi, first, f => by
    rw [renderItemsS_cons]
    split
    · exact (preReg_reach cfg f c).trans (renderItemsS_reach cfg cs gi first _)
    · exact ((preReg_reach cfg f c).trans (renderS_reach cfg c _ none)).trans
        (renderItemsS_reach cfg cs gi false _)
theorem renderStmtS_reach (cfg : Cfg) : ∀ (cs : List Code) (first : Bool) (prev : Option Code) (f : FileS),
    Reach cfg f (renderStmtS cfg first prev f cs).2
  | [], first, prev, f => by simp only [renderStmtS]; exact .refl f
  | c :: cs, first, prev, f => by
    rw [renderStmtS]
    split
    · exact renderStmtS_reach cfg cs first (some c) f
    · exact (renderS_reach cfg c f prev).trans (renderStmtS_reach cfg cs false (some c) _)
theorem dictEntriesS_reach (cfg : Cfg) : ∀ (ps : List (Code × Code)), ∀ e ∈ dictEntriesS cfg ps, EReach cfg e
  | [] => by simp [dictEntriesS]
  | (k, v) :: ps => by
    intro e he
    simp only [dictEntriesS, List.mem_cons] at he
    rcases he with rfl | he
    · exact fun f => ⟨renderS_reach cfg k f none, renderS_reach cfg v f none⟩
    · exact dictEntriesS_reach cfg ps e he
end

/-- the renderer writes no field but `imports` (no hypothesis on the file) -/
theorem other_fields_untouched (cfg : Cfg) (f : FileS) (prev : Option Code) (c : Code) :
    let f' := (renderS cfg f prev c).2
    f'.name = f.name ∧ f'.path = f.path ∧ f'.hints = f.hints ∧ f'.comments = f.comments ∧
    f'.headers = f.headers ∧ f'.cgo = f.cgo ∧ f'.noFormat = f.noFormat ∧ f'.pfx = f.pfx ∧
    f'.canonical = f.canonical :=
  regFrom_fields (renderS_reach cfg c f prev)

theorem setRest_noFormat_eq (a f : FileS) (b : Bool)
    (h : a.name = f.name ∧ a.comments = f.comments ∧ a.headers = f.headers ∧ a.cgo = f.cgo ∧
      a.canonical = f.canonical) :
    setRest a { f with noFormat := b } = { a with noFormat := b } := by
  obtain ⟨h1, h2, h3, h4, h5⟩ := h
  cases a; cases f
  simp only at h1 h2 h3 h4 h5
  simp only [setRest, h1, h2, h3, h4, h5]

/-- the `noFormat` flag is invisible to the renderer: same text, same state up to the flag -/
theorem renderS_noFormat (cfg : Cfg) (f : FileS) (prev : Option Code) (c : Code) (b : Bool) :
    renderS cfg { f with noFormat := b } prev c =
      ((renderS cfg f prev c).1, { (renderS cfg f prev c).2 with noFormat := b }) := by
  have e : ({ f with noFormat := b } : FileS) = setRest f { f with noFormat := b } := rfl
  obtain ⟨a1, _, _, a4, a5, a6, _, _, a9⟩ := other_fields_untouched cfg f prev c
  rw [e, renderS_frame_eq, setRest_noFormat_eq _ _ _ ⟨a1, a4, a5, a6, a9⟩]

theorem fileHead_noFormat (isPrint : Nat → Bool) (f : FileS) (b : Bool) :
    fileHead isPrint { f with noFormat := b } = fileHead isPrint f := rfl

theorem renderImports_noFormat (isPrint : Nat → Bool) (f : FileS) (b : Bool) :
    renderImports isPrint { f with noFormat := b } = renderImports isPrint f := rfl

/-- whole file: the raw bytes do not depend on `noFormat`, the final states agree except for it -/
theorem renderFileRaw_noFormat (cfg : Cfg) (f : FileS) (body : List Code) (b : Bool) :
    renderFileRaw cfg { f with noFormat := b } body =
      ((renderFileRaw cfg f body).1, { (renderFileRaw cfg f body).2 with noFormat := b }) := by
  simp only [renderFileRaw, renderS_noFormat, fileHead_noFormat, renderImports_noFormat]

theorem noFormat_irrelevant (cfg : Cfg) (f : FileS) (body : List Code) (b : Bool) :
    (renderFileRaw cfg { f with noFormat := b } body).1 = (renderFileRaw cfg f body).1 ∧
    (renderFileRaw cfg { f with noFormat := b } body).2 =
      { (renderFileRaw cfg f body).2 with noFormat := b } := by
  rw [renderFileRaw_noFormat]; exact ⟨rfl, rfl⟩


/-! ## PART 2 — which paths get registered -/

/-- a DIRECT package-token item: `renderItems` registers it before testing null-ness -/
def directPkg : Code → Str → Bool
  | .tok .pkg s, p => s == p
  | _, _ => false

mutual
/-- does rendering `c` call `register` on `p` (null-ness `np` is stable during a render) -/
def visits (np : Str → Bool) : Code → Str → Bool
  | .tok .pkg s, p => s == p
  | .group g items, p =>
    if g.name == b!"types" && allNull np items then false else visitsItems np items p
  | .stmt items, p => visitsStmt np items p
  | .dict ps, p => visitsPairs np ps p
  | _, _ => false
/-- `renderItems`: a direct package token is registered even when null; null items are skipped -/
def visitsItems (np : Str → Bool) : List Code → Str → Bool
  | [], _ => false
  | c :: cs, p => directPkg c p || (!isNull np c && visits np c p) || visitsItems np cs p
def visitsStmt (np : Str → Bool) : List Code → Str → Bool
  | [], _ => false
  | c :: cs, p => (!isNull np c && visits np c p) || visitsStmt np cs p
def visitsPairs (np : Str → Bool) : List (Code × Code) → Str → Bool
  | [], _ => false
  | (k, v) :: ps, p =>
    (!(isNull np k || isNull np v) && (visits np k p || visits np v p)) || visitsPairs np ps p
end

theorem visits_congr (np np' : Str → Bool) (h : ∀ p, np' p = np p) (c : Code) :
    visits np' c = visits np c := by
  have : np' = np := funext h
  rw [this]

theorem visits_ext {f f' : FileS} (h : Ext f f') (c : Code) : visits f'.np c = visits f.np c :=
  visits_congr _ _ h.np c

def pnone : Str → Bool := fun _ => false
def por (a b : Str → Bool) : Str → Bool := fun p => a p || b p

theorem isLocal_static {f f' : FileS} (s : SameStatic f f') (p : Str) : isLocal f' p = isLocal f p := by
  simp [isLocal, s.path]

theorem isReg_keep {f f' : FileS} (e : Ext f f') {p : Str} (h : isReg f p = true) : isReg f' p = true := by
  rw [isReg_of_lookup_eq (e.keep p h)]; exact h

/-- footprint triple: `f'` extends `f`, is reached by registering only paths of `hi`, and every
    non-local path of `lo` is registered in `f'` -/
structure Tr (cfg : Cfg) (lo hi : Str → Bool) (f f' : FileS) : Prop where
  ext : Ext f f'
  reg : RegFrom cfg hi f f'
  got : ∀ p, lo p = true → isLocal f p = false → isReg f' p = true

theorem Tr.refl (cfg : Cfg) {hi : Str → Bool} (f : FileS) : Tr cfg pnone hi f f :=
  ⟨Ext.refl f, .refl f, fun p hp => by simp [pnone] at hp⟩

theorem Tr.rfl' (cfg : Cfg) {lo hi : Str → Bool} (f : FileS) (h : ∀ p, lo p = false) : Tr cfg lo hi f f :=
  ⟨Ext.refl f, .refl f, fun p hp => by rw [h p] at hp; cases hp⟩

theorem Tr.seq {cfg : Cfg} {lo1 hi1 lo2 hi2 : Str → Bool} {f f1 f2 : FileS}
    (h1 : Tr cfg lo1 hi1 f f1) (h2 : Tr cfg lo2 hi2 f1 f2) : Tr cfg (por lo1 lo2) (por hi1 hi2) f f2 := by
  refine ⟨h1.ext.trans h2.ext, (h1.reg.mono ?_).trans (h2.reg.mono ?_), ?_⟩
  · intro p hp; simp [por, hp]
  · intro p hp; simp [por, hp]
  · intro p hp hl
    simp only [por, Bool.or_eq_true] at hp
    rcases hp with h | h
    · exact isReg_keep h2.ext (h1.got p h hl)
    · exact h2.got p h (by rw [isLocal_static h1.ext.static]; exact hl)

theorem Tr.conv {cfg : Cfg} {lo hi lo' hi' : Str → Bool} {f f' : FileS} (h : Tr cfg lo hi f f')
    (hlo : ∀ p, lo' p = true → lo p = true) (hhi : ∀ p, hi p = true → hi' p = true) :
    Tr cfg lo' hi' f f' :=
  ⟨h.ext, h.reg.mono hhi, fun p hp hl => h.got p (hlo p hp) hl⟩

theorem Tr.register {cfg : Cfg} {f : FileS} (hg : Good cfg f) (s : Str) :
    Tr cfg (fun p => s == p) (fun p => s == p) f (register cfg f s).2 := by
  refine ⟨register_ext cfg f hg s, RegFrom.single f (by simp), ?_⟩
  intro p hp hl
  have : s = p := by simpa using hp
  subst this
  exact (hg f (SameStatic.refl f) s hl).1

theorem preReg_tr (cfg : Cfg) (f : FileS) (hg : Good cfg f) (c : Code) :
    Tr cfg (directPkg c) (directPkg c) f (preReg cfg f c) := by
  cases c with
  | tok k s =>
    cases k
    case pkg => exact Tr.register hg s
    all_goals exact Tr.rfl' cfg f (by intro p; simp [directPkg])
  | _ => exact Tr.rfl' cfg f (by intro p; simp [directPkg])

/-- what the footprint proof needs from a Dict entry built from the pair `(k, v)` -/
structure EntryTr (cfg : Cfg) (np : Str → Bool) (e : DEntry FileS) (k v : Code) : Prop where
  kNull : e.kNull np = isNull np k
  vNull : e.vNull np = isNull np v
  kTr : ∀ f, Good cfg f → f.np = np → Tr cfg (visits np k) (visits np k) f (e.kR f).2
  vTr : ∀ f, Good cfg f → f.np = np → Tr cfg (visits np v) (visits np v) f (e.vR f).2

inductive EntriesTr (cfg : Cfg) (np : Str → Bool) : List (DEntry FileS) → List (Code × Code) → Prop
  | nil : EntriesTr cfg np [] []
  | cons {e es k v ps} : EntryTr cfg np e k v → EntriesTr cfg np es ps →
      EntriesTr cfg np (e :: es) ((k, v) :: ps)

/-- a kept (non-null) entry: re-rendering it registers only paths of `hi` -/
def Kept (cfg : Cfg) (np hi : Str → Bool) (e : DEntry FileS) : Prop :=
  ∀ f, Good cfg f → f.np = np → Tr cfg pnone hi f (e.kR f).2 ∧ Tr cfg pnone hi f (e.vR f).2

theorem np_of_ext {f f' : FileS} {np : Str → Bool} (h : Ext f f') (hnp : f.np = np) : f'.np = np := by
  rw [← hnp]; exact funext h.np

theorem dictLoop1_tr (cfg : Cfg) (np hi : Str → Bool) :
    ∀ (es : List (DEntry FileS)) (ps : List (Code × Code)) (f : FileS),
    EntriesTr cfg np es ps → Good cfg f → f.np = np →
    (∀ p, visitsPairs np ps p = true → hi p = true) →
    Tr cfg (visitsPairs np ps) (visitsPairs np ps) f (dictLoop1 FileS.np f es).2 ∧
    ∀ t ∈ (dictLoop1 FileS.np f es).1, Kept cfg np hi t.2.2
  | [], [], f, _, _, _, _ => by
    refine ⟨?_, by simp [dictLoop1]⟩
    exact Tr.rfl' cfg f (by intro p; simp [visitsPairs])
  | e :: es, (k, v) :: ps, f, .cons he hrest, hg, hnp, hhi => by
    rw [dictLoop1_cons, hnp, he.kNull, he.vNull]
    by_cases hn : (isNull np k || isNull np v) = true
    · have hv : visitsPairs np ((k, v) :: ps) = visitsPairs np ps := by
        funext p; simp [visitsPairs, hn]
      simp only [hn, if_true]
      rw [hv]
      exact dictLoop1_tr cfg np hi es ps f hrest hg hnp (fun p hp => hhi p (by rw [hv]; exact hp))
    · have hn' : (isNull np k || isNull np v) = false := by simpa using hn
      have hv : visitsPairs np ((k, v) :: ps) = por (por (visits np k) (visits np v)) (visitsPairs np ps) := by
        funext p; simp [visitsPairs, hn', por]
      simp only [hn', Bool.false_eq_true, if_false]
      have tk := he.kTr f hg hnp
      have hg1 := good_of_ext hg tk.ext
      have hnp1 := np_of_ext tk.ext hnp
      have tv := he.vTr _ hg1 hnp1
      have hg2 := good_of_ext hg1 tv.ext
      have hnp2 := np_of_ext tv.ext hnp1
      have hhi' : ∀ p, por (por (visits np k) (visits np v)) (visitsPairs np ps) p = true → hi p = true :=
        fun p hp => hhi p (by rw [hv]; exact hp)
      have ih := dictLoop1_tr cfg np hi es ps _ hrest hg2 hnp2
        (fun p hp => hhi' p (by simp [por, hp]))
      rw [hv]
      refine ⟨(tk.seq tv).seq ih.1, ?_⟩
      intro t ht
      simp only [List.mem_cons] at ht
      rcases ht with rfl | ht
      · intro f' hg' hnp'
        exact ⟨(he.kTr f' hg' hnp').conv (by intro p hp; simp [pnone] at hp)
                 (fun p hp => hhi' p (by simp [por, hp])),
               (he.vTr f' hg' hnp').conv (by intro p hp; simp [pnone] at hp)
                 (fun p hp => hhi' p (by simp [por, hp]))⟩
      · exact ih.2 t ht

theorem dictLoop2_tr (cfg : Cfg) (np hi : Str → Bool) (n : Nat) :
    ∀ (ts : List (Str × Str × DEntry FileS)) (first : Bool) (f : FileS),
    (∀ t ∈ ts, Kept cfg np hi t.2.2) → Good cfg f → f.np = np →
    Tr cfg pnone hi f (dictLoop2 n first f ts).2
  | [], first, f, _, _, _ => by
    simp only [dictLoop2]; exact Tr.refl cfg f
  | t :: ts, first, f, hk, hg, hnp => by
    rw [dictLoop2_cons]
    have tk := (hk t List.mem_cons_self f hg hnp).1
    have hg1 := good_of_ext hg tk.ext
    have hnp1 := np_of_ext tk.ext hnp
    have tv := (hk t List.mem_cons_self _ hg1 hnp1).2
    have hg2 := good_of_ext hg1 tv.ext
    have hnp2 := np_of_ext tv.ext hnp1
    have ih := dictLoop2_tr cfg np hi n ts false _ (fun t' ht' => hk t' (List.mem_cons_of_mem _ ht')) hg2 hnp2
    refine ((tk.seq tv).seq ih).conv (by intro p hp; simp [pnone] at hp) ?_
    intro p hp
    simp only [por, Bool.or_eq_true] at hp
    rcases hp with (h | h) | h <;> exact h

theorem renderDictWith_tr (cfg : Cfg) (np : Str → Bool) (es : List (DEntry FileS)) (ps : List (Code × Code))
    (f : FileS) (hes : EntriesTr cfg np es ps) (hg : Good cfg f) (hnp : f.np = np) :
    Tr cfg (visitsPairs np ps) (visitsPairs np ps) f (renderDictWith FileS.np f es).2 := by
  have l1 := dictLoop1_tr cfg np (visitsPairs np ps) es ps f hes hg hnp (fun _ h => h)
  have hg1 := good_of_ext hg l1.1.ext
  have hnp1 := np_of_ext l1.1.ext hnp
  have l2 := dictLoop2_tr cfg np (visitsPairs np ps) ((dictLoop1 FileS.np f es).1.mergeSort dictKeyLe).length
    ((dictLoop1 FileS.np f es).1.mergeSort dictKeyLe) true _
    (fun t ht => l1.2 t (List.mem_mergeSort.1 ht)) hg1 hnp1
  rw [renderDictWith_eq]
  refine (l1.1.seq l2).conv (by intro p hp; simp [por, hp]) ?_
  intro p hp
  simp only [por, Bool.or_eq_true] at hp
  rcases hp with h | h <;> exact h

mutual
/-- FOOTPRINT: rendering `c` registers only visited paths, and registers every visited non-local one -/
theorem renderS_tr (cfg : Cfg) : ∀ (c : Code) (f : FileS) (prev : Option Code) (np : Str → Bool),
    Good cfg f → f.np = np → Tr cfg (visits np c) (visits np c) f (renderS cfg f prev c).2
  | .nilc, f, prev, np, _, _ => by
    simp only [renderS]
    exact Tr.rfl' cfg f (by intro p; simp [visits])
  | .tok k s, f, prev, np, hg, _ => by
    cases k
    case pkg =>
      simp only [renderS]
      exact (Tr.register hg s).conv (by intro p hp; simpa [visits] using hp) (by intro p hp; simpa [visits] using hp)
    all_goals
      simp only [renderS]
      exact Tr.rfl' cfg f (by intro p; simp [visits])
  | .lit v, f, prev, np, _, _ => by
    simp only [renderS]
    exact Tr.rfl' cfg f (by intro p; simp [visits])
  | .tag items, f, prev, np, _, _ => by
    simp only [renderS]
    exact Tr.rfl' cfg f (by intro p; simp [visits])
  | .comment t, f, prev, np, _, _ => by
    simp only [renderS]
    exact Tr.rfl' cfg f (by intro p; simp [visits])
  | .group gi items, f, prev, np, hg, hnp => by
    by_cases ht : (gi.name == b!"types" && allNull np items) = true
    · have e : renderS cfg f prev (.group gi items) = ([], f) := by simp [renderS, hnp, ht]
      rw [e]
      exact Tr.rfl' cfg f (by intro p; simp [visits, ht])
    · have ht' : (gi.name == b!"types" && allNull np items) = false := by simpa using ht
      have e : (renderS cfg f prev (.group gi items)).2 = (renderItemsS cfg gi true f items).2.2 := by
        simp [renderS, hnp, ht']
      have hv : visits np (.group gi items) = visitsItems np items := by
        funext p; simp [visits, ht']
      rw [e, hv]
      exact renderItemsS_tr cfg items gi true f np hg hnp
  | .stmt items, f, prev, np, hg, hnp => by
    have hv : visits np (.stmt items) = visitsStmt np items := by funext p; simp [visits]
    simp only [renderS]
    rw [hv]
    exact renderStmtS_tr cfg items true none f np hg hnp
  | .dict ps, f, prev, np, hg, hnp => by
    have hv : visits np (.dict ps) = visitsPairs np ps := by funext p; simp [visits]
    simp only [renderS]
    rw [hv]
    exact renderDictWith_tr cfg np _ ps f (dictEntries_tr cfg ps np) hg hnp
theorem renderItemsS_tr (cfg : Cfg) : ∀ (cs : List Code) (gi : GInfo) (first : Bool) (f : FileS) (np : Str → Bool),
    Good cfg f → f.np = np →
    Tr cfg (visitsItems np cs) (visitsItems np cs) f (renderItemsS cfg gi first f cs).2.2
  | [], gi, first, f, np, _, _ => by
    simp only [renderItemsS]
    exact Tr.rfl' cfg f (by intro p; simp [visitsItems])
  | c :: cs, gi, first, f, np, hg, hnp => by
    have t0 := preReg_tr cfg f hg c
    have hg0 := good_of_ext hg t0.ext
    have hnp0 := np_of_ext t0.ext hnp
    rw [renderItemsS_cons, hnp0]
    by_cases hn : isNull np c = true
    · have hv : visitsItems np (c :: cs) = por (directPkg c) (visitsItems np cs) := by
        funext p; simp [visitsItems, hn, por]
      simp only [hn, if_true]
      rw [hv]
      exact t0.seq (renderItemsS_tr cfg cs gi first _ np hg0 hnp0)
    · have hn' : isNull np c = false := by simpa using hn
      have hv : visitsItems np (c :: cs) = por (por (directPkg c) (visits np c)) (visitsItems np cs) := by
        funext p; simp [visitsItems, hn', por]
      simp only [hn', Bool.false_eq_true, if_false]
      have t1 := renderS_tr cfg c _ none np hg0 hnp0
      have hg1 := good_of_ext hg0 t1.ext
      have hnp1 := np_of_ext t1.ext hnp0
      rw [hv]
      exact (t0.seq t1).seq (renderItemsS_tr cfg cs gi false _ np hg1 hnp1)
theorem renderStmtS_tr (cfg : Cfg) : ∀ (cs : List Code) (first : Bool) (prev : Option Code) (f : FileS) (np : Str → Bool),
    Good cfg f → f.np = np →
    Tr cfg (visitsStmt np cs) (visitsStmt np cs) f (renderStmtS cfg first prev f cs).2
  | [], first, prev, f, np, _, _ => by
    simp only [renderStmtS]
    exact Tr.rfl' cfg f (by intro p; simp [visitsStmt])
  | c :: cs, first, prev, f, np, hg, hnp => by
    rw [renderStmtS, hnp]
    by_cases hn : isNull np c = true
    · have hv : visitsStmt np (c :: cs) = visitsStmt np cs := by
        funext p; simp [visitsStmt, hn]
      simp only [hn, if_true]
      rw [hv]
      exact renderStmtS_tr cfg cs first (some c) f np hg hnp
    · have hn' : isNull np c = false := by simpa using hn
      have hv : visitsStmt np (c :: cs) = por (visits np c) (visitsStmt np cs) := by
        funext p; simp [visitsStmt, hn', por]
      simp only [hn', Bool.false_eq_true, if_false]
      have t1 := renderS_tr cfg c f prev np hg hnp
      have hg1 := good_of_ext hg t1.ext
      have hnp1 := np_of_ext t1.ext hnp
      rw [hv]
      exact t1.seq (renderStmtS_tr cfg cs false (some c) _ np hg1 hnp1)
theorem dictEntries_tr (cfg : Cfg) : ∀ (ps : List (Code × Code)) (np : Str → Bool),
    EntriesTr cfg np (dictEntriesS cfg ps) ps
  | [], np => by simp only [dictEntriesS]; exact .nil
  | (k, v) :: ps, np => by
    rw [dictEntriesS]
    exact .cons
      ⟨rfl, rfl, fun f hg hnp => renderS_tr cfg k f none np hg hnp,
        fun f hg hnp => renderS_tr cfg v f none np hg hnp⟩
      (dictEntries_tr cfg ps np)
end


/-! ### the footprint theorems -/

/-- under `Good`, the state after any render extends the state before (no side condition) -/
theorem renderS_ext (cfg : Cfg) (f : FileS) (prev : Option Code) (c : Code) (hg : Good cfg f) :
    Ext f (renderS cfg f prev c).2 := (renderS_tr cfg c f prev f.np hg rfl).ext

/-- the state after rendering is obtained from the state before by registering only visited
    paths (holds for every code; `PkgNonNull` is not needed) -/
theorem renderS_regFrom (cfg : Cfg) (f : FileS) (prev : Option Code) (c : Code) (hg : Good cfg f) :
    RegFrom cfg (visits f.np c) f (renderS cfg f prev c).2 := (renderS_tr cfg c f prev f.np hg rfl).reg

theorem renderItemsS_regFrom (cfg : Cfg) (f : FileS) (gi : GInfo) (first : Bool) (cs : List Code)
    (hg : Good cfg f) :
    RegFrom cfg (visitsItems f.np cs) f (renderItemsS cfg gi first f cs).2.2 :=
  (renderItemsS_tr cfg cs gi first f f.np hg rfl).reg

theorem renderStmtS_regFrom (cfg : Cfg) (f : FileS) (first : Bool) (prev : Option Code) (cs : List Code)
    (hg : Good cfg f) :
    RegFrom cfg (visitsStmt f.np cs) f (renderStmtS cfg first prev f cs).2 :=
  (renderStmtS_tr cfg cs first prev f f.np hg rfl).reg

/-- `register` adds at most the key `p`, and nothing for the local path: NOTHING ELSE is imported -/
theorem regFrom_imports_subset {cfg : Cfg} {S : Str → Bool} {f f' : FileS} (h : RegFrom cfg S f f') :
    ∀ p, p ∈ f'.imports.map (·.1) → p ∈ f.imports.map (·.1) ∨ (S p = true ∧ isLocal f p = false) := by
  induction h with
  | refl => intro p hp; exact Or.inl hp
  | @step f' p0 hr hS ih =>
    intro q hq
    cases hl : isLocal f' p0 with
    | true => rw [RegistryInv.register_local hl] at hq; exact ih q hq
    | false =>
      rcases RegistryInv.register_shape cfg f' p0 with e | ⟨d, e⟩
      · rw [e] at hq; exact ih q hq
      · rw [e] at hq
        obtain ⟨x, hx, hx1⟩ := List.mem_map.mp hq
        rcases RegistryInv.mem_insert hx with e1 | e1
        · right
          subst e1
          simp only at hx1
          subst hx1
          refine ⟨hS, ?_⟩
          have hp := (regFrom_fields hr).2.1
          simpa [isLocal, hp] using hl
        · exact ih q (List.mem_map.mpr ⟨x, e1, hx1⟩)

/-- the imports after a render: those before, plus visited non-local paths only -/
theorem render_imports_subset (cfg : Cfg) (f : FileS) (prev : Option Code) (c : Code) (hg : Good cfg f) :
    ∀ p, p ∈ (renderS cfg f prev c).2.imports.map (·.1) →
      p ∈ f.imports.map (·.1) ∨ (visits f.np c p = true ∧ isLocal f p = false) :=
  regFrom_imports_subset (renderS_regFrom cfg f prev c hg)

/-- every visited non-local path IS imported (under a real name) afterwards
    (holds for every code; `PkgNonNull` is not needed) -/
theorem visited_registered (cfg : Cfg) (f : FileS) (prev : Option Code) (c : Code) (p : Str)
    (hg : Good cfg f) (hv : visits f.np c p = true) (hl : isLocal f p = false) :
    isReg (renderS cfg f prev c).2 p = true := (renderS_tr cfg c f prev f.np hg rfl).got p hv hl

theorem isReg_mem_imports {f : FileS} {p : Str} (h : isReg f p = true) : p ∈ f.imports.map (·.1) := by
  have hne : (lookupImp f p).name ≠ [] := ((RegistryInv.isReg_iff f p).mp h).1
  exact List.mem_map.mpr ⟨_, RegistryInv.lookupImp_mem hne, rfl⟩

/-- exact footprint on the NEW import keys: a path absent before is a key of the import table
    after the render iff it is visited and not local -/
theorem new_imports_iff (cfg : Cfg) (f : FileS) (prev : Option Code) (c : Code) (p : Str)
    (hg : Good cfg f) (hnew : p ∉ f.imports.map (·.1)) :
    p ∈ (renderS cfg f prev c).2.imports.map (·.1) ↔ (visits f.np c p = true ∧ isLocal f p = false) := by
  constructor
  · intro h
    rcases render_imports_subset cfg f prev c hg p h with h' | h'
    · exact absurd h' hnew
    · exact h'
  · intro ⟨hv, hl⟩
    exact isReg_mem_imports (visited_registered cfg f prev c p hg hv hl)

/-- registering local or already registered paths is the identity -/
theorem regFrom_fixed {cfg : Cfg} {S : Str → Bool} {f f' : FileS} (h : RegFrom cfg S f f') :
    (∀ p, S p = true → isLocal f p = true ∨ isReg f p = true) → f' = f := by
  induction h with
  | refl => intro _; rfl
  | @step f' p0 hr hS ih =>
    intro hall
    have e := ih hall
    subst e
    rcases hall p0 hS with h | h
    · rw [RegistryInv.register_local h]
    · rw [RegistryInv.register_idem h]

theorem pkgNonNull_ext {f f' : FileS} (h : Ext f f') {c : Code} (hn : PkgNonNull f c) : PkgNonNull f' c := by
  unfold PkgNonNull at hn ⊢
  split
  · rename_i s
    simp only at hn
    rw [h.np s]; exact hn
  · trivial

/-- a second render from the state the first one left is a fixed point of the state (no side
    condition on `c` for the state part) -/
theorem rerender_state_fixed (cfg : Cfg) (f : FileS) (prev prev' : Option Code) (c : Code) (hg : Good cfg f) :
    (renderS cfg (renderS cfg f prev c).2 prev' c).2 = (renderS cfg f prev c).2 := by
  have t := renderS_tr cfg c f prev f.np hg rfl
  have hg1 := good_of_ext hg t.ext
  have hnp1 : (renderS cfg f prev c).2.np = f.np := funext t.ext.np
  have t' := renderS_tr cfg c (renderS cfg f prev c).2 prev' f.np hg1 hnp1
  apply regFrom_fixed t'.reg
  intro p hp
  cases hl : isLocal (renderS cfg f prev c).2 p with
  | true => exact Or.inl rfl
  | false =>
    right
    exact t.got p hp (by rw [← isLocal_static t.ext.static]; exact hl)

/-- second render changes nothing: same state, same text -/
theorem rerender_fixed_point (cfg : Cfg) (f : FileS) (prev : Option Code) (c : Code)
    (hg : Good cfg f) (hn : PkgNonNull f c) :
    let f1 := (renderS cfg f prev c).2
    (renderS cfg f1 prev c).2 = f1 ∧ (renderS cfg f1 prev c).1 = (renderS cfg f prev c).1 :=
  ⟨rerender_state_fixed cfg f prev prev c hg, (rerender_same cfg f prev c hg hn).1⟩

/-- the text part needs no side condition either: a null package token renders the same name
    (or nothing, for the local path) both times -/
theorem rerender_text_same (cfg : Cfg) (f : FileS) (prev : Option Code) (c : Code) (hg : Good cfg f) :
    (renderS cfg (renderS cfg f prev c).2 prev c).1 = (renderS cfg f prev c).1 := by
  by_cases hc : ∃ s, c = .tok .pkg s
  · obtain ⟨s, rfl⟩ := hc
    simp only [renderS]
    cases hl : isLocal f s with
    | true => rw [RegistryInv.register_local hl, RegistryInv.register_local hl]
    | false =>
      obtain ⟨h1, h2, _⟩ := hg f (SameStatic.refl f) s hl
      have hl1 : isLocal (register cfg f s).2 s = false := by
        rw [isLocal_static (register_static cfg f s)]; exact hl
      rw [RegistryInv.register_reg hl1 h1, h2]
  · have hn : PkgNonNull f c := by
      unfold PkgNonNull
      split
      · rename_i s; exact absurd ⟨s, rfl⟩ hc
      · trivial
    exact (rerender_same cfg f prev c hg hn).1

theorem rerender_fixed_point' (cfg : Cfg) (f : FileS) (prev : Option Code) (c : Code) (hg : Good cfg f) :
    renderS cfg (renderS cfg f prev c).2 prev c = renderS cfg f prev c :=
  Prod.ext (rerender_text_same cfg f prev c hg) (rerender_state_fixed cfg f prev prev c hg)

/-- whole file: rendering twice gives the same raw bytes and the same state -/
theorem renderFileRaw_idempotent (cfg : Cfg) (f : FileS) (body : List Code) (hg : Good cfg f) :
    let r1 := renderFileRaw cfg f body
    renderFileRaw cfg r1.2 body = r1 := by
  have h := rerender_fixed_point cfg f none (.group fileInfo body) hg trivial
  simp only at h
  simp only [renderFileRaw]
  rw [h.1, h.2]

/-- whole file: the import table after `File.Render` has the keys it had before plus visited
    non-local paths only, and every visited non-local path is registered under a real name -/
theorem file_imports_exact (cfg : Cfg) (f : FileS) (body : List Code) (hg : Good cfg f) (p : Str) :
    (p ∈ (renderFileRaw cfg f body).2.imports.map (·.1) →
      p ∈ f.imports.map (·.1) ∨ (visitsItems f.np body p = true ∧ isLocal f p = false)) ∧
    (visitsItems f.np body p = true → isLocal f p = false → isReg (renderFileRaw cfg f body).2 p = true) := by
  have hv : visits f.np (.group fileInfo body) = visitsItems f.np body := by
    funext q; simp [visits, fileInfo]
  simp only [renderFileRaw]
  refine ⟨fun h => ?_, fun h hl => ?_⟩
  · have := render_imports_subset cfg f none (.group fileInfo body) hg p h
    rwa [hv] at this
  · exact visited_registered cfg f none (.group fileInfo body) p hg (by rw [hv]; exact h) hl

/-! ### hints and null items -/

theorem hints_do_not_import (f : FileS) (p n : Str) (m : List (Str × Str)) :
    (importName f p n).imports = f.imports ∧ (importAlias f p n).imports = f.imports ∧
    (importNames f m).imports = f.imports :=
  ⟨rfl, rfl, (RegistryInv.importNames_imports m f).1⟩

theorem preReg_not_pkg (cfg : Cfg) (f : FileS) (c : Code) (hd : ∀ s, c ≠ .tok .pkg s) :
    preReg cfg f c = f := by
  cases c with
  | tok k s =>
    cases k
    case pkg => exact absurd rfl (hd s)
    all_goals rfl
  | _ => rfl

/-- a null item that is not a direct package token contributes nothing at all to a group:
    no text, no separator, no registration -/
theorem null_item_contributes_nothing (cfg : Cfg) (gi : GInfo) (first : Bool) (f : FileS) (c : Code)
    (cs : List Code) (hn : isNull f.np c = true) (hd : ∀ s, c ≠ .tok .pkg s) :
    renderItemsS cfg gi first f (c :: cs) = renderItemsS cfg gi first f cs := by
  rw [renderItemsS_cons, preReg_not_pkg cfg f c hd, hn]
  simp only [if_true]

/-- a null DIRECT package token contributes its registration and nothing else -/
theorem null_pkg_item (cfg : Cfg) (gi : GInfo) (first : Bool) (f : FileS) (s : Str) (cs : List Code)
    (hn : (register cfg f s).2.np s = true) :
    renderItemsS cfg gi first f (.tok .pkg s :: cs) = renderItemsS cfg gi first (register cfg f s).2 cs := by
  rw [renderItemsS_cons]
  simp only [preReg, isNull, hn, if_true]

/-- for the local path even that registration is the identity -/
theorem local_pkg_item (cfg : Cfg) (gi : GInfo) (first : Bool) (f : FileS) (s : Str) (cs : List Code)
    (hl : isLocal f s = true) :
    renderItemsS cfg gi first f (.tok .pkg s :: cs) = renderItemsS cfg gi first f cs := by
  have e : (register cfg f s).2 = f := by rw [RegistryInv.register_local hl]
  rw [null_pkg_item cfg gi first f s cs (by rw [e]; simp [FileS.np, hl]), e]

/-- a null item of a statement contributes no text and no registration; it is only remembered as
    the raw previous item (`prev`, used for the Case/default block rule D5) -/
theorem null_stmt_item (cfg : Cfg) (first : Bool) (prev : Option Code) (f : FileS) (c : Code)
    (cs : List Code) (hn : isNull f.np c = true) :
    renderStmtS cfg first prev f (c :: cs) = renderStmtS cfg first (some c) f cs := by
  rw [renderStmtS, hn]
  simp only [if_true]

/-- and a null item is not visited through `visitsItems`/`visitsStmt` beyond its direct token -/
theorem null_item_visits (np : Str → Bool) (c : Code) (cs : List Code) (p : Str) (hn : isNull np c = true) :
    visitsItems np (c :: cs) p = (directPkg c p || visitsItems np cs p) ∧
    visitsStmt np (c :: cs) p = visitsStmt np cs p := by
  simp [visitsItems, visitsStmt, hn]

/-! ### the hypotheses are satisfiable -/

section Examples
open RegistryInv RegistryGood

def exBody : List Code :=
  [.stmt [Code.qual b!"fmt" b!"Println", .group ⟨b!"call", b!"(", b!")", b!",", false⟩
      [Code.qual b!"x.com/a" b!"V", Code.qual b!"main" b!"W", Code.qual b!"y.org/b" b!"Z"]]]

def exBody2 : List Code :=
  exBody ++ [.dict [(.lit (.int 1), Code.qual b!"z.org/c" b!"Z"), (Code.null, Code.qual b!"skipped" b!"Z")]]

example : Good cfg0 f0 := good_of_hintsOk hintsOk_f0 stdOk_cfg0

/-- the local path `main` is visited but not imported -/
example : (renderFileRaw cfg0 f0 exBody).2.imports.map (·.1) = [b!"fmt", b!"x.com/a", b!"y.org/b"] := by
  decide

example : renderFileRaw cfg0 (renderFileRaw cfg0 f0 exBody2).2 exBody2 = renderFileRaw cfg0 f0 exBody2 :=
  renderFileRaw_idempotent cfg0 f0 exBody2 (good_of_hintsOk hintsOk_f0 stdOk_cfg0)

example : visits f0.np (.group fileInfo exBody2) b!"z.org/c" = true ∧
    visits f0.np (.group fileInfo exBody2) b!"skipped" = false ∧
    visits f0.np (.group fileInfo exBody2) b!"main" = true ∧ isLocal f0 b!"main" = true := by decide

end Examples

end Frame

#print axioms Frame.renderS_frame
#print axioms Frame.renderItemsS_frame
#print axioms Frame.renderStmtS_frame
#print axioms Frame.renderDict_frame
#print axioms Frame.renderS_reach
#print axioms Frame.other_fields_untouched
#print axioms Frame.noFormat_irrelevant
#print axioms Frame.renderS_tr
#print axioms Frame.renderS_regFrom
#print axioms Frame.regFrom_imports_subset
#print axioms Frame.render_imports_subset
#print axioms Frame.visited_registered
#print axioms Frame.new_imports_iff
#print axioms Frame.regFrom_fixed
#print axioms Frame.rerender_state_fixed
#print axioms Frame.rerender_fixed_point
#print axioms Frame.rerender_fixed_point'
#print axioms Frame.renderFileRaw_idempotent
#print axioms Frame.file_imports_exact
#print axioms Frame.hints_do_not_import
#print axioms Frame.null_item_contributes_nothing
#print axioms Frame.null_pkg_item
#print axioms Frame.local_pkg_item
#print axioms Frame.null_stmt_item
#print axioms Frame.visits_congr
