import JenVerif.Lit
import JenVerif.Spec.GoNum
/-
  Value / type preservation of numeric literal rendering (`Lit.render`) against the Go-spec
  readers of `JenVerif/Spec/GoNum.lean`.
-/
namespace LitRT
open GoNum

/-! ### digit characters -/

theorem decDigit_toNat {d : Nat} (h : d < 10) : (UInt8.ofNat (48 + d)).toNat = 48 + d :=
  UInt8.toNat_ofNat_of_lt' (by simp [UInt8.size]; omega)

theorem isDigit_decDigit {d : Nat} (h : d < 10) : isDigit (UInt8.ofNat (48 + d)) = true := by
  have := decDigit_toNat h
  unfold isDigit
  rw [Bool.and_eq_true, decide_eq_true_eq, decide_eq_true_eq, UInt8.le_iff_toNat_le,
    UInt8.le_iff_toNat_le, this]
  exact ⟨by simp, by simp; omega⟩

theorem digitVal_decDigit {d : Nat} (h : d < 10) : digitVal (UInt8.ofNat (48 + d)) = d := by
  unfold digitVal; rw [decDigit_toNat h]; omega

theorem decDigit_eq_zero {d : Nat} (h : d < 10) (h0 : UInt8.ofNat (48 + d) = 48) : d = 0 := by
  have := decDigit_toNat h
  rw [h0] at this
  simp at this; omega

theorem hexVal_hexDigit : ∀ d, d < 16 → hexVal (Str.hexDigit d) = some d := by decide

/-! ### reference digit functions (well-founded, most significant digit first) -/

def digits (n : Nat) : Str :=
  if _h : n < 10 then [UInt8.ofNat (48 + n)] else digits (n / 10) ++ [UInt8.ofNat (48 + n % 10)]
termination_by n
decreasing_by all_goals omega

def hexDigits (n : Nat) : Str :=
  if _h : n < 16 then [Str.hexDigit n] else hexDigits (n / 16) ++ [Str.hexDigit (n % 16)]
termination_by n
decreasing_by omega

/-- the fuel `n + 1` (indeed any fuel `> n`) suffices -/
theorem natDigitsAux_eq (fuel : Nat) : ∀ n acc, n < fuel →
    Str.natDigitsAux fuel n acc = digits n ++ acc := by
  induction fuel with
  | zero => intro n acc h; omega
  | succ f ih =>
    intro n acc h
    rw [Str.natDigitsAux, digits]
    by_cases h10 : n < 10
    · simp [h10]
    · simp only [h10, if_false, dite_false]
      rw [ih _ _ (by omega)]
      simp

theorem natDec_eq (n : Nat) : Str.natDec n = digits n := by
  simp [Str.natDec, natDigitsAux_eq (n + 1) n [] (by omega)]

theorem natHexAux_eq (fuel : Nat) : ∀ n acc, n < fuel →
    Str.natHexAux fuel n acc = hexDigits n ++ acc := by
  induction fuel with
  | zero => intro n acc h; omega
  | succ f ih =>
    intro n acc h
    rw [Str.natHexAux, hexDigits]
    by_cases h16 : n < 16
    · simp [h16]
    · simp only [h16, if_false, dite_false]
      rw [ih _ _ (by omega)]
      simp

theorem natHex_eq (n : Nat) : Str.natHex n = hexDigits n := by
  simp [Str.natHex, natHexAux_eq (n + 1) n [] (by omega)]

/-! ### positional value of the digit strings -/

theorem decFold_append (xs ys : Str) : ∀ a,
    decFold a (xs ++ ys) = (decFold a xs).bind fun v => decFold v ys := by
  induction xs with
  | nil => intro a; simp [decFold]
  | cons c cs ih =>
    intro a
    simp only [List.cons_append, decFold]
    split
    · exact ih _
    · simp

theorem hexFold_append (xs ys : Str) : ∀ a,
    hexFold a (xs ++ ys) = (hexFold a xs).bind fun v => hexFold v ys := by
  induction xs with
  | nil => intro a; simp [hexFold]
  | cons c cs ih =>
    intro a
    simp only [List.cons_append, hexFold]
    split
    · exact ih _
    · simp

theorem decFold_single {a d : Nat} (h : d < 10) :
    decFold a [UInt8.ofNat (48 + d)] = some (a * 10 + d) := by
  rw [decFold, if_pos (isDigit_decDigit h), digitVal_decDigit h, decFold]

theorem hexFold_single {a d : Nat} (h : d < 16) :
    hexFold a [Str.hexDigit d] = some (a * 16 + d) := by
  simp [hexFold, hexVal_hexDigit d h]

theorem decFold_digits (n : Nat) : decFold 0 (digits n) = some n := by
  induction n using Nat.strongRecOn with
  | _ n ih =>
    rw [digits]
    by_cases h : n < 10
    · simp only [h, dite_true]; rw [decFold_single h]; simp
    · simp only [h, dite_false]
      rw [decFold_append, ih (n / 10) (by omega)]
      simp only [Option.bind_some]
      rw [decFold_single (by omega)]
      congr 1; omega

theorem hexFold_hexDigits (n : Nat) : hexFold 0 (hexDigits n) = some n := by
  induction n using Nat.strongRecOn with
  | _ n ih =>
    rw [hexDigits]
    by_cases h : n < 16
    · simp only [h, dite_true]; rw [hexFold_single h]; simp
    · simp only [h, dite_false]
      rw [hexFold_append, ih (n / 16) (by omega)]
      simp only [Option.bind_some]
      rw [hexFold_single (by omega)]
      congr 1; omega

/-- `digits n` is non-empty and has no superfluous leading zero -/
theorem digits_head (n : Nat) : ∃ c rest, digits n = c :: rest ∧ (c = 48 → rest = []) := by
  induction n using Nat.strongRecOn with
  | _ n ih =>
    rw [digits]
    by_cases h : n < 10
    · simp only [h, dite_true]; exact ⟨_, [], rfl, fun _ => rfl⟩
    · simp only [h, dite_false]
      obtain ⟨c, rest, hd, hz⟩ := ih (n / 10) (by omega)
      refine ⟨c, rest ++ [_], by rw [hd]; rfl, ?_⟩
      intro hc
      -- a leading '0' means `digits (n/10) = "0"`, whose value is 0, but `n / 10 ≥ 1`
      have hv := decFold_digits (n / 10)
      rw [hd, hz hc, hc] at hv
      simp [decFold, isDigit, digitVal] at hv
      omega

theorem hexDigits_ne_nil (n : Nat) : ∃ c rest, hexDigits n = c :: rest := by
  rw [hexDigits]
  by_cases h : n < 16
  · simp [h]
  · simp only [h, dite_false]
    cases hexDigits (n / 16) <;> simp

/-! ### round trips -/

theorem natDec_roundtrip : ∀ n : Nat, GoNum.readDec (Str.natDec n) = some n := by
  intro n
  rw [natDec_eq]
  obtain ⟨c, rest, hd, hz⟩ := digits_head n
  have hv := decFold_digits n
  rw [hd] at hv ⊢
  simp only [readDec]
  by_cases hc : c = 48
  · simp [hz hc]; rw [← hv, hz hc]
  · simp [hc, hv]

theorem natDec_ne_minus (n : Nat) : ∀ r, Str.natDec n ≠ 45 :: r := by
  intro r h
  have hv := decFold_digits n
  rw [← natDec_eq, h] at hv
  simp [decFold, isDigit] at hv

theorem int_roundtrip : ∀ v : Int, GoNum.readSignedDec (Str.intDec v) = some v := by
  intro v
  cases v with
  | ofNat n =>
    simp only [Str.intDec]
    have h := natDec_roundtrip n
    have hne := natDec_ne_minus n
    unfold readSignedDec
    split
    · next r heq => exact absurd heq (hne r)
    · simp [h]
  | negSucc n =>
    simp only [Str.intDec, readSignedDec, natDec_roundtrip]
    simp [Int.negSucc_eq]

theorem hex_roundtrip : ∀ n : Nat, GoNum.readHex (b!"0x" ++ Str.natHex n) = some n := by
  intro n
  rw [natHex_eq]
  obtain ⟨c, rest, hd⟩ := hexDigits_ne_nil n
  have hv := hexFold_hexDigits n
  rw [hd] at hv ⊢
  simp [readHex, hv]

/-! ### sized integers, bytes, type names -/

theorem sized_shape : ∀ (isPrint : Nat → Bool) (ty : NumTy) (v : Int),
    Lit.render isPrint (.sized ty v) = ty.name ++ b!"(" ++ Lit.fmtInt ty.signed v ++ b!")" :=
  fun _ _ _ => rfl

theorem sized_value_signed (v : Int) : GoNum.readSignedDec (Lit.fmtInt true v) = some v := by
  simp [Lit.fmtInt, int_roundtrip]

theorem sized_value_unsigned (v : Int) (h : 0 ≤ v) :
    GoNum.readHex (Lit.fmtInt false v) = some v.toNat ∧ (Int.ofNat v.toNat = v) := by
  refine ⟨?_, by simp; omega⟩
  have := hex_roundtrip v.toNat
  simpa [Lit.fmtInt] using this

/-- both cases at once, on the rendered conversion `T(…)` -/
theorem sized_value (ty : NumTy) (v : Int) :
    (ty.signed = true → GoNum.readSignedDec (Lit.fmtInt ty.signed v) = some v) ∧
    (ty.signed = false → 0 ≤ v → GoNum.readHex (Lit.fmtInt ty.signed v) = some v.toNat) := by
  constructor
  · intro h; rw [h]; exact sized_value_signed v
  · intro h hv; rw [h]; exact (sized_value_unsigned v hv).1

example : ∃ v : Int, 0 ≤ v ∧ GoNum.readHex (Lit.fmtInt false v) = some 255 := ⟨255, by decide, by decide⟩

def allNumTy : List NumTy :=
  [.int8, .int16, .int32, .int64, .uint, .uint8, .uint16, .uint32, .uint64, .uintptr]

theorem allNumTy_complete : ∀ ty : NumTy, ty ∈ allNumTy := by
  intro ty; cases ty <;> decide

theorem typeNames_exact :
    allNumTy.map NumTy.name =
      [b!"int8", b!"int16", b!"int32", b!"int64", b!"uint", b!"uint8", b!"uint16", b!"uint32",
       b!"uint64", b!"uintptr"] ∧
    (allNumTy.map NumTy.name).Nodup := by
  constructor <;> decide

theorem typeName_injective : ∀ a b : NumTy, a.name = b.name → a = b := by
  intro a b; cases a <;> cases b <;> decide

/-- the signedness recorded in the model agrees with the Go type name (`u` prefix) -/
theorem signed_iff_name : ∀ ty : NumTy, ty.signed = (ty.name.head? != some 117) := by
  intro ty; cases ty <;> decide

theorem byte_roundtrip : ∀ (isPrint : Nat → Bool) (b : UInt8), ∃ digits,
    Lit.render isPrint (.byte b) = b!"byte(0x" ++ digits ++ b!")" ∧
    GoNum.readHex (b!"0x" ++ digits) = some b.toNat :=
  fun _ b => ⟨Str.natHex b.toNat, rfl, hex_roundtrip b.toNat⟩

theorem bool_render (isPrint : Nat → Bool) :
    Lit.render isPrint (.bool true) = b!"true" ∧ Lit.render isPrint (.bool false) = b!"false" :=
  ⟨rfl, rfl⟩

theorem int_render (isPrint : Nat → Bool) (v : Int) :
    GoNum.readSignedDec (Lit.render isPrint (.int v)) = some v := int_roundtrip v

/-! ### complex -/

theorem complex_shape (isPrint : Nat → Bool) (re im : Str) :
    Lit.render isPrint (.c128 re im) = b!"(" ++ re ++ Lit.forceSign im ++ b!"i)" := rfl

theorem complex64_shape (isPrint : Nat → Bool) (re im : Str) :
    Lit.render isPrint (.c64 re im) = b!"complex64(" ++ re ++ Lit.forceSign im ++ b!"i)" := rfl

/-- `forceSign im` always starts with a sign -/
theorem forceSign_head (im : Str) :
    ∃ r, Lit.forceSign im = 43 :: r ∨ Lit.forceSign im = 45 :: r := by
  unfold Lit.forceSign
  split
  · exact ⟨_, Or.inr rfl⟩
  · exact ⟨_, Or.inl rfl⟩
  · exact ⟨_, Or.inl rfl⟩

/-- `forceSign` keeps a signed text and puts `+` before an unsigned one: dropping the added `+`
    gives back `im` -/
theorem forceSign_cases (im : Str) :
    ((im.head? = some 43 ∨ im.head? = some 45) ∧ Lit.forceSign im = im) ∨
    (im.head? ≠ some 43 ∧ im.head? ≠ some 45 ∧ Lit.forceSign im = 43 :: im) := by
  unfold Lit.forceSign
  split
  · exact Or.inl ⟨Or.inr rfl, rfl⟩
  · exact Or.inl ⟨Or.inl rfl, rfl⟩
  · next h1 h2 =>
    refine Or.inr ⟨?_, ?_, rfl⟩
    · cases im with
      | nil => simp
      | cons c r => intro h; simp at h; exact h2 r (by rw [h])
    · cases im with
      | nil => simp
      | cons c r => intro h; simp at h; exact h1 r (by rw [h])

/-! ### float64: the `.0` fix-up -/

theorem floatFix_of_mem (t : Str) (h : 46 ∈ t ∨ 101 ∈ t) : Lit.floatFix t = t := by
  unfold Lit.floatFix
  rcases h with h | h <;> simp [h]

theorem floatFix_of_not_mem (t : Str) (h1 : 46 ∉ t) (h2 : 101 ∉ t) :
    Lit.floatFix t = t ++ b!".0" := by
  unfold Lit.floatFix
  simp [h1, h2]

/-- the task's `floatFix_idempotent_shape` -/
theorem floatFix_idempotent_shape (t : Str) :
    ((46 ∈ t ∨ 101 ∈ t) → Lit.floatFix t = t) ∧
    (¬(46 ∈ t ∨ 101 ∈ t) → Lit.floatFix t = t ++ b!".0") :=
  ⟨floatFix_of_mem t, fun h => floatFix_of_not_mem t (fun h' => h (Or.inl h')) (fun h' => h (Or.inr h'))⟩

theorem floatFix_idempotent (t : Str) : Lit.floatFix (Lit.floatFix t) = Lit.floatFix t := by
  by_cases h : 46 ∈ t ∨ 101 ∈ t
  · rw [floatFix_of_mem t h, floatFix_of_mem t h]
  · rw [(floatFix_idempotent_shape t).2 h]
    exact floatFix_of_mem _ (Or.inl (by simp))

/-- the fix-up does not look at a leading minus sign -/
theorem floatFix_minus (t : Str) : Lit.floatFix (45 :: t) = 45 :: Lit.floatFix t := by
  unfold Lit.floatFix
  have h1 : (45 :: t).elem 46 = t.elem 46 := by simp [List.elem]
  have h2 : (45 :: t).elem 101 = t.elem 101 := by simp [List.elem]
  rw [h1, h2]
  split <;> rfl

/-! #### digit strings -/

theorem digit_ne {c : UInt8} (h : isDigit c = true) : c ≠ 45 ∧ c ≠ 46 ∧ c ≠ 101 := by
  simp only [isDigit, Bool.and_eq_true, decide_eq_true_eq, UInt8.le_iff_toNat_le] at h
  have h48 : (48 : UInt8).toNat = 48 := rfl
  have h57 : (57 : UInt8).toNat = 57 := rfl
  rw [h48, h57] at h
  refine ⟨?_, ?_, ?_⟩ <;> intro hc <;> rw [hc] at h <;> revert h <;> decide

theorem not_mem_of_digits {s : Str} (h : s.all isDigit = true) : 46 ∉ s ∧ 101 ∉ s := by
  rw [List.all_eq_true] at h
  exact ⟨fun hm => (digit_ne (h _ hm)).2.1 rfl, fun hm => (digit_ne (h _ hm)).2.2 rfl⟩

/-- `rest` is empty or starts with a non-digit -/
def Stops (rest : Str) : Prop := ∀ c r, rest = c :: r → isDigit c = false

theorem takeWhile_stops {rest : Str} (h : Stops rest) : rest.takeWhile isDigit = [] := by
  cases rest with
  | nil => rfl
  | cons c r => simp [List.takeWhile, h c r rfl]

theorem dropWhile_stops {rest : Str} (h : Stops rest) : rest.dropWhile isDigit = rest := by
  cases rest with
  | nil => rfl
  | cons c r => simp [List.dropWhile, h c r rfl]

theorem span_digits {ip rest : Str} (hip : ip.all isDigit = true) (h : Stops rest) :
    (ip ++ rest).takeWhile isDigit = ip ∧ (ip ++ rest).dropWhile isDigit = rest := by
  rw [List.all_eq_true] at hip
  rw [List.takeWhile_append_of_pos hip, List.dropWhile_append_of_pos hip, takeWhile_stops h,
    dropWhile_stops h]
  simp

theorem stops_nil : Stops [] := fun _ _ h => by simp at h
theorem stops_cons {c : UInt8} {r : Str} (h : isDigit c = false) : Stops (c :: r) := by
  intro c' r' heq
  simp at heq
  rw [← heq.1]; exact h

theorem stops_expText (ex : Option (Bool × Str)) : Stops (GParts.expText ex) := by
  cases ex with
  | none => exact stops_nil
  | some p => exact stops_cons (by decide)

theorem stops_tail (fp : Option Str) (ex : Option (Bool × Str)) :
    Stops (GParts.fracText fp ++ GParts.expText ex) := by
  cases fp with
  | none => simpa [GParts.fracText] using stops_expText ex
  | some f => exact stops_cons (by decide)

/-! #### well-formed `%g` parts -/

theorem wf_parts {p : GParts} (h : p.wf = true) :
    p.ip ≠ [] ∧ p.ip.all isDigit = true ∧ GParts.fracWf p.fp = true ∧ GParts.expWf p.ex = true := by
  simp only [GParts.wf, Bool.and_eq_true] at h
  refine ⟨?_, h.1.1.2, h.1.2, h.2⟩
  have := h.1.1.1
  intro hnil; simp [hnil] at this

theorem isExponent_expText {n : Bool} {d : Str} (h : GParts.expWf (some (n, d)) = true) :
    isExponent (GParts.expText (some (n, d))) = true := by
  simp only [GParts.expWf, Bool.and_eq_true, decide_eq_true_eq] at h
  have hne : d ≠ [] := by intro hd; rw [hd] at h; simp at h
  cases n <;> simp [GParts.expText, isExponent, stripSign, h.2, hne]

/-- the unsigned part of a `%g` text, after jennifer's fix-up, is a Go decimal_float_lit -/
theorem isFloatLit_floatFix_body {p : GParts} (h : p.wf = true) :
    isFloatLit (Lit.floatFix p.body) = true := by
  obtain ⟨hne, hdig, hfp, hex⟩ := wf_parts h
  obtain ⟨neg, ip, fp, ex⟩ := p
  simp only at hne hdig hfp hex
  have hnm := not_mem_of_digits hdig
  cases fp with
  | some f =>
    have hfix : Lit.floatFix (GParts.body ⟨neg, ip, some f, ex⟩) = ip ++ (46 :: (f ++ GParts.expText ex)) :=
      floatFix_of_mem _ (Or.inl (by simp [GParts.body, GParts.fracText]))
    rw [hfix]
    unfold isFloatLit
    obtain ⟨h1, h2⟩ := span_digits (rest := 46 :: (f ++ GParts.expText ex)) hdig (stops_cons (by decide))
    rw [h1, h2]
    simp only [GParts.fracWf, Bool.and_eq_true] at hfp
    obtain ⟨h3, h4⟩ := span_digits hfp.2 (stops_expText ex)
    simp only [isFloatTail, h3, h4]
    have hip : ip.isEmpty = false := by cases ip with
      | nil => exact absurd rfl hne
      | cons _ _ => rfl
    cases ex with
    | none => simp [GParts.expText, hip]
    | some nd =>
      obtain ⟨n, d⟩ := nd
      simp [isExponent_expText hex, hip]
  | none =>
    have hip : ip.isEmpty = false := by cases ip with
      | nil => exact absurd rfl hne
      | cons _ _ => rfl
    cases ex with
    | some nd =>
      obtain ⟨n, d⟩ := nd
      have hfix : Lit.floatFix (GParts.body ⟨neg, ip, none, some (n, d)⟩)
          = ip ++ GParts.expText (some (n, d)) :=
        floatFix_of_mem _ (Or.inr (by simp [GParts.body, GParts.fracText, GParts.expText]))
      rw [hfix]
      unfold isFloatLit
      obtain ⟨h1, h2⟩ := span_digits hdig (stops_expText (some (n, d)))
      rw [h1, h2]
      have := isExponent_expText hex
      simp only [GParts.expText] at this ⊢
      simp [isFloatTail, this, hip]
    | none =>
      have hbody : GParts.body ⟨neg, ip, none, none⟩ = ip := by
        simp [GParts.body, GParts.fracText, GParts.expText]
      rw [hbody, floatFix_of_not_mem ip hnm.1 hnm.2]
      unfold isFloatLit
      obtain ⟨h1, h2⟩ := span_digits (rest := b!".0") hdig (stops_cons (by decide))
      rw [h1, h2]
      simp [isFloatTail, hip, isDigit]

theorem body_head {p : GParts} (h : p.wf = true) :
    ∃ c r, p.body = c :: r ∧ isDigit c = true := by
  obtain ⟨hne, hdig, -, -⟩ := wf_parts h
  unfold GParts.body
  cases hip : p.ip with
  | nil => exact absurd hip hne
  | cons c r =>
    rw [hip] at hdig
    simp at hdig
    exact ⟨c, _, rfl, hdig.1⟩

theorem stripMinus_text {p : GParts} (h : p.wf = true) : stripMinus p.text = p.body := by
  obtain ⟨c, r, hb, hc⟩ := body_head h
  unfold GParts.text GParts.signText
  cases p.neg with
  | true => simp [stripMinus]
  | false =>
    simp only [Bool.false_eq_true, if_false, List.nil_append, hb]
    unfold stripMinus
    split
    · next heq => simp at heq; exact absurd heq.1 (digit_ne hc).1
    · rfl

theorem floatFix_text (p : GParts) :
    Lit.floatFix p.text = GParts.signText p.neg ++ Lit.floatFix p.body := by
  unfold GParts.text GParts.signText
  cases p.neg with
  | true => simp [floatFix_minus]
  | false => simp

/-- **float64 literals are float literals.**  For every text `t` that `FormatFloat(v,'g',-1,64)`
    can produce, what jennifer prints is `[-]u'` where `u'` — the fix-up of the unsigned part of
    `t` — is a Go floating-point literal token (the minus is a unary operator applied to it). -/
theorem float64_is_float_literal {t : Str} (h : GShape t) :
    GoNum.isFloatLit (Lit.floatFix (stripMinus t)) = true ∧
    ∃ sign, (sign = [] ∨ sign = b!"-") ∧ t = sign ++ stripMinus t ∧
      Lit.floatFix t = sign ++ Lit.floatFix (stripMinus t) := by
  obtain ⟨p, hwf, rfl⟩ := h
  rw [stripMinus_text hwf]
  refine ⟨isFloatLit_floatFix_body hwf, GParts.signText p.neg, ?_, rfl, floatFix_text p⟩
  unfold GParts.signText; cases p.neg <;> simp

/-! #### exact values -/

theorem normAux_fuel : ∀ (m : Nat), 0 < m → ∀ f1 f2 e, m ≤ f1 → m ≤ f2 →
    normAux f1 m e = normAux f2 m e := by
  intro m
  induction m using Nat.strongRecOn with
  | _ m ih =>
    intro hm f1 f2 e h1 h2
    cases f1 with
    | zero => omega
    | succ a =>
      cases f2 with
      | zero => omega
      | succ b =>
        simp only [normAux]
        by_cases hmod : m % 10 = 0
        · simp only [hmod, if_true]
          exact ih (m / 10) (by omega) (by omega) a b (e + 1) (by omega) (by omega)
        · simp [hmod]

/-- a trailing zero digit of the mantissa is a factor ten: same canonical value -/
theorem normalize_mul_ten (m : Nat) (e : Int) : normalize (m * 10) e = normalize m (e + 1) := by
  unfold normalize
  by_cases hm : m = 0
  · simp [hm]
  · have h10 : m * 10 ≠ 0 := by omega
    simp only [hm, h10, if_false]
    cases hk : m * 10 with
    | zero => omega
    | succ k =>
      rw [normAux]
      have : (k + 1) % 10 = 0 := by omega
      simp only [this, if_true]
      have hdiv : (k + 1) / 10 = m := by omega
      rw [hdiv]
      exact normAux_fuel m (by omega) k m (e + 1) (by omega) (by omega)

/-- `normalize` is sound and canonical: it only moves factors of ten from the mantissa to the
    exponent, and the result's mantissa has no factor ten left -/
theorem normAux_sound : ∀ fuel m e, 0 < m → m ≤ fuel →
    ∃ k : Nat, (normAux fuel m e).2 = e + k ∧ m = (normAux fuel m e).1 * 10 ^ k ∧
      (normAux fuel m e).1 % 10 ≠ 0 := by
  intro fuel
  induction fuel with
  | zero => intro m e h1 h2; omega
  | succ f ih =>
    intro m e hm hf
    simp only [normAux]
    by_cases hmod : m % 10 = 0
    · simp only [hmod, if_true]
      obtain ⟨k, h1, h2, h3⟩ := ih (m / 10) (e + 1) (by omega) (by omega)
      refine ⟨k + 1, by rw [h1]; omega, ?_, h3⟩
      rw [Nat.pow_succ, ← Nat.mul_assoc, ← h2]; omega
    · simp only [hmod, if_false]
      exact ⟨0, by simp, by simp, hmod⟩

theorem normalize_sound (m : Nat) (e : Int) (hm : m ≠ 0) :
    ∃ k : Nat, (normalize m e).2 = e + k ∧ m = (normalize m e).1 * 10 ^ k ∧
      (normalize m e).1 % 10 ≠ 0 := by
  unfold normalize
  simp only [hm, if_false]
  exact normAux_sound m m e (by omega) (Nat.le_refl _)

theorem digitsVal_snoc (s : Str) (c : UInt8) :
    digitsVal (s ++ [c]) = digitsVal s * 10 + digitVal c := by
  simp [digitsVal, List.foldl_append]

theorem floatValue_of_digit {c : UInt8} (r : Str) (h : isDigit c = true) :
    floatValue (c :: r) = floatBody false (c :: r) := by
  unfold floatValue
  split
  · next heq => simp at heq; exact absurd heq.1 (digit_ne h).1
  · rfl

/-- appending ".0" to a digit string keeps its value -/
theorem floatBody_dot_zero (neg : Bool) {ip : Str} (hne : ip ≠ [])
    (hdig : ip.all isDigit = true) :
    floatBody neg (ip ++ b!".0") = floatBody neg ip := by
  have hip : ip.isEmpty = false := by cases ip with
    | nil => exact absurd rfl hne
    | cons _ _ => rfl
  obtain ⟨h1, h2⟩ := span_digits (rest := b!".0") hdig (stops_cons (by decide))
  obtain ⟨h3, h4⟩ := span_digits (rest := []) hdig stops_nil
  rw [List.append_nil] at h3 h4
  unfold floatBody
  rw [h1, h2, h3, h4]
  have hs1 : splitFrac b!".0" = (b!"0", []) := by decide
  have hs2 : splitFrac [] = ([], []) := rfl
  rw [hs1, hs2]
  simp only [hip, Bool.false_and, Bool.false_eq_true, if_false, readExp]
  congr 1
  unfold mkFVal
  rw [digitsVal_snoc, List.append_nil]
  have hd : digitVal 48 = 0 := by decide
  rw [hd, Nat.add_zero, normalize_mul_ten]
  simp

/-- **the fix-up does not change the value** of any text `FormatFloat(v,'g',-1,64)` can print -/
theorem floatFix_value {t : Str} (h : GShape t) :
    GoNum.floatValue (Lit.floatFix t) = GoNum.floatValue t := by
  by_cases hm : 46 ∈ t ∨ 101 ∈ t
  · rw [floatFix_of_mem t hm]
  · obtain ⟨p, hwf, rfl⟩ := h
    obtain ⟨hne, hdig, -, -⟩ := wf_parts hwf
    obtain ⟨neg, ip, fp, ex⟩ := p
    simp only at hne hdig
    -- no '.', no 'e': there is no fraction and no exponent
    have hfp : fp = none := by
      cases fp with
      | none => rfl
      | some f =>
        exfalso; apply hm; left
        cases neg <;> simp [GParts.text, GParts.signText, GParts.body, GParts.fracText]
    have hex : ex = none := by
      cases ex with
      | none => rfl
      | some nd =>
        exfalso; apply hm; right
        cases neg <;> simp [GParts.text, GParts.signText, GParts.body, GParts.expText]
    subst hfp hex
    rw [floatFix_text]
    have hbody : GParts.body ⟨neg, ip, none, none⟩ = ip := by
      simp [GParts.body, GParts.fracText, GParts.expText]
    have hnm := not_mem_of_digits hdig
    simp only [GParts.text, hbody, floatFix_of_not_mem ip hnm.1 hnm.2]
    cases hip : ip with
    | nil => exact absurd hip hne
    | cons c r =>
      have hc : isDigit c = true := by rw [hip] at hdig; simp at hdig; exact hdig.1
      rw [← hip]
      cases neg with
      | true =>
        simp only [GParts.signText, if_true, List.singleton_append]
        show floatBody true (ip ++ b!".0") = floatBody true ip
        exact floatBody_dot_zero true hne hdig
      | false =>
        simp only [GParts.signText, Bool.false_eq_true, if_false, List.nil_append]
        rw [hip, List.cons_append, floatValue_of_digit _ hc, floatValue_of_digit _ hc,
          ← List.cons_append, ← hip]
        exact floatBody_dot_zero false hne hdig

/-! #### the executable shape checker agrees with `GShape` -/

theorem parseExp_expText (ex : Option (Bool × Str)) : parseExp (GParts.expText ex) = some ex := by
  cases ex with
  | none => rfl
  | some nd => obtain ⟨n, d⟩ := nd; cases n <;> rfl

theorem expText_of_parseExp {r : Str} {ex} (h : parseExp r = some ex) : GParts.expText ex = r := by
  unfold parseExp at h
  split at h <;> simp at h <;> subst h <;> rfl

theorem parseFrac_text (r : Str) :
    GParts.fracText (parseFrac r).1 ++ (parseFrac r).2 = r := by
  unfold parseFrac
  split
  · simp [GParts.fracText]
  · rfl

theorem parseFrac_tail (fp : Option Str) (ex : Option (Bool × Str))
    (hfp : GParts.fracWf fp = true) :
    parseFrac (GParts.fracText fp ++ GParts.expText ex) = (fp, GParts.expText ex) := by
  cases fp with
  | some f =>
    simp only [GParts.fracWf, Bool.and_eq_true] at hfp
    obtain ⟨h3, h4⟩ := span_digits hfp.2 (stops_expText ex)
    simp only [GParts.fracText, List.cons_append, parseFrac, h3, h4]
  | none =>
    cases ex with
    | none => rfl
    | some nd => obtain ⟨n, d⟩ := nd; rfl

theorem parseBody_body {p : GParts} (h : p.wf = true) : parseBody p.neg p.body = some p := by
  obtain ⟨hne, hdig, hfp, hex⟩ := wf_parts h
  obtain ⟨h1, h2⟩ := span_digits hdig (stops_tail p.fp p.ex)
  simp only [parseBody, GParts.body, h1, h2, parseFrac_tail p.fp p.ex hfp, parseExp_expText]
  simp [h]

theorem parseBody_sound {neg : Bool} {s : Str} {p : GParts} (h : parseBody neg s = some p) :
    p.wf = true ∧ p.neg = neg ∧ p.body = s := by
  simp only [parseBody] at h
  split at h
  · simp at h
  · next ex hex =>
    split at h
    · next hwf =>
      simp at h
      subst h
      refine ⟨hwf, rfl, ?_⟩
      simp only [GParts.body]
      rw [expText_of_parseExp hex, parseFrac_text, List.takeWhile_append_dropWhile]
    · simp at h

theorem parseG_text {p : GParts} (h : p.wf = true) : parseG p.text = some p := by
  obtain ⟨c, r, hb, hc⟩ := body_head h
  have hp := parseBody_body h
  unfold GParts.text GParts.signText
  cases hn : p.neg with
  | true => rw [hn] at hp; simpa [parseG] using hp
  | false =>
    rw [hn] at hp
    simp only [Bool.false_eq_true, if_false, List.nil_append]
    rw [hb] at hp ⊢
    unfold parseG
    split
    · next heq => simp at heq; exact absurd heq.1 (digit_ne hc).1
    · exact hp

theorem parseG_sound {t : Str} {p : GParts} (h : parseG t = some p) :
    p.wf = true ∧ p.text = t := by
  unfold parseG at h
  split at h
  · obtain ⟨h1, h2, h3⟩ := parseBody_sound h
    exact ⟨h1, by simp [GParts.text, GParts.signText, h2, h3]⟩
  · obtain ⟨h1, h2, h3⟩ := parseBody_sound h
    exact ⟨h1, by simp [GParts.text, GParts.signText, h2, h3]⟩

/-- `isGShape` decides `GShape` -/
theorem isGShape_iff (t : Str) : isGShape t = true ↔ GShape t := by
  constructor
  · intro h
    unfold isGShape at h
    cases hp : parseG t with
    | none => simp [hp] at h
    | some p => exact ⟨p, parseG_sound hp⟩
  · rintro ⟨p, hwf, rfl⟩
    simp [isGShape, parseG_text hwf]

instance (t : Str) : Decidable (GShape t) := decidable_of_iff _ (isGShape_iff t)

/-! #### the shapes named in the task, evaluated -/

example : GShape b!"100" := by decide
example : GShape b!"1e+06" := by decide
example : GShape b!"1e-07" := by decide
example : GShape b!"-0" := by decide
example : GShape b!"-1.7976931348623157e+308" := by decide
example : GShape b!"5e-324" := by decide
example : ¬ GShape b!"NaN" := by decide
example : ¬ GShape b!"+Inf" := by decide
example : ¬ GShape b!"1e+6" := by decide

example : Lit.floatFix b!"100" = b!"100.0" := by decide
example : Lit.floatFix b!"1e+06" = b!"1e+06" := by decide
example : Lit.floatFix b!"1e-07" = b!"1e-07" := by decide
example : Lit.floatFix b!"-0" = b!"-0.0" := by decide
example : Lit.floatFix b!"2.5" = b!"2.5" := by decide

example : isFloatLit b!"100.0" = true ∧ isFloatLit b!"100" = false := by decide
example : isFloatLit b!"1e+06" = true ∧ isFloatLit b!"1e-07" = true := by decide
example : isFloatLit (stripMinus b!"-0.0") = true := by decide
example : isIntLit b!"100" = true ∧ isIntLit b!"100.0" = false ∧ isIntLit b!"1e+06" = false := by
  decide

example : floatValue b!"100" = some ⟨false, 1, 2⟩ ∧ floatValue b!"100.0" = some ⟨false, 1, 2⟩ := by
  decide
example : floatValue b!"1e+06" = some ⟨false, 1, 6⟩ ∧ floatValue b!"1000000.0" = some ⟨false, 1, 6⟩ := by
  decide
example : floatValue b!"1e-07" = some ⟨false, 1, -7⟩ ∧ floatValue b!"0.0000001" = some ⟨false, 1, -7⟩ := by
  decide
example : floatValue b!"-0" = some ⟨true, 0, 0⟩ ∧ floatValue b!"-0.0" = some ⟨true, 0, 0⟩ := by decide
example : floatValue b!"1.5e-07" = some ⟨false, 15, -8⟩ := by decide

/-! #### a float64 is never printed as an integer literal; complex parts -/

/-- the characters of a fixed-up `%g` text -/
def gChar (c : UInt8) : Bool := isDigit c || c == 46 || c == 101 || c == 43 || c == 45

theorem all_gChar_of_digits {s : Str} (h : s.all isDigit = true) : s.all gChar = true := by
  rw [List.all_eq_true] at h ⊢
  intro c hc; simp [gChar, h c hc]

theorem body_all_gChar {p : GParts} (h : p.wf = true) : p.body.all gChar = true := by
  obtain ⟨-, hdig, hfp, hex⟩ := wf_parts h
  obtain ⟨neg, ip, fp, ex⟩ := p
  simp only at hdig hfp hex
  have g46 : gChar 46 = true := by decide
  have g101 : gChar 101 = true := by decide
  have g43 : gChar 43 = true := by decide
  have g45 : gChar 45 = true := by decide
  have hi := all_gChar_of_digits hdig
  have hf : (GParts.fracText fp).all gChar = true := by
    cases fp with
    | none => rfl
    | some f =>
      simp only [GParts.fracWf, Bool.and_eq_true] at hfp
      simp [GParts.fracText, g46, all_gChar_of_digits hfp.2]
  have he : (GParts.expText ex).all gChar = true := by
    cases ex with
    | none => rfl
    | some nd =>
      obtain ⟨n, d⟩ := nd
      simp only [GParts.expWf, Bool.and_eq_true] at hex
      cases n <;> simp [GParts.expText, g101, g43, g45, all_gChar_of_digits hex.2]
  simp only [GParts.body, List.all_append, hi, hf, he, Bool.and_self]

theorem floatFix_all_gChar {s : Str} (h : s.all gChar = true) :
    (Lit.floatFix s).all gChar = true := by
  have g46 : gChar 46 = true := by decide
  have g48 : gChar 48 = true := by decide
  unfold Lit.floatFix
  split
  · simp [List.all_append, h, g46, g48]
  · exact h

theorem floatFix_has_mark (s : Str) : 46 ∈ Lit.floatFix s ∨ 101 ∈ Lit.floatFix s := by
  by_cases hm : 46 ∈ s ∨ 101 ∈ s
  · rw [floatFix_of_mem s hm]; exact hm
  · rw [(floatFix_idempotent_shape s).2 hm]; left; simp

theorem decFold_some_all : ∀ (s : Str) (a v : Nat), decFold a s = some v → s.all isDigit = true := by
  intro s
  induction s with
  | nil => intros; rfl
  | cons c cs ih =>
    intro a v h
    simp only [decFold] at h
    split at h
    · next hc => simp [hc, ih _ _ h]
    · simp at h

theorem readDec_some_all {s : Str} {v : Nat} (h : readDec s = some v) : s.all isDigit = true := by
  unfold readDec at h
  split at h
  · simp at h
  · split at h
    · simp at h
    · exact decFold_some_all _ _ _ h

theorem readHex_some_x {s : Str} {v : Nat} (h : readHex s = some v) : 120 ∈ s ∨ 88 ∈ s := by
  unfold readHex at h
  split at h
  · split at h
    · next hx => simp at hx; rcases hx with hx | hx <;> simp [hx]
    · simp at h
  · simp at h

/-- after the fix-up no `%g` text is an integer literal: a float64 value keeps its type -/
theorem float64_not_int_literal {t : Str} (h : GShape t) :
    GoNum.isIntLit (Lit.floatFix (stripMinus t)) = false := by
  obtain ⟨p, hwf, rfl⟩ := h
  rw [stripMinus_text hwf]
  have hall := floatFix_all_gChar (body_all_gChar hwf)
  have hmark := floatFix_has_mark p.body
  unfold isIntLit
  cases hd : readDec (Lit.floatFix p.body) with
  | some v =>
    have := not_mem_of_digits (readDec_some_all hd)
    rcases hmark with hm | hm
    · exact absurd hm this.1
    · exact absurd hm this.2
  | none =>
    cases hx : readHex (Lit.floatFix p.body) with
    | none => rfl
    | some v =>
      rw [List.all_eq_true] at hall
      rcases readHex_some_x hx with hm | hm
      · exact absurd (hall _ hm) (by decide)
      · exact absurd (hall _ hm) (by decide)

theorem digit_ne_plus {c : UInt8} (h : isDigit c = true) : c ≠ 43 := by
  simp only [isDigit, Bool.and_eq_true, decide_eq_true_eq, UInt8.le_iff_toNat_le] at h
  have h48 : (48 : UInt8).toNat = 48 := rfl
  rw [h48] at h
  intro hc; rw [hc] at h; revert h; decide

/-- for `%g` texts `forceSign` is exactly "prepend `+` unless negative" -/
theorem forceSign_gshape {p : GParts} (h : p.wf = true) :
    Lit.forceSign p.text = if p.neg then p.text else 43 :: p.text := by
  obtain ⟨c, r, hb, hc⟩ := body_head h
  unfold GParts.text GParts.signText
  cases p.neg with
  | true => simp [Lit.forceSign]
  | false =>
    simp only [Bool.false_eq_true, if_false, List.nil_append, hb]
    unfold Lit.forceSign
    split
    · next heq => simp at heq; exact absurd heq.1 (digit_ne hc).1
    · next heq => simp at heq; exact absurd heq.1 (digit_ne_plus hc)
    · rfl

end LitRT
