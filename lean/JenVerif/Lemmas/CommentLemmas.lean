import JenVerif.Render
import JenVerif.Spec.GoComment
/-
  Comment containment: what `renderComment` writes is, for the Go specification's definition
  of a comment, exactly ONE comment whose text is the given text, and scanning stops right
  behind it — generated text can never escape its comment.
-/

namespace CommentLemmas
open List

/-- the property's domain: the text is not itself a raw comment and contains no `*/` -/
def InDomain (t : Str) : Prop :=
  ¬ (Str.isPrefixOf b!"//" t = true) ∧ ¬ (Str.isPrefixOf b!"/*" t = true) ∧
    Str.hasSub t b!"*/" = false

instance (t : Str) : Decidable (InDomain t) := by unfold InDomain; exact inferInstance

/-! ### scanning lemmas for the specification side -/

theorem elem_false_iff (t : Str) (c : UInt8) : t.elem c = false ↔ c ∉ t := by
  simp

theorem spanLine_append_nl' (u rest : Str) (h : (10 : UInt8) ∉ u) :
    GoComment.spanLine (u ++ 10 :: rest) = (u, 10 :: rest) := by
  induction u with
  | nil => simp [GoComment.spanLine]
  | cons c cs ih =>
    simp only [mem_cons, not_or] at h
    have hc : ¬ (c == 10) = true := by
      intro e; simp only [beq_iff_eq] at e; exact h.1 e.symm
    simp only [cons_append, GoComment.spanLine, if_neg hc, ih h.2]

theorem spanLine_append_nl (u rest : Str) (h : u.elem 10 = false) :
    GoComment.spanLine (u ++ 10 :: rest) = (u, 10 :: rest) :=
  spanLine_append_nl' u rest ((elem_false_iff u 10).1 h)

theorem spanLine_no_nl' (u : Str) (h : (10 : UInt8) ∉ u) :
    GoComment.spanLine u = (u, []) := by
  induction u with
  | nil => rfl
  | cons c cs ih =>
    simp only [mem_cons, not_or] at h
    have hc : ¬ (c == 10) = true := by
      intro e; simp only [beq_iff_eq] at e; exact h.1 e.symm
    simp only [GoComment.spanLine, if_neg hc, ih h.2]

theorem spanLine_no_nl (u : Str) (h : u.elem 10 = false) :
    GoComment.spanLine u = (u, []) :=
  spanLine_no_nl' u ((elem_false_iff u 10).1 h)

/-- the terminator search finds the appended `*/` and no earlier one, as soon as the text in
    front of it contains no `*/` (a trailing `*` is harmless: `**/` ends at the second star) -/
theorem spanGeneral_append (u rest : Str) (h : Str.hasSub u b!"*/" = false) :
    GoComment.spanGeneral (u ++ 42 :: 47 :: rest) = some (u ++ [42, 47], rest) := by
  induction u with
  | nil => simp [GoComment.spanGeneral]
  | cons c cs ih =>
    simp only [Str.hasSub, Bool.or_eq_false_iff] at h
    have ih' := ih h.2
    cases cs with
    | nil =>
      have hc : ¬ ((c == 42 && (42 : UInt8) == 47) = true) := by simp
      simp only [cons_append, nil_append, GoComment.spanGeneral, if_neg hc] at ih' ⊢
      simp
    | cons d ds =>
      have hc : ¬ ((c == 42 && d == 47) = true) := by
        have := h.1
        simp only [Str.isPrefixOf, Bool.and_true] at this
        intro e
        simp only [Bool.and_eq_true, beq_iff_eq] at e
        rw [e.1, e.2] at this
        simp at this
      simp only [cons_append] at ih' ⊢
      simp only [GoComment.spanGeneral, if_neg hc, ih']
      rfl

theorem isPrefixOf_one_snoc (a c : UInt8) (h : (a == c) = false) (t : Str) :
    Str.isPrefixOf [a] (t ++ [c]) = Str.isPrefixOf [a] t := by
  cases t with
  | nil => simp [Str.isPrefixOf, h]
  | cons x xs => simp [Str.isPrefixOf]

/-- appending a newline creates no `*/` -/
theorem hasSub_snoc_nl (t : Str) : Str.hasSub (t ++ [10]) b!"*/" = Str.hasSub t b!"*/" := by
  induction t with
  | nil => decide
  | cons c cs ih =>
    simp only [cons_append, Str.hasSub, ih]
    congr 1
    simp only [Str.isPrefixOf]
    rw [isPrefixOf_one_snoc 47 10 (by decide)]

/-- prepending a newline creates no `*/` -/
theorem hasSub_cons_nl (t : Str) : Str.hasSub (10 :: t) b!"*/" = Str.hasSub t b!"*/" := by
  cases t <;> simp [Str.hasSub, Str.isPrefixOf]

/-! ### `renderComment` on the domain -/

theorem renderComment_line {t : Str} (hd : InDomain t) (hn : t.elem 10 = false) :
    renderComment t = b!"// " ++ t := by
  obtain ⟨h1, h2, _⟩ := hd
  simp only [Bool.not_eq_true] at h1 h2
  have hm := (elem_false_iff t 10).1 hn
  simp [renderComment, h1, h2, hm]

/-- a multi-line text is written verbatim between `/*\n` and `*/`, a newline being inserted in
    front of `*/` only if the text does not already end with one -/
theorem renderComment_block {t : Str} (hd : InDomain t) (hn : t.elem 10 = true) :
    renderComment t =
      b!"/*\n" ++ t ++ (if t.getLast? = some 10 then [] else [10]) ++ b!"*/" := by
  obtain ⟨h1, h2, _⟩ := hd
  simp only [Bool.not_eq_true] at h1 h2
  simp only [renderComment, h1, h2, hn, Bool.or_self, if_true, beq_iff_eq]
  rfl

/-! ### the theorems -/

/-- a one-line text becomes exactly one line comment, which ends in front of the newline that
    follows it; whatever comes after is outside -/
theorem line_comment_contained {t : Str} (hd : InDomain t) (hn : t.elem 10 = false) (rest : Str) :
    GoComment.skipComment (renderComment t ++ [10] ++ rest) = some (b!"// " ++ t, [10] ++ rest) := by
  rw [renderComment_line hd hn]
  have hn' : (32 :: t).elem 10 = false := by
    rw [elem_false_iff] at hn ⊢
    simp only [mem_cons, not_or]; exact ⟨by decide, hn⟩
  have := spanLine_append_nl (32 :: t) rest hn'
  simp only [cons_append, nil_append, append_assoc, GoComment.skipComment] at this ⊢
  simp [this]

theorem line_comment_at_eof {t : Str} (hd : InDomain t) (hn : t.elem 10 = false) :
    GoComment.skipComment (renderComment t) = some (b!"// " ++ t, []) := by
  rw [renderComment_line hd hn]
  have hn' : (32 :: t).elem 10 = false := by
    rw [elem_false_iff] at hn ⊢
    simp only [mem_cons, not_or]; exact ⟨by decide, hn⟩
  have := spanLine_no_nl (32 :: t) hn'
  simp only [cons_append, nil_append, GoComment.skipComment] at this ⊢
  simp [this]

/-- the inside of the block comment (`\n`, the text, the optional newline) contains no `*/` -/
theorem block_inside_no_terminator {t : Str} (hs : Str.hasSub t b!"*/" = false) :
    Str.hasSub (10 :: (t ++ (if t.getLast? = some 10 then [] else [10]))) b!"*/" = false := by
  rw [hasSub_cons_nl]
  split
  · simpa using hs
  · rw [hasSub_snoc_nl]; exact hs

/-- a multi-line text becomes exactly one general comment: the first `*/` after the opening
    `/*` is the one `renderComment` appends, so whatever follows is outside the comment -/
theorem block_comment_contained {t : Str} (hd : InDomain t) (hn : t.elem 10 = true) (rest : Str) :
    GoComment.skipComment (renderComment t ++ rest) = some (renderComment t, rest) := by
  rw [renderComment_block hd hn]
  have := spanGeneral_append _ rest (block_inside_no_terminator hd.2.2)
  simp only [cons_append, nil_append, append_assoc, GoComment.skipComment] at this ⊢
  simp [this]

/-- both facts of the block case together -/
theorem block_comment_contained' {t : Str} (hd : InDomain t) (hn : t.elem 10 = true) :
    (∀ rest, GoComment.skipComment (renderComment t ++ rest) = some (renderComment t, rest)) ∧
    renderComment t =
      b!"/*\n" ++ t ++ (if t.getLast? = some 10 then [] else [10]) ++ b!"*/" :=
  ⟨block_comment_contained hd hn, renderComment_block hd hn⟩

/-- a text that is already a comment is passed through untouched -/
theorem raw_passthrough {t : Str}
    (h : Str.isPrefixOf b!"//" t = true ∨ Str.isPrefixOf b!"/*" t = true) :
    renderComment t = t := by
  unfold renderComment
  rcases h with h | h <;> simp [h]

/-! ### the hypotheses are satisfiable and the theorems fire -/

example : InDomain b!"x := 1; }" := by decide
example : InDomain b!"a\nb*" := by decide
example : InDomain b!"/ * /*\n" := by decide
example : ¬ InDomain b!"a */ b" := by decide

example : GoComment.skipComment (renderComment b!"x := 1; }" ++ [10] ++ b!"y()")
    = some (b!"// x := 1; }", [10] ++ b!"y()") :=
  line_comment_contained (by decide) (by decide) _

example : GoComment.skipComment (renderComment b!"x := 1; }") = some (b!"// x := 1; }", []) :=
  line_comment_at_eof (by decide) (by decide)

example : GoComment.skipComment (renderComment b!"a\nb*" ++ b!"*/ evil()")
    = some (renderComment b!"a\nb*", b!"*/ evil()") :=
  block_comment_contained (by decide) (by decide) _

example : renderComment b!"a\nb*" = b!"/*\na\nb*\n*/" := by decide
example : GoComment.skipComment (b!"/*\na\nb*\n*/" ++ b!"rest") = some (b!"/*\na\nb*\n*/", b!"rest") := by
  decide
-- the specification side really stops at the FIRST `*/`
example : GoComment.skipComment b!"/* a */ b */" = some (b!"/* a */", b!" b */") := by decide
example : GoComment.skipComment b!"/*/ a" = none := by decide
example : GoComment.skipComment b!"// a\nb" = some (b!"// a", b!"\nb") := by decide
example : GoComment.skipComment b!"x // a" = none := by decide
example : renderComment b!"// raw" = b!"// raw" := raw_passthrough (Or.inl (by decide))

end CommentLemmas
