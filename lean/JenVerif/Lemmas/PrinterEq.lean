import JenVerif.Spec.GoSyn
import JenVerif.Lemmas.ListSem
/-
  C01, renderer's half: rendering the tree that the documented DSL calls build for a Go syntax
  tree gives exactly the text of the reference printer `GoSyn.print`.

  Contents
  * OBLIGATIONS on the regenerated tables: `ginfo_*`, `tokEntry_*`, `dynKind_*` (all `decide`).
  * generic facts about `renderStmtP` / `renderP` on groups (`rs_append`, `render_flat`,
    `render_multi`, `render_open`), built on T-L (`Lemmas/ListSem.lean`).
  * `build_nonNull` … : every built tree is a non-null item.
  * the mutual induction `rE … rG`, `rD` and the MAIN THEOREM `render_build_eq_print`
    (+ `_stmt`, `_decl`, `_file`, `_field`, `_ielem`, `_clause`, `_commClause`, `_spec`,
    `_genDecl`), for every syntactic category, under `WellFormed` (= `GoSyn.wf`).
  * `print_lists_every_item` : the printer writes `open ++ intercalate sep items ++ close`.
  * `build_no_misuse` … : the built trees never reach the "Dict beside other items" misuse.
  * `Examples` : concrete programs (`decide`), and the three ways in which the renderer and the
    printer differ when `WellFormed` fails.
-/
namespace PrinterEq
open Code GoSyn

/-! ### OBLIGATIONS on the regenerated tables (`Gen.constructs`, `Gen.tokens`)

These break when someone edits an opener, closer, separator or the multi-line flag of a
construct, or the content / kind of a keyword token, in jennifer. -/

theorem ginfo_Qual : ginfo b!"Qual" = Code.qualInfo := by decide
theorem ginfo_Call : ginfo b!"Call" = ⟨b!"call", b!"(", b!")", b!",", false⟩ := by decide
theorem ginfo_Params : ginfo b!"Params" = ⟨b!"params", b!"(", b!")", b!",", false⟩ := by decide
theorem ginfo_Index : ginfo b!"Index" = ⟨b!"index", b!"[", b!"]", b!":", false⟩ := by decide
theorem ginfo_Types : ginfo b!"Types" = ⟨b!"types", b!"[", b!"]", b!",", false⟩ := by decide
theorem ginfo_Parens : ginfo b!"Parens" = ⟨b!"parens", b!"(", b!")", [], false⟩ := by decide
theorem ginfo_Assert : ginfo b!"Assert" = ⟨b!"assert", b!".(", b!")", [], false⟩ := by decide
theorem ginfo_Values : ginfo b!"Values" = ⟨b!"values", b!"{", b!"}", b!",", false⟩ := by decide
theorem ginfo_Map : ginfo b!"Map" = ⟨b!"map", b!"map[", b!"]", [], false⟩ := by decide
theorem ginfo_List : ginfo b!"List" = ⟨b!"list", [], [], b!",", false⟩ := by decide
theorem ginfo_Return : ginfo b!"Return" = ⟨b!"return", b!"return ", [], b!",", false⟩ := by decide
theorem ginfo_If : ginfo b!"If" = ⟨b!"if", b!"if ", [], b!";", false⟩ := by decide
theorem ginfo_For : ginfo b!"For" = ⟨b!"for", b!"for ", [], b!";", false⟩ := by decide
theorem ginfo_Switch : ginfo b!"Switch" = ⟨b!"switch", b!"switch ", [], b!";", false⟩ := by decide
theorem ginfo_Case : ginfo b!"Case" = ⟨b!"case", b!"case ", b!":", b!",", false⟩ := by decide
theorem ginfo_Block : ginfo b!"Block" = ⟨b!"block", b!"{", b!"}", [], true⟩ := by decide
theorem ginfo_Struct : ginfo b!"Struct" = ⟨b!"struct", b!"struct{", b!"}", [], true⟩ := by decide
theorem ginfo_Interface : ginfo b!"Interface" = ⟨b!"interface", b!"interface{", b!"}", [], true⟩ := by decide
theorem ginfo_Defs : ginfo b!"Defs" = ⟨b!"defs", b!"(", b!")", [], true⟩ := by decide

theorem tokEntry_Dot : tokEntry b!"Dot" = (.delim, b!".") := by decide
theorem tokEntry_Empty : tokEntry b!"Empty" = (.op, []) := by decide
theorem tokEntry_Line : tokEntry b!"Line" = (.layout, b!"\n") := by decide
theorem tokEntry_Func : tokEntry b!"Func" = (.kw, b!"func") := by decide
theorem tokEntry_Type : tokEntry b!"Type" = (.kw, b!"type") := by decide
theorem tokEntry_Var : tokEntry b!"Var" = (.kw, b!"var") := by decide
theorem tokEntry_Const : tokEntry b!"Const" = (.kw, b!"const") := by decide
theorem tokEntry_Chan : tokEntry b!"Chan" = (.kw, b!"chan") := by decide
theorem tokEntry_Else : tokEntry b!"Else" = (.kw, b!"else") := by decide
theorem tokEntry_Range : tokEntry b!"Range" = (.kw, b!"range") := by decide
theorem tokEntry_Select : tokEntry b!"Select" = (.kw, b!"select") := by decide
theorem tokEntry_Go : tokEntry b!"Go" = (.kw, b!"go") := by decide
theorem tokEntry_Defer : tokEntry b!"Defer" = (.kw, b!"defer") := by decide
theorem tokEntry_Default : tokEntry b!"Default" = (.kw, b!"default") := by decide
theorem tokEntry_Break : tokEntry b!"Break" = (.kw, b!"break") := by decide
theorem tokEntry_Continue : tokEntry b!"Continue" = (.kw, b!"continue") := by decide
theorem tokEntry_Goto : tokEntry b!"Goto" = (.kw, b!"goto") := by decide
theorem tokEntry_Fallthrough : tokEntry b!"Fallthrough" = (.kw, b!"fallthrough") := by decide
theorem dynKind_Id : dynKind b!"Id" = .ident := by decide
theorem dynKind_Op : dynKind b!"Op" = .op := by decide
theorem dynKind_Dot : dynKind b!"Dot" = .ident := by decide

/-- `Empty()` of the table is the model's `Code.empty` -/
theorem tokc_Empty : tokc b!"Empty" = Code.empty := by simp [tokc, tokEntry_Empty, Code.empty]

/-! ### generic facts about the pure renderer -/

section generic
variable (cfg : Cfg) (e : Env)

/-- the space written before an item of a statement -/
def sp (first : Bool) : Str := if first then [] else b!" "

@[simp] theorem sp_true : sp true = [] := rfl
@[simp] theorem sp_false : sp false = b!" " := rfl

theorem rs_nil (first : Bool) (prev : Option Code) : renderStmtP cfg e first prev [] = [] := by
  simp [renderStmtP]

theorem rs_cons {c : Code} (h : isNull e.np c = false) (first : Bool) (prev : Option Code) (cs : List Code) :
    renderStmtP cfg e first prev (c :: cs) =
      sp first ++ (renderP cfg e prev c ++ renderStmtP cfg e false (some c) cs) := by
  cases first <;> simp [renderStmtP, h, sp]

theorem rs_cons_null {c : Code} (h : isNull e.np c = true) (first : Bool) (prev : Option Code) (cs : List Code) :
    renderStmtP cfg e first prev (c :: cs) = renderStmtP cfg e first (some c) cs := by
  simp [renderStmtP, h]

/-- the raw previous item seen by what follows `xs` in a statement -/
def lastOr (prev : Option Code) : List Code → Option Code
  | [] => prev
  | c :: cs => lastOr (some c) cs

theorem rs_append : ∀ (xs : List Code) (first : Bool) (prev : Option Code) (ys : List Code),
    renderStmtP cfg e first prev (xs ++ ys) =
      renderStmtP cfg e first prev xs ++
        renderStmtP cfg e (first && allNull e.np xs) (lastOr prev xs) ys
  | [], first, prev, ys => by simp [renderStmtP, allNull, lastOr]
  | c :: cs, first, prev, ys => by
      by_cases h : isNull e.np c = true
      · simp [renderStmtP, h, allNull, lastOr, rs_append cs first (some c) ys]
      · simp [renderStmtP, h, allNull, lastOr, rs_append cs false (some c) ys]

/-- the rendering of an item does not look at the previous item -/
def PrevInd (c : Code) : Prop := ∀ p, renderP cfg e p c = renderP cfg e none c

/-- the rendering of the rest of a statement does not look at the item before it -/
def PrevFree (ys : List Code) : Prop :=
  ∀ p, renderStmtP cfg e false p ys = renderStmtP cfg e false none ys

/-- … as long as that item is not `Case` / `Default` -/
def PrevFreeOk (ys : List Code) : Prop :=
  ∀ p, isCaseOrDefault p = false → renderStmtP cfg e false p ys = renderStmtP cfg e false none ys

theorem prevInd_tok (k : TokKind) (s : Str) : PrevInd cfg e (.tok k s) := by
  intro p; cases k <;> simp [renderP]

theorem prevInd_stmt (is : List Code) : PrevInd cfg e (.stmt is) := by
  intro p; simp [renderP]

theorem prevInd_group (g : GInfo) (cs : List Code) (h : (g.name == b!"block") = false) :
    PrevInd cfg e (.group g cs) := by
  intro p; simp [renderP, effDelims, h]

theorem prevFree_nil : PrevFree cfg e [] := by intro p; simp [renderStmtP]

theorem prevFree_cons {c : Code} (h : PrevInd cfg e c) (ys : List Code) : PrevFree cfg e (c :: ys) := by
  intro p
  by_cases hn : isNull e.np c = true
  · simp [renderStmtP, hn]
  · simp [renderStmtP, hn, h p]

theorem PrevFree.ok {ys : List Code} (h : PrevFree cfg e ys) : PrevFreeOk cfg e ys := fun p _ => h p

/-- "these statement items render as `t`" wherever they stand in a statement (after any item
    but `Case` / `Default`) -/
def RItems (xs : List Code) (t : Str) : Prop :=
  ∀ first prev, isCaseOrDefault prev = false → renderStmtP cfg e first prev xs = sp first ++ t

theorem RItems.top {xs : List Code} {t : Str} (h : RItems cfg e xs t) :
    renderStmtP cfg e true none xs = t := by
  simpa using h true none rfl

theorem RItems.stmt {xs : List Code} {t : Str} (h : RItems cfg e xs t) (p : Option Code) :
    renderP cfg e p (.stmt xs) = t := by
  simp only [renderP]; exact h.top

theorem RItems.app {xs : List Code} {t : Str} (h : RItems cfg e xs t) (hn : allNull e.np xs = false)
    (ys : List Code) (hy : PrevFree cfg e ys) (first : Bool) (prev : Option Code)
    (hp : isCaseOrDefault prev = false) :
    renderStmtP cfg e first prev (xs ++ ys) = sp first ++ (t ++ renderStmtP cfg e false none ys) := by
  rw [rs_append, h first prev hp, hn, Bool.and_false, hy]
  simp

/-- "these statement items render as `t`" wherever they stand in a statement -/
def RAny (xs : List Code) (t : Str) : Prop :=
  ∀ first prev, renderStmtP cfg e first prev xs = sp first ++ t

theorem RAny.toR {xs : List Code} {t : Str} (h : RAny cfg e xs t) : RItems cfg e xs t :=
  fun first prev _ => h first prev

theorem RAny.top {xs : List Code} {t : Str} (h : RAny cfg e xs t) :
    renderStmtP cfg e true none xs = t := by
  simpa using h true none

theorem RAny.app {xs : List Code} {t : Str} (h : RAny cfg e xs t) (hn : allNull e.np xs = false)
    (ys : List Code) (hy : PrevFree cfg e ys) (first : Bool) (prev : Option Code) :
    renderStmtP cfg e first prev (xs ++ ys) = sp first ++ (t ++ renderStmtP cfg e false none ys) := by
  rw [rs_append, h first prev, hn, Bool.and_false, hy]
  simp

/-! #### closed forms of a group -/

def noNull (np : Str → Bool) (cs : List Code) : Bool := cs.all fun c => !isNull np c

theorem noNull_cons (np : Str → Bool) (c : Code) (cs : List Code) :
    noNull np (c :: cs) = (!isNull np c && noNull np cs) := by simp [noNull]

theorem noNull_nil (np : Str → Bool) : noNull np [] = true := by simp [noNull]

theorem noNull_append (np : Str → Bool) (xs ys : List Code) :
    noNull np (xs ++ ys) = (noNull np xs && noNull np ys) := by simp [noNull]

theorem filter_noNull {np : Str → Bool} {cs : List Code} (h : noNull np cs = true) :
    (cs.filter fun c => !isNull np c) = cs := by
  rw [List.filter_eq_self]
  simpa [noNull] using h

theorem allNull_of_noNull {np : Str → Bool} : ∀ {cs : List Code}, noNull np cs = true →
    allNull np cs = cs.isEmpty
  | [], _ => by simp [allNull]
  | c :: cs, h => by
      simp only [noNull_cons, Bool.and_eq_true, Bool.not_eq_true'] at h
      simp [allNull, h.1]

theorem join_eq_joinItems (g : GInfo) : ∀ (ts : List Str) (t : Str),
    t ++ joinItems g false ts = Str.join (itemLead g false) (t :: ts)
  | [], t => by simp [joinItems, Str.join]
  | u :: us, t => by
      simp only [joinItems, Str.join]
      rw [← join_eq_joinItems g us u]
      simp

theorem joinItems_true (g : GInfo) (t : Str) (ts : List Str) :
    joinItems g true (t :: ts) = itemLead g true ++ Str.join (itemLead g false) (t :: ts) := by
  simp only [joinItems]
  rw [← join_eq_joinItems g ts t]
  simp

/-- general closed form: kept items are all items -/
theorem render_group_gen (g : GInfo) (cs : List Code) (prev : Option Code)
    (ht : (g.name == b!"types" && allNull e.np cs) = false) (hn : noNull e.np cs = true) :
    renderP cfg e prev (.group g cs) =
      (effDelims g prev).1 ++ (joinItems g true (cs.map (renderP cfg e none)) ++
        (closeSep g (effDelims g prev).2 cs.isEmpty ++ (effDelims g prev).2)) := by
  simp only [renderP, ht]
  rw [renderItemsP_closed, renderItemsP_empty, filter_noNull hn, allNull_of_noNull hn]
  simp

/-- single-line group: `open ++ items joined by sep ++ close` -/
theorem render_flat (name opn cls sep : Str) (cs : List Code) (prev : Option Code)
    (hb : (name == b!"block") = false) (ht : (name == b!"types") = false ∨ cs ≠ [])
    (hn : noNull e.np cs = true) :
    renderP cfg e prev (.group ⟨name, opn, cls, sep, false⟩ cs) =
      opn ++ (Str.join sep (cs.map (renderP cfg e none)) ++ cls) := by
  have ht' : ((GInfo.mk name opn cls sep false).name == b!"types" && allNull e.np cs) = false := by
    rcases ht with h | h
    · simp [h]
    · rw [allNull_of_noNull hn]
      cases cs with
      | nil => exact absurd rfl h
      | cons c cs => simp
  rw [render_group_gen cfg e _ cs prev ht' hn]
  have hl : itemLead ⟨name, opn, cls, sep, false⟩ false = sep := by
    by_cases hs : sep = [] <;> simp [itemLead, hs]
  simp only [effDelims, hb, closeSep]
  cases hc : cs.map (renderP cfg e none) with
  | nil => simp [joinItems, Str.join]
  | cons t ts => rw [joinItems_true, hl]; simp [itemLead]

/-- multi-line group without separator: `open ++ one item per line ++ close` -/
theorem render_multi (name opn cls : Str) (cs : List Code) (prev : Option Code)
    (hb : (name == b!"block") = false ∨ isCaseOrDefault prev = false)
    (ht : (name == b!"types") = false) (hc : cls ≠ [])
    (hn : noNull e.np cs = true) :
    renderP cfg e prev (.group ⟨name, opn, cls, [], true⟩ cs) =
      opn ++ (lines (cs.map (renderP cfg e none)) ++ cls) := by
  rw [render_group_gen cfg e _ cs prev (by simp [ht]) hn]
  have hd : effDelims ⟨name, opn, cls, [], true⟩ prev = (opn, cls) := by
    rcases hb with h | h <;> simp [effDelims, h]
  have hl : itemLead ⟨name, opn, cls, [], true⟩ false = b!"\n" := by simp [itemLead]
  rw [hd]
  cases cs with
  | nil => simp [joinItems, closeSep, lines]
  | cons c cs =>
      simp only [List.map_cons, joinItems_true, hl]
      simp [itemLead, closeSep, lines, hc]

/-- group written without delimiters, one item per line: the Block after `Case` / `Default`,
    and the body of a File -/
theorem render_open (name opn cls : Str) (cs : List Code) (prev : Option Code)
    (hb : (cls = [] ∧ opn = [] ∧ (name == b!"block") = false) ∨
          ((name == b!"block") = true ∧ isCaseOrDefault prev = true))
    (ht : (name == b!"types") = false)
    (hn : noNull e.np cs = true) :
    renderP cfg e prev (.group ⟨name, opn, cls, [], true⟩ cs) =
      linesOpen (cs.map (renderP cfg e none)) := by
  rw [render_group_gen cfg e _ cs prev (by simp [ht]) hn]
  have hd : effDelims ⟨name, opn, cls, [], true⟩ prev = ([], []) := by
    rcases hb with ⟨h1, h2, h3⟩ | ⟨h1, h2⟩
    · simp [effDelims, h1, h2, h3]
    · simp [effDelims, h1, h2]
  have hl : itemLead ⟨name, opn, cls, [], true⟩ false = b!"\n" := by simp [itemLead]
  rw [hd]
  cases cs with
  | nil => simp [joinItems, closeSep, linesOpen]
  | cons c cs =>
      simp only [List.map_cons, joinItems_true, hl]
      simp [itemLead, closeSep, linesOpen]

end generic

/-! ### the built items with the looked-up data substituted -/

theorem grp_Qual (cs : List Code) : grp b!"Qual" cs = .group ⟨b!"qual", [], [], b!".", false⟩ cs := by
  rw [grp, ginfo_Qual]; rfl
theorem grp_Call (cs : List Code) : grp b!"Call" cs = .group ⟨b!"call", b!"(", b!")", b!",", false⟩ cs := by
  rw [grp, ginfo_Call]
theorem grp_Params (cs : List Code) : grp b!"Params" cs = .group ⟨b!"params", b!"(", b!")", b!",", false⟩ cs := by
  rw [grp, ginfo_Params]
theorem grp_Index (cs : List Code) : grp b!"Index" cs = .group ⟨b!"index", b!"[", b!"]", b!":", false⟩ cs := by
  rw [grp, ginfo_Index]
theorem grp_Types (cs : List Code) : grp b!"Types" cs = .group ⟨b!"types", b!"[", b!"]", b!",", false⟩ cs := by
  rw [grp, ginfo_Types]
theorem grp_Parens (cs : List Code) : grp b!"Parens" cs = .group ⟨b!"parens", b!"(", b!")", [], false⟩ cs := by
  rw [grp, ginfo_Parens]
theorem grp_Assert (cs : List Code) : grp b!"Assert" cs = .group ⟨b!"assert", b!".(", b!")", [], false⟩ cs := by
  rw [grp, ginfo_Assert]
theorem grp_Values (cs : List Code) : grp b!"Values" cs = .group ⟨b!"values", b!"{", b!"}", b!",", false⟩ cs := by
  rw [grp, ginfo_Values]
theorem grp_Map (cs : List Code) : grp b!"Map" cs = .group ⟨b!"map", b!"map[", b!"]", [], false⟩ cs := by
  rw [grp, ginfo_Map]
theorem grp_List (cs : List Code) : grp b!"List" cs = .group ⟨b!"list", [], [], b!",", false⟩ cs := by
  rw [grp, ginfo_List]
theorem grp_Return (cs : List Code) : grp b!"Return" cs = .group ⟨b!"return", b!"return ", [], b!",", false⟩ cs := by
  rw [grp, ginfo_Return]
theorem grp_If (cs : List Code) : grp b!"If" cs = .group ⟨b!"if", b!"if ", [], b!";", false⟩ cs := by
  rw [grp, ginfo_If]
theorem grp_For (cs : List Code) : grp b!"For" cs = .group ⟨b!"for", b!"for ", [], b!";", false⟩ cs := by
  rw [grp, ginfo_For]
theorem grp_Switch (cs : List Code) : grp b!"Switch" cs = .group ⟨b!"switch", b!"switch ", [], b!";", false⟩ cs := by
  rw [grp, ginfo_Switch]
theorem grp_Case (cs : List Code) : grp b!"Case" cs = .group ⟨b!"case", b!"case ", b!":", b!",", false⟩ cs := by
  rw [grp, ginfo_Case]
theorem grp_Block (cs : List Code) : grp b!"Block" cs = .group ⟨b!"block", b!"{", b!"}", [], true⟩ cs := by
  rw [grp, ginfo_Block]
theorem grp_Struct (cs : List Code) : grp b!"Struct" cs = .group ⟨b!"struct", b!"struct{", b!"}", [], true⟩ cs := by
  rw [grp, ginfo_Struct]
theorem grp_Interface (cs : List Code) : grp b!"Interface" cs = .group ⟨b!"interface", b!"interface{", b!"}", [], true⟩ cs := by
  rw [grp, ginfo_Interface]
theorem grp_Defs (cs : List Code) : grp b!"Defs" cs = .group ⟨b!"defs", b!"(", b!")", [], true⟩ cs := by
  rw [grp, ginfo_Defs]
theorem tokc_Dot : tokc b!"Dot" = .tok .delim b!"." := by simp [tokc, tokEntry_Dot]
theorem tokc_Line : tokc b!"Line" = .tok .layout b!"\n" := by simp [tokc, tokEntry_Line]
theorem tokc_Func : tokc b!"Func" = .tok .kw b!"func" := by simp [tokc, tokEntry_Func]
theorem tokc_Type : tokc b!"Type" = .tok .kw b!"type" := by simp [tokc, tokEntry_Type]
theorem tokc_Var : tokc b!"Var" = .tok .kw b!"var" := by simp [tokc, tokEntry_Var]
theorem tokc_Const : tokc b!"Const" = .tok .kw b!"const" := by simp [tokc, tokEntry_Const]
theorem tokc_Chan : tokc b!"Chan" = .tok .kw b!"chan" := by simp [tokc, tokEntry_Chan]
theorem tokc_Else : tokc b!"Else" = .tok .kw b!"else" := by simp [tokc, tokEntry_Else]
theorem tokc_Range : tokc b!"Range" = .tok .kw b!"range" := by simp [tokc, tokEntry_Range]
theorem tokc_Select : tokc b!"Select" = .tok .kw b!"select" := by simp [tokc, tokEntry_Select]
theorem tokc_Go : tokc b!"Go" = .tok .kw b!"go" := by simp [tokc, tokEntry_Go]
theorem tokc_Defer : tokc b!"Defer" = .tok .kw b!"defer" := by simp [tokc, tokEntry_Defer]
theorem tokc_Default : tokc b!"Default" = .tok .kw b!"default" := by simp [tokc, tokEntry_Default]
theorem tokc_Break : tokc b!"Break" = .tok .kw b!"break" := by simp [tokc, tokEntry_Break]
theorem tokc_Continue : tokc b!"Continue" = .tok .kw b!"continue" := by simp [tokc, tokEntry_Continue]
theorem tokc_Goto : tokc b!"Goto" = .tok .kw b!"goto" := by simp [tokc, tokEntry_Goto]
theorem tokc_Fallthrough : tokc b!"Fallthrough" = .tok .kw b!"fallthrough" := by simp [tokc, tokEntry_Fallthrough]
theorem tokc_Empty' : tokc b!"Empty" = .tok .op [] := by simp [tokc, tokEntry_Empty]
theorem idTok_eq (s : Str) : idTok s = .tok .ident s := by simp [idTok, dynKind_Id]
theorem opTok_eq (s : Str) : opTok s = .tok .op s := by simp [opTok, dynKind_Op]

/-- unfold the lookups -/
macro "gsimp" "[" ts:Lean.Parser.Tactic.simpLemma,* "]" : tactic => `(tactic| simp [grp_Qual, grp_Call, grp_Params, grp_Index, grp_Types, grp_Parens, grp_Assert, grp_Values, grp_Map, grp_List, grp_Return, grp_If, grp_For, grp_Switch, grp_Case, grp_Block, grp_Struct, grp_Interface, grp_Defs, tokc_Dot, tokc_Line, tokc_Func, tokc_Type, tokc_Var, tokc_Const, tokc_Chan, tokc_Else, tokc_Range, tokc_Select, tokc_Go, tokc_Defer, tokc_Default, tokc_Break, tokc_Continue, tokc_Goto, tokc_Fallthrough, tokc_Empty', idTok_eq, opTok_eq, dynKind_Dot, $ts,*])
macro "gsimp" "[" ts:Lean.Parser.Tactic.simpLemma,* "]" "at" h:ident : tactic => `(tactic| simp [grp_Qual, grp_Call, grp_Params, grp_Index, grp_Types, grp_Parens, grp_Assert, grp_Values, grp_Map, grp_List, grp_Return, grp_If, grp_For, grp_Switch, grp_Case, grp_Block, grp_Struct, grp_Interface, grp_Defs, tokc_Dot, tokc_Line, tokc_Func, tokc_Type, tokc_Var, tokc_Const, tokc_Chan, tokc_Else, tokc_Range, tokc_Select, tokc_Go, tokc_Defer, tokc_Default, tokc_Break, tokc_Continue, tokc_Goto, tokc_Fallthrough, tokc_Empty', idTok_eq, opTok_eq, dynKind_Dot, $ts,*] at $h:ident)
macro "gsimp_only" "[" ts:Lean.Parser.Tactic.simpLemma,* "]" : tactic => `(tactic| simp only [grp_Qual, grp_Call, grp_Params, grp_Index, grp_Types, grp_Parens, grp_Assert, grp_Values, grp_Map, grp_List, grp_Return, grp_If, grp_For, grp_Switch, grp_Case, grp_Block, grp_Struct, grp_Interface, grp_Defs, tokc_Dot, tokc_Line, tokc_Func, tokc_Type, tokc_Var, tokc_Const, tokc_Chan, tokc_Else, tokc_Range, tokc_Select, tokc_Go, tokc_Defer, tokc_Default, tokc_Break, tokc_Continue, tokc_Goto, tokc_Fallthrough, tokc_Empty', idTok_eq, opTok_eq, dynKind_Dot, $ts,*])

/-! ### every built item is non-null -/

section nonnull
set_option linter.unusedSimpArgs false

theorem items_nn (np : Str → Bool) (x : Expr) : allNull np (items x) = false := by
  cases x with
  | chanType d t => cases d <;> gsimp [items, allNull, allNull_append, isNull]
  | _ => gsimp [items, allNull, allNull_append, isNull]

theorem buildEs_nn (np : Str → Bool) : ∀ xs : List Expr, noNull np (buildEs xs) = true
  | [] => by simp [buildEs, noNull]
  | x :: xs => by simp [buildEs, noNull_cons, isNull, items_nn, buildEs_nn np xs]

theorem itemsF_nn (np : Str → Bool) (f : Field) : allNull np (itemsF f) = false := by
  cases f with
  | mk names t tag => gsimp [itemsF, allNull, allNull_append, isNull, items_nn]

theorem buildFs_nn (np : Str → Bool) : ∀ xs : List Field, noNull np (buildFs xs) = true
  | [] => by simp [buildFs, noNull]
  | x :: xs => by simp [buildFs, noNull_cons, isNull, itemsF_nn, buildFs_nn np xs]

theorem itemsI_nn (np : Str → Bool) (x : IElem) : allNull np (itemsI x) = false := by
  cases x <;> gsimp [itemsI, allNull, allNull_append, isNull, items_nn]

theorem buildIs_nn (np : Str → Bool) : ∀ xs : List IElem, noNull np (buildIs xs) = true
  | [] => by simp [buildIs, noNull]
  | x :: xs => by simp [buildIs, noNull_cons, isNull, itemsI_nn, buildIs_nn np xs]

theorem itemsG_nn (np : Str → Bool) (d : GenDecl) : allNull np (itemsG d) = false := by
  cases d with
  | one tok s => cases tok <;> gsimp [itemsG, DeclTok.api, allNull, allNull_append, isNull]
  | defs tok ss => cases tok <;> gsimp [itemsG, DeclTok.api, allNull, allNull_append, isNull]

theorem itemsS_nn (np : Str → Bool) (s : Stmt) : allNull np (itemsS s) = false := by
  cases s with
  | branch tok l => cases tok <;> gsimp [itemsS, BranchTok.api, allNull, allNull_append, isNull]
  | _ => gsimp [itemsS, allNull, allNull_append, isNull, items_nn, itemsG_nn]

theorem buildSs_nn (np : Str → Bool) : ∀ xs : List Stmt, noNull np (buildSs xs) = true
  | [] => by simp [buildSs, noNull]
  | x :: xs => by simp [buildSs, noNull_cons, isNull, itemsS_nn, buildSs_nn np xs]

theorem itemsC_nn (np : Str → Bool) (c : Clause) : allNull np (itemsC c) = false := by
  cases c with
  | mk xs body => gsimp [itemsC, allNull, isNull]

theorem buildCs_nn (np : Str → Bool) : ∀ xs : List Clause, noNull np (buildCs xs) = true
  | [] => by simp [buildCs, noNull]
  | x :: xs => by simp [buildCs, noNull_cons, isNull, itemsC_nn, buildCs_nn np xs]

theorem itemsCC_nn (np : Str → Bool) (c : CommClause) : allNull np (itemsCC c) = false := by
  cases c with
  | mk comm body => gsimp [itemsCC, allNull, isNull]

theorem buildCCs_nn (np : Str → Bool) : ∀ xs : List CommClause, noNull np (buildCCs xs) = true
  | [] => by simp [buildCCs, noNull]
  | x :: xs => by simp [buildCCs, noNull_cons, isNull, itemsCC_nn, buildCCs_nn np xs]

theorem itemsD_nn (np : Str → Bool) (d : Decl) : allNull np (itemsD d) = false := by
  cases d with
  | func recv name tps ps rs body => gsimp [itemsD, allNull, isNull]
  | gen d => simp [itemsD, itemsG_nn]

end nonnull

/-! ### statement items, one at a time -/

section stmtitems
set_option linter.unusedSimpArgs false

section
variable (cfg : Cfg) (e : Env)

/-! #### statement items, one at a time -/

theorem tokText_of_ne {s : Str} (h : (s == b!"default") = false) : tokText s = s := by
  simp [tokText, h]

theorem rs_ident (s : Str) (first : Bool) (prev : Option Code) (ys : List Code) :
    renderStmtP cfg e first prev (.tok .ident s :: ys) =
      sp first ++ (s ++ renderStmtP cfg e false (some (.tok .ident s)) ys) := by
  rw [rs_cons cfg e (by simp [isNull])]; simp [renderP]

theorem rs_op (s : Str) (first : Bool) (prev : Option Code) (ys : List Code) :
    renderStmtP cfg e first prev (.tok .op s :: ys) =
      sp first ++ (tokText s ++ renderStmtP cfg e false (some (.tok .op s)) ys) := by
  rw [rs_cons cfg e (by simp [isNull])]; simp [renderP]

theorem rs_kw (s : Str) (first : Bool) (prev : Option Code) (ys : List Code) :
    renderStmtP cfg e first prev (.tok .kw s :: ys) =
      sp first ++ (tokText s ++ renderStmtP cfg e false (some (.tok .kw s)) ys) := by
  rw [rs_cons cfg e (by simp [isNull])]; simp [renderP]

theorem rs_delim (s : Str) (first : Bool) (prev : Option Code) (ys : List Code) :
    renderStmtP cfg e first prev (.tok .delim s :: ys) =
      sp first ++ (tokText s ++ renderStmtP cfg e false (some (.tok .delim s)) ys) := by
  rw [rs_cons cfg e (by simp [isNull])]; simp [renderP]

theorem rs_layout (s : Str) (first : Bool) (prev : Option Code) (ys : List Code) :
    renderStmtP cfg e first prev (.tok .layout s :: ys) =
      sp first ++ (tokText s ++ renderStmtP cfg e false (some (.tok .layout s)) ys) := by
  rw [rs_cons cfg e (by simp [isNull])]; simp [renderP]

theorem rs_stmt {is : List Code} (hn : allNull e.np is = false) (first : Bool) (prev : Option Code)
    (ys : List Code) :
    renderStmtP cfg e first prev (.stmt is :: ys) =
      sp first ++ (renderStmtP cfg e true none is ++ renderStmtP cfg e false (some (.stmt is)) ys) := by
  rw [rs_cons cfg e (by simp [isNull, hn])]; simp [renderP]

theorem rs_group {name opn cls sep : Str} {multi : Bool} (ho : opn ≠ []) (cs : List Code) (first : Bool)
    (prev : Option Code) (ys : List Code) :
    renderStmtP cfg e first prev (.group ⟨name, opn, cls, sep, multi⟩ cs :: ys) =
      sp first ++ (renderP cfg e prev (.group ⟨name, opn, cls, sep, multi⟩ cs) ++
        renderStmtP cfg e false (some (.group ⟨name, opn, cls, sep, multi⟩ cs)) ys) := by
  rw [rs_cons cfg e (by simp [isNull, ho])]

/-- `List(…)` with at least one (non-null) item -/
theorem rs_listGroup {cs : List Code} (hn : noNull e.np cs = true) (hne : cs ≠ []) (first : Bool)
    (prev : Option Code) (ys : List Code) :
    renderStmtP cfg e first prev (.group ⟨b!"list", [], [], b!",", false⟩ cs :: ys) =
      sp first ++ (Str.join b!"," (cs.map (renderP cfg e none)) ++
        renderStmtP cfg e false (some (.group ⟨b!"list", [], [], b!",", false⟩ cs)) ys) := by
  have h0 : isNull e.np (.group ⟨b!"list", [], [], b!",", false⟩ cs) = false := by
    cases cs with
    | nil => exact absurd rfl hne
    | cons c cs => simp [isNull, allNull_of_noNull hn]
  rw [rs_cons cfg e h0, render_flat cfg e _ _ _ _ cs prev (by simp) (Or.inl (by simp)) hn]
  simp

theorem prevFree_tok (k : TokKind) (s : Str) (ys : List Code) : PrevFree cfg e (.tok k s :: ys) :=
  prevFree_cons cfg e (prevInd_tok cfg e k s) ys

theorem prevFree_stmt (is ys : List Code) : PrevFree cfg e (.stmt is :: ys) :=
  prevFree_cons cfg e (prevInd_stmt cfg e is) ys

theorem prevFree_group {name opn cls sep : Str} {multi : Bool} (h : name ≠ b!"block") (cs ys : List Code) :
    PrevFree cfg e (.group ⟨name, opn, cls, sep, multi⟩ cs :: ys) :=
  prevFree_cons cfg e (prevInd_group cfg e _ cs (by simpa using h)) ys

end

theorem binop_ne (o : BinOp) : (o.text == b!"default") = false := by cases o <;> decide
theorem unop_ne (o : UnOp) : (o.text == b!"default") = false := by cases o <;> decide
theorem assignop_ne (o : AssignOp) : (o.text == b!"default") = false := by cases o <;> decide
theorem incdecop_ne (o : IncDecOp) : (o.text == b!"default") = false := by cases o <;> decide

theorem icd_none : isCaseOrDefault none = false := by simp [isCaseOrDefault]
theorem icd_group (g : GInfo) (cs : List Code) :
    isCaseOrDefault (some (.group g cs)) = (g.name == b!"case") := by simp [isCaseOrDefault]
theorem icd_tok (k : TokKind) (s : Str) : isCaseOrDefault (some (.tok k s)) = (s == b!"default") := by
  simp [isCaseOrDefault]
theorem icd_stmt (is : List Code) : isCaseOrDefault (some (.stmt is)) = false := by simp [isCaseOrDefault]

theorem buildEs_eq_nil (xs : List Expr) : (buildEs xs = []) = (xs = []) := by
  cases xs <;> simp [buildEs]
theorem buildFs_eq_nil (xs : List Field) : (buildFs xs = []) = (xs = []) := by
  cases xs <;> simp [buildFs]

theorem rp_stmt (cfg : Cfg) (e : Env) (p : Option Code) (is : List Code) :
    renderP cfg e p (.stmt is) = renderStmtP cfg e true none is := by simp [renderP]
theorem rp_ident (cfg : Cfg) (e : Env) (p : Option Code) (s : Str) : renderP cfg e p (.tok .ident s) = s := by
  simp [renderP]
theorem rp_op (cfg : Cfg) (e : Env) (p : Option Code) (s : Str) : renderP cfg e p (.tok .op s) = tokText s := by
  simp [renderP]
theorem rp_kw (cfg : Cfg) (e : Env) (p : Option Code) (s : Str) : renderP cfg e p (.tok .kw s) = tokText s := by
  simp [renderP]
theorem rp_pkg (cfg : Cfg) (e : Env) (p : Option Code) (s : Str) : renderP cfg e p (.tok .pkg s) = e.name s := by
  simp [renderP]
theorem tokText_nil : tokText [] = [] := by simp [tokText]

end stmtitems

/-! ### optional children, name lists -/

section aux
set_option linter.unusedSimpArgs false

section
variable (cfg : Cfg) (e : Env)

theorem renderP_ok {p : Option Code} (hp : isCaseOrDefault p = false) (c : Code) :
    renderP cfg e p c = renderP cfg e none c := by
  cases c with
  | group g cs => simp [renderP, effDelims, hp, icd_none]
  | tok k s => cases k <;> simp [renderP]
  | _ => simp [renderP]

theorem prevFreeOk_cons (c : Code) (ys : List Code) : PrevFreeOk cfg e (c :: ys) := by
  intro p hp
  by_cases hn : isNull e.np c = true
  · simp [renderStmtP, hn]
  · simp [renderStmtP, hn, renderP_ok cfg e hp c]

theorem prevFreeOk_nil : PrevFreeOk cfg e [] := (prevFree_nil cfg e).ok

theorem itemsO_nn (np : Str → Bool) (o : Option Expr) : allNull np (itemsO o) = o.isNone := by
  cases o <;> simp [itemsO, allNull, items_nn]

theorem itemsOS_nn (np : Str → Bool) (o : Option Stmt) : allNull np (itemsOS o) = o.isNone := by
  cases o <;> simp [itemsOS, allNull, itemsS_nn]

theorem itemsO_none : itemsO none = [] := by simp [itemsO]
theorem itemsOS_none : itemsOS none = [] := by simp [itemsOS]
theorem printO_none : printO e none = [] := by simp [printO]
theorem printOS_none : printOS e none = [] := by simp [printOS]

theorem opt_top {o : Option Expr} (h : o.isNone = false → RAny cfg e (itemsO o) (printO e o)) :
    renderStmtP cfg e true none (itemsO o) = printO e o := by
  cases o with
  | none => simp [itemsO, printO, rs_nil]
  | some y => exact (h rfl).top

theorem optS_top {o : Option Stmt} (h : o.isNone = false → RItems cfg e (itemsOS o) (printOS e o)) :
    renderStmtP cfg e true none (itemsOS o) = printOS e o := by
  cases o with
  | none => simp [itemsOS, printOS, rs_nil]
  | some y => exact (h rfl).top

theorem idNames_nn (np : Str → Bool) (names : List Str) :
    noNull np (names.map fun n => Code.stmt [idTok n]) = true := by
  induction names with
  | nil => rfl
  | cons n ns ih => simp_all [noNull_cons, isNull, allNull, idTok_eq]

theorem idNames_map (names : List Str) :
    (names.map fun n => Code.stmt [idTok n]).map (renderP cfg e none) = names := by
  induction names with
  | nil => rfl
  | cons n ns ih => simp_all [rp_stmt, rs_ident, rs_nil, idTok_eq]

theorem idNames_nn' (np : Str → Bool) (names : List Str) :
    noNull np (names.map fun n => Code.stmt [.tok .ident n]) = true := by
  simpa [idTok_eq] using idNames_nn np names

theorem idNames_map' (names : List Str) :
    List.map (renderP cfg e none ∘ fun n => Code.stmt [.tok .ident n]) names = names := by
  simpa [idTok_eq] using idNames_map cfg e names

theorem idNames_map'' (names : List Str) :
    (names.map fun n => Code.stmt [.tok .ident n]).map (renderP cfg e none) = names := by
  simpa [idTok_eq] using idNames_map cfg e names

end
end aux

section specnn
set_option linter.unusedSimpArgs false

theorem itemsSp_nn (np : Str → Bool) (s : Spec) (h : wfSp np s = true) : allNull np (itemsSp s) = false := by
  cases s with
  | value names t vals =>
      cases names with
      | nil => simp [wfSp] at h
      | cons n ns => gsimp [itemsSp, idList, allNull, isNull]
  | type n tps al t => gsimp [itemsSp, allNull, isNull]

theorem buildSps_nn (np : Str → Bool) : ∀ xs : List Spec, wfSps np xs = true → noNull np (buildSps xs) = true
  | [], _ => by simp [buildSps, noNull]
  | x :: xs, h => by
      simp only [wfSps, Bool.and_eq_true] at h
      simp [buildSps, noNull_cons, isNull, itemsSp_nn np x h.1, buildSps_nn np xs h.2]

theorem tokText_default : tokText b!"default" = b!"default:" := by simp [tokText]

end specnn

/-! ### the mutual induction -/

section mainproof
set_option linter.unusedSimpArgs false
set_option linter.unusedVariables false

macro "rsimp" "[" ts:Lean.Parser.Tactic.simpLemma,* "]" : tactic =>
  `(tactic| gsimp [items, itemsF, itemsR, itemsI, itemsS, itemsC, itemsCC, itemsSp, itemsG, idList,
      print, printF, printR, printI, printS, printC, printCC, printSp, printG, spaceAtom,
      itemsO_none, itemsOS_none, printO_none, printOS_none,
      rs_nil, rs_ident, rs_op, rs_kw, rs_delim, rs_layout, rs_stmt, rs_group,
      rs_listGroup, prevFree_tok, prevFree_stmt, prevFree_group, prevFree_nil, prevFreeOk_cons, prevFreeOk_nil,
      render_flat, render_multi, render_open,
      rp_stmt, rp_ident, rp_op, rp_kw, rp_pkg, tokText_nil, isNull, allNull, allNull_append,
      noNull_cons, noNull_nil, noNull_append,
      icd_none, icd_group, icd_tok, icd_stmt, items_nn, itemsO_nn, itemsOS_nn, buildEs_nn, buildFs_nn,
      buildIs_nn, buildSs_nn, buildCs_nn, buildCCs_nn, itemsF_nn, itemsI_nn, itemsS_nn, itemsG_nn, itemsC_nn, itemsCC_nn,
      idNames_nn, idNames_map, idNames_nn', idNames_map', idNames_map'',
      Str.join, tokText_of_ne, binop_ne, unop_ne, assignop_ne, incdecop_ne, buildEs_eq_nil, buildFs_eq_nil, tokText_default, BranchTok.api, BranchTok.text, DeclTok.api, DeclTok.text, $ts,*])

section
variable (cfg : Cfg) (e : Env)

mutual
theorem rE : ∀ x : Expr, wf e.np x = true → RAny cfg e (items x) (print e x)
  | .ident n, _ => by intro first prev; rsimp []
  | .basicLit t, _ => by intro first prev; rsimp []
  | .qual p n, h => by
      simp only [wf, Bool.not_eq_true'] at h
      intro first prev
      gsimp [items, print]
      rw [rs_cons cfg e (by simp [isNull, allNull])]
      rsimp [h]
  | .selector x s, h => by
      simp only [wf] at h
      have ih := rE x h
      intro first prev
      rsimp [ih.app cfg e (items_nn _ x)]
  | .call f args, h => by
      simp only [wf, Bool.and_eq_true] at h
      have ih := rE f h.1
      have ihs := rEs args h.2
      intro first prev
      rsimp [ih.app cfg e (items_nn _ f), ihs]
  | .callSpread f args last, h => by
      simp only [wf, Bool.and_eq_true] at h
      have ih := rE f h.1.1
      have ihs := rEs args h.1.2
      have ihl := rE last h.2
      intro first prev
      rsimp [ih.app cfg e (items_nn _ f), ihl.app cfg e (items_nn _ last), ihs]
  | .index x i, h => by
      simp only [wf, Bool.and_eq_true] at h
      have ih := rE x h.1
      have ihi := rE i h.2
      intro first prev
      rsimp [ih.app cfg e (items_nn _ x), ihi.top]
  | .indexList x is, h => by
      simp only [wf, Bool.and_eq_true, Bool.not_eq_true', List.isEmpty_eq_false_iff] at h
      have ih := rE x h.1.1
      have ihs := rEs is h.2
      intro first prev
      rsimp [ih.app cfg e (items_nn _ x), ihs, h.1.2]
  | .slice x lo hi, h => by
      simp only [wf, Bool.and_eq_true] at h
      have ih := rE x h.1.1
      have tlo := opt_top cfg e (rO lo h.1.2)
      have thi := opt_top cfg e (rO hi h.2)
      intro first prev
      cases lo <;> cases hi <;> rsimp [ih.app cfg e (items_nn _ x), tlo, thi]
  | .slice3 x lo hi mx, h => by
      simp only [wf, Bool.and_eq_true] at h
      have ih := rE x h.1.1.1
      have tlo := opt_top cfg e (rO lo h.1.1.2)
      have thi := opt_top cfg e (rO hi h.1.2)
      have tmx := opt_top cfg e (rO mx h.2)
      intro first prev
      cases lo <;> cases hi <;> cases mx <;> rsimp [ih.app cfg e (items_nn _ x), tlo, thi, tmx]
  | .star x, h => by
      simp only [wf] at h
      have ih := rE x h
      intro first prev
      rsimp [ih false]
  | .unary op x, h => by
      simp only [wf] at h
      have ih := rE x h
      intro first prev
      rsimp [ih false]
  | .binary x op y, h => by
      simp only [wf, Bool.and_eq_true] at h
      have ihx := rE x h.1
      have ihy := rE y h.2
      intro first prev
      rsimp [ihx.top, ihy.top]
  | .paren x, h => by
      simp only [wf] at h
      have ih := rE x h
      intro first prev
      rsimp [ih.top]
  | .typeAssert x t, h => by
      simp only [wf, Bool.and_eq_true] at h
      have ih := rE x h.1
      have tt := opt_top cfg e (rO t h.2)
      intro first prev
      cases t <;> rsimp [ih.app cfg e (items_nn _ x), tt]
  | .compositeLit t elts, h => by
      simp only [wf, Bool.and_eq_true] at h
      have ihs := rEs elts h.2
      have iht := rO t h.1
      intro first prev
      cases t with
      | none => rsimp [ihs]
      | some y =>
          have iht' := iht rfl
          rsimp [iht'.app cfg e (by simp [itemsO_nn]), ihs]
  | .keyValue k v, h => by
      simp only [wf, Bool.and_eq_true] at h
      have ihx := rE k h.1
      have ihy := rE v h.2
      intro first prev
      rsimp [ihx.top, ihy.top]
  | .funcLit ps rs body, h => by
      simp only [wf, Bool.and_eq_true] at h
      have ihp := rFs ps h.1.1
      have ihr := rR rs h.1.2
      have ihb := rSs body h.2
      intro first prev
      rsimp [ihp, ihr, ihb]
  | .arrayType len elem, h => by
      simp only [wf, Bool.and_eq_true] at h
      have ih := rE elem h.2
      have tl := opt_top cfg e (rO len h.1)
      intro first prev
      cases len <;> rsimp [ih false, tl]
  | .mapType k v, h => by
      simp only [wf, Bool.and_eq_true] at h
      have ihk := rE k h.1
      have ihv := rE v h.2
      intro first prev
      rsimp [ihk.top, ihv false]
  | .chanType dir t, h => by
      simp only [wf] at h
      have ih := rE t h
      intro first prev
      cases dir <;> rsimp [ih false, ChanDir.text]
  | .funcType ps rs, h => by
      simp only [wf, Bool.and_eq_true] at h
      have ihp := rFs ps h.1
      have ihr := rR rs h.2
      have ihr0 : ∀ prev, isCaseOrDefault prev = false →
          renderStmtP cfg e false prev (itemsR rs) = printR e rs := by
        intro prev hp
        have := ihr prev [] hp (prevFreeOk_nil cfg e)
        simpa [rs_nil] using this
      intro first prev
      rsimp [ihp, ihr0]
  | .structType fs, h => by
      simp only [wf] at h
      have ihs := rFs fs h
      intro first prev
      rsimp [ihs]
  | .interfaceType es, h => by
      simp only [wf] at h
      have ihs := rIs es h
      intro first prev
      rsimp [ihs]
  | .ellipsis t, h => by
      simp only [wf] at h
      have iht := rO t h
      intro first prev
      cases t with
      | none => rsimp []
      | some y =>
          have iht' := iht rfl
          rsimp [iht' false]
theorem rO : ∀ o : Option Expr, wfO e.np o = true → o.isNone = false →
    RAny cfg e (itemsO o) (printO e o)
  | none, _, hn => by simp at hn
  | some y, h, _ => by
      simp only [wfO] at h
      simpa [itemsO, printO] using rE y h
theorem rEs : ∀ xs : List Expr, wfEs e.np xs = true →
    (buildEs xs).map (renderP cfg e none) = printEs e xs
  | [], _ => by simp [buildEs, printEs]
  | x :: xs, h => by
      simp only [wfEs, Bool.and_eq_true] at h
      simp [buildEs, printEs, rp_stmt, (rE x h.1).top, rEs xs h.2]
theorem rF : ∀ f : Field, wfF e.np f = true → renderStmtP cfg e true none (itemsF f) = printF e f
  | .mk names t tg, h => by
      simp only [wfF] at h
      have ih := rE t h
      cases names <;> cases tg <;> rsimp [ih.app cfg e (items_nn _ t), ih.top, ih false]
theorem rFs : ∀ xs : List Field, wfFs e.np xs = true →
    (buildFs xs).map (renderP cfg e none) = printFs e xs
  | [], _ => by simp [buildFs, printFs]
  | x :: xs, h => by
      simp only [wfFs, Bool.and_eq_true] at h
      simp [buildFs, printFs, rp_stmt, rF x h.1, rFs xs h.2]
theorem rR : ∀ r : Results, wfR e.np r = true → ∀ (prev : Option Code) (ys : List Code),
    isCaseOrDefault prev = false → PrevFreeOk cfg e ys →
    renderStmtP cfg e false prev (itemsR r ++ ys) = printR e r ++ renderStmtP cfg e false none ys
  | .none, _ => by
      intro prev ys hp hy
      simpa [itemsR, printR] using hy prev hp
  | .type t, h => by
      simp only [wfR] at h
      have ih := rE t h
      intro prev ys hp hy
      rsimp [ih.top]
      exact hy _ (by simp [icd_stmt])
  | .fields fs, h => by
      simp only [wfR] at h
      have ihs := rFs fs h
      intro prev ys hp hy
      rsimp [ihs]
      exact hy _ (by simp [icd_group])
theorem rI : ∀ x : IElem, wfI e.np x = true → renderStmtP cfg e true none (itemsI x) = printI e x
  | .method n ps rs, h => by
      simp only [wfI, Bool.and_eq_true] at h
      have ihp := rFs ps h.1
      have ihr := rR rs h.2
      have ihr0 : ∀ prev, isCaseOrDefault prev = false →
          renderStmtP cfg e false prev (itemsR rs) = printR e rs := by
        intro prev hp
        have := ihr prev [] hp (prevFreeOk_nil cfg e)
        simpa [rs_nil] using this
      rsimp [ihp, ihr0]
  | .embed t, h => by
      simp only [wfI] at h
      simpa [itemsI, printI] using (rE t h).top
theorem rIs : ∀ xs : List IElem, wfIs e.np xs = true →
    (buildIs xs).map (renderP cfg e none) = printIs e xs
  | [], _ => by simp [buildIs, printIs]
  | x :: xs, h => by
      simp only [wfIs, Bool.and_eq_true] at h
      simp [buildIs, printIs, rp_stmt, rI x h.1, rIs xs h.2]
theorem rS : ∀ s : Stmt, wfS e.np s = true → RItems cfg e (itemsS s) (printS e s)
  | .expr x, h => by
      simp only [wfS] at h
      simpa [itemsS, printS] using (rE x h).toR
  | .assign lhs op rhs, h => by
      simp only [wfS, Bool.and_eq_true, Bool.not_eq_true', List.isEmpty_eq_false_iff] at h
      have ihl := rEs lhs h.1.2
      have ihr := rEs rhs h.2
      intro first prev hp
      rsimp [ihl, ihr, h.1.1.1, h.1.1.2]
  | .incDec x op, h => by
      simp only [wfS] at h
      have ih := rE x h
      intro first prev hp
      rsimp [ih.app cfg e (items_nn _ x), hp]
  | .send ch v, h => by
      simp only [wfS, Bool.and_eq_true] at h
      have ihx := rE ch h.1
      have ihy := rE v h.2
      intro first prev hp
      rsimp [ihx.top, ihy.top]
  | .ret rs, h => by
      simp only [wfS] at h
      have ihs := rEs rs h
      intro first prev hp
      rsimp [ihs]
  | .branch tk label, _ => by
      intro first prev hp
      cases tk <;> cases label <;> rsimp []
  | .block body, h => by
      simp only [wfS] at h
      have ihb := rSs body h
      intro first prev hp
      rsimp [ihb, hp]
  | .ifS init c body els, h => by
      simp only [wfS, Bool.and_eq_true] at h
      have ti := optS_top cfg e (rOS init h.1.1.1)
      have ihc := rE c h.1.1.2
      have ihb := rSs body h.1.2
      have ihe := rOS els h.2
      intro first prev hp
      cases els with
      | none => cases init <;> rsimp [ti, ihc.top, ihb]
      | some s =>
          have ie := ihe rfl
          cases init <;> rsimp [ti, ihc.top, ihb, ie false]
  | .forS cond body, h => by
      simp only [wfS, Bool.and_eq_true] at h
      have tc := opt_top cfg e (rO cond h.1)
      have ihb := rSs body h.2
      intro first prev hp
      cases cond <;> rsimp [tc, ihb]
  | .forClause init cond post body, h => by
      simp only [wfS, Bool.and_eq_true] at h
      have ti := optS_top cfg e (rOS init h.1.1.1)
      have tc := opt_top cfg e (rO cond h.1.1.2)
      have tp := optS_top cfg e (rOS post h.1.2)
      have ihb := rSs body h.2
      intro first prev hp
      cases init <;> cases cond <;> cases post <;> rsimp [ti, tc, tp, ihb]
  | .range key value define x body, h => by
      simp only [wfS, Bool.and_eq_true] at h
      have ihk := rO key h.1.1.1
      have tk := opt_top cfg e ihk
      have tv := opt_top cfg e (rO value h.1.1.2)
      have ihx := rE x h.1.2
      have ihb := rSs body h.2
      intro first prev hp
      cases key with
      | none => rsimp [ihx false, ihb]
      | some k =>
          have ik := ihk rfl
          cases value <;> cases define <;>
            rsimp [ik.app cfg e (by simp [itemsO_nn]), tk, tv, ihx false, ihb]
  | .switch init tg cls, h => by
      simp only [wfS, Bool.and_eq_true] at h
      have ti := optS_top cfg e (rOS init h.1.1)
      have tt := opt_top cfg e (rO tg h.1.2)
      have ihc := rCs cls h.2
      intro first prev hp
      cases init <;> cases tg <;> rsimp [ti, tt, ihc]
  | .typeSwitch init a cls, h => by
      simp only [wfS, Bool.and_eq_true] at h
      have ti := optS_top cfg e (rOS init h.1.1)
      have iha := rS a h.1.2
      have ihc := rCs cls h.2
      intro first prev hp
      cases init <;> rsimp [ti, iha.top, ihc]
  | .select cls, h => by
      simp only [wfS] at h
      have ihc := rCCs cls h
      intro first prev hp
      rsimp [ihc]
  | .go x, h => by
      simp only [wfS] at h
      have ih := rE x h
      intro first prev hp
      rsimp [ih false]
  | .defer x, h => by
      simp only [wfS] at h
      have ih := rE x h
      intro first prev hp
      rsimp [ih false]
  | .decl d, h => by
      simp only [wfS] at h
      simpa [itemsS, printS] using rG d h
  | .labeled l s, h => by
      simp only [wfS] at h
      have ih := rS s h
      intro first prev hp
      rsimp [ih.top]
theorem rOS : ∀ o : Option Stmt, wfOS e.np o = true → o.isNone = false →
    RItems cfg e (itemsOS o) (printOS e o)
  | none, _, hn => by simp at hn
  | some y, h, _ => by
      simp only [wfOS] at h
      simpa [itemsOS, printOS] using rS y h
theorem rSs : ∀ xs : List Stmt, wfSs e.np xs = true →
    (buildSs xs).map (renderP cfg e none) = printSs e xs
  | [], _ => by simp [buildSs, printSs]
  | x :: xs, h => by
      simp only [wfSs, Bool.and_eq_true] at h
      simp [buildSs, printSs, rp_stmt, (rS x h.1).top, rSs xs h.2]
theorem rC : ∀ c : Clause, wfC e.np c = true → renderStmtP cfg e true none (itemsC c) = printC e c
  | .mk xs body, h => by
      simp only [wfC, Bool.and_eq_true] at h
      have ihs := rEs xs h.1
      have ihb := rSs body h.2
      cases xs <;> rsimp [ihs, ihb]
theorem rCs : ∀ xs : List Clause, wfCs e.np xs = true →
    (buildCs xs).map (renderP cfg e none) = printCs e xs
  | [], _ => by simp [buildCs, printCs]
  | x :: xs, h => by
      simp only [wfCs, Bool.and_eq_true] at h
      simp [buildCs, printCs, rp_stmt, rC x h.1, rCs xs h.2]
theorem rCC : ∀ c : CommClause, wfCC e.np c = true → renderStmtP cfg e true none (itemsCC c) = printCC e c
  | .mk comm body, h => by
      simp only [wfCC, Bool.and_eq_true] at h
      have tc := optS_top cfg e (rOS comm h.1)
      have ihb := rSs body h.2
      cases comm <;> rsimp [tc, ihb]
theorem rCCs : ∀ xs : List CommClause, wfCCs e.np xs = true →
    (buildCCs xs).map (renderP cfg e none) = printCCs e xs
  | [], _ => by simp [buildCCs, printCCs]
  | x :: xs, h => by
      simp only [wfCCs, Bool.and_eq_true] at h
      simp [buildCCs, printCCs, rp_stmt, rCC x h.1, rCCs xs h.2]
theorem rSp : ∀ s : Spec, wfSp e.np s = true → RAny cfg e (itemsSp s) (printSp e s)
  | .value names t vals, h => by
      simp only [wfSp, Bool.and_eq_true, Bool.not_eq_true', List.isEmpty_eq_false_iff] at h
      have iht := rO t h.1.2
      have ihv := rEs vals h.2
      intro first prev
      cases names with
      | nil => exact absurd rfl h.1.1
      | cons n ns =>
          cases t with
          | none => cases vals <;> rsimp [ihv]
          | some y =>
              have it := iht rfl
              cases vals <;> rsimp [ihv, it.app cfg e (by simp [itemsO_nn]), it false]
  | .type n tps al t, h => by
      simp only [wfSp, Bool.and_eq_true] at h
      have ihp := rFs tps h.1
      have ih := rE t h.2
      intro first prev
      cases tps <;> cases al <;> rsimp [ihp, ih false]
theorem rSps : ∀ xs : List Spec, wfSps e.np xs = true →
    (buildSps xs).map (renderP cfg e none) = printSps e xs
  | [], _ => by simp [buildSps, printSps]
  | x :: xs, h => by
      simp only [wfSps, Bool.and_eq_true] at h
      simp [buildSps, printSps, rp_stmt, (rSp x h.1).top, rSps xs h.2]
theorem rG : ∀ d : GenDecl, wfG e.np d = true → RItems cfg e (itemsG d) (printG e d)
  | .one tk s, h => by
      simp only [wfG] at h
      have ih := rSp s h
      intro first prev hp
      cases tk <;> rsimp [ih false]
  | .defs tk ss, h => by
      simp only [wfG] at h
      have ihs := rSps ss h
      intro first prev hp
      cases tk <;> rsimp [ihs, buildSps_nn _ ss h]
end

theorem rD : ∀ d : Decl, wfD e.np d = true → RItems cfg e (itemsD d) (printD e d)
  | .func recv name tps ps rs body, h => by
      simp only [wfD, Bool.and_eq_true] at h
      have ihtp := rFs cfg e tps h.1.1.1.2
      have ihp := rFs cfg e ps h.1.1.2
      have ihr := rR cfg e rs h.1.2
      have ihb := rSs cfg e body h.2
      intro first prev hp
      cases recv with
      | none => cases tps <;> rsimp [itemsD, printD, printRecv, ihtp, ihp, ihr, ihb]
      | some r =>
          have ir := rF cfg e r (by simpa [wfRecv] using h.1.1.1.1)
          cases tps <;> rsimp [itemsD, printD, printRecv, ihtp, ihp, ihr, ihb, ir]
  | .gen d, h => by
      simp only [wfD] at h
      simpa [itemsD, printD] using rG cfg e d h

end
end mainproof

section results
set_option linter.unusedSimpArgs false

/-! ### `build_nonNull` : every built tree is a non-null item (no hypothesis) -/

theorem build_nonNull (np : Str → Bool) (x : Expr) : isNull np (build x) = false := by
  simp [build, isNull, items_nn]
theorem buildS_nonNull (np : Str → Bool) (s : Stmt) : isNull np (buildS s) = false := by
  simp [buildS, isNull, itemsS_nn]
theorem buildF_nonNull (np : Str → Bool) (f : Field) : isNull np (buildF f) = false := by
  simp [buildF, isNull, itemsF_nn]
theorem buildI_nonNull (np : Str → Bool) (x : IElem) : isNull np (buildI x) = false := by
  simp [buildI, isNull, itemsI_nn]
theorem buildC_nonNull (np : Str → Bool) (c : Clause) : isNull np (buildC c) = false := by
  simp [buildC, isNull, itemsC_nn]
theorem buildCC_nonNull (np : Str → Bool) (c : CommClause) : isNull np (buildCC c) = false := by
  simp [buildCC, isNull, itemsCC_nn]
theorem buildG_nonNull (np : Str → Bool) (d : GenDecl) : isNull np (buildG d) = false := by
  simp [buildG, isNull, itemsG_nn]
theorem buildD_nonNull (np : Str → Bool) (d : Decl) : isNull np (buildD d) = false := by
  simp [buildD, isNull, itemsD_nn]
/-- a value spec needs a name (`List()` without items is null) -/
theorem buildSp_nonNull (np : Str → Bool) (s : Spec) (h : wfSp np s = true) : isNull np (buildSp s) = false := by
  simp [buildSp, isNull, itemsSp_nn np s h]

/-! ### MAIN THEOREM -/

/-- what the renderer genuinely needs (see `GoSyn.wf`): non-null package tokens in `Qual`,
    at least one item in the `List(…)` / `Types(…)` that the printer writes unconditionally -/
abbrev WellFormed (e : Env) (x : Expr) : Prop := wf e.np x = true
abbrev WellFormedS (e : Env) (s : Stmt) : Prop := wfS e.np s = true
abbrev WellFormedD (e : Env) (d : Decl) : Prop := wfD e.np d = true

section
variable (cfg : Cfg)

/-- expressions and types -/
theorem render_build_eq_print (x : Expr) (e : Env) (h : WellFormed e x) (prev : Option Code := none) :
    renderP cfg e prev (build x) = print e x := by
  simp only [build, rp_stmt]; exact (rE cfg e x h).top

/-- … also in the middle of a statement, after any item: the documented chains compose -/
theorem render_items_eq_print (x : Expr) (e : Env) (h : WellFormed e x) (first : Bool) (prev : Option Code) :
    renderStmtP cfg e first prev (items x) = (if first then [] else b!" ") ++ print e x :=
  rE cfg e x h first prev

theorem render_build_eq_print_field (f : Field) (e : Env) (h : wfF e.np f = true) (prev : Option Code := none) :
    renderP cfg e prev (buildF f) = printF e f := by
  simp only [buildF, rp_stmt]; exact rF cfg e f h

theorem render_build_eq_print_ielem (x : IElem) (e : Env) (h : wfI e.np x = true) (prev : Option Code := none) :
    renderP cfg e prev (buildI x) = printI e x := by
  simp only [buildI, rp_stmt]; exact rI cfg e x h

/-- statements -/
theorem render_build_eq_print_stmt (s : Stmt) (e : Env) (h : WellFormedS e s) (prev : Option Code := none) :
    renderP cfg e prev (buildS s) = printS e s := by
  simp only [buildS, rp_stmt]; exact (rS cfg e s h).top

/-- … also after other items of a statement, unless that item is `Case(…)` / `Default()` (a
    block statement there would lose its braces) -/
theorem render_itemsS_eq_print (s : Stmt) (e : Env) (h : WellFormedS e s) (first : Bool) (prev : Option Code)
    (hp : isCaseOrDefault prev = false) :
    renderStmtP cfg e first prev (itemsS s) = (if first then [] else b!" ") ++ printS e s :=
  rS cfg e s h first prev hp

theorem render_build_eq_print_clause (c : Clause) (e : Env) (h : wfC e.np c = true) (prev : Option Code := none) :
    renderP cfg e prev (buildC c) = printC e c := by
  simp only [buildC, rp_stmt]; exact rC cfg e c h

theorem render_build_eq_print_commClause (c : CommClause) (e : Env) (h : wfCC e.np c = true)
    (prev : Option Code := none) :
    renderP cfg e prev (buildCC c) = printCC e c := by
  simp only [buildCC, rp_stmt]; exact rCC cfg e c h

theorem render_build_eq_print_spec (s : Spec) (e : Env) (h : wfSp e.np s = true) (prev : Option Code := none) :
    renderP cfg e prev (buildSp s) = printSp e s := by
  simp only [buildSp, rp_stmt]; exact (rSp cfg e s h).top

theorem render_build_eq_print_genDecl (d : GenDecl) (e : Env) (h : wfG e.np d = true) (prev : Option Code := none) :
    renderP cfg e prev (buildG d) = printG e d := by
  simp only [buildG, rp_stmt]; exact (rG cfg e d h).top

/-- declarations -/
theorem render_build_eq_print_decl (d : Decl) (e : Env) (h : WellFormedD e d) (prev : Option Code := none) :
    renderP cfg e prev (buildD d) = printD e d := by
  simp only [buildD, rp_stmt]; exact (rD cfg e d h).top

/-- the body of a file: all declarations -/
theorem render_build_eq_print_file (ds : List Decl) (e : Env) (h : wfFile e.np ds = true)
    (prev : Option Code := none) :
    renderP cfg e prev (buildFile ds) = printFile e ds := by
  have hn : noNull e.np (ds.map buildD) = true := by
    simp [noNull, buildD_nonNull]
  have hm : (ds.map buildD).map (renderP cfg e none) = ds.map (printD e) := by
    simp only [List.map_map]
    apply List.map_congr_left
    intro d hd
    have hw : wfD e.np d = true := by
      simp only [wfFile, List.all_eq_true] at h
      exact h d hd
    simpa using render_build_eq_print_decl cfg d e hw
  simp only [buildFile, Code.fileInfo, printFile]
  rw [render_open cfg e [] [] [] _ prev (Or.inl ⟨rfl, rfl, by simp⟩) (by simp) hn, hm]

end



/-! ### `print_lists_every_item`: the reference printer writes every item of every list

a property of `print` alone (nothing of jennifer is restated): for each list-like syntactic
category the text is `open ++ intercalate sep (map print items) ++ close`, for EVERY arity. -/

/-- `Str.join` is `List.intercalate` -/
theorem join_eq_intercalate (sep : Str) : ∀ xs : List Str, Str.join sep xs = sep.intercalate xs
  | [] => by simp [Str.join, List.intercalate]
  | [x] => by simp [Str.join, List.intercalate]
  | x :: y :: rest => by
      have ih := join_eq_intercalate sep (y :: rest)
      simp only [List.intercalate] at ih
      simp [Str.join, List.intercalate, List.intersperse, ih]

theorem lines_nil : lines [] = [] := rfl
/-- a multi-line list: every item on a line of its own -/
theorem lines_ne_nil {xs : List Str} (h : xs ≠ []) :
    lines xs = b!"\n" ++ (b!"\n" : Str).intercalate xs ++ b!"\n" := by
  cases xs with
  | nil => exact absurd rfl h
  | cons x xs => simp [lines, join_eq_intercalate]
theorem linesOpen_nil : linesOpen [] = [] := rfl
theorem linesOpen_ne_nil {xs : List Str} (h : xs ≠ []) :
    linesOpen xs = b!"\n" ++ (b!"\n" : Str).intercalate xs := by
  cases xs with
  | nil => exact absurd rfl h
  | cons x xs => simp [linesOpen, join_eq_intercalate]
/-- … equivalently: a newline before every item -/
theorem linesOpen_eq_flatten (xs : List Str) : linesOpen xs = (xs.map fun x => b!"\n" ++ x).flatten := by
  cases xs with
  | nil => rfl
  | cons x xs =>
      simp only [linesOpen]
      induction xs generalizing x with
      | nil => simp [Str.join]
      | cons y ys ih => have := ih y; simp_all [Str.join]

section
variable (e : Env)

theorem printEs_eq_map : ∀ xs : List Expr, printEs e xs = xs.map (print e)
  | [] => by simp [printEs]
  | x :: xs => by simp [printEs, printEs_eq_map xs]
theorem printFs_eq_map : ∀ xs : List Field, printFs e xs = xs.map (printF e)
  | [] => by simp [printFs]
  | x :: xs => by simp [printFs, printFs_eq_map xs]
theorem printIs_eq_map : ∀ xs : List IElem, printIs e xs = xs.map (printI e)
  | [] => by simp [printIs]
  | x :: xs => by simp [printIs, printIs_eq_map xs]
theorem printSs_eq_map : ∀ xs : List Stmt, printSs e xs = xs.map (printS e)
  | [] => by simp [printSs]
  | x :: xs => by simp [printSs, printSs_eq_map xs]
theorem printCs_eq_map : ∀ xs : List Clause, printCs e xs = xs.map (printC e)
  | [] => by simp [printCs]
  | x :: xs => by simp [printCs, printCs_eq_map xs]
theorem printCCs_eq_map : ∀ xs : List CommClause, printCCs e xs = xs.map (printCC e)
  | [] => by simp [printCCs]
  | x :: xs => by simp [printCCs, printCCs_eq_map xs]
theorem printSps_eq_map : ∀ xs : List Spec, printSps e xs = xs.map (printSp e)
  | [] => by simp [printSps]
  | x :: xs => by simp [printSps, printSps_eq_map xs]

/-- for EVERY arity (`args` is any list): call arguments, generic instantiation, composite
    literal elements, parameter / result / struct field / type parameter lists, interface
    elements, both sides of an assignment, returned values, block, case expressions and bodies,
    switch / select clauses, value specs, parenthesised declarations, the declarations of a file -/
theorem print_lists_every_item :
    (∀ f args, print e (.call f args) =
      print e f ++ b!" (" ++ (b!"," : Str).intercalate (args.map (print e)) ++ b!")") ∧
    (∀ f args last, print e (.callSpread f args last) =
      print e f ++ b!" (" ++ (b!"," : Str).intercalate (args.map (print e) ++ [print e last ++ b!" ..."]) ++ b!")") ∧
    (∀ x is, print e (.indexList x is) =
      print e x ++ b!" [" ++ (b!"," : Str).intercalate (is.map (print e)) ++ b!"]") ∧
    (∀ t elts, print e (.compositeLit (some t) elts) =
      print e t ++ b!" {" ++ (b!"," : Str).intercalate (elts.map (print e)) ++ b!"}") ∧
    (∀ elts, print e (.compositeLit none elts) =
      b!"{" ++ (b!"," : Str).intercalate (elts.map (print e)) ++ b!"}") ∧
    (∀ ps rs, print e (.funcType ps rs) =
      b!"func (" ++ (b!"," : Str).intercalate (ps.map (printF e)) ++ b!")" ++ printR e rs) ∧
    (∀ ps rs body, print e (.funcLit ps rs body) =
      b!"func (" ++ (b!"," : Str).intercalate (ps.map (printF e)) ++ b!")" ++ printR e rs ++
      b!" {" ++ lines (body.map (printS e)) ++ b!"}") ∧
    (∀ fs, printR e (.fields fs) = b!" (" ++ (b!"," : Str).intercalate (fs.map (printF e)) ++ b!")") ∧
    (∀ fs, print e (.structType fs) = b!"struct{" ++ lines (fs.map (printF e)) ++ b!"}") ∧
    (∀ es, print e (.interfaceType es) = b!"interface{" ++ lines (es.map (printI e)) ++ b!"}") ∧
    (∀ n ns t, printF e (.mk (n :: ns) t none) =
      (b!"," : Str).intercalate (n :: ns) ++ b!" " ++ print e t) ∧
    (∀ lhs op rhs, printS e (.assign lhs op rhs) =
      (b!"," : Str).intercalate (lhs.map (print e)) ++ b!" " ++ op.text ++ b!" " ++
      (b!"," : Str).intercalate (rhs.map (print e))) ∧
    (∀ rs, printS e (.ret rs) = b!"return " ++ (b!"," : Str).intercalate (rs.map (print e))) ∧
    (∀ body, printS e (.block body) = b!"{" ++ lines (body.map (printS e)) ++ b!"}") ∧
    (∀ x xs body, printC e (.mk (x :: xs) body) =
      b!"case " ++ (b!"," : Str).intercalate ((x :: xs).map (print e)) ++ b!": " ++
      linesOpen (body.map (printS e))) ∧
    (∀ body, printC e (.mk [] body) = b!"default: " ++ linesOpen (body.map (printS e))) ∧
    (∀ tg cls, printS e (.switch none (some tg) cls) =
      b!"switch " ++ print e tg ++ b!" {" ++ lines (cls.map (printC e)) ++ b!"}") ∧
    (∀ cls, printS e (.select cls) = b!"select {" ++ lines (cls.map (printCC e)) ++ b!"}") ∧
    (∀ names t v vs, printSp e (.value names (some t) (v :: vs)) =
      (b!"," : Str).intercalate names ++ b!" " ++ print e t ++ b!" = " ++
      (b!"," : Str).intercalate ((v :: vs).map (print e))) ∧
    (∀ tk ss, printG e (.defs tk ss) = tk.text ++ b!" (" ++ lines (ss.map (printSp e)) ++ b!")") ∧
    (∀ name ps rs body, printD e (.func none name [] ps rs body) =
      b!"func " ++ name ++ b!" (" ++ (b!"," : Str).intercalate (ps.map (printF e)) ++ b!")" ++
      printR e rs ++ b!" {" ++ lines (body.map (printS e)) ++ b!"}") ∧
    (∀ ds, printFile e ds = linesOpen (ds.map (printD e))) := by
  refine ⟨?_, ?_, ?_, ?_, ?_, ?_, ?_, ?_, ?_, ?_, ?_, ?_, ?_, ?_, ?_, ?_, ?_, ?_, ?_, ?_, ?_, ?_⟩ <;> intros <;>
    simp [print, printF, printR, printS, printC, printSp, printG, printD, printO, printRecv, printFile, spaceAtom,
      printEs_eq_map, printFs_eq_map, printIs_eq_map, printSs_eq_map, printCs_eq_map, printCCs_eq_map,
      printSps_eq_map, join_eq_intercalate]

end


/-! ### non-vacuity: concrete programs -/
namespace Examples

/-- an environment in which every package is imported under its path's text -/
def e0 : Env := { np := fun _ => false, name := fun p => p }
def cfg0 : Cfg := { toLower := id, isPrint := fun _ => true, reserved := [], stdHints := [] }

/-- `func main() { fmt.Println("hi"); if x { return } }` -/
def exMain : Decl := .func none b!"main" [] [] .none
  [.expr (.call (.selector (.ident b!"fmt") b!"Println") [.basicLit b!"\"hi\""]),
   .ifS none (.ident b!"x") [.ret []] none]

example : wfD e0.np exMain = true := by decide
example : printD e0 exMain = b!"func main () {\nfmt . Println (\"hi\")\nif x {\nreturn \n}\n}" := by decide
/-- … and that is what jennifer's renderer writes for the built tree (by the theorem) -/
example : renderP cfg0 e0 none (buildD exMain) =
    b!"func main () {\nfmt . Println (\"hi\")\nif x {\nreturn \n}\n}" := by
  rw [render_build_eq_print_decl cfg0 exMain e0 (by decide)]; decide

/-- a switch with two cases (one with an empty body) and a default -/
def exSwitch : Stmt := .switch none (some (.ident b!"v"))
  [.mk [.ident b!"a", .ident b!"b"] [.ret [.basicLit b!"1"], .branch .brk none],
   .mk [.ident b!"c"] [],
   .mk [] [.branch .fallthrough none]]

example : wfS e0.np exSwitch = true := by decide
example : printS e0 exSwitch =
    b!"switch v {\ncase a,b: \nreturn 1\nbreak\ncase c: \ndefault: \nfallthrough\n}" := by decide

/-- the 3-index slice `a[:2:3]` -/
example : print e0 (.slice3 (.ident b!"a") none (some (.basicLit b!"2")) (some (.basicLit b!"3"))) =
    b!"a [:2:3]" := by decide
/-- `a[1:]` -/
example : print e0 (.slice (.ident b!"a") (some (.basicLit b!"1")) none) = b!"a [1:]" := by decide
/-- a bare return -/
example : printS e0 (.ret []) = b!"return " := by decide
/-- an empty case body -/
example : printC e0 (.mk [.ident b!"c"] []) = b!"case c: " := by decide
/-- a qualified identifier is printed under the environment's name for the path -/
example : print e0 (.qual b!"a/b" b!"T") = b!"a/b.T" := by decide
/-- method with receiver, type parameters, results -/
example : printD e0 (.func (some (.mk [b!"r"] (.star (.ident b!"T")) none)) b!"M"
      [.mk [b!"K"] (.ident b!"any") none] [.mk [b!"a", b!"b"] (.ident b!"int") none]
      (.type (.ident b!"error")) []) =
    b!"func (r * T) M [K any] (a,b int) error {}" := by decide
/-- labelled statement, for-clause with omitted parts, range, var declaration -/
example : printS e0 (.labeled b!"L" (.forClause none (some (.ident b!"ok")) none
      [.range (some (.ident b!"k")) (some (.ident b!"v")) true (.ident b!"m") [],
       .decl (.one .var (.value [b!"x", b!"y"] (some (.ident b!"int")) [.basicLit b!"1", .basicLit b!"2"]))])) =
    b!"L : \n for ;ok; {\nfor k,v := range m {}\nvar x,y int = 1,2\n}" := by decide

/-- why the builder adds a function's single result type with `Add(T)` (a statement of its own)
    instead of chaining it: a Block directly after ANY token whose text is `default` — not only
    the keyword token of `Default()` — loses its braces (jen/group.go:45-55 looks at the raw
    previous item of the enclosing statement) -/
example : renderP cfg0 e0 none
      (.stmt [tokc b!"Func", grp b!"Params" [], idTok b!"default", grp b!"Block" []]) = b!"func () default " ∧
    renderP cfg0 e0 none (build (.funcLit [] (.type (.ident b!"default")) [])) = b!"func () default {}" := by
  decide

/-! the hypotheses of `WellFormed` are needed: without them the renderer and the printer differ -/

/-- `List()` without items is a null item: no space is written for it -/
example : renderP cfg0 e0 none (buildS (.assign [] .assign [.ident b!"a"])) = b!"= a" ∧
    printS e0 (.assign [] .assign [.ident b!"a"]) = b!" = a" := by decide
/-- `Types()` without items writes nothing but keeps its space -/
example : renderP cfg0 e0 none (build (.indexList (.ident b!"a") [])) = b!"a " ∧
    print e0 (.indexList (.ident b!"a") []) = b!"a []" := by decide
/-- `Qual` of the local package writes no qualifier -/
example : renderP cfg0 { e0 with np := fun _ => true } none (build (.qual b!"p" b!"T")) = b!"T" ∧
    print { e0 with np := fun _ => true } (.qual b!"p" b!"T") = b!"p.T" := by decide

end Examples
end results

section nomisuse
set_option linter.unusedSimpArgs false

/-! ### the built trees never reach the "Dict beside other items" misuse -/

mutual
/-- no `Dict` anywhere in the tree (outside Dicts) -/
def noDict : Code → Bool
  | .dict _ => false
  | .group _ items => noDicts items
  | .stmt items => noDicts items
  | _ => true
def noDicts : List Code → Bool
  | [] => true
  | c :: cs => noDict c && noDicts cs
end

theorem noDicts_append : ∀ xs ys : List Code, noDicts (xs ++ ys) = (noDicts xs && noDicts ys)
  | [], ys => by simp [noDicts]
  | x :: xs, ys => by simp [noDicts, noDicts_append xs ys, Bool.and_assoc]

theorem isDict_of_noDict {c : Code} (h : noDict c = true) : isDict c = false := by
  cases c <;> simp_all [noDict, isDict]

mutual
theorem misuse_of_noDict (np : Str → Bool) : ∀ c : Code, noDict c = true → misuse np c = false
  | .group g items, h => by
      simp only [noDict] at h
      simp only [misuse]
      split
      · rfl
      · exact misuseItems_of_noDicts np _ items h
  | .stmt items, h => by
      simp only [noDict] at h
      simp only [misuse]
      exact misuseList_of_noDicts np items h
  | .dict _, h => by simp [noDict] at h
  | .nilc, _ => by simp [misuse]
  | .tok _ _, _ => by simp [misuse]
  | .lit _, _ => by simp [misuse]
  | .tag _, _ => by simp [misuse]
  | .comment _, _ => by simp [misuse]
theorem misuseItems_of_noDicts (np : Str → Bool) (b : Bool) : ∀ cs : List Code, noDicts cs = true →
    misuseItems np b cs = false
  | [], _ => by simp [misuseItems]
  | c :: cs, h => by
      simp only [noDicts, Bool.and_eq_true] at h
      simp only [misuseItems]
      split
      · exact misuseItems_of_noDicts np b cs h.2
      · simp [isDict_of_noDict h.1, misuse_of_noDict np c h.1, misuseItems_of_noDicts np b cs h.2]
theorem misuseList_of_noDicts (np : Str → Bool) : ∀ cs : List Code, noDicts cs = true →
    misuseList np cs = false
  | [], _ => by simp [misuseList]
  | c :: cs, h => by
      simp only [noDicts, Bool.and_eq_true] at h
      simp [misuseList, misuse_of_noDict np c h.1, misuseList_of_noDicts np cs h.2]
end

theorem idNames_noDicts (names : List Str) : noDicts (names.map fun n => Code.stmt [idTok n]) = true := by
  induction names with
  | nil => rfl
  | cons n ns ih => simp_all [noDicts, noDict, idTok]

theorem idNames_noDicts' (names : List Str) :
    noDicts (names.map fun n => Code.stmt [.tok (dynKind b!"Id") n]) = true := idNames_noDicts names

theorem toListMap_noDicts (o : Option Str) : noDicts (o.toList.map idTok) = true := by
  cases o <;> simp [noDicts, noDict, idTok]

macro "ndsimp" "[" ts:Lean.Parser.Tactic.simpLemma,* "]" : tactic =>
  `(tactic| simp [items, itemsO, itemsF, itemsR, itemsI, itemsS, itemsOS, itemsC, itemsCC, itemsSp, itemsG, idList,
      buildEs, buildFs, buildIs, buildSs, buildCs, buildCCs, buildSps,
      grp, tokc, idTok, opTok, noDict, noDicts, noDicts_append, idNames_noDicts, toListMap_noDicts, $ts,*])

mutual
theorem items_nd : ∀ x : Expr, noDicts (items x) = true
  | .ident _ => by ndsimp []
  | .basicLit _ => by ndsimp []
  | .qual _ _ => by ndsimp []
  | .selector x _ => by ndsimp [items_nd x]
  | .call f args => by ndsimp [items_nd f, buildEs_nd args]
  | .callSpread f args last => by ndsimp [items_nd f, buildEs_nd args, items_nd last]
  | .index x i => by ndsimp [items_nd x, items_nd i]
  | .indexList x is => by ndsimp [items_nd x, buildEs_nd is]
  | .slice x lo hi => by
      have := itemsO_nd lo; have := itemsO_nd hi
      cases lo <;> cases hi <;> simp_all [items, items_nd x, grp, tokc, noDict, noDicts, noDicts_append]
  | .slice3 x lo hi mx => by
      have := itemsO_nd lo; have := itemsO_nd hi; have := itemsO_nd mx
      cases lo <;> cases hi <;> cases mx <;>
        simp_all [items, items_nd x, grp, tokc, noDict, noDicts, noDicts_append]
  | .star x => by ndsimp [items_nd x]
  | .unary _ x => by ndsimp [items_nd x]
  | .binary x _ y => by ndsimp [items_nd x, items_nd y]
  | .paren x => by ndsimp [items_nd x]
  | .typeAssert x t => by
      have := itemsO_nd t
      cases t <;> simp_all [items, items_nd x, grp, tokc, noDict, noDicts, noDicts_append]
  | .compositeLit t elts => by
      have := itemsO_nd t
      simp_all [items, buildEs_nd elts, grp, noDict, noDicts, noDicts_append]
  | .keyValue k v => by ndsimp [items_nd k, items_nd v]
  | .funcLit ps rs body => by ndsimp [buildFs_nd ps, itemsR_nd rs, buildSs_nd body]
  | .arrayType len elem => by
      have := itemsO_nd len
      cases len <;> simp_all [items, items_nd elem, grp, tokc, noDict, noDicts, noDicts_append]
  | .mapType k v => by ndsimp [items_nd k, items_nd v]
  | .chanType dir t => by cases dir <;> ndsimp [items_nd t]
  | .funcType ps rs => by ndsimp [buildFs_nd ps, itemsR_nd rs]
  | .structType fs => by ndsimp [buildFs_nd fs]
  | .interfaceType es => by ndsimp [buildIs_nd es]
  | .ellipsis t => by
      have := itemsO_nd t
      simp_all [items, opTok, noDict, noDicts]
theorem itemsO_nd : ∀ o : Option Expr, noDicts (itemsO o) = true
  | none => by simp [itemsO, noDicts]
  | some x => by simp [itemsO, items_nd x]
theorem buildEs_nd : ∀ xs : List Expr, noDicts (buildEs xs) = true
  | [] => by simp [buildEs, noDicts]
  | x :: xs => by simp [buildEs, noDicts, noDict, items_nd x, buildEs_nd xs]
theorem itemsF_nd : ∀ f : Field, noDicts (itemsF f) = true
  | .mk names t tg => by
      cases names <;> simp [itemsF, idList, grp, noDict, noDicts, noDicts_append, items_nd t,
        idNames_noDicts, idNames_noDicts', toListMap_noDicts, idTok]
theorem buildFs_nd : ∀ xs : List Field, noDicts (buildFs xs) = true
  | [] => by simp [buildFs, noDicts]
  | x :: xs => by simp [buildFs, noDicts, noDict, itemsF_nd x, buildFs_nd xs]
theorem itemsR_nd : ∀ r : Results, noDicts (itemsR r) = true
  | .none => by simp [itemsR, noDicts]
  | .type t => by ndsimp [items_nd t]
  | .fields fs => by ndsimp [buildFs_nd fs]
theorem itemsI_nd : ∀ x : IElem, noDicts (itemsI x) = true
  | .method _ ps rs => by ndsimp [buildFs_nd ps, itemsR_nd rs]
  | .embed t => by ndsimp [items_nd t]
theorem buildIs_nd : ∀ xs : List IElem, noDicts (buildIs xs) = true
  | [] => by simp [buildIs, noDicts]
  | x :: xs => by simp [buildIs, noDicts, noDict, itemsI_nd x, buildIs_nd xs]
theorem itemsS_nd : ∀ s : Stmt, noDicts (itemsS s) = true
  | .expr x => by ndsimp [items_nd x]
  | .assign lhs _ rhs => by ndsimp [buildEs_nd lhs, buildEs_nd rhs]
  | .incDec x _ => by ndsimp [items_nd x]
  | .send ch v => by ndsimp [items_nd ch, items_nd v]
  | .ret rs => by ndsimp [buildEs_nd rs]
  | .branch _ l => by ndsimp []
  | .block body => by ndsimp [buildSs_nd body]
  | .ifS init c body els => by
      have := itemsOS_nd init; have := itemsOS_nd els
      cases init <;> cases els <;>
        simp_all [itemsS, items_nd c, buildSs_nd body, grp, tokc, noDict, noDicts, noDicts_append]
  | .forS cond body => by
      have := itemsO_nd cond
      cases cond <;> simp_all [itemsS, buildSs_nd body, grp, noDict, noDicts]
  | .forClause init cond post body => by
      have := itemsOS_nd init; have := itemsO_nd cond; have := itemsOS_nd post
      cases init <;> cases cond <;> cases post <;>
        simp_all [itemsS, buildSs_nd body, grp, tokc, noDict, noDicts]
  | .range key value define x body => by
      have := itemsO_nd key; have := itemsO_nd value
      cases key <;> cases value <;>
        simp_all [itemsS, items_nd x, buildSs_nd body, grp, tokc, opTok, noDict, noDicts, noDicts_append]
  | .switch init tg cls => by
      have := itemsOS_nd init; have := itemsO_nd tg
      cases init <;> cases tg <;> simp_all [itemsS, buildCs_nd cls, grp, tokc, noDict, noDicts]
  | .typeSwitch init a cls => by
      have := itemsOS_nd init
      cases init <;> simp_all [itemsS, itemsS_nd a, buildCs_nd cls, grp, noDict, noDicts, noDicts_append]
  | .select cls => by ndsimp [buildCCs_nd cls]
  | .go x => by ndsimp [items_nd x]
  | .defer x => by ndsimp [items_nd x]
  | .decl d => by ndsimp [itemsG_nd d]
  | .labeled _ s => by ndsimp [itemsS_nd s]
theorem itemsOS_nd : ∀ o : Option Stmt, noDicts (itemsOS o) = true
  | none => by simp [itemsOS, noDicts]
  | some x => by simp [itemsOS, itemsS_nd x]
theorem buildSs_nd : ∀ xs : List Stmt, noDicts (buildSs xs) = true
  | [] => by simp [buildSs, noDicts]
  | x :: xs => by simp [buildSs, noDicts, noDict, itemsS_nd x, buildSs_nd xs]
theorem itemsC_nd : ∀ c : Clause, noDicts (itemsC c) = true
  | .mk xs body => by
      have := buildEs_nd xs
      cases xs <;> simp_all [itemsC, buildSs_nd body, grp, tokc, noDict, noDicts]
theorem buildCs_nd : ∀ xs : List Clause, noDicts (buildCs xs) = true
  | [] => by simp [buildCs, noDicts]
  | x :: xs => by simp [buildCs, noDicts, noDict, itemsC_nd x, buildCs_nd xs]
theorem itemsCC_nd : ∀ c : CommClause, noDicts (itemsCC c) = true
  | .mk comm body => by
      have := itemsOS_nd comm
      cases comm <;> simp_all [itemsCC, buildSs_nd body, grp, tokc, noDict, noDicts]
theorem buildCCs_nd : ∀ xs : List CommClause, noDicts (buildCCs xs) = true
  | [] => by simp [buildCCs, noDicts]
  | x :: xs => by simp [buildCCs, noDicts, noDict, itemsCC_nd x, buildCCs_nd xs]
theorem itemsSp_nd : ∀ s : Spec, noDicts (itemsSp s) = true
  | .value names t vals => by
      have := itemsO_nd t; have := buildEs_nd vals
      cases vals <;> simp_all [itemsSp, idList, grp, opTok, noDict, noDicts, noDicts_append, idNames_noDicts]
  | .type _ tps al t => by
      have := buildFs_nd tps
      cases tps <;> cases al <;>
        simp_all [itemsSp, items_nd t, grp, idTok, opTok, noDict, noDicts, noDicts_append]
theorem buildSps_nd : ∀ xs : List Spec, noDicts (buildSps xs) = true
  | [] => by simp [buildSps, noDicts]
  | x :: xs => by simp [buildSps, noDicts, noDict, itemsSp_nd x, buildSps_nd xs]
theorem itemsG_nd : ∀ d : GenDecl, noDicts (itemsG d) = true
  | .one _ s => by ndsimp [itemsSp_nd s]
  | .defs _ ss => by ndsimp [buildSps_nd ss]
end

theorem itemsD_nd : ∀ d : Decl, noDicts (itemsD d) = true
  | .func recv _ tps ps rs body => by
      have := buildFs_nd tps
      cases recv <;> cases tps <;>
        simp_all [itemsD, itemsF_nd, buildFs_nd ps, itemsR_nd rs, buildSs_nd body, grp, tokc, idTok,
          noDict, noDicts, noDicts_append]
  | .gen d => by simp [itemsD, itemsG_nd d]

/-- the documented builders never produce the misuse "Dict beside other items in Values" -/
theorem build_no_misuse (np : Str → Bool) (x : Expr) : misuse np (build x) = false :=
  misuse_of_noDict np _ (by simp [build, noDict, items_nd x])
theorem buildS_no_misuse (np : Str → Bool) (s : Stmt) : misuse np (buildS s) = false :=
  misuse_of_noDict np _ (by simp [buildS, noDict, itemsS_nd s])
theorem buildD_no_misuse (np : Str → Bool) (d : Decl) : misuse np (buildD d) = false :=
  misuse_of_noDict np _ (by simp [buildD, noDict, itemsD_nd d])
theorem buildFile_no_misuse (np : Str → Bool) (ds : List Decl) : misuse np (buildFile ds) = false := by
  apply misuse_of_noDict
  simp only [buildFile, noDict]
  induction ds with
  | nil => rfl
  | cons d ds ih => simp [noDicts, noDict, buildD, itemsD_nd d, ih]

end nomisuse

end PrinterEq
