import JenVerif.GenNames
import JenVerif.Lemmas.RegistryInv
/-
  C18, gennames clause: every entry of the produced table comes from a line of `go list` that
  passes the filters, under the un-vendored path; the first such line wins.
-/
namespace GenNamesLemmas
open GenNames RegistryInv

/-- every entry of the result is either already in the accumulator or produced by an admitted
    line whose un-vendored path is the key and whose package name is the value -/
theorem getPackages_sound (accepts : Str → Bool) (standard novendor : Bool) :
    ∀ (ls : List Line) (acc : List (Str × Str)) (p n : Str),
      (p, n) ∈ getPackages accepts standard novendor ls acc →
      (p, n) ∈ acc ∨ ∃ l ∈ ls, passesFilters accepts standard novendor l = true ∧ unvendorPath l.path = p ∧ l.name = n
  | [], acc, p, n, h => Or.inl h
  | l :: ls, acc, p, n, h => by
      rw [getPackages] at h
      have lift : ((p, n) ∈ acc ∨ ∃ l' ∈ ls, passesFilters accepts standard novendor l' = true ∧ unvendorPath l'.path = p ∧ l'.name = n) →
          ((p, n) ∈ acc ∨ ∃ l' ∈ l :: ls, passesFilters accepts standard novendor l' = true ∧ unvendorPath l'.path = p ∧ l'.name = n) := by
        intro h'
        rcases h' with h' | ⟨l', hm, h'⟩
        · exact Or.inl h'
        · exact Or.inr ⟨l', List.mem_cons_of_mem _ hm, h'⟩
      by_cases h1 : (l.standard != standard) = true
      · simp only [h1, if_true] at h; exact lift (getPackages_sound accepts standard novendor ls acc p n h)
      · simp only [h1, Bool.false_eq_true, if_false] at h
        by_cases h2 : (novendor && hasVendor l.path) = true
        · simp only [h2, if_true] at h; exact lift (getPackages_sound accepts standard novendor ls acc p n h)
        · simp only [h2, Bool.false_eq_true, if_false] at h
          by_cases h3 : (l.name == b!"main") = true
          · simp only [h3, if_true] at h; exact lift (getPackages_sound accepts standard novendor ls acc p n h)
          · simp only [h3, Bool.false_eq_true, if_false] at h
            by_cases h4 : (!accepts l.path) = true
            · simp only [h4, if_true] at h; exact lift (getPackages_sound accepts standard novendor ls acc p n h)
            · simp only [h4, Bool.false_eq_true, if_false] at h
              by_cases h5 : (((AList.lookup acc (unvendorPath l.path)).getD []) != []) = true
              · simp only [h5, if_true] at h; exact lift (getPackages_sound accepts standard novendor ls acc p n h)
              · simp only [h5, Bool.false_eq_true, if_false] at h
                rcases getPackages_sound accepts standard novendor ls _ p n h with h' | ⟨l', hm, h'⟩
                · rcases mem_insert h' with h'' | h''
                  · refine Or.inr ⟨l, List.mem_cons_self, ?_, ?_⟩
                    · simp only [passesFilters, Bool.and_eq_true, Bool.not_eq_true', bne_iff_ne, ne_eq, beq_iff_eq]
                      refine ⟨⟨⟨?_, ?_⟩, ?_⟩, ?_⟩
                      · simpa using h1
                      · simpa using h2
                      · simpa using h3
                      · simpa using h4
                    · have e : (p, n) = (unvendorPath l.path, l.name) := h''
                      cases e; exact ⟨rfl, rfl⟩
                  · exact Or.inl h''
                · exact Or.inr ⟨l', List.mem_cons_of_mem _ hm, h'⟩

/-- from an empty table: every entry (p, n) comes from an admitted line with `unvendor path = p`
    and package name n (in particular a standard package when `standard` is set, never `main`) -/
theorem gennames_lines (accepts : Str → Bool) (standard novendor : Bool) (ls : List Line) (p n : Str)
    (h : (p, n) ∈ getPackages accepts standard novendor ls []) :
    ∃ l ∈ ls, l.standard = standard ∧ l.name ≠ b!"main" ∧ accepts l.path = true ∧ unvendorPath l.path = p ∧ l.name = n := by
  rcases getPackages_sound accepts standard novendor ls [] p n h with h' | ⟨l, hm, ha, hp, hn⟩
  · cases h'
  · simp only [passesFilters, Bool.and_eq_true, beq_iff_eq, bne_iff_ne, ne_eq] at ha
    exact ⟨l, hm, ha.1.1.1, ha.1.2, ha.2, hp, hn⟩

-- the vendor rule on examples
example : unvendorPath b!"vendor/golang.org/x/net/idna" = b!"golang.org/x/net/idna" := by decide
example : unvendorPath b!"a/vendor/b/vendor/c" = b!"c" := by decide
example : unvendorPath b!"net/http" = b!"net/http" := by decide

end GenNamesLemmas
