import JenVerif.FileRender
/-
  T-R / T-X: the stateful renderer (which registers imports on the fly) equals the pure
  renderer under the FINAL naming; registered names never change (stability).
-/
namespace AList

theorem lookup_insert_self {β} (m : List (Str × β)) (k : Str) (v : β) :
    lookup (insert m k v) k = some v := by
  induction m with
  | nil => simp [insert, lookup]
  | cons e rest ih =>
    obtain ⟨k', v'⟩ := e
    by_cases h : (k' == k) = true
    · simp [insert, lookup, h]
    · simp [insert, lookup, h, ih]

theorem lookup_insert_ne {β} (m : List (Str × β)) (k q : Str) (v : β) (hq : (k == q) = false) :
    lookup (insert m k v) q = lookup m q := by
  induction m with
  | nil => simp [insert, lookup, hq]
  | cons e rest ih =>
    obtain ⟨k', v'⟩ := e
    by_cases h : (k' == k) = true
    · have hk : k' = k := by simpa using h
      subst hk
      simp [insert, lookup, hq]
    · simp [insert, lookup, h, ih]

end AList

namespace Refine
open Code Registry

structure SameStatic (f f' : FileS) : Prop where
  path : f'.path = f.path
  hints : f'.hints = f.hints
  pfx : f'.pfx = f.pfx

theorem SameStatic.refl (f : FileS) : SameStatic f f := ⟨rfl, rfl, rfl⟩
theorem SameStatic.trans {a b c : FileS} (h1 : SameStatic a b) (h2 : SameStatic b c) : SameStatic a c :=
  ⟨h2.path.trans h1.path, h2.hints.trans h1.hints, h2.pfx.trans h1.pfx⟩

/-- `f'` extends `f`: same static parts, every registered name kept, same package-token null-ness -/
structure Ext (f f' : FileS) : Prop where
  static : SameStatic f f'
  keep : ∀ p, isReg f p = true → lookupImp f' p = lookupImp f p
  np : ∀ p, f'.np p = f.np p

theorem Ext.refl (f : FileS) : Ext f f := ⟨SameStatic.refl f, fun _ _ => rfl, fun _ => rfl⟩

theorem isReg_of_lookup_eq {f f' : FileS} {p : Str} (h : lookupImp f' p = lookupImp f p) :
    isReg f' p = isReg f p := by simp [isReg, h]

theorem Ext.trans {a b c : FileS} (h1 : Ext a b) (h2 : Ext b c) : Ext a c := by
  refine ⟨h1.static.trans h2.static, ?_, fun p => (h2.np p).trans (h1.np p)⟩
  intro p hp
  have e1 := h1.keep p hp
  have hb : isReg b p = true := by rw [isReg_of_lookup_eq e1]; exact hp
  rw [h2.keep p hb, e1]

/-- the naming environment a file state provides to the pure renderer -/
def envOf (f : FileS) : Env := { np := f.np, name := fun p => (lookupImp f p).name }

/-- what the refinement needs from `register` (established from the registry invariant in
    `Lemmas/RegistryGood.lean`): on every state with the same hints/prefix/path, registering a
    non-local path leaves it registered under the returned name and changes no null-ness -/
def Good (cfg : Cfg) (f : FileS) : Prop :=
  ∀ f', SameStatic f f' → ∀ p, isLocal f' p = false →
    isReg (register cfg f' p).2 p = true ∧
    (register cfg f' p).1 = (lookupImp (register cfg f' p).2 p).name ∧
    ∀ q, (register cfg f' p).2.np q = f'.np q

theorem Good.of_static {cfg : Cfg} {f f' : FileS} (h : Good cfg f) (s : SameStatic f f') : Good cfg f' :=
  fun f'' s' p hp => h f'' (s.trans s') p hp

theorem register_static (cfg : Cfg) (f : FileS) (p : Str) : SameStatic f (register cfg f p).2 := by
  unfold register
  split
  · exact SameStatic.refl f
  · split
    · exact SameStatic.refl f
    · split <;> exact ⟨rfl, rfl, rfl⟩

theorem register_keep (cfg : Cfg) (f : FileS) (p q : Str) (hq : isReg f q = true) :
    lookupImp (register cfg f p).2 q = lookupImp f q := by
  unfold register
  split
  · rfl
  · split
    · rfl
    · rename_i h1 h2
      have hne : (p == q) = false := by
        cases hpq : (p == q)
        · rfl
        · have : p = q := by simpa using hpq
          subst this
          simp [hq] at h2
      split <;> simp [lookupImp, AList.lookup_insert_ne _ _ _ _ hne]

theorem register_ext (cfg : Cfg) (f : FileS) (hg : Good cfg f) (p : Str) : Ext f (register cfg f p).2 := by
  refine ⟨register_static cfg f p, fun q hq => register_keep cfg f p q hq, ?_⟩
  by_cases hl : isLocal f p = true
  · intro q; simp [register, hl]
  · have hl' : isLocal f p = false := by simpa using hl
    exact (hg f (SameStatic.refl f) p hl').2.2

mutual
theorem isNull_congr (np np' : Str → Bool) (h : ∀ p, np' p = np p) : ∀ c, isNull np' c = isNull np c
  | .nilc => by simp [isNull]
  | .tok k s => by cases k <;> simp [isNull, h]
  | .lit _ => by simp [isNull]
  | .group g items => by simp [isNull, allNull_congr np np' h items]
  | .stmt items => by simp [isNull, allNull_congr np np' h items]
  | .dict ps => by simp [isNull, dictNull_congr np np' h ps]
  | .tag _ => by simp [isNull]
  | .comment _ => by simp [isNull]
theorem allNull_congr (np np' : Str → Bool) (h : ∀ p, np' p = np p) : ∀ cs, allNull np' cs = allNull np cs
  | [] => by simp [allNull]
  | c :: cs => by simp [allNull, isNull_congr np np' h c, allNull_congr np np' h cs]
theorem dictNull_congr (np np' : Str → Bool) (h : ∀ p, np' p = np p) : ∀ ps, dictNull np' ps = dictNull np ps
  | [] => by simp [dictNull]
  | (k, v) :: ps => by
      simp [dictNull, isNull_congr np np' h k, isNull_congr np np' h v, dictNull_congr np np' h ps]
end

theorem isNull_ext {f f' : FileS} (h : Ext f f') (c : Code) : isNull f'.np c = isNull f.np c :=
  isNull_congr _ _ h.np c

theorem allNull_ext {f f' : FileS} (h : Ext f f') (cs : List Code) : allNull f'.np cs = allNull f.np cs :=
  allNull_congr _ _ h.np cs

/-- the stateful render of `c` from `f` stays below every later state, and its text is the pure
    render under any later naming -/
def Spec (cfg : Cfg) (f : FileS) (prev : Option Code) (c : Code) : Prop :=
  Ext f (renderS cfg f prev c).2 ∧
  ∀ f3, Ext (renderS cfg f prev c).2 f3 → (renderS cfg f prev c).1 = renderP cfg (envOf f3) prev c

/-- a render closure (as used for Dict keys and values) that satisfies `Spec` for a code `c` -/
structure ClosureOK (cfg : Cfg) (R : FileS → Str × FileS) (N : (Str → Bool) → Bool) (c : Code) : Prop where
  null : ∀ np, N np = isNull np c
  run : ∀ f, R f = renderS cfg f none c
  spec : ∀ f, Good cfg f → isNull f.np c = false → Spec cfg f none c

structure EntryOK (cfg : Cfg) (e : DEntry FileS) (k v : Code) : Prop where
  key : ClosureOK cfg e.kR e.kNull k
  val : ClosureOK cfg e.vR e.vNull v

inductive EntriesOK (cfg : Cfg) : List (DEntry FileS) → List (Code × Code) → Prop
  | nil : EntriesOK cfg [] []
  | cons {e es k v ps} : EntryOK cfg e k v → EntriesOK cfg es ps → EntriesOK cfg (e :: es) ((k, v) :: ps)

theorem good_of_ext {cfg : Cfg} {f f' : FileS} (hg : Good cfg f) (h : Ext f f') : Good cfg f' :=
  hg.of_static h.static

/-- what the first loop establishes about a kept triple: it comes from a pair (k, v) whose
    texts are the pure texts under every state later than `f` -/
def TripleOK (cfg : Cfg) (f : FileS) (t : Str × Str × DEntry FileS) : Prop :=
  ∃ k v, EntryOK cfg t.2.2 k v ∧ ∀ f3, Ext f f3 →
    isNull f3.np k = false ∧ isNull f3.np v = false ∧
    t.1 = renderP cfg (envOf f3) none k ∧ t.2.1 = renderP cfg (envOf f3) none v

theorem TripleOK.mono {cfg : Cfg} {f f' : FileS} {t} (h : TripleOK cfg f t) (e : Ext f f') : TripleOK cfg f' t := by
  obtain ⟨k, v, he, hall⟩ := h
  exact ⟨k, v, he, fun f3 h3 => hall f3 (e.trans h3)⟩

/-- first Dict loop: texts are the pure texts under any later naming, in pair order, nulls skipped -/
theorem dictLoop1_spec (cfg : Cfg) : ∀ (es : List (DEntry FileS)) (ps : List (Code × Code)) (f : FileS),
    Good cfg f → EntriesOK cfg es ps →
    Ext f (dictLoop1 FileS.np f es).2 ∧
    (∀ t ∈ (dictLoop1 FileS.np f es).1, TripleOK cfg (dictLoop1 FileS.np f es).2 t) ∧
    ∀ f3, Ext (dictLoop1 FileS.np f es).2 f3 →
      (dictLoop1 FileS.np f es).1.map (fun t => (t.1, t.2.1)) = dictPairsP cfg (envOf f3) ps
  | [], [], f, _, _ => by simp [dictLoop1, dictPairsP, Ext.refl]
  | e :: es, (k, v) :: ps, f, hg, .cons he hrest => by
      have hk := he.key
      have hv := he.val
      rw [dictLoop1]
      by_cases hn : (e.kNull f.np || e.vNull f.np) = true
      · have ih := dictLoop1_spec cfg es ps f hg hrest
        simp only [hn, if_true]
        refine ⟨ih.1, ih.2.1, ?_⟩
        intro f3 h3
        have hn3 : (isNull (envOf f3).np k || isNull (envOf f3).np v) = true := by
          show (isNull f3.np k || isNull f3.np v) = true
          rw [isNull_ext (ih.1.trans h3) k, isNull_ext (ih.1.trans h3) v, ← hk.null, ← hv.null]; exact hn
        simp only [dictPairsP, dictTextsP, hn3, if_true]
        exact ih.2.2 f3 h3
      · have hn' : (e.kNull f.np || e.vNull f.np) = false := by simpa using hn
        have hkn : isNull f.np k = false := by
          rw [← hk.null]; cases h : e.kNull f.np <;> simp_all
        have sk : Ext f (e.kR f).2 ∧ ∀ f3, Ext (e.kR f).2 f3 → (e.kR f).1 = renderP cfg (envOf f3) none k := by
          have := hk.spec f hg hkn
          unfold Spec at this
          rw [← hk.run f] at this
          exact this
        have hg1 := good_of_ext hg sk.1
        have hvn : isNull (e.kR f).2.np v = false := by
          rw [isNull_ext sk.1 v, ← hv.null]; cases h : e.vNull f.np <;> simp_all
        have sv : Ext (e.kR f).2 (e.vR (e.kR f).2).2 ∧
            ∀ f3, Ext (e.vR (e.kR f).2).2 f3 → (e.vR (e.kR f).2).1 = renderP cfg (envOf f3) none v := by
          have := hv.spec (e.kR f).2 hg1 hvn
          unfold Spec at this
          rw [← hv.run (e.kR f).2] at this
          exact this
        have hg2 := good_of_ext hg1 sv.1
        have ih := dictLoop1_spec cfg es ps (e.vR (e.kR f).2).2 hg2 hrest
        simp only [hn', Bool.false_eq_true, if_false]
        have facts : ∀ f3, Ext (dictLoop1 FileS.np (e.vR (e.kR f).2).2 es).2 f3 →
            isNull f3.np k = false ∧ isNull f3.np v = false ∧
            (e.kR f).1 = renderP cfg (envOf f3) none k ∧ (e.vR (e.kR f).2).1 = renderP cfg (envOf f3) none v := by
          intro f3 h3
          have e23 : Ext (e.vR (e.kR f).2).2 f3 := ih.1.trans h3
          have e13 : Ext (e.kR f).2 f3 := sv.1.trans e23
          refine ⟨?_, ?_, sk.2 f3 e13, sv.2 f3 e23⟩
          · rw [isNull_ext (sk.1.trans e13) k]; exact hkn
          · rw [isNull_ext e13 v]; exact hvn
        refine ⟨sk.1.trans (sv.1.trans ih.1), ?_, ?_⟩
        · intro t ht
          simp only [List.mem_cons] at ht
          cases ht with
          | inl h => subst h; exact ⟨k, v, he, facts⟩
          | inr h => exact ih.2.1 t h
        · intro f3 h3
          obtain ⟨hk3, hv3, tk, tv⟩ := facts f3 h3
          have hk3' : isNull (envOf f3).np k = false := hk3
          have hv3' : isNull (envOf f3).np v = false := hv3
          simp only [List.map_cons, dictPairsP, dictTextsP, hk3', hv3', Bool.or_false, Bool.false_eq_true, if_false]
          rw [tk, tv, ← ih.2.2 f3 h3]

/-- second Dict loop: re-rendering the sorted pairs reproduces their texts -/
theorem dictLoop2_spec (cfg : Cfg) (n : Nat) : ∀ (ts : List (Str × Str × DEntry FileS)) (first : Bool) (f : FileS),
    Good cfg f → (∀ t ∈ ts, TripleOK cfg f t) →
    Ext f (dictLoop2 n first f ts).2 ∧
    ∀ f3, Ext (dictLoop2 n first f ts).2 f3 →
      (dictLoop2 n first f ts).1 = dictBodyP n first (ts.map fun t => (t.1, t.2.1))
  | [], first, f, _, _ => by simp [dictLoop2, dictBodyP, Ext.refl]
  | t :: ts, first, f, hg, hall => by
      obtain ⟨k, v, he, hfacts⟩ := hall t (by simp)
      have hk := he.key
      have hv := he.val
      have hkn := (hfacts f (Ext.refl f)).1
      have hvn := (hfacts f (Ext.refl f)).2.1
      have sk : Ext f (t.2.2.kR f).2 ∧ ∀ f3, Ext (t.2.2.kR f).2 f3 → (t.2.2.kR f).1 = renderP cfg (envOf f3) none k := by
        have := hk.spec f hg hkn
        unfold Spec at this
        rw [← hk.run f] at this
        exact this
      have hg1 := good_of_ext hg sk.1
      have hvn1 : isNull (t.2.2.kR f).2.np v = false := by rw [isNull_ext sk.1 v]; exact hvn
      have sv : Ext (t.2.2.kR f).2 (t.2.2.vR (t.2.2.kR f).2).2 ∧
          ∀ f3, Ext (t.2.2.vR (t.2.2.kR f).2).2 f3 → (t.2.2.vR (t.2.2.kR f).2).1 = renderP cfg (envOf f3) none v := by
        have := hv.spec (t.2.2.kR f).2 hg1 hvn1
        unfold Spec at this
        rw [← hv.run (t.2.2.kR f).2] at this
        exact this
      have hg2 := good_of_ext hg1 sv.1
      have e02 : Ext f (t.2.2.vR (t.2.2.kR f).2).2 := sk.1.trans sv.1
      have ih := dictLoop2_spec cfg n ts false (t.2.2.vR (t.2.2.kR f).2).2 hg2
        (fun t' ht' => (hall t' (by simp [ht'])).mono e02)
      rw [dictLoop2]
      refine ⟨e02.trans ih.1, ?_⟩
      intro f3 h3
      have e23 : Ext (t.2.2.vR (t.2.2.kR f).2).2 f3 := ih.1.trans h3
      have e13 : Ext (t.2.2.kR f).2 f3 := sv.1.trans e23
      obtain ⟨_, _, tk', tv'⟩ := hfacts f3 (e02.trans e23)
      simp only [List.map_cons, dictBodyP]
      rw [sk.2 f3 e13, sv.2 f3 e23, ← tk', ← tv', ih.2 f3 h3]

theorem renderDict_spec (cfg : Cfg) (es : List (DEntry FileS)) (ps : List (Code × Code)) (f : FileS)
    (hg : Good cfg f) (hes : EntriesOK cfg es ps) :
    Ext f (renderDictWith FileS.np f es).2 ∧
    ∀ f3, Ext (renderDictWith FileS.np f es).2 f3 →
      (renderDictWith FileS.np f es).1 =
        dictBodyP ((dictPairsP cfg (envOf f3) ps).mergeSort dictLe).length true
          ((dictPairsP cfg (envOf f3) ps).mergeSort dictLe) := by
  have l1 := dictLoop1_spec cfg es ps f hg hes
  have hg1 := good_of_ext hg l1.1
  have hall : ∀ t ∈ (dictLoop1 FileS.np f es).1.mergeSort dictKeyLe, TripleOK cfg (dictLoop1 FileS.np f es).2 t :=
    fun t ht => l1.2.1 t (List.mem_mergeSort.mp ht)
  have l2 := dictLoop2_spec cfg ((dictLoop1 FileS.np f es).1.mergeSort dictKeyLe).length
    ((dictLoop1 FileS.np f es).1.mergeSort dictKeyLe) true (dictLoop1 FileS.np f es).2 hg1 hall
  simp only [renderDictWith]
  refine ⟨l1.1.trans l2.1, ?_⟩
  intro f3 h3
  rw [l2.2 f3 h3]
  have hm : ((dictLoop1 FileS.np f es).1.mergeSort dictKeyLe).map (fun t => (t.1, t.2.1)) =
      ((dictLoop1 FileS.np f es).1.map (fun t => (t.1, t.2.1))).mergeSort dictLe :=
    List.map_mergeSort (fun a _ b _ => rfl)
  rw [hm, l1.2.2 f3 (l2.1.trans h3)]
  simp [List.length_mergeSort]
  rw [← l1.2.2 f3 (l2.1.trans h3)]
  simp

/-- the only codes whose stateful and pure renderings can differ are NULL package tokens (the
    local path, a dot import): they are never rendered, only pre-registered -/
def PkgNonNull (f : FileS) : Code → Prop
  | .tok .pkg s => f.np s = false
  | _ => True

theorem pkgNonNull_of_nonNull (f : FileS) (c : Code) (h : isNull f.np c = false) : PkgNonNull f c := by
  unfold PkgNonNull
  split
  · simpa [isNull] using h
  · trivial

/-- the pre-registration step of `renderItems` -/
def preReg (cfg : Cfg) (f : FileS) (c : Code) : FileS :=
  match c with
  | .tok .pkg s => (register cfg f s).2
  | _ => f

theorem preReg_ext (cfg : Cfg) (f : FileS) (hg : Good cfg f) (c : Code) : Ext f (preReg cfg f c) := by
  unfold preReg
  split
  · exact register_ext cfg f hg _
  · exact Ext.refl f

theorem renderItemsS_cons (cfg : Cfg) (g : GInfo) (first : Bool) (f : FileS) (c : Code) (cs : List Code) :
    renderItemsS cfg g first f (c :: cs) =
      if isNull (preReg cfg f c).np c then renderItemsS cfg g first (preReg cfg f c) cs
      else
        (itemLead g first ++ (renderS cfg (preReg cfg f c) none c).1 ++
            (renderItemsS cfg g false (renderS cfg (preReg cfg f c) none c).2 cs).1,
          (renderItemsS cfg g false (renderS cfg (preReg cfg f c) none c).2 cs).2.1,
          (renderItemsS cfg g false (renderS cfg (preReg cfg f c) none c).2 cs).2.2) := by
  cases c with
  | tok k s => cases k <;> simp [renderItemsS, preReg]
  | _ => simp [renderItemsS, preReg]

mutual
theorem renderS_spec (cfg : Cfg) : ∀ (c : Code) (f : FileS) (prev : Option Code),
    Good cfg f → PkgNonNull f c → Spec cfg f prev c
  | .nilc, f, _, _, _ => ⟨by simpa [renderS] using Ext.refl f, by intro f3 _; simp [renderS, renderP]⟩
  | .tok k s, f, prev, hg, hn => by
      cases k
      case pkg =>
        have hl : isLocal f s = false := by
          simp only [PkgNonNull, FileS.np, Bool.or_eq_false_iff] at hn
          exact hn.2
        have hr := hg f (SameStatic.refl f) s hl
        refine ⟨by simpa [renderS] using register_ext cfg f hg s, ?_⟩
        intro f3 h3
        have h3' : Ext (register cfg f s).2 f3 := by simpa [renderS] using h3
        simp only [renderS, renderP, envOf]
        rw [hr.2.1, h3'.keep s hr.1]
      all_goals exact ⟨by simpa [renderS] using Ext.refl f, by intro f3 _; simp [renderS, renderP]⟩
  | .lit v, f, prev, _, _ => ⟨by simpa [renderS] using Ext.refl f, by intro f3 _; simp [renderS, renderP]⟩
  | .tag items, f, prev, _, _ => ⟨by simpa [renderS] using Ext.refl f, by intro f3 _; simp [renderS, renderP]⟩
  | .comment t, f, prev, _, _ => ⟨by simpa [renderS] using Ext.refl f, by intro f3 _; simp [renderS, renderP]⟩
  | .group g items, f, prev, hg, _ => by
      unfold Spec
      by_cases ht : (g.name == b!"types" && allNull f.np items) = true
      · have e : renderS cfg f prev (.group g items) = ([], f) := by simp [renderS, ht]
        rw [e]
        refine ⟨Ext.refl f, ?_⟩
        intro f3 h3
        have ht3 : (g.name == b!"types" && allNull (envOf f3).np items) = true := by
          show (g.name == b!"types" && allNull f3.np items) = true
          rw [allNull_ext h3 items]; exact ht
        simp [renderP, ht3]
      · have ht' : (g.name == b!"types" && allNull f.np items) = false := by simpa using ht
        have h := renderItemsS_spec cfg items g true f hg
        have e : renderS cfg f prev (.group g items) =
            ((effDelims g prev).1 ++ (renderItemsS cfg g true f items).1 ++
              closeSep g (effDelims g prev).2 (renderItemsS cfg g true f items).2.1 ++ (effDelims g prev).2,
             (renderItemsS cfg g true f items).2.2) := by
          simp [renderS, ht']
        rw [e]
        refine ⟨h.1, ?_⟩
        intro f3 h3
        have ht3 : (g.name == b!"types" && allNull (envOf f3).np items) = false := by
          show (g.name == b!"types" && allNull f3.np items) = false
          rw [allNull_ext (h.1.trans h3) items]; exact ht'
        have := h.2 f3 h3
        simp only [renderP, ht3, Bool.false_eq_true, if_false]
        rw [this.1, this.2]
  | .stmt items, f, prev, hg, _ => by
      have h := renderStmtS_spec cfg items true none f hg
      unfold Spec
      refine ⟨by simpa [renderS] using h.1, ?_⟩
      intro f3 h3
      simpa [renderS, renderP] using h.2 f3 (by simpa [renderS] using h3)
  | .dict ps, f, prev, hg, _ => by
      have h := renderDict_spec cfg (dictEntriesS cfg ps) ps f hg (dictEntries_ok cfg ps)
      unfold Spec
      refine ⟨by simpa [renderS] using h.1, ?_⟩
      intro f3 h3
      simpa [renderS, renderP] using h.2 f3 (by simpa [renderS] using h3)
theorem renderItemsS_spec (cfg : Cfg) : ∀ (cs : List Code) (g : GInfo) (first : Bool) (f : FileS), Good cfg f →
    Ext f (renderItemsS cfg g first f cs).2.2 ∧
    ∀ f3, Ext (renderItemsS cfg g first f cs).2.2 f3 →
      (renderItemsS cfg g first f cs).1 = (renderItemsP cfg (envOf f3) g first cs).1 ∧
      (renderItemsS cfg g first f cs).2.1 = (renderItemsP cfg (envOf f3) g first cs).2
  | [], g, first, f, _ => by simp [renderItemsS, renderItemsP, Ext.refl]
  | c :: cs, g, first, f, hg => by
      have he0 := preReg_ext cfg f hg c
      have hg0 := good_of_ext hg he0
      rw [renderItemsS_cons]
      by_cases hn : isNull (preReg cfg f c).np c = true
      · have ih := renderItemsS_spec cfg cs g first (preReg cfg f c) hg0
        simp only [hn, if_true]
        refine ⟨he0.trans ih.1, ?_⟩
        intro f3 h3
        have hn3 : isNull (envOf f3).np c = true := by
          show isNull f3.np c = true
          rw [isNull_ext (ih.1.trans h3) c]; exact hn
        simpa [renderItemsP, hn3] using ih.2 f3 h3
      · have hn' : isNull (preReg cfg f c).np c = false := by simpa using hn
        have h1 := renderS_spec cfg c (preReg cfg f c) none hg0 (pkgNonNull_of_nonNull _ c hn')
        unfold Spec at h1
        have hg1 := good_of_ext hg0 h1.1
        have ih := renderItemsS_spec cfg cs g false (renderS cfg (preReg cfg f c) none c).2 hg1
        simp only [hn', Bool.false_eq_true, if_false]
        refine ⟨he0.trans (h1.1.trans ih.1), ?_⟩
        intro f3 h3
        have hn3 : isNull (envOf f3).np c = false := by
          show isNull f3.np c = false
          rw [isNull_ext (h1.1.trans (ih.1.trans h3)) c]; exact hn'
        have e1 := h1.2 f3 (ih.1.trans h3)
        have e2 := ih.2 f3 h3
        simp only [renderItemsP, hn3, Bool.false_eq_true, if_false]
        rw [e1, e2.1, e2.2]
        exact ⟨rfl, rfl⟩
theorem renderStmtS_spec (cfg : Cfg) : ∀ (cs : List Code) (first : Bool) (prev : Option Code) (f : FileS), Good cfg f →
    Ext f (renderStmtS cfg first prev f cs).2 ∧
    ∀ f3, Ext (renderStmtS cfg first prev f cs).2 f3 →
      (renderStmtS cfg first prev f cs).1 = renderStmtP cfg (envOf f3) first prev cs
  | [], first, prev, f, _ => by simp [renderStmtS, renderStmtP, Ext.refl]
  | c :: cs, first, prev, f, hg => by
      rw [renderStmtS]
      by_cases hn : isNull f.np c = true
      · have ih := renderStmtS_spec cfg cs first (some c) f hg
        simp only [hn, if_true]
        refine ⟨ih.1, ?_⟩
        intro f3 h3
        have hn3 : isNull (envOf f3).np c = true := by
          show isNull f3.np c = true
          rw [isNull_ext (ih.1.trans h3) c]; exact hn
        simpa [renderStmtP, hn3] using ih.2 f3 h3
      · have hn' : isNull f.np c = false := by simpa using hn
        have h1 := renderS_spec cfg c f prev hg (pkgNonNull_of_nonNull _ c hn')
        unfold Spec at h1
        have hg1 := good_of_ext hg h1.1
        have ih := renderStmtS_spec cfg cs false (some c) (renderS cfg f prev c).2 hg1
        simp only [hn', Bool.false_eq_true, if_false]
        refine ⟨h1.1.trans ih.1, ?_⟩
        intro f3 h3
        have hn3 : isNull (envOf f3).np c = false := by
          show isNull f3.np c = false
          rw [isNull_ext (h1.1.trans (ih.1.trans h3)) c]; exact hn'
        have e1 := h1.2 f3 (ih.1.trans h3)
        have e2 := ih.2 f3 h3
        simp only [renderStmtP, hn3, Bool.false_eq_true, if_false]
        rw [e1, e2]
theorem dictEntries_ok (cfg : Cfg) : ∀ ps : List (Code × Code), EntriesOK cfg (dictEntriesS cfg ps) ps
  | [] => by simp [dictEntriesS]; exact .nil
  | (k, v) :: ps => by
      rw [dictEntriesS]
      exact .cons
        ⟨⟨fun _ => rfl, fun _ => rfl, fun f hg hn => renderS_spec cfg k f none hg (pkgNonNull_of_nonNull _ k hn)⟩,
         ⟨fun _ => rfl, fun _ => rfl, fun f hg hn => renderS_spec cfg v f none hg (pkgNonNull_of_nonNull _ v hn)⟩⟩
        (dictEntries_ok cfg ps)
end

/-- T-R for a whole file: the unformatted source is head ++ import block ++ PURE rendering of the
    body, all three under the FINAL registry `f1`; and `f1` extends the initial state -/
theorem renderFileRaw_pure (cfg : Cfg) (f : FileS) (body : List Code) (hg : Good cfg f) :
    let f1 := (renderFileRaw cfg f body).2
    Ext f f1 ∧
    (renderFileRaw cfg f body).1 =
      fileHead cfg.isPrint f1 ++ renderImports cfg.isPrint f1 ++ renderP cfg (envOf f1) none (.group fileInfo body) := by
  have h := renderS_spec cfg (.group fileInfo body) f none hg trivial
  unfold Spec at h
  simp only [renderFileRaw]
  exact ⟨h.1, by rw [h.2 _ (Ext.refl _)]⟩

/-- T-X over repeated renders: a second render from the state the first one left produces the
    same body text (names are stable, null-ness is stable) -/
theorem rerender_same (cfg : Cfg) (f : FileS) (prev : Option Code) (c : Code) (hg : Good cfg f) (hn : PkgNonNull f c) :
    let f1 := (renderS cfg f prev c).2
    (renderS cfg f1 prev c).1 = (renderS cfg f prev c).1 ∧ Ext f1 (renderS cfg f1 prev c).2 := by
  have h1 := renderS_spec cfg c f prev hg hn
  unfold Spec at h1
  have hg1 := good_of_ext hg h1.1
  have hn1 : PkgNonNull (renderS cfg f prev c).2 c := by
    unfold PkgNonNull at hn ⊢
    split
    · rename_i s
      simp only at hn
      rw [h1.1.np s]; exact hn
    · trivial
  have h2 := renderS_spec cfg c (renderS cfg f prev c).2 prev hg1 hn1
  unfold Spec at h2
  refine ⟨?_, h2.1⟩
  rw [h2.2 _ (Ext.refl _), h1.2 _ h2.1]

end Refine
