import JenVerif.Lemmas.RegistryInv
import JenVerif.Lemmas.Refine
/-
  Bridge between the registry invariants and the refinement theorem: under the hint guard,
  `register` never changes the null-ness of any package token, hence `Refine.Good` holds.
-/
namespace RegistryGood
open Registry RegistryInv Refine

def hintDot (f : FileS) (p : Str) : Bool := (lookupHint f p).name == b!"." && (lookupHint f p).alias

theorem ident_ne_dot {n : Str} (h : isIdent n = true) : n ≠ b!"." := by
  intro e; rw [e] at h; revert h; decide

theorem pcand_ne_dot (f : FileS) {n : Str} (hn : n ≠ b!".") (hn0 : n ≠ []) (a : Bool) (i : Nat) : pcand f n a i ≠ b!"." := by
  have hc : candidate n i ≠ b!"." := by
    by_cases hi : i = 0
    · subst hi; exact hn
    · exact candidate_pos_ne_dot n hi
  unfold pcand
  rcases prefixed_cases f (candidate n i) (a || i != 0) with h | ⟨_, h⟩
  · rw [h]; exact hc
  · rw [h]
    intro e
    have : (f.pfx ++ b!"_" ++ candidate n i).length = 1 := by rw [e]; rfl
    have hl := candidate_length n i
    have : 0 < n.length := List.length_pos_iff.mpr hn0
    simp at *
    omega

/-- the name chosen for a new path is "." exactly when the user asked for a dot import -/
theorem chooseDef_dot_iff {cfg : Cfg} {f : FileS} (hH : HintsOk f) (hS : StdOk cfg) (p : Str) :
    ((chooseDef cfg f p).name == b!".") = hintDot f p := by
  rcases chooseBase_ok hH hS p with ⟨h1, h2⟩ | ⟨h1, _⟩
  · -- base is (".", alias): accepted at index 0
    have hacc : acceptable cfg f b!"." true 0 = true := by
      simp [acceptable, candidate, isValidAlias, prefixed]
    have hs := uniqLoop_spec cfg f b!"." true
    have hi : uniqLoop cfg f b!"." true (uniqFuel cfg f) 0 = 0 := by
      by_cases h0 : uniqLoop cfg f b!"." true (uniqFuel cfg f) 0 = 0
      · exact h0
      · have := hs.2 0 (Nat.pos_of_ne_zero h0)
        rw [hacc] at this; cases this
    have hname : (chooseDef cfg f p).name = b!"." := by
      rw [chooseDef_eq, h1, h2, hi]
      simp [pcand, candidate, prefixed]
    -- and the hint is the dot alias
    have hd : hintDot f p = true := by
      by_cases hh : ((lookupHint f p).name != []) = true
      · have e : chooseBase cfg f p = ((lookupHint f p).name, (lookupHint f p).alias) := by
          simp [chooseBase, hh]
        rw [e] at h1 h2
        simp only at h1 h2
        simp [hintDot, h1, h2]
      · exfalso
        have hh' : ((lookupHint f p).name != []) = false := by simpa using hh
        by_cases hs : (stdHint cfg p != []) = true
        · have e : chooseBase cfg f p = (stdHint cfg p, false) := by simp [chooseBase, hh', hs]
          rw [e] at h2
          simp at h2
        · have hs' : (stdHint cfg p != []) = false := by simpa using hs
          have e : chooseBase cfg f p = (guessAlias cfg.toLower p, true) := by simp [chooseBase, hh', hs']
          rw [e] at h1
          exact ident_ne_dot (guessAlias_ident _ _) h1
    rw [hname, hd]; rfl
  · -- base is an identifier: the final name is never "."
    have hne : (chooseDef cfg f p).name ≠ b!"." := by
      rw [chooseDef_eq]
      exact pcand_ne_dot f (ident_ne_dot h1) (isIdent_ne_nil h1) _ _
    have hd : hintDot f p = false := by
      by_cases hh : ((lookupHint f p).name != []) = true
      · have e : chooseBase cfg f p = ((lookupHint f p).name, (lookupHint f p).alias) := by
          simp [chooseBase, hh]
        rw [e] at h1
        simp only at h1
        have := ident_ne_dot h1
        simp [hintDot, this]
      · have : (lookupHint f p).name = [] := by simpa using hh
        simp [hintDot, this]
    rw [hd]
    simpa using hne

theorem isDotImport_unreg {f : FileS} {p : Str} (hC : p ≠ b!"C") (h : isReg f p = false) :
    isDotImport f p = hintDot f p := by
  simp [isDotImport, hC, h, hintDot]

/-- `register` never changes the null-ness of any package token -/
theorem register_np {cfg : Cfg} {f : FileS} (hH : HintsOk f) (hS : StdOk cfg) (p q : Str) :
    (register cfg f p).2.np q = f.np q := by
  have hfr := register_frame cfg f p
  have hpath : (register cfg f p).2.path = f.path := hfr.2.2.1
  have hhints : (register cfg f p).2.hints = f.hints := hfr.1
  unfold FileS.np
  have hloc : isLocal (register cfg f p).2 q = isLocal f q := by simp [isLocal, hpath]
  rw [hloc]
  congr 1
  by_cases hC : q = b!"C"
  · simp [isDotImport, hC]
  by_cases hl : isLocal f p = true
  · rw [register_local hl]
  have hl' : isLocal f p = false := by simpa using hl
  by_cases hr : isReg f p = true
  · rw [register_reg hl' hr]
  have hr' : isReg f p = false := by simpa using hr
  by_cases hqp : q = p
  · subst hqp
    have hreg := register_isReg (cfg := cfg) hH hS hl'
    rw [isDotImport_unreg hC hr']
    have e1 : isDotImport (register cfg f q).2 q = ((lookupImp (register cfg f q).2 q).name == b!".") := by
      simp [isDotImport, hC, hreg]
    rw [e1, register_new hl' hr' hC]
    simp only [lookupImp_insert_self]
    exact chooseDef_dot_iff hH hS q
  · have hk : lookupImp (register cfg f p).2 q = lookupImp f q := register_other hqp
    have hh : lookupHint (register cfg f p).2 q = lookupHint f q := by simp [lookupHint, hhints]
    simp [isDotImport, isReg, hk, hh]

theorem hintsOk_static {f f' : FileS} (h : HintsOk f) (s : SameStatic f f') : HintsOk f' :=
  hintsOk_congr s.hints s.pfx h

/-- the refinement's requirement on `register` follows from the hint guard -/
theorem good_of_hintsOk {cfg : Cfg} {f : FileS} (hH : HintsOk f) (hS : StdOk cfg) : Good cfg f := by
  intro f' s p hl
  have hH' := hintsOk_static hH s
  have hr := register_returns_stored (cfg := cfg) hH' hS hl
  exact ⟨register_isReg hH' hS hl, hr.1.symm, fun q => register_np hH' hS p q⟩

end RegistryGood
