import JenVerif.Spec.GoLex
/-
  Round trip of `strconv.Quote` / `strconv.QuoteRune` / back-quoted strings through the Go
  *language-specification* readers of `JenVerif/Spec/GoLex.lean`, for ALL byte strings
  (including invalid UTF-8), for an arbitrary `isPrint` satisfying `Quote.PSafe`.

  Main results (namespace `QuoteRT`):
    decode_encode, decode_valid, encode_decode, decode_width   -- UTF-8 codec facts
    readItem_escapeRune                                         -- one escape reads back
    string_roundtrip, rune_roundtrip, raw_roundtrip
    string_one_line, string_src_line, string_scan_line, quote_pieces
  Core Lean only; no axioms beyond propext / Quot.sound / Classical.choice.
-/

namespace QuoteRT
open Quote GoLex

/-! ### UTF-8 codec: `decodeRune` / `encodeRune` are mutually inverse -/

theorem ofNat_eq_of_toNat (b : UInt8) (n : Nat) (h : n = b.toNat) : UInt8.ofNat n = b := by
  subst h; exact UInt8.ofNat_toNat

theorem validRune_iff (r : Nat) : validRune r = true ↔ (r < 0xD800 ∨ (0xDFFF < r ∧ r ≤ 0x10FFFF)) := by
  unfold validRune maxRune
  simp

theorem isCont_iff (b : UInt8) : isCont b = true ↔ (0x80 ≤ b.toNat ∧ b.toNat ≤ 0xBF) := by
  unfold isCont
  simp [UInt8.le_iff_toNat_le]

theorem encodeRune_1 (r : Nat) (h : r < 0x80) : encodeRune r = [UInt8.ofNat r] := by
  have hv : validRune r = true := by rw [validRune_iff]; omega
  simp only [encodeRune, hv, if_true, h]

theorem encodeRune_2 (r : Nat) (h1 : 0x80 ≤ r) (h : r < 0x800) :
    encodeRune r = [UInt8.ofNat (0xC0 + r / 64), UInt8.ofNat (0x80 + r % 64)] := by
  have hv : validRune r = true := by rw [validRune_iff]; omega
  have h0 : ¬ r < 0x80 := by omega
  simp only [encodeRune, hv, if_true, h, h0, if_false]

theorem encodeRune_3 (r : Nat) (h1 : 0x800 ≤ r) (h : r < 0x10000) (hv : validRune r = true) :
    encodeRune r = [UInt8.ofNat (0xE0 + r / 4096), UInt8.ofNat (0x80 + (r / 64) % 64),
      UInt8.ofNat (0x80 + r % 64)] := by
  have h0 : ¬ r < 0x80 := by omega
  have h2 : ¬ r < 0x800 := by omega
  simp only [encodeRune, hv, if_true, h, h0, h2, if_false]

theorem encodeRune_4 (r : Nat) (h1 : 0x10000 ≤ r) (h : r ≤ 0x10FFFF) :
    encodeRune r = [UInt8.ofNat (0xF0 + r / 262144), UInt8.ofNat (0x80 + (r / 4096) % 64),
     UInt8.ofNat (0x80 + (r / 64) % 64), UInt8.ofNat (0x80 + r % 64)] := by
  have hv : validRune r = true := by rw [validRune_iff]; omega
  have h0 : ¬ r < 0x80 := by omega
  have h2 : ¬ r < 0x800 := by omega
  have h3 : ¬ r < 0x10000 := by omega
  simp only [encodeRune, hv, if_true, h0, h2, h3, if_false]

theorem ite_beq_toNat (b c x y : UInt8) :
    (if (b == c) = true then x else y).toNat = if b.toNat = c.toNat then x.toNat else y.toNat := by
  by_cases hc : b = c
  · subst hc; simp
  · have : b.toNat ≠ c.toNat := fun h => hc (UInt8.toNat_inj.mp h)
    simp [hc, this]

theorem ite_lo (b c x y : UInt8) (n : Nat) :
    (if (b == c) = true then x else y).toNat ≤ n ↔
      ((b.toNat = c.toNat → x.toNat ≤ n) ∧ (b.toNat ≠ c.toNat → y.toNat ≤ n)) := by
  rw [ite_beq_toNat]; split <;> simp [*]

theorem ite_hi (b c x y : UInt8) (n : Nat) :
    n ≤ (if (b == c) = true then x else y).toNat ↔
      ((b.toNat = c.toNat → n ≤ x.toNat) ∧ (b.toNat ≠ c.toNat → n ≤ y.toNat)) := by
  rw [ite_beq_toNat]; split <;> simp [*]

theorem pair_eq {a c : Nat} {b d : Nat} (h : (a, b) = (c, d)) : c = a ∧ d = b := by
  cases h; exact ⟨rfl, rfl⟩

theorem ite_good {c : Bool} {a : Nat × Nat} {r w : Nat}
    (h : (if c = true then a else (runeError, 1)) = (r, w)) (hv : ¬ (w = 1 ∧ r = runeError)) :
    c = true ∧ a = (r, w) := by
  cases c
  · exact absurd (pair_eq h) (fun h'' => hv ⟨h''.2, h''.1⟩)
  · exact ⟨rfl, h⟩

theorem decode_encode (b0 : UInt8) (rest : Str) (r w : Nat)
    (h : decodeRune (b0 :: rest) = (r, w)) (hv : ¬ (w = 1 ∧ r = runeError)) :
    validRune r = true ∧ encodeRune r = (b0 :: rest).take w := by
  have hb0 := b0.toNat_lt
  have bad : ∀ {P : Prop}, (runeError, 1) = (r, w) → P := fun h' =>
    absurd (pair_eq h') (fun h'' => hv ⟨h''.2, h''.1⟩)
  unfold decodeRune at h
  simp only [UInt8.lt_iff_toNat_lt, UInt8.le_iff_toNat_le, UInt8.reduceToNat] at h
  split at h
  · obtain ⟨hr, hw⟩ := pair_eq h
    refine ⟨by rw [validRune_iff]; omega, ?_⟩
    rw [encodeRune_1 _ (by omega), hr, hw, UInt8.ofNat_toNat]; rfl
  split at h
  · exact bad h
  split at h
  · split at h
    · rename_i b1 t
      obtain ⟨hc, h⟩ := ite_good h hv
      rw [isCont_iff] at hc
      obtain ⟨hr, hw⟩ := pair_eq h
      have hb1 := b1.toNat_lt
      refine ⟨by rw [validRune_iff]; omega, ?_⟩
      rw [encodeRune_2 r (by omega) (by omega), hw,
        ofNat_eq_of_toNat b0 _ (by omega), ofNat_eq_of_toNat b1 _ (by omega)]; rfl
    · exact bad h
  split at h
  · split at h
    · rename_i b1 b2 t
      obtain ⟨hc, h⟩ := ite_good h hv
      simp only [ite_lo, ite_hi, UInt8.reduceToNat, Bool.and_eq_true, decide_eq_true_eq, isCont_iff] at hc
      obtain ⟨hr, hw⟩ := pair_eq h
      have hb1 := b1.toNat_lt
      have hb2 := b2.toNat_lt
      have hvr : validRune r = true := by rw [validRune_iff]; omega
      refine ⟨hvr, ?_⟩
      rw [encodeRune_3 r (by omega) (by omega) hvr, hw,
        ofNat_eq_of_toNat b0 _ (by omega), ofNat_eq_of_toNat b1 _ (by omega),
        ofNat_eq_of_toNat b2 _ (by omega)]; rfl
    · exact bad h
  split at h
  · split at h
    · rename_i b1 b2 b3 t
      obtain ⟨hc, h⟩ := ite_good h hv
      simp only [ite_lo, ite_hi, UInt8.reduceToNat, Bool.and_eq_true, decide_eq_true_eq, isCont_iff] at hc
      obtain ⟨hr, hw⟩ := pair_eq h
      have hb1 := b1.toNat_lt
      have hb2 := b2.toNat_lt
      have hb3 := b3.toNat_lt
      have hvr : validRune r = true := by rw [validRune_iff]; omega
      refine ⟨hvr, ?_⟩
      rw [encodeRune_4 r (by omega) (by omega), hw,
        ofNat_eq_of_toNat b0 _ (by omega), ofNat_eq_of_toNat b1 _ (by omega),
        ofNat_eq_of_toNat b2 _ (by omega), ofNat_eq_of_toNat b3 _ (by omega)]; rfl
    · exact bad h
  · exact bad h
/-- the form asked for: a decode of width > 1, or of width 1 below 0x80, is a valid code point
    whose encoding is exactly the consumed bytes -/
theorem decode_valid (b0 : UInt8) (rest : Str) (r w : Nat)
    (h : decodeRune (b0 :: rest) = (r, w)) (hw : 1 < w ∨ (w = 1 ∧ r < 0x80)) :
    validRune r = true ∧ encodeRune r = (b0 :: rest).take w :=
  decode_encode b0 rest r w h (by unfold runeError; omega)

theorem decodeRune_1 (b0 : UInt8) (t : Str) (r : Nat) (h0 : b0.toNat = r) (hr : r < 0x80) :
    decodeRune (b0 :: t) = (r, 1) := by
  unfold decodeRune
  simp only [UInt8.lt_iff_toNat_lt, UInt8.le_iff_toNat_le, UInt8.reduceToNat]
  rw [if_pos (by omega), h0]

theorem decodeRune_2 (b0 b1 : UInt8) (t : Str) (r : Nat)
    (h0 : b0.toNat = 0xC0 + r / 64) (h1 : b1.toNat = 0x80 + r % 64) (hr1 : 0x80 ≤ r) (hr : r < 0x800) :
    decodeRune (b0 :: b1 :: t) = (r, 2) := by
  unfold decodeRune
  simp only [UInt8.lt_iff_toNat_lt, UInt8.le_iff_toNat_le, UInt8.reduceToNat]
  rw [if_neg (by omega), if_neg (by omega), if_pos (by omega)]
  have hc : isCont b1 = true := by rw [isCont_iff]; omega
  simp only [hc, if_true]
  simp only [Prod.mk.injEq, and_true]
  omega

theorem decodeRune_3 (b0 b1 b2 : UInt8) (t : Str) (r : Nat)
    (h0 : b0.toNat = 0xE0 + r / 4096) (h1 : b1.toNat = 0x80 + (r / 64) % 64)
    (h2 : b2.toNat = 0x80 + r % 64) (hr1 : 0x800 ≤ r) (hr : r < 0x10000) (hv : validRune r = true) :
    decodeRune (b0 :: b1 :: b2 :: t) = (r, 3) := by
  unfold decodeRune
  simp only [UInt8.lt_iff_toNat_lt, UInt8.le_iff_toNat_le, UInt8.reduceToNat]
  rw [if_neg (by omega), if_neg (by omega), if_neg (by omega), if_pos (by omega)]
  have hc : (decide ((if (b0 == 224) = true then (160:UInt8) else 128).toNat ≤ b1.toNat) &&
              decide (b1.toNat ≤ (if (b0 == 237) = true then (159:UInt8) else 191).toNat) &&
            isCont b2) = true := by
    simp only [ite_lo, ite_hi, UInt8.reduceToNat, Bool.and_eq_true, decide_eq_true_eq, isCont_iff]
    rw [validRune_iff] at hv
    omega
  rw [if_pos hc]
  simp only [Prod.mk.injEq, and_true]
  omega

theorem decodeRune_4 (b0 b1 b2 b3 : UInt8) (t : Str) (r : Nat)
    (h0 : b0.toNat = 0xF0 + r / 262144) (h1 : b1.toNat = 0x80 + (r / 4096) % 64)
    (h2 : b2.toNat = 0x80 + (r / 64) % 64)
    (h3 : b3.toNat = 0x80 + r % 64) (hr1 : 0x10000 ≤ r) (hr : r ≤ 0x10FFFF) :
    decodeRune (b0 :: b1 :: b2 :: b3 :: t) = (r, 4) := by
  unfold decodeRune
  simp only [UInt8.lt_iff_toNat_lt, UInt8.le_iff_toNat_le, UInt8.reduceToNat]
  rw [if_neg (by omega), if_neg (by omega), if_neg (by omega), if_neg (by omega), if_pos (by omega)]
  have hc : (decide ((if (b0 == 240) = true then (144:UInt8) else 128).toNat ≤ b1.toNat) &&
              decide (b1.toNat ≤ (if (b0 == 244) = true then (143:UInt8) else 191).toNat) &&
            isCont b2 && isCont b3) = true := by
    simp only [ite_lo, ite_hi, UInt8.reduceToNat, Bool.and_eq_true, decide_eq_true_eq, isCont_iff]
    omega
  rw [if_pos hc]
  simp only [Prod.mk.injEq, and_true]
  omega
/-! ### hex digits and escapes -/

theorem hexVal_hexDigit : ∀ n, n < 16 → hexVal (Str.hexDigit n) = some n := by decide

theorem readHex_congr (n : Nat) (more : Str) {x y : Nat} (h : x = y) :
    readHex n x more = readHex n y more := by rw [h]

theorem readHex_hex2 (n acc b : Nat) (more : Str) (hb : b < 256) :
    readHex (n + 2) acc (hex2 b ++ more) = readHex n (acc * 256 + b) more := by
  have h1 := hexVal_hexDigit (b / 16 % 16) (by omega)
  have h2 := hexVal_hexDigit (b % 16) (by omega)
  simp only [hex2, List.cons_append, List.nil_append, readHex, h1, h2]
  apply readHex_congr
  omega

theorem readHex_hex4 (n acc r : Nat) (more : Str) (hr : r < 65536) :
    readHex (n + 4) acc (hex4 r ++ more) = readHex n (acc * 65536 + r) more := by
  unfold hex4
  rw [List.append_assoc, readHex_hex2 (n + 2) acc _ _ (by omega), readHex_hex2 n _ _ _ (by omega)]
  apply readHex_congr
  omega

theorem readHex_hex8 (n acc r : Nat) (more : Str) (hr : r < 65536 * 65536) :
    readHex (n + 8) acc (hex8 r ++ more) = readHex n (acc * (65536 * 65536) + r) more := by
  unfold hex8
  rw [List.append_assoc, readHex_hex4 (n + 4) acc _ _ (by omega), readHex_hex4 n _ _ _ (by omega)]
  apply readHex_congr
  omega

theorem readEscape_x (q : UInt8) (s : Str) : readEscape q (0x78 :: s) =
    match readHex 2 0 s with
      | some (v, rest) => some (.byte (UInt8.ofNat v), rest)
      | none => none := rfl
theorem readEscape_u (q : UInt8) (s : Str) : readEscape q (0x75 :: s) =
      match readHex 4 0 s with
      | some (v, rest) => if validCodePoint v then some (.rune v, rest) else none
      | none => none := rfl
theorem readEscape_U (q : UInt8) (s : Str) : readEscape q (0x55 :: s) =
      match readHex 8 0 s with
      | some (v, rest) => if validCodePoint v then some (.rune v, rest) else none
      | none => none := rfl

theorem validCodePoint_eq (r : Nat) : validCodePoint r = validRune r := by
  rw [Bool.eq_iff_iff, validRune_iff]
  unfold validCodePoint
  simp only [Bool.and_eq_true, decide_eq_true_eq, Bool.not_eq_true', Bool.and_eq_false_iff, decide_eq_false_iff_not]
  omega

theorem toNat_ofNat_lt (n : Nat) (h : n < 256) : (UInt8.ofNat n).toNat = n :=
  UInt8.toNat_ofNat_of_lt' h

variable {isPrint : Nat → Bool}


theorem encode_decode (r : Nat) (hv : validRune r = true) (more : Str) :
    decodeRune (encodeRune r ++ more) = (r, (encodeRune r).length) := by
  have hv' := (validRune_iff r).mp hv
  by_cases h1 : r < 0x80
  · rw [encodeRune_1 r h1]
    exact decodeRune_1 _ _ r (toNat_ofNat_lt r (by omega)) h1
  by_cases h2 : r < 0x800
  · rw [encodeRune_2 r (by omega) h2]
    exact decodeRune_2 _ _ _ r (toNat_ofNat_lt _ (by omega)) (toNat_ofNat_lt _ (by omega))
      (by omega) h2
  by_cases h3 : r < 0x10000
  · rw [encodeRune_3 r (by omega) h3 hv]
    exact decodeRune_3 _ _ _ _ r (toNat_ofNat_lt _ (by omega)) (toNat_ofNat_lt _ (by omega))
      (toNat_ofNat_lt _ (by omega)) (by omega) h3 hv
  · rw [encodeRune_4 r (by omega) (by omega)]
    exact decodeRune_4 _ _ _ _ _ r (toNat_ofNat_lt _ (by omega)) (toNat_ofNat_lt _ (by omega))
      (toNat_ofNat_lt _ (by omega)) (toNat_ofNat_lt _ (by omega)) (by omega) (by omega)

/-- shape of an encoding: one byte `r` for ASCII, otherwise a lead byte ≥ 0xC0 and at least one
    more byte; all bytes of a non-ASCII encoding are ≥ 0x80 -/
theorem encode_head (r : Nat) (hv : validRune r = true) :
    ∃ c t, encodeRune r = c :: t ∧ (r < 0x80 → c.toNat = r ∧ t = []) ∧
      (0x80 ≤ r → 0xC0 ≤ c.toNat ∧ t ≠ [] ∧ ∀ b ∈ c :: t, 0x80 ≤ b.toNat) := by
  have hv' := (validRune_iff r).mp hv
  by_cases h1 : r < 0x80
  · exact ⟨_, _, encodeRune_1 r h1, fun _ => ⟨toNat_ofNat_lt r (by omega), rfl⟩, fun h => by omega⟩
  by_cases h2 : r < 0x800
  · refine ⟨_, _, encodeRune_2 r (by omega) h2, fun h => by omega, fun _ => ⟨?_, by simp, ?_⟩⟩
    · rw [toNat_ofNat_lt _ (by omega)]; omega
    · intro b hb
      simp only [List.mem_cons, List.not_mem_nil, or_false] at hb
      rcases hb with rfl | rfl <;> rw [toNat_ofNat_lt _ (by omega)] <;> omega
  by_cases h3 : r < 0x10000
  · refine ⟨_, _, encodeRune_3 r (by omega) h3 hv, fun h => by omega, fun _ => ⟨?_, by simp, ?_⟩⟩
    · rw [toNat_ofNat_lt _ (by omega)]; omega
    · intro b hb
      simp only [List.mem_cons, List.not_mem_nil, or_false] at hb
      rcases hb with rfl | rfl | rfl <;> rw [toNat_ofNat_lt _ (by omega)] <;> omega
  · refine ⟨_, _, encodeRune_4 r (by omega) (by omega), fun h => by omega, fun _ => ⟨?_, by simp, ?_⟩⟩
    · rw [toNat_ofNat_lt _ (by omega)]; omega
    · intro b hb
      simp only [List.mem_cons, List.not_mem_nil, or_false] at hb
      rcases hb with rfl | rfl | rfl | rfl <;> rw [toNat_ofNat_lt _ (by omega)] <;> omega


theorem encode_len (r : Nat) (hv : validRune r = true) :
    1 ≤ (encodeRune r).length ∧ ((encodeRune r).length = 1 → r < 0x80) := by
  obtain ⟨c, t, he, h1, h2⟩ := encode_head r hv
  rw [he]
  refine ⟨by simp, fun h => ?_⟩
  by_cases hr : r < 0x80
  · exact hr
  · have := (h2 (by omega)).2.1
    cases t with
    | nil => exact absurd rfl this
    | cons a t => simp at h

theorem readChar_encode (r : Nat) (hv : validRune r = true) (h0 : r ≠ 0) (hb : r ≠ 0xFEFF)
    (more : Str) : readChar (encodeRune r ++ more) = some (r, (encodeRune r).length) := by
  obtain ⟨hl1, hl2⟩ := encode_len r hv
  unfold readChar
  rw [encode_decode r hv more]
  dsimp only
  rw [if_neg (by simp only [beq_iff_eq]; omega),
    if_neg (by
      simp only [Bool.and_eq_true, beq_iff_eq, runeError]
      intro h; have := hl2 h.1; omega),
    if_neg (by simp only [Bool.or_eq_true, beq_iff_eq]; omega)]

theorem readItem_char (q : UInt8) (r : Nat) (hv : validRune r = true) (h0 : r ≠ 0)
    (hb : r ≠ 0xFEFF) (hn : r ≠ 10) (hq : r ≠ q.toNat) (hbs : r ≠ 0x5C) (more : Str) :
    readItem q (encodeRune r ++ more) = some (.rune r, more) := by
  have hc := readChar_encode r hv h0 hb more
  obtain ⟨c, t, he, h1, h2⟩ := encode_head r hv
  rw [he] at hc ⊢
  have hc5 : ¬ (c == 0x5C) = true := by
    simp only [beq_iff_eq]
    intro h; subst h
    by_cases hr : r < 0x80
    · have := (h1 hr).1; simp at this; omega
    · have := (h2 (by omega)).1; simp at this
  rw [List.cons_append] at hc ⊢
  rw [readItem, if_neg hc5, hc]
  dsimp only
  rw [if_neg (by simp only [Bool.or_eq_true, beq_iff_eq]; omega)]
  rw [← List.cons_append, List.drop_left]

theorem readItem_bs (q : UInt8) (t : Str) : readItem q (0x5C :: t) = readEscape q t := rfl


theorem readItem_escapeRune (hp : PSafe isPrint) (q : UInt8) (hq : q = 0x22 ∨ q = 0x27)
    (r : Nat) (hv : validRune r = true) (more : Str) :
    ∃ e, readItem q (escapeRune isPrint q r ++ more) = some (e, more) ∧ e.bytes = encodeRune r
      ∧ e.value = r ∧ 1 ≤ (escapeRune isPrint q r).length := by
  unfold escapeRune
  by_cases h1 : (r == q.toNat || r == 0x5C) = true
  · rw [if_pos h1]
    simp only [Bool.or_eq_true, beq_iff_eq] at h1
    rcases h1 with h1 | h1
    · rcases hq with rfl | rfl
      · have : r = 0x22 := h1
        subst this; exact ⟨.rune 0x22, rfl, rfl, rfl, by decide⟩
      · have : r = 0x27 := h1
        subst this; exact ⟨.rune 0x27, rfl, rfl, rfl, by decide⟩
    · subst h1
      rcases hq with rfl | rfl
      · exact ⟨.rune 0x5C, rfl, rfl, rfl, by decide⟩
      · exact ⟨.rune 0x5C, rfl, rfl, rfl, by decide⟩
  rw [if_neg h1]
  simp only [Bool.or_eq_true, beq_iff_eq, not_or] at h1
  obtain ⟨hq', hbs⟩ := h1
  by_cases h2 : printable isPrint r = true
  · rw [if_pos h2]
    have hpr : r ≠ 0 ∧ r ≠ 10 ∧ r ≠ 0xFEFF := by
      unfold printable at h2
      split at h2
      · simp only [Bool.and_eq_true, decide_eq_true_eq] at h2; omega
      · have := hp r h2; omega
    exact ⟨.rune r, readItem_char q r hv hpr.1 hpr.2.2 hpr.2.1 hq' hbs more, rfl, rfl,
      (encode_len r hv).1⟩
  rw [if_neg h2]
  by_cases h : (r == 7) = true
  · rw [if_pos h]; simp only [beq_iff_eq] at h; subst h
    exact ⟨.rune 7, rfl, rfl, rfl, by decide⟩
  rw [if_neg h]; clear h
  by_cases h : (r == 8) = true
  · rw [if_pos h]; simp only [beq_iff_eq] at h; subst h
    exact ⟨.rune 8, rfl, rfl, rfl, by decide⟩
  rw [if_neg h]; clear h
  by_cases h : (r == 12) = true
  · rw [if_pos h]; simp only [beq_iff_eq] at h; subst h
    exact ⟨.rune 12, rfl, rfl, rfl, by decide⟩
  rw [if_neg h]; clear h
  by_cases h : (r == 10) = true
  · rw [if_pos h]; simp only [beq_iff_eq] at h; subst h
    exact ⟨.rune 10, rfl, rfl, rfl, by decide⟩
  rw [if_neg h]; clear h
  by_cases h : (r == 13) = true
  · rw [if_pos h]; simp only [beq_iff_eq] at h; subst h
    exact ⟨.rune 13, rfl, rfl, rfl, by decide⟩
  rw [if_neg h]; clear h
  by_cases h : (r == 9) = true
  · rw [if_pos h]; simp only [beq_iff_eq] at h; subst h
    exact ⟨.rune 9, rfl, rfl, rfl, by decide⟩
  rw [if_neg h]; clear h
  by_cases h : (r == 11) = true
  · rw [if_pos h]; simp only [beq_iff_eq] at h; subst h
    exact ⟨.rune 11, rfl, rfl, rfl, by decide⟩
  rw [if_neg h]; clear h
  by_cases hx : (decide (r < 0x20) || r == 0x7F) = true
  · rw [if_pos hx]
    have hr : r < 0x80 := by
      simp only [Bool.or_eq_true, decide_eq_true_eq, beq_iff_eq] at hx; omega
    refine ⟨.byte (UInt8.ofNat r), ?_, (encodeRune_1 r hr).symm, toNat_ofNat_lt r (by omega), ?_⟩
    · show readItem q (0x5C :: 0x78 :: (hex2 r ++ more)) = _
      rw [readItem_bs, readEscape_x, readHex_hex2 0 0 r more (by omega)]
      simp only [readHex, Nat.zero_mul, Nat.zero_add]
    · simp [hex2]
  rw [if_neg hx]
  have hv' := (validRune_iff r).mp hv
  simp only [hv, if_true]
  by_cases h4 : r < 0x10000
  · rw [if_pos h4]
    refine ⟨.rune r, ?_, rfl, rfl, ?_⟩
    · show readItem q (0x5C :: 0x75 :: (hex4 r ++ more)) = _
      rw [readItem_bs, readEscape_u, readHex_hex4 0 0 r more h4]
      simp only [readHex, Nat.zero_mul, Nat.zero_add, validCodePoint_eq, hv, if_true]
    · simp [hex4, hex2]
  · rw [if_neg h4]
    refine ⟨.rune r, ?_, rfl, rfl, ?_⟩
    · show readItem q (0x5C :: 0x55 :: (hex8 r ++ more)) = _
      rw [readItem_bs, readEscape_U, readHex_hex8 0 0 r more (by omega)]
      simp only [readHex, Nat.zero_mul, Nat.zero_add, validCodePoint_eq, hv, if_true]
    · simp [hex8, hex4, hex2]

/-! ### interpreted string literals -/

theorem ite_w {c : Bool} {a k r w : Nat}
    (h : (if c = true then (a, k) else (runeError, 1)) = (r, w)) : w = k ∨ w = 1 := by
  cases c
  · exact Or.inr (pair_eq h).2
  · exact Or.inl (pair_eq h).2

theorem decode_width (b0 : UInt8) (rest : Str) (r w : Nat)
    (h : decodeRune (b0 :: rest) = (r, w)) : 1 ≤ w ∧ w ≤ (b0 :: rest).length := by
  have one : ∀ {x : Nat} {l : Str}, (x, 1) = (r, w) → 1 ≤ w ∧ w ≤ (b0 :: l).length := by
    intro x l h'; rw [(pair_eq h').2]; simp only [List.length_cons]; omega
  unfold decodeRune at h
  simp only [UInt8.lt_iff_toNat_lt, UInt8.le_iff_toNat_le, UInt8.reduceToNat] at h
  split at h
  · exact one h
  split at h
  · exact one h
  split at h
  · split at h
    · rcases ite_w h with hw | hw <;> rw [hw] <;> simp only [List.length_cons] <;> omega
    · exact one h
  split at h
  · split at h
    · rcases ite_w h with hw | hw <;> rw [hw] <;> simp only [List.length_cons] <;> omega
    · exact one h
  split at h
  · split at h
    · rcases ite_w h with hw | hw <;> rw [hw] <;> simp only [List.length_cons] <;> omega
    · exact one h
  · exact one h


theorem readItem22_head (c : UInt8) (t : Str) (x : Item × Str)
    (h : readItem 0x22 (c :: t) = some x) : ¬ (c == 0x22) = true := by
  intro hc
  simp only [beq_iff_eq] at hc
  subst hc
  have hch : readChar (0x22 :: t) = some (0x22, 1) := by
    unfold readChar
    rw [decodeRune_1 0x22 t 0x22 rfl (by decide)]
    rfl
  rw [readItem, if_neg (by decide), hch] at h
  exact absurd h (by simp)

theorem readStringBody_step (fuel : Nat) (s : Str) (e : Item) (t' : Str)
    (h : readItem 0x22 s = some (e, t')) :
    readStringBody (fuel + 1) s =
      match readStringBody fuel t' with
      | none => none
      | some (v, rest) => some (e.bytes ++ v, rest) := by
  cases s with
  | nil => simp [readItem] at h
  | cons c t => rw [readStringBody, if_neg (readItem22_head c t _ h), h]; rfl

theorem readStringBody_close (fuel : Nat) (rest : Str) :
    readStringBody (fuel + 1) (0x22 :: rest) = some ([], rest) := rfl

theorem readItem_x (q b0 : UInt8) (more : Str) :
    readItem q ([0x5C, 0x78] ++ hex2 b0.toNat ++ more) = some (.byte b0, more) := by
  show readItem q (0x5C :: 0x78 :: (hex2 b0.toNat ++ more)) = _
  rw [readItem_bs, readEscape_x, readHex_hex2 0 0 b0.toNat more b0.toNat_lt]
  simp only [readHex, Nat.zero_mul, Nat.zero_add, UInt8.ofNat_toNat]

theorem quoteBody_cons (isPrint : Nat → Bool) (q : UInt8) (fuel : Nat) (b0 : UInt8) (t : Str) :
    quoteBody isPrint q (fuel + 1) (b0 :: t) =
      if ((decodeRune (b0 :: t)).2 == 1 && (decodeRune (b0 :: t)).1 == runeError) = true then
        [0x5C, 0x78] ++ hex2 b0.toNat ++ quoteBody isPrint q fuel t
      else
        escapeRune isPrint q (decodeRune (b0 :: t)).1 ++
          quoteBody isPrint q fuel ((b0 :: t).drop (decodeRune (b0 :: t)).2) := rfl


theorem body_roundtrip (hp : PSafe isPrint) (rest : Str) :
    ∀ (fuel : Nat) (s : Str), s.length ≤ fuel → ∀ rf,
      (quoteBody isPrint 0x22 fuel s).length + 1 ≤ rf →
      readStringBody rf (quoteBody isPrint 0x22 fuel s ++ 0x22 :: rest) = some (s, rest) := by
  intro fuel
  induction fuel with
  | zero =>
    intro s hs rf hrf
    have : s = [] := List.eq_nil_of_length_eq_zero (by omega)
    subst this
    obtain ⟨rf', rfl⟩ : ∃ k, rf = k + 1 := ⟨rf - 1, by omega⟩
    rfl
  | succ fuel ih =>
    intro s hs rf hrf
    obtain ⟨rf', rfl⟩ : ∃ k, rf = k + 1 := ⟨rf - 1, by omega⟩
    cases s with
    | nil => rfl
    | cons b0 t =>
      rw [quoteBody_cons] at hrf ⊢
      obtain ⟨r, w, hd⟩ : ∃ r w, decodeRune (b0 :: t) = (r, w) := ⟨_, _, rfl⟩
      rw [hd] at hrf ⊢
      dsimp only at hrf ⊢
      obtain ⟨hw1, hw2⟩ := decode_width b0 t r w hd
      by_cases hc : (w == 1 && r == runeError) = true
      · rw [if_pos hc] at hrf ⊢
        rw [List.append_assoc, readStringBody_step rf' _ _ _ (readItem_x 0x22 b0 _)]
        rw [ih t (by simpa using hs) rf' (by simp at hrf; omega)]
        rfl
      · rw [if_neg hc] at hrf ⊢
        have hc' : ¬ (w = 1 ∧ r = runeError) := by simpa using hc
        obtain ⟨hv, hen⟩ := decode_encode b0 t r w hd hc'
        obtain ⟨e, he, heb, _, hel⟩ := readItem_escapeRune hp 0x22 (Or.inl rfl) r hv
          (quoteBody isPrint 0x22 fuel ((b0 :: t).drop w) ++ 0x22 :: rest)
        rw [List.append_assoc, readStringBody_step rf' _ _ _ he]
        rw [ih ((b0 :: t).drop w) (by simp at hs ⊢; omega) rf' (by simp at hrf; omega)]
        dsimp only
        rw [heb, hen, List.take_append_drop]

theorem string_roundtrip (hp : PSafe isPrint) (s rest : Str) :
    readString (quote isPrint s ++ rest) = some (s, rest) := by
  unfold quote
  show readString (0x22 :: ((quoteBody isPrint 0x22 s.length s ++ [0x22]) ++ rest)) = _
  rw [readString, if_pos (by decide), List.append_assoc]
  exact body_roundtrip hp rest s.length s (Nat.le_refl _) _ (by simp)

/-! ### rune literals -/

theorem quoteRune_valid (isPrint : Nat → Bool) (r : Nat) (hv : validRune r = true) :
    quoteRune isPrint (Int.ofNat r) = [0x27] ++ escapeRune isPrint 0x27 r ++ [0x27] := by
  unfold quoteRune
  have e : Int.ofNat r = (r : Int) := rfl
  rw [e]
  have h0 : ¬ ((r : Int) < 0) := by omega
  have h1 : (r : Int).toNat = r := by omega
  simp only [h0, if_false, h1, hv, if_true]

theorem rune_roundtrip (hp : PSafe isPrint) (r : Nat) (rest : Str) (hv : validRune r = true) :
    readRune (quoteRune isPrint (Int.ofNat r) ++ rest) = some (r, rest) := by
  rw [quoteRune_valid isPrint r hv]
  obtain ⟨e, he, _, hval, _⟩ := readItem_escapeRune hp 0x27 (Or.inr rfl) r hv (0x27 :: rest)
  show readRune (0x27 :: (escapeRune isPrint 0x27 r ++ [0x27] ++ rest)) = _
  rw [readRune, if_pos (by decide), List.append_assoc]
  show (match readItem 0x27 (escapeRune isPrint 0x27 r ++ 0x27 :: rest) with
    | none => none
    | some (e, t') =>
      match t' with
      | [] => none
      | c' :: rest => if c' == 0x27 then some (e.value, rest) else none) = _
  rw [he]
  dsimp only
  rw [if_pos (by decide), hval]


/-! ### raw string literals -/

theorem canBackquote_cons (fuel : Nat) (b0 : UInt8) (t : Str) :
    canBackquote (fuel + 1) (b0 :: t) =
      if (decodeRune (b0 :: t)).2 > 1 then
        if (decodeRune (b0 :: t)).1 == 0xFEFF then false
        else canBackquote fuel ((b0 :: t).drop (decodeRune (b0 :: t)).2)
      else if (decodeRune (b0 :: t)).1 == runeError then false
      else if ((decodeRune (b0 :: t)).1 < 0x20 && (decodeRune (b0 :: t)).1 != 9) ||
          (decodeRune (b0 :: t)).1 == 0x60 || (decodeRune (b0 :: t)).1 == 0x7F then false
      else canBackquote fuel t := rfl

theorem readRawBody_cons (fuel : Nat) (c : UInt8) (t : Str) (hc : ¬ (c == 0x60) = true) :
    readRawBody (fuel + 1) (c :: t) =
      match readChar (c :: t) with
      | none => none
      | some (r, w) =>
        match readRawBody fuel ((c :: t).drop w) with
        | none => none
        | some (v, rest) =>
          some ((if r == 13 then [] else Quote.encodeRune r) ++ v, rest) := by
  rw [readRawBody, if_neg hc]
  rfl

theorem rawBody_roundtrip (rest : Str) :
    ∀ (fuel : Nat) (s : Str), s.length ≤ fuel → canBackquote fuel s = true →
      ∀ rf, s.length + 1 ≤ rf → readRawBody rf (s ++ 0x60 :: rest) = some (s, rest) := by
  intro fuel
  induction fuel with
  | zero =>
    intro s hs _ rf hrf
    have : s = [] := List.eq_nil_of_length_eq_zero (by omega)
    subst this
    obtain ⟨rf', rfl⟩ : ∃ k, rf = k + 1 := ⟨rf - 1, by omega⟩
    rfl
  | succ fuel ih =>
    intro s hs hcb rf hrf
    obtain ⟨rf', rfl⟩ : ∃ k, rf = k + 1 := ⟨rf - 1, by omega⟩
    cases s with
    | nil => rfl
    | cons b0 t =>
      rw [canBackquote_cons] at hcb
      obtain ⟨r, w, hd⟩ : ∃ r w, decodeRune (b0 :: t) = (r, w) := ⟨_, _, rfl⟩
      rw [hd] at hcb
      dsimp only at hcb
      obtain ⟨hw1, hw2⟩ := decode_width b0 t r w hd
      -- facts extracted from `canBackquote`
      have hfacts : ¬ (w = 1 ∧ r = runeError) ∧ (w = 1 → r ≠ 0 ∧ r ≠ 13 ∧ r ≠ 0x60) ∧
          (1 < w → r ≠ 0xFEFF) ∧ canBackquote fuel ((b0 :: t).drop w) = true := by
        by_cases hw : w > 1
        · rw [if_pos hw] at hcb
          by_cases hb : (r == 0xFEFF) = true
          · rw [if_pos hb] at hcb; exact absurd hcb (by simp)
          · rw [if_neg hb] at hcb
            simp only [beq_iff_eq] at hb
            exact ⟨by omega, by omega, fun _ => hb, hcb⟩
        · rw [if_neg hw] at hcb
          have hw' : w = 1 := by omega
          subst hw'
          by_cases he : (r == runeError) = true
          · rw [if_pos he] at hcb; exact absurd hcb (by simp)
          rw [if_neg he] at hcb
          simp only [beq_iff_eq] at he
          split at hcb
          · exact absurd hcb (by simp)
          · rename_i hcond
            simp only [Bool.or_eq_true, Bool.and_eq_true, decide_eq_true_eq, bne_iff_ne, beq_iff_eq,
              not_or, not_and] at hcond
            refine ⟨fun h => he h.2, fun _ => by omega, by omega, ?_⟩
            simpa using hcb
      obtain ⟨hgood, h1, h2, hrec⟩ := hfacts
      obtain ⟨hv, hen⟩ := decode_encode b0 t r w hd hgood
      have hlen : (encodeRune r).length = w := by rw [hen, List.length_take]; omega
      obtain ⟨c, t', he, hc1, hc2⟩ := encode_head r hv
      have hcb0 : c = b0 := by
        have := hen; rw [he] at this
        obtain ⟨w', rfl⟩ : ∃ k, w = k + 1 := ⟨w - 1, by omega⟩
        rw [List.take_succ_cons] at this
        exact (List.cons.inj this).1
      have hrw : r < 0x80 ↔ w = 1 := by
        constructor
        · intro h; rw [← hlen, he, (hc1 h).2]; rfl
        · intro h; exact (encode_len r hv).2 (by omega)
      have hr0 : r ≠ 0 ∧ r ≠ 13 ∧ r ≠ 0x60 ∧ r ≠ 0xFEFF := by
        by_cases h : w = 1
        · have := h1 h; have := hrw.mpr h; omega
        · have := h2 (by omega); have : ¬ r < 0x80 := fun h' => h (hrw.mp h'); omega
      have hb60 : ¬ (b0 == 0x60) = true := by
        simp only [beq_iff_eq]
        intro h; subst h; subst hcb0
        by_cases hr : r < 0x80
        · have := (hc1 hr).1; simp at this; omega
        · have := (hc2 (by omega)).1; simp at this
      have hsplit : (b0 :: t) ++ 0x60 :: rest =
          encodeRune r ++ ((b0 :: t).drop w ++ 0x60 :: rest) := by
        rw [hen, ← List.append_assoc, List.take_append_drop]
      have hch : readChar ((b0 :: t) ++ 0x60 :: rest) = some (r, w) := by
        rw [hsplit, readChar_encode r hv hr0.1 hr0.2.2.2, hlen]
      have hdrop : ((b0 :: t) ++ 0x60 :: rest).drop w = (b0 :: t).drop w ++ 0x60 :: rest := by
        rw [hsplit, ← hlen, List.drop_left]
      rw [List.cons_append] at hch hdrop ⊢
      rw [readRawBody_cons rf' b0 _ hb60, hch]
      dsimp only
      rw [hdrop, ih _ (by simp at hs ⊢; omega) hrec rf' (by simp at hrf ⊢; omega)]
      dsimp only
      rw [if_neg (by simp only [beq_iff_eq]; omega), hen, List.take_append_drop]

theorem raw_roundtrip (s rest : Str) (h : canBackquote s.length s = true) :
    readRaw ([0x60] ++ s ++ [0x60] ++ rest) = some (s, rest) := by
  show readRaw (0x60 :: (s ++ [0x60] ++ rest)) = _
  rw [readRaw, if_pos (by decide), List.append_assoc]
  exact rawBody_roundtrip rest s.length s (Nat.le_refl _) h _ (by simp)

/-! ### the literal is one line of legal source text -/

/-- printable ASCII byte (0x20 … 0x7E) -/
def asciiPrint (b : UInt8) : Prop := 0x20 ≤ b.toNat ∧ b.toNat < 0x7F

instance (b : UInt8) : Decidable (asciiPrint b) := by unfold asciiPrint; infer_instance

theorem hexDigit_ascii : ∀ n, n < 16 → asciiPrint (Str.hexDigit n) := by decide

theorem hex2_ascii (v : Nat) : ∀ b ∈ hex2 v, asciiPrint b := by
  intro b hb
  simp only [hex2, List.mem_cons, List.not_mem_nil, or_false] at hb
  rcases hb with rfl | rfl <;> exact hexDigit_ascii _ (by omega)

theorem hex4_ascii (v : Nat) : ∀ b ∈ hex4 v, asciiPrint b := by
  intro b hb
  simp only [hex4, List.mem_append] at hb
  rcases hb with hb | hb <;> exact hex2_ascii _ b hb

theorem hex8_ascii (v : Nat) : ∀ b ∈ hex8 v, asciiPrint b := by
  intro b hb
  simp only [hex8, List.mem_append] at hb
  rcases hb with hb | hb <;> exact hex4_ascii _ b hb

theorem ascii_cons2 (a b : UInt8) (l : Str) (ha : asciiPrint a) (hb : asciiPrint b)
    (hl : ∀ x ∈ l, asciiPrint x) : ∀ x ∈ [a, b] ++ l, asciiPrint x := by
  intro x hx
  simp only [List.cons_append, List.nil_append, List.mem_cons] at hx
  rcases hx with rfl | rfl | hx
  · exact ha
  · exact hb
  · exact hl x hx

/-- every escape is either pure printable ASCII, or the verbatim encoding of a printable rune -/
theorem escapeRune_shape (isPrint : Nat → Bool) (q : UInt8) (hq : asciiPrint q) (r : Nat) :
    (∀ b ∈ escapeRune isPrint q r, asciiPrint b) ∨
      (escapeRune isPrint q r = encodeRune r ∧ printable isPrint r = true) := by
  have nil : ∀ x ∈ ([] : Str), asciiPrint x := fun x hx => absurd hx (by simp)
  have two : ∀ a b : UInt8, asciiPrint a → asciiPrint b → ∀ x ∈ [a, b], asciiPrint x :=
    fun a b ha hb => ascii_cons2 a b [] ha hb nil
  unfold escapeRune
  by_cases h1 : (r == q.toNat || r == 0x5C) = true
  · rw [if_pos h1]
    simp only [Bool.or_eq_true, beq_iff_eq] at h1
    left
    rcases h1 with h1 | h1
    · subst h1; rw [UInt8.ofNat_toNat]; exact two _ _ (by decide) hq
    · subst h1; exact two _ _ (by decide) (by decide)
  rw [if_neg h1]
  by_cases h2 : printable isPrint r = true
  · rw [if_pos h2]; exact Or.inr ⟨rfl, h2⟩
  rw [if_neg h2]
  left
  by_cases h : (r == 7) = true
  · rw [if_pos h]; exact two _ _ (by decide) (by decide)
  rw [if_neg h]; clear h
  by_cases h : (r == 8) = true
  · rw [if_pos h]; exact two _ _ (by decide) (by decide)
  rw [if_neg h]; clear h
  by_cases h : (r == 12) = true
  · rw [if_pos h]; exact two _ _ (by decide) (by decide)
  rw [if_neg h]; clear h
  by_cases h : (r == 10) = true
  · rw [if_pos h]; exact two _ _ (by decide) (by decide)
  rw [if_neg h]; clear h
  by_cases h : (r == 13) = true
  · rw [if_pos h]; exact two _ _ (by decide) (by decide)
  rw [if_neg h]; clear h
  by_cases h : (r == 9) = true
  · rw [if_pos h]; exact two _ _ (by decide) (by decide)
  rw [if_neg h]; clear h
  by_cases h : (r == 11) = true
  · rw [if_pos h]; exact two _ _ (by decide) (by decide)
  rw [if_neg h]; clear h
  by_cases hx : (decide (r < 0x20) || r == 0x7F) = true
  · rw [if_pos hx]; exact ascii_cons2 _ _ _ (by decide) (by decide) (hex2_ascii r)
  rw [if_neg hx]
  dsimp only
  generalize (if validRune r = true then r else runeError) = r'
  split
  · exact ascii_cons2 _ _ _ (by decide) (by decide) (hex4_ascii _)
  · exact ascii_cons2 _ _ _ (by decide) (by decide) (hex8_ascii _)


/-- the output of `quoteBody` is a sequence of pieces, each either printable ASCII bytes
    (escape sequences, ASCII characters) or the UTF-8 encoding of a printable rune: every
    unescaped character of the literal is printable. -/
inductive Pieces (isPrint : Nat → Bool) : Str → Prop
  | nil : Pieces isPrint []
  | ascii (a t : Str) : (∀ b ∈ a, asciiPrint b) → Pieces isPrint t → Pieces isPrint (a ++ t)
  | char (r : Nat) (t : Str) : printable isPrint r = true → Pieces isPrint t →
      Pieces isPrint (encodeRune r ++ t)

theorem quoteBody_pieces (isPrint : Nat → Bool) (q : UInt8) (hq : asciiPrint q) :
    ∀ (fuel : Nat) (s : Str), Pieces isPrint (quoteBody isPrint q fuel s) := by
  intro fuel
  induction fuel with
  | zero => intro s; exact Pieces.nil
  | succ fuel ih =>
    intro s
    cases s with
    | nil => exact Pieces.nil
    | cons b0 t =>
      rw [quoteBody_cons]
      split
      · exact Pieces.ascii _ _ (ascii_cons2 _ _ _ (by decide) (by decide) (hex2_ascii _)) (ih t)
      · rcases escapeRune_shape isPrint q hq (decodeRune (b0 :: t)).1 with h | ⟨h, hp⟩
        · exact Pieces.ascii _ _ h (ih _)
        · rw [h]; exact Pieces.char _ _ hp (ih _)

theorem Pieces.append {isPrint : Nat → Bool} {a b : Str} (ha : Pieces isPrint a)
    (hb : Pieces isPrint b) : Pieces isPrint (a ++ b) := by
  induction ha with
  | nil => exact hb
  | ascii x t hx _ ih => rw [List.append_assoc]; exact Pieces.ascii x _ hx ih
  | char r t hr _ ih => rw [List.append_assoc]; exact Pieces.char r _ hr ih

theorem Pieces.of_ascii {isPrint : Nat → Bool} {a : Str} (h : ∀ b ∈ a, asciiPrint b) :
    Pieces isPrint a := by
  have := Pieces.ascii a [] h (Pieces.nil (isPrint := isPrint))
  rwa [List.append_nil] at this

theorem quote_pieces (isPrint : Nat → Bool) (s : Str) : Pieces isPrint (quote isPrint s) := by
  unfold quote
  exact ((Pieces.of_ascii (by decide)).append
    (quoteBody_pieces isPrint 0x22 (by decide) _ _)).append (Pieces.of_ascii (by decide))

/-- bytes of a `Pieces` string: none is a control byte or DEL (given `PSafe`) -/
theorem Pieces.bytes (hp : PSafe isPrint) {a : Str} (ha : Pieces isPrint a) :
    ∀ b ∈ a, 0x20 ≤ b.toNat ∧ b.toNat ≠ 0x7F := by
  induction ha with
  | nil => intro b hb; exact absurd hb (by simp)
  | ascii x t hx _ ih =>
    intro b hb
    rcases List.mem_append.mp hb with hb | hb
    · have := hx b hb; unfold asciiPrint at this; omega
    · exact ih b hb
  | char r t hr _ ih =>
    intro b hb
    rcases List.mem_append.mp hb with hb | hb
    · unfold printable at hr
      split at hr
      · rename_i hlt
        rw [encodeRune_1 r hlt] at hb
        simp only [List.mem_cons, List.not_mem_nil, or_false] at hb
        subst hb
        simp only [Bool.and_eq_true, decide_eq_true_eq] at hr
        rw [toNat_ofNat_lt r (by omega)]; omega
      · rename_i hge
        obtain ⟨h80, hv, _⟩ := hp r hr
        obtain ⟨c, t', he, _, h2⟩ := encode_head r hv
        rw [he] at hb
        have := (h2 h80).2.2 b hb
        omega
    · exact ih b hb

/-- source text that the Go scanner accepts character-wise and that stays on one line: a sequence
    of well-formed UTF-8 encodings of code points, none of which is NUL, newline or the BOM -/
inductive SrcLine : Str → Prop
  | nil : SrcLine []
  | cons (r : Nat) (t : Str) : validRune r = true → r ≠ 0 → r ≠ 10 → r ≠ 0xFEFF → SrcLine t →
      SrcLine (encodeRune r ++ t)

theorem SrcLine.append {a b : Str} (ha : SrcLine a) (hb : SrcLine b) : SrcLine (a ++ b) := by
  induction ha with
  | nil => exact hb
  | cons r t h1 h2 h3 h4 _ ih => rw [List.append_assoc]; exact SrcLine.cons r _ h1 h2 h3 h4 ih

theorem SrcLine.of_ascii {a : Str} (h : ∀ b ∈ a, asciiPrint b) : SrcLine a := by
  induction a with
  | nil => exact SrcLine.nil
  | cons c t ih =>
    have hc := h c (by simp)
    unfold asciiPrint at hc
    have := SrcLine.cons c.toNat t (by rw [validRune_iff]; omega) (by omega) (by omega) (by omega)
      (ih (fun b hb => h b (by simp [hb])))
    rwa [encodeRune_1 _ (by omega), UInt8.ofNat_toNat] at this

theorem Pieces.srcLine (hp : PSafe isPrint) {a : Str} (ha : Pieces isPrint a) : SrcLine a := by
  induction ha with
  | nil => exact SrcLine.nil
  | ascii x t hx _ ih => exact (SrcLine.of_ascii hx).append ih
  | char r t hr _ ih =>
    have hfacts : validRune r = true ∧ r ≠ 0 ∧ r ≠ 10 ∧ r ≠ 0xFEFF := by
      unfold printable at hr
      split at hr
      · simp only [Bool.and_eq_true, decide_eq_true_eq] at hr
        exact ⟨by rw [validRune_iff]; omega, by omega, by omega, by omega⟩
      · have := hp r hr; exact ⟨this.2.1, by omega, by omega, this.2.2⟩
    exact SrcLine.cons r t hfacts.1 hfacts.2.1 hfacts.2.2.1 hfacts.2.2.2 ih

/-- the literal has no raw newline byte and no NUL byte -/
theorem string_one_line (hp : PSafe isPrint) (s : Str) :
    10 ∉ quote isPrint s ∧ 0 ∉ quote isPrint s := by
  have h := (quote_pieces isPrint s).bytes hp
  constructor
  · intro hm; have := h 10 hm; simp at this
  · intro hm; have := h 0 hm; simp at this

/-- the literal, read as UTF-8 source text, consists of well-formed characters none of which is
    NUL, newline or a byte order mark -/
theorem string_src_line (hp : PSafe isPrint) (s : Str) : SrcLine (quote isPrint s) :=
  (quote_pieces isPrint s).srcLine hp

theorem SrcLine.scan {a : Str} (h : SrcLine a) : ∀ fuel, a.length ≤ fuel → scanLine fuel a = true := by
  induction h with
  | nil => intro fuel _; cases fuel <;> rfl
  | cons r t hv h0 h10 hb _ ih =>
    intro fuel hf
    have hc := readChar_encode r hv h0 hb t
    obtain ⟨c, t', he, _, _⟩ := encode_head r hv
    have hd : (encodeRune r ++ t).drop (encodeRune r).length = t := List.drop_left
    rw [he] at hc hd hf ⊢
    rw [List.cons_append] at hc hd hf ⊢
    obtain ⟨f, rfl⟩ : ∃ k, fuel = k + 1 := ⟨fuel - 1, by simp at hf; omega⟩
    rw [scanLine, hc]
    dsimp only
    rw [hd, ih f (by simp at hf; omega)]
    simp only [bne_iff_ne, ne_eq, Bool.and_true]
    simpa using h10

/-- executable form: the literal passes the scanner's per-character checks and is on one line -/
theorem string_scan_line (hp : PSafe isPrint) (s : Str) :
    scanLine (quote isPrint s).length (quote isPrint s) = true :=
  (string_src_line hp s).scan _ (Nat.le_refl _)

/-! ### Non-vacuity -/

/-- `PSafe` is satisfiable (the everywhere-false `isPrint`: everything non-ASCII is escaped) -/
theorem PSafe_false : PSafe (fun _ => false) := by
  intro r h; exact absurd h (by simp)

/-- … and by a non-trivial one (Latin-1 letters `à`…`ö` printable) -/
theorem PSafe_latin : PSafe (fun r => decide (0xE0 ≤ r ∧ r ≤ 0xF6)) := by
  intro r h
  simp only [decide_eq_true_eq] at h
  exact ⟨by omega, by rw [validRune_iff]; omega, by omega⟩

open Str in
example : quote (fun _ => false) b!"a\"b" = b!"\"a\\\"b\"" := by decide
open Str in
example : readString (quote (fun _ => false) b!"a\"b" ++ b!"xyz") = some (b!"a\"b", b!"xyz") := by
  decide
open Str in
example : readString (quote (fun _ => false) b!"a\"b" ++ b!"xyz") = some (b!"a\"b", b!"xyz") :=
  string_roundtrip PSafe_false _ _
/-- invalid UTF-8, NUL, newline, BOM, a non-BMP rune: still exact -/
example : readString (quote (fun _ => false)
      [0xFF, 0x00, 0x0A, 0xEF, 0xBB, 0xBF, 0xC3, 0xF0, 0x9F, 0x98, 0x80, 0xE9] ++ [0x2B]) =
    some ([0xFF, 0x00, 0x0A, 0xEF, 0xBB, 0xBF, 0xC3, 0xF0, 0x9F, 0x98, 0x80, 0xE9], [0x2B]) := by
  decide
open Str in
example : quote (fun r => decide (0xE0 ≤ r ∧ r ≤ 0xF6)) b!"é\n" = b!"\"é\\n\"" := by decide
example : validRune 0x1F600 = true := by decide
open Str in
example : quoteRune (fun _ => false) (Int.ofNat 0x1F600) = b!"'\\U0001f600'" := by decide
open Str in
example : readRune (quoteRune (fun _ => false) (Int.ofNat 0x27) ++ b!";") = some (0x27, b!";") := by
  decide
open Str in
example : canBackquote 5 b!"a\\n\"b" = true := by decide
open Str in
example : readRaw ([0x60] ++ b!"a\\n\"b" ++ [0x60] ++ b!")") = some (b!"a\\n\"b", b!")") :=
  raw_roundtrip _ _ (by decide)

end QuoteRT
