import JenVerif.FileRender
/-
  Permutation invariance of the sorted renderings.  Go maps are iterated in arbitrary order;
  the model takes the entries of a map as a list.  The theorems below show that the list order
  does not matter.
-/

namespace PermLemmas
open List Code

/-! ### `Str.le` is a total order on byte strings -/

theorem le_refl (a : Str) : Str.le a a = true := by
  induction a with
  | nil => rfl
  | cons x xs ih => simp [Str.le, ih]

theorem le_total (a b : Str) : (Str.le a b || Str.le b a) = true := by
  induction a generalizing b with
  | nil => simp [Str.le]
  | cons x xs ih =>
    cases b with
    | nil => simp [Str.le]
    | cons y ys =>
      have := ih ys
      simp only [Str.le, UInt8.lt_iff_toNat_lt]
      by_cases h1 : x.toNat < y.toNat
      · simp [h1]
      · by_cases h2 : y.toNat < x.toNat
        · simp [h2]
        · simpa [h1, h2] using this

theorem le_trans {a b c : Str} : Str.le a b = true → Str.le b c = true → Str.le a c = true := by
  induction a generalizing b c with
  | nil => intros; simp [Str.le]
  | cons x xs ih =>
    cases b with
    | nil => simp [Str.le]
    | cons y ys =>
      cases c with
      | nil => simp [Str.le]
      | cons z zs =>
        simp only [Str.le, UInt8.lt_iff_toNat_lt]
        intro h1 h2
        by_cases xy : x.toNat < y.toNat
        · by_cases yz : y.toNat < z.toNat
          · have : x.toNat < z.toNat := by omega
            simp [this]
          · by_cases zy : z.toNat < y.toNat
            · simp [yz, zy] at h2
            · have : x.toNat < z.toNat := by omega
              simp [this]
        · by_cases yx : y.toNat < x.toNat
          · simp [xy, yx] at h1
          · simp only [xy, yx, if_false] at h1
            by_cases yz : y.toNat < z.toNat
            · have : x.toNat < z.toNat := by omega
              simp [this]
            · by_cases zy : z.toNat < y.toNat
              · simp [yz, zy] at h2
              · simp only [yz, zy, if_false] at h2
                have h3 : ¬ x.toNat < z.toNat := by omega
                have h4 : ¬ z.toNat < x.toNat := by omega
                simp only [h3, h4, if_false]
                exact ih h1 h2

theorem le_antisymm {a b : Str} : Str.le a b = true → Str.le b a = true → a = b := by
  induction a generalizing b with
  | nil => cases b <;> simp [Str.le]
  | cons x xs ih =>
    cases b with
    | nil => simp [Str.le]
    | cons y ys =>
      simp only [Str.le, UInt8.lt_iff_toNat_lt]
      intro h1 h2
      by_cases xy : x.toNat < y.toNat
      · have : ¬ y.toNat < x.toNat := by omega
        simp [xy, this] at h2
      · by_cases yx : y.toNat < x.toNat
        · simp [xy, yx] at h1
        · simp only [xy, yx, if_false] at h1 h2
          have : x = y := UInt8.toNat_inj.1 (by omega)
          rw [this, ih h1 h2]

/-! ### sorting a permutation -/

/-- Two permutations of each other sort to the same list, provided the comparison is a total
    preorder that is antisymmetric on the elements of the list. -/
theorem mergeSort_eq_of_perm {α : Type _} {cmp : α → α → Bool} {l₁ l₂ : List α}
    (trans : ∀ a b c, cmp a b = true → cmp b c = true → cmp a c = true)
    (total : ∀ a b, (cmp a b || cmp b a) = true)
    (anti : ∀ a b, a ∈ l₁ → b ∈ l₁ → cmp a b = true → cmp b a = true → a = b)
    (h : l₁.Perm l₂) : l₁.mergeSort cmp = l₂.mergeSort cmp :=
  Perm.eq_of_pairwise (le := fun a b => cmp a b = true)
    (fun a b ha hb => anti a b (mem_mergeSort.1 ha) (h.mem_iff.2 (mem_mergeSort.1 hb)))
    (pairwise_mergeSort trans total l₁) (pairwise_mergeSort trans total l₂)
    ((mergeSort_perm l₁ cmp).trans (h.trans (mergeSort_perm l₂ cmp).symm))

/-- distinct keys: two members with the same key are the same member -/
theorem eq_of_key_eq {α κ : Type _} {key : α → κ} {l : List α} (nd : (l.map key).Nodup)
    {a b : α} (ha : a ∈ l) (hb : b ∈ l) (hk : key a = key b) : a = b := by
  induction l with
  | nil => cases ha
  | cons x xs ih =>
    simp only [map_cons, nodup_cons, mem_map, not_exists, not_and] at nd
    rcases mem_cons.1 ha with rfl | ha' <;> rcases mem_cons.1 hb with rfl | hb'
    · rfl
    · exact absurd hk.symm (nd.1 b hb')
    · exact absurd hk (nd.1 a ha')
    · exact ih nd.2 ha' hb'

/-- version for a comparison that is antisymmetric only on keys, the keys being distinct -/
theorem mergeSort_eq_of_perm_of_keys {α κ : Type _} {cmp : α → α → Bool} {key : α → κ}
    {l₁ l₂ : List α}
    (trans : ∀ a b c, cmp a b = true → cmp b c = true → cmp a c = true)
    (total : ∀ a b, (cmp a b || cmp b a) = true)
    (antiKey : ∀ a b, cmp a b = true → cmp b a = true → key a = key b)
    (nd : (l₁.map key).Nodup)
    (h : l₁.Perm l₂) : l₁.mergeSort cmp = l₂.mergeSort cmp :=
  mergeSort_eq_of_perm trans total
    (fun a b ha hb h1 h2 => eq_of_key_eq nd ha hb (antiKey a b h1 h2)) h

/-! ### struct tags -/

theorem tagLe_trans (a b c : Str × Str) : tagLe a b = true → tagLe b c = true → tagLe a c = true :=
  fun h1 h2 => le_trans (a := a.1) (b := b.1) (c := c.1) h1 h2

theorem tagLe_total (a b : Str × Str) : (tagLe a b || tagLe b a) = true := le_total a.1 b.1

theorem tagLe_antisymm_key (a b : Str × Str) : tagLe a b = true → tagLe b a = true → a.1 = b.1 :=
  fun h1 h2 => le_antisymm h1 h2

theorem tag_sorted_perm {l₁ l₂ : List (Str × Str)} (h : l₁.Perm l₂)
    (nd : (l₁.map (·.1)).Nodup) : l₁.mergeSort tagLe = l₂.mergeSort tagLe :=
  mergeSort_eq_of_perm_of_keys (key := (·.1)) tagLe_trans tagLe_total tagLe_antisymm_key nd h

/-- a struct tag renders the same whatever the order in which the Go map is iterated -/
theorem tag_perm (isPrint : Nat → Bool) {l₁ l₂ : List (Str × Str)} (h : l₁.Perm l₂)
    (nd : (l₁.map (·.1)).Nodup) : renderTag isPrint l₁ = renderTag isPrint l₂ := by
  simp only [renderTag, tag_sorted_perm h nd]

example : renderTag (fun _ => true) [(b!"json", b!"a"), (b!"db", b!"b")]
    = renderTag (fun _ => true) [(b!"db", b!"b"), (b!"json", b!"a")] :=
  tag_perm _ (Perm.swap _ _ _) (by decide)

/-! ### `dictLe` is a total order on pairs of byte strings -/

theorem dictLe_refl (a : Str × Str) : dictLe a a = true := by
  simp [dictLe, le_refl]

theorem dictLe_total (a b : Str × Str) : (dictLe a b || dictLe b a) = true := by
  unfold dictLe
  by_cases h : a.1 = b.1
  · have h' : b.1 = a.1 := h.symm
    simpa [h] using le_total a.2 b.2
  · have h' : ¬ b.1 = a.1 := fun e => h e.symm
    simpa [h, h'] using le_total a.1 b.1

theorem dictLe_antisymm {a b : Str × Str} : dictLe a b = true → dictLe b a = true → a = b := by
  unfold dictLe
  by_cases h : a.1 = b.1
  · have h' : b.1 = a.1 := h.symm
    simp only [h, beq_self_eq_true, if_true]
    intro h1 h2
    exact Prod.ext h (le_antisymm h1 h2)
  · have h' : ¬ b.1 = a.1 := fun e => h e.symm
    simp only [beq_iff_eq, h, h', if_false]
    intro h1 h2
    exact absurd (le_antisymm h1 h2) h

theorem dictLe_trans (a b c : Str × Str) :
    dictLe a b = true → dictLe b c = true → dictLe a c = true := by
  obtain ⟨a1, a2⟩ := a
  obtain ⟨b1, b2⟩ := b
  obtain ⟨c1, c2⟩ := c
  unfold dictLe
  simp only [beq_iff_eq]
  by_cases ab : a1 = b1 <;> by_cases bc : b1 = c1
  · subst ab; subst bc
    simp only [if_true]
    exact le_trans
  · subst ab
    simp only [bc, if_true, if_false]
    exact fun _ h2 => h2
  · subst bc
    simp only [ab, if_true, if_false]
    exact fun h1 _ => h1
  · simp only [ab, bc, if_false]
    intro h1 h2
    have ac : ¬ a1 = c1 := by
      intro e
      subst e
      exact ab (le_antisymm h1 h2)
    simp only [ac, if_false]
    exact le_trans h1 h2

/-- the sorted Dict pairs do not depend on the order of the pairs (no distinctness needed:
    `dictLe` is antisymmetric on whole pairs) -/
theorem dict_sorted_perm {l₁ l₂ : List (Str × Str)} (h : l₁.Perm l₂) :
    l₁.mergeSort dictLe = l₂.mergeSort dictLe :=
  mergeSort_eq_of_perm dictLe_trans dictLe_total (fun _ _ _ _ => dictLe_antisymm) h

theorem dict_body_perm (n : Nat) (first : Bool) {l₁ l₂ : List (Str × Str)} (h : l₁.Perm l₂) :
    Code.dictBodyP n first (l₁.mergeSort dictLe) = Code.dictBodyP n first (l₂.mergeSort dictLe) := by
  rw [dict_sorted_perm h]

/-- the text `renderP` writes for a Dict depends only on the multiset of kept (key, value) texts -/
theorem dict_render_perm {l₁ l₂ : List (Str × Str)} (h : l₁.Perm l₂) :
    Code.dictBodyP (l₁.mergeSort dictLe).length true (l₁.mergeSort dictLe)
      = Code.dictBodyP (l₂.mergeSort dictLe).length true (l₂.mergeSort dictLe) := by
  rw [dict_sorted_perm h]

/-! ### the import block -/

theorem pathLe_trans (a b c : Str × Def) : pathLe a b = true → pathLe b c = true → pathLe a c = true :=
  fun h1 h2 => le_trans (a := a.1) (b := b.1) (c := c.1) h1 h2

theorem pathLe_total (a b : Str × Def) : (pathLe a b || pathLe b a) = true := le_total a.1 b.1

theorem pathLe_antisymm_key (a b : Str × Def) : pathLe a b = true → pathLe b a = true → a.1 = b.1 :=
  fun h1 h2 => le_antisymm h1 h2

theorem imports_sorted_perm {l₁ l₂ : List (Str × Def)} (h : l₁.Perm l₂)
    (nd : (l₁.map (·.1)).Nodup) : l₁.mergeSort pathLe = l₂.mergeSort pathLe :=
  mergeSort_eq_of_perm_of_keys (key := (·.1)) pathLe_trans pathLe_total pathLe_antisymm_key nd h

/-- the `match filtered with …` of `renderImports`, as a function of the filtered entries -/
def importsMain (isPrint : Nat → Bool) (filtered : List (Str × Def)) : Str :=
  match filtered with
  | [] => []
  | [e] => b!"import " ++ importSpec isPrint e ++ b!"\n\n"
  | es => b!"import (\n" ++ ((es.mergeSort pathLe).map fun e => importSpec isPrint e ++ b!"\n").flatten ++ b!")\n\n"

theorem renderImports_eq (isPrint : Nat → Bool) (f : FileS) :
    renderImports isPrint f =
      importsMain isPrint (f.imports.filter fun e => !(e.1 == b!"C" && !f.cgo.isEmpty)) ++
        (if !f.cgo.isEmpty then commentLines f.cgo ++ b!"import \"C\"\n\n" else []) := rfl

theorem importsMain_perm (isPrint : Nat → Bool) {l₁ l₂ : List (Str × Def)} (h : l₁.Perm l₂)
    (nd : (l₁.map (·.1)).Nodup) : importsMain isPrint l₁ = importsMain isPrint l₂ := by
  match l₁, l₂, h, nd with
  | [], l₂, h, _ => rw [h.nil_eq]
  | [e], l₂, h, _ => rw [singleton_perm.1 h]
  | a :: b :: t, l₂, h, nd =>
    match l₂, h with
    | [], h => exact absurd h.length_eq (by simp)
    | [e], h => exact absurd h.length_eq (by simp)
    | a' :: b' :: t', h =>
      simp only [importsMain]
      rw [imports_sorted_perm h nd]

/-- the import block is the same whatever the order in which the `imports` map is iterated;
    of the other fields only `cgo` matters -/
theorem imports_perm' (isPrint : Nat → Bool) {f₁ f₂ : FileS} (h : f₁.imports.Perm f₂.imports)
    (nd : (f₁.imports.map (·.1)).Nodup) (hc : f₁.cgo = f₂.cgo) :
    renderImports isPrint f₁ = renderImports isPrint f₂ := by
  rw [renderImports_eq, renderImports_eq, ← hc]
  congr 1
  apply importsMain_perm isPrint (h.filter _)
  exact (nd.sublist ((filter_sublist (l := f₁.imports)).map _))

/-- the statement as asked: all other fields of `f₁`, `f₂` equal -/
theorem imports_perm (isPrint : Nat → Bool) {f₁ f₂ : FileS} (h : f₁.imports.Perm f₂.imports)
    (nd : (f₁.imports.map (·.1)).Nodup)
    (_hname : f₁.name = f₂.name) (_hpath : f₁.path = f₂.path) (_hhints : f₁.hints = f₂.hints)
    (_hcomments : f₁.comments = f₂.comments) (_hheaders : f₁.headers = f₂.headers)
    (hcgo : f₁.cgo = f₂.cgo) (_hnf : f₁.noFormat = f₂.noFormat) (_hpfx : f₁.pfx = f₂.pfx)
    (_hcan : f₁.canonical = f₂.canonical) :
    renderImports isPrint f₁ = renderImports isPrint f₂ :=
  imports_perm' isPrint h nd hcgo

theorem imports_perm_with (isPrint : Nat → Bool) (f : FileS) {imps : List (Str × Def)}
    (h : f.imports.Perm imps) (nd : (f.imports.map (·.1)).Nodup) :
    renderImports isPrint f = renderImports isPrint { f with imports := imps } :=
  imports_perm' isPrint h nd rfl

example :
    renderImports (fun _ => true) { imports := [(b!"fmt", ⟨b!"fmt", false⟩), (b!"a/b", ⟨b!"b", false⟩)] }
      = renderImports (fun _ => true) { imports := [(b!"a/b", ⟨b!"b", false⟩), (b!"fmt", ⟨b!"fmt", false⟩)] } :=
  imports_perm' _ (Perm.swap _ _ _) (by decide) rfl

/-- with the head and the body unchanged, so is the whole raw file text -/
theorem fileHead_imports_irrelevant (isPrint : Nat → Bool) (f : FileS) (imps : List (Str × Def)) :
    fileHead isPrint { f with imports := imps } = fileHead isPrint f := rfl

/-! ### `isValidAlias` -/

theorem any_perm {α : Type _} {p : α → Bool} {l₁ l₂ : List α} (h : l₁.Perm l₂) :
    l₁.any p = l₂.any p := by
  rw [Bool.eq_iff_iff]
  simp only [any_eq_true]
  exact ⟨fun ⟨x, hx, hp⟩ => ⟨x, h.mem_iff.1 hx, hp⟩, fun ⟨x, hx, hp⟩ => ⟨x, h.mem_iff.2 hx, hp⟩⟩

theorem isValidAlias_perm' (cfg : Cfg) {f₁ f₂ : FileS} (h : f₁.imports.Perm f₂.imports) (a : Str) :
    Registry.isValidAlias cfg f₁ a = Registry.isValidAlias cfg f₂ a := by
  simp only [Registry.isValidAlias, any_perm h]

theorem isValidAlias_perm (cfg : Cfg) (f : FileS) {imps : List (Str × Def)}
    (h : f.imports.Perm imps) (a : Str) :
    Registry.isValidAlias cfg f a = Registry.isValidAlias cfg { f with imports := imps } a :=
  isValidAlias_perm' cfg h a

/-! ### `ImportNames(map)` -/

theorem lookup_cons {β : Type _} (k' : Str) (v' : β) (rest : List (Str × β)) (p : Str) :
    AList.lookup ((k', v') :: rest) p = if k' == p then some v' else AList.lookup rest p := rfl

theorem lookup_insert {β : Type _} (m : List (Str × β)) (k : Str) (v : β) (p : Str) :
    AList.lookup (AList.insert m k v) p = if k == p then some v else AList.lookup m p := by
  induction m with
  | nil => simp [AList.insert, AList.lookup]
  | cons e rest ih =>
    obtain ⟨k', v'⟩ := e
    simp only [AList.insert]
    by_cases h : k' = k
    · subst h
      simp only [beq_self_eq_true, if_true, lookup_cons]
      by_cases hp : (k' == p) = true <;> simp [hp]
    · have hb : ¬ (k' == k) = true := by simpa using h
      rw [if_neg hb, lookup_cons, lookup_cons, ih]
      by_cases hp : k' = p
      · subst hp
        have : ¬ (k == k') = true := by simpa using fun e : k = k' => h e.symm
        simp [this]
      · have : ¬ (k' == p) = true := by simpa using hp
        simp [this]

theorem lookup_none_of_not_mem {β : Type _} (m : List (Str × β)) (k : Str)
    (h : ∀ x, x ∈ m → ¬ x.1 = k) : AList.lookup m k = none := by
  induction m with
  | nil => rfl
  | cons e es ih =>
    obtain ⟨k', v'⟩ := e
    have h1 : ¬ (k' == k) = true := by simpa using h (k', v') mem_cons_self
    rw [lookup_cons, if_neg h1]
    exact ih fun x hx => h x (mem_cons_of_mem _ hx)

/-- the hint table after `ImportNames`, as a fold over the table alone -/
def hintsFold (h : List (Str × Def)) (m : List (Str × Str)) : List (Str × Def) :=
  m.foldl (fun h e => AList.insert h e.1 ⟨e.2, false⟩) h

theorem importNames_eq (f : FileS) (m : List (Str × Str)) :
    Registry.importNames f m = { f with hints := hintsFold f.hints m } := by
  induction m generalizing f with
  | nil => rfl
  | cons e es ih =>
    simp only [Registry.importNames, hintsFold, foldl_cons] at ih ⊢
    rw [ih]
    rfl

/-- one step of `ImportNames` on the hint table seen as a function -/
def hintStep (h : Str → Option Def) (e : Str × Str) : Str → Option Def :=
  fun p => if e.1 == p then some ⟨e.2, false⟩ else h p

theorem lookup_hintsFold (h : List (Str × Def)) (m : List (Str × Str)) :
    AList.lookup (hintsFold h m) = m.foldl hintStep (AList.lookup h) := by
  induction m generalizing h with
  | nil => rfl
  | cons e es ih =>
    simp only [hintsFold, foldl_cons] at ih ⊢
    rw [ih]
    congr 1
    funext p
    exact lookup_insert h e.1 _ p

theorem hintStep_comm (h : Str → Option Def) {x y : Str × Str} (hxy : x.1 = y.1 → x = y) :
    hintStep (hintStep h x) y = hintStep (hintStep h y) x := by
  by_cases e : x.1 = y.1
  · rw [hxy e]
  · funext p
    simp only [hintStep]
    by_cases hx : x.1 = p <;> by_cases hy : y.1 = p
    · exact absurd (hx.trans hy.symm) e
    · simp [hx, hy]
    · simp [hx, hy]
    · simp [hx, hy]

/-- the hint table after `ImportNames(m)` is the same MAP whatever the order in which the
    Go map `m` (distinct keys) is iterated -/
theorem importNames_perm (f : FileS) {m₁ m₂ : List (Str × Str)} (h : m₁.Perm m₂)
    (nd : (m₁.map (·.1)).Nodup) (p : Str) :
    AList.lookup (Registry.importNames f m₁).hints p
      = AList.lookup (Registry.importNames f m₂).hints p := by
  rw [importNames_eq, importNames_eq]
  show AList.lookup (hintsFold f.hints m₁) p = AList.lookup (hintsFold f.hints m₂) p
  rw [lookup_hintsFold, lookup_hintsFold]
  exact congrFun
    (h.foldl_eq' (fun x hx y hy z => hintStep_comm z (fun e => eq_of_key_eq nd hx hy e)) _) p

/-- closed form: the resulting hint for `p` is the map's entry for `p` when there is one,
    the old hint otherwise (distinct keys, so "the" entry) -/
theorem importNames_lookup (f : FileS) {m : List (Str × Str)} (nd : (m.map (·.1)).Nodup) (p : Str) :
    AList.lookup (Registry.importNames f m).hints p =
      match AList.lookup m p with
      | some n => some ⟨n, false⟩
      | none => AList.lookup f.hints p := by
  rw [importNames_eq]
  show AList.lookup (hintsFold f.hints m) p = _
  rw [lookup_hintsFold]
  generalize AList.lookup f.hints = h0
  induction m generalizing h0 with
  | nil => rfl
  | cons e es ih =>
    obtain ⟨k, n⟩ := e
    simp only [map_cons, nodup_cons, mem_map, not_exists, not_and] at nd
    rw [foldl_cons, ih nd.2]
    simp only [AList.lookup]
    by_cases hk : k = p
    · subst hk
      have : AList.lookup es k = none := lookup_none_of_not_mem es k nd.1
      simp [this, hintStep]
    · have hk' : (k == p) = false := by simpa using hk
      simp only [hk', hintStep]
      cases AList.lookup es p <;> simp

/-! ### everything that reads the hints only through `lookupHint`

  The model reads `FileS.hints` only in `Registry.lookupHint` (and writes it only in
  `importName` / `importAlias`).  Two file states that agree on every other field and whose hint
  tables are the same MAP are therefore indistinguishable for the registry: same answers, and
  `register` leads to states that are again equivalent. -/

/-- equal up to the representation (insertion order) of the hint table -/
structure HintEquiv (f₁ f₂ : FileS) : Prop where
  name : f₁.name = f₂.name
  path : f₁.path = f₂.path
  imports : f₁.imports = f₂.imports
  comments : f₁.comments = f₂.comments
  headers : f₁.headers = f₂.headers
  cgo : f₁.cgo = f₂.cgo
  noFormat : f₁.noFormat = f₂.noFormat
  pfx : f₁.pfx = f₂.pfx
  canonical : f₁.canonical = f₂.canonical
  hints : ∀ p, AList.lookup f₁.hints p = AList.lookup f₂.hints p

theorem HintEquiv.refl (f : FileS) : HintEquiv f f :=
  ⟨rfl, rfl, rfl, rfl, rfl, rfl, rfl, rfl, rfl, fun _ => rfl⟩

theorem HintEquiv.symm {f₁ f₂ : FileS} (h : HintEquiv f₁ f₂) : HintEquiv f₂ f₁ :=
  ⟨h.name.symm, h.path.symm, h.imports.symm, h.comments.symm, h.headers.symm, h.cgo.symm,
   h.noFormat.symm, h.pfx.symm, h.canonical.symm, fun p => (h.hints p).symm⟩

theorem HintEquiv.trans {f₁ f₂ f₃ : FileS} (h : HintEquiv f₁ f₂) (g : HintEquiv f₂ f₃) :
    HintEquiv f₁ f₃ :=
  ⟨h.name.trans g.name, h.path.trans g.path, h.imports.trans g.imports,
   h.comments.trans g.comments, h.headers.trans g.headers, h.cgo.trans g.cgo,
   h.noFormat.trans g.noFormat, h.pfx.trans g.pfx, h.canonical.trans g.canonical,
   fun p => (h.hints p).trans (g.hints p)⟩

/-- `ImportNames` of two iteration orders of the same map gives equivalent states -/
theorem importNames_hintEquiv (f : FileS) {m₁ m₂ : List (Str × Str)} (h : m₁.Perm m₂)
    (nd : (m₁.map (·.1)).Nodup) :
    HintEquiv (Registry.importNames f m₁) (Registry.importNames f m₂) := by
  refine ⟨?_, ?_, ?_, ?_, ?_, ?_, ?_, ?_, ?_, importNames_perm f h nd⟩ <;>
    (rw [importNames_eq, importNames_eq])

section congr
variable {f₁ f₂ : FileS} (h : HintEquiv f₁ f₂)
include h

theorem lookupHint_congr (p : Str) : Registry.lookupHint f₁ p = Registry.lookupHint f₂ p := by
  simp only [Registry.lookupHint, h.hints p]

theorem lookupImp_congr (p : Str) : Registry.lookupImp f₁ p = Registry.lookupImp f₂ p := by
  simp only [Registry.lookupImp, h.imports]

theorem isReg_congr (p : Str) : Registry.isReg f₁ p = Registry.isReg f₂ p := by
  simp only [Registry.isReg, lookupImp_congr h]

theorem isLocal_congr (p : Str) : Registry.isLocal f₁ p = Registry.isLocal f₂ p := by
  simp only [Registry.isLocal, h.path]

theorem isDotImport_congr (p : Str) : Registry.isDotImport f₁ p = Registry.isDotImport f₂ p := by
  simp only [Registry.isDotImport, isReg_congr h, lookupImp_congr h, lookupHint_congr h]

theorem np_congr (p : Str) : f₁.np p = f₂.np p := by
  simp only [FileS.np, isDotImport_congr h, isLocal_congr h]

theorem isValidAlias_congr (cfg : Cfg) (a : Str) :
    Registry.isValidAlias cfg f₁ a = Registry.isValidAlias cfg f₂ a := by
  simp only [Registry.isValidAlias, h.imports]

theorem prefixed_congr (n : Str) (al : Bool) :
    Registry.prefixed f₁ n al = Registry.prefixed f₂ n al := by
  simp only [Registry.prefixed, h.pfx]

theorem acceptable_congr (cfg : Cfg) (n : Str) (al : Bool) (i : Nat) :
    Registry.acceptable cfg f₁ n al i = Registry.acceptable cfg f₂ n al i := by
  simp only [Registry.acceptable, isValidAlias_congr h, prefixed_congr h]

theorem uniqLoop_congr (cfg : Cfg) (n : Str) (al : Bool) (fuel i : Nat) :
    Registry.uniqLoop cfg f₁ n al fuel i = Registry.uniqLoop cfg f₂ n al fuel i := by
  induction fuel generalizing i with
  | zero => rfl
  | succ k ih => simp only [Registry.uniqLoop, acceptable_congr h, ih]

theorem uniqFuel_congr (cfg : Cfg) : Registry.uniqFuel cfg f₁ = Registry.uniqFuel cfg f₂ := by
  simp only [Registry.uniqFuel, h.imports]

theorem chooseBase_congr (cfg : Cfg) (p : Str) :
    Registry.chooseBase cfg f₁ p = Registry.chooseBase cfg f₂ p := by
  simp only [Registry.chooseBase, lookupHint_congr h]

theorem chooseDef_congr (cfg : Cfg) (p : Str) :
    Registry.chooseDef cfg f₁ p = Registry.chooseDef cfg f₂ p := by
  simp only [Registry.chooseDef, chooseBase_congr h, uniqLoop_congr h, uniqFuel_congr h,
    prefixed_congr h]

theorem withImports_hintEquiv (i₁ i₂ : List (Str × Def)) (hi : i₁ = i₂) :
    HintEquiv { f₁ with imports := i₁ } { f₂ with imports := i₂ } :=
  ⟨h.name, h.path, hi, h.comments, h.headers, h.cgo, h.noFormat, h.pfx, h.canonical, h.hints⟩

/-- `register` returns the same name and equivalent states -/
theorem register_congr (cfg : Cfg) (p : Str) :
    (Registry.register cfg f₁ p).1 = (Registry.register cfg f₂ p).1 ∧
    HintEquiv (Registry.register cfg f₁ p).2 (Registry.register cfg f₂ p).2 := by
  unfold Registry.register
  rw [isLocal_congr h, isReg_congr h, lookupImp_congr h, chooseDef_congr h]
  split
  · exact ⟨rfl, h⟩
  · split
    · exact ⟨rfl, h⟩
    · split
      · exact ⟨rfl, withImports_hintEquiv h _ _ (by rw [h.imports])⟩
      · exact ⟨rfl, withImports_hintEquiv h _ _ (by rw [h.imports])⟩

theorem anon_congr (p : Str) : HintEquiv (Registry.anon f₁ p) (Registry.anon f₂ p) :=
  withImports_hintEquiv h _ _ (by rw [h.imports])

theorem renderImports_congr (isPrint : Nat → Bool) :
    renderImports isPrint f₁ = renderImports isPrint f₂ := by
  simp only [renderImports, h.imports, h.cgo]

theorem fileHead_congr (isPrint : Nat → Bool) : fileHead isPrint f₁ = fileHead isPrint f₂ := by
  simp only [fileHead, h.headers, h.comments, h.name, h.canonical]

end congr

/-- a later hint setter keeps equivalence -/
theorem importName_congr {f₁ f₂ : FileS} (h : HintEquiv f₁ f₂) (p n : Str) :
    HintEquiv (Registry.importName f₁ p n) (Registry.importName f₂ p n) :=
  ⟨h.name, h.path, h.imports, h.comments, h.headers, h.cgo, h.noFormat, h.pfx, h.canonical,
   fun q => by
     show AList.lookup (AList.insert f₁.hints p _) q = AList.lookup (AList.insert f₂.hints p _) q
     rw [lookup_insert, lookup_insert, h.hints q]⟩

theorem importAlias_congr {f₁ f₂ : FileS} (h : HintEquiv f₁ f₂) (p n : Str) :
    HintEquiv (Registry.importAlias f₁ p n) (Registry.importAlias f₂ p n) :=
  ⟨h.name, h.path, h.imports, h.comments, h.headers, h.cgo, h.noFormat, h.pfx, h.canonical,
   fun q => by
     show AList.lookup (AList.insert f₁.hints p _) q = AList.lookup (AList.insert f₂.hints p _) q
     rw [lookup_insert, lookup_insert, h.hints q]⟩

/-- consequences for `ImportNames` iterated in two orders: every registry query answers the same -/
theorem importNames_perm_queries (cfg : Cfg) (f : FileS) {m₁ m₂ : List (Str × Str)}
    (h : m₁.Perm m₂) (nd : (m₁.map (·.1)).Nodup) (p : Str) :
    Registry.lookupHint (Registry.importNames f m₁) p = Registry.lookupHint (Registry.importNames f m₂) p ∧
    Registry.isDotImport (Registry.importNames f m₁) p = Registry.isDotImport (Registry.importNames f m₂) p ∧
    (Registry.importNames f m₁).np p = (Registry.importNames f m₂).np p ∧
    Registry.chooseDef cfg (Registry.importNames f m₁) p = Registry.chooseDef cfg (Registry.importNames f m₂) p ∧
    (Registry.register cfg (Registry.importNames f m₁) p).1 = (Registry.register cfg (Registry.importNames f m₂) p).1 :=
  have e := importNames_hintEquiv f h nd
  ⟨lookupHint_congr e p, isDotImport_congr e p, np_congr e p, chooseDef_congr e cfg p,
   (register_congr e cfg p).1⟩

/-! ### … up to the whole renderer and the file entry points -/

/-- the state in which an item of a group is tested and rendered (`renderItemsS`) -/
def preItem (cfg : Cfg) (f : FileS) : Code → FileS
  | .tok .pkg s => (Registry.register cfg f s).2
  | _ => f

theorem renderItemsS_cons (cfg : Cfg) (g : GInfo) (first : Bool) (f : FileS) (c : Code) (cs : List Code) :
    renderItemsS cfg g first f (c :: cs) =
      if isNull (preItem cfg f c).np c then renderItemsS cfg g first (preItem cfg f c) cs
      else
        (itemLead g first ++ (renderS cfg (preItem cfg f c) none c).1 ++
            (renderItemsS cfg g false (renderS cfg (preItem cfg f c) none c).2 cs).1,
          (renderItemsS cfg g false (renderS cfg (preItem cfg f c) none c).2 cs).2.1,
          (renderItemsS cfg g false (renderS cfg (preItem cfg f c) none c).2 cs).2.2) := by
  cases c with
  | tok k s => cases k <;> simp only [renderItemsS, preItem] <;> rfl
  | _ => simp only [renderItemsS, preItem] <;> rfl

theorem renderStmtS_cons (cfg : Cfg) (first : Bool) (prev : Option Code) (f : FileS) (c : Code) (cs : List Code) :
    renderStmtS cfg first prev f (c :: cs) =
      if isNull f.np c then renderStmtS cfg first (some c) f cs
      else
        ((if first then [] else b!" ") ++ (renderS cfg f prev c).1 ++
            (renderStmtS cfg false (some c) (renderS cfg f prev c).2 cs).1,
          (renderStmtS cfg false (some c) (renderS cfg f prev c).2 cs).2) := by
  rw [renderStmtS]

theorem preItem_congr {f₁ f₂ : FileS} (h : HintEquiv f₁ f₂) (cfg : Cfg) (c : Code) :
    HintEquiv (preItem cfg f₁ c) (preItem cfg f₂ c) := by
  unfold preItem
  split
  · exact (register_congr h cfg _).2
  · exact h

/-- same text, equivalent states -/
def RelS (r₁ r₂ : Str × FileS) : Prop := r₁.1 = r₂.1 ∧ HintEquiv r₁.2 r₂.2

/-- the render closures of a Dict entry respect `HintEquiv` -/
def EntryOK (e : DEntry FileS) : Prop :=
  ∀ f₁ f₂, HintEquiv f₁ f₂ → RelS (e.kR f₁) (e.kR f₂) ∧ RelS (e.vR f₁) (e.vR f₂)

theorem dictLoop1_cons {σ} (np : σ → Str → Bool) (f : σ) (e : DEntry σ) (es : List (DEntry σ)) :
    dictLoop1 np f (e :: es) =
      if e.kNull (np f) || e.vNull (np f) then dictLoop1 np f es
      else
        (((e.kR f).1, (e.vR (e.kR f).2).1, e) :: (dictLoop1 np (e.vR (e.kR f).2).2 es).1,
          (dictLoop1 np (e.vR (e.kR f).2).2 es).2) := rfl

theorem dictLoop2_cons {σ} (n : Nat) (first : Bool) (f : σ) (kt vt : Str) (e : DEntry σ)
    (es : List (Str × Str × DEntry σ)) :
    dictLoop2 n first f ((kt, vt, e) :: es) =
      ((if first && n > 1 then b!"\n" else []) ++ (e.kR f).1 ++ b!":" ++ (e.vR (e.kR f).2).1 ++
          (if n > 1 then b!",\n" else []) ++ (dictLoop2 n false (e.vR (e.kR f).2).2 es).1,
        (dictLoop2 n false (e.vR (e.kR f).2).2 es).2) := rfl

theorem dictLoop1_mem {σ} (np : σ → Str → Bool) (f : σ) (es : List (DEntry σ))
    (x : Str × Str × DEntry σ) (hx : x ∈ (dictLoop1 np f es).1) : x.2.2 ∈ es := by
  induction es generalizing f with
  | nil => simp [dictLoop1] at hx
  | cons e es ih =>
    rw [dictLoop1_cons] at hx
    split at hx
    · exact mem_cons_of_mem _ (ih f hx)
    · rcases mem_cons.1 hx with rfl | hx'
      · exact mem_cons_self
      · exact mem_cons_of_mem _ (ih _ hx')

theorem dictLoop1_congr (es : List (DEntry FileS)) (hes : ∀ e ∈ es, EntryOK e)
    {f₁ f₂ : FileS} (h : HintEquiv f₁ f₂) :
    (dictLoop1 FileS.np f₁ es).1 = (dictLoop1 FileS.np f₂ es).1 ∧
      HintEquiv (dictLoop1 FileS.np f₁ es).2 (dictLoop1 FileS.np f₂ es).2 := by
  induction es generalizing f₁ f₂ with
  | nil => exact ⟨rfl, h⟩
  | cons e es ih =>
    have hnp : f₁.np = f₂.np := funext (np_congr h)
    have ih' := fun {f₁ f₂} => @ih (fun e he => hes e (mem_cons_of_mem _ he)) f₁ f₂
    rw [dictLoop1_cons, dictLoop1_cons, hnp]
    split
    · exact ih' h
    · have hk := (hes e mem_cons_self f₁ f₂ h).1
      have hv := (hes e mem_cons_self _ _ hk.2).2
      have hr := ih' hv.2
      exact ⟨by simp only [hk.1, hv.1, hr.1], hr.2⟩

theorem dictLoop2_congr (n : Nat) (first : Bool) (l : List (Str × Str × DEntry FileS))
    (hl : ∀ x ∈ l, EntryOK x.2.2) {f₁ f₂ : FileS} (h : HintEquiv f₁ f₂) :
    RelS (dictLoop2 n first f₁ l) (dictLoop2 n first f₂ l) := by
  induction l generalizing f₁ f₂ first with
  | nil => exact ⟨rfl, h⟩
  | cons x l ih =>
    obtain ⟨kt, vt, e⟩ := x
    have he : EntryOK e := hl (kt, vt, e) mem_cons_self
    have hk := (he f₁ f₂ h).1
    have hv := (he _ _ hk.2).2
    have hr := @ih false (fun x hx => hl x (mem_cons_of_mem _ hx)) _ _ hv.2
    rw [dictLoop2_cons, dictLoop2_cons]
    exact ⟨by simp only [hk.1, hv.1, hr.1], hr.2⟩

theorem renderDictWith_eq {σ} (np : σ → Str → Bool) (f : σ) (es : List (DEntry σ)) :
    renderDictWith np f es =
      dictLoop2 ((dictLoop1 np f es).1.mergeSort dictKeyLe).length true (dictLoop1 np f es).2
        ((dictLoop1 np f es).1.mergeSort dictKeyLe) := rfl

theorem renderDictWith_congr (es : List (DEntry FileS)) (hes : ∀ e ∈ es, EntryOK e)
    {f₁ f₂ : FileS} (h : HintEquiv f₁ f₂) :
    RelS (renderDictWith FileS.np f₁ es) (renderDictWith FileS.np f₂ es) := by
  have h1 := dictLoop1_congr es hes h
  rw [renderDictWith_eq, renderDictWith_eq, h1.1]
  apply dictLoop2_congr _ _ _ _ h1.2
  intro x hx
  exact hes _ (dictLoop1_mem _ _ _ x (mem_mergeSort.1 hx))

mutual
theorem renderS_congr (cfg : Cfg) : ∀ (c : Code) (f₁ f₂ : FileS) (prev : Option Code),
    HintEquiv f₁ f₂ → RelS (renderS cfg f₁ prev c) (renderS cfg f₂ prev c)
  | .nilc, f₁, f₂, prev, h => by simp only [renderS]; exact ⟨rfl, h⟩
  | .tok k s, f₁, f₂, prev, h => by
    cases k <;> simp only [renderS] <;> first | exact ⟨rfl, h⟩ | exact register_congr h cfg s
  | .lit v, f₁, f₂, prev, h => by simp only [renderS]; exact ⟨rfl, h⟩
  | .group g items, f₁, f₂, prev, h => by
    have hnp : f₁.np = f₂.np := funext (np_congr h)
    have ih := renderItemsS_congr cfg items g true f₁ f₂ h
    simp only [renderS, hnp]
    split
    · exact ⟨rfl, h⟩
    · exact ⟨by simp only [ih.1, ih.2.1], ih.2.2⟩
  | .stmt items, f₁, f₂, prev, h => by
    simp only [renderS]; exact renderStmtS_congr cfg items true none f₁ f₂ h
  | .dict ps, f₁, f₂, prev, h => by
    simp only [renderS]; exact renderDictWith_congr _ (dictEntriesS_ok cfg ps) h
  | .tag items, f₁, f₂, prev, h => by simp only [renderS]; exact ⟨rfl, h⟩
  | .comment t, f₁, f₂, prev, h => by simp only [renderS]; exact ⟨rfl, h⟩
theorem renderItemsS_congr (cfg : Cfg) : ∀ (cs : List Code) (g : GInfo) (first : Bool) (f₁ f₂ : FileS),
    HintEquiv f₁ f₂ →
      (renderItemsS cfg g first f₁ cs).1 = (renderItemsS cfg g first f₂ cs).1 ∧
      (renderItemsS cfg g first f₁ cs).2.1 = (renderItemsS cfg g first f₂ cs).2.1 ∧
      HintEquiv (renderItemsS cfg g first f₁ cs).2.2 (renderItemsS cfg g first f₂ cs).2.2
  | [], g, first, f₁, f₂, h => by simp only [renderItemsS]; exact ⟨trivial, trivial, h⟩
  | c :: cs, g, first, f₁, f₂, h => by
    have h0 : HintEquiv (preItem cfg f₁ c) (preItem cfg f₂ c) := preItem_congr h cfg c
    have hnp : (preItem cfg f₁ c).np = (preItem cfg f₂ c).np := funext (np_congr h0)
    rw [renderItemsS_cons, renderItemsS_cons, hnp]
    split
    · exact renderItemsS_congr cfg cs g first _ _ h0
    · have r1 := renderS_congr cfg c _ _ none h0
      have r2 := renderItemsS_congr cfg cs g false _ _ r1.2
      exact ⟨by simp only [r1.1, r2.1], r2.2.1, r2.2.2⟩
theorem renderStmtS_congr (cfg : Cfg) : ∀ (cs : List Code) (first : Bool) (prev : Option Code) (f₁ f₂ : FileS),
    HintEquiv f₁ f₂ → RelS (renderStmtS cfg first prev f₁ cs) (renderStmtS cfg first prev f₂ cs)
  | [], first, prev, f₁, f₂, h => by simp only [renderStmtS]; exact ⟨rfl, h⟩
  | c :: cs, first, prev, f₁, f₂, h => by
    have hnp : f₁.np = f₂.np := funext (np_congr h)
    rw [renderStmtS_cons, renderStmtS_cons, hnp]
    split
    · exact renderStmtS_congr cfg cs first (some c) _ _ h
    · have r1 := renderS_congr cfg c _ _ prev h
      have r2 := renderStmtS_congr cfg cs false (some c) _ _ r1.2
      exact ⟨by simp only [r1.1, r2.1], r2.2⟩
theorem dictEntriesS_ok (cfg : Cfg) : ∀ (ps : List (Code × Code)), ∀ e ∈ dictEntriesS cfg ps, EntryOK e
  | [] => by simp [dictEntriesS]
  | (k, v) :: ps => by
    intro e he
    simp only [dictEntriesS, mem_cons] at he
    rcases he with rfl | he
    · intro f₁ f₂ h
      exact ⟨renderS_congr cfg k f₁ f₂ none h, renderS_congr cfg v f₁ f₂ none h⟩
    · exact dictEntriesS_ok cfg ps e he
end


/-- the raw file text is the same and the final states are equivalent -/
theorem renderFileRaw_congr {f₁ f₂ : FileS} (h : HintEquiv f₁ f₂) (cfg : Cfg) (body : List Code) :
    RelS (renderFileRaw cfg f₁ body) (renderFileRaw cfg f₂ body) := by
  have r := renderS_congr cfg (.group fileInfo body) f₁ f₂ none h
  unfold renderFileRaw
  exact ⟨by simp only [r.1, fileHead_congr r.2, renderImports_congr r.2], r.2⟩

theorem misuse_congr {f₁ f₂ : FileS} (h : HintEquiv f₁ f₂) (c : Code) :
    misuse f₁.np c = misuse f₂.np c := by
  rw [show f₁.np = f₂.np from funext (np_congr h)]

/-- `File.Render`: same result, same effects, equivalent final state -/
theorem fileRender_congr {f₁ f₂ : FileS} (h : HintEquiv f₁ f₂) (w : World) (cfg : Cfg)
    (body : List Code) :
    (fileRender w cfg f₁ body).1 = (fileRender w cfg f₂ body).1 ∧
    (fileRender w cfg f₁ body).2.1 = (fileRender w cfg f₂ body).2.1 ∧
    HintEquiv (fileRender w cfg f₁ body).2.2 (fileRender w cfg f₂ body).2.2 := by
  have r := renderFileRaw_congr h cfg body
  simp only [fileRender, r.1, h.noFormat, misuse_congr h]
  exact ⟨trivial, trivial, r.2⟩

/-- `File.Save` -/
theorem fileSave_congr {f₁ f₂ : FileS} (h : HintEquiv f₁ f₂) (w : World) (cfg : Cfg)
    (body : List Code) :
    (fileSave w cfg f₁ body).1 = (fileSave w cfg f₂ body).1 ∧
    (fileSave w cfg f₁ body).2.1 = (fileSave w cfg f₂ body).2.1 ∧
    HintEquiv (fileSave w cfg f₁ body).2.2 (fileSave w cfg f₂ body).2.2 := by
  have r := renderFileRaw_congr h cfg body
  simp only [fileSave, r.1, h.noFormat, misuse_congr h]
  exact ⟨trivial, trivial, r.2⟩

/-- `Statement.RenderWithFile` / `Group.RenderWithFile` -/
theorem fragRender_congr {f₁ f₂ : FileS} (h : HintEquiv f₁ f₂) (w : World) (cfg : Cfg) (c : Code) :
    (fragRender w cfg f₁ c).1 = (fragRender w cfg f₂ c).1 ∧
    (fragRender w cfg f₁ c).2.1 = (fragRender w cfg f₂ c).2.1 ∧
    HintEquiv (fragRender w cfg f₁ c).2.2 (fragRender w cfg f₂ c).2.2 := by
  have r := renderS_congr cfg c f₁ f₂ none h
  simp only [fragRender, r.1, misuse_congr h]
  exact ⟨trivial, trivial, r.2⟩

/-- the order in which `ImportNames(m)` iterates its map argument (distinct keys) is invisible:
    the rendered text, the result and the effect trace of `File.Render` are the same -/
theorem importNames_perm_render (w : World) (cfg : Cfg) (f : FileS) {m₁ m₂ : List (Str × Str)}
    (h : m₁.Perm m₂) (nd : (m₁.map (·.1)).Nodup) (body : List Code) :
    (renderFileRaw cfg (Registry.importNames f m₁) body).1
        = (renderFileRaw cfg (Registry.importNames f m₂) body).1 ∧
    (fileRender w cfg (Registry.importNames f m₁) body).1
        = (fileRender w cfg (Registry.importNames f m₂) body).1 ∧
    (fileRender w cfg (Registry.importNames f m₁) body).2.1
        = (fileRender w cfg (Registry.importNames f m₂) body).2.1 :=
  have e := importNames_hintEquiv f h nd
  ⟨(renderFileRaw_congr e cfg body).1, (fileRender_congr e w cfg body).1,
   (fileRender_congr e w cfg body).2.1⟩

end PermLemmas
