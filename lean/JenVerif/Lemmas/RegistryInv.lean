import JenVerif.Registry
/-
  Import-registry invariants of the model in `JenVerif/Registry.lean` (jen/file.go).

  A. identifier predicates, B. `guessAlias_legal`, C. the uniquifier (injectivity of the
  candidates, pigeonhole bound, `uniqLoop_spec`: the fuel always suffices), D. the registry
  invariant `Inv` and its preservation by `register`, `anon` and the hint setters.

  Core Lean only.
-/

namespace RegistryInv
open Registry

/-! ## A. identifier predicates -/

def isLower (c : UInt8) : Bool := 97 ≤ c && c ≤ 122
def isLetter (c : UInt8) : Bool := (65 ≤ c && c ≤ 90) || (97 ≤ c && c ≤ 122) || c == 95
def isIdentChar (c : UInt8) : Bool := isLetter c || isDigit c

/-- `[a-z][a-z0-9]*` -/
def isLowerIdent : Str → Bool
  | [] => false
  | c :: cs => isLower c && cs.all isLowerAlnum

/-- ASCII Go identifier `[A-Za-z_][A-Za-z0-9_]*` -/
def isIdent : Str → Bool
  | [] => false
  | c :: cs => isLetter c && cs.all isIdentChar

/-- byte facts: unfold to `Nat` comparisons and let `omega` finish -/
macro "byte_facts" : tactic =>
  `(tactic| (intro c
             simp only [isLower, isLetter, isIdentChar, isLowerAlnum, isDigit, Bool.and_eq_true,
               Bool.or_eq_true, decide_eq_true_eq, decide_eq_false_iff_not, Bool.and_eq_false_iff,
               UInt8.le_iff_toNat_le, beq_iff_eq, ← UInt8.toNat_inj]
             simp
             try omega))

theorem isLower_isLetter : ∀ c : UInt8, isLower c = true → isLetter c = true := by byte_facts
theorem isLowerAlnum_isIdentChar : ∀ c : UInt8, isLowerAlnum c = true → isIdentChar c = true := by
  byte_facts
theorem isDigit_isIdentChar : ∀ c : UInt8, isDigit c = true → isIdentChar c = true := by byte_facts
theorem isLetter_isIdentChar : ∀ c : UInt8, isLetter c = true → isIdentChar c = true := by
  byte_facts
theorem alnum_not_digit_isLower :
    ∀ c : UInt8, isLowerAlnum c = true → isDigit c = false → isLower c = true := by byte_facts

theorem isLowerIdent_isIdent {s : Str} (h : isLowerIdent s = true) : isIdent s = true := by
  cases s with
  | nil => simp [isLowerIdent] at h
  | cons c cs =>
    simp only [isLowerIdent, Bool.and_eq_true, List.all_eq_true] at h
    simp only [isIdent, Bool.and_eq_true, List.all_eq_true]
    exact ⟨isLower_isLetter c h.1, fun x hx => isLowerAlnum_isIdentChar x (h.2 x hx)⟩

theorem isIdent_ne_nil {s : Str} (h : isIdent s = true) : s ≠ [] := by
  intro e; subst e; simp [isIdent] at h

theorem isIdent_all {s : Str} (h : isIdent s = true) : s.all isIdentChar = true := by
  cases s with
  | nil => rfl
  | cons c cs =>
    simp only [isIdent, Bool.and_eq_true] at h
    simp only [List.all_cons, Bool.and_eq_true]
    exact ⟨isLetter_isIdentChar c h.1, h.2⟩

theorem isIdent_append {a b : Str} (ha : isIdent a = true) (hb : b.all isIdentChar = true) :
    isIdent (a ++ b) = true := by
  cases a with
  | nil => simp [isIdent] at ha
  | cons c cs =>
    simp only [isIdent, Bool.and_eq_true] at ha
    simp only [List.cons_append, isIdent, List.all_append, Bool.and_eq_true]
    exact ⟨ha.1, ha.2, hb⟩

/-! ### `Str.natDec` -/

theorem natDigitsAux_append (fuel : Nat) : ∀ (n : Nat) (acc : Str),
    Str.natDigitsAux fuel n acc = Str.natDigitsAux fuel n [] ++ acc := by
  induction fuel with
  | zero => intro n acc; simp [Str.natDigitsAux]
  | succ fuel ih =>
    intro n acc
    unfold Str.natDigitsAux
    split
    · simp
    · rw [ih (n / 10) (_ :: acc), ih (n / 10) [_]]; simp

theorem digit_isDigit : ∀ k, k < 10 → isDigit (UInt8.ofNat (48 + k)) = true := by decide

theorem natDigitsAux_digits (fuel : Nat) : ∀ (n : Nat) (acc : Str),
    acc.all isDigit = true → (Str.natDigitsAux fuel n acc).all isDigit = true := by
  induction fuel with
  | zero => intro n acc h; simpa [Str.natDigitsAux] using h
  | succ fuel ih =>
    intro n acc h
    unfold Str.natDigitsAux
    split
    · rename_i hn
      simp only [List.all_cons, Bool.and_eq_true]
      exact ⟨digit_isDigit n hn, h⟩
    · apply ih
      simp only [List.all_cons, Bool.and_eq_true]
      exact ⟨digit_isDigit (n % 10) (Nat.mod_lt _ (by decide)), h⟩

/-- `Str.natDec n` consists of decimal digits only -/
theorem natDec_digits (n : Nat) : (Str.natDec n).all isDigit = true :=
  natDigitsAux_digits _ _ _ rfl

theorem natDec_identChars (n : Nat) : (Str.natDec n).all isIdentChar = true := by
  have h := natDec_digits n
  simp only [List.all_eq_true] at h ⊢
  exact fun x hx => isDigit_isIdentChar x (h x hx)

/-- `Str.natDec n` is non-empty -/
theorem natDec_ne_nil (n : Nat) : Str.natDec n ≠ [] := by
  unfold Str.natDec Str.natDigitsAux
  split
  · simp
  · rw [natDigitsAux_append]; simp

theorem natDec_length_pos (n : Nat) : 0 < (Str.natDec n).length :=
  List.length_pos_iff.mpr (natDec_ne_nil n)

/-- the value of a digit string -/
def dval (s : Str) : Nat := s.foldl (fun a c => a * 10 + (c.toNat - 48)) 0

theorem dval_snoc (s : Str) (c : UInt8) : dval (s ++ [c]) = dval s * 10 + (c.toNat - 48) := by
  simp [dval, List.foldl_append]

theorem natDigitsAux_val (fuel : Nat) : ∀ n, n < fuel → dval (Str.natDigitsAux fuel n []) = n := by
  induction fuel with
  | zero => intro n h; omega
  | succ fuel ih =>
    intro n h
    unfold Str.natDigitsAux
    split
    · rename_i hn
      simp only [dval, List.foldl_cons, List.foldl_nil, UInt8.toNat_ofNat']
      omega
    · rw [natDigitsAux_append, dval_snoc, ih (n / 10) (by omega), UInt8.toNat_ofNat']
      omega

theorem natDec_val (n : Nat) : dval (Str.natDec n) = n := natDigitsAux_val _ _ (Nat.lt_succ_self n)

theorem natDec_injective {i j : Nat} (h : Str.natDec i = Str.natDec j) : i = j := by
  have := congrArg dval h
  simpa [natDec_val] using this

theorem isIdent_append_natDec {s : Str} (n : Nat) (h : isIdent s = true) :
    isIdent (s ++ Str.natDec n) = true :=
  isIdent_append h (natDec_identChars n)

theorem isIdent_prefix {a b : Str} (ha : isIdent a = true) (hb : isIdent b = true) :
    isIdent (a ++ b!"_" ++ b) = true := by
  rw [List.append_assoc]
  apply isIdent_append ha
  have := isIdent_all hb
  simpa [List.all_append, isIdentChar, isLetter] using this

/-! ## B. `guessAlias` -/

theorem dropDigits_legal : ∀ l : Str, l.all isLowerAlnum = true →
    l.dropWhile isDigit = [] ∨ isLowerIdent (l.dropWhile isDigit) = true := by
  intro l
  induction l with
  | nil => intro _; left; rfl
  | cons c cs ih =>
    intro h
    simp only [List.all_cons, Bool.and_eq_true] at h
    cases hd : isDigit c with
    | true => simpa [List.dropWhile_cons, hd] using ih h.2
    | false =>
      right
      simp only [List.dropWhile_cons, hd, Bool.false_eq_true, if_false, isLowerIdent,
        Bool.and_eq_true]
      exact ⟨alnum_not_digit_isLower c h.1 hd, h.2⟩

theorem guess_core (x : Str) :
    isLowerIdent (if ((x.filter isLowerAlnum).dropWhile isDigit).isEmpty then b!"pkg"
      else (x.filter isLowerAlnum).dropWhile isDigit) = true := by
  have hall : (x.filter isLowerAlnum).all isLowerAlnum = true := by
    simp [List.all_eq_true]
  rcases dropDigits_legal _ hall with h | h
  · rw [h]; decide
  · split
    · decide
    · exact h

/-- for EVERY byte string and EVERY `toLower`, the guessed alias is in `[a-z][a-z0-9]*` -/
theorem guessAlias_legal (toLower : Str → Str) (p : Str) :
    isLowerIdent (guessAlias toLower p) = true := by
  unfold guessAlias
  exact guess_core _

theorem guessAlias_ident (toLower : Str → Str) (p : Str) :
    isIdent (guessAlias toLower p) = true :=
  isLowerIdent_isIdent (guessAlias_legal toLower p)

/-! ## C. the uniquifier -/

theorem candidate_zero (name : Str) : candidate name 0 = name := rfl

theorem candidate_pos (name : Str) {i : Nat} (h : i ≠ 0) :
    candidate name i = name ++ Str.natDec i := by
  simp [candidate, h]

/-- `fmt.Sprintf("%s%d")` candidates are pairwise distinct -/
theorem candidate_injective {name : Str} {i j : Nat} (h : candidate name i = candidate name j) :
    i = j := by
  by_cases hi : i = 0 <;> by_cases hj : j = 0
  · omega
  · subst hi
    rw [candidate_zero, candidate_pos name hj] at h
    exact absurd (List.self_eq_append_right.mp h) (natDec_ne_nil j)
  · subst hj
    rw [candidate_zero, candidate_pos name hi] at h
    exact absurd (List.self_eq_append_right.mp h.symm) (natDec_ne_nil i)
  · rw [candidate_pos name hi, candidate_pos name hj] at h
    exact natDec_injective (List.append_cancel_left h)

theorem candidate_pos_ne_dot (name : Str) {i : Nat} (hi : i ≠ 0) : candidate name i ≠ b!"." := by
  rw [candidate_pos name hi]
  intro h
  have hd := natDec_digits i
  cases name with
  | nil =>
    simp only [List.nil_append] at h
    rw [h] at hd
    revert hd; decide
  | cons c cs =>
    simp only [List.cons_append, List.cons.injEq, List.append_eq_nil_iff] at h
    exact natDec_ne_nil i h.2.2

theorem candidate_length (name : Str) (i : Nat) : name.length ≤ (candidate name i).length := by
  unfold candidate; split <;> simp

theorem prefixed_of_pfx_nil {f : FileS} (h : f.pfx = []) (n : Str) (a : Bool) :
    prefixed f n a = n := by
  simp [prefixed, h]

theorem prefixed_false (f : FileS) (n : Str) : prefixed f n false = n := by
  simp [prefixed]

theorem prefixed_dot (f : FileS) (a : Bool) : prefixed f b!"." a = b!"." := by
  simp [prefixed]

theorem prefixed_true {f : FileS} (h : f.pfx ≠ []) {n : Str} (hn : n ≠ b!".") :
    prefixed f n true = f.pfx ++ b!"_" ++ n := by
  simp [prefixed, h, hn]

theorem prefixed_cases (f : FileS) (n : Str) (a : Bool) :
    prefixed f n a = n ∨ (f.pfx ≠ [] ∧ prefixed f n a = f.pfx ++ b!"_" ++ n) := by
  unfold prefixed
  split
  · rename_i h
    right
    simp only [Bool.and_eq_true, bne_iff_ne, ne_eq] at h
    exact ⟨h.1.1, rfl⟩
  · left; rfl

/-- with the alias flag fixed to `true`, `prefixed` is injective -/
theorem prefixed_true_injective {f : FileS} {n m : Str}
    (h : prefixed f n true = prefixed f m true) : n = m := by
  by_cases hp : f.pfx = []
  · simpa [prefixed_of_pfx_nil hp] using h
  · have hlen : 0 < f.pfx.length := List.length_pos_iff.mpr hp
    by_cases hn : n = b!"." <;> by_cases hm : m = b!"."
    · rw [hn, hm]
    · rw [hn, prefixed_dot, prefixed_true hp hm] at h
      have := congrArg List.length h
      simp at this; omega
    · rw [hm, prefixed_dot, prefixed_true hp hn] at h
      have := congrArg List.length h
      simp at this; omega
    · rw [prefixed_true hp hn, prefixed_true hp hm] at h
      exact List.append_cancel_left h

/-- the second string tested by `acceptable` at index `i` -/
def pcand (f : FileS) (name : Str) (alias : Bool) (i : Nat) : Str :=
  prefixed f (candidate name i) (alias || i != 0)

theorem pcand_pos (f : FileS) (name : Str) (alias : Bool) {i : Nat} (h : i ≠ 0) :
    pcand f name alias i = prefixed f (candidate name i) true := by
  have e : (i != 0) = true := bne_iff_ne.mpr h
  unfold pcand
  rw [e, Bool.or_true]

theorem pcand_injective {f : FileS} {name : Str} {alias : Bool} {i j : Nat}
    (h : pcand f name alias i = pcand f name alias j) : i = j := by
  cases alias with
  | true =>
    simp only [pcand, Bool.true_or] at h
    exact candidate_injective (prefixed_true_injective h)
  | false =>
    by_cases hp : f.pfx = []
    · simp only [pcand, prefixed_of_pfx_nil hp] at h
      exact candidate_injective h
    · have hlen : 0 < f.pfx.length := List.length_pos_iff.mpr hp
      by_cases hi : i = 0 <;> by_cases hj : j = 0
      · omega
      · subst hi
        rw [pcand_pos f name false hj, prefixed_true hp (candidate_pos_ne_dot name hj)] at h
        simp only [pcand, Bool.false_or, bne_self_eq_false, prefixed_false, candidate_zero] at h
        have h1 := congrArg List.length h
        have h2 := candidate_length name j
        simp at h1; omega
      · subst hj
        rw [pcand_pos f name false hi, prefixed_true hp (candidate_pos_ne_dot name hi)] at h
        simp only [pcand, Bool.false_or, bne_self_eq_false, prefixed_false, candidate_zero] at h
        have h1 := congrArg List.length h
        have h2 := candidate_length name i
        simp at h1; omega
      · rw [pcand_pos f name false hi, pcand_pos f name false hj] at h
        exact candidate_injective (prefixed_true_injective h)

theorem acceptable_eq (cfg : Cfg) (f : FileS) (name : Str) (alias : Bool) (i : Nat) :
    acceptable cfg f name alias i =
      (isValidAlias cfg f (candidate name i) && isValidAlias cfg f (pcand f name alias i)) := rfl

/-! ### counting (pigeonhole) -/

theorem countP_or_le {α} (p q : α → Bool) (l : List α) :
    l.countP (fun x => p x || q x) ≤ l.countP p + l.countP q := by
  induction l with
  | nil => simp
  | cons a l ih =>
    simp only [List.countP_cons]
    cases p a <;> cases q a <;> simp <;> omega

theorem countP_eq_le_one (g : Nat → Str) (hinj : ∀ i j, g i = g j → i = j) (b : Str) :
    ∀ l : List Nat, l.Nodup → l.countP (fun i => g i == b) ≤ 1 := by
  intro l
  induction l with
  | nil => intro _; simp
  | cons x l ih =>
    intro hnd
    rw [List.nodup_cons] at hnd
    rw [List.countP_cons]
    by_cases hx : g x = b
    · have hz : l.countP (fun i => g i == b) = 0 := by
        rw [List.countP_eq_zero]
        intro a ha hab
        have : a = x := hinj a x (by rw [hx]; exact beq_iff_eq.mp hab)
        exact hnd.1 (this ▸ ha)
      rw [hz]; simp [hx]
    · have := ih hnd.2
      simp [hx]; exact this

/-- an injective family hits a list of `n` strings at most `n` times -/
theorem count_mem_le (g : Nat → Str) (hinj : ∀ i j, g i = g j → i = j) (B : List Str)
    (l : List Nat) (hl : l.Nodup) : l.countP (fun i => decide (g i ∈ B)) ≤ B.length := by
  induction B with
  | nil => simp
  | cons b B ih =>
    have h1 : l.countP (fun i => decide (g i ∈ b :: B)) ≤
        l.countP (fun i => (g i == b) || decide (g i ∈ B)) := by
      apply List.countP_mono_left
      intro x _ hx
      simpa using hx
    have h2 := countP_or_le (fun i => g i == b) (fun i => decide (g i ∈ B)) l
    have h3 := countP_eq_le_one g hinj b l hl
    simp only [List.length_cons]
    omega

/-- the strings that can make `isValidAlias` fail -/
def badList (cfg : Cfg) (f : FileS) : List Str := cfg.reserved ++ f.imports.map (·.2.name)

theorem badList_length (cfg : Cfg) (f : FileS) :
    (badList cfg f).length = cfg.reserved.length + f.imports.length := by
  simp [badList]

theorem isValidAlias_iff (cfg : Cfg) (f : FileS) (a : Str) :
    isValidAlias cfg f a = true ↔
      a = b!"." ∨ (a ∉ cfg.reserved ∧ ∀ q e, (q, e) ∈ f.imports → e.name ≠ a) := by
  simp only [isValidAlias, Bool.or_eq_true, beq_iff_eq, Bool.and_eq_true, Bool.not_eq_true',
    List.contains_eq_mem, decide_eq_false_iff_not, List.any_eq_false, Prod.forall, ne_eq]

theorem invalid_mem_badList {cfg : Cfg} {f : FileS} {a : Str} (h : isValidAlias cfg f a = false) :
    a ∈ badList cfg f := by
  apply Classical.byContradiction
  intro hn
  have : isValidAlias cfg f a = true := by
    rw [isValidAlias_iff]
    right
    simp only [badList, List.mem_append, List.mem_map, not_or] at hn
    exact ⟨hn.1, fun q e he hne => hn.2 ⟨(q, e), he, hne⟩⟩
  rw [this] at h; cases h

/-- pigeonhole: among the indices `0 … 2·(|reserved| + |imports|)` one is acceptable -/
theorem uniqLoop_finds (cfg : Cfg) (f : FileS) (name : Str) (alias : Bool) :
    ∃ i, i ≤ 2 * (cfg.reserved.length + f.imports.length) ∧
      acceptable cfg f name alias i = true := by
  apply Classical.byContradiction
  intro hne
  have hall : ∀ i, i ≤ 2 * (cfg.reserved.length + f.imports.length) →
      acceptable cfg f name alias i = false := by
    intro i hi
    cases h : acceptable cfg f name alias i with
    | false => rfl
    | true => exact absurd ⟨i, hi, h⟩ hne
  let n := 2 * (cfg.reserved.length + f.imports.length) + 1
  have c1 : (List.range n).countP (fun i => !acceptable cfg f name alias i) = n := by
    have : (List.range n).countP (fun i => !acceptable cfg f name alias i)
        = (List.range n).length := by
      rw [List.countP_eq_length]
      intro a ha
      have := hall a (by have := List.mem_range.mp ha; omega)
      simp [this]
    rw [this, List.length_range]
  have c2 : (List.range n).countP (fun i => !acceptable cfg f name alias i) ≤
      (List.range n).countP (fun i => decide (candidate name i ∈ badList cfg f) ||
        decide (pcand f name alias i ∈ badList cfg f)) := by
    apply List.countP_mono_left
    intro i _ hi
    rw [acceptable_eq] at hi
    simp only [Bool.not_eq_true', Bool.and_eq_false_iff] at hi
    simp only [Bool.or_eq_true, decide_eq_true_eq]
    rcases hi with hi | hi
    · exact Or.inl (invalid_mem_badList hi)
    · exact Or.inr (invalid_mem_badList hi)
  have c3 := countP_or_le (fun i => decide (candidate name i ∈ badList cfg f))
    (fun i => decide (pcand f name alias i ∈ badList cfg f)) (List.range n)
  have c4 := count_mem_le (fun i => candidate name i) (fun _ _ => candidate_injective)
    (badList cfg f) (List.range n) List.nodup_range
  have c5 := count_mem_le (fun i => pcand f name alias i) (fun _ _ => pcand_injective)
    (badList cfg f) (List.range n) List.nodup_range
  rw [badList_length] at c4 c5
  omega

/-- the loop returns the least acceptable index at or after `i` when the fuel reaches one -/
theorem uniqLoop_min (cfg : Cfg) (f : FileS) (name : Str) (alias : Bool) :
    ∀ (fuel i k : Nat), i ≤ k → k < i + fuel → acceptable cfg f name alias k = true →
      acceptable cfg f name alias (uniqLoop cfg f name alias fuel i) = true ∧
      i ≤ uniqLoop cfg f name alias fuel i ∧ uniqLoop cfg f name alias fuel i ≤ k ∧
      ∀ j, i ≤ j → j < uniqLoop cfg f name alias fuel i →
        acceptable cfg f name alias j = false := by
  intro fuel
  induction fuel with
  | zero => intro i k h1 h2; omega
  | succ fuel ih =>
    intro i k h1 h2 hk
    unfold uniqLoop
    split
    · rename_i hi
      exact ⟨hi, Nat.le_refl _, h1, fun j hj1 hj2 => by omega⟩
    · rename_i hi
      have hik : i ≠ k := by intro e; subst e; exact hi hk
      obtain ⟨a1, a2, a3, a4⟩ := ih (i + 1) k (by omega) (by omega) hk
      refine ⟨a1, by omega, a3, fun j hj1 hj2 => ?_⟩
      by_cases hji : j = i
      · subst hji; simpa using hi
      · exact a4 j (by omega) hj2

/-- the fuel `uniqFuel` always suffices: the loop returns the least acceptable index -/
theorem uniqLoop_spec (cfg : Cfg) (f : FileS) (name : Str) (alias : Bool) :
    let i := uniqLoop cfg f name alias (uniqFuel cfg f) 0
    acceptable cfg f name alias i = true ∧ ∀ j, j < i → acceptable cfg f name alias j = false := by
  obtain ⟨k, hk, hacc⟩ := uniqLoop_finds cfg f name alias
  obtain ⟨a1, _, _, a4⟩ :=
    uniqLoop_min cfg f name alias (uniqFuel cfg f) 0 k (Nat.zero_le _) (by unfold uniqFuel; omega) hacc
  exact ⟨a1, fun j hj => a4 j (Nat.zero_le _) hj⟩

theorem uniqLoop_le_bound (cfg : Cfg) (f : FileS) (name : Str) (alias : Bool) :
    uniqLoop cfg f name alias (uniqFuel cfg f) 0 ≤ 2 * (cfg.reserved.length + f.imports.length) := by
  obtain ⟨k, hk, hacc⟩ := uniqLoop_finds cfg f name alias
  obtain ⟨_, _, a3, _⟩ :=
    uniqLoop_min cfg f name alias (uniqFuel cfg f) 0 k (Nat.zero_le _) (by unfold uniqFuel; omega) hacc
  omega

/-! ## D. association-list facts -/

theorem lookup_insert_self {β} (m : List (Str × β)) (k : Str) (v : β) :
    AList.lookup (AList.insert m k v) k = some v := by
  induction m with
  | nil => simp [AList.insert, AList.lookup]
  | cons x m ih =>
    obtain ⟨k', v'⟩ := x
    simp only [AList.insert]
    split
    · simp [AList.lookup]
    · rename_i h
      simp [AList.lookup, h, ih]

theorem lookup_insert_ne {β} (m : List (Str × β)) {k k' : Str} (v : β) (h : k' ≠ k) :
    AList.lookup (AList.insert m k v) k' = AList.lookup m k' := by
  induction m with
  | nil =>
    have : ¬ k = k' := fun e => h e.symm
    simp [AList.insert, AList.lookup, this]
  | cons x m ih =>
    obtain ⟨k0, v0⟩ := x
    simp only [AList.insert]
    split
    · rename_i hk
      have hk : k0 = k := beq_iff_eq.mp hk
      subst hk
      have : ¬ k0 = k' := fun e => h e.symm
      simp [AList.lookup, this]
    · simp only [AList.lookup, ih]

theorem mem_insert {β} {m : List (Str × β)} {k : Str} {v : β} {x : Str × β}
    (h : x ∈ AList.insert m k v) : x = (k, v) ∨ x ∈ m := by
  induction m with
  | nil => simp [AList.insert] at h; exact Or.inl h
  | cons y m ih =>
    obtain ⟨k0, v0⟩ := y
    simp only [AList.insert] at h
    split at h
    · rcases List.mem_cons.mp h with h | h
      · exact Or.inl h
      · exact Or.inr (List.mem_cons_of_mem _ h)
    · rcases List.mem_cons.mp h with h | h
      · exact Or.inr (h ▸ List.mem_cons_self)
      · rcases ih h with h | h
        · exact Or.inl h
        · exact Or.inr (List.mem_cons_of_mem _ h)

theorem mem_insert_self {β} (m : List (Str × β)) (k : Str) (v : β) :
    (k, v) ∈ AList.insert m k v := by
  induction m with
  | nil => simp [AList.insert]
  | cons y m ih =>
    obtain ⟨k0, v0⟩ := y
    simp only [AList.insert]
    split
    · exact List.mem_cons_self
    · exact List.mem_cons_of_mem _ ih

theorem lookup_mem {β} {m : List (Str × β)} {k : Str} {v : β} (h : AList.lookup m k = some v) :
    (k, v) ∈ m := by
  induction m with
  | nil => simp [AList.lookup] at h
  | cons y m ih =>
    obtain ⟨k0, v0⟩ := y
    simp only [AList.lookup] at h
    split at h
    · rename_i hk
      have hk : k0 = k := beq_iff_eq.mp hk
      cases h; subst hk
      exact List.mem_cons_self
    · exact List.mem_cons_of_mem _ (ih h)

theorem keys_insert_nodup {β} (m : List (Str × β)) (k : Str) (v : β)
    (h : (m.map (·.1)).Nodup) : ((AList.insert m k v).map (·.1)).Nodup := by
  induction m with
  | nil => simp [AList.insert]
  | cons y m ih =>
    obtain ⟨k0, v0⟩ := y
    simp only [List.map_cons, List.nodup_cons] at h
    simp only [AList.insert]
    split
    · rename_i hk
      have hk : k0 = k := beq_iff_eq.mp hk
      subst hk
      simp only [List.map_cons, List.nodup_cons]
      exact h
    · rename_i hk
      have hk : k0 ≠ k := fun e => hk (beq_iff_eq.mpr e)
      simp only [List.map_cons, List.nodup_cons]
      refine ⟨?_, ih h.2⟩
      intro hmem
      obtain ⟨x, hx, hx1⟩ := List.mem_map.mp hmem
      rcases mem_insert hx with e | e
      · subst e; exact hk hx1.symm
      · exact h.1 (List.mem_map.mpr ⟨x, e, hx1⟩)

/-! ## D. the registry invariant -/

/-- a name that takes part in Go's package-name scope: not absent, not `_`, not `.` -/
def realName (n : Str) : Bool := n != [] && n != b!"_" && n != b!"."

theorem realName_iff (n : Str) : realName n = true ↔ n ≠ [] ∧ n ≠ b!"_" ∧ n ≠ b!"." := by
  simp [realName, and_assoc]

/-- the registry invariant (DESIGN T-I) -/
structure Inv (cfg : Cfg) (f : FileS) : Prop where
  /-- (1) the map has one entry per path -/
  keysDistinct : (f.imports.map (·.1)).Nodup
  /-- (2) distinct paths never share a real name -/
  namesUnique : ∀ p q d e, (p, d) ∈ f.imports → (q, e) ∈ f.imports →
    realName d.name = true → d.name = e.name → p = q
  /-- (3) every real name is a Go identifier and not reserved (the pseudo-package `"C"` is
      stored under the fixed name `C` without consulting `reserved`) -/
  namesLegal : ∀ p d, (p, d) ∈ f.imports → realName d.name = true →
    isIdent d.name = true ∧ (d.name ∉ cfg.reserved ∨ p = b!"C")
  /-- no entry with the empty name is ever stored -/
  noEmpty : ∀ p d, (p, d) ∈ f.imports → d.name ≠ []
  /-- (4) `"C"`, if present, is `("C", false)` or the Anon entry -/
  cEntry : ∀ d, (b!"C", d) ∈ f.imports → d = ⟨b!"C", false⟩ ∨ d = ⟨b!"_", true⟩

/-- the hint guard: hint names are empty (= no hint), `.` (aliases only) or ASCII identifiers
    other than `_`; the prefix is empty or an identifier -/
def HintsOk (f : FileS) : Prop :=
  (∀ p h, (p, h) ∈ f.hints →
      h.name = [] ∨ (h.name = b!"." ∧ h.alias = true) ∨ (isIdent h.name = true ∧ h.name ≠ b!"_")) ∧
  (f.pfx = [] ∨ isIdent f.pfx = true)

/-- the regenerated table only holds identifiers other than `_` -/
def StdOk (cfg : Cfg) : Prop :=
  ∀ p n, (p, n) ∈ cfg.stdHints → n = [] ∨ (isIdent n = true ∧ n ≠ b!"_")

/-- guard for registering the pseudo-package `"C"`: no *other* path already carries the name `C`
    (`register` stores `("C", false)` for `"C"` without calling `isValidAlias`) -/
def CGuard (f : FileS) (p : Str) : Prop :=
  p = b!"C" → ∀ q e, (q, e) ∈ f.imports → e.name = b!"C" → q = b!"C"

theorem inv_empty (cfg : Cfg) : Inv cfg {} := by
  constructor <;> simp

/-- `Inv` only depends on the `imports` field -/
theorem inv_congr {cfg : Cfg} {f g : FileS} (h : g.imports = f.imports) (hI : Inv cfg f) :
    Inv cfg g := by
  obtain ⟨a, b, c, d, e⟩ := hI
  constructor
  · rw [h]; exact a
  · rw [h]; exact b
  · rw [h]; exact c
  · rw [h]; exact d
  · rw [h]; exact e

/-- inserting an entry whose name is fresh and legal preserves the invariant -/
theorem inv_insert {cfg : Cfg} {f : FileS} (hI : Inv cfg f) (p : Str) (d : Def)
    (hne : d.name ≠ [])
    (hfresh : realName d.name = true → ∀ q e, (q, e) ∈ f.imports → e.name = d.name → q = p)
    (hlegal : realName d.name = true →
      isIdent d.name = true ∧ (d.name ∉ cfg.reserved ∨ p = b!"C"))
    (hC : p = b!"C" → d = ⟨b!"C", false⟩ ∨ d = ⟨b!"_", true⟩) :
    Inv cfg { f with imports := AList.insert f.imports p d } := by
  constructor
  · exact keys_insert_nodup _ _ _ hI.keysDistinct
  · intro p' q' d' e' h1 h2 hr hde
    rcases mem_insert h1 with e1 | e1 <;> rcases mem_insert h2 with e2 | e2
    · cases e1; cases e2; rfl
    · cases e1
      exact (hfresh hr q' e' e2 hde.symm).symm
    · cases e2
      exact hfresh (hde ▸ hr) p' d' e1 hde
    · exact hI.namesUnique p' q' d' e' e1 e2 hr hde
  · intro p' d' h1 hr
    rcases mem_insert h1 with e1 | e1
    · cases e1; exact hlegal hr
    · exact hI.namesLegal p' d' e1 hr
  · intro p' d' h1
    rcases mem_insert h1 with e1 | e1
    · cases e1; exact hne
    · exact hI.noEmpty p' d' e1
  · intro d' h1
    rcases mem_insert h1 with e1 | e1
    · cases e1; exact hC rfl
    · exact hI.cEntry d' e1

/-! ### lookups return members -/

theorem lookupImp_mem {f : FileS} {p : Str} (h : (lookupImp f p).name ≠ []) :
    (p, lookupImp f p) ∈ f.imports := by
  unfold lookupImp at h ⊢
  cases hl : AList.lookup f.imports p with
  | none => simp [hl] at h
  | some d => simpa using lookup_mem hl

theorem lookupHint_mem {f : FileS} {p : Str} (h : (lookupHint f p).name ≠ []) :
    (p, lookupHint f p) ∈ f.hints := by
  unfold lookupHint at h ⊢
  cases hl : AList.lookup f.hints p with
  | none => simp [hl] at h
  | some d => simpa using lookup_mem hl

theorem stdHint_mem {cfg : Cfg} {p : Str} (h : stdHint cfg p ≠ []) :
    (p, stdHint cfg p) ∈ cfg.stdHints := by
  unfold stdHint at h ⊢
  cases hl : AList.lookup cfg.stdHints p with
  | none => simp [hl] at h
  | some d => simpa using lookup_mem hl

theorem isReg_iff (f : FileS) (p : Str) :
    isReg f p = true ↔ (lookupImp f p).name ≠ [] ∧ (lookupImp f p).name ≠ b!"_" := by
  simp [isReg]

/-! ### the four branches of `register` -/

theorem register_local {cfg : Cfg} {f : FileS} {p : Str} (h : isLocal f p = true) :
    register cfg f p = ([], f) := by
  simp [register, h]

theorem register_reg {cfg : Cfg} {f : FileS} {p : Str} (h1 : isLocal f p = false)
    (h2 : isReg f p = true) : register cfg f p = ((lookupImp f p).name, f) := by
  simp [register, h1, h2]

theorem register_C_new {cfg : Cfg} {f : FileS} (h1 : isLocal f b!"C" = false)
    (h2 : isReg f b!"C" = false) :
    register cfg f b!"C" =
      (b!"C", { f with imports := AList.insert f.imports b!"C" ⟨b!"C", false⟩ }) := by
  simp [register, h1, h2]

theorem register_new {cfg : Cfg} {f : FileS} {p : Str} (h1 : isLocal f p = false)
    (h2 : isReg f p = false) (h3 : p ≠ b!"C") :
    register cfg f p =
      ((chooseDef cfg f p).name,
        { f with imports := AList.insert f.imports p (chooseDef cfg f p) }) := by
  simp [register, h1, h2, h3]

/-! ### the chosen definition -/

theorem chooseDef_eq (cfg : Cfg) (f : FileS) (p : Str) :
    chooseDef cfg f p =
      ⟨pcand f (chooseBase cfg f p).1 (chooseBase cfg f p).2
          (uniqLoop cfg f (chooseBase cfg f p).1 (chooseBase cfg f p).2 (uniqFuel cfg f) 0),
        (chooseBase cfg f p).2 ||
          uniqLoop cfg f (chooseBase cfg f p).1 (chooseBase cfg f p).2 (uniqFuel cfg f) 0 != 0⟩ :=
  rfl

/-- the stored name passed `isValidAlias` (no hypotheses) -/
theorem chooseDef_valid (cfg : Cfg) (f : FileS) (p : Str) :
    isValidAlias cfg f (chooseDef cfg f p).name = true := by
  have h := (uniqLoop_spec cfg f (chooseBase cfg f p).1 (chooseBase cfg f p).2).1
  rw [acceptable_eq, Bool.and_eq_true] at h
  rw [chooseDef_eq]
  exact h.2

theorem chooseBase_ok {cfg : Cfg} {f : FileS} (hH : HintsOk f) (hS : StdOk cfg) (p : Str) :
    ((chooseBase cfg f p).1 = b!"." ∧ (chooseBase cfg f p).2 = true) ∨
      (isIdent (chooseBase cfg f p).1 = true ∧ (chooseBase cfg f p).1 ≠ b!"_") := by
  unfold chooseBase
  split
  · rename_i h
    have h : (lookupHint f p).name ≠ [] := bne_iff_ne.mp h
    rcases hH.1 p _ (lookupHint_mem h) with h0 | h1 | h2
    · exact absurd h0 h
    · exact Or.inl h1
    · exact Or.inr h2
  · split
    · rename_i _ h
      have h : stdHint cfg p ≠ [] := bne_iff_ne.mp h
      rcases hS p _ (stdHint_mem h) with h0 | h2
      · exact absurd h0 h
      · exact Or.inr h2
    · right
      refine ⟨guessAlias_ident _ _, ?_⟩
      intro e
      have e : guessAlias cfg.toLower p = b!"_" := e
      have := guessAlias_legal cfg.toLower p
      rw [e] at this
      revert this; decide

theorem chooseBase_ne_nil (cfg : Cfg) (f : FileS) (p : Str) : (chooseBase cfg f p).1 ≠ [] := by
  unfold chooseBase
  split
  · rename_i h; exact bne_iff_ne.mp h
  · split
    · rename_i _ h; exact bne_iff_ne.mp h
    · exact isIdent_ne_nil (guessAlias_ident _ _)

theorem pcand_name_ok {f : FileS} (hpf : f.pfx = [] ∨ isIdent f.pfx = true) {n : Str}
    (hn : isIdent n = true) (hu : n ≠ b!"_") (a : Bool) (i : Nat) :
    isIdent (pcand f n a i) = true ∧ pcand f n a i ≠ b!"_" := by
  have hc : isIdent (candidate n i) = true ∧ candidate n i ≠ b!"_" := by
    by_cases hi : i = 0
    · subst hi; exact ⟨hn, hu⟩
    · rw [candidate_pos n hi]
      refine ⟨isIdent_append_natDec i hn, ?_⟩
      intro e
      have h1 := congrArg List.length e
      have h2 := natDec_length_pos i
      have h3 := List.length_pos_iff.mpr (isIdent_ne_nil hn)
      simp at h1; omega
  unfold pcand
  rcases prefixed_cases f (candidate n i) (a || i != 0) with e | ⟨hp, e⟩
  · rw [e]; exact hc
  · rw [e]
    have hpi : isIdent f.pfx = true := by
      rcases hpf with h | h
      · exact absurd h hp
      · exact h
    refine ⟨isIdent_prefix hpi hc.1, ?_⟩
    intro e'
    have h1 := congrArg List.length e'
    have h2 := List.length_pos_iff.mpr hp
    simp at h1; omega

/-- under the guards the stored name is `.` or an identifier other than `_` -/
theorem chooseDef_name_ok {cfg : Cfg} {f : FileS} (hH : HintsOk f) (hS : StdOk cfg) (p : Str) :
    (chooseDef cfg f p).name = b!"." ∨
      (isIdent (chooseDef cfg f p).name = true ∧ (chooseDef cfg f p).name ≠ b!"_") := by
  rw [chooseDef_eq]
  rcases chooseBase_ok hH hS p with ⟨hn, ha⟩ | ⟨hn, hu⟩
  · left
    have hsp := uniqLoop_spec cfg f (chooseBase cfg f p).1 (chooseBase cfg f p).2
    rw [hn, ha] at hsp ⊢
    have acc0 : acceptable cfg f b!"." true 0 = true := by
      rw [acceptable_eq]
      simp [pcand, candidate_zero, prefixed_dot, isValidAlias]
    have hi : uniqLoop cfg f b!"." true (uniqFuel cfg f) 0 = 0 := by
      apply Classical.byContradiction
      intro hne
      have := hsp.2 0 (Nat.pos_of_ne_zero hne)
      rw [acc0] at this; cases this
    rw [hi]
    simp [pcand, candidate_zero, prefixed_dot]
  · right
    exact pcand_name_ok hH.2 hn hu _ _

theorem pcand_ne_nil (f : FileS) {n : Str} (hn : n ≠ []) (a : Bool) (i : Nat) :
    pcand f n a i ≠ [] := by
  have h2 := List.length_pos_iff.mpr hn
  have h3 := candidate_length n i
  unfold pcand
  rcases prefixed_cases f (candidate n i) (a || i != 0) with e | ⟨_, e⟩
  · rw [e]
    intro h
    have h1 : (candidate n i).length = 0 := by rw [h]; rfl
    omega
  · rw [e]; simp

theorem chooseDef_ne_nil (cfg : Cfg) (f : FileS) (p : Str) : (chooseDef cfg f p).name ≠ [] := by
  rw [chooseDef_eq]
  exact pcand_ne_nil f (chooseBase_ne_nil cfg f p) _ _

/-- a name that differs from the hint / table / guess is always an alias -/
theorem renamed_is_aliased (cfg : Cfg) (f : FileS) (p : Str)
    (h : (chooseDef cfg f p).name ≠ (chooseBase cfg f p).1) : (chooseDef cfg f p).alias = true := by
  rw [chooseDef_eq] at h ⊢
  simp only at h ⊢
  cases ha : (chooseBase cfg f p).2 with
  | true => rfl
  | false =>
    by_cases hi : uniqLoop cfg f (chooseBase cfg f p).1 (chooseBase cfg f p).2 (uniqFuel cfg f) 0 = 0
    · exfalso
      apply h
      rw [hi, ha]
      simp [pcand, candidate_zero, prefixed_false]
    · simp only [Bool.false_or, bne_iff_ne, ne_eq]
      rw [ha] at hi
      exact hi

/-! ### `register` -/

theorem lookupImp_insert_self (f : FileS) (p : Str) (d : Def) :
    lookupImp { f with imports := AList.insert f.imports p d } p = d := by
  simp [lookupImp, lookup_insert_self]

theorem lookupImp_insert_ne (f : FileS) {p q : Str} (d : Def) (h : q ≠ p) :
    lookupImp { f with imports := AList.insert f.imports p d } q = lookupImp f q := by
  simp [lookupImp, lookup_insert_ne _ _ h]

/-- `register` either leaves the file alone or (over)writes the entry of `p` -/
theorem register_shape (cfg : Cfg) (f : FileS) (p : Str) :
    (register cfg f p).2 = f ∨
      ∃ d, (register cfg f p).2 = { f with imports := AList.insert f.imports p d } := by
  cases h1 : isLocal f p with
  | true => rw [register_local h1]; exact Or.inl rfl
  | false =>
    cases h2 : isReg f p with
    | true => rw [register_reg h1 h2]; exact Or.inl rfl
    | false =>
      by_cases h3 : p = b!"C"
      · subst h3; rw [register_C_new h1 h2]; exact Or.inr ⟨_, rfl⟩
      · rw [register_new h1 h2 h3]; exact Or.inr ⟨_, rfl⟩

/-- `register` only touches `imports` -/
theorem register_frame (cfg : Cfg) (f : FileS) (p : Str) :
    (register cfg f p).2.hints = f.hints ∧ (register cfg f p).2.pfx = f.pfx ∧
    (register cfg f p).2.path = f.path ∧ (register cfg f p).2.name = f.name ∧
    (register cfg f p).2.comments = f.comments ∧ (register cfg f p).2.headers = f.headers ∧
    (register cfg f p).2.cgo = f.cgo ∧ (register cfg f p).2.noFormat = f.noFormat ∧
    (register cfg f p).2.canonical = f.canonical := by
  rcases register_shape cfg f p with h | ⟨d, h⟩ <;> rw [h] <;> simp

theorem register_hints (cfg : Cfg) (f : FileS) (p : Str) :
    (register cfg f p).2.hints = f.hints := (register_frame cfg f p).1

/-- **T-I, preservation by `register`.**  `CGuard` is only needed for `p = "C"`. -/
theorem register_inv {cfg : Cfg} {f : FileS} (hI : Inv cfg f) (hH : HintsOk f) (hS : StdOk cfg)
    (p : Str) (hC : CGuard f p) : Inv cfg (register cfg f p).2 := by
  cases h1 : isLocal f p with
  | true => rw [register_local h1]; exact hI
  | false =>
    cases h2 : isReg f p with
    | true => rw [register_reg h1 h2]; exact hI
    | false =>
      by_cases h3 : p = b!"C"
      · subst h3
        rw [register_C_new h1 h2]
        apply inv_insert hI
        · simp
        · intro _ q e he hn; exact hC rfl q e he hn
        · intro _; exact ⟨by decide, Or.inr rfl⟩
        · intro _; exact Or.inl rfl
      · rw [register_new h1 h2 h3]
        apply inv_insert hI
        · exact chooseDef_ne_nil cfg f p
        · intro hr q e he hn
          have hv := chooseDef_valid cfg f p
          rw [isValidAlias_iff] at hv
          rcases hv with hv | hv
          · exact absurd hv ((realName_iff _).mp hr).2.2
          · exact absurd hn (hv.2 q e he)
        · intro hr
          have hv := chooseDef_valid cfg f p
          rw [isValidAlias_iff] at hv
          have hdot := ((realName_iff _).mp hr).2.2
          rcases chooseDef_name_ok hH hS p with hk | hk
          · exact absurd hk hdot
          · rcases hv with hv | hv
            · exact absurd hv hdot
            · exact ⟨hk.1, Or.inl hv.1⟩
        · intro e; exact absurd e h3

theorem register_inv_of_ne_C {cfg : Cfg} {f : FileS} (hI : Inv cfg f) (hH : HintsOk f)
    (hS : StdOk cfg) {p : Str} (hp : p ≠ b!"C") : Inv cfg (register cfg f p).2 :=
  register_inv hI hH hS p (fun e => absurd e hp)

/-- the returned name is the stored one and is non-empty (no hypotheses beyond non-locality) -/
theorem register_stored {cfg : Cfg} {f : FileS} {p : Str} (h1 : isLocal f p = false) :
    (lookupImp (register cfg f p).2 p).name = (register cfg f p).1 ∧
      (register cfg f p).1 ≠ [] := by
  cases h2 : isReg f p with
  | true =>
    rw [register_reg h1 h2]
    exact ⟨rfl, ((isReg_iff f p).mp h2).1⟩
  | false =>
    by_cases h3 : p = b!"C"
    · subst h3
      rw [register_C_new h1 h2]
      exact ⟨congrArg Def.name (lookupImp_insert_self f _ _), by simp⟩
    · rw [register_new h1 h2 h3]
      exact ⟨congrArg Def.name (lookupImp_insert_self f _ _), chooseDef_ne_nil cfg f p⟩

/-- `GoodChoose`: the chosen name is never `""` or `"_"`, and it is the stored one -/
theorem register_returns_stored {cfg : Cfg} {f : FileS} (hH : HintsOk f) (hS : StdOk cfg)
    {p : Str} (h1 : isLocal f p = false) :
    (lookupImp (register cfg f p).2 p).name = (register cfg f p).1 ∧
      (register cfg f p).1 ≠ [] ∧ (register cfg f p).1 ≠ b!"_" := by
  refine ⟨(register_stored h1).1, (register_stored h1).2, ?_⟩
  cases h2 : isReg f p with
  | true =>
    rw [register_reg h1 h2]
    exact ((isReg_iff f p).mp h2).2
  | false =>
    by_cases h3 : p = b!"C"
    · subst h3
      rw [register_C_new h1 h2]
      show (b!"C" : Str) ≠ b!"_"
      decide
    · rw [register_new h1 h2 h3]
      rcases chooseDef_name_ok hH hS p with hk | hk
      · show (chooseDef cfg f p).name ≠ b!"_"
        rw [hk]; decide
      · exact hk.2

/-- after `register`, a non-local path is registered under a real (non-`""`, non-`_`) name -/
theorem register_isReg {cfg : Cfg} {f : FileS} (hH : HintsOk f) (hS : StdOk cfg)
    {p : Str} (h1 : isLocal f p = false) : isReg (register cfg f p).2 p = true := by
  obtain ⟨a, b, c⟩ := register_returns_stored (cfg := cfg) hH hS h1
  rw [isReg_iff, a]
  exact ⟨b, c⟩

/-- already registered names never change -/
theorem register_keeps {cfg : Cfg} {f : FileS} {p q : Str} (hq : isReg f q = true) :
    lookupImp (register cfg f p).2 q = lookupImp f q := by
  cases h1 : isLocal f p with
  | true => rw [register_local h1]
  | false =>
    cases h2 : isReg f p with
    | true => rw [register_reg h1 h2]
    | false =>
      have hqp : q ≠ p := by intro e; subst e; rw [hq] at h2; cases h2
      by_cases h3 : p = b!"C"
      · subst h3
        rw [register_C_new h1 h2]
        exact lookupImp_insert_ne f _ hqp
      · rw [register_new h1 h2 h3]
        exact lookupImp_insert_ne f _ hqp

theorem register_keeps_isReg {cfg : Cfg} {f : FileS} {p q : Str} (hq : isReg f q = true) :
    isReg (register cfg f p).2 q = true := by
  unfold isReg at hq ⊢
  rw [register_keeps hq]; exact hq

/-- other paths are never touched at all -/
theorem register_other {cfg : Cfg} {f : FileS} {p q : Str} (hqp : q ≠ p) :
    lookupImp (register cfg f p).2 q = lookupImp f q := by
  rcases register_shape cfg f p with h | ⟨d, h⟩ <;> rw [h]
  exact lookupImp_insert_ne f _ hqp

/-- registering an already registered path is the identity -/
theorem register_idem {cfg : Cfg} {f : FileS} {p : Str} (h2 : isReg f p = true) :
    register cfg f p = (if isLocal f p then [] else (lookupImp f p).name, f) := by
  cases h1 : isLocal f p with
  | true => rw [register_local h1]; rfl
  | false => rw [register_reg h1 h2]; rfl

/-- C19: `"C"` is never renamed.  Without any hypothesis when it is not yet registered … -/
theorem register_C_fresh {cfg : Cfg} {f : FileS} (h1 : isLocal f b!"C" = false)
    (h2 : isReg f b!"C" = false) :
    (register cfg f b!"C").1 = b!"C" ∧
      lookupImp (register cfg f b!"C").2 b!"C" = ⟨b!"C", false⟩ := by
  rw [register_C_new h1 h2]
  exact ⟨rfl, lookupImp_insert_self f _ _⟩

/-- … and under the invariant in every state (a registered `"C"` entry can only be `("C",false)`) -/
theorem register_C {cfg : Cfg} {f : FileS} (hI : Inv cfg f) (h1 : isLocal f b!"C" = false) :
    (register cfg f b!"C").1 = b!"C" ∧
      lookupImp (register cfg f b!"C").2 b!"C" = ⟨b!"C", false⟩ := by
  cases h2 : isReg f b!"C" with
  | false => exact register_C_fresh h1 h2
  | true =>
    rw [register_reg h1 h2]
    have hr := (isReg_iff f _).mp h2
    rcases hI.cEntry _ (lookupImp_mem hr.1) with e | e
    · rw [e]; exact ⟨rfl, rfl⟩
    · rw [e] at hr; exact absurd rfl hr.2

/-! ### `anon` and the hint setters -/

theorem anon_inv {cfg : Cfg} {f : FileS} (hI : Inv cfg f) (p : Str) : Inv cfg (anon f p) := by
  unfold anon
  apply inv_insert hI
  · simp
  · intro h; exact absurd h (by decide)
  · intro h; exact absurd h (by decide)
  · intro _; exact Or.inr rfl

theorem importName_inv {cfg : Cfg} {f : FileS} (hI : Inv cfg f) (p n : Str) :
    Inv cfg (importName f p n) := inv_congr (f := f) rfl hI

theorem importAlias_inv {cfg : Cfg} {f : FileS} (hI : Inv cfg f) (p n : Str) :
    Inv cfg (importAlias f p n) := inv_congr (f := f) rfl hI

theorem importNames_imports (m : List (Str × Str)) :
    ∀ f : FileS, (importNames f m).imports = f.imports ∧ (importNames f m).pfx = f.pfx := by
  induction m with
  | nil => intro f; exact ⟨rfl, rfl⟩
  | cons e m ih =>
    intro f
    have := ih (importName f e.1 e.2)
    simpa [importNames, importName] using this

theorem importNames_inv {cfg : Cfg} {f : FileS} (hI : Inv cfg f) (m : List (Str × Str)) :
    Inv cfg (importNames f m) := inv_congr (importNames_imports m f).1 hI

/-- what a hint must look like -/
def HintOk (d : Def) : Prop :=
  d.name = [] ∨ (d.name = b!"." ∧ d.alias = true) ∨ (isIdent d.name = true ∧ d.name ≠ b!"_")

theorem hintsOk_insert {f : FileS} (hH : HintsOk f) (p : Str) (d : Def) (hd : HintOk d) :
    HintsOk { f with hints := AList.insert f.hints p d } := by
  refine ⟨?_, hH.2⟩
  intro q h hm
  rcases mem_insert hm with e | e
  · cases e; exact hd
  · exact hH.1 q h e

theorem importName_hintsOk {f : FileS} (hH : HintsOk f) (p : Str) {n : Str}
    (hn : n = [] ∨ (isIdent n = true ∧ n ≠ b!"_")) : HintsOk (importName f p n) := by
  unfold importName
  apply hintsOk_insert hH
  rcases hn with h | h
  · exact Or.inl h
  · exact Or.inr (Or.inr h)

theorem importAlias_hintsOk {f : FileS} (hH : HintsOk f) (p : Str) {n : Str}
    (hn : n = [] ∨ n = b!"." ∨ (isIdent n = true ∧ n ≠ b!"_")) : HintsOk (importAlias f p n) := by
  unfold importAlias
  apply hintsOk_insert hH
  rcases hn with h | h | h
  · exact Or.inl h
  · exact Or.inr (Or.inl ⟨h, rfl⟩)
  · exact Or.inr (Or.inr h)

theorem importNames_hintsOk (m : List (Str × Str)) :
    ∀ {f : FileS}, HintsOk f →
      (∀ e, e ∈ m → e.2 = [] ∨ (isIdent e.2 = true ∧ e.2 ≠ b!"_")) → HintsOk (importNames f m) := by
  induction m with
  | nil => intro f hH _; exact hH
  | cons e m ih =>
    intro f hH hm
    have h1 := importName_hintsOk hH e.1 (hm e List.mem_cons_self)
    exact ih h1 (fun e' he' => hm e' (List.mem_cons_of_mem _ he'))

theorem hintsOk_congr {f g : FileS} (h1 : g.hints = f.hints) (h2 : g.pfx = f.pfx)
    (hH : HintsOk f) : HintsOk g := by
  unfold HintsOk at *
  rw [h1, h2]; exact hH

theorem register_hintsOk {cfg : Cfg} {f : FileS} (hH : HintsOk f) (p : Str) :
    HintsOk (register cfg f p).2 :=
  hintsOk_congr (register_frame cfg f p).1 (register_frame cfg f p).2.1 hH

theorem anon_hintsOk {f : FileS} (hH : HintsOk f) (p : Str) : HintsOk (anon f p) :=
  hintsOk_congr rfl rfl hH

/-! ### the name `C`

  `register` stores `("C", false)` for the path `"C"` without calling `isValidAlias`.  So if
  another path was registered under the *name* `C` before (only possible through a user hint
  `ImportName(q, "C")`/`ImportAlias(q, "C")` or a table entry `C`), registering `"C"` afterwards
  yields two packages named `C` — see the `example` at the end.  `CGuard` rules this out; it
  follows from `CFree`, which is itself an invariant when no hint and no table entry is `C`. -/

/-- no path other than `"C"` is registered under the name `C` -/
def CFree (f : FileS) : Prop := ∀ q e, (q, e) ∈ f.imports → e.name = b!"C" → q = b!"C"

/-- no hint and no table entry proposes the name `C` for a path other than `"C"` -/
def NoCHints (cfg : Cfg) (f : FileS) : Prop :=
  (∀ p h, (p, h) ∈ f.hints → p ≠ b!"C" → h.name ≠ b!"C") ∧
  (∀ p n, (p, n) ∈ cfg.stdHints → p ≠ b!"C" → n ≠ b!"C")

theorem cfree_cguard {f : FileS} (h : CFree f) (p : Str) : CGuard f p := fun _ => h

theorem cfree_empty : CFree {} := by intro q e h; simp at h

/-- when `C` is reserved, `Inv` alone implies `CFree` -/
theorem cfree_of_reserved {cfg : Cfg} {f : FileS} (hI : Inv cfg f) (hr : b!"C" ∈ cfg.reserved) :
    CFree f := by
  intro q e he hn
  have hreal : realName e.name = true := by rw [hn]; decide
  rcases (hI.namesLegal q e he hreal).2 with h | h
  · rw [hn] at h; exact absurd hr h
  · exact h

theorem pcand_len_one {f : FileS} {n s : Str} {a : Bool} {i : Nat} (hn : n ≠ [])
    (hs : s.length = 1) (h : pcand f n a i = s) : n = s := by
  have h2 := List.length_pos_iff.mpr hn
  unfold pcand at h
  rcases prefixed_cases f (candidate n i) (a || i != 0) with e | ⟨hp, e⟩
  · rw [e] at h
    by_cases hi : i = 0
    · subst hi; exact h
    · rw [candidate_pos n hi] at h
      have h1 := congrArg List.length h
      have h3 := natDec_length_pos i
      simp at h1; omega
  · rw [e] at h
    have h1 := congrArg List.length h
    have h3 := List.length_pos_iff.mpr hp
    simp at h1; omega

theorem chooseDef_ne_C {cfg : Cfg} {f : FileS} (hN : NoCHints cfg f) {p : Str} (hp : p ≠ b!"C") :
    (chooseDef cfg f p).name ≠ b!"C" := by
  intro h
  rw [chooseDef_eq] at h
  have hb := pcand_len_one (chooseBase_ne_nil cfg f p) rfl h
  revert hb
  unfold chooseBase
  split
  · rename_i hh
    exact hN.1 p _ (lookupHint_mem (bne_iff_ne.mp hh)) hp
  · split
    · rename_i _ hh
      exact hN.2 p _ (stdHint_mem (bne_iff_ne.mp hh)) hp
    · intro e
      have e : guessAlias cfg.toLower p = b!"C" := e
      have := guessAlias_legal cfg.toLower p
      rw [e] at this
      revert this; decide

theorem register_cfree {cfg : Cfg} {f : FileS} (hF : CFree f) (hN : NoCHints cfg f) (p : Str) :
    CFree (register cfg f p).2 := by
  cases h1 : isLocal f p with
  | true => rw [register_local h1]; exact hF
  | false =>
    cases h2 : isReg f p with
    | true => rw [register_reg h1 h2]; exact hF
    | false =>
      by_cases h3 : p = b!"C"
      · subst h3
        rw [register_C_new h1 h2]
        intro q e he hn
        rcases mem_insert he with e1 | e1
        · cases e1; rfl
        · exact hF q e e1 hn
      · rw [register_new h1 h2 h3]
        intro q e he hn
        rcases mem_insert he with e1 | e1
        · cases e1; exact absurd hn (chooseDef_ne_C hN h3)
        · exact hF q e e1 hn

theorem anon_cfree {f : FileS} (hF : CFree f) (p : Str) : CFree (anon f p) := by
  intro q e he hn
  rcases mem_insert he with e1 | e1
  · cases e1; exact absurd hn (by decide)
  · exact hF q e e1 hn

theorem noCHints_register {cfg : Cfg} {f : FileS} (hN : NoCHints cfg f) (p : Str) :
    NoCHints cfg (register cfg f p).2 := by
  unfold NoCHints at *
  rw [register_hints]; exact hN

/-- the unconditional form of T-I: `Inv ∧ CFree` is preserved by every `register` -/
theorem register_inv_cfree {cfg : Cfg} {f : FileS} (hI : Inv cfg f) (hF : CFree f)
    (hH : HintsOk f) (hS : StdOk cfg) (hN : NoCHints cfg f) (p : Str) :
    Inv cfg (register cfg f p).2 ∧ CFree (register cfg f p).2 :=
  ⟨register_inv hI hH hS p (cfree_cguard hF p), register_cfree hF hN p⟩

theorem importName_noCHints {cfg : Cfg} {f : FileS} (hN : NoCHints cfg f) (p : Str) {n : Str}
    (hn : p = b!"C" ∨ n ≠ b!"C") : NoCHints cfg (importName f p n) := by
  refine ⟨?_, hN.2⟩
  intro q h hm hq
  rcases mem_insert hm with e | e
  · cases e
    rcases hn with hn | hn
    · exact absurd hn hq
    · exact hn
  · exact hN.1 q h e hq

theorem importAlias_noCHints {cfg : Cfg} {f : FileS} (hN : NoCHints cfg f) (p : Str) {n : Str}
    (hn : p = b!"C" ∨ n ≠ b!"C") : NoCHints cfg (importAlias f p n) := by
  refine ⟨?_, hN.2⟩
  intro q h hm hq
  rcases mem_insert hm with e | e
  · cases e
    rcases hn with hn | hn
    · exact absurd hn hq
    · exact hn
  · exact hN.1 q h e hq

/-- `Anon` overwrites the entry of `p` with `("_", true)` and touches nothing else -/
theorem anon_lookup (f : FileS) (p : Str) : lookupImp (anon f p) p = ⟨b!"_", true⟩ :=
  lookupImp_insert_self f p _

theorem anon_other (f : FileS) {p q : Str} (h : q ≠ p) : lookupImp (anon f p) q = lookupImp f q :=
  lookupImp_insert_ne f _ h

/-! ## Examples: the hypotheses are satisfiable by non-trivial states -/

section Examples

def cfg0 : Cfg := ⟨id, fun _ => true, [b!"go", b!"err"], [(b!"fmt", b!"fmt")]⟩

/-- a file with package prefix `p` and the alias hint `go` (a keyword!) for `x.com/a` -/
def f0 : FileS := { path := b!"main", hints := [(b!"x.com/a", ⟨b!"go", true⟩)], pfx := b!"p" }

def f1 : FileS := (register cfg0 f0 b!"x.com/a").2
def f2 : FileS := (register cfg0 f1 b!"fmt").2
def f3 : FileS := (register cfg0 f2 b!"y.org/fmt/").2

theorem stdOk_cfg0 : StdOk cfg0 := by
  intro p n h
  simp only [cfg0, List.mem_singleton, Prod.mk.injEq] at h
  right; rw [h.2]; decide

theorem hintsOk_f0 : HintsOk f0 := by
  refine ⟨?_, Or.inr (by decide)⟩
  intro p h hm
  simp only [f0, List.mem_singleton, Prod.mk.injEq] at hm
  right; right; rw [hm.2]; decide

theorem noCHints_f0 : NoCHints cfg0 f0 := by
  refine ⟨?_, ?_⟩
  · intro p h hm _
    simp only [f0, List.mem_singleton, Prod.mk.injEq] at hm
    rw [hm.2]; decide
  · intro p n hm _
    simp only [cfg0, List.mem_singleton, Prod.mk.injEq] at hm
    rw [hm.2]; decide

/-- the keyword hint is renamed (`go1`), prefixed, and marked as an alias; the table name `fmt`
    is kept without alias; a second package guessed `fmt` becomes `p_fmt1` -/
example : f3.imports =
    [(b!"x.com/a", ⟨b!"p_go1", true⟩), (b!"fmt", ⟨b!"fmt", false⟩),
     (b!"y.org/fmt/", ⟨b!"p_fmt1", true⟩)] := by decide

theorem inv_f0 : Inv cfg0 f0 := inv_congr (f := {}) rfl (inv_empty cfg0)

example : Inv cfg0 f3 ∧ HintsOk f3 ∧ CFree f3 := by
  have h1 := register_inv_cfree inv_f0 (fun _ _ h => by simp [f0] at h) hintsOk_f0 stdOk_cfg0
    noCHints_f0 b!"x.com/a"
  have h2 := register_inv_cfree h1.1 h1.2 (register_hintsOk hintsOk_f0 _) stdOk_cfg0
    (noCHints_register noCHints_f0 _) b!"fmt"
  have h3 := register_inv_cfree h2.1 h2.2 (register_hintsOk (register_hintsOk hintsOk_f0 _) _)
    stdOk_cfg0 (noCHints_register (noCHints_register noCHints_f0 _) _) b!"y.org/fmt/"
  exact ⟨h3.1, register_hintsOk (register_hintsOk (register_hintsOk hintsOk_f0 _) _) _, h3.2⟩

/-- `CGuard` cannot be dropped: a hint `C` for another path, then a reference to `"C"`, gives
    two imports named `C` (the same happens in jen/file.go: the `"C"` branch of `register`
    does not call `isValidAlias`). -/
def fC : FileS := { hints := [(b!"x/c", ⟨b!"C", false⟩)] }
def fC2 : FileS := (register cfg0 (register cfg0 fC b!"x/c").2 b!"C").2

theorem fC2_imports :
    fC2.imports = [(b!"x/c", ⟨b!"C", false⟩), (b!"C", ⟨b!"C", false⟩)] := by decide

example : HintsOk fC ∧ Inv cfg0 (register cfg0 fC b!"x/c").2 ∧ ¬ Inv cfg0 fC2 := by
  have hH : HintsOk fC := by
    refine ⟨?_, Or.inl rfl⟩
    intro p h hm
    simp only [fC, List.mem_singleton, Prod.mk.injEq] at hm
    right; right; rw [hm.2]; decide
  have hI : Inv cfg0 fC := inv_congr (f := {}) rfl (inv_empty cfg0)
  have hne : (b!"x/c" : Str) ≠ b!"C" := by decide
  refine ⟨hH, register_inv_of_ne_C hI hH stdOk_cfg0 hne, ?_⟩
  intro h
  have := h.namesUnique b!"x/c" b!"C" ⟨b!"C", false⟩ ⟨b!"C", false⟩
    (by rw [fC2_imports]; simp) (by rw [fC2_imports]; simp) (by decide) rfl
  revert this; decide

end Examples

/-! ## axioms -/

#print axioms isLowerIdent_isIdent
#print axioms isIdent_append_natDec
#print axioms isIdent_prefix
#print axioms natDec_digits
#print axioms natDec_ne_nil
#print axioms natDec_injective
#print axioms guessAlias_legal
#print axioms candidate_injective
#print axioms pcand_injective
#print axioms uniqLoop_finds
#print axioms uniqLoop_spec
#print axioms inv_empty
#print axioms register_inv
#print axioms register_inv_cfree
#print axioms register_returns_stored
#print axioms register_keeps
#print axioms register_frame
#print axioms register_C
#print axioms register_C_fresh
#print axioms renamed_is_aliased
#print axioms anon_inv
#print axioms importNames_inv
#print axioms importNames_hintsOk
#print axioms importAlias_hintsOk
#print axioms register_cfree

end RegistryInv
