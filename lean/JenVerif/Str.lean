/-
  Byte strings.  Go strings are arbitrary byte sequences; the model keeps them as `List UInt8`
  so that `++`, `filter`, `Perm`, `Sublist` … lemmas of core apply directly.
-/

abbrev Str := List UInt8

namespace Str

/-- `b!"abc"` elaborates to the list literal `[97, 98, 99]` (UTF-8 bytes of the literal). -/
syntax:max "b!" str : term
open Lean in
macro_rules
  | `(b! $s:str) => do
    let bytes := s.getString.toUTF8.toList
    let elems ← bytes.toArray.mapM fun b => `(($(Syntax.mkNumLit (toString b.toNat)) : UInt8))
    `(([ $elems,* ] : Str))

def ofString (s : String) : Str := s.toUTF8.toList

/-- Rendering for diagnostics only (lossy on invalid UTF-8). -/
def toStringLossy (s : Str) : String :=
  String.ofList (s.map fun b => Char.ofNat b.toNat)

/-- bytewise lexicographic order: the order of Go's `sort.Strings` / `<` on strings. -/
def le : Str → Str → Bool
  | [], _ => true
  | _ :: _, [] => false
  | a :: as, b :: bs => if a < b then true else if b < a then false else le as bs

def lt (a b : Str) : Bool := le a b && !(a == b)

def isPrefixOf : Str → Str → Bool
  | [], _ => true
  | _ :: _, [] => false
  | a :: as, b :: bs => a == b && isPrefixOf as bs

/-- does `pat` occur in `s` -/
def hasSub (s pat : Str) : Bool :=
  match s with
  | [] => pat.isEmpty
  | c :: cs => isPrefixOf pat (c :: cs) || hasSub cs pat

def join (sep : Str) : List Str → Str
  | [] => []
  | [x] => x
  | x :: y :: rest => x ++ sep ++ join sep (y :: rest)

/-- decimal digits of a natural number (what `%d` prints). -/
def natDigitsAux : Nat → Nat → Str → Str
  | 0, _, acc => acc
  | fuel + 1, n, acc =>
    if n < 10 then (UInt8.ofNat (48 + n)) :: acc
    else natDigitsAux fuel (n / 10) ((UInt8.ofNat (48 + n % 10)) :: acc)

def natDec (n : Nat) : Str := natDigitsAux (n + 1) n []

def intDec (v : Int) : Str :=
  match v with
  | .ofNat n => natDec n
  | .negSucc n => 45 :: natDec (n + 1)

def hexDigit (n : Nat) : UInt8 := if n < 10 then UInt8.ofNat (48 + n) else UInt8.ofNat (87 + n)

def natHexAux : Nat → Nat → Str → Str
  | 0, _, acc => acc
  | fuel + 1, n, acc =>
    if n < 16 then hexDigit n :: acc
    else natHexAux fuel (n / 16) (hexDigit (n % 16) :: acc)

/-- lower-case hexadecimal digits, no prefix (`%x`). -/
def natHex (n : Nat) : Str := natHexAux (n + 1) n []

end Str

/- association lists standing for Go maps (keys kept distinct by `insert`). -/
namespace AList

def lookup {β} (m : List (Str × β)) (k : Str) : Option β :=
  match m with
  | [] => none
  | (k', v) :: rest => if k' == k then some v else lookup rest k

def insert {β} (m : List (Str × β)) (k : Str) (v : β) : List (Str × β) :=
  match m with
  | [] => [(k, v)]
  | (k', v') :: rest => if k' == k then (k, v) :: rest else (k', v') :: insert rest k v

def keys {β} (m : List (Str × β)) : List Str := m.map (·.1)

end AList
