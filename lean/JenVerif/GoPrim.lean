import JenVerif.Registry
import JenVerif.Quote
import JenVerif.Render
import JenVerif.FileRender
/-
  Primitives that the ALGORITHM translator (translator/algo.go, tie 1b) maps Go constructs to.
  Each is a small total definition with the semantics of the Go construct it stands for:

    m[k]                     Go.getDef / Go.getStr     (zero value when the key is missing)
    _, ok := m[k]            Go.has
    for _, v := range m {if c {return e}}   Go.anyEntry  (order-independent: e does not mention v)
    for c { body }           Go.loop fuel               (iterate while c; theorems say when fuel suffices)
    s[lo:hi]                 Go.slice
    strings.HasSuffix        Go.hasSuffix
    strings.LastIndex        Go.lastIndex               (-1 when absent)
    regexp `[^a-z0-9]` → ""  Go.removeNotLowerAlnum
    utf8.DecodeRuneInString, unicode.IsDigit : fields of `Go.Lib`, a PARAMETER; theorems assume
      only their documented behaviour on ASCII input and on the empty string (`Go.Lib.AsciiOk`).
-/
namespace Go

def getDef (m : List (Str × Def)) (k : Str) : Def := (AList.lookup m k).getD ⟨[], false⟩
def getStr (m : List (Str × Str)) (k : Str) : Str := (AList.lookup m k).getD []
def has {β} (m : List (Str × β)) (k : Str) : Bool := (AList.lookup m k).isSome

def anyEntry {β} (m : List (Str × β)) (p : Str → β → Bool) : Bool := m.any fun e => p e.1 e.2

/-- `for c(s) { s = b(s) }` with fuel -/
def loop {σ} : Nat → (σ → Bool) → (σ → σ) → σ → σ
  | 0, _, _, s => s
  | n + 1, c, b, s => if c s then loop n c b (b s) else s

/-- `s[lo:hi]` (bounds as Go ints; the real code panics when they are out of range, the
    translated functions only slice within range — shown by the equivalence proofs going through) -/
def slice (s : Str) (lo hi : Int) : Str := (s.take hi.toNat).drop lo.toNat

def hasSuffix (s suf : Str) : Bool := Str.isPrefixOf suf.reverse s.reverse

/-- `strings.TrimSuffix` -/
def trimSuffix (s suf : Str) : Str := if hasSuffix s suf then s.take (s.length - suf.length) else s

/-- index of the last occurrence of `pat` in `s`, or -1 -/
def lastIndexFrom (pat : Str) : Str → Nat → Int → Int
  | [], i, acc => if pat.isEmpty then Int.ofNat i else acc
  | c :: cs, i, acc => lastIndexFrom pat cs (i + 1) (if Str.isPrefixOf pat (c :: cs) then Int.ofNat i else acc)

def lastIndex (s pat : Str) : Int := lastIndexFrom pat s 0 (-1)

/-- jen/tokens.go `tokenType` -/
inductive TokTyp
  | packageToken | identifierToken | qualifiedToken | keywordToken | operatorToken | delimiterToken
  | literalToken | literalRuneToken | literalByteToken | nullToken | layoutToken
deriving DecidableEq, Repr

/-- `c == nil` for a Code interface value sitting in an item list -/
def isNil : Code → Bool
  | .nilc => true
  | _ => false

/-- the three things a render method reaches through an interface or another component:
    `c.isNull(f)`, `c.render(f, w, ctx)` (bytes so far in, bytes so far and File state out; `none` =
    an error was returned) and `f.register(path)` -/
structure Rec where
  null : FileS → Code → Bool
  render : FileS → Str → Option Code → Code → Option (Str × FileS)
  register : FileS → Str → Str × FileS

/-- `for … range xs { … }` whose body may return an error: stops at the first `none` -/
def foldOpt {σ α} (step : σ → α → Option σ) : σ → List α → Option σ
  | s, [] => some s
  | s, x :: xs => match step s x with
    | none => none
    | some s' => foldOpt step s' xs

/-- `_, ok := c.(token)`: jennifer's `token` type covers the model's `.tok` and `.lit` -/
def isToken : Code → Bool
  | .tok _ _ => true
  | .lit _ => true
  | _ => false

def tokTyp : Code → TokTyp
  | .tok .pkg _ => .packageToken
  | .tok .ident _ => .identifierToken
  | .tok .kw _ => .keywordToken
  | .tok .op _ => .operatorToken
  | .tok .delim _ => .delimiterToken
  | .tok .layout _ => .layoutToken
  | .tok .null _ => .nullToken
  | .lit (.rune _) => .literalRuneToken
  | .lit (.byte _) => .literalByteToken
  | _ => .literalToken

/-- `t.content.(string)` (only asked of package tokens) -/
def tokContent : Code → Str
  | .tok _ s => s
  | .lit (.str s) => s
  | _ => []

/-- `t.content == "lit"`: true iff the content is a string equal to it (the null token's content
    is nil in Go and the empty string in the model: never equal to a non-empty literal) -/
def tokContentIs : Code → Str → Bool
  | .tok _ s, l => s == l
  | .lit (.str s), l => s == l
  | _, _ => false

def isGroup : Code → Bool
  | .group _ _ => true
  | _ => false

def groupInfo : Code → GInfo
  | .group g _ => g
  | _ => default

def groupItems : Code → List Code
  | .group _ items => items
  | _ => []

def isDict : Code → Bool
  | .dict _ => true
  | _ => false

/-- the same questions asked of `s.previous(g)` (nil when there is no previous item) -/
def isTokenO : Option Code → Bool
  | some c => isToken c
  | none => false
def tokTypO : Option Code → TokTyp
  | some c => tokTyp c
  | none => .literalToken
def tokContentO : Option Code → Str
  | some c => tokContent c
  | none => []
def tokContentIsO : Option Code → Str → Bool
  | some c, l => tokContentIs c l
  | none, _ => false
def isGroupO : Option Code → Bool
  | some c => isGroup c
  | none => false
def groupInfoO : Option Code → GInfo
  | some c => groupInfo c
  | none => default
def groupItemsO : Option Code → List Code
  | some c => groupItems c
  | none => []
def isDictO : Option Code → Bool
  | some c => isDict c
  | none => false

/-- what a callee wrote into a LOCAL buffer handed to it as its writer (File.Save → File.Render):
    the bytes of its caller-writes, and its other effects -/
def callerWritten (es : List Effect) : Str :=
  (es.filterMap fun e => match e with | .callerWrite b => some b | _ => none).flatten
def withoutCallerWrites (es : List Effect) : List Effect :=
  es.filter fun e => match e with | .callerWrite _ => false | _ => true

/-- a search loop with `break`: `for i, x := range xs { if p x { idx = i; break } }` — the index of
    the first element satisfying `p`, the old value of `idx` when there is none -/
def firstIndexFrom {α} (p : α → Bool) (dflt : Int) : Int → List α → Int
  | _, [] => dflt
  | i, x :: xs => if p x then i else firstIndexFrom p dflt (i + 1) xs
def firstIndexOr {α} (xs : List α) (p : α → Bool) (dflt : Int) : Int := firstIndexFrom p dflt 0 xs
/-- `xs[i]` as an interface value (`none` = nil; the real code panics out of range — the theorem
    about `Statement.previous` shows the index is in range whenever it is used) -/
def itemAt {α} (xs : List α) (i : Int) : Option α := if i < 0 then none else xs[i.toNat]?

/-- `sort.Slice(keys, by key text, then by value text)` of Dict.render (any correct sort gives the
    same list up to pairs with equal key AND value text; the model sorts the same way) -/
def kvLe (a b : Str × Str × Code × Code) : Bool := dictLe (a.1, a.2.1) (b.1, b.2.1)
def sortKV (l : List (Str × Str × Code × Code)) : List (Str × Str × Code × Code) := l.mergeSort kvLe

/-- the dynamic content of a token (`interface{}`): a plain string (identifiers, keywords, operators,
    package paths …), a literal value handed to Lit / LitRune / LitByte, or nil (the null token) -/
inductive Dyn
  | str (s : Str)
  | lit (v : LitVal)
  | nil
deriving Repr

/-- the dynamic type, as the type switch of token.render spells it -/
def dynType : Dyn → String
  | .str _ => "string"
  | .nil => "nil"
  | .lit (.bool _) => "bool"
  | .lit (.str _) => "string"
  | .lit (.int _) => "int"
  | .lit (.sized ty _) => String.ofList (ty.name.map fun b => Char.ofNat b.toNat)
  | .lit (.f64 _) => "float64"
  | .lit (.f32 _) => "float32"
  | .lit (.c128 _ _) => "complex128"
  | .lit (.c64 _ _) => "complex64"
  | .lit (.rune _) => "int32"
  | .lit (.byte _) => "uint8"

def dynIs (v : Dyn) (names : List String) : Bool := names.contains (dynType v)

/-- `content.(string)` / `%s` -/
def dynStr : Dyn → Str
  | .str s => s
  | .lit (.str s) => s
  | _ => []

/-- `%T` -/
def typeName : Dyn → Str
  | .lit (.sized ty _) => ty.name
  | .lit (.f32 _) => [102, 108, 111, 97, 116, 51, 50]
  | .lit (.c64 _ _) => [99, 111, 109, 112, 108, 101, 120, 54, 52]
  | v => (dynType v).toUTF8.toList

/-- `%#v` (Go-syntax representation) of the supported literal types; floats through
    strconv.FormatFloat (the text travels with the value, see `LitVal`) -/
def sharpV (isPrint : Nat → Bool) : Dyn → Str
  | .str s => Quote.quote isPrint s
  | .nil => [60, 110, 105, 108, 62]
  | .lit (.bool true) => [116, 114, 117, 101]
  | .lit (.bool false) => [102, 97, 108, 115, 101]
  | .lit (.str s) => Quote.quote isPrint s
  | .lit (.int v) => Str.intDec v
  | .lit (.sized ty v) => Lit.fmtInt ty.signed v
  | .lit (.f64 t) => t
  | .lit (.f32 t) => t
  | .lit (.c128 re im) => Lit.fmtComplex re im
  | .lit (.c64 re im) => Lit.fmtComplex re im
  | .lit (.rune r) => Str.intDec r
  | .lit (.byte b) => [48, 120] ++ Str.natHex b.toNat

/-- `strconv.QuoteRune(content.(rune))` -/
def quoteRuneDyn (isPrint : Nat → Bool) : Dyn → Str
  | .lit (.rune r) => Quote.quoteRune isPrint r
  | _ => []

/-- the content of a model token -/
def dynOf : Code → Dyn
  | .tok .null _ => .nil
  | .tok _ s => .str s
  | .lit v => .lit v
  | _ => .nil

/-- `sort.Strings` (bytewise order) -/
def sortStrings (l : List Str) : List Str := l.mergeSort Str.le

def removeNotLowerAlnum (s : Str) : Str := s.filter Registry.isLowerAlnum

/-- delegated library functions used by `guessAlias` after the string has been reduced to
    `[a-z0-9]*` -/
structure Lib where
  decodeRune : Str → Int × Int
  isDigitRune : Int → Bool

/-- the documented behaviour of `utf8.DecodeRuneInString` and `unicode.IsDigit` on the inputs
    that can reach them: ASCII first byte, or the empty string -/
structure Lib.AsciiOk (lib : Lib) : Prop where
  decode_empty : lib.decodeRune [] = (65533, 0)
  decode_ascii : ∀ (b : UInt8) (s : Str), b.toNat < 128 → lib.decodeRune (b :: s) = (Int.ofNat b.toNat, 1)
  digit_ascii : ∀ n : Nat, n < 128 → lib.isDigitRune (Int.ofNat n) = (decide (48 ≤ n) && decide (n ≤ 57))
  digit_error : lib.isDigitRune 65533 = false

/-- a concrete library satisfying `AsciiOk` (non-vacuity; only its ASCII behaviour is Go's) -/
def Lib.ascii : Lib where
  decodeRune := fun s => match s with
    | [] => (65533, 0)
    | b :: _ => if b.toNat < 128 then (Int.ofNat b.toNat, 1) else (65533, 1)
  isDigitRune := fun r => decide (48 ≤ r) && decide (r ≤ 57)

end Go
