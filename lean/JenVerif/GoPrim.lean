import JenVerif.Registry
import JenVerif.Quote
import JenVerif.Render
/-
  Primitives that the ALGORITHM translator (translator/algo.go, tie 1b) maps Go constructs to.
  Each is a small total definition with the semantics of the Go construct it stands for:

    m[k]                     Go.getDef / Go.getStr     (zero value when the key is missing)
    _, ok := m[k]            Go.has
    for _, v := range m {if c {return e}}   Go.anyEntry  (order-independent: e does not mention v)
    for c { body }           Go.loop fuel               (iterate while c; theorems say when fuel suffices)
    s[lo:hi]                 Go.slice
    strings.HasSuffix        Go.hasSuffix
    strings.LastIndex        Go.lastIndex               (-1 when absent)
    regexp `[^a-z0-9]` → ""  Go.removeNotLowerAlnum
    utf8.DecodeRuneInString, unicode.IsDigit : fields of `Go.Lib`, a PARAMETER; theorems assume
      only their documented behaviour on ASCII input and on the empty string (`Go.Lib.AsciiOk`).
-/
namespace Go

def getDef (m : List (Str × Def)) (k : Str) : Def := (AList.lookup m k).getD ⟨[], false⟩
def getStr (m : List (Str × Str)) (k : Str) : Str := (AList.lookup m k).getD []
def has {β} (m : List (Str × β)) (k : Str) : Bool := (AList.lookup m k).isSome

def anyEntry {β} (m : List (Str × β)) (p : Str → β → Bool) : Bool := m.any fun e => p e.1 e.2

/-- `for c(s) { s = b(s) }` with fuel -/
def loop {σ} : Nat → (σ → Bool) → (σ → σ) → σ → σ
  | 0, _, _, s => s
  | n + 1, c, b, s => if c s then loop n c b (b s) else s

/-- `s[lo:hi]` (bounds as Go ints; the real code panics when they are out of range, the
    translated functions only slice within range — shown by the equivalence proofs going through) -/
def slice (s : Str) (lo hi : Int) : Str := (s.take hi.toNat).drop lo.toNat

def hasSuffix (s suf : Str) : Bool := Str.isPrefixOf suf.reverse s.reverse

/-- index of the last occurrence of `pat` in `s`, or -1 -/
def lastIndexFrom (pat : Str) : Str → Nat → Int → Int
  | [], i, acc => if pat.isEmpty then Int.ofNat i else acc
  | c :: cs, i, acc => lastIndexFrom pat cs (i + 1) (if Str.isPrefixOf pat (c :: cs) then Int.ofNat i else acc)

def lastIndex (s pat : Str) : Int := lastIndexFrom pat s 0 (-1)

/-- jen/tokens.go `tokenType` -/
inductive TokTyp
  | packageToken | identifierToken | qualifiedToken | keywordToken | operatorToken | delimiterToken
  | literalToken | literalRuneToken | literalByteToken | nullToken | layoutToken
deriving DecidableEq, Repr

/-- `c == nil` for a Code interface value sitting in an item list -/
def isNil : Code → Bool
  | .nilc => true
  | _ => false

/-- `sort.Strings` (bytewise order) -/
def sortStrings (l : List Str) : List Str := l.mergeSort Str.le

def removeNotLowerAlnum (s : Str) : Str := s.filter Registry.isLowerAlnum

/-- delegated library functions used by `guessAlias` after the string has been reduced to
    `[a-z0-9]*` -/
structure Lib where
  decodeRune : Str → Int × Int
  isDigitRune : Int → Bool

/-- the documented behaviour of `utf8.DecodeRuneInString` and `unicode.IsDigit` on the inputs
    that can reach them: ASCII first byte, or the empty string -/
structure Lib.AsciiOk (lib : Lib) : Prop where
  decode_empty : lib.decodeRune [] = (65533, 0)
  decode_ascii : ∀ (b : UInt8) (s : Str), b.toNat < 128 → lib.decodeRune (b :: s) = (Int.ofNat b.toNat, 1)
  digit_ascii : ∀ n : Nat, n < 128 → lib.isDigitRune (Int.ofNat n) = (decide (48 ≤ n) && decide (n ≤ 57))
  digit_error : lib.isDigitRune 65533 = false

/-- a concrete library satisfying `AsciiOk` (non-vacuity; only its ASCII behaviour is Go's) -/
def Lib.ascii : Lib where
  decodeRune := fun s => match s with
    | [] => (65533, 0)
    | b :: _ => if b.toNat < 128 then (Int.ofNat b.toNat, 1) else (65533, 1)
  isDigitRune := fun r => decide (48 ≤ r) && decide (r ≤ 57)

end Go
