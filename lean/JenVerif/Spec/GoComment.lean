import JenVerif.Str
/-
  Comments, transcribed from The Go Programming Language Specification, section "Comments":

    1. Line comments start with the character sequence `//` and stop at the end of the line.
    2. General comments start with the character sequence `/*` and stop with the first
       subsequent character sequence `*/`.

  `skipComment s` recognises one comment at the very start of `s` and returns
  (the comment text including its markers, the rest of the input).  A line comment does not
  include the terminating newline (byte 10); it also ends at end of input.  `none` when `s`
  does not start with a comment marker or when a general comment is not terminated.

  Core Lean only (plus the `Str` abbreviation); everything is structurally recursive and
  executable.
-/

namespace GoComment

/-- split the input in front of the first newline byte (the newline stays in the rest);
    everything when there is no newline -/
def spanLine : Str → Str × Str
  | [] => ([], [])
  | c :: cs =>
    if c == 10 then ([], c :: cs)
    else let r := spanLine cs; (c :: r.1, r.2)

/-- scan for the FIRST `*/`; returns (text up to and including that `*/`, rest);
    `none` when there is no `*/` -/
def spanGeneral : Str → Option (Str × Str)
  | [] => none
  | [_] => none
  | c :: d :: cs =>
    if c == 42 && d == 47 then some ([42, 47], cs)
    else (spanGeneral (d :: cs)).map fun r => (c :: r.1, r.2)

/-- one comment at the start of the input -/
def skipComment : Str → Option (Str × Str)
  | a :: b :: cs =>
    if a == 47 && b == 47 then
      -- `//` : up to (not including) the first newline, or to end of input
      let r := spanLine cs
      some (a :: b :: r.1, r.2)
    else if a == 47 && b == 42 then
      -- `/*` : through the first subsequent `*/`
      (spanGeneral cs).map fun r => (a :: b :: r.1, r.2)
    else none
  | _ => none

end GoComment
