import JenVerif.Str
import JenVerif.Quote
/-
  Spec-side READERS for Go literals, transcribed from the Go language specification
  (sections "Source code representation", "Rune literals", "String literals"), NOT from
  `strconv`.  They are executable and total (fuel / structural recursion) and core-only.

    string_lit             = raw_string_lit | interpreted_string_lit .
    raw_string_lit         = "`" { unicode_char | newline } "`" .
    interpreted_string_lit = `"` { unicode_value | byte_value } `"` .
    rune_lit         = "'" ( unicode_value | byte_value ) "'" .
    unicode_value    = unicode_char | little_u_value | big_u_value | escaped_char .
    byte_value       = octal_byte_value | hex_byte_value .
    octal_byte_value = `\` octal_digit octal_digit octal_digit .
    hex_byte_value   = `\` "x" hex_digit hex_digit .
    little_u_value   = `\` "u" hex_digit hex_digit hex_digit hex_digit .
    big_u_value      = `\` "U" hex_digit hex_digit hex_digit hex_digit
                               hex_digit hex_digit hex_digit hex_digit .
    escaped_char     = `\` ( "a" | "b" | "f" | "n" | "r" | "t" | "v" | `\` | "'" | `"` ) .

  Source text is UTF-8; "implementation restriction: for compatibility with other tools, a
  compiler may disallow the NUL character (U+0000)"; a byte order mark is only tolerated as the
  very first code point of a file.  The Go scanner (go/scanner, used by gofmt and the compiler)
  rejects NUL, a BOM anywhere else, and any invalid UTF-8 – so do these readers.

  The UTF-8 codec is `Quote.decodeRune` / `Quote.encodeRune`; `JenVerif/Lemmas/QuoteRT.lean`
  proves that these two are mutually inverse on valid code points / well-formed sequences, which
  pins `decodeRune` to the (simple, arithmetic) `encodeRune`.
-/

namespace GoLex

/-- value of a hex digit `0-9 a-f A-F` -/
def hexVal (b : UInt8) : Option Nat :=
  if 0x30 ≤ b && b ≤ 0x39 then some (b.toNat - 0x30)
  else if 0x61 ≤ b && b ≤ 0x66 then some (b.toNat - 0x61 + 10)
  else if 0x41 ≤ b && b ≤ 0x46 then some (b.toNat - 0x41 + 10)
  else none

/-- value of an octal digit `0-7` -/
def octVal (b : UInt8) : Option Nat :=
  if 0x30 ≤ b && b ≤ 0x37 then some (b.toNat - 0x30) else none

/-- read exactly `n` hex digits (big endian), accumulating into `acc` -/
def readHex : Nat → Nat → Str → Option (Nat × Str)
  | 0, acc, s => some (acc, s)
  | _ + 1, _, [] => none
  | n + 1, acc, c :: s =>
    match hexVal c with
    | none => none
    | some d => readHex n (acc * 16 + d) s

/-- read exactly `n` octal digits -/
def readOct : Nat → Nat → Str → Option (Nat × Str)
  | 0, acc, s => some (acc, s)
  | _ + 1, _, [] => none
  | n + 1, acc, c :: s =>
    match octVal c with
    | none => none
    | some d => readOct n (acc * 8 + d) s

/-- what one element of a literal denotes: a `byte_value` or a `unicode_value` -/
inductive Item where
  | byte (b : UInt8)
  | rune (r : Nat)
  deriving Repr, DecidableEq

/-- contribution of an item to the value of a string literal -/
def Item.bytes : Item → Str
  | .byte b => [b]
  | .rune r => Quote.encodeRune r

/-- value of an item as (the only element of) a rune literal -/
def Item.value : Item → Nat
  | .byte b => b.toNat
  | .rune r => r

/-- a code point usable by `\u` / `\U`: "the escapes \u and \U represent Unicode code points so
    within them some values are illegal, in particular those above 0x10FFFF and surrogate
    halves" -/
def validCodePoint (r : Nat) : Bool := r ≤ 0x10FFFF && !(0xD800 ≤ r && r ≤ 0xDFFF)

/-- the part of an escape after the backslash; `q` is the quote character of the enclosing
    literal (`"` for strings: `\"` legal, `\'` illegal; `'` for runes: the other way round). -/
def readEscape (q : UInt8) : Str → Option (Item × Str)
  | [] => none
  | c :: s =>
    if c == 0x61 then some (.rune 7, s)            -- \a  U+0007
    else if c == 0x62 then some (.rune 8, s)       -- \b  U+0008
    else if c == 0x66 then some (.rune 12, s)      -- \f  U+000C
    else if c == 0x6E then some (.rune 10, s)      -- \n  U+000A
    else if c == 0x72 then some (.rune 13, s)      -- \r  U+000D
    else if c == 0x74 then some (.rune 9, s)       -- \t  U+0009
    else if c == 0x76 then some (.rune 11, s)      -- \v  U+000B
    else if c == 0x5C then some (.rune 0x5C, s)    -- \\
    else if c == 0x27 || c == 0x22 then            -- \' only in rune literals, \" only in strings
      if c == q then some (.rune c.toNat, s) else none
    else if c == 0x78 then                         -- \xHH
      match readHex 2 0 s with
      | some (v, rest) => some (.byte (UInt8.ofNat v), rest)
      | none => none
    else if c == 0x75 then                         -- \uHHHH
      match readHex 4 0 s with
      | some (v, rest) => if validCodePoint v then some (.rune v, rest) else none
      | none => none
    else if c == 0x55 then                         -- \UHHHHHHHH
      match readHex 8 0 s with
      | some (v, rest) => if validCodePoint v then some (.rune v, rest) else none
      | none => none
    else
      match readOct 3 0 (c :: s) with              -- \ooo, value ≤ 255
      | some (v, rest) => if v ≤ 255 then some (.byte (UInt8.ofNat v), rest) else none
      | none => none

/-- one source character: a well-formed UTF-8 sequence (code point, width), other than NUL and
    the byte order mark.  `decodeRune` answers `(U+FFFD, 1)` exactly on malformed input (a genuine
    U+FFFD has width 3) and width 0 on empty input. -/
def readChar (s : Str) : Option (Nat × Nat) :=
  let (r, w) := Quote.decodeRune s
  if w == 0 then none
  else if w == 1 && r == Quote.runeError then none
  else if r == 0 || r == 0xFEFF then none
  else some (r, w)

/-- one element of an interpreted string literal / rune literal with quote character `q`
    (the caller has already checked that the next byte is not the closing quote for strings;
    for rune literals an unescaped `'` is illegal, which the `r == q.toNat` test covers). -/
def readItem (q : UInt8) : Str → Option (Item × Str)
  | [] => none
  | c :: t =>
    if c == 0x5C then readEscape q t
    else
      match readChar (c :: t) with
      | none => none
      | some (r, w) =>
        if r == 10 || r == q.toNat then none       -- newline / the quote itself
        else some (.rune r, (c :: t).drop w)

/-- body of an interpreted string literal, after the opening quote -/
def readStringBody : Nat → Str → Option (Str × Str)
  | 0, _ => none
  | _ + 1, [] => none
  | fuel + 1, c :: t =>
    if c == 0x22 then some ([], t)
    else
      match readItem 0x22 (c :: t) with
      | none => none
      | some (e, t') =>
        match readStringBody fuel t' with
        | none => none
        | some (v, rest) => some (e.bytes ++ v, rest)

/-- read one interpreted string literal off the front of `s`: (value, rest of the stream) -/
def readString : Str → Option (Str × Str)
  | [] => none
  | c :: t => if c == 0x22 then readStringBody (t.length + 1) t else none

/-- read one rune literal off the front of `s`: (code point value, rest of the stream) -/
def readRune : Str → Option (Nat × Str)
  | [] => none
  | c :: t =>
    if c == 0x27 then
      match readItem 0x27 t with
      | none => none
      | some (e, t') =>
        match t' with
        | [] => none
        | c' :: rest => if c' == 0x27 then some (e.value, rest) else none
    else none

/-- body of a raw string literal, after the opening back quote; "carriage return characters
    ('\r') inside raw string literals are discarded from the raw string value" -/
def readRawBody : Nat → Str → Option (Str × Str)
  | 0, _ => none
  | _ + 1, [] => none
  | fuel + 1, c :: t =>
    if c == 0x60 then some ([], t)
    else
      match readChar (c :: t) with
      | none => none
      | some (r, w) =>
        match readRawBody fuel ((c :: t).drop w) with
        | none => none
        | some (v, rest) =>
          some ((if r == 13 then [] else Quote.encodeRune r) ++ v, rest)

/-- read one raw string literal off the front of `s`: (value, rest of the stream) -/
def readRaw : Str → Option (Str × Str)
  | [] => none
  | c :: t => if c == 0x60 then readRawBody (t.length + 1) t else none

/-- character-level acceptance of one line of source text (what the scanner checks for every
    character before tokenising): well-formed UTF-8, no NUL, no BOM, and no newline.
    `fuel` ≥ length of the text. -/
def scanLine : Nat → Str → Bool
  | _, [] => true
  | 0, _ :: _ => false
  | fuel + 1, c :: t =>
    match readChar (c :: t) with
    | none => false
    | some (r, w) => r != 10 && scanLine fuel ((c :: t).drop w)

/-! sanity checks of the readers themselves (evaluated by the kernel) -/

open Str in
example : readString b!"\"a\\tb\\x00\\101\\u00e9\\\"\" + x" = some (b!"a\tb\x00Aé\"", b!" + x") := by decide
open Str in
example : readString b!"\"a\\'b\"" = none := by decide          -- \' illegal in strings
open Str in
example : readString b!"\"a\nb\"" = none := by decide           -- raw newline
open Str in
example : readString b!"\"\\ud800\"" = none := by decide        -- surrogate
open Str in
example : readString b!"\"\\400\"" = none := by decide          -- octal > 255
open Str in
example : readString b!"\"abc" = none := by decide              -- unterminated
example : readString [0x22, 0xFF, 0x22] = none := by decide     -- invalid UTF-8
example : readString [0x22, 0xEF, 0xBB, 0xBF, 0x22] = none := by decide   -- BOM
example : readString [0x22, 0x00, 0x22] = none := by decide     -- NUL
open Str in
example : readRune b!"'\\''x" = some (0x27, b!"x") := by decide
open Str in
example : readRune b!"'''" = none := by decide
open Str in
example : readRune b!"'\\\"'" = none := by decide               -- \" illegal in rune literals
open Str in
example : readRune b!"'é'" = some (0xE9, []) := by decide
open Str in
example : readRune b!"'ab'" = none := by decide
open Str in
example : readRaw b!"`a\\n\r\nb`c" = some (b!"a\\n\nb", b!"c") := by decide
open Str in
example : scanLine 9 b!"\"aé\\n\"" = true := by decide
open Str in
example : scanLine 9 b!"\"a\nb\"" = false := by decide
example : scanLine 9 [0x22, 0xEF, 0xBB, 0xBF, 0x22] = false := by decide

end GoLex
