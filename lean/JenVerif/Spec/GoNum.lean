import JenVerif.Str
/-
  Spec-side readers of Go numeric literal syntax (The Go Programming Language Specification,
  "Integer literals" and "Floating-point literals"), written independently of `fmt`/`strconv`.
  Core Lean only, everything executable.

  Scope: the sub-language that `fmt`'s `%d`, `%#x` and `strconv.FormatFloat(v,'g',-1,64)` can
  produce: no `_` separators, no octal / binary integer literals, no hexadecimal floats.
  (Those forms are legal Go, but no renderer output uses them; the readers reject them.)
-/
namespace GoNum

/-! ### characters -/

/-- decimal_digit = "0" … "9" -/
def isDigit (c : UInt8) : Bool := 48 ≤ c && c ≤ 57

/-- value of a decimal digit -/
def digitVal (c : UInt8) : Nat := c.toNat - 48

/-- hex_digit = "0" … "9" | "A" … "F" | "a" … "f", with its value -/
def hexVal (c : UInt8) : Option Nat :=
  if 48 ≤ c && c ≤ 57 then some (c.toNat - 48)
  else if 97 ≤ c && c ≤ 102 then some (c.toNat - 87)
  else if 65 ≤ c && c ≤ 70 then some (c.toNat - 55)
  else none

/-! ### integers -/

/-- positional value of a digit string read most-significant digit first, starting from `acc`;
    `none` if a non-digit occurs -/
def decFold (acc : Nat) : Str → Option Nat
  | [] => some acc
  | c :: cs => if isDigit c then decFold (acc * 10 + digitVal c) cs else none

/-- decimal_lit = "0" | ( "1" … "9" ) { decimal_digit } : a non-empty digit string without a
    superfluous leading zero, and its value -/
def readDec (s : Str) : Option Nat :=
  match s with
  | [] => none
  | c :: rest => if c == 48 && !rest.isEmpty then none else decFold 0 (c :: rest)

/-- the constant expression `-digits` or `digits` -/
def readSignedDec (s : Str) : Option Int :=
  match s with
  | 45 :: rest => (readDec rest).map fun n => -(Int.ofNat n)
  | _ => (readDec s).map Int.ofNat

def hexFold (acc : Nat) : Str → Option Nat
  | [] => some acc
  | c :: cs =>
    match hexVal c with
    | some d => hexFold (acc * 16 + d) cs
    | none => none

/-- hex_lit = "0" ( "x" | "X" ) hex_digit { hex_digit } and its value -/
def readHex (s : Str) : Option Nat :=
  match s with
  | 48 :: x :: d :: rest => if x == 120 || x == 88 then hexFold 0 (d :: rest) else none
  | _ => none

/-- token texts that are integer literals (decimal or hexadecimal) -/
def isIntLit (s : Str) : Bool := (readDec s).isSome || (readHex s).isSome

/-! ### floating-point literals -/

/-- the text after the mantissa is a decimal_exponent = ( "e" | "E" ) [ "+" | "-" ] digits -/
def stripSign (s : Str) : Str :=
  match s with
  | 43 :: r => r
  | 45 :: r => r
  | _ => s

def isExponent (s : Str) : Bool :=
  match s with
  | [] => false
  | c :: rest => (c == 101 || c == 69) && !(stripSign rest).isEmpty && (stripSign rest).all isDigit

/-- what may follow the integer digits `ds` of a float literal -/
def isFloatTail (ds : Str) (r : Str) : Bool :=
  match r with
  | 46 :: r' =>
    let fs := r'.takeWhile isDigit
    let r'' := r'.dropWhile isDigit
    (!ds.isEmpty || !fs.isEmpty) && (r''.isEmpty || isExponent r'')
  | _ => !ds.isEmpty && isExponent r

/-- decimal_float_lit = digits "." [ digits ] [ exponent ] | digits exponent
                      | "." digits [ exponent ] -/
def isFloatLit (s : Str) : Bool :=
  isFloatTail (s.takeWhile isDigit) (s.dropWhile isDigit)

/-! ### the output shape of `strconv.FormatFloat(v, 'g', -1, 64)` for finite `v`

  `-?d+(\.d+)?(e[+-]dd+)?` -/

/-- the pieces of a `%g`-shaped text -/
structure GParts where
  neg : Bool
  ip : Str
  fp : Option Str
  ex : Option (Bool × Str)
deriving DecidableEq, Repr

namespace GParts

def signText (neg : Bool) : Str := if neg then [45] else []

def fracText : Option Str → Str
  | none => []
  | some f => 46 :: f

def expText : Option (Bool × Str) → Str
  | none => []
  | some (n, d) => 101 :: (if n then 45 else 43) :: d

/-- the text without its sign -/
def body (p : GParts) : Str := p.ip ++ (fracText p.fp ++ expText p.ex)

def text (p : GParts) : Str := signText p.neg ++ p.body

def fracWf : Option Str → Bool
  | none => true
  | some f => !f.isEmpty && f.all isDigit

def expWf : Option (Bool × Str) → Bool
  | none => true
  | some (_, d) => 2 ≤ d.length && d.all isDigit

def wf (p : GParts) : Bool :=
  !p.ip.isEmpty && p.ip.all isDigit && fracWf p.fp && expWf p.ex

end GParts

/-- `t` matches `-?d+(\.d+)?(e[+-]dd+)?` -/
def GShape (t : Str) : Prop := ∃ p : GParts, p.wf = true ∧ p.text = t

/-- a leading minus is not part of a Go literal: it is a unary operator applied to it -/
def stripMinus (t : Str) : Str :=
  match t with
  | 45 :: r => r
  | _ => t

/-- executable parser for the same shape -/
def parseFrac (r : Str) : Option Str × Str :=
  match r with
  | 46 :: r' => (some (r'.takeWhile isDigit), r'.dropWhile isDigit)
  | _ => (none, r)

def parseExp (r : Str) : Option (Option (Bool × Str)) :=
  match r with
  | [] => some none
  | 101 :: 43 :: d => some (some (false, d))
  | 101 :: 45 :: d => some (some (true, d))
  | _ => none

def parseBody (neg : Bool) (s : Str) : Option GParts :=
  let ip := s.takeWhile isDigit
  let fr := parseFrac (s.dropWhile isDigit)
  match parseExp fr.2 with
  | none => none
  | some ex =>
    let p : GParts := ⟨neg, ip, fr.1, ex⟩
    if p.wf then some p else none

def parseG (t : Str) : Option GParts :=
  match t with
  | 45 :: r => parseBody true r
  | _ => parseBody false t

def isGShape (t : Str) : Bool := (parseG t).isSome

/-! ### exact values of float texts

  A value is a sign, and a canonical pair (mantissa, decimal exponent) standing for
  `mant * 10 ^ exp`; canonical means `mant % 10 ≠ 0`, or `mant = 0 ∧ exp = 0`.  Two texts denote
  the same real number with the same sign iff their `FVal`s are equal. -/

structure FVal where
  neg : Bool
  mant : Nat
  exp : Int
deriving DecidableEq, Repr

/-- strip factors of ten from the mantissa (`fuel ≥ m` is enough: `m / 10 < m`) -/
def normAux : Nat → Nat → Int → Nat × Int
  | 0, m, e => (m, e)
  | fuel + 1, m, e => if m % 10 = 0 then normAux fuel (m / 10) (e + 1) else (m, e)

def normalize (m : Nat) (e : Int) : Nat × Int :=
  if m = 0 then (0, 0) else normAux m m e

/-- mantissa digits: all of them must be digits (they are, by construction) -/
def digitsVal (s : Str) : Nat := s.foldl (fun a c => a * 10 + digitVal c) 0

/-- exponent part: empty, or ( "e" | "E" ) [ "+" | "-" ] digits -/
def readExp (r : Str) : Option Int :=
  match r with
  | [] => some 0
  | c :: rest =>
    if (c == 101 || c == 69) && !(stripSign rest).isEmpty then
      match decFold 0 (stripSign rest) with
      | some n => some (match rest with | 45 :: _ => -(Int.ofNat n) | _ => Int.ofNat n)
      | none => none
    else none

def mkFVal (neg : Bool) (ip fp : Str) (ex : Int) : FVal :=
  let ne := normalize (digitsVal (ip ++ fp)) (ex - Int.ofNat fp.length)
  ⟨neg, ne.1, ne.2⟩

/-- fraction part: `(digits, rest)`; no "." means no fraction digits -/
def splitFrac (r : Str) : Str × Str :=
  match r with
  | 46 :: r' => (r'.takeWhile isDigit, r'.dropWhile isDigit)
  | _ => ([], r)

def floatBody (neg : Bool) (s : Str) : Option FVal :=
  let ip := s.takeWhile isDigit
  let fr := splitFrac (s.dropWhile isDigit)
  if ip.isEmpty && fr.1.isEmpty then none
  else
    match readExp fr.2 with
    | none => none
    | some ex => some (mkFVal neg ip fr.1 ex)

/-- exact value of `-? d* [ "." d* ] [ (e|E) [+|-] d+ ]` with at least one mantissa digit:
    covers every `GShape` text, every decimal_float_lit, and those with a unary minus -/
def floatValue (t : Str) : Option FVal :=
  match t with
  | 45 :: r => floatBody true r
  | _ => floatBody false t

end GoNum
