import JenVerif.Str
import JenVerif.Spec.GoLex
/-
  Spec-side model of `reflect.StructTag.Lookup` (Go 1.23, reflect/type.go), transcribed loop by
  loop.  Executable, total (fuel / structural recursion), core-only.

      for tag != "" {
        // Skip leading space.
        i := 0; for i < len(tag) && tag[i] == ' ' { i++ }; tag = tag[i:]; if tag == "" { break }
        // Scan to colon. A space, a quote or a control character is a syntax error.
        i = 0
        for i < len(tag) && tag[i] > ' ' && tag[i] != ':' && tag[i] != '"' && tag[i] != 0x7f { i++ }
        if i == 0 || i+1 >= len(tag) || tag[i] != ':' || tag[i+1] != '"' { break }
        name := string(tag[:i]); tag = tag[i+1:]
        // Scan quoted string to find value.
        i = 1
        for i < len(tag) && tag[i] != '"' { if tag[i] == '\\' { i++ }; i++ }
        if i >= len(tag) { break }
        qvalue := string(tag[:i+1]); tag = tag[i+1:]
        if key == name { value, err := strconv.Unquote(qvalue); if err != nil { break }; return value, true }
      }
      return "", false

  `strconv.Unquote` on the interpreted string literal `qvalue` is modelled by the Go-specification
  reader `GoLex.readString`, required to consume the whole of `qvalue`.  `readString` is *stricter*
  than `Unquote` (it also rejects NUL, a byte order mark and malformed UTF-8 inside the literal,
  which `Unquote` would pass through); wherever `readString` succeeds, `Unquote` succeeds with the
  same value.  So `lookup … = some v` below implies that the real `Lookup` answers `(v, true)`.
-/

namespace StructTag

/-- `for i < len(tag) && tag[i] == ' ' { i++ }; tag = tag[i:]` -/
def skipSpaces : Str → Str
  | [] => []
  | c :: t => if c == 0x20 then skipSpaces t else c :: t

/-- loop condition of the "scan to colon" loop:
    `tag[i] > ' ' && tag[i] != ':' && tag[i] != '"' && tag[i] != 0x7f` -/
def isNameByte (c : UInt8) : Bool := c > 0x20 && c != 0x3A && c != 0x22 && c != 0x7F

/-- the loop `for i < len(tag) && tag[i] != '"' { if tag[i] == '\\' { i++ }; i++ }`, run on the
    suffix `tag[i:]` (first argument) with the current value of `i` (second argument).
    Result: the final `i` when `i < len(tag)` (then `tag[i] == '"'`), `none` when `i >= len(tag)`
    (the `break`).  A backslash skips the following byte, also past the end of the string. -/
def scanQuotedFrom : Str → Nat → Option Nat
  | [], _ => none
  | [c], i => if c == 0x22 then some i else none
  | c :: d :: t, i =>
    if c == 0x22 then some i
    else if c == 0x5C then scanQuotedFrom t (i + 2)
    else scanQuotedFrom (d :: t) (i + 1)

/-- `i = 1; for … ; if i >= len(tag) { break }` on a `tag` that starts with the opening quote -/
def scanQuoted (tag : Str) : Option Nat := scanQuotedFrom (tag.drop 1) 1

/-- the part of the loop body after the name scan: `rest = tag[i:]` is what follows the name.
    `if i == 0 || i+1 >= len(tag) || tag[i] != ':' || tag[i+1] != '"' { break }`, then the scan of
    the quoted string.  Result `(name, qvalue, tag')`. -/
def afterName (name : Str) (rest : Str) : Option (Str × Str × Str) :=
  match rest with
  | c1 :: c2 :: t =>
    if name.isEmpty || c1 != 0x3A || c2 != 0x22 then none
    else
      let tag := c2 :: t                           -- tag = tag[i+1:]
      match scanQuoted tag with
      | none => none                               -- i >= len(tag): break
      | some i => some (name, tag.take (i + 1), tag.drop (i + 1))
  | _ => none                                      -- i+1 >= len(tag): break

/-- one iteration of the outer loop up to (not including) `if key == name`:
    `none` = `break`, `some (name, qvalue, tag')` otherwise. -/
def step (tag : Str) : Option (Str × Str × Str) :=
  let tag := skipSpaces tag
  if tag.isEmpty then none
  else afterName (tag.takeWhile isNameByte) (tag.dropWhile isNameByte)

/-- `strconv.Unquote(qvalue)` for an interpreted string literal: the whole of `qvalue` must be one
    literal. -/
def unquote (qvalue : Str) : Option Str :=
  match GoLex.readString qvalue with
  | some (v, []) => some v
  | _ => none

/-- the outer loop; every iteration that does not `break` consumes at least three bytes, so
    `len(tag) + 1` iterations suffice. -/
def lookupAux : Nat → Str → Str → Option Str
  | 0, _, _ => none
  | fuel + 1, tag, key =>
    match step tag with
    | none => none
    | some (name, qvalue, tag') =>
      if key == name then unquote qvalue
      else lookupAux fuel tag' key

/-- `reflect.StructTag(tag).Lookup(key)`; `none` stands for `("", false)` -/
def lookup (tag key : Str) : Option Str := lookupAux (tag.length + 1) tag key

/-- key alphabet of the round-trip property: non-empty; every byte printable ASCII
    (0x21 … 0x7e: no space, no control byte, no DEL) other than `"` and `:` -/
def convKey (k : Str) : Bool :=
  !k.isEmpty && k.all fun c => 0x21 ≤ c && c ≤ 0x7E && c != 0x22 && c != 0x3A

/-! sanity checks (evaluated by the kernel) -/

open Str in
example : lookup b!"json:\"a\" xml:\"b\\\"c\"" b!"json" = some b!"a" := by decide
open Str in
example : lookup b!"json:\"a\" xml:\"b\\\"c\"" b!"xml" = some b!"b\"c" := by decide
open Str in
example : lookup b!"json:\"a\" xml:\"b\\\"c\"" b!"yaml" = none := by decide
open Str in
example : lookup b!"  json:\"a\"   xml:\"b\"" b!"xml" = some b!"b" := by decide
open Str in
example : lookup b!"json:\"a" b!"json" = none := by decide            -- unterminated
open Str in
example : lookup b!"json:\"a\\" b!"json" = none := by decide          -- backslash at the end
open Str in
example : lookup b!"json: \"a\"" b!"json" = none := by decide         -- space after the colon
open Str in
example : lookup b!":\"a\"" b!"" = none := by decide                  -- empty name
open Str in
example : lookup b!"a:\"\\q\" b:\"x\"" b!"b" = some b!"x" := by decide -- bad escape in a skipped entry
open Str in
example : lookup b!"a:\"\\q\"" b!"a" = none := by decide              -- bad escape in the wanted entry
open Str in
example : convKey b!"json" = true := by decide
open Str in
example : convKey b!"" = false := by decide
open Str in
example : convKey b!"a b" = false := by decide
open Str in
example : convKey b!"a:b" = false := by decide
open Str in
example : convKey b!"a\"b" = false := by decide

end StructTag
