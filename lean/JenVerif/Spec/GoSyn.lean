import JenVerif.Render
import JenVerif.Gen.Constructs
import JenVerif.Gen.Tokens
/-
  C01, spec side: a transcription of the core of go/ast (`GoSyn.Expr`, `Stmt`, `Decl`, …), the
  documented jennifer DSL element for every construct (`items` / `build`), and a REFERENCE PRINTER
  (`print`): a plain structural recursion that writes the concrete syntax with explicit
  separators.  The printer knows nothing about null items, "first" flags, multi-line flags or the
  case-block special case; `Lemmas/PrinterEq.lean` proves that rendering the built tree gives
  exactly the printer's text.

  Atoms: identifiers, operator tokens (closed enumerations of go/token) and already-rendered
  literal / struct-tag texts (literal VALUES are the business of C11/C12).

  The text is the renderer's raw text (one space between the items of a statement, `f (a,b)`,
  `x . sel` …); gofmt normalises the spacing afterwards, outside the theorem.
-/
namespace GoSyn


/-! ### lookups in the REGENERATED tables -/

/-- open / close / separator / multi of a group construct, looked up by API name -/
def ginfo (api : Str) : GInfo :=
  match Gen.constructs.find? (·.api == api) with
  | some c => c.info
  | none => default

/-- `.group (ginfo api) items` : the Group built by the method `api` -/
def grp (api : Str) (cs : List Code) : Code := .group (ginfo api) cs

def kindOf (k : Str) : TokKind :=
  if k == b!"ident" then .ident else if k == b!"kw" then .kw else if k == b!"op" then .op
  else if k == b!"delim" then .delim else if k == b!"layout" then .layout else .null

/-- kind and content of the fixed token written by the method `api` (`Func()`, `Else()`, …) -/
def tokEntry (api : Str) : TokKind × Str :=
  match Gen.tokens.find? (fun t => t.api == api && !t.dynamic) with
  | some t => (kindOf t.kind, t.content)
  | none => (.null, [])

/-- the token built by the parameterless method `api` -/
def tokc (api : Str) : Code := .tok (tokEntry api).1 (tokEntry api).2

/-- kind of the token built by a method that takes its content as argument (`Id`, `Op`, `Dot`) -/
def dynKind (api : Str) : TokKind :=
  match Gen.tokens.find? (fun t => t.api == api && t.dynamic) with
  | some t => kindOf t.kind
  | none => .null

/-- `Id(name)` as an item -/
def idTok (s : Str) : Code := .tok (dynKind b!"Id") s
/-- `Op(op)` as an item -/
def opTok (s : Str) : Code := .tok (dynKind b!"Op") s

/-! ### atoms: the operator enumerations of go/token -/

inductive BinOp
  | add | sub | mul | quo | rem | and | or | xor | shl | shr | andNot
  | land | lor | eql | neq | lss | leq | gtr | geq
deriving DecidableEq, Repr, Inhabited

def BinOp.text : BinOp → Str
  | .add => b!"+" | .sub => b!"-" | .mul => b!"*" | .quo => b!"/" | .rem => b!"%"
  | .and => b!"&" | .or => b!"|" | .xor => b!"^" | .shl => b!"<<" | .shr => b!">>" | .andNot => b!"&^"
  | .land => b!"&&" | .lor => b!"||" | .eql => b!"==" | .neq => b!"!=" | .lss => b!"<" | .leq => b!"<="
  | .gtr => b!">" | .geq => b!">="

/-- unary operators (`*x` is `Expr.star`, as in go/ast) -/
inductive UnOp
  | pos | neg | not | xor | addr | recv | tilde
deriving DecidableEq, Repr, Inhabited

def UnOp.text : UnOp → Str
  | .pos => b!"+" | .neg => b!"-" | .not => b!"!" | .xor => b!"^" | .addr => b!"&" | .recv => b!"<-"
  | .tilde => b!"~"

inductive AssignOp
  | assign | define | add | sub | mul | quo | rem | and | or | xor | shl | shr | andNot
deriving DecidableEq, Repr, Inhabited

def AssignOp.text : AssignOp → Str
  | .assign => b!"=" | .define => b!":=" | .add => b!"+=" | .sub => b!"-=" | .mul => b!"*="
  | .quo => b!"/=" | .rem => b!"%=" | .and => b!"&=" | .or => b!"|=" | .xor => b!"^=" | .shl => b!"<<="
  | .shr => b!">>=" | .andNot => b!"&^="

inductive IncDecOp
  | inc | dec
deriving DecidableEq, Repr, Inhabited

def IncDecOp.text : IncDecOp → Str
  | .inc => b!"++" | .dec => b!"--"

inductive BranchTok
  | brk | cont | goto | fallthrough
deriving DecidableEq, Repr, Inhabited

/-- the jennifer method that writes the keyword -/
def BranchTok.api : BranchTok → Str
  | .brk => b!"Break" | .cont => b!"Continue" | .goto => b!"Goto" | .fallthrough => b!"Fallthrough"

def BranchTok.text : BranchTok → Str
  | .brk => b!"break" | .cont => b!"continue" | .goto => b!"goto" | .fallthrough => b!"fallthrough"

inductive DeclTok
  | var | const | type
deriving DecidableEq, Repr, Inhabited

def DeclTok.api : DeclTok → Str
  | .var => b!"Var" | .const => b!"Const" | .type => b!"Type"

def DeclTok.text : DeclTok → Str
  | .var => b!"var" | .const => b!"const" | .type => b!"type"

inductive ChanDir
  | both | send | recv
deriving DecidableEq, Repr, Inhabited

/-! ### the syntax tree (go/ast) -/

mutual
inductive Expr
  /-- `*ast.Ident` -/
  | ident (name : Str)
  /-- `*ast.BasicLit`: the literal's source text is an atom -/
  | basicLit (text : Str)
  /-- a qualified identifier `pkg.Name` built with `Qual(path, name)` (go/ast: `SelectorExpr` on
      a package name); printed under the environment's name for `path` -/
  | qual (path name : Str)
  /-- `*ast.SelectorExpr` `x.sel` -/
  | selector (x : Expr) (sel : Str)
  /-- `*ast.CallExpr` without ellipsis `f(args…)` -/
  | call (f : Expr) (args : List Expr)
  /-- `*ast.CallExpr` with ellipsis `f(args…, last...)` -/
  | callSpread (f : Expr) (args : List Expr) (last : Expr)
  /-- `*ast.IndexExpr` `x[i]` -/
  | index (x : Expr) (i : Expr)
  /-- `*ast.IndexListExpr` `x[t1, t2, …]` (generic instantiation) -/
  | indexList (x : Expr) (is : List Expr)
  /-- `*ast.SliceExpr` `x[lo:hi]` -/
  | slice (x : Expr) (lo hi : Option Expr)
  /-- `*ast.SliceExpr` with `Slice3`: `x[lo:hi:max]` -/
  | slice3 (x : Expr) (lo hi max : Option Expr)
  /-- `*ast.StarExpr` -/
  | star (x : Expr)
  /-- `*ast.UnaryExpr` -/
  | unary (op : UnOp) (x : Expr)
  /-- `*ast.BinaryExpr` -/
  | binary (x : Expr) (op : BinOp) (y : Expr)
  /-- `*ast.ParenExpr` -/
  | paren (x : Expr)
  /-- `*ast.TypeAssertExpr` `x.(T)`; `none` is `x.(type)` -/
  | typeAssert (x : Expr) (t : Option Expr)
  /-- `*ast.CompositeLit` `T{elts…}`; the type may be elided -/
  | compositeLit (t : Option Expr) (elts : List Expr)
  /-- `*ast.KeyValueExpr` `k: v` -/
  | keyValue (k v : Expr)
  /-- `*ast.FuncLit` -/
  | funcLit (params : List Field) (results : Results) (body : List Stmt)
  /-- `*ast.ArrayType` `[n]T`; `none` is the slice type `[]T` -/
  | arrayType (len : Option Expr) (elem : Expr)
  /-- `*ast.MapType` -/
  | mapType (k v : Expr)
  /-- `*ast.ChanType` -/
  | chanType (dir : ChanDir) (t : Expr)
  /-- `*ast.FuncType` -/
  | funcType (params : List Field) (results : Results)
  /-- `*ast.StructType` -/
  | structType (fields : List Field)
  /-- `*ast.InterfaceType` -/
  | interfaceType (elems : List IElem)
  /-- `*ast.Ellipsis` `...T` / `...` -/
  | ellipsis (t : Option Expr)
/-- `*ast.Field`: `names… type tag?` (no names: embedded field / unnamed parameter) -/
inductive Field
  | mk (names : List Str) (type : Expr) (tag : Option Str)
/-- Go spec `Result = Parameters | Type` (go/ast: `FuncType.Results`) -/
inductive Results
  | none
  | type (t : Expr)
  | fields (fs : List Field)
/-- an element of an interface type: method or embedded type / type-set term -/
inductive IElem
  | method (name : Str) (params : List Field) (results : Results)
  | embed (t : Expr)
inductive Stmt
  /-- `*ast.ExprStmt` -/
  | expr (x : Expr)
  /-- `*ast.AssignStmt` -/
  | assign (lhs : List Expr) (op : AssignOp) (rhs : List Expr)
  /-- `*ast.IncDecStmt` -/
  | incDec (x : Expr) (op : IncDecOp)
  /-- `*ast.SendStmt` -/
  | send (ch v : Expr)
  /-- `*ast.ReturnStmt` -/
  | ret (results : List Expr)
  /-- `*ast.BranchStmt` -/
  | branch (tok : BranchTok) (label : Option Str)
  /-- `*ast.BlockStmt` -/
  | block (body : List Stmt)
  /-- `*ast.IfStmt` -/
  | ifS (init : Option Stmt) (cond : Expr) (body : List Stmt) (els : Option Stmt)
  /-- `*ast.ForStmt` with neither init nor post: `for {…}` / `for cond {…}` -/
  | forS (cond : Option Expr) (body : List Stmt)
  /-- `*ast.ForStmt` with a for-clause `for init; cond; post {…}` -/
  | forClause (init : Option Stmt) (cond : Option Expr) (post : Option Stmt) (body : List Stmt)
  /-- `*ast.RangeStmt` (a value without key is not Go; it is ignored) -/
  | range (key value : Option Expr) (define : Bool) (x : Expr) (body : List Stmt)
  /-- `*ast.SwitchStmt` -/
  | switch (init : Option Stmt) (tag : Option Expr) (clauses : List Clause)
  /-- `*ast.TypeSwitchStmt`; `assign` is `x := y.(type)` or `y.(type)` -/
  | typeSwitch (init : Option Stmt) (assign : Stmt) (clauses : List Clause)
  /-- `*ast.SelectStmt` -/
  | select (clauses : List CommClause)
  /-- `*ast.GoStmt` -/
  | go (call : Expr)
  /-- `*ast.DeferStmt` -/
  | defer (call : Expr)
  /-- `*ast.DeclStmt` -/
  | decl (d : GenDecl)
  /-- `*ast.LabeledStmt` -/
  | labeled (label : Str) (s : Stmt)
/-- `*ast.CaseClause`; no expressions = `default` -/
inductive Clause
  | mk (exprs : List Expr) (body : List Stmt)
/-- `*ast.CommClause`; no communication = `default` -/
inductive CommClause
  | mk (comm : Option Stmt) (body : List Stmt)
/-- `*ast.ValueSpec` / `*ast.TypeSpec` -/
inductive Spec
  | value (names : List Str) (type : Option Expr) (values : List Expr)
  | type (name : Str) (tparams : List Field) (alias : Bool) (t : Expr)
/-- `*ast.GenDecl` (var / const / type): unparenthesised with one spec, or `tok ( specs… )` -/
inductive GenDecl
  | one (tok : DeclTok) (spec : Spec)
  | defs (tok : DeclTok) (specs : List Spec)
end

/-- `ast.Decl` (imports are handled by the File) -/
inductive Decl
  /-- `*ast.FuncDecl` -/
  | func (recv : Option Field) (name : Str) (tparams : List Field) (params : List Field)
      (results : Results) (body : List Stmt)
  | gen (d : GenDecl)

/-! ### the documented DSL element for every construct

`items x` are the items of the `*Statement` that the documented call chain builds
(`Id("f").Call(…)` is ONE statement with two items); `build x = .stmt (items x)`.
Operands in "argument position" (group items, operands of binary operators, a function's single
result type) are added as statements of their own (`Add(…)`).

Optional children go through `itemsO` / `itemsOS` (no items when absent); an absent child in a
position that must keep its separator is the `Empty()` token. -/

/-- `List(Id(n1), Id(n2), …)` -/
def idList (names : List Str) : Code := grp b!"List" (names.map fun n => .stmt [idTok n])

mutual
def items : Expr → List Code
  | .ident n => [idTok n]
  | .basicLit t => [idTok t]
  | .qual p n => [grp b!"Qual" [.tok .pkg p, idTok n]]
  | .selector x s => items x ++ [tokc b!"Dot", .tok (dynKind b!"Dot") s]
  | .call f args => items f ++ [grp b!"Call" (buildEs args)]
  | .callSpread f args last =>
      items f ++ [grp b!"Call" (buildEs args ++ [.stmt (items last ++ [opTok b!"..."])])]
  | .index x i => items x ++ [grp b!"Index" [.stmt (items i)]]
  | .indexList x is => items x ++ [grp b!"Types" (buildEs is)]
  | .slice x lo hi =>
      items x ++ [grp b!"Index"
        [if lo.isNone then tokc b!"Empty" else .stmt (itemsO lo),
         if hi.isNone then tokc b!"Empty" else .stmt (itemsO hi)]]
  | .slice3 x lo hi mx =>
      items x ++ [grp b!"Index"
        [if lo.isNone then tokc b!"Empty" else .stmt (itemsO lo),
         if hi.isNone then tokc b!"Empty" else .stmt (itemsO hi),
         if mx.isNone then tokc b!"Empty" else .stmt (itemsO mx)]]
  | .star x => opTok b!"*" :: items x
  | .unary op x => opTok op.text :: items x
  | .binary x op y => [.stmt (items x), opTok op.text, .stmt (items y)]
  | .paren x => [grp b!"Parens" [.stmt (items x)]]
  | .typeAssert x t =>
      items x ++ [grp b!"Assert" [if t.isNone then .stmt [tokc b!"Type"] else .stmt (itemsO t)]]
  | .compositeLit t elts => itemsO t ++ [grp b!"Values" (buildEs elts)]
  | .keyValue k v => [.stmt (items k), opTok b!":", .stmt (items v)]
  | .funcLit ps rs body =>
      [tokc b!"Func", grp b!"Params" (buildFs ps)] ++ itemsR rs ++ [grp b!"Block" (buildSs body)]
  | .arrayType len elem =>
      grp b!"Index" (if len.isNone then [] else [.stmt (itemsO len)]) :: items elem
  | .mapType k v => grp b!"Map" [.stmt (items k)] :: items v
  | .chanType dir t =>
      (if dir = .both then [tokc b!"Chan"]
       else if dir = .send then [tokc b!"Chan", opTok b!"<-"]
       else [opTok b!"<-", tokc b!"Chan"]) ++ items t
  | .funcType ps rs => [tokc b!"Func", grp b!"Params" (buildFs ps)] ++ itemsR rs
  | .structType fs => [grp b!"Struct" (buildFs fs)]
  | .interfaceType es => [grp b!"Interface" (buildIs es)]
  | .ellipsis t => opTok b!"..." :: itemsO t
def itemsO : Option Expr → List Code
  | none => []
  | some x => items x
def buildEs : List Expr → List Code
  | [] => []
  | x :: xs => .stmt (items x) :: buildEs xs
def itemsF : Field → List Code
  | .mk names t tag =>
      (if names.isEmpty then [] else [idList names]) ++ items t ++ tag.toList.map idTok
def buildFs : List Field → List Code
  | [] => []
  | f :: fs => .stmt (itemsF f) :: buildFs fs
def itemsR : Results → List Code
  | .none => []
  | .type t => [.stmt (items t)]
  | .fields fs => [grp b!"Params" (buildFs fs)]
def itemsI : IElem → List Code
  | .method n ps rs => [idTok n, grp b!"Params" (buildFs ps)] ++ itemsR rs
  | .embed t => items t
def buildIs : List IElem → List Code
  | [] => []
  | x :: xs => .stmt (itemsI x) :: buildIs xs
def itemsS : Stmt → List Code
  | .expr x => items x
  | .assign lhs op rhs => [grp b!"List" (buildEs lhs), opTok op.text, grp b!"List" (buildEs rhs)]
  | .incDec x op => items x ++ [opTok op.text]
  | .send ch v => [.stmt (items ch), opTok b!"<-", .stmt (items v)]
  | .ret rs => [grp b!"Return" (buildEs rs)]
  | .branch tok label => tokc tok.api :: label.toList.map idTok
  | .block body => [grp b!"Block" (buildSs body)]
  | .ifS init c body els =>
      [grp b!"If" ((if init.isNone then [] else [.stmt (itemsOS init)]) ++ [.stmt (items c)]),
       grp b!"Block" (buildSs body)] ++
      (if els.isNone then [] else tokc b!"Else" :: itemsOS els)
  | .forS cond body =>
      [grp b!"For" (if cond.isNone then [] else [.stmt (itemsO cond)]),
       grp b!"Block" (buildSs body)]
  | .forClause init cond post body =>
      [grp b!"For"
        [if init.isNone then tokc b!"Empty" else .stmt (itemsOS init),
         if cond.isNone then tokc b!"Empty" else .stmt (itemsO cond),
         if post.isNone then tokc b!"Empty" else .stmt (itemsOS post)],
       grp b!"Block" (buildSs body)]
  | .range key value define x body =>
      [grp b!"For"
        [.stmt ((if key.isNone then []
                 else
                   (if value.isNone then itemsO key
                    else [grp b!"List" [.stmt (itemsO key), .stmt (itemsO value)]]) ++
                   [opTok (if define then b!":=" else b!"=")]) ++
                tokc b!"Range" :: items x)],
       grp b!"Block" (buildSs body)]
  | .switch init tag cls =>
      [grp b!"Switch"
        (if init.isNone then (if tag.isNone then [] else [.stmt (itemsO tag)])
         else [.stmt (itemsOS init), if tag.isNone then tokc b!"Empty" else .stmt (itemsO tag)]),
       grp b!"Block" (buildCs cls)]
  | .typeSwitch init a cls =>
      [grp b!"Switch" ((if init.isNone then [] else [.stmt (itemsOS init)]) ++ [.stmt (itemsS a)]),
       grp b!"Block" (buildCs cls)]
  | .select cls => [tokc b!"Select", grp b!"Block" (buildCCs cls)]
  | .go x => tokc b!"Go" :: items x
  | .defer x => tokc b!"Defer" :: items x
  | .decl d => itemsG d
  | .labeled l s => [idTok l, opTok b!":", tokc b!"Line", .stmt (itemsS s)]
def itemsOS : Option Stmt → List Code
  | none => []
  | some s => itemsS s
def buildSs : List Stmt → List Code
  | [] => []
  | s :: ss => .stmt (itemsS s) :: buildSs ss
def itemsC : Clause → List Code
  | .mk xs body =>
      [if xs.isEmpty then tokc b!"Default" else grp b!"Case" (buildEs xs),
       grp b!"Block" (buildSs body)]
def buildCs : List Clause → List Code
  | [] => []
  | c :: cs => .stmt (itemsC c) :: buildCs cs
def itemsCC : CommClause → List Code
  | .mk comm body =>
      [if comm.isNone then tokc b!"Default" else grp b!"Case" [.stmt (itemsOS comm)],
       grp b!"Block" (buildSs body)]
def buildCCs : List CommClause → List Code
  | [] => []
  | c :: cs => .stmt (itemsCC c) :: buildCCs cs
def itemsSp : Spec → List Code
  | .value names t vals =>
      idList names ::
      (itemsO t ++ (if vals.isEmpty then [] else [opTok b!"=", grp b!"List" (buildEs vals)]))
  | .type n tps alias t =>
      idTok n ::
      ((if tps.isEmpty then [] else [grp b!"Types" (buildFs tps)]) ++
       (if alias then [opTok b!"="] else []) ++ items t)
def buildSps : List Spec → List Code
  | [] => []
  | s :: ss => .stmt (itemsSp s) :: buildSps ss
def itemsG : GenDecl → List Code
  | .one tok s => tokc tok.api :: itemsSp s
  | .defs tok ss => [tokc tok.api, grp b!"Defs" (buildSps ss)]
end

def itemsD : Decl → List Code
  | .func recv name tps ps rs body =>
      tokc b!"Func" ::
      ((recv.toList.map fun r => grp b!"Params" [.stmt (itemsF r)]) ++
       [idTok name] ++
       (if tps.isEmpty then [] else [grp b!"Types" (buildFs tps)]) ++
       [grp b!"Params" (buildFs ps)] ++ itemsR rs ++ [grp b!"Block" (buildSs body)])
  | .gen d => itemsG d

def build (x : Expr) : Code := .stmt (items x)
def buildS (s : Stmt) : Code := .stmt (itemsS s)
def buildF (f : Field) : Code := .stmt (itemsF f)
def buildI (x : IElem) : Code := .stmt (itemsI x)
def buildC (c : Clause) : Code := .stmt (itemsC c)
def buildCC (c : CommClause) : Code := .stmt (itemsCC c)
def buildSp (s : Spec) : Code := .stmt (itemsSp s)
def buildG (d : GenDecl) : Code := .stmt (itemsG d)
def buildD (d : Decl) : Code := .stmt (itemsD d)
/-- the body of a `File`: `f.Add(decl)` for every declaration -/
def buildFile (ds : List Decl) : Code := .group Code.fileInfo (ds.map buildD)

/-! ### the reference printer

Optional children are printed by `printO` / `printOS` (nothing when absent); text that
accompanies an optional child is guarded by `if child.isNone`. -/

/-- the items of a brace / parenthesis delimited multi-line list: one per line -/
def lines : List Str → Str
  | [] => []
  | x :: xs => b!"\n" ++ Str.join b!"\n" (x :: xs) ++ b!"\n"

/-- the statements of a case clause: each on a line of its own, after the colon -/
def linesOpen : List Str → Str
  | [] => []
  | x :: xs => b!"\n" ++ Str.join b!"\n" (x :: xs)

/-- an optional atom after a space -/
def spaceAtom : Option Str → Str
  | none => []
  | some s => b!" " ++ s

def ChanDir.text : ChanDir → Str
  | .both => b!"chan " | .send => b!"chan <- " | .recv => b!"<- chan "

mutual
def print (e : Code.Env) : Expr → Str
  | .ident n => n
  | .basicLit t => t
  | .qual p n => e.name p ++ b!"." ++ n
  | .selector x s => print e x ++ b!" . " ++ s
  | .call f args => print e f ++ b!" (" ++ Str.join b!"," (printEs e args) ++ b!")"
  | .callSpread f args last =>
      print e f ++ b!" (" ++ Str.join b!"," (printEs e args ++ [print e last ++ b!" ..."]) ++ b!")"
  | .index x i => print e x ++ b!" [" ++ print e i ++ b!"]"
  | .indexList x is => print e x ++ b!" [" ++ Str.join b!"," (printEs e is) ++ b!"]"
  | .slice x lo hi => print e x ++ b!" [" ++ printO e lo ++ b!":" ++ printO e hi ++ b!"]"
  | .slice3 x lo hi mx =>
      print e x ++ b!" [" ++ printO e lo ++ b!":" ++ printO e hi ++ b!":" ++ printO e mx ++ b!"]"
  | .star x => b!"* " ++ print e x
  | .unary op x => op.text ++ b!" " ++ print e x
  | .binary x op y => print e x ++ b!" " ++ op.text ++ b!" " ++ print e y
  | .paren x => b!"(" ++ print e x ++ b!")"
  | .typeAssert x t => print e x ++ b!" .(" ++ (if t.isNone then b!"type" else printO e t) ++ b!")"
  | .compositeLit t elts =>
      (if t.isNone then [] else printO e t ++ b!" ") ++ b!"{" ++ Str.join b!"," (printEs e elts) ++ b!"}"
  | .keyValue k v => print e k ++ b!" : " ++ print e v
  | .funcLit ps rs body =>
      b!"func (" ++ Str.join b!"," (printFs e ps) ++ b!")" ++ printR e rs ++
      b!" {" ++ lines (printSs e body) ++ b!"}"
  | .arrayType len elem => b!"[" ++ printO e len ++ b!"] " ++ print e elem
  | .mapType k v => b!"map[" ++ print e k ++ b!"] " ++ print e v
  | .chanType dir t => dir.text ++ print e t
  | .funcType ps rs => b!"func (" ++ Str.join b!"," (printFs e ps) ++ b!")" ++ printR e rs
  | .structType fs => b!"struct{" ++ lines (printFs e fs) ++ b!"}"
  | .interfaceType es => b!"interface{" ++ lines (printIs e es) ++ b!"}"
  | .ellipsis t => b!"..." ++ (if t.isNone then [] else b!" " ++ printO e t)
def printO (e : Code.Env) : Option Expr → Str
  | none => []
  | some x => print e x
def printEs (e : Code.Env) : List Expr → List Str
  | [] => []
  | x :: xs => print e x :: printEs e xs
def printF (e : Code.Env) : Field → Str
  | .mk names t tag =>
      (if names.isEmpty then [] else Str.join b!"," names ++ b!" ") ++ print e t ++ spaceAtom tag
def printFs (e : Code.Env) : List Field → List Str
  | [] => []
  | f :: fs => printF e f :: printFs e fs
def printR (e : Code.Env) : Results → Str
  | .none => []
  | .type t => b!" " ++ print e t
  | .fields fs => b!" (" ++ Str.join b!"," (printFs e fs) ++ b!")"
def printI (e : Code.Env) : IElem → Str
  | .method n ps rs => n ++ b!" (" ++ Str.join b!"," (printFs e ps) ++ b!")" ++ printR e rs
  | .embed t => print e t
def printIs (e : Code.Env) : List IElem → List Str
  | [] => []
  | x :: xs => printI e x :: printIs e xs
def printS (e : Code.Env) : Stmt → Str
  | .expr x => print e x
  | .assign lhs op rhs =>
      Str.join b!"," (printEs e lhs) ++ b!" " ++ op.text ++ b!" " ++ Str.join b!"," (printEs e rhs)
  | .incDec x op => print e x ++ b!" " ++ op.text
  | .send ch v => print e ch ++ b!" <- " ++ print e v
  | .ret rs => b!"return " ++ Str.join b!"," (printEs e rs)
  | .branch tok label => tok.text ++ spaceAtom label
  | .block body => b!"{" ++ lines (printSs e body) ++ b!"}"
  | .ifS init c body els =>
      b!"if " ++ (if init.isNone then [] else printOS e init ++ b!";") ++ print e c ++
      b!" {" ++ lines (printSs e body) ++ b!"}" ++
      (if els.isNone then [] else b!" else " ++ printOS e els)
  | .forS cond body => b!"for " ++ printO e cond ++ b!" {" ++ lines (printSs e body) ++ b!"}"
  | .forClause init cond post body =>
      b!"for " ++ printOS e init ++ b!";" ++ printO e cond ++ b!";" ++ printOS e post ++
      b!" {" ++ lines (printSs e body) ++ b!"}"
  | .range key value define x body =>
      b!"for " ++
      (if key.isNone then []
       else printO e key ++ (if value.isNone then [] else b!"," ++ printO e value) ++
            (if define then b!" := " else b!" = ")) ++
      b!"range " ++ print e x ++ b!" {" ++ lines (printSs e body) ++ b!"}"
  | .switch init tag cls =>
      b!"switch " ++ (if init.isNone then [] else printOS e init ++ b!";") ++ printO e tag ++
      b!" {" ++ lines (printCs e cls) ++ b!"}"
  | .typeSwitch init a cls =>
      b!"switch " ++ (if init.isNone then [] else printOS e init ++ b!";") ++ printS e a ++
      b!" {" ++ lines (printCs e cls) ++ b!"}"
  | .select cls => b!"select {" ++ lines (printCCs e cls) ++ b!"}"
  | .go x => b!"go " ++ print e x
  | .defer x => b!"defer " ++ print e x
  | .decl d => printG e d
  | .labeled l s => l ++ b!" : \n " ++ printS e s
def printOS (e : Code.Env) : Option Stmt → Str
  | none => []
  | some s => printS e s
def printSs (e : Code.Env) : List Stmt → List Str
  | [] => []
  | s :: ss => printS e s :: printSs e ss
def printC (e : Code.Env) : Clause → Str
  | .mk xs body =>
      (if xs.isEmpty then b!"default:" else b!"case " ++ Str.join b!"," (printEs e xs) ++ b!":") ++
      b!" " ++ linesOpen (printSs e body)
def printCs (e : Code.Env) : List Clause → List Str
  | [] => []
  | c :: cs => printC e c :: printCs e cs
def printCC (e : Code.Env) : CommClause → Str
  | .mk comm body =>
      (if comm.isNone then b!"default:" else b!"case " ++ printOS e comm ++ b!":") ++
      b!" " ++ linesOpen (printSs e body)
def printCCs (e : Code.Env) : List CommClause → List Str
  | [] => []
  | c :: cs => printCC e c :: printCCs e cs
def printSp (e : Code.Env) : Spec → Str
  | .value names t vals =>
      Str.join b!"," names ++ (if t.isNone then [] else b!" " ++ printO e t) ++
      (if vals.isEmpty then [] else b!" = " ++ Str.join b!"," (printEs e vals))
  | .type n tps alias t =>
      n ++ (if tps.isEmpty then [] else b!" [" ++ Str.join b!"," (printFs e tps) ++ b!"]") ++
      (if alias then b!" =" else []) ++ b!" " ++ print e t
def printSps (e : Code.Env) : List Spec → List Str
  | [] => []
  | s :: ss => printSp e s :: printSps e ss
def printG (e : Code.Env) : GenDecl → Str
  | .one tok s => tok.text ++ b!" " ++ printSp e s
  | .defs tok ss => tok.text ++ b!" (" ++ lines (printSps e ss) ++ b!")"
end

/-- the receiver of a method declaration -/
def printRecv (e : Code.Env) : Option Field → Str
  | none => []
  | some r => b!"(" ++ printF e r ++ b!") "

def printD (e : Code.Env) : Decl → Str
  | .func recv name tps ps rs body =>
      b!"func " ++ printRecv e recv ++ name ++
      (if tps.isEmpty then [] else b!" [" ++ Str.join b!"," (printFs e tps) ++ b!"]") ++
      b!" (" ++ Str.join b!"," (printFs e ps) ++ b!")" ++ printR e rs ++
      b!" {" ++ lines (printSs e body) ++ b!"}"
  | .gen d => printG e d

/-- the declarations of a file, each preceded by a newline (the file Group is multi-line
    without delimiters) -/
def printFile (e : Code.Env) (ds : List Decl) : Str := linesOpen (ds.map (printD e))

/-! ### what the renderer genuinely needs

* `Qual`: the package token must not be null (not the local package, not dot-imported), as the
  printer writes `name.`;
* `List(…)`/`Types(…)` must have an item where the printer writes one unconditionally:
  a `List()` without items is a null item (no space is written for it), `Types()` without
  items writes nothing but keeps its space. -/

mutual
def wf (np : Str → Bool) : Expr → Bool
  | .ident _ => true
  | .basicLit _ => true
  | .qual p _ => !np p
  | .selector x _ => wf np x
  | .call f args => wf np f && wfEs np args
  | .callSpread f args last => wf np f && wfEs np args && wf np last
  | .index x i => wf np x && wf np i
  | .indexList x is => wf np x && !is.isEmpty && wfEs np is
  | .slice x lo hi => wf np x && wfO np lo && wfO np hi
  | .slice3 x lo hi mx => wf np x && wfO np lo && wfO np hi && wfO np mx
  | .star x => wf np x
  | .unary _ x => wf np x
  | .binary x _ y => wf np x && wf np y
  | .paren x => wf np x
  | .typeAssert x t => wf np x && wfO np t
  | .compositeLit t elts => wfO np t && wfEs np elts
  | .keyValue k v => wf np k && wf np v
  | .funcLit ps rs body => wfFs np ps && wfR np rs && wfSs np body
  | .arrayType len elem => wfO np len && wf np elem
  | .mapType k v => wf np k && wf np v
  | .chanType _ t => wf np t
  | .funcType ps rs => wfFs np ps && wfR np rs
  | .structType fs => wfFs np fs
  | .interfaceType es => wfIs np es
  | .ellipsis t => wfO np t
def wfO (np : Str → Bool) : Option Expr → Bool
  | none => true
  | some x => wf np x
def wfEs (np : Str → Bool) : List Expr → Bool
  | [] => true
  | x :: xs => wf np x && wfEs np xs
def wfF (np : Str → Bool) : Field → Bool
  | .mk _ t _ => wf np t
def wfFs (np : Str → Bool) : List Field → Bool
  | [] => true
  | f :: fs => wfF np f && wfFs np fs
def wfR (np : Str → Bool) : Results → Bool
  | .none => true
  | .type t => wf np t
  | .fields fs => wfFs np fs
def wfI (np : Str → Bool) : IElem → Bool
  | .method _ ps rs => wfFs np ps && wfR np rs
  | .embed t => wf np t
def wfIs (np : Str → Bool) : List IElem → Bool
  | [] => true
  | x :: xs => wfI np x && wfIs np xs
def wfS (np : Str → Bool) : Stmt → Bool
  | .expr x => wf np x
  | .assign lhs _ rhs => !lhs.isEmpty && !rhs.isEmpty && wfEs np lhs && wfEs np rhs
  | .incDec x _ => wf np x
  | .send ch v => wf np ch && wf np v
  | .ret rs => wfEs np rs
  | .branch _ _ => true
  | .block body => wfSs np body
  | .ifS init c body els => wfOS np init && wf np c && wfSs np body && wfOS np els
  | .forS cond body => wfO np cond && wfSs np body
  | .forClause init cond post body => wfOS np init && wfO np cond && wfOS np post && wfSs np body
  | .range key value _ x body => wfO np key && wfO np value && wf np x && wfSs np body
  | .switch init tag cls => wfOS np init && wfO np tag && wfCs np cls
  | .typeSwitch init a cls => wfOS np init && wfS np a && wfCs np cls
  | .select cls => wfCCs np cls
  | .go x => wf np x
  | .defer x => wf np x
  | .decl d => wfG np d
  | .labeled _ s => wfS np s
def wfOS (np : Str → Bool) : Option Stmt → Bool
  | none => true
  | some s => wfS np s
def wfSs (np : Str → Bool) : List Stmt → Bool
  | [] => true
  | s :: ss => wfS np s && wfSs np ss
def wfC (np : Str → Bool) : Clause → Bool
  | .mk xs body => wfEs np xs && wfSs np body
def wfCs (np : Str → Bool) : List Clause → Bool
  | [] => true
  | c :: cs => wfC np c && wfCs np cs
def wfCC (np : Str → Bool) : CommClause → Bool
  | .mk comm body => wfOS np comm && wfSs np body
def wfCCs (np : Str → Bool) : List CommClause → Bool
  | [] => true
  | c :: cs => wfCC np c && wfCCs np cs
def wfSp (np : Str → Bool) : Spec → Bool
  | .value names t vals => !names.isEmpty && wfO np t && wfEs np vals
  | .type _ tps _ t => wfFs np tps && wf np t
def wfSps (np : Str → Bool) : List Spec → Bool
  | [] => true
  | s :: ss => wfSp np s && wfSps np ss
def wfG (np : Str → Bool) : GenDecl → Bool
  | .one _ s => wfSp np s
  | .defs _ ss => wfSps np ss
end

def wfRecv (np : Str → Bool) : Option Field → Bool
  | none => true
  | some r => wfF np r

def wfD (np : Str → Bool) : Decl → Bool
  | .func recv _ tps ps rs body =>
      wfRecv np recv && wfFs np tps && wfFs np ps && wfR np rs && wfSs np body
  | .gen d => wfG np d

def wfFile (np : Str → Bool) (ds : List Decl) : Bool := ds.all (wfD np)

/-! The equation lemmas of the big mutual definitions are generated here, once, so that the
    proof files importing this module do not pay for them again. -/
section realize
set_option linter.unusedVariables false
theorem eqns_realized : True := by
  have h0 := @items.eq_1
  have h1 := @itemsO.eq_1
  have h2 := @itemsOS.eq_1
  have h3 := @itemsF.eq_1
  have h4 := @itemsR.eq_1
  have h5 := @itemsI.eq_1
  have h6 := @itemsS.eq_1
  have h7 := @itemsC.eq_1
  have h8 := @itemsCC.eq_1
  have h9 := @itemsSp.eq_1
  have h10 := @itemsG.eq_1
  have h11 := @buildEs.eq_1
  have h12 := @buildFs.eq_1
  have h13 := @buildIs.eq_1
  have h14 := @buildSs.eq_1
  have h15 := @buildCs.eq_1
  have h16 := @buildCCs.eq_1
  have h17 := @buildSps.eq_1
  have h18 := @print.eq_1
  have h19 := @printO.eq_1
  have h20 := @printOS.eq_1
  have h21 := @printF.eq_1
  have h22 := @printR.eq_1
  have h23 := @printI.eq_1
  have h24 := @printS.eq_1
  have h25 := @printC.eq_1
  have h26 := @printCC.eq_1
  have h27 := @printSp.eq_1
  have h28 := @printG.eq_1
  have h29 := @printEs.eq_1
  have h30 := @printFs.eq_1
  have h31 := @printIs.eq_1
  have h32 := @printSs.eq_1
  have h33 := @printCs.eq_1
  have h34 := @printCCs.eq_1
  have h35 := @printSps.eq_1
  have h36 := @wf.eq_1
  have h37 := @wfO.eq_1
  have h38 := @wfOS.eq_1
  have h39 := @wfF.eq_1
  have h40 := @wfR.eq_1
  have h41 := @wfI.eq_1
  have h42 := @wfS.eq_1
  have h43 := @wfC.eq_1
  have h44 := @wfCC.eq_1
  have h45 := @wfSp.eq_1
  have h46 := @wfG.eq_1
  have h47 := @wfEs.eq_1
  have h48 := @wfFs.eq_1
  have h49 := @wfIs.eq_1
  have h50 := @wfSs.eq_1
  have h51 := @wfCs.eq_1
  have h52 := @wfCCs.eq_1
  have h53 := @wfSps.eq_1
  have h54 := @itemsD.eq_1
  have h55 := @printD.eq_1
  have h56 := @wfD.eq_1
  trivial
end realize

end GoSyn
