import JenVerif.Render
/-
  Object heap: statements have identity (registers); a `Code` position can hold a *reference*
  to a statement, which is how jennifer's API shares pointers (`Clone`, the Group form returning
  the statement it appended, `Add(s)`).  `resolve` takes the snapshot of the heap that a render
  sees.  References created by the recipe generator always point to existing registers and never
  form cycles; `resolve` takes fuel and yields `nilc` when it runs out.
-/

inductive HCode
  | ref (r : Nat)
  | nilc
  | tok (k : TokKind) (s : Str)
  | lit (v : LitVal)
  | group (g : GInfo) (items : List HCode)
  | stmt (items : List HCode)
  | dict (pairs : List (HCode × HCode))
  | tag (items : List (Str × Str))
  | comment (text : Str)
deriving Repr, Inhabited

/-- register → items of that statement -/
abbrev Heap := List (Nat × List HCode)

namespace Heap

def get (h : Heap) (r : Nat) : List HCode :=
  match h with
  | [] => []
  | (r', items) :: rest => if r' == r then items else get rest r

def set (h : Heap) (r : Nat) (items : List HCode) : Heap :=
  match h with
  | [] => [(r, items)]
  | (r', it) :: rest => if r' == r then (r, items) :: rest else (r', it) :: set rest r items

/-- every builder method appends in place to the receiver -/
def append (h : Heap) (r : Nat) (items : List HCode) : Heap := set h r (get h r ++ items)

/-- `Clone`: a new statement whose single item is the original *pointer* -/
def clone (h : Heap) (dst src : Nat) : Heap := set h dst [.ref src]

mutual
def resolve (h : Heap) : Nat → HCode → Code
  | 0, _ => .nilc
  | fuel + 1, .ref r => .stmt (resolveList h fuel (get h r))
  | _, .nilc => .nilc
  | _, .tok k s => .tok k s
  | _, .lit v => .lit v
  | fuel + 1, .group g items => .group g (resolveList h fuel items)
  | fuel + 1, .stmt items => .stmt (resolveList h fuel items)
  | fuel + 1, .dict ps => .dict (resolvePairs h fuel ps)
  | _, .tag items => .tag items
  | _, .comment t => .comment t
def resolveList (h : Heap) : Nat → List HCode → List Code
  | 0, _ => []
  | _, [] => []
  | fuel + 1, c :: cs => resolve h fuel c :: resolveList h fuel cs
def resolvePairs (h : Heap) : Nat → List (HCode × HCode) → List (Code × Code)
  | 0, _ => []
  | _, [] => []
  | fuel + 1, (k, v) :: ps => (resolve h fuel k, resolve h fuel v) :: resolvePairs h fuel ps
end

end Heap
