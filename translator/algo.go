// Tie 1b (DESIGN.md §11): a translator of ALGORITHMS.  The import-registry functions of
// jen/file.go and jen/reserved.go are written in a small, pure subset of Go (strings, bools,
// ints, two maps, early returns, one counting loop).  This file translates each of them, from
// the working tree's go/ast, into a Lean definition (Gen/SrcRegistry.lean); the Lean module
// JenVerif/Tie/RegistrySrc.lean then PROVES that every translated definition equals the
// hand-written model function the property theorems are about.  A function that leaves the
// supported subset is reported as untranslated (the behavioural tie then carries it alone).
//
// Translation scheme (statement lists to expressions, in continuation style):
//   return e                      -> e                     (or (e, f) when the function mutates f)
//   x := e / x = e / var x T      -> let v_x := e; …       (shadowing = assignment)
//   i++                           -> let v_i := v_i + 1; …
//   f.m[k] = v                    -> let f := { f with m := AList.insert f.m k v }; …
//   if c { A: returns } ; rest    -> if c then A else rest
//   if c { A } else { B } ; rest  -> let t := if c then (A; vars) else (B; vars); let vars := t.i; rest
//   for c { body }                -> let t := Go.loop fuel (fun t => c) (fun t => body; vars) vars; …
//   for _, v := range m { if c { return e } }   (e independent of v)
//                                 -> if Go.anyValue m (fun v => c) then e else …
//   for _, x := range slice { body } / for k, v := range mapParam { body }
//                                 -> List.foldl over the slice / over the map's entries in iteration order
// Go ints are Lean Ints; strings are byte lists; m[k] on a missing key is the zero value.
package main

import (
	"fmt"
	"go/ast"
	"go/token"
	"sort"
	"strconv"
	"strings"
)

type aty int

const (
	tUnknown aty = iota
	tStr
	tBool
	tInt
	tDef
	tFile
	tMapDef
	tMapStr
	tSliceStr
	tRegex
	tVoid
	tWriter  // an io.Writer parameter: modelled as the bytes written so far (a Str that only grows)
	tComment // receiver of comment.render: the comment text
	tTag     // receiver of tag.render / tag.isNull: the tag's map
	tNil
	tError
	tIgnored // a parameter the translated functions never use (the context statement of render)
	tCode      // a Code interface value: the model's `Code`
	tSliceCode // []Code
	tMapCode   // Dict: map[Code]Code as pairs in iteration order
	tTokTyp
	tGroup    // receiver *Group: GInfo + items
	tStmtRecv // receiver *Statement
	tDictRecv // receiver Dict
	tToken    // receiver token: typ + content
)

var tokTypConsts = map[string]bool{"packageToken": true, "identifierToken": true, "qualifiedToken": true, "keywordToken": true, "operatorToken": true,
	"delimiterToken": true, "literalToken": true, "literalRuneToken": true, "literalByteToken": true, "nullToken": true, "layoutToken": true}


var leanTy = map[aty]string{tStr: "Str", tBool: "Bool", tInt: "Int", tDef: "Def", tFile: "FileS", tMapDef: "List (Str × Def)", tMapStr: "List (Str × Str)", tSliceStr: "List Str", tWriter: "Str", tComment: "Str", tTag: "List (Str × Str)", tDyn: "Go.Dyn", tCode: "Code", tKV: "Str × Str × Code × Code", tSliceKV: "List (Str × Str × Code × Code)", tCtx: "Option Code", tOptCode: "Option Code", tSliceCode: "List Code", tMapCode: "List (Code × Code)", tTokTyp: "Go.TokTyp"}

// fields of jen.File that the registry functions may touch -> (FileS field, type)
var fileFields = map[string]struct {
	lean string
	t    aty
}{
	"path": {"path", tStr}, "imports": {"imports", tMapDef}, "hints": {"hints", tMapDef}, "PackagePrefix": {"pfx", tStr},
	"name": {"name", tStr}, "cgoPreamble": {"cgo", tSliceStr}, "headers": {"headers", tSliceStr}, "comments": {"comments", tSliceStr},
	"CanonicalPath": {"canonical", tStr}, "NoFormat": {"noFormat", tBool},
}

type algo struct {
	fns         map[string]*ast.FuncDecl // "File.register", ".guessAlias", ".IsReservedWord"
	reservedVar string
	stdVar      string
	mutates     map[string]bool
	needsFuel   map[string]bool
	needsLib    map[string]bool
	needsRec    map[string]bool
	retTy       map[string]aty
	out         map[string]string
	failed      map[string]string
	inProgress  map[string]bool
	order       []string
	cur         string
	fresh       int
	regexes     map[string]string // local var -> pattern
	writer      map[string]string // function -> name of its io.Writer parameter
	inLoopBody  int
	prevVar     string            // inside the loop of Statement.render: the variable holding the raw previous item
	usesCtx     map[string]bool   // render function -> it looks at its context statement
	tokSrc      map[string]string // local of type token -> the Code expression it was asserted from
	tokOpt      map[string]string // … "O" when that expression is an Option Code
	allowShadow bool
	tokDyn      map[string]bool // token receivers whose content is modelled as Go.Dyn (token.render)
	kvName      string // Dict.render: the name of its local struct type
	fileVar     string // entry points: the name of the *File parameter (rendered as `f`)
}

type aenv map[string]aty

func (e aenv) copy() aenv {
	n := aenv{}
	for k, v := range e {
		n[k] = v
	}
	return n
}

func lv(name string) string {
	if name == "f" {
		return "f"
	}
	return "v_" + name
}

type untranslatable struct{ why string }

func bail(format string, a ...interface{}) { panic(untranslatable{fmt.Sprintf(format, a...)}) }

func goType(e ast.Expr) aty {
	switch strings.Join(strings.Fields(nodeStr(e)), "") {
	case "string":
		return tStr
	case "bool":
		return tBool
	case "int":
		return tInt
	case "importdef":
		return tDef
	case "*File":
		return tFile
	case "map[string]string":
		return tMapStr
	case "[]string", "...string":
		return tSliceStr
	case "io.Writer":
		return tWriter
	case "error":
		return tError
	case "Code":
		return tCode
	case "[]Code", "...Code":
		return tSliceCode
	case "*Statement":
		return tIgnored
	case "map[string]importdef":
		return tMapDef
	}
	return tUnknown
}

// ---- which functions mutate the file, need fuel ----

func (a *algo) scan(key string) {
	d := a.fns[key]
	if d == nil || d.Body == nil {
		return
	}
	ast.Inspect(d.Body, func(n ast.Node) bool {
		switch s := n.(type) {
		case *ast.AssignStmt:
			for _, l := range s.Lhs {
				if ix, ok := l.(*ast.IndexExpr); ok {
					if sel, ok := ix.X.(*ast.SelectorExpr); ok {
						if id, ok := sel.X.(*ast.Ident); ok && id.Name == "f" {
							a.mutates[key] = true
						}
					}
				}
				if sel, ok := l.(*ast.SelectorExpr); ok {
					if id, ok := sel.X.(*ast.Ident); ok && id.Name == "f" {
						a.mutates[key] = true
					}
				}
			}
		case *ast.ForStmt:
			a.needsFuel[key] = true
		}
		return true
	})
}

// ---- expressions ----

func (a *algo) expr(e ast.Expr, env aenv) (string, aty) {
	switch x := e.(type) {
	case *ast.ParenExpr:
		return a.expr(x.X, env)
	case *ast.BasicLit:
		switch x.Kind {
		case token.STRING:
			s, err := strconv.Unquote(x.Value)
			if err != nil {
				bail("bad string literal %s", x.Value)
			}
			return leanStr(s), tStr
		case token.INT:
			return "(" + x.Value + " : Int)", tInt
		}
		bail("literal %s", x.Value)
	case *ast.Ident:
		switch x.Name {
		case "true":
			return "true", tBool
		case "false":
			return "false", tBool
		case "f":
			return "f", tFile
		case "nil":
			return "()", tNil
		}
		if a.fileVar != "" && x.Name == a.fileVar {
			return "f", tFile
		}
		if x.Name == a.reservedVar {
			return "Gen.reserved", tSliceStr
		}
		if tokTypConsts[x.Name] {
			if _, shadow := env[x.Name]; !shadow {
				return "Go.TokTyp." + x.Name, tTokTyp
			}
		}
		if env[x.Name] == tDictRecv {
			return lv(x.Name), tMapCode
		}
		if x.Name == a.stdVar {
			return "Gen.stdHints", tMapStr
		}
		t, ok := env[x.Name]
		if !ok {
			bail("unknown identifier %s", x.Name)
		}
		return lv(x.Name), t
	case *ast.SelectorExpr:
		base, bt := a.expr(x.X, env)
		switch bt {
		case tFile:
			ff, ok := fileFields[x.Sel.Name]
			if !ok {
				bail("File field %s is outside the translated subset", x.Sel.Name)
			}
			return base + "." + ff.lean, ff.t
		case tGroup:
			switch x.Sel.Name {
			case "name":
				return base + ".name", tStr
			case "open":
				return base + ".opn", tStr
			case "close":
				return base + ".cls", tStr
			case "separator":
				return base + ".sep", tStr
			case "multi":
				return base + ".multi", tBool
			case "items":
				return base + "_items", tSliceCode
			}
		case tKV:
			if p, ok := kvProj[x.Sel.Name]; ok {
				return base + p, kvType[x.Sel.Name]
			}
		case tToken:
			if x.Sel.Name == "typ" {
				return base + "_typ", tTokTyp
			}
			if id, ok := x.X.(*ast.Ident); ok && x.Sel.Name == "content" && a.tokDyn[id.Name] {
				return base + "_val", tDyn
			}
		case tComment:
			if x.Sel.Name == "comment" {
				return base, tStr
			}
		case tTag:
			if x.Sel.Name == "items" {
				return base, tMapStr
			}
		case tDef:
			switch x.Sel.Name {
			case "name":
				return base + ".name", tStr
			case "alias":
				return base + ".alias", tBool
			}
		}
		bail("selector %s", nodeStr(x))
	case *ast.StarExpr:
		if id, ok := x.X.(*ast.Ident); ok && env[id.Name] == tStmtRecv {
			return lv(id.Name), tSliceCode
		}
		bail("dereference %s", nodeStr(x))
	case *ast.TypeAssertExpr:
		if sel, ok := x.X.(*ast.SelectorExpr); ok && sel.Sel.Name == "content" && x.Type != nil {
			if id, ok := sel.X.(*ast.Ident); ok && a.tokDyn[id.Name] {
				switch nodeStr(x.Type) {
				case "string":
					return "(Go.dynStr " + lv(id.Name) + "_val)", tStr
				case "rune":
					return lv(id.Name) + "_val", tDyn
				}
			}
		}
		// t.content.(string) on the token receiver
		if sel, ok := x.X.(*ast.SelectorExpr); ok && sel.Sel.Name == "content" && x.Type != nil && nodeStr(x.Type) == "string" {
			if id, ok := sel.X.(*ast.Ident); ok && env[id.Name] == tToken {
				return lv(id.Name) + "_content", tStr
			}
		}
		bail("type assertion %s", nodeStr(x))
	case *ast.UnaryExpr:
		v, t := a.expr(x.X, env)
		if x.Op == token.NOT && t == tBool {
			return "(!" + v + ")", tBool
		}
		if x.Op == token.SUB && t == tInt {
			return "(-" + v + ")", tInt
		}
		bail("unary %s", nodeStr(x))
	case *ast.BinaryExpr:
		if (x.Op == token.EQL || x.Op == token.NEQ) && nodeStr(x.Y) == "nil" {
			v, t := a.expr(x.X, env)
			res := ""
			switch t {
			case tGroup, tStmtRecv, tDictRecv:
				// a typed nil receiver (a nil *Group stored in a Code) is outside the model: the
				// receiver of a translated method is a value the API built
				res = "false"
			case tMapCode:
				res = "false"
			case tCode:
				res = "(Go.isNil " + v + ")"
			case tCtx, tOptCode:
				res = "(Option.isNone " + v + ")"
			default:
				bail("comparison with nil: %s", nodeStr(x))
			}
			if x.Op == token.NEQ {
				res = "(!" + res + ")"
			}
			return res, tBool
		}
		if sel, ok := x.X.(*ast.SelectorExpr); ok && sel.Sel.Name == "content" && (x.Op == token.EQL || x.Op == token.NEQ) {
			if id, ok := sel.X.(*ast.Ident); ok && env[id.Name] == tToken && a.tokSrc[id.Name] != "" {
				lit, lt := a.expr(x.Y, env)
				if lt != tStr {
					bail("token content compared with a non-string")
				}
				res := "(Go.tokContentIs" + a.tokOpt[id.Name] + " " + a.tokSrc[id.Name] + " " + lit + ")"
				if x.Op == token.NEQ {
					res = "(!" + res + ")"
				}
				return res, tBool
			}
		}
		l, lt := a.expr(x.X, env)
		r, rt := a.expr(x.Y, env)
		if lt != rt {
			bail("operand types differ in %s", nodeStr(x))
		}
		switch x.Op {
		case token.EQL:
			return "(" + l + " == " + r + ")", tBool
		case token.NEQ:
			return "(" + l + " != " + r + ")", tBool
		case token.LAND:
			if lt == tBool {
				return "(" + l + " && " + r + ")", tBool
			}
		case token.LOR:
			if lt == tBool {
				return "(" + l + " || " + r + ")", tBool
			}
		case token.ADD:
			if lt == tStr {
				return "(" + l + " ++ " + r + ")", tStr
			}
			if lt == tInt {
				return "(" + l + " + " + r + ")", tInt
			}
		case token.SUB:
			if lt == tInt {
				return "(" + l + " - " + r + ")", tInt
			}
		case token.LSS, token.GTR, token.LEQ, token.GEQ:
			if lt == tInt {
				return "(decide (" + l + " " + x.Op.String() + " " + r + "))", tBool
			}
		}
		bail("binary %s", nodeStr(x))
	case *ast.IndexExpr:
		m, mt := a.expr(x.X, env)
		k, kt := a.expr(x.Index, env)
		if kt != tStr {
			bail("map key of %s is not a string", nodeStr(x))
		}
		switch mt {
		case tMapDef:
			return "(Go.getDef " + m + " " + k + ")", tDef
		case tMapStr:
			return "(Go.getStr " + m + " " + k + ")", tStr
		}
		bail("index %s", nodeStr(x))
	case *ast.SliceExpr:
		s, st := a.expr(x.X, env)
		if st != tStr || x.Slice3 {
			bail("slice %s", nodeStr(x))
		}
		lo, hi := "(0 : Int)", "(Int.ofNat "+s+".length)"
		if x.Low != nil {
			v, t := a.expr(x.Low, env)
			if t != tInt {
				bail("slice bound")
			}
			lo = v
		}
		if x.High != nil {
			v, t := a.expr(x.High, env)
			if t != tInt {
				bail("slice bound")
			}
			hi = v
		}
		return "(Go.slice " + s + " " + lo + " " + hi + ")", tStr
	case *ast.CompositeLit:
		if t := goType(x.Type); (t == tSliceStr || t == tMapDef) && len(x.Elts) == 0 {
			return "([] : " + leanTy[t] + ")", t
		}
		if goType(x.Type) != tDef {
			bail("composite literal %s", nodeStr(x.Type))
		}
		name, alias := "([] : Str)", "false"
		for _, el := range x.Elts {
			kv, ok := el.(*ast.KeyValueExpr)
			if !ok {
				bail("unkeyed importdef literal")
			}
			v, t := a.expr(kv.Value, env)
			switch nodeStr(kv.Key) {
			case "name":
				if t != tStr {
					bail("importdef.name")
				}
				name = v
			case "alias":
				if t != tBool {
					bail("importdef.alias")
				}
				alias = v
			default:
				bail("importdef field %s", nodeStr(kv.Key))
			}
		}
		return "(Def.mk " + name + " " + alias + ")", tDef
	case *ast.CallExpr:
		return a.call(x, env)
	}
	bail("expression %s", nodeStr(e))
	return "", tUnknown
}

func (a *algo) args(x *ast.CallExpr, env aenv, want ...aty) []string {
	if len(x.Args) != len(want) || x.Ellipsis != token.NoPos {
		bail("arity of %s", nodeStr(x))
	}
	var out []string
	for i, ar := range x.Args {
		v, t := a.expr(ar, env)
		if t != want[i] {
			bail("argument %d of %s", i, nodeStr(x))
		}
		out = append(out, v)
	}
	return out
}

func (a *algo) call(x *ast.CallExpr, env aenv) (string, aty) {
	if v, ok := a.bufBytes(x, env); ok {
		return v, tStr
	}
	fun := strings.Join(strings.Fields(nodeStr(x.Fun)), "")
	switch fun {
	case "len":
		v, t := a.expr(x.Args[0], env)
		if len(x.Args) == 1 && (t == tStr || t == tSliceStr || t == tMapDef || t == tMapStr || t == tMapCode || t == tSliceCode || t == tSliceKV) {
			return "(Int.ofNat " + v + ".length)", tInt
		}
	case "[]byte", "string":
		if len(x.Args) == 1 {
			v, t := a.expr(x.Args[0], env)
			if t == tStr {
				return v, tStr
			}
		}
	case "append":
		if len(x.Args) == 2 && x.Ellipsis == token.NoPos {
			l, lt := a.expr(x.Args[0], env)
			e, et := a.expr(x.Args[1], env)
			if lt == tSliceStr && et == tStr {
				return "(" + l + " ++ [" + e + "])", tSliceStr
			}
		}
	case "strconv.QuoteRune":
		if len(x.Args) == 1 {
			v, t := a.expr(x.Args[0], env)
			if t == tDyn {
				return "(Go.quoteRuneDyn cfg.isPrint " + v + ")", tStr
			}
		}
	case "strconv.Quote":
		ar := a.args(x, env, tStr)
		return "(Quote.quote cfg.isPrint " + ar[0] + ")", tStr
	case "strconv.CanBackquote":
		ar := a.args(x, env, tStr)
		return "(Quote.canBackquote " + ar[0] + ".length " + ar[0] + ")", tBool
	case "strings.HasSuffix":
		ar := a.args(x, env, tStr, tStr)
		return "(Go.hasSuffix " + ar[0] + " " + ar[1] + ")", tBool
	case "strings.TrimSuffix":
		ar := a.args(x, env, tStr, tStr)
		return "(Go.trimSuffix " + ar[0] + " " + ar[1] + ")", tStr
	case "make":
		// make([]string, 0[, cap]) : an empty slice
		if len(x.Args) >= 2 && goType(x.Args[0]) == tSliceStr && nodeStr(x.Args[1]) == "0" {
			return "([] : List Str)", tSliceStr
		}
	case "strings.HasPrefix":
		ar := a.args(x, env, tStr, tStr)
		return "(Str.isPrefixOf " + ar[1] + " " + ar[0] + ")", tBool
	case "strings.Contains":
		ar := a.args(x, env, tStr, tStr)
		return "(Str.hasSub " + ar[0] + " " + ar[1] + ")", tBool
	case "strings.LastIndex":
		ar := a.args(x, env, tStr, tStr)
		return "(Go.lastIndex " + ar[0] + " " + ar[1] + ")", tInt
	case "strings.ToLower":
		ar := a.args(x, env, tStr)
		return "(cfg.toLower " + ar[0] + ")", tStr
	case "strconv.Itoa":
		ar := a.args(x, env, tInt)
		return "(Str.intDec " + ar[0] + ")", tStr
	case "fmt.Sprint":
		if len(x.Args) == 1 {
			v, t := a.expr(x.Args[0], env)
			if t == tInt {
				return "(Str.intDec " + v + ")", tStr
			}
			if t == tStr {
				return v, tStr
			}
		}
	case "fmt.Sprintf":
		if len(x.Args) >= 1 {
			if bl, ok := x.Args[0].(*ast.BasicLit); ok && bl.Kind == token.STRING {
				format, _ := strconv.Unquote(bl.Value)
				return a.sprintf(format, x.Args[1:], env), tStr
			}
		}
	case "unicode.IsDigit":
		ar := a.args(x, env, tInt)
		a.needsLib[a.cur] = true
		return "(lib.isDigitRune " + ar[0] + ")", tBool
	}
	// regexp: r.ReplaceAllString(x, "") for a local r := regexp.MustCompile(`[^a-z0-9]`)
	if sel, ok := x.Fun.(*ast.SelectorExpr); ok {
		if id, ok := sel.X.(*ast.Ident); ok {
			if pat, isRe := a.regexes[id.Name]; isRe && sel.Sel.Name == "ReplaceAllString" {
				ar := a.args(x, env, tStr, tStr)
				if pat == "[^a-z0-9]" && ar[1] == "([] : Str)" {
					return "(Go.removeNotLowerAlnum " + ar[0] + ")", tStr
				}
				bail("regexp %q is outside the translated subset", pat)
			}
			// method of File: f.g(args)
			if id.Name == "f" {
				return a.callFn("File."+sel.Sel.Name, x, env)
			}
			if env[id.Name] == tTag {
				return a.callFnRecv("tag."+sel.Sel.Name, lv(id.Name), x, env)
			}
			if env[id.Name] == tCtx && sel.Sel.Name == "previous" && len(x.Args) == 1 {
				if rid, ok := x.Args[0].(*ast.Ident); ok && env[rid.Name] == tGroup {
					// the context is passed as the answer to this very question (algo_render.go)
					return lv(id.Name), tOptCode
				}
			}
			if env[id.Name] == tGroup {
				return a.callFnRecv("Group."+sel.Sel.Name, lv(id.Name)+" "+lv(id.Name)+"_items", x, env)
			}
			if env[id.Name] == tCode && sel.Sel.Name == "isNull" && len(x.Args) == 1 && nodeStr(x.Args[0]) == "f" {
				// dynamic dispatch through the Code interface: open recursion
				a.needsRec[a.cur] = true
				return "(recNull f " + lv(id.Name) + ")", tBool
			}
		}
	}
	if id, ok := x.Fun.(*ast.Ident); ok {
		return a.callFn("."+id.Name, x, env)
	}
	bail("call %s", nodeStr(x))
	return "", tUnknown
}

func (a *algo) sprintf(format string, args []ast.Expr, env aenv) string {
	var parts []string
	lit := ""
	ai := 0
	for i := 0; i < len(format); i++ {
		if format[i] != '%' {
			lit += string(format[i])
			continue
		}
		if i+1 >= len(format) {
			bail("format %q", format)
		}
		i++
		if format[i] == '%' {
			lit += "%"
			continue
		}
		sharp := false
		if format[i] == '#' && i+1 < len(format) {
			sharp = true
			i++
		}
		if lit != "" {
			parts = append(parts, leanStr(lit))
			lit = ""
		}
		if ai >= len(args) {
			bail("format %q: too few arguments", format)
		}
		v, t := a.expr(args[ai], env)
		ai++
		switch {
		case t == tDyn && sharp && format[i] == 'v':
			parts = append(parts, "(Go.sharpV cfg.isPrint "+v+")")
		case t == tDyn && !sharp && format[i] == 'T':
			parts = append(parts, "(Go.typeName "+v+")")
		case t == tDyn && !sharp && format[i] == 's':
			parts = append(parts, "(Go.dynStr "+v+")")
		case sharp:
			bail("format verb %%#%c in %q", format[i], format)
		case format[i] == 's' && t == tStr:
			parts = append(parts, v)
		case format[i] == 'd' && t == tInt:
			parts = append(parts, "(Str.intDec "+v+")")
		case format[i] == 'q' && t == tStr:
			parts = append(parts, "(Quote.quote cfg.isPrint "+v+")")
		case format[i] == 'v' && t == tStr:
			parts = append(parts, v)
		case format[i] == 'v' && t == tInt:
			parts = append(parts, "(Str.intDec "+v+")")
		default:
			bail("format verb %%%c in %q", format[i], format)
		}
	}
	if lit != "" {
		parts = append(parts, leanStr(lit))
	}
	if ai != len(args) {
		bail("format %q: too many arguments", format)
	}
	if len(parts) == 0 {
		return "([] : Str)"
	}
	return "(" + strings.Join(parts, " ++ ") + ")"
}

func leanName(key string) string {
	recv, name := key[:strings.Index(key, ".")], key[strings.Index(key, ".")+1:]
	if recv == "" || recv == "File" {
		return name
	}
	return recv + "_" + name
}

// the writer parameter of a function (its accumulated output is what the translation returns)
func writerParam(d *ast.FuncDecl) string {
	for _, p := range d.Type.Params.List {
		if goType(p.Type) == tWriter && len(p.Names) == 1 {
			return p.Names[0].Name
		}
	}
	return ""
}

func (a *algo) callFn(key string, x *ast.CallExpr, env aenv) (string, aty) {
	return a.callFnRecv(key, "", x, env)
}

func (a *algo) callFnRecv(key string, recvArg string, x *ast.CallExpr, env aenv) (string, aty) {
	d := a.fns[key]
	if d == nil {
		bail("call of %s, which is not a translated function", key)
	}
	a.translate(key)
	if _, bad := a.failed[key]; bad {
		bail("calls %s, which is untranslated", key)
	}
	if a.mutates[key] {
		bail("call of the mutating function %s inside an expression", key)
	}
	var argv []string
	i := 0
	for _, p := range d.Type.Params.List {
		for range p.Names {
			if i >= len(x.Args) {
				bail("arity of %s", nodeStr(x))
			}
			pt := goType(p.Type)
			if pt == tIgnored {
				if nodeStr(x.Args[i]) != "nil" {
					bail("non-nil context statement in %s", nodeStr(x))
				}
				i++
				continue
			}
			v, t := a.expr(x.Args[i], env)
			if t != pt {
				bail("argument %d of %s", i, nodeStr(x))
			}
			argv = append(argv, v)
			i++
		}
	}
	if i != len(x.Args) || x.Ellipsis != token.NoPos {
		bail("arity of %s", nodeStr(x))
	}
	s := "(" + leanName(key) + " cfg"
	if a.needsLib[key] {
		s += " lib"
		a.needsLib[a.cur] = true
	}
	if a.needsFuel[key] {
		s += " fuel"
		a.needsFuel[a.cur] = true
	}
	if a.needsRec[key] {
		s += " recNull"
		a.needsRec[a.cur] = true
	}
	switch {
	case strings.HasPrefix(key, "File."):
		s += " f"
	case strings.HasPrefix(key, "comment."), strings.HasPrefix(key, "tag."), strings.HasPrefix(key, "Group."), strings.HasPrefix(key, "Statement."), strings.HasPrefix(key, "Dict."):
		s += " " + recvArg
	}
	for _, v := range argv {
		s += " " + v
	}
	return s + ")", a.retTy[key]
}

// ---- statements ----

// does the list end in a return on every path
func returnsAll(list []ast.Stmt) bool {
	if len(list) == 0 {
		return false
	}
	switch s := list[len(list)-1].(type) {
	case *ast.ReturnStmt:
		return true
	case *ast.BranchStmt:
		return s.Tok == token.CONTINUE && s.Label == nil
	case *ast.IfStmt:
		if s.Else == nil {
			return false
		}
		if !returnsAll(s.Body.List) {
			return false
		}
		switch el := s.Else.(type) {
		case *ast.BlockStmt:
			return returnsAll(el.List)
		case *ast.IfStmt:
			return returnsAll([]ast.Stmt{el})
		}
	case *ast.BlockStmt:
		return returnsAll(s.List)
	}
	return false
}

// `if [_,] err := …; err != nil { return err }` — the shape of every guarded write
func isWriteGuard(x *ast.IfStmt) bool {
	as, ok := x.Init.(*ast.AssignStmt)
	if !ok || as.Tok != token.DEFINE || len(as.Rhs) != 1 || x.Else != nil || len(x.Body.List) != 1 {
		return false
	}
	errName := nodeStr(as.Lhs[len(as.Lhs)-1])
	if strings.Join(strings.Fields(nodeStr(x.Cond)), "") != errName+"!=nil" {
		return false
	}
	rs, ok := x.Body.List[0].(*ast.ReturnStmt)
	return ok && len(rs.Results) >= 1 && nodeStr(rs.Results[len(rs.Results)-1]) == errName
}

func hasReturn(n ast.Node) bool {
	found := false
	ast.Inspect(n, func(m ast.Node) bool {
		if is, ok := m.(*ast.IfStmt); ok && isWriteGuard(is) {
			return false
		}
		if _, ok := m.(*ast.ReturnStmt); ok {
			found = true
		}
		if _, ok := m.(*ast.FuncLit); ok {
			return false
		}
		return true
	})
	return found
}

// outer variables (present in env) assigned anywhere in the statements
func assigned(list []ast.Stmt, env aenv) []string {
	set := map[string]bool{}
	var walk func(list []ast.Stmt, local map[string]bool)
	mark := func(e ast.Expr, local map[string]bool) {
		switch l := e.(type) {
		case *ast.Ident:
			if _, ok := env[l.Name]; ok && !local[l.Name] && l.Name != "_" {
				set[l.Name] = true
			}
		case *ast.IndexExpr:
			if sel, ok := l.X.(*ast.SelectorExpr); ok {
				if id, ok := sel.X.(*ast.Ident); ok && id.Name == "f" {
					set["f"] = true
				}
			}
			if id, ok := l.X.(*ast.Ident); ok {
				if _, ok := env[id.Name]; ok && !local[id.Name] {
					set[id.Name] = true
				}
			}
		case *ast.SelectorExpr:
			if id, ok := l.X.(*ast.Ident); ok && id.Name == "f" {
				set["f"] = true
			}
		}
	}
	walk = func(list []ast.Stmt, local map[string]bool) {
		loc := map[string]bool{}
		for k := range local {
			loc[k] = true
		}
		var one func(s ast.Stmt)
		one = func(s ast.Stmt) {
			switch x := s.(type) {
			case *ast.AssignStmt:
				if x.Tok == token.DEFINE {
					for _, l := range x.Lhs {
						if id, ok := l.(*ast.Ident); ok {
							loc[id.Name] = true
						}
					}
				} else {
					for _, l := range x.Lhs {
						mark(l, loc)
					}
				}
			case *ast.IncDecStmt:
				mark(x.X, loc)
			case *ast.ExprStmt:
				if c, ok := x.X.(*ast.CallExpr); ok && strings.Join(strings.Fields(nodeStr(c.Fun)), "") == "f.register" {
					set["f"] = true
				}
				// sort.Strings(x) sorts in place
				if c, ok := x.X.(*ast.CallExpr); ok && len(c.Args) == 1 && strings.Join(strings.Fields(nodeStr(c.Fun)), "") == "sort.Strings" {
					mark(c.Args[0], loc)
				}
			case *ast.DeclStmt:
				if gd, ok := x.Decl.(*ast.GenDecl); ok {
					for _, sp := range gd.Specs {
						if vs, ok := sp.(*ast.ValueSpec); ok {
							for _, n := range vs.Names {
								loc[n.Name] = true
							}
						}
					}
				}
			case *ast.IfStmt:
				inner := map[string]bool{}
				for k := range loc {
					inner[k] = true
				}
				if x.Init != nil {
					if as, ok := x.Init.(*ast.AssignStmt); ok && as.Tok == token.DEFINE {
						for _, l := range as.Lhs {
							if id, ok := l.(*ast.Ident); ok {
								inner[id.Name] = true
							}
						}
						// a render through the Code interface also registers imports in f
						if c, ok := as.Rhs[0].(*ast.CallExpr); ok {
							if sel, ok := c.Fun.(*ast.SelectorExpr); ok && (sel.Sel.Name == "render" || sel.Sel.Name == "renderItems") {
								// (any variable receiver: a Code value, possibly declared inside the block;
								// `Comment(c).render` has a call as receiver and registers nothing)
								if _, ok := sel.X.(*ast.Ident); ok {
									if _, hasF := env["f"]; hasF {
										set["f"] = true
									}
								}
							}
						}
						// a write: every writer mentioned in the initialiser grows
						ast.Inspect(as.Rhs[0], func(n ast.Node) bool {
							if id, ok := n.(*ast.Ident); ok && env[id.Name] == tWriter && !loc[id.Name] {
								set[id.Name] = true
							}
							return true
						})
					}
				}
				walk(x.Body.List, inner)
				if x.Else != nil {
					switch el := x.Else.(type) {
					case *ast.BlockStmt:
						walk(el.List, inner)
					case *ast.IfStmt:
						walk([]ast.Stmt{el}, inner)
					}
				}
			case *ast.ForStmt:
				inner := map[string]bool{}
				for k := range loc {
					inner[k] = true
				}
				if x.Init != nil {
					if as, ok := x.Init.(*ast.AssignStmt); ok && as.Tok == token.DEFINE {
						for _, l := range as.Lhs {
							if id, ok := l.(*ast.Ident); ok {
								inner[id.Name] = true
							}
						}
					}
				}
				body := append([]ast.Stmt{}, x.Body.List...)
				if x.Post != nil {
					body = append(body, x.Post)
				}
				walk(body, inner)
			case *ast.RangeStmt:
				inner := map[string]bool{}
				for k := range loc {
					inner[k] = true
				}
				for _, e := range []ast.Expr{x.Key, x.Value} {
					if id, ok := e.(*ast.Ident); ok && x.Tok == token.DEFINE {
						inner[id.Name] = true
					}
				}
				walk(x.Body.List, inner)
			case *ast.BlockStmt:
				walk(x.List, loc)
			}
		}
		for _, s := range list {
			one(s)
		}
	}
	walk(list, map[string]bool{})
	var out []string
	for k := range set {
		out = append(out, k)
	}
	sort.Strings(out)
	return out
}

func tupleOf(vars []string) string {
	if len(vars) == 1 {
		return lv(vars[0])
	}
	var p []string
	for _, v := range vars {
		p = append(p, lv(v))
	}
	return "(" + strings.Join(p, ", ") + ")"
}

// `let v_a := t.1; let v_b := t.2.1; …`
func unpack(t string, vars []string) string {
	if len(vars) == 1 {
		return "let " + lv(vars[0]) + " := " + t + ";\n"
	}
	var b strings.Builder
	for i, v := range vars {
		proj := t
		for j := 0; j < i; j++ {
			proj += ".2"
		}
		if i < len(vars)-1 {
			proj += ".1"
		}
		fmt.Fprintf(&b, "let %s := %s;\n", lv(v), proj)
	}
	return b.String()
}

func (a *algo) tmp() string {
	a.fresh++
	return fmt.Sprintf("t%d", a.fresh)
}

func (a *algo) ret(e *ast.ReturnStmt, env aenv) string {
	key := a.cur
	if len(e.Results) == 0 {
		if a.mutates[key] {
			return "f"
		}
		return "()"
	}
	if len(e.Results) != 1 {
		bail("multiple results")
	}
	if w := a.writer[key]; w != "" && a.retTy[key] == tWriter {
		if nodeStr(e.Results[0]) != "nil" {
			bail("returns the error %s (only write errors may be returned)", nodeStr(e.Results[0]))
		}
		return lv(w)
	}
	v, t := a.expr(e.Results[0], env)
	if t != a.retTy[key] {
		bail("result type of %s", nodeStr(e))
	}
	if a.mutates[key] {
		return "(" + v + ", f)"
	}
	return v
}

// block translates a statement list; `tail` is what the list evaluates to when control reaches
// its end ("" = that must not happen); noReturn forbids return statements (join blocks, loop bodies)
// `switch { case c1: A; case c2, c3: B; default: D }` = if c1 {A} else if c2 || c3 {B} else {D}
func switchToIf(x *ast.SwitchStmt) *ast.IfStmt {
	if x.Init != nil || x.Tag != nil {
		bail("switch with a tag or an initialiser")
	}
	var clauses []*ast.CaseClause
	var def *ast.CaseClause
	for _, s := range x.Body.List {
		cc := s.(*ast.CaseClause)
		ast.Inspect(cc, func(n ast.Node) bool {
			if b, ok := n.(*ast.BranchStmt); ok && (b.Tok == token.FALLTHROUGH || b.Tok == token.BREAK) {
				bail("%s inside a switch", b.Tok)
			}
			return true
		})
		if cc.List == nil {
			def = cc
		} else {
			clauses = append(clauses, cc)
		}
	}
	if len(clauses) == 0 {
		bail("switch without cases")
	}
	var build func(i int) *ast.IfStmt
	build = func(i int) *ast.IfStmt {
		cc := clauses[i]
		cond := cc.List[0]
		for _, e := range cc.List[1:] {
			cond = &ast.BinaryExpr{X: cond, Op: token.LOR, Y: e}
		}
		is := &ast.IfStmt{Cond: cond, Body: &ast.BlockStmt{List: cc.Body}}
		if i+1 < len(clauses) {
			is.Else = build(i + 1)
		} else if def != nil {
			is.Else = &ast.BlockStmt{List: def.Body}
		}
		return is
	}
	return build(0)
}

func (a *algo) block(list []ast.Stmt, env aenv, tail string, noReturn bool) string {
	if len(list) > 0 {
		if sw, ok := list[0].(*ast.SwitchStmt); ok {
			list = append([]ast.Stmt{switchToIf(sw)}, list[1:]...)
		}
	}
	if len(list) == 0 {
		if tail == "" {
			bail("control reaches the end of a non-void function")
		}
		return tail
	}
	s, rest := list[0], list[1:]
	cont := func(e aenv) string { return a.block(rest, e, tail, noReturn) }
	switch x := s.(type) {
	case *ast.ReturnStmt:
		if noReturn {
			bail("return inside a joined block or loop body")
		}
		return a.ret(x, env)
	case *ast.EmptyStmt:
		return cont(env)
	case *ast.BlockStmt:
		bail("nested block")
	case *ast.DeclStmt:
		gd, ok := x.Decl.(*ast.GenDecl)
		if !ok || gd.Tok != token.VAR {
			bail("declaration %s", nodeStr(x))
		}
		e2 := env.copy()
		var b strings.Builder
		for _, sp := range gd.Specs {
			vs := sp.(*ast.ValueSpec)
			if len(vs.Values) != 0 || vs.Type == nil {
				bail("var with initialiser")
			}
			t := goType(vs.Type)
			zero := map[aty]string{tStr: "([] : Str)", tBool: "false", tInt: "(0 : Int)", tSliceStr: "([] : List Str)"}[t]
			if zero == "" {
				bail("var of type %s", nodeStr(vs.Type))
			}
			for _, n := range vs.Names {
				if _, dup := e2[n.Name]; dup {
					bail("redeclaration of %s shadows an outer variable", n.Name)
				}
				e2[n.Name] = t
				fmt.Fprintf(&b, "let %s : %s := %s;\n", lv(n.Name), leanTy[t], zero)
			}
		}
		return b.String() + cont(e2)
	case *ast.IncDecStmt:
		id, ok := x.X.(*ast.Ident)
		if !ok || env[id.Name] != tInt {
			bail("inc/dec of %s", nodeStr(x.X))
		}
		op := "+"
		if x.Tok == token.DEC {
			op = "-"
		}
		return fmt.Sprintf("let %s := %s %s 1;\n", lv(id.Name), lv(id.Name), op) + cont(env)
	case *ast.ExprStmt:
		if c, ok := x.X.(*ast.CallExpr); ok && isRenderTarget(a.cur) && strings.Join(strings.Fields(nodeStr(c.Fun)), "") == "f.register" && len(c.Args) == 1 {
			v, t := a.expr(c.Args[0], env)
			if t != tStr {
				bail("register of a non-string")
			}
			return fmt.Sprintf("let f : FileS := (rec.register f %s).2;\n", v) + cont(env)
		}
		if c, ok := x.X.(*ast.CallExpr); ok && strings.Join(strings.Fields(nodeStr(c.Fun)), "") == "sort.Strings" && len(c.Args) == 1 {
			if id, ok := c.Args[0].(*ast.Ident); ok && env[id.Name] == tSliceStr {
				return fmt.Sprintf("let %s : List Str := (Go.sortStrings %s);\n", lv(id.Name), lv(id.Name)) + cont(env)
			}
		}
		bail("expression statement %s", nodeStr(x))
	case *ast.BranchStmt:
		if x.Tok == token.CONTINUE && x.Label == nil && a.inLoopBody > 0 {
			if tail == "" {
				bail("continue outside a loop body")
			}
			return tail
		}
		bail("%s statement", x.Tok)
	case *ast.AssignStmt:
		return a.assign(x, env, cont)
	case *ast.IfStmt:
		return a.ifStmt(x, rest, env, tail, noReturn)
	case *ast.ForStmt:
		return a.forStmt(x, env, cont)
	case *ast.RangeStmt:
		return a.rangeStmt(x, rest, env, tail, noReturn)
	}
	bail("statement %s", nodeStr(s))
	return ""
}

func (a *algo) assign(x *ast.AssignStmt, env aenv, cont func(aenv) string) string {
	if line, e2, ok := a.typeAssert(x, env); ok {
		return line + cont(e2)
	}
	// regexp.MustCompile(`…`) bound to a local: remembered, emits nothing
	if len(x.Lhs) == 1 && len(x.Rhs) == 1 && x.Tok == token.DEFINE {
		if c, ok := x.Rhs[0].(*ast.CallExpr); ok && strings.Join(strings.Fields(nodeStr(c.Fun)), "") == "regexp.MustCompile" && len(c.Args) == 1 {
			if bl, ok := c.Args[0].(*ast.BasicLit); ok && bl.Kind == token.STRING {
				pat, _ := strconv.Unquote(bl.Value)
				a.regexes[x.Lhs[0].(*ast.Ident).Name] = pat
				return cont(env)
			}
		}
	}
	// v, ok := m[k]
	if len(x.Lhs) == 2 && len(x.Rhs) == 1 && x.Tok == token.DEFINE {
		if ix, ok := x.Rhs[0].(*ast.IndexExpr); ok {
			m, mt := a.expr(ix.X, env)
			k, _ := a.expr(ix.Index, env)
			v, isv := x.Lhs[0].(*ast.Ident)
			o, iso := x.Lhs[1].(*ast.Ident)
			if isv && iso && (mt == tMapDef || mt == tMapStr) {
				e2 := env.copy()
				var b strings.Builder
				if v.Name != "_" {
					if _, dup := env[v.Name]; dup {
						bail("redeclaration of %s", v.Name)
					}
					get, vt := "Go.getDef", tDef
					if mt == tMapStr {
						get, vt = "Go.getStr", tStr
					}
					e2[v.Name] = vt
					fmt.Fprintf(&b, "let %s := (%s %s %s);\n", lv(v.Name), get, m, k)
				}
				if o.Name != "_" {
					if _, dup := env[o.Name]; dup {
						bail("redeclaration of %s", o.Name)
					}
					e2[o.Name] = tBool
					fmt.Fprintf(&b, "let %s := (Go.has %s %s);\n", lv(o.Name), m, k)
				}
				return b.String() + cont(e2)
			}
		}
		// r, n := utf8.DecodeRuneInString(s)
		if c, ok := x.Rhs[0].(*ast.CallExpr); ok && strings.Join(strings.Fields(nodeStr(c.Fun)), "") == "utf8.DecodeRuneInString" {
			return a.decodeAssign(x, c, env, cont)
		}
	}
	if len(x.Lhs) == 2 && len(x.Rhs) == 1 && x.Tok == token.ASSIGN {
		if c, ok := x.Rhs[0].(*ast.CallExpr); ok && strings.Join(strings.Fields(nodeStr(c.Fun)), "") == "utf8.DecodeRuneInString" {
			return a.decodeAssign(x, c, env, cont)
		}
	}
	if len(x.Lhs) != len(x.Rhs) {
		bail("assignment %s", nodeStr(x))
	}
	if len(x.Lhs) > 1 {
		bail("parallel assignment %s", nodeStr(x))
	}
	l, r := x.Lhs[0], x.Rhs[0]
	if id, ok := l.(*ast.Ident); ok && x.Tok == token.ADD_ASSIGN && env[id.Name] == tStr {
		v, t := a.expr(r, env)
		if t != tStr {
			bail("+= of a non-string")
		}
		return fmt.Sprintf("let %s : Str := %s ++ %s;\n", lv(id.Name), lv(id.Name), v) + cont(env)
	}
	if ix, ok := l.(*ast.IndexExpr); ok && x.Tok == token.ASSIGN {
		if id, ok := ix.X.(*ast.Ident); ok && env[id.Name] == tMapDef {
			k, kt := a.expr(ix.Index, env)
			v, vt := a.expr(r, env)
			if kt != tStr || vt != tDef {
				bail("store %s", nodeStr(x))
			}
			return fmt.Sprintf("let %s : List (Str × Def) := AList.insert %s %s %s;\n", lv(id.Name), lv(id.Name), k, v) + cont(env)
		}
	}
	switch lt := l.(type) {
	case *ast.Ident:
		v, t := a.expr(r, env)
		e2 := env
		if x.Tok == token.DEFINE {
			if _, dup := env[lt.Name]; dup && !a.allowShadow {
				bail("redeclaration of %s shadows an outer variable", lt.Name)
			}
			e2 = env.copy()
			e2[lt.Name] = t
		} else if x.Tok == token.ASSIGN {
			if env[lt.Name] != t {
				bail("assignment changes the type of %s", lt.Name)
			}
		} else {
			bail("assignment operator %s", x.Tok)
		}
		if lt.Name == "_" {
			return cont(e2)
		}
		return fmt.Sprintf("let %s : %s := %s;\n", lv(lt.Name), leanTy[t], v) + cont(e2)
	case *ast.IndexExpr:
		// f.m[k] = v
		sel, ok := lt.X.(*ast.SelectorExpr)
		if !ok || nodeStr(sel.X) != "f" || x.Tok != token.ASSIGN {
			bail("store %s", nodeStr(x))
		}
		ff, ok := fileFields[sel.Sel.Name]
		if !ok || ff.t != tMapDef {
			bail("store into %s", nodeStr(lt.X))
		}
		k, kt := a.expr(lt.Index, env)
		v, vt := a.expr(r, env)
		if kt != tStr || vt != tDef {
			bail("store %s", nodeStr(x))
		}
		return fmt.Sprintf("let f : FileS := { f with %s := AList.insert f.%s %s %s };\n", ff.lean, ff.lean, k, v) + cont(env)
	}
	if sel, ok := l.(*ast.SelectorExpr); ok && nodeStr(sel.X) == "f" && x.Tok == token.ASSIGN {
		// f.field = e   (e.g. f.headers = append(f.headers, comment))
		ff, ok := fileFields[sel.Sel.Name]
		if !ok || ff.t == tMapDef {
			bail("store into %s", nodeStr(l))
		}
		v, vt := a.expr(r, env)
		if vt != ff.t {
			bail("store %s", nodeStr(x))
		}
		return fmt.Sprintf("let f : FileS := { f with %s := %s };\n", ff.lean, v) + cont(env)
	}
	bail("assignment target %s", nodeStr(l))
	return ""
}

func (a *algo) decodeAssign(x *ast.AssignStmt, c *ast.CallExpr, env aenv, cont func(aenv) string) string {
	ar := a.args(c, env, tStr)
	r, ok1 := x.Lhs[0].(*ast.Ident)
	n, ok2 := x.Lhs[1].(*ast.Ident)
	if !ok1 || !ok2 {
		bail("decode target")
	}
	e2 := env.copy()
	if x.Tok == token.DEFINE {
		if _, dup := env[r.Name]; dup {
			bail("redeclaration of %s", r.Name)
		}
		if _, dup := env[n.Name]; dup {
			bail("redeclaration of %s", n.Name)
		}
	}
	e2[r.Name], e2[n.Name] = tInt, tInt
	t := a.tmp()
	a.needsLib[a.cur] = true
	return fmt.Sprintf("let %s := (lib.decodeRune %s);\nlet %s : Int := %s.1;\nlet %s : Int := %s.2;\n", t, ar[0], lv(r.Name), t, lv(n.Name), t) + cont(e2)
}

func elseList(s *ast.IfStmt) []ast.Stmt {
	switch el := s.Else.(type) {
	case *ast.BlockStmt:
		return el.List
	case *ast.IfStmt:
		return []ast.Stmt{el}
	}
	return nil
}

// `if _, err := <write>; err != nil { return err }` and `if err := <writer function>(…, w, …); err != nil
// { return err }`: the bytes are appended to the writer's accumulated output
func (a *algo) writeStmt(x *ast.IfStmt, env aenv) (string, bool) {
	as, ok := x.Init.(*ast.AssignStmt)
	if !ok || as.Tok != token.DEFINE || len(as.Rhs) != 1 || x.Else != nil || len(x.Body.List) != 1 {
		return "", false
	}
	errName := ""
	switch len(as.Lhs) {
	case 1:
		errName = nodeStr(as.Lhs[0])
	case 2:
		if nodeStr(as.Lhs[0]) != "_" {
			return "", false
		}
		errName = nodeStr(as.Lhs[1])
	default:
		return "", false
	}
	if strings.Join(strings.Fields(nodeStr(x.Cond)), "") != errName+"!=nil" {
		return "", false
	}
	if rs, ok := x.Body.List[0].(*ast.ReturnStmt); !ok || len(rs.Results) < 1 || nodeStr(rs.Results[len(rs.Results)-1]) != errName {
		return "", false
	}
	call, ok := as.Rhs[0].(*ast.CallExpr)
	if !ok {
		return "", false
	}
	return a.writeCall(call, env)
}

func (a *algo) writeCall(call *ast.CallExpr, env aenv) (string, bool) {
	fun := strings.Join(strings.Fields(nodeStr(call.Fun)), "")
	wr := func(e ast.Expr) string {
		id, ok := e.(*ast.Ident)
		if !ok || env[id.Name] != tWriter {
			bail("write to %s, which is not a writer parameter", nodeStr(e))
		}
		return lv(id.Name)
	}
	app := func(w, v string) (string, bool) { return fmt.Sprintf("let %s : Str := %s ++ %s;\n", w, w, v), true }
	switch fun {
	case "fmt.Fprint":
		if len(call.Args) < 1 {
			return "", false
		}
		w := wr(call.Args[0])
		var parts []string
		for _, ar := range call.Args[1:] {
			v, t := a.expr(ar, env)
			if t != tStr {
				bail("fmt.Fprint of a non-string")
			}
			parts = append(parts, v)
		}
		return app(w, "("+strings.Join(parts, " ++ ")+")")
	case "fmt.Fprintf":
		if len(call.Args) < 2 {
			return "", false
		}
		w := wr(call.Args[0])
		bl, ok := call.Args[1].(*ast.BasicLit)
		if !ok || bl.Kind != token.STRING {
			bail("format is not a literal")
		}
		format, _ := strconv.Unquote(bl.Value)
		return app(w, a.sprintf(format, call.Args[2:], env))
	case "io.WriteString":
		if len(call.Args) != 2 {
			return "", false
		}
		w := wr(call.Args[0])
		v, t := a.expr(call.Args[1], env)
		if t != tStr {
			bail("io.WriteString of a non-string")
		}
		return app(w, v)
	}
	sel, ok := call.Fun.(*ast.SelectorExpr)
	if !ok {
		return "", false
	}
	// w.Write([]byte(x))
	if id, ok := sel.X.(*ast.Ident); ok && env[id.Name] == tWriter && sel.Sel.Name == "Write" && len(call.Args) == 1 {
		v, t := a.expr(call.Args[0], env)
		if t != tStr {
			bail("Write of a non-string")
		}
		return app(lv(id.Name), v)
	}
	// a translated writer function: Comment(c).render(f, w, nil), f.renderImports(w)
	key, recvArg := "", ""
	if inner, ok := sel.X.(*ast.CallExpr); ok && nodeStr(inner.Fun) == "Comment" && len(inner.Args) == 1 {
		v, t := a.expr(inner.Args[0], env)
		if t != tStr {
			bail("Comment of a non-string")
		}
		key, recvArg = "comment."+sel.Sel.Name, v
	} else if id, ok := sel.X.(*ast.Ident); ok && id.Name == "f" {
		key = "File." + sel.Sel.Name
	} else {
		return "", false
	}
	d := a.fns[key]
	if d == nil {
		bail("call of %s, which is not a translated function", key)
	}
	wp := writerParam(d)
	if wp == "" {
		return "", false
	}
	// which argument is the writer
	wi, i := -1, 0
	for _, p := range d.Type.Params.List {
		for _, n := range p.Names {
			if n.Name == wp {
				wi = i
			}
			i++
		}
	}
	if wi < 0 || wi >= len(call.Args) {
		return "", false
	}
	w := wr(call.Args[wi])
	v, t := a.callFnRecv(key, recvArg, call, env)
	if t != tWriter {
		bail("%s does not return its output", key)
	}
	return fmt.Sprintf("let %s : Str := %s;\n", w, v), true
}

func (a *algo) ifStmt(x *ast.IfStmt, rest []ast.Stmt, env aenv, tail string, noReturn bool) string {
	if x.Init != nil {
		if line, ok := a.writeStmt(x, env); ok {
			return line + a.block(rest, env, tail, noReturn)
		}
	}
	pre := ""
	ienv := env
	if x.Init != nil {
		as, ok := x.Init.(*ast.AssignStmt)
		if !ok || as.Tok != token.DEFINE {
			bail("if-initialiser %s", nodeStr(x.Init))
		}
		// translate the initialiser with a continuation that captures the environment
		var got aenv
		pre = a.assign(as, env, func(e aenv) string { got = e; return "" })
		ienv = got
	}
	c, ct := a.expr(x.Cond, ienv)
	if ct != tBool {
		bail("condition %s", nodeStr(x.Cond))
	}
	thenRet := returnsAll(x.Body.List)
	els := elseList(x)
	if thenRet {
		if noReturn && hasReturn(x.Body) {
			bail("return inside a joined block or loop body")
		}
		thTail := ""
		if noReturn {
			thTail = tail // the branch ends in `continue`: the loop body's state is its value
		}
		th := a.block(x.Body.List, ienv.copy(), thTail, noReturn)
		var el string
		if x.Else == nil {
			el = a.block(rest, env, tail, noReturn)
		} else if returnsAll(els) {
			if noReturn && hasReturn(x.Else) {
				bail("return inside a joined block or loop body")
			}
			el = a.block(els, ienv.copy(), thTail, noReturn)
		} else {
			if hasReturn(x.Else) {
				bail("partial return in an else branch")
			}
			// else branch falls through into the rest: join on the variables it assigns
			vars := assigned(els, ienv)
			if len(vars) == 0 {
				el = a.block(rest, env, tail, noReturn)
			} else {
				t := a.tmp()
				el = "let " + t + " := (" + a.block(els, ienv.copy(), tupleOf(vars), true) + ");\n" + unpack(t, vars) + a.block(rest, env, tail, noReturn)
			}
		}
		return pre + "if " + c + " then (\n" + th + ")\nelse (\n" + el + ")"
	}
	if hasReturn(x.Body) || (x.Else != nil && hasReturn(x.Else)) {
		bail("partial return in an if statement: %s", strings.Join(strings.Fields(nodeStr(x)), " "))
	}
	all := append(append([]ast.Stmt{}, x.Body.List...), els...)
	vars := assigned(all, ienv)
	// variables introduced by the initialiser are not visible afterwards
	var outer []string
	for _, v := range vars {
		if _, ok := env[v]; ok {
			outer = append(outer, v)
		}
	}
	if len(outer) == 0 {
		return a.block(rest, env, tail, noReturn)
	}
	t := a.tmp()
	th := a.block(x.Body.List, ienv.copy(), tupleOf(outer), true)
	el := tupleOf(outer)
	if x.Else != nil {
		el = a.block(els, ienv.copy(), tupleOf(outer), true)
	}
	return "let " + t + " := (" + pre + "if " + c + " then (\n" + th + ")\nelse (\n" + el + "));\n" + unpack(t, outer) + a.block(rest, env, tail, noReturn)
}

func (a *algo) forStmt(x *ast.ForStmt, env aenv, cont func(aenv) string) string {
	if hasReturn(x.Body) {
		bail("return inside a for loop")
	}
	ast.Inspect(x.Body, func(n ast.Node) bool {
		if b, ok := n.(*ast.BranchStmt); ok {
			bail("%s inside a for loop", b.Tok)
		}
		return true
	})
	pre := ""
	lenv := env
	if x.Init != nil {
		as, ok := x.Init.(*ast.AssignStmt)
		if !ok {
			bail("loop initialiser %s", nodeStr(x.Init))
		}
		var got aenv
		pre = a.assign(as, env, func(e aenv) string { got = e; return "" })
		lenv = got
	}
	body := append([]ast.Stmt{}, x.Body.List...)
	if x.Post != nil {
		body = append(body, x.Post)
	}
	vars := assigned(body, lenv)
	if len(vars) == 0 {
		bail("loop that assigns nothing")
	}
	cond := "true"
	if x.Cond != nil {
		c, ct := a.expr(x.Cond, lenv)
		if ct != tBool {
			bail("loop condition")
		}
		cond = c
	}
	st := a.tmp()
	t := a.tmp()
	a.inLoopBody++
	b := a.block(body, lenv.copy(), tupleOf(vars), true)
	a.inLoopBody--
	loop := fmt.Sprintf("(Go.loop fuel (fun %s =>\n%s%s) (fun %s =>\n%s%s) %s)", st, unpack(st, vars), cond, st, unpack(st, vars), b, tupleOf(vars))
	// loop-scoped variables disappear; outer ones are rebound
	var outer []string
	for _, v := range vars {
		if _, ok := env[v]; ok {
			outer = append(outer, v)
		}
	}
	var rebind strings.Builder
	fmt.Fprintf(&rebind, "let %s := %s;\n", t, loop)
	full := unpack(t, vars)
	for _, line := range strings.SplitAfter(full, "\n") {
		for _, v := range outer {
			if strings.HasPrefix(line, "let "+lv(v)+" ") {
				rebind.WriteString(line)
			}
		}
	}
	a.needsFuel[a.cur] = true
	return pre + rebind.String() + cont(env)
}

func (a *algo) rangeStmt(x *ast.RangeStmt, rest []ast.Stmt, env aenv, tail string, noReturn bool) string {
	if x.Tok != token.DEFINE {
		bail("range without :=")
	}
	coll, ct := a.expr(x.X, env)
	keyName, valName := "_", "_"
	if id, ok := x.Key.(*ast.Ident); ok {
		keyName = id.Name
	}
	if x.Value != nil {
		id, ok := x.Value.(*ast.Ident)
		if !ok {
			bail("range value")
		}
		valName = id.Name
	}
	for _, n := range []string{keyName, valName} {
		if _, dup := env[n]; dup && n != "_" {
			bail("range variable %s shadows an outer variable", n)
		}
	}
	// search pattern: a single `if c { return e }`, e independent of the range variables
	if len(x.Body.List) == 1 {
		if is, ok := x.Body.List[0].(*ast.IfStmt); ok && is.Init == nil && is.Else == nil && len(is.Body.List) == 1 {
			if rs, ok := is.Body.List[0].(*ast.ReturnStmt); ok {
				if noReturn {
					bail("return inside a joined block or loop body")
				}
				uses := false
				ast.Inspect(rs, func(n ast.Node) bool {
					if id, ok := n.(*ast.Ident); ok && (id.Name == keyName || id.Name == valName) && id.Name != "_" {
						uses = true
					}
					return true
				})
				if uses {
					bail("early return depends on the range variable (iteration order would matter)")
				}
				e2 := env.copy()
				var lam string
				switch ct {
				case tMapDef, tMapStr:
					vt := tDef
					if ct == tMapStr {
						vt = tStr
					}
					if keyName != "_" {
						e2[keyName] = tStr
					}
					if valName != "_" {
						e2[valName] = vt
					}
					c, _ := a.expr(is.Cond, e2)
					lam = fmt.Sprintf("(Go.anyEntry %s (fun %s %s => %s))", coll, binder(keyName), binder(valName), c)
				case tSliceStr, tSliceCode:
					if keyName != "_" {
						bail("index variable in a slice search")
					}
					e2[valName] = tStr
					if ct == tSliceCode {
						e2[valName] = tCode
					}
					c, _ := a.expr(is.Cond, e2)
					lam = fmt.Sprintf("(List.any %s (fun %s => %s))", coll, binder(valName), c)
				case tMapCode:
					if keyName != "_" {
						e2[keyName] = tCode
					}
					if valName != "_" {
						e2[valName] = tCode
					}
					c, _ := a.expr(is.Cond, e2)
					lam = fmt.Sprintf("(List.any %s (fun kv => let %s := kv.1; let %s := kv.2; %s))", coll, binder(keyName), binder(valName), c)
				default:
					bail("range over %s", nodeStr(x.X))
				}
				return "if " + lam + " then (\n" + a.ret(rs, env) + ")\nelse (\n" + a.block(rest, env, tail, noReturn) + ")"
			}
		}
	}
	if hasReturn(x.Body) {
		bail("return inside a range loop")
	}
	// fold pattern
	e2 := env.copy()
	var binders string
	switch ct {
	case tSliceStr:
		if keyName != "_" {
			bail("index variable in a slice fold")
		}
		e2[valName] = tStr
		binders = binder(valName)
	case tSliceCode:
		if keyName != "_" {
			bail("index variable in a slice fold")
		}
		e2[valName] = tCode
		binders = binder(valName)
	case tMapStr, tMapDef:
		vt := tDef
		if ct == tMapStr {
			vt = tStr
		}
		if keyName != "_" {
			e2[keyName] = tStr
		}
		if valName != "_" {
			e2[valName] = vt
		}
		binders = "kv"
	default:
		bail("range over %s", nodeStr(x.X))
	}
	vars := assigned(x.Body.List, e2)
	var outer []string
	for _, v := range vars {
		if _, ok := env[v]; ok {
			outer = append(outer, v)
		}
	}
	if len(outer) == 0 {
		return a.block(rest, env, tail, noReturn)
	}
	st, t := a.tmp(), a.tmp()
	pre := unpack(st, outer)
	if binders == "kv" {
		if keyName != "_" {
			pre += "let " + lv(keyName) + " := kv.1;\n"
		}
		if valName != "_" {
			pre += "let " + lv(valName) + " := kv.2;\n"
		}
	}
	a.inLoopBody++
	body := a.block(x.Body.List, e2, tupleOf(outer), true)
	a.inLoopBody--
	return fmt.Sprintf("let %s := (List.foldl (fun %s %s =>\n%s%s) %s %s);\n", t, st, binders, pre, body, tupleOf(outer), coll) + unpack(t, outer) + a.block(rest, env, tail, noReturn)
}

func binder(n string) string {
	if n == "_" {
		return "_"
	}
	return lv(n)
}

// ---- functions ----

func (a *algo) translate(key string) {
	if _, ok := a.out[key]; ok {
		return
	}
	if _, ok := a.failed[key]; ok {
		return
	}
	if a.inProgress[key] {
		a.failed[key] = "recursive"
		return
	}
	d := a.fns[key]
	if d == nil || d.Body == nil {
		a.failed[key] = "not found in package jen"
		return
	}
	a.inProgress[key] = true
	saveCur, saveRe := a.cur, a.regexes
	defer func() {
		a.cur, a.regexes = saveCur, saveRe
		delete(a.inProgress, key)
		if r := recover(); r != nil {
			if u, ok := r.(untranslatable); ok {
				a.failed[key] = u.why
				return
			}
			// an AST shape the translator did not anticipate: the function is untranslated,
			// the check goes on with the behavioural tie
			a.failed[key] = fmt.Sprintf("unexpected syntax (%v)", r)
		}
	}()
	a.cur, a.regexes = key, map[string]string{}
	if isRenderTarget(key) {
		a.translateRender(key)
		return
	}
	if isEffectTarget(key) {
		a.translateEffect(key)
		return
	}
	if key == "token.render" {
		a.translateTokenRender(key)
		return
	}
	if isCtorTarget(key) {
		a.translateCtor(key)
		return
	}
	if isWrapTarget(key) {
		a.translateWrap(key)
		return
	}
	if key == "Statement.previous" {
		a.translatePrevious(key)
		return
	}
	env := aenv{}
	var params []string
	if d.Recv != nil && len(d.Recv.List) == 1 {
		if len(d.Recv.List[0].Names) != 1 {
			bail("unnamed receiver")
		}
		rn := d.Recv.List[0].Names[0].Name
		switch {
		case strings.HasPrefix(key, "File."):
			if rn != "f" {
				bail("receiver is not named f")
			}
			env["f"] = tFile
		case strings.HasPrefix(key, "comment."):
			env[rn] = tComment
			params = append(params, fmt.Sprintf("(%s : Str)", lv(rn)))
		case strings.HasPrefix(key, "tag."):
			env[rn] = tTag
			params = append(params, fmt.Sprintf("(%s : List (Str × Str))", lv(rn)))
		case strings.HasPrefix(key, "Group."):
			env[rn] = tGroup
			params = append(params, fmt.Sprintf("(%s : GInfo) (%s_items : List Code)", lv(rn), lv(rn)))
		case strings.HasPrefix(key, "Statement."):
			env[rn] = tStmtRecv
			params = append(params, fmt.Sprintf("(%s : List Code)", lv(rn)))
		case strings.HasPrefix(key, "Dict."):
			env[rn] = tDictRecv
			params = append(params, fmt.Sprintf("(%s : List (Code × Code))", lv(rn)))
		case strings.HasPrefix(key, "token."):
			env[rn] = tToken
			params = append(params, fmt.Sprintf("(%s_typ : Go.TokTyp) (%s_content : Str)", lv(rn), lv(rn)))
		default:
			bail("receiver type")
		}
	}
	a.writer[key] = writerParam(d)
	for _, p := range d.Type.Params.List {
		t := goType(p.Type)
		if t == tIgnored {
			continue
		}
		if t == tUnknown {
			bail("parameter type %s", nodeStr(p.Type))
		}
		for _, n := range p.Names {
			if t == tFile {
				if n.Name != "f" || strings.HasPrefix(key, "File.") {
					bail("File parameter %s", n.Name)
				}
				env["f"] = tFile
				params = append(params, "(f : FileS)")
				continue
			}
			env[n.Name] = t
			params = append(params, fmt.Sprintf("(%s : %s)", lv(n.Name), leanTy[t]))
		}
	}
	rt := tVoid
	if d.Type.Results != nil {
		if len(d.Type.Results.List) != 1 || len(d.Type.Results.List[0].Names) > 0 {
			bail("result list")
		}
		rt = goType(d.Type.Results.List[0].Type)
		if rt == tUnknown {
			bail("result type %s", nodeStr(d.Type.Results.List[0].Type))
		}
		if rt == tError {
			// a function that writes to an io.Writer and returns only write errors: the translation
			// returns the bytes written (writes to the in-memory buffers jennifer passes never fail)
			if a.writer[key] == "" {
				bail("returns error without a writer parameter")
			}
			rt = tWriter
		}
	}
	a.retTy[key] = rt
	tail := ""
	if rt == tVoid {
		if a.mutates[key] {
			tail = "f"
		} else {
			tail = "()"
		}
	}
	body := a.block(d.Body.List, env, tail, false)
	lrt := leanTy[rt]
	if rt == tVoid {
		lrt = "Unit"
		if a.mutates[key] {
			lrt = "FileS"
		}
	} else if a.mutates[key] {
		lrt = lrt + " × FileS"
	}
	sig := "def " + leanName(key) + " (cfg : Cfg)"
	if a.needsLib[key] {
		sig += " (lib : Go.Lib)"
	}
	if a.needsFuel[key] {
		sig += " (fuel : Nat)"
	}
	if a.needsRec[key] {
		sig += " (recNull : FileS → Code → Bool)"
	}
	if strings.HasPrefix(key, "File.") {
		sig += " (f : FileS)"
	}
	for _, p := range params {
		sig += " " + p
	}
	a.out[key] = "/-- translated from `" + key + "` (" + fset.Position(d.Pos()).String()[strings.LastIndex(fset.Position(d.Pos()).String(), "/jen/")+1:] + ") -/\n" + sig + " : " + lrt + " :=\n" + indent(body) + "\n"
	a.order = append(a.order, key)
}

func indent(s string) string {
	lines := strings.Split(strings.TrimRight(s, "\n"), "\n")
	for i := range lines {
		lines[i] = "  " + lines[i]
	}
	return strings.Join(lines, "\n")
}

// the functions of the import registry, in the order a reader expects
var algoTargets = []string{".IsReservedWord", "File.isLocal", "File.isValidAlias", "File.isDotImport", "File.prefixed", ".guessAlias",
	"File.register", "File.Anon", "File.ImportName", "File.ImportNames", "File.ImportAlias",
	// constructors and the remaining setters of File (algo_ctor.go)
	".NewFile", ".NewFilePath", ".NewFilePathName", "File.HeaderComment", "File.PackageComment", "File.CgoPreamble",
	// text-producing functions without recursion through Code (tie 1b, second group)
	"comment.render", "tag.isNull", "tag.render", "File.renderImports",
	// null-ness (open recursion through the Code interface: `recNull`)
	"token.isNull", "comment.isNull", "Group.isNullItems", "Group.countItems", "Group.isNull", "Statement.isNull", "Dict.isNull",
	// the render methods of Statement and Group (algo_render.go)
	"Statement.render", "Group.renderItems", "Group.render", "Dict.render", "token.render",
	// the entry points, with the environment as a parameter (algo_effect.go)
	"File.Render", "Statement.RenderWithFile", "Group.RenderWithFile", "File.Save",
	// wrappers of the entry points (algo_wrap.go)
	"Statement.Render", "Group.Render", "Statement.GoString", "Group.GoString", "File.GoString",
	// the pointer comparison of the case-block test (algo_prev.go)
	"Statement.previous"}

func translateAlgorithms(fns []fn, reservedVar, stdVar string) (lean string, summary string) {
	a := &algo{fns: map[string]*ast.FuncDecl{}, reservedVar: reservedVar, stdVar: stdVar, mutates: map[string]bool{}, needsFuel: map[string]bool{}, needsLib: map[string]bool{}, needsRec: map[string]bool{},
		retTy: map[string]aty{}, out: map[string]string{}, failed: map[string]string{}, inProgress: map[string]bool{}, regexes: map[string]string{}, writer: map[string]string{}, usesCtx: map[string]bool{}, tokSrc: map[string]string{}, tokOpt: map[string]string{}, tokDyn: map[string]bool{}}
	for _, f := range fns {
		a.fns[f.recv+"."+f.name] = f.decl
	}
	for _, k := range algoTargets {
		a.scan(k)
	}
	// fuel propagates to callers
	for changed := true; changed; {
		changed = false
		for _, k := range algoTargets {
			d := a.fns[k]
			if d == nil || d.Body == nil || a.needsFuel[k] {
				continue
			}
			ast.Inspect(d.Body, func(n ast.Node) bool {
				if c, ok := n.(*ast.CallExpr); ok {
					callee := ""
					if sel, ok := c.Fun.(*ast.SelectorExpr); ok && nodeStr(sel.X) == "f" {
						callee = "File." + sel.Sel.Name
					} else if id, ok := c.Fun.(*ast.Ident); ok {
						callee = "." + id.Name
					}
					if a.needsFuel[callee] {
						a.needsFuel[k] = true
						changed = true
					}
				}
				return true
			})
		}
	}
	for _, k := range algoTargets {
		a.translate(k)
	}
	var b strings.Builder
	b.WriteString("-- REGENERATED by /verif/translator (algo.go) from /repo's working tree on every check. Do not edit.\n")
	b.WriteString("-- The import-registry functions of jen/file.go and jen/reserved.go, translated from go/ast.\n")
	b.WriteString("import JenVerif.GoPrim\nimport JenVerif.Gen.Reserved\nimport JenVerif.Gen.StdHints\nset_option linter.unusedVariables false\nnamespace Gen.Src\n\n")
	for _, k := range a.order {
		b.WriteString(a.out[k] + "\n")
	}
	b.WriteString("/-- which functions were translated (false: outside the supported subset of Go) -/\ndef translated : List (String × Bool) := [\n")
	var sum []string
	for i, k := range algoTargets {
		_, ok := a.out[k]
		sep := ","
		if i == len(algoTargets)-1 {
			sep = ""
		}
		fmt.Fprintf(&b, "  (%q, %v)%s\n", k, ok, sep)
		if !ok {
			sum = append(sum, fmt.Sprintf("%s: %s", k, a.failed[k]))
		}
	}
	b.WriteString("]\n\nend Gen.Src\n")
	summary = fmt.Sprintf("%d/%d registry functions translated", len(a.order), len(algoTargets))
	if len(sum) > 0 {
		summary += " (untranslated: " + strings.Join(sum, "; ") + ")"
	}
	return b.String(), summary
}
