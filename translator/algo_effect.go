// Tie 1b, fifth group: the ENTRY POINTS File.Render, File.Save, Statement.RenderWithFile and
// Group.RenderWithFile ("effect mode").  These functions talk to the outside world: the caller's
// io.Writer, go/format, the filesystem.  The translation makes every such interaction an EFFECT
// (the model's `Effect`: format / callerWrite / fsWrite) appended to a trace, and takes its result
// from the parameter `world : World` (gofmt, writer, fs — arbitrary functions), so that theorems
// quantify over every behaviour of the environment:
//
//   x := &bytes.Buffer{}                     let v_x : Str := []          (a local buffer: writes never fail)
//   guarded writes to local buffers          as in the writer functions
//   if err := f.render(f, body, nil) …       match rec.render f v_body none (.group fileInfo items) …; an error is `errMisuse`
//   b, err := format.Source(x.Bytes())       effect `format x`; `world.gofmt x`: none -> `errFormat x`
//   if _, err := w.Write(b); err != nil …    effect `callerWrite b`; `world.writer b`: false -> `errWriter`
//   os.WriteFile(name, x.Bytes(), perm)      effect `fsWrite x`;  `world.fs x`: false -> `errFs`
//   f.Render(buf) with a LOCAL buffer (Save) the callee's translation with a writer that never fails;
//                                            what it wrote is the buffer's content
//   return nil                               (Result.ok, trace, file state)
// An `if` whose branches return or call the environment is translated by duplicating the rest of
// the function into both branches (they are short).
package main

import (
	"fmt"
	"go/ast"
	"go/token"
	"strings"
)

var effectTargets = []string{"File.Render", "Statement.RenderWithFile", "Group.RenderWithFile", "File.Save"}

func isEffectTarget(key string) bool {
	for _, k := range effectTargets {
		if k == key {
			return true
		}
	}
	return false
}

const tExtWriter aty = 200 // the caller's io.Writer

func squeeze(n ast.Node) string { return strings.Join(strings.Fields(nodeStr(n)), "") }

func (a *algo) efail(res string) string { return "(" + res + ", effs, f)" }

// bytes of a local buffer: x.Bytes(), x.String()
func (a *algo) bufBytes(e ast.Expr, env aenv) (string, bool) {
	c, ok := e.(*ast.CallExpr)
	if !ok || len(c.Args) != 0 {
		return "", false
	}
	sel, ok := c.Fun.(*ast.SelectorExpr)
	if !ok || (sel.Sel.Name != "Bytes" && sel.Sel.Name != "String") {
		return "", false
	}
	id, ok := sel.X.(*ast.Ident)
	if !ok || env[id.Name] != tWriter {
		return "", false
	}
	return lv(id.Name), true
}

func (a *algo) eblock(list []ast.Stmt, env aenv) string {
	if len(list) == 0 {
		bail("control reaches the end of an entry point")
	}
	s, rest := list[0], list[1:]
	switch x := s.(type) {
	case *ast.ReturnStmt:
		if len(x.Results) == 1 && nodeStr(x.Results[0]) == "nil" {
			return a.efail("Result.ok")
		}
		bail("return %s", nodeStr(x))
	case *ast.DeclStmt:
		gd, ok := x.Decl.(*ast.GenDecl)
		if !ok || gd.Tok != token.VAR {
			bail("declaration %s", nodeStr(x))
		}
		e2 := env.copy()
		out := ""
		for _, sp := range gd.Specs {
			vs := sp.(*ast.ValueSpec)
			if len(vs.Values) != 0 || vs.Type == nil {
				bail("var with initialiser")
			}
			switch squeeze(vs.Type) {
			case "[]byte", "string":
				for _, n := range vs.Names {
					e2[n.Name] = tStr
					out += fmt.Sprintf("let %s : Str := [];\n", lv(n.Name))
				}
			case "error":
				// assigned together with a result below
			default:
				bail("var of type %s", nodeStr(vs.Type))
			}
		}
		return out + a.eblock(rest, e2)
	case *ast.AssignStmt:
		// x := &bytes.Buffer{}
		if len(x.Lhs) == 1 && len(x.Rhs) == 1 && x.Tok == token.DEFINE && (squeeze(x.Rhs[0]) == "&bytes.Buffer{}" || squeeze(x.Rhs[0]) == "bytes.Buffer{}") {
			e2 := env.copy()
			e2[nodeStr(x.Lhs[0])] = tWriter
			return fmt.Sprintf("let %s : Str := [];\n", lv(nodeStr(x.Lhs[0]))) + a.eblock(rest, e2)
		}
		// v, err (:)= format.Source(buf.Bytes()) ; if err != nil { return fmt.Errorf(…) }
		if len(x.Lhs) == 2 && len(x.Rhs) == 1 {
			if c, ok := x.Rhs[0].(*ast.CallExpr); ok && squeeze(c.Fun) == "format.Source" && len(c.Args) == 1 && len(rest) > 0 {
				src, ok := a.bufBytes(c.Args[0], env)
				if !ok {
					bail("argument of format.Source")
				}
				errName := nodeStr(x.Lhs[1])
				g, isIf := rest[0].(*ast.IfStmt)
				if !isIf || g.Init != nil || g.Else != nil || squeeze(g.Cond) != errName+"!=nil" || len(g.Body.List) != 1 {
					bail("format.Source without its error check")
				}
				if rs, ok := g.Body.List[0].(*ast.ReturnStmt); !ok || len(rs.Results) != 1 || nodeStr(rs.Results[0]) == "nil" {
					bail("format error not returned")
				}
				e2 := env.copy()
				e2[nodeStr(x.Lhs[0])] = tStr
				t := a.tmp()
				return fmt.Sprintf("let effs := effs ++ [Effect.format %s];\nmatch world.gofmt %s with\n| none => (Result.errFormat %s, effs, f)\n| some %s => (\nlet %s : Str := %s;\n",
					src, src, src, t, lv(nodeStr(x.Lhs[0])), t) + a.eblock(rest[1:], e2) + ")"
			}
		}
		// output = source.Bytes()
		if len(x.Lhs) == 1 && len(x.Rhs) == 1 {
			if v, ok := a.bufBytes(x.Rhs[0], env); ok {
				e2 := env.copy()
				e2[nodeStr(x.Lhs[0])] = tStr
				return fmt.Sprintf("let %s : Str := %s;\n", lv(nodeStr(x.Lhs[0])), v) + a.eblock(rest, e2)
			}
		}
		bail("assignment %s", nodeStr(x))
	case *ast.IfStmt:
		return a.eif(x, rest, env)
	case *ast.RangeStmt:
		// a loop that only writes to local buffers: the pure translation, then go on
		return a.pureThen(s, rest, env)
	}
	bail("statement %s", nodeStr(s))
	return ""
}

// translate one statement with the pure translator, continue in effect mode
func (a *algo) pureThen(s ast.Stmt, rest []ast.Stmt, env aenv) string {
	const mark = "§CONT§"
	out := a.block([]ast.Stmt{s}, env, mark, true)
	if strings.Count(out, mark) != 1 {
		bail("statement %s does not fall through exactly once", squeeze(s))
	}
	return strings.Replace(out, mark, a.eblock(rest, env), 1)
}

func (a *algo) eif(x *ast.IfStmt, rest []ast.Stmt, env aenv) string {
	if c, ok := errGuard(x); ok {
		fun := squeeze(c.Fun)
		sel, isSel := c.Fun.(*ast.SelectorExpr)
		// the caller's writer
		if isSel && sel.Sel.Name == "Write" && len(c.Args) == 1 {
			if id, ok := sel.X.(*ast.Ident); ok && env[id.Name] == tExtWriter {
				v, t := a.expr(c.Args[0], env)
				if t != tStr {
					bail("Write of a non-string")
				}
				return fmt.Sprintf("let effs := effs ++ [Effect.callerWrite %s];\nif world.writer %s then (\n", v, v) + a.eblock(rest, env) + ")\nelse " + a.efail("Result.errWriter")
			}
		}
		if fun == "os.WriteFile" && len(c.Args) == 3 {
			v, ok := a.bufBytes(c.Args[1], env)
			if !ok {
				bail("data of os.WriteFile")
			}
			return fmt.Sprintf("let effs := effs ++ [Effect.fsWrite %s];\nif world.fs %s then (\n", v, v) + a.eblock(rest, env) + ")\nelse " + a.efail("Result.errFs")
		}
		// render of the receiver into a local buffer
		if isSel && sel.Sel.Name == "render" && len(c.Args) == 3 {
			id, ok := sel.X.(*ast.Ident)
			wa, okw := c.Args[1].(*ast.Ident)
			if !ok || !okw || env[wa.Name] != tWriter || nodeStr(c.Args[2]) != "nil" {
				bail("render call %s", nodeStr(c))
			}
			if _, t := a.expr(c.Args[0], env); t != tFile {
				bail("first argument of %s", nodeStr(c))
			}
			var call string
			switch env[id.Name] {
			case tFile:
				// the File's embedded Group{multi: true}
				call = fmt.Sprintf("rec.render f %s none (Code.group Code.fileInfo v_items)", lv(wa.Name))
			case tStmtRecv:
				a.translate("Statement.render")
				if _, bad := a.failed["Statement.render"]; bad {
					bail("calls Statement.render, which is untranslated")
				}
				call = fmt.Sprintf("Statement_render cfg rec %s f %s", lv(id.Name), lv(wa.Name))
			case tGroup:
				a.translate("Group.render")
				if _, bad := a.failed["Group.render"]; bad {
					bail("calls Group.render, which is untranslated")
				}
				call = fmt.Sprintf("Group_render cfg rec %s %s_items f %s none", lv(id.Name), lv(id.Name), lv(wa.Name))
			default:
				bail("render call %s", nodeStr(c))
			}
			t := a.tmp()
			return fmt.Sprintf("match (%s) with\n| none => (Result.errMisuse, effs, f)\n| some %s => (\nlet %s : Str := %s.1;\nlet f : FileS := %s.2;\n", call, t, lv(wa.Name), t, t) + a.eblock(rest, env) + ")"
		}
		// f.Render(buf) with a local buffer (Save)
		if isSel && sel.Sel.Name == "Render" && len(c.Args) == 1 {
			id, ok := sel.X.(*ast.Ident)
			wa, okw := c.Args[0].(*ast.Ident)
			if ok && okw && env[id.Name] == tFile && env[wa.Name] == tWriter {
				a.translate("File.Render")
				if _, bad := a.failed["File.Render"]; bad {
					bail("calls File.Render, which is untranslated")
				}
				t := a.tmp()
				return fmt.Sprintf("let %s := (Render cfg rec { world with writer := fun _ => true } v_items f);\nlet effs := effs ++ Go.withoutCallerWrites %s.2.1;\nlet f : FileS := %s.2.2;\nmatch %s.1 with\n| Result.ok => (\nlet %s : Str := %s ++ Go.callerWritten %s.2.1;\n",
					t, t, t, t, lv(wa.Name), lv(wa.Name), t) + a.eblock(rest, env) + ")\n| e => (e, effs, f)"
			}
		}
		// a guarded write to a local buffer
		if line, ok := a.writeCall(c, env); ok {
			return line + a.eblock(rest, env)
		}
		bail("guarded call %s", nodeStr(c))
	}
	// does a branch return or talk to the environment?
	envCall := false
	ast.Inspect(x, func(n ast.Node) bool {
		if c, ok := n.(*ast.CallExpr); ok {
			switch squeeze(c.Fun) {
			case "format.Source", "os.WriteFile":
				envCall = true
			}
		}
		if _, ok := n.(*ast.ReturnStmt); ok {
			if is, ok2 := n.(*ast.ReturnStmt); ok2 && is != nil {
				// returns inside write guards do not count (see hasReturn)
			}
		}
		return true
	})
	if !envCall && !hasReturn(x) {
		return a.pureThen(x, rest, env)
	}
	if x.Init != nil {
		bail("if-initialiser %s", nodeStr(x.Init))
	}
	c, ct := a.expr(x.Cond, env)
	if ct != tBool {
		bail("condition %s", nodeStr(x.Cond))
	}
	th := a.eblock(append(append([]ast.Stmt{}, x.Body.List...), rest...), env.copy())
	el := a.eblock(append(append([]ast.Stmt{}, elseList(x)...), rest...), env.copy())
	return "if " + c + " then (\n" + th + ")\nelse (\n" + el + ")"
}

func (a *algo) translateEffect(key string) {
	d := a.fns[key]
	env := aenv{}
	var params []string
	rn := d.Recv.List[0].Names[0].Name
	switch {
	case strings.HasPrefix(key, "File."):
		if rn != "f" {
			bail("receiver is not named f")
		}
		env["f"] = tFile
		params = append(params, "(v_items : List Code)", "(f : FileS)")
	case strings.HasPrefix(key, "Statement."):
		env[rn] = tStmtRecv
		params = append(params, fmt.Sprintf("(%s : List Code)", lv(rn)))
	case strings.HasPrefix(key, "Group."):
		env[rn] = tGroup
		params = append(params, fmt.Sprintf("(%s : GInfo) (%s_items : List Code)", lv(rn), lv(rn)))
	}
	a.writer[key] = ""
	for _, p := range d.Type.Params.List {
		t := goType(p.Type)
		for _, n := range p.Names {
			switch t {
			case tWriter:
				env[n.Name] = tExtWriter
			case tFile:
				a.fileVar = n.Name
				env[n.Name] = tFile
				params = append(params, "(f : FileS)")
			case tStr:
				env[n.Name] = tStr
				params = append(params, fmt.Sprintf("(%s : Str)", lv(n.Name)))
			default:
				bail("parameter type %s", nodeStr(p.Type))
			}
		}
	}
	defer func() { a.fileVar = "" }()
	body := a.eblock(d.Body.List, env)
	pos := fset.Position(d.Pos()).String()
	a.out[key] = "/-- translated from `" + key + "` (" + pos[strings.LastIndex(pos, "/jen/")+1:] + ") -/\ndef " + leanName(key) + " (cfg : Cfg) (rec : Go.Rec) (world : World) " + strings.Join(params, " ") +
		" : Result × List Effect × FileS :=\n  let recNull := rec.null;\n  let effs : List Effect := [];\n" + indent(body) + "\n"
	a.order = append(a.order, key)
}
