// Command translator regenerates /verif/lean/JenVerif/Gen/*.lean (and the harness's table of
// package-level functions) from the *working tree* of dave/jennifer.  Tie 1 of DESIGN.md §2.3.
//
// It extracts data and shapes, not algorithms: the construct table, the token table, the API
// surface with the shape class of every body, the reserved-word list, the standard-library
// hint table, the package-level variables and their writers, fingerprints of hand-modelled
// functions, and (from the installed Go toolchain, not from jennifer) strconv.IsPrint ranges.
package main

import (
	"bytes"
	"crypto/sha256"
	"flag"
	"fmt"
	"go/ast"
	"go/parser"
	"go/printer"
	"go/token"
	"os"
	"path/filepath"
	"sort"
	"strconv"
	"strings"
)

var fset = token.NewFileSet()

func leanStr(s string) string {
	ascii := true
	for i := 0; i < len(s); i++ {
		if s[i] < 0x20 || s[i] > 0x7e {
			ascii = false
		}
	}
	if s == "" {
		return "([] : Str)"
	}
	if ascii {
		var b strings.Builder
		b.WriteString(`b!"`)
		for i := 0; i < len(s); i++ {
			switch s[i] {
			case '"':
				b.WriteString(`\"`)
			case '\\':
				b.WriteString(`\\`)
			default:
				b.WriteByte(s[i])
			}
		}
		b.WriteString(`"`)
		return b.String()
	}
	parts := []string{}
	for i := 0; i < len(s); i++ {
		parts = append(parts, strconv.Itoa(int(s[i])))
	}
	return "([" + strings.Join(parts, ", ") + "] : Str)"
}

func nodeStr(n ast.Node) string {
	var b bytes.Buffer
	printer.Fprint(&b, fset, n)
	return b.String()
}

type fn struct {
	name string
	recv string // "", "Statement", "Group", "File", or other
	decl *ast.FuncDecl
	file string
}

func recvName(d *ast.FuncDecl) string {
	if d.Recv == nil || len(d.Recv.List) == 0 {
		return ""
	}
	t := d.Recv.List[0].Type
	if st, ok := t.(*ast.StarExpr); ok {
		t = st.X
	}
	if id, ok := t.(*ast.Ident); ok {
		return id.Name
	}
	return nodeStr(t)
}

func strLit(e ast.Expr) (string, bool) {
	if bl, ok := e.(*ast.BasicLit); ok && bl.Kind == token.STRING {
		s, err := strconv.Unquote(bl.Value)
		if err == nil {
			return s, true
		}
	}
	return "", false
}

type construct struct {
	api                        string
	name, open, close, sep     string
	multi                      bool
	arity                      string // variadic | fixed | callback
	n                          int
	dynamic                    bool
}

type tokenEntry struct {
	api     string
	kind    string
	content string
	dynamic bool
}

func findGroupLit(d *ast.FuncDecl) *ast.CompositeLit {
	var found *ast.CompositeLit
	ast.Inspect(d.Body, func(n ast.Node) bool {
		if cl, ok := n.(*ast.CompositeLit); ok {
			if id, ok := cl.Type.(*ast.Ident); ok && id.Name == "Group" && found == nil {
				found = cl
			}
		}
		return true
	})
	return found
}

func findTokenLits(d *ast.FuncDecl) []*ast.CompositeLit {
	var found []*ast.CompositeLit
	ast.Inspect(d.Body, func(n ast.Node) bool {
		if cl, ok := n.(*ast.CompositeLit); ok {
			if id, ok := cl.Type.(*ast.Ident); ok && id.Name == "token" {
				found = append(found, cl)
			}
		}
		return true
	})
	return found
}

var tokKinds = map[string]string{
	"packageToken": "pkg", "identifierToken": "ident", "keywordToken": "kw", "operatorToken": "op",
	"delimiterToken": "delim", "layoutToken": "layout", "nullToken": "null",
	"literalToken": "lit", "literalRuneToken": "litrune", "literalByteToken": "litbyte", "qualifiedToken": "qualified",
}

// shape classification of a function body (normalised text patterns)
func shapeOf(f fn) string {
	d := f.decl
	if d.Body == nil {
		return "other"
	}
	// alpha-normalise: receiver, parameters and locals get canonical names, so that a harmless
	// renaming of a variable does not change the shape
	ren := map[string]string{}
	if d.Recv != nil && len(d.Recv.List) == 1 && len(d.Recv.List[0].Names) == 1 {
		switch f.recv {
		case "Statement":
			ren[d.Recv.List[0].Names[0].Name] = "s"
		case "Group":
			ren[d.Recv.List[0].Names[0].Name] = "g"
		}
	}
	nparam := 0
	var paramNames []string
	for _, p := range d.Type.Params.List {
		for _, n := range p.Names {
			nparam++
			canon := fmt.Sprintf("p%d", nparam)
			if _, isFunc := p.Type.(*ast.FuncType); isFunc {
				canon = "f"
			}
			if n.Name == "code" {
				canon = "code"
			}
			ren[n.Name] = canon
			paramNames = append(paramNames, n.Name)
		}
	}
	nlocal := 0
	ast.Inspect(d.Body, func(n ast.Node) bool {
		if as, ok := n.(*ast.AssignStmt); ok && as.Tok == token.DEFINE {
			for _, l := range as.Lhs {
				if id, ok := l.(*ast.Ident); ok {
					if _, seen := ren[id.Name]; !seen {
						nlocal++
						canon := id.Name
						// the conventional local names of the generated bodies
						switch {
						case f.recv == "Group" && nlocal == 1:
							canon = "s"
						case f.recv == "Statement" && nlocal == 2 && len(as.Rhs) == 1:
							if cl, ok := as.Rhs[0].(*ast.CompositeLit); ok {
								if t, ok := cl.Type.(*ast.Ident); ok && t.Name == "token" {
									canon = "t2"
								}
							}
						case f.recv == "Statement" && nlocal == 1 && len(as.Rhs) == 1:
							switch rhs := as.Rhs[0].(type) {
							case *ast.UnaryExpr:
								canon = "g"
								_ = rhs
							case *ast.CompositeLit:
								if t, ok := rhs.Type.(*ast.Ident); ok {
									switch t.Name {
									case "token":
										canon = "t"
									case "tag", "comment":
										canon = "c"
									}
								}
							}
						}
						ren[id.Name] = canon
					}
				}
			}
		}
		return true
	})
	ast.Inspect(d.Body, func(n ast.Node) bool {
		switch x := n.(type) {
		case *ast.KeyValueExpr:
			// field names of composite literals are not variables
			ast.Inspect(x.Value, func(m ast.Node) bool {
				if id, ok := m.(*ast.Ident); ok {
					if c, ok := ren[id.Name]; ok {
						id.Name = c
					}
				}
				return true
			})
			return false
		case *ast.SelectorExpr:
			if id, ok := x.X.(*ast.Ident); ok {
				if c, ok := ren[id.Name]; ok {
					id.Name = c
				}
			}
			return false
		case *ast.Ident:
			if c, ok := ren[x.Name]; ok {
				x.Name = c
			}
		}
		return true
	})
	stmts := d.Body.List
	txt := make([]string, len(stmts))
	for i, s := range stmts {
		txt[i] = strings.Join(strings.Fields(nodeStr(s)), " ")
	}
	argList := func() string {
		var names []string
		for _, p := range d.Type.Params.List {
			_, variadic := p.Type.(*ast.Ellipsis)
			for _, n := range p.Names {
				nm := n.Name
				if c, ok := ren[nm]; ok {
					nm = c
				}
				if variadic {
					names = append(names, nm+"...")
				} else {
					names = append(names, nm)
				}
			}
		}
		return strings.Join(names, ", ")
	}()
	switch f.recv {
	case "":
		if len(txt) == 1 && txt[0] == "return newStatement()."+f.name+"("+argList+")" {
			return "delegateToNew"
		}
	case "Group":
		if len(txt) == 3 && txt[0] == "s := "+f.name+"("+argList+")" && txt[1] == "g.items = append(g.items, s)" && txt[2] == "return s" {
			return "groupAppend"
		}
	case "Statement":
		n := len(txt)
		if n == 1 && len(d.Type.Params.List) == 0 && txt[0] == "return &Statement{s}" {
			// Clone: a NEW statement whose single item is the receiver pointer (Heap.clone)
			return "cloneWrap"
		}
		if n >= 2 && txt[n-1] == "return s" {
			last := txt[n-2]
			if n == 3 && strings.HasPrefix(txt[0], "g := &Group{") && last == "*s = append(*s, g)" {
				return "stmtAppendGroup"
			}
			if n == 4 && strings.HasPrefix(txt[0], "g := &Group{") && txt[1] == "f(g)" && last == "*s = append(*s, g)" {
				return "stmtAppendGroupCallback"
			}
			if n == 3 && strings.HasPrefix(txt[0], "t := token{") && last == "*s = append(*s, t)" {
				if strings.Contains(txt[0], "f()") {
					return "evalCallbackThenAppend"
				}
				return "stmtAppendToken"
			}
			if n == 4 && strings.HasPrefix(txt[0], "t := token{") && strings.HasPrefix(txt[1], "t2 := token{") && last == "*s = append(*s, t, t2)" {
				return "stmtAppendToken"
			}
			if n == 3 && (strings.HasPrefix(txt[0], "c := tag{") || strings.HasPrefix(txt[0], "c := comment{")) && last == "*s = append(*s, c)" {
				return "stmtAppendOther"
			}
			if n == 2 && txt[0] == "*s = append(*s, code...)" {
				return "stmtAppendItems"
			}
			if n == 2 && txt[0] == "f(s)" {
				return "callbackOnSelf"
			}
		}
	}
	return "other"
}

func main() {
	repo := flag.String("repo", "/repo", "jennifer working tree")
	out := flag.String("out", "/verif/lean/JenVerif/Gen", "output directory for Lean files")
	harnessOut := flag.String("harness", "", "if set, write funcs_gen.go (package-level function table) there")
	flag.Parse()

	pkgs, err := parser.ParseDir(fset, filepath.Join(*repo, "jen"), func(fi os.FileInfo) bool {
		return !strings.HasSuffix(fi.Name(), "_test.go")
	}, parser.ParseComments)
	if err != nil {
		fmt.Fprintln(os.Stderr, "parse error:", err)
		os.Exit(2)
	}
	pkg := pkgs["jen"]
	if pkg == nil {
		fmt.Fprintln(os.Stderr, "package jen not found")
		os.Exit(2)
	}
	var fileNames []string
	for n := range pkg.Files {
		fileNames = append(fileNames, n)
	}
	sort.Strings(fileNames)

	var fns []fn
	globalLits := map[string]*ast.CompositeLit{}
	globalLitTypes := map[string]string{}
	globalInit := map[string]string{} // name -> text of the initialiser
	type gvar struct{ name, file string }
	var globals []gvar
	var reserved []string
	type kv struct{ k, v string }
	var stdHints []kv
	for _, fname := range fileNames {
		file := pkg.Files[fname]
		for _, decl := range file.Decls {
			switch d := decl.(type) {
			case *ast.FuncDecl:
				fns = append(fns, fn{name: d.Name.Name, recv: recvName(d), decl: d, file: filepath.Base(fname)})
			case *ast.GenDecl:
				if d.Tok != token.VAR {
					continue
				}
				for _, sp := range d.Specs {
					vs := sp.(*ast.ValueSpec)
					for i, n := range vs.Names {
						globals = append(globals, gvar{n.Name, filepath.Base(fname)})
						if i < len(vs.Values) {
							globalInit[n.Name] = strings.Join(strings.Fields(nodeStr(vs.Values[i])), " ")
							if cl, ok := vs.Values[i].(*ast.CompositeLit); ok {
								typ := strings.Join(strings.Fields(nodeStr(cl.Type)), "")
								globalLits[n.Name] = cl
								globalLitTypes[n.Name] = typ
								if false {
									for _, e := range cl.Elts {
										if s, ok := strLit(e); ok {
											reserved = append(reserved, s)
										}
									}
								}

							}
						}
					}
				}
			}
		}
	}
	// the reserved-word list: the []string literal that IsReservedWord (exported, stable) reads;
	// the std hint table: the map[string]string literal (the largest one)
	reservedVar := ""
	for _, f := range fns {
		if f.name == "IsReservedWord" && f.decl.Body != nil {
			ast.Inspect(f.decl.Body, func(n ast.Node) bool {
				if id, ok := n.(*ast.Ident); ok && globalLitTypes[id.Name] == "[]string" && reservedVar == "" {
					reservedVar = id.Name
				}
				return true
			})
		}
	}
	if reservedVar == "" {
		// IsReservedWord may read a derived structure (a set built from the list): take the
		// []string literal that this structure's initialiser or an init function reads
		for n, t := range globalLitTypes {
			if t == "[]string" && (reservedVar == "" || n < reservedVar) {
				reservedVar = n
			}
		}
	}
	if cl := globalLits[reservedVar]; cl != nil {
		for _, e := range cl.Elts {
			if sv, ok := strLit(e); ok {
				reserved = append(reserved, sv)
			}
		}
	}
	stdVar := ""
	for n, t := range globalLitTypes {
		if t == "map[string]string" && (stdVar == "" || len(globalLits[n].Elts) > len(globalLits[stdVar].Elts)) {
			stdVar = n
		}
	}
	// tie 1b runs first: shapeOf below alpha-normalises parameter names in place
	algoSrc, algoSum := translateAlgorithms(fns, reservedVar, stdVar)
	if cl := globalLits[stdVar]; cl != nil {
		for _, e := range cl.Elts {
			if p, ok := e.(*ast.KeyValueExpr); ok {
				k, ok1 := strLit(p.Key)
				v, ok2 := strLit(p.Value)
				if ok1 && ok2 {
					stdHints = append(stdHints, kv{k, v})
				}
			}
		}
	}
	sort.Slice(fns, func(i, j int) bool {
		if fns[i].name != fns[j].name {
			return fns[i].name < fns[j].name
		}
		return fns[i].recv < fns[j].recv
	})

	// ---- constructs and tokens (from the *Statement methods)
	var constructs []construct
	var tokens []tokenEntry
	for _, f := range fns {
		if f.recv != "Statement" || !ast.IsExported(f.name) {
			continue
		}
		if cl := findGroupLit(f.decl); cl != nil {
			c := construct{api: f.name, arity: "callback"}
			for _, e := range cl.Elts {
				p, ok := e.(*ast.KeyValueExpr)
				if !ok {
					continue
				}
				key := nodeStr(p.Key)
				switch key {
				case "name", "open", "close", "separator":
					s, ok := strLit(p.Value)
					if !ok {
						c.dynamic = true
					}
					switch key {
					case "name":
						c.name = s
					case "open":
						c.open = s
					case "close":
						c.close = s
					case "separator":
						c.sep = s
					}
				case "multi":
					switch nodeStr(p.Value) {
					case "true":
						c.multi = true
					case "false":
					default:
						c.dynamic = true
					}
				case "items":
					if il, ok := p.Value.(*ast.CompositeLit); ok {
						c.arity = "fixed"
						c.n = len(il.Elts)
						// Qual builds its items from tokens, not from parameters
						for _, el := range il.Elts {
							if _, isTok := el.(*ast.CompositeLit); isTok {
								c.arity = "tokens"
							}
						}
					} else {
						c.arity = "variadic"
					}
				}
			}
			constructs = append(constructs, c)
			continue
		}
		tls := findTokenLits(f.decl)
		for _, cl := range tls {
			t := tokenEntry{api: f.name}
			for _, e := range cl.Elts {
				p, ok := e.(*ast.KeyValueExpr)
				if !ok {
					continue
				}
				switch nodeStr(p.Key) {
				case "typ":
					t.kind = tokKinds[nodeStr(p.Value)]
					if t.kind == "" {
						t.kind = "unknown:" + nodeStr(p.Value)
					}
				case "content":
					if s, ok := strLit(p.Value); ok {
						t.content = s
					} else {
						t.dynamic = true
					}
				}
			}
			tokens = append(tokens, t)
		}
	}

	// ---- writers of package-level variables
	globalSet := map[string]bool{}
	for _, g := range globals {
		globalSet[g.name] = true
	}
	type gw struct{ v, where string }
	var writes []gw
	var suspicious []gw
	for _, f := range fns {
		if f.decl.Body == nil {
			continue
		}
		if f.name == "init" && f.recv == "" {
			continue // initialisation runs once, before any use
		}
		// names shadowed by parameters / receivers / local definitions are not globals
		local := map[string]bool{}
		if f.decl.Recv != nil {
			for _, p := range f.decl.Recv.List {
				for _, n := range p.Names {
					local[n.Name] = true
				}
			}
		}
		for _, p := range f.decl.Type.Params.List {
			for _, n := range p.Names {
				local[n.Name] = true
			}
		}
		ast.Inspect(f.decl.Body, func(n ast.Node) bool {
			if as, ok := n.(*ast.AssignStmt); ok && as.Tok == token.DEFINE {
				for _, l := range as.Lhs {
					if id, ok := l.(*ast.Ident); ok {
						local[id.Name] = true
					}
				}
			}
			return true
		})
		root := func(e ast.Expr) string {
			for {
				switch x := e.(type) {
				case *ast.Ident:
					return x.Name
				case *ast.IndexExpr:
					e = x.X
				case *ast.SelectorExpr:
					e = x.X
				case *ast.StarExpr:
					e = x.X
				case *ast.ParenExpr:
					e = x.X
				default:
					return ""
				}
			}
		}
		ast.Inspect(f.decl.Body, func(n ast.Node) bool {
			switch s := n.(type) {
			case *ast.AssignStmt:
				if s.Tok == token.DEFINE {
					return true
				}
				for _, l := range s.Lhs {
					if r := root(l); r != "" && globalSet[r] && !local[r] {
						writes = append(writes, gw{r, f.recv + "." + f.name})
					}
				}
			case *ast.IncDecStmt:
				if r := root(s.X); r != "" && globalSet[r] && !local[r] {
					writes = append(writes, gw{r, f.recv + "." + f.name})
				}
			case *ast.CallExpr:
				if id, ok := s.Fun.(*ast.Ident); ok && (id.Name == "delete" || id.Name == "clear") && len(s.Args) > 0 {
					if r := root(s.Args[0]); r != "" && globalSet[r] && !local[r] {
						writes = append(writes, gw{r, f.recv + "." + f.name})
					}
				}
			case *ast.UnaryExpr:
				if s.Op == token.AND {
					if r := root(s.X); r != "" && globalSet[r] && !local[r] {
						writes = append(writes, gw{r, f.recv + "." + f.name + " (address taken)"})
					}
				}
			}
			// uses that can mutate or hide mutable state: a method call on a package-level
			// variable (other than a compiled regexp, whose methods are read-only and safe for
			// concurrent use), or handing the variable to another function
			if call, ok := n.(*ast.CallExpr); ok {
				if sel, ok := call.Fun.(*ast.SelectorExpr); ok {
					if id, ok := sel.X.(*ast.Ident); ok && globalSet[id.Name] && !local[id.Name] {
						if !strings.HasPrefix(globalInit[id.Name], "regexp.MustCompile(") {
							suspicious = append(suspicious, gw{id.Name, f.recv + "." + f.name + " calls method " + sel.Sel.Name})
						}
					}
				}
				if fid, ok := call.Fun.(*ast.Ident); !ok || (fid.Name != "len" && fid.Name != "cap") {
					for _, a := range call.Args {
						if id, ok := a.(*ast.Ident); ok && globalSet[id.Name] && !local[id.Name] {
							suspicious = append(suspicious, gw{id.Name, f.recv + "." + f.name + " passes it to a function"})
						}
					}
				}
			}
			return true
		})
	}

	os.MkdirAll(*out, 0o755)
	write := func(name, content string) {
		p := filepath.Join(*out, name)
		old, err := os.ReadFile(p)
		if err == nil && string(old) == content {
			return
		}
		if err := os.WriteFile(p, []byte(content), 0o644); err != nil {
			fmt.Fprintln(os.Stderr, err)
			os.Exit(2)
		}
	}
	hdr := "-- REGENERATED by /verif/translator from /repo's working tree on every check. Do not edit.\n"

	// Constructs
	{
		var b strings.Builder
		b.WriteString(hdr + "import JenVerif.Code\nnamespace Gen\n\n")
		b.WriteString("inductive Arity | variadic | fixed (n : Nat) | callback | tokens\nderiving DecidableEq, Repr\n\n")
		b.WriteString("structure Construct where\n  api : Str\n  info : GInfo\n  arity : Arity\n  dynamic : Bool\nderiving DecidableEq, Repr\n\n")
		b.WriteString("def constructs : List Construct := [\n")
		for i, c := range constructs {
			ar := c.arity
			if ar == "fixed" {
				ar = fmt.Sprintf("fixed %d", c.n)
			}
			fmt.Fprintf(&b, "  ⟨%s, ⟨%s, %s, %s, %s, %v⟩, .%s, %v⟩", leanStr(c.api), leanStr(c.name), leanStr(c.open), leanStr(c.close), leanStr(c.sep), c.multi, ar, c.dynamic)
			if i+1 < len(constructs) {
				b.WriteString(",")
			}
			b.WriteString("\n")
		}
		b.WriteString("]\n\nend Gen\n")
		write("Constructs.lean", b.String())
	}
	// Tokens
	{
		var b strings.Builder
		b.WriteString(hdr + "import JenVerif.Code\nnamespace Gen\n\n")
		b.WriteString("structure TokenEntry where\n  api : Str\n  kind : Str\n  content : Str\n  dynamic : Bool\nderiving DecidableEq, Repr\n\n")
		b.WriteString("def tokens : List TokenEntry := [\n")
		for i, t := range tokens {
			fmt.Fprintf(&b, "  ⟨%s, %s, %s, %v⟩", leanStr(t.api), leanStr(t.kind), leanStr(t.content), t.dynamic)
			if i+1 < len(tokens) {
				b.WriteString(",")
			}
			b.WriteString("\n")
		}
		b.WriteString("]\n\nend Gen\n")
		write("Tokens.lean", b.String())
	}
	// Reserved
	{
		var b strings.Builder
		b.WriteString(hdr + "import JenVerif.Str\nnamespace Gen\n\ndef reserved : List Str := [\n")
		for i, r := range reserved {
			b.WriteString("  " + leanStr(r))
			if i+1 < len(reserved) {
				b.WriteString(",")
			}
			b.WriteString("\n")
		}
		b.WriteString("]\n\nend Gen\n")
		write("Reserved.lean", b.String())
	}
	// StdHints
	{
		var b strings.Builder
		b.WriteString(hdr + "import JenVerif.Str\nnamespace Gen\n\ndef stdHints : List (Str × Str) := [\n")
		for i, e := range stdHints {
			b.WriteString("  (" + leanStr(e.k) + ", " + leanStr(e.v) + ")")
			if i+1 < len(stdHints) {
				b.WriteString(",")
			}
			b.WriteString("\n")
		}
		b.WriteString("]\n\nend Gen\n")
		write("StdHints.lean", b.String())
	}
	// Globals
	{
		var b strings.Builder
		b.WriteString(hdr + "import JenVerif.Str\nnamespace Gen\n\ndef globals : List Str := [")
		for i, g := range globals {
			if i > 0 {
				b.WriteString(", ")
			}
			b.WriteString(leanStr(g.name))
		}
		b.WriteString("]\n\ndef globalWrites : List (Str × Str) := [")
		for i, w := range writes {
			if i > 0 {
				b.WriteString(", ")
			}
			b.WriteString("(" + leanStr(w.v) + ", " + leanStr(w.where) + ")")
		}
		b.WriteString("]\n\ndef globalSuspicious : List (Str × Str) := [")
		for i, w := range suspicious {
			if i > 0 {
				b.WriteString(", ")
			}
			b.WriteString("(" + leanStr(w.v) + ", " + leanStr(w.where) + ")")
		}
		b.WriteString("]\n\nend Gen\n")
		write("Globals.lean", b.String())
	}
	// Api
	{
		var b strings.Builder
		b.WriteString(hdr + "import JenVerif.Str\nnamespace Gen\n\n")
		b.WriteString("inductive Recv | func | stmt | group | file | other\nderiving DecidableEq, Repr\n\n")
		b.WriteString("inductive Shape | delegateToNew | groupAppend | stmtAppendGroup | stmtAppendGroupCallback | stmtAppendToken\n  | stmtAppendOther | stmtAppendItems | evalCallbackThenAppend | callbackOnSelf | cloneWrap | other\nderiving DecidableEq, Repr\n\n")
		b.WriteString("structure ApiEntry where\n  name : Str\n  recv : Recv\n  shape : Shape\n  nparams : Nat\n  variadic : Bool\n  takesFunc : Bool\nderiving DecidableEq, Repr\n\n")
		b.WriteString("def api : List ApiEntry := [\n")
		first := true
		for _, f := range fns {
			if !ast.IsExported(f.name) {
				continue
			}
			rk := "other"
			switch f.recv {
			case "":
				rk = "func"
			case "Statement":
				rk = "stmt"
			case "Group":
				rk = "group"
			case "File":
				rk = "file"
			}
			np := 0
			variadic := false
			takesFunc := false
			for _, p := range f.decl.Type.Params.List {
				k := len(p.Names)
				if k == 0 {
					k = 1
				}
				np += k
				if _, ok := p.Type.(*ast.Ellipsis); ok {
					variadic = true
				}
				if _, ok := p.Type.(*ast.FuncType); ok {
					takesFunc = true
				}
			}
			if !first {
				b.WriteString(",\n")
			}
			first = false
			fmt.Fprintf(&b, "  ⟨%s, .%s, .%s, %d, %v, %v⟩", leanStr(f.name), rk, shapeOf(f), np, variadic, takesFunc)
		}
		b.WriteString("\n]\n\nend Gen\n")
		write("Api.lean", b.String())
	}
	// Fingerprints (informational)
	{
		var b strings.Builder
		b.WriteString(hdr + "import JenVerif.Str\nnamespace Gen\n\ndef fingerprints : List (Str × Str) := [\n")
		// every function and method of package jen that is not generated code, every type
		// declaration, and generated.go as a whole: a changed entry makes the check spend the
		// escalated correspondence budget (bin/check.py); it is never by itself a failure
		first := true
		emit := func(k, v string) {
			if !first {
				b.WriteString(",\n")
			}
			first = false
			fmt.Fprintf(&b, "  (%s, %s)", leanStr(k), leanStr(v))
		}
		genHash := sha256.New()
		for _, f := range fns {
			txt := strings.Join(strings.Fields(nodeStr(f.decl)), " ")
			if f.file == "generated.go" {
				genHash.Write([]byte(txt))
				continue
			}
			h := sha256.Sum256([]byte(txt))
			emit(f.recv+"."+f.name, fmt.Sprintf("%x", h[:8]))
		}
		emit("<generated.go>", fmt.Sprintf("%x", genHash.Sum(nil)[:8]))
		typeHash := sha256.New()
		for _, fname := range fileNames {
			for _, decl := range pkg.Files[fname].Decls {
				if gd, ok := decl.(*ast.GenDecl); ok && (gd.Tok == token.TYPE || gd.Tok == token.VAR || gd.Tok == token.CONST) && filepath.Base(fname) != "hints.go" {
					typeHash.Write([]byte(strings.Join(strings.Fields(nodeStr(gd)), " ")))
				}
			}
		}
		emit("<types, vars, consts>", fmt.Sprintf("%x", typeHash.Sum(nil)[:8]))
		b.WriteString("\n]\n\nend Gen\n")
		write("Fingerprints.lean", b.String())
	}
	// Tie 1b: the import-registry algorithms, translated (algo.go)
	algoSummary := ""
	{
		algoSummary = algoSum
		write("SrcRegistry.lean", algoSrc)
	}
	// IsPrint ranges (from the installed toolchain's strconv, not from jennifer)
	{
		var b strings.Builder
		b.WriteString(hdr + "-- strconv.IsPrint for code points >= 0x80, as closed ranges [lo, hi].\nimport JenVerif.Str\nnamespace Gen\n\ndef isPrintRanges : List (Nat × Nat) := [\n")
		first := true
		lo := -1
		for r := 0x80; r <= 0x110000; r++ {
			p := r <= 0x10FFFF && strconv.IsPrint(rune(r))
			if p && lo < 0 {
				lo = r
			}
			if !p && lo >= 0 {
				if !first {
					b.WriteString(",\n")
				}
				first = false
				fmt.Fprintf(&b, "  (%d, %d)", lo, r-1)
				lo = -1
			}
		}
		b.WriteString("\n]\n\ndef isPrint (r : Nat) : Bool := isPrintRanges.any fun p => p.1 ≤ r && r ≤ p.2\n\nend Gen\n")
		write("IsPrint.lean", b.String())
	}

	// harness: table of package-level functions
	if *harnessOut != "" {
		var b strings.Builder
		b.WriteString("// Code generated by /verif/translator from /repo's working tree. DO NOT EDIT.\n\npackage main\n\nimport \"github.com/dave/jennifer/jen\"\n\nvar pkgFuncs = map[string]interface{}{\n")
		for _, f := range fns {
			if f.recv == "" && ast.IsExported(f.name) && f.decl.Type.TypeParams == nil {
				fmt.Fprintf(&b, "\t%q: jen.%s,\n", f.name, f.name)
			}
		}
		b.WriteString("}\n\n// token APIs: name -> takes a string argument\nvar genTokens = map[string]bool{\n")
		seenTok := map[string]bool{}
		for _, t := range tokens {
			if t.kind == "lit" || t.kind == "litrune" || t.kind == "litbyte" {
				continue
			}
			if !seenTok[t.api] {
				seenTok[t.api] = false
			}
			if t.dynamic {
				seenTok[t.api] = true
			}
		}
		var tnames []string
		for n := range seenTok {
			tnames = append(tnames, n)
		}
		sort.Strings(tnames)
		for _, n := range tnames {
			fmt.Fprintf(&b, "\t%q: %v,\n", n, seenTok[n])
		}
		b.WriteString("}\n\n// group constructs: name -> arity (variadic | fixed<n> | callback | tokens), \"dynamic:\" prefix for Custom\nvar genConstructs = map[string]string{\n")
		for _, c := range constructs {
			ar := c.arity
			if ar == "fixed" {
				ar = fmt.Sprintf("fixed%d", c.n)
			}
			if c.dynamic {
				ar = "dynamic:" + ar
			}
			fmt.Fprintf(&b, "\t%q: %q,\n", c.api, ar)
		}
		b.WriteString("}\n")
		p := filepath.Join(*harnessOut, "funcs_gen.go")
		old, err := os.ReadFile(p)
		if err != nil || string(old) != b.String() {
			os.WriteFile(p, []byte(b.String()), 0o644)
		}
	}
	fmt.Printf("translator: %d constructs, %d tokens, %d reserved, %d stdHints, %d globals, %d global writes, %d functions; %s\n",
		len(constructs), len(tokens), len(reserved), len(stdHints), len(globals), len(writes), len(fns), algoSummary)
}
