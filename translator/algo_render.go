// Tie 1b, fourth group: the RENDER methods of Statement and Group (Statement.render,
// Group.render, Group.renderItems).  They write to an io.Writer, register imports in the File,
// return errors, and call each other and the other Code implementations through the Code
// interface.  Translation ("render mode"):
//
//   result            Option (… × Str × FileS): none = an error was returned; otherwise the results,
//                     the bytes written so far and the File state
//   w.Write(…) guards `let v_w := v_w ++ …`            (as in the writer functions)
//   c.render(f,w,ctx) `match rec.render f v_w ctx' c with | none => none | some r => …`
//                     — dynamic dispatch = a call of the PARAMETER `rec` (open recursion)
//   c.isNull(f)       `rec.null f c`
//   f.register(p)     `let f := (rec.register f p).2`    (the registry is tied separately)
//   for _, c := range items { … continue … return err … }
//                     `Go.foldOpt (fun st c => …) init items`  (a fold that stops at the first error)
//   context `s`       Group.render receives the context statement only to ask `s.previous(g)`;
//                     the translation passes that answer — the raw previous item, `Option Code` —
//                     instead of the statement: Statement.render's loop carries it (`prevItem`).
//                     This identifies a group by its POSITION in the statement, not by pointer:
//                     one *Group inserted twice in one statement is outside the translation.
//   x.(token), x.(*Group), x.(Dict) with comma-ok: Go.isToken/tokTyp/tokContent, Go.isGroupO/
//                     groupInfoO, Go.isDict on the model's `Code`
package main

import (
	"fmt"
	"go/ast"
	"go/token"
	"strings"
)

const (
	tCtx     aty = 100 + iota // the context statement of Group.render, as "raw previous item"
	tOptCode                  // result of s.previous(g)
	tKV                       // Dict.render's local struct {key, value string; k, v Code}: Str × Str × Code × Code
	tSliceKV
)

// fields of the local struct of Dict.render, in declaration order (checked against the source)
var kvFields = []string{"key", "value", "k", "v"}
var kvProj = map[string]string{"key": ".1", "value": ".2.1", "k": ".2.2.1", "v": ".2.2.2"}
var kvType = map[string]aty{"key": tStr, "value": tStr, "k": tCode, "v": tCode}

var renderTargets = []string{"Statement.render", "Group.renderItems", "Group.render", "Dict.render"}

func isRenderTarget(key string) bool {
	for _, k := range renderTargets {
		if k == key {
			return true
		}
	}
	return false
}

// result tuple of a render-mode function: its non-error results, then v_w, then f
func (a *algo) rresults(d *ast.FuncDecl) []aty {
	var out []aty
	if d.Type.Results == nil {
		return out
	}
	for _, r := range d.Type.Results.List {
		t := goType(r.Type)
		n := len(r.Names)
		if n == 0 {
			n = 1
		}
		for i := 0; i < n; i++ {
			if t != tError {
				out = append(out, t)
			}
		}
	}
	return out
}

func (a *algo) rret(x *ast.ReturnStmt, env aenv) string {
	d := a.fns[a.cur]
	if len(x.Results) == 0 {
		bail("bare return in a render function")
	}
	last := nodeStr(x.Results[len(x.Results)-1])
	if last != "nil" {
		return "none" // an error is returned
	}
	var parts []string
	want := a.rresults(d)
	if len(x.Results)-1 != len(want) {
		bail("result count of %s", nodeStr(x))
	}
	for i, r := range x.Results[:len(x.Results)-1] {
		v, t := a.expr(r, env)
		if t != want[i] {
			bail("result type of %s", nodeStr(x))
		}
		parts = append(parts, v)
	}
	parts = append(parts, lv(a.writer[a.cur]), "f")
	return "(some (" + strings.Join(parts, ", ") + "))"
}

// `if [_,] err := E; err != nil { return [zero…,] err }`
func errGuard(x *ast.IfStmt) (*ast.CallExpr, bool) {
	as, ok := x.Init.(*ast.AssignStmt)
	if !ok || as.Tok != token.DEFINE || len(as.Rhs) != 1 || x.Else != nil || len(x.Body.List) != 1 {
		return nil, false
	}
	errName := nodeStr(as.Lhs[len(as.Lhs)-1])
	for _, l := range as.Lhs[:len(as.Lhs)-1] {
		if nodeStr(l) != "_" {
			return nil, false
		}
	}
	if strings.Join(strings.Fields(nodeStr(x.Cond)), "") != errName+"!=nil" {
		return nil, false
	}
	rs, ok := x.Body.List[0].(*ast.ReturnStmt)
	if !ok || len(rs.Results) == 0 || nodeStr(rs.Results[len(rs.Results)-1]) != errName {
		return nil, false
	}
	c, ok := as.Rhs[0].(*ast.CallExpr)
	return c, ok
}

// the context argument of a render call: nil, or the receiver statement inside its own loop
func (a *algo) ctxArg(e ast.Expr, env aenv) string {
	if nodeStr(e) == "nil" {
		return "none"
	}
	if id, ok := e.(*ast.Ident); ok && env[id.Name] == tStmtRecv && a.prevVar != "" {
		return a.prevVar
	}
	bail("context argument %s", nodeStr(e))
	return ""
}

func (a *algo) rblock(list []ast.Stmt, env aenv, tail string) string {
	if len(list) > 0 {
		if sw, ok := list[0].(*ast.SwitchStmt); ok {
			list = append([]ast.Stmt{switchToIf(sw)}, list[1:]...)
		}
	}
	if len(list) == 0 {
		if tail == "" {
			bail("control reaches the end of a render function")
		}
		return tail
	}
	s, rest := list[0], list[1:]
	w := lv(a.writer[a.cur])
	switch x := s.(type) {
	case *ast.ReturnStmt:
		return a.rret(x, env)
	case *ast.BranchStmt:
		if x.Tok == token.CONTINUE && x.Label == nil && tail != "" && a.inLoopBody > 0 {
			return tail
		}
		bail("%s statement", x.Tok)
	case *ast.DeclStmt:
		// type kv struct { key, value string; k, v Code }
		if gd, ok := x.Decl.(*ast.GenDecl); ok && gd.Tok == token.TYPE && len(gd.Specs) == 1 {
			ts := gd.Specs[0].(*ast.TypeSpec)
			st, ok := ts.Type.(*ast.StructType)
			if !ok {
				bail("local type %s", ts.Name.Name)
			}
			var names []string
			for _, fl := range st.Fields.List {
				for _, n := range fl.Names {
					names = append(names, n.Name+":"+squeeze(fl.Type))
				}
			}
			if strings.Join(names, ",") != "key:string,value:string,k:Code,v:Code" {
				bail("local struct %s has fields %v (expected key, value string; k, v Code)", ts.Name.Name, names)
			}
			a.kvName = ts.Name.Name
			return a.rblock(rest, env, tail)
		}
		bail("declaration %s", nodeStr(x))
	case *ast.ExprStmt:
		// sort.Slice(keys, func(i, j int) bool { by key, then by value })
		if c, ok := x.X.(*ast.CallExpr); ok && squeeze(c.Fun) == "sort.Slice" && len(c.Args) == 2 {
			id, ok := c.Args[0].(*ast.Ident)
			fl, ok2 := c.Args[1].(*ast.FuncLit)
			if ok && ok2 && env[id.Name] == tSliceKV {
				n := id.Name
				want := "func(i,jint)bool{if" + n + "[i].key!=" + n + "[j].key{return" + n + "[i].key<" + n + "[j].key}return" + n + "[i].value<" + n + "[j].value}"
				if squeeze(fl) != want {
					bail("sort.Slice with a comparison other than (key, then value): %s", squeeze(fl))
				}
				return fmt.Sprintf("let %s : List (Str × Str × Code × Code) := (Go.sortKV %s);\n", lv(n), lv(n)) + a.rblock(rest, env, tail)
			}
		}
		// f.register(p)
		if c, ok := x.X.(*ast.CallExpr); ok && strings.Join(strings.Fields(nodeStr(c.Fun)), "") == "f.register" && len(c.Args) == 1 {
			v, t := a.expr(c.Args[0], env)
			if t != tStr {
				bail("register of a non-string")
			}
			return fmt.Sprintf("let f : FileS := (rec.register f %s).2;\n", v) + a.rblock(rest, env, tail)
		}
		bail("expression statement %s", nodeStr(x))
	case *ast.AssignStmt:
		// r…, err := g.renderItems(f, w) ; if err != nil { return err }
		if len(x.Rhs) == 1 && x.Tok == token.DEFINE && len(x.Lhs) >= 2 {
			if c, ok := x.Rhs[0].(*ast.CallExpr); ok {
				if key, recvArg, ok := a.renderCallee(c, env); ok && len(rest) > 0 {
					errName := nodeStr(x.Lhs[len(x.Lhs)-1])
					if g, ok := rest[0].(*ast.IfStmt); ok && g.Init == nil && g.Else == nil && strings.Join(strings.Fields(nodeStr(g.Cond)), "") == errName+"!=nil" && len(g.Body.List) == 1 {
						if rs, ok := g.Body.List[0].(*ast.ReturnStmt); ok && nodeStr(rs.Results[len(rs.Results)-1]) == errName {
							call := a.renderCall(key, recvArg, c, env)
							res := a.rresults(a.fns[key])
							if len(res) != len(x.Lhs)-1 {
								bail("results of %s", nodeStr(x))
							}
							e2 := env.copy()
							t := a.tmp()
							var b strings.Builder
							fmt.Fprintf(&b, "match %s with\n| none => none\n| some %s => (\n", call, t)
							proj := t
							for i, l := range x.Lhs[:len(x.Lhs)-1] {
								if nodeStr(l) != "_" {
									e2[nodeStr(l)] = res[i]
									fmt.Fprintf(&b, "let %s : %s := %s.1;\n", lv(nodeStr(l)), leanTy[res[i]], proj)
								}
								proj += ".2"
							}
							fmt.Fprintf(&b, "let %s : Str := %s.1;\nlet f : FileS := %s.2;\n", w, proj, proj)
							return b.String() + a.rblock(rest[1:], e2, tail) + ")"
						}
					}
				}
			}
		}
		// x, ok := y.(T)
		if line, e2, ok := a.typeAssert(x, env); ok {
			return line + a.rblock(rest, e2, tail)
		}
		if len(x.Lhs) == 1 && len(x.Rhs) == 1 {
			l, r := nodeStr(x.Lhs[0]), x.Rhs[0]
			// buf := &bytes.Buffer{}
			if x.Tok == token.DEFINE && (squeeze(r) == "&bytes.Buffer{}" || squeeze(r) == "bytes.Buffer{}") {
				e2 := env.copy()
				e2[l] = tWriter
				return fmt.Sprintf("let %s : Str := [];\n", lv(l)) + a.rblock(rest, e2, tail)
			}
			// keys := []kv{}
			if cl, ok := r.(*ast.CompositeLit); ok && x.Tok == token.DEFINE && a.kvName != "" && squeeze(cl.Type) == "[]"+a.kvName && len(cl.Elts) == 0 {
				e2 := env.copy()
				e2[l] = tSliceKV
				return fmt.Sprintf("let %s : List (Str × Str × Code × Code) := [];\n", lv(l)) + a.rblock(rest, e2, tail)
			}
			// keys = append(keys, kv{key: …, value: …, k: …, v: …})
			if c, ok := r.(*ast.CallExpr); ok && squeeze(c.Fun) == "append" && len(c.Args) == 2 && x.Tok == token.ASSIGN && env[l] == tSliceKV && nodeStr(c.Args[0]) == l {
				cl, ok := c.Args[1].(*ast.CompositeLit)
				if !ok || squeeze(cl.Type) != a.kvName || len(cl.Elts) != 4 {
					bail("append to %s", l)
				}
				vals := map[string]string{}
				for _, el := range cl.Elts {
					kvx, ok := el.(*ast.KeyValueExpr)
					if !ok {
						bail("unkeyed struct literal")
					}
					v, t := a.expr(kvx.Value, env)
					fn := nodeStr(kvx.Key)
					if kvType[fn] != t {
						bail("field %s of the struct literal", fn)
					}
					vals[fn] = v
				}
				return fmt.Sprintf("let %s : List (Str × Str × Code × Code) := %s ++ [(%s, %s, %s, %s)];\n", lv(l), lv(l), vals["key"], vals["value"], vals["k"], vals["v"]) + a.rblock(rest, env, tail)
			}
		}
		// a, b := e1, e2 with independent right-hand sides
		if x.Tok == token.DEFINE && len(x.Lhs) == len(x.Rhs) && len(x.Lhs) > 1 {
			e2 := env.copy()
			var b strings.Builder
			for i := range x.Lhs {
				v, t := a.expr(x.Rhs[i], env)
				n := nodeStr(x.Lhs[i])
				for _, r := range x.Rhs {
					ast.Inspect(r, func(m ast.Node) bool {
						if sel, ok := m.(*ast.SelectorExpr); ok {
							// the field name of a selector is not a variable
							if id, ok := sel.X.(*ast.Ident); ok && id.Name == n {
								bail("parallel definition whose right-hand side mentions %s", n)
							}
							_, isId := sel.X.(*ast.Ident)
							return !isId
						}
						if id, ok := m.(*ast.Ident); ok && id.Name == n {
							bail("parallel definition whose right-hand side mentions %s", n)
						}
						return true
					})
				}
				e2[n] = t
				fmt.Fprintf(&b, "let %s : %s := %s;\n", lv(n), leanTy[t], v)
			}
			return b.String() + a.rblock(rest, e2, tail)
		}
		a.allowShadow = true
		defer func() { a.allowShadow = false }()
		return a.assign(x, env, func(e aenv) string { a.allowShadow = false; return a.rblock(rest, e, tail) })
	case *ast.IfStmt:
		return a.rif(x, rest, env, tail)
	case *ast.RangeStmt:
		return a.rrange(x, rest, env, tail)
	}
	bail("statement %s", nodeStr(s))
	return ""
}

// is this call a call of a render-mode function on the receiver / a dynamic render call
func (a *algo) renderCallee(c *ast.CallExpr, env aenv) (key, recvArg string, ok bool) {
	sel, isSel := c.Fun.(*ast.SelectorExpr)
	if !isSel {
		return "", "", false
	}
	id, isId := sel.X.(*ast.Ident)
	if !isId {
		return "", "", false
	}
	switch env[id.Name] {
	case tGroup:
		k := "Group." + sel.Sel.Name
		if isRenderTarget(k) {
			return k, lv(id.Name) + " " + lv(id.Name) + "_items", true
		}
	case tStmtRecv:
		k := "Statement." + sel.Sel.Name
		if isRenderTarget(k) {
			return k, lv(id.Name), true
		}
	}
	return "", "", false
}

// the Lean call of a render-mode function: (name cfg rec recv… args…)
func (a *algo) renderCall(key, recvArg string, c *ast.CallExpr, env aenv) string {
	d := a.fns[key]
	a.translate(key)
	if _, bad := a.failed[key]; bad {
		bail("calls %s, which is untranslated", key)
	}
	s := "(" + leanName(key) + " cfg rec " + recvArg
	i := 0
	for _, p := range d.Type.Params.List {
		for _, n := range p.Names {
			if i >= len(c.Args) {
				bail("arity of %s", nodeStr(c))
			}
			switch goType(p.Type) {
			case tFile:
				s += " f"
			case tWriter:
				id, ok := c.Args[i].(*ast.Ident)
				if !ok || env[id.Name] != tWriter {
					bail("writer argument of %s", nodeStr(c))
				}
				s += " " + lv(id.Name)
			case tIgnored:
				if n.Name != "_" && a.usesCtx[key] {
					s += " " + a.ctxArg(c.Args[i], env)
				}
			default:
				bail("parameter %s of %s", n.Name, key)
			}
			i++
		}
	}
	return s + ")"
}

// x, ok := y.(T)   (T one of token, *Group, Dict; y a Code value or the result of previous)
func (a *algo) typeAssert(x *ast.AssignStmt, env aenv) (string, aenv, bool) {
	if x.Tok != token.DEFINE || len(x.Lhs) != 2 || len(x.Rhs) != 1 {
		return "", nil, false
	}
	ta, ok := x.Rhs[0].(*ast.TypeAssertExpr)
	if !ok || ta.Type == nil {
		return "", nil, false
	}
	src, st := a.expr(ta.X, env)
	if st != tCode && st != tOptCode {
		bail("type assertion on %s", nodeStr(ta.X))
	}
	opt := ""
	if st == tOptCode {
		opt = "O"
	}
	v, okn := nodeStr(x.Lhs[0]), nodeStr(x.Lhs[1])
	e2 := env.copy()
	var b strings.Builder
	switch strings.Join(strings.Fields(nodeStr(ta.Type)), "") {
	case "token":
		if v != "_" {
			e2[v] = tToken
			a.tokSrc[v] = src
			a.tokOpt[v] = opt
			fmt.Fprintf(&b, "let %s_typ : Go.TokTyp := (Go.tokTyp%s %s);\nlet %s_content : Str := (Go.tokContent%s %s);\n", lv(v), opt, src, lv(v), opt, src)
		}
		if okn != "_" {
			e2[okn] = tBool
			fmt.Fprintf(&b, "let %s : Bool := (Go.isToken%s %s);\n", lv(okn), opt, src)
		}
	case "*Group":
		if v != "_" {
			e2[v] = tGroup
			fmt.Fprintf(&b, "let %s : GInfo := (Go.groupInfo%s %s);\nlet %s_items : List Code := (Go.groupItems%s %s);\n", lv(v), opt, src, lv(v), opt, src)
		}
		if okn != "_" {
			e2[okn] = tBool
			fmt.Fprintf(&b, "let %s : Bool := (Go.isGroup%s %s);\n", lv(okn), opt, src)
		}
	case "Dict":
		if v != "_" {
			bail("Dict value of a type assertion")
		}
		if okn != "_" {
			e2[okn] = tBool
			fmt.Fprintf(&b, "let %s : Bool := (Go.isDict%s %s);\n", lv(okn), opt, src)
		}
	default:
		bail("type assertion to %s", nodeStr(ta.Type))
	}
	return b.String(), e2, true
}

// an `if` that can only return an error (possibly through nested ifs) and assigns nothing:
// the condition under which the error is returned
func (a *algo) errCond(x *ast.IfStmt, env aenv) (string, bool) {
	if x.Else != nil || len(x.Body.List) != 1 {
		return "", false
	}
	pre := ""
	ienv := env
	if x.Init != nil {
		as, ok := x.Init.(*ast.AssignStmt)
		if !ok {
			return "", false
		}
		line, e2, ok := a.typeAssert(as, env)
		if !ok {
			return "", false
		}
		pre, ienv = line, e2
	}
	c, ct := a.expr(x.Cond, ienv)
	if ct != tBool {
		return "", false
	}
	switch b := x.Body.List[0].(type) {
	case *ast.ReturnStmt:
		if len(b.Results) == 0 || nodeStr(b.Results[len(b.Results)-1]) == "nil" {
			return "", false
		}
		return "(" + pre + c + ")", true
	case *ast.IfStmt:
		inner, ok := a.errCond(b, ienv)
		if !ok {
			return "", false
		}
		return "(" + pre + "(" + c + " && " + inner + "))", true
	}
	return "", false
}

func (a *algo) rif(x *ast.IfStmt, rest []ast.Stmt, env aenv, tail string) string {
	w := lv(a.writer[a.cur])
	// guarded call: a write, or a render through the Code interface / of a translated function
	if c, ok := errGuard(x); ok {
		if sel, isSel := c.Fun.(*ast.SelectorExpr); isSel && sel.Sel.Name == "render" && len(c.Args) == 3 {
			if id, isId := sel.X.(*ast.Ident); isId && env[id.Name] == tCode {
				wa, okw := c.Args[1].(*ast.Ident)
				if nodeStr(c.Args[0]) != "f" || !okw || env[wa.Name] != tWriter {
					bail("arguments of %s", nodeStr(c))
				}
				t := a.tmp()
				return fmt.Sprintf("match (rec.render f %s %s %s) with\n| none => none\n| some %s => (\nlet %s : Str := %s.1;\nlet f : FileS := %s.2;\n",
					lv(wa.Name), a.ctxArg(c.Args[2], env), lv(id.Name), t, lv(wa.Name), t, t) + a.rblock(rest, env, tail) + ")"
			}
		}
		if line, ok := a.writeCall(c, env); ok {
			return line + a.rblock(rest, env, tail)
		}
		bail("guarded call %s", nodeStr(c))
	}
	if c, ok := a.errCond(x, env); ok {
		return "if " + c + " then none\nelse (\n" + a.rblock(rest, env, tail) + ")"
	}
	pre := ""
	ienv := env
	if x.Init != nil {
		as, ok := x.Init.(*ast.AssignStmt)
		if !ok {
			bail("if-initialiser %s", nodeStr(x.Init))
		}
		if line, e2, ok := a.typeAssert(as, env); ok {
			pre, ienv = line, e2
		} else {
			var got aenv
			pre = a.assign(as, env, func(e aenv) string { got = e; return "" })
			ienv = got
		}
	}
	c, ct := a.expr(x.Cond, ienv)
	if ct != tBool {
		bail("condition %s", nodeStr(x.Cond))
	}
	els := elseList(x)
	if returnsAll(x.Body.List) {
		th := a.rblock(x.Body.List, ienv.copy(), tail)
		var el string
		if x.Else == nil {
			el = a.rblock(rest, env, tail)
		} else if returnsAll(els) {
			el = a.rblock(els, ienv.copy(), tail)
		} else {
			bail("else branch that falls through")
		}
		return pre + "if " + c + " then (\n" + th + ")\nelse (\n" + el + ")"
	}
	// no return inside: a pure join on the assigned variables (writes included)
	if hasReturn(x.Body) || (x.Else != nil && hasReturn(x.Else)) {
		bail("partial return in an if statement: %s", strings.Join(strings.Fields(nodeStr(x)), " "))
	}
	ast.Inspect(x, func(n ast.Node) bool {
		if c, ok := n.(*ast.CallExpr); ok {
			if sel, ok := c.Fun.(*ast.SelectorExpr); ok && (sel.Sel.Name == "render" || sel.Sel.Name == "renderItems") {
				bail("%s inside a joined block", nodeStr(c.Fun))
			}
		}
		return true
	})
	all := append(append([]ast.Stmt{}, x.Body.List...), els...)
	var outer []string
	for _, v := range assigned(all, ienv) {
		if _, ok := env[v]; ok {
			outer = append(outer, v)
		}
	}
	if len(outer) == 0 {
		return a.rblock(rest, env, tail)
	}
	_ = w
	t := a.tmp()
	a.allowShadow = true
	th := a.block(x.Body.List, ienv.copy(), tupleOf(outer), true)
	el := tupleOf(outer)
	if x.Else != nil {
		el = a.block(els, ienv.copy(), tupleOf(outer), true)
	}
	a.allowShadow = false
	return "let " + t + " := (" + pre + "if " + c + " then (\n" + th + ")\nelse (\n" + el + "));\n" + unpack(t, outer) + a.rblock(rest, env, tail)
}

// for _, code := range <[]Code> { … }   with continue, guarded renders and error returns
func (a *algo) rrange(x *ast.RangeStmt, rest []ast.Stmt, env aenv, tail string) string {
	if x.Tok != token.DEFINE || x.Value == nil {
		bail("range form %s", nodeStr(x))
	}
	coll, ct := a.expr(x.X, env)
	val := nodeStr(x.Value)
	key := nodeStr(x.Key)
	for _, n := range []string{val, key} {
		if _, dup := env[n]; dup && n != "_" {
			bail("range variable %s shadows an outer variable", n)
		}
	}
	e2 := env.copy()
	bindPre := "" // bindings of the range variables from the fold's element
	elem := lv(val)
	switch ct {
	case tSliceCode:
		if key != "_" {
			bail("index variable in %s", nodeStr(x))
		}
		e2[val] = tCode
	case tSliceKV:
		if key != "_" {
			bail("index variable in %s", nodeStr(x))
		}
		e2[val] = tKV
	case tMapCode:
		// a Dict: pairs in the order the runtime iterates the map (a parameter, as in the model)
		elem = "kv"
		if key != "_" {
			e2[key] = tCode
			bindPre += "let " + lv(key) + " : Code := kv.1;\n"
		}
		if val != "_" {
			e2[val] = tCode
			bindPre += "let " + lv(val) + " : Code := kv.2;\n"
		}
	default:
		bail("range over %s in a render function", nodeStr(x.X))
	}
	var outer []string
	for _, v := range assigned(x.Body.List, e2) {
		if _, ok := env[v]; ok {
			outer = append(outer, v)
		}
	}
	// the loop over the receiver statement carries the raw previous item
	overRecv := false
	if st, ok := x.X.(*ast.StarExpr); ok {
		if id, ok := st.X.(*ast.Ident); ok && env[id.Name] == tStmtRecv {
			overRecv = true
		}
	}
	savePrev := a.prevVar
	state := append([]string{}, outer...)
	if overRecv {
		a.prevVar = "prevItem"
	}
	st, t := a.tmp(), a.tmp()
	tup := func(last string) string {
		parts := []string{}
		for _, v := range state {
			parts = append(parts, lv(v))
		}
		if overRecv {
			parts = append(parts, last)
		}
		if len(parts) == 1 {
			return parts[0]
		}
		return "(" + strings.Join(parts, ", ") + ")"
	}
	unp := func(src string) string {
		names := append([]string{}, state...)
		var b strings.Builder
		n := len(names)
		if overRecv {
			n++
		}
		for i := 0; i < n; i++ {
			proj := src
			if n > 1 {
				for j := 0; j < i; j++ {
					proj += ".2"
				}
				if i < n-1 {
					proj += ".1"
				}
			}
			name := "prevItem"
			if i < len(names) {
				name = lv(names[i])
			}
			fmt.Fprintf(&b, "let %s := %s;\n", name, proj)
		}
		return b.String()
	}
	a.inLoopBody++
	body := bindPre + a.rblock(x.Body.List, e2, "(some "+tup("(some "+lv(val)+")")+")")
	a.inLoopBody--
	a.prevVar = savePrev
	init := tup("(none : Option Code)")
	after := unp(t)
	if overRecv {
		// prevItem is not visible after the loop
		lines := strings.SplitAfter(after, "\n")
		after = strings.Join(lines[:len(lines)-2], "") // drop the last binding (prevItem) and the trailing ""
	}
	return fmt.Sprintf("match (Go.foldOpt (fun %s %s =>\n%s%s) %s %s) with\n| none => none\n| some %s => (\n%s", st, elem, unp(st), body, init, coll, t, after) +
		a.rblock(rest, env, tail) + ")"
}

// translateRender: one render-mode function
func (a *algo) translateRender(key string) {
	d := a.fns[key]
	env := aenv{}
	var params []string
	rn := d.Recv.List[0].Names[0].Name
	switch {
	case strings.HasPrefix(key, "Group."):
		env[rn] = tGroup
		params = append(params, fmt.Sprintf("(%s : GInfo) (%s_items : List Code)", lv(rn), lv(rn)))
	case strings.HasPrefix(key, "Statement."):
		env[rn] = tStmtRecv
		params = append(params, fmt.Sprintf("(%s : List Code)", lv(rn)))
	case strings.HasPrefix(key, "Dict."):
		env[rn] = tDictRecv
		params = append(params, fmt.Sprintf("(%s : List (Code × Code))", lv(rn)))
	default:
		bail("receiver of %s", key)
	}
	a.writer[key] = writerParam(d)
	if a.writer[key] == "" {
		bail("no writer parameter")
	}
	for _, p := range d.Type.Params.List {
		t := goType(p.Type)
		for _, n := range p.Names {
			switch t {
			case tFile:
				if n.Name != "f" {
					bail("File parameter %s", n.Name)
				}
				env["f"] = tFile
				params = append(params, "(f : FileS)")
			case tWriter:
				env[n.Name] = tWriter
				params = append(params, fmt.Sprintf("(%s : Str)", lv(n.Name)))
			case tIgnored:
				// the context statement: only Group.render looks at it (s.previous(g), s != nil)
				used := false
				if n.Name != "_" {
					ast.Inspect(d.Body, func(m ast.Node) bool {
						if id, ok := m.(*ast.Ident); ok && id.Name == n.Name {
							used = true
						}
						return true
					})
				}
				if used {
					// (a later `s := …` inside a nested block shadows it, as in Go)
					env[n.Name] = tCtx
					a.usesCtx[key] = true
					params = append(params, fmt.Sprintf("(%s : Option Code)", lv(n.Name)))
				}
			default:
				bail("parameter type %s", nodeStr(p.Type))
			}
		}
	}
	res := a.rresults(d)
	var rt []string
	for _, t := range res {
		rt = append(rt, leanTy[t])
	}
	rt = append(rt, "Str", "FileS")
	// named results are ordinary variables
	if d.Type.Results != nil {
		for _, r := range d.Type.Results.List {
			for _, n := range r.Names {
				if goType(r.Type) != tError {
					env[n.Name] = goType(r.Type)
				}
			}
		}
	}
	body := a.rblock(d.Body.List, env, "")
	pos := fset.Position(d.Pos()).String()
	a.out[key] = "/-- translated from `" + key + "` (" + pos[strings.LastIndex(pos, "/jen/")+1:] + ") -/\ndef " + leanName(key) + " (cfg : Cfg) (rec : Go.Rec) " + strings.Join(params, " ") +
		" : Option (" + strings.Join(rt, " × ") + ") :=\n  let recNull := rec.null;\n" + indent(body) + "\n"
	a.order = append(a.order, key)
}

// ---------------------------------------------------------------- token.render (continuation-passing: no loops)

// token.render is a switch over the token type and, for literals, a type switch over the dynamic
// content, formatting through fmt verbs.  The receiver is (typ, content) with `content : Go.Dyn`
// (a string, a literal value, or nil); `%#v`, `%T`, `%s`, strconv.QuoteRune on it are the
// primitives Go.sharpV / Go.typeName / Go.dynStr / Go.quoteRuneDyn; `panic(…)` (unsupported literal
// type) is `none`.  Every `if`/`switch` duplicates the rest of the function into its branches.
const tDyn aty = 300

func (a *algo) cblock(list []ast.Stmt, env aenv) string {
	if len(list) == 0 {
		bail("control reaches the end of token.render")
	}
	s, rest := list[0], list[1:]
	w := lv(a.writer[a.cur])
	switch x := s.(type) {
	case *ast.ReturnStmt:
		if len(x.Results) == 1 && nodeStr(x.Results[0]) == "nil" {
			return "(some (" + w + ", f))"
		}
		return "none"
	case *ast.ExprStmt:
		if c, ok := x.X.(*ast.CallExpr); ok && nodeStr(c.Fun) == "panic" {
			return "none"
		}
		bail("expression statement %s", nodeStr(x))
	case *ast.DeclStmt:
		gd, ok := x.Decl.(*ast.GenDecl)
		if !ok || gd.Tok != token.VAR {
			bail("declaration %s", nodeStr(x))
		}
		e2 := env.copy()
		out := ""
		for _, sp := range gd.Specs {
			vs := sp.(*ast.ValueSpec)
			if len(vs.Values) != 0 || vs.Type == nil || goType(vs.Type) != tStr {
				bail("declaration %s", nodeStr(x))
			}
			for _, n := range vs.Names {
				e2[n.Name] = tStr
				out += fmt.Sprintf("let %s : Str := [];\n", lv(n.Name))
			}
		}
		return out + a.cblock(rest, e2)
	case *ast.AssignStmt:
		if len(x.Lhs) == 1 && len(x.Rhs) == 1 {
			l := nodeStr(x.Lhs[0])
			// alias := f.register(path)
			if c, ok := x.Rhs[0].(*ast.CallExpr); ok && squeeze(c.Fun) == "f.register" && len(c.Args) == 1 && x.Tok == token.DEFINE {
				v, t := a.expr(c.Args[0], env)
				if t != tStr {
					bail("register of a non-string")
				}
				e2 := env.copy()
				e2[l] = tStr
				tmp := a.tmp()
				return fmt.Sprintf("let %s := (rec.register f %s);\nlet %s : Str := %s.1;\nlet f : FileS := %s.2;\n", tmp, v, lv(l), tmp, tmp) + a.cblock(rest, e2)
			}
			v, t := a.expr(x.Rhs[0], env)
			e2 := env.copy()
			switch x.Tok {
			case token.DEFINE:
				e2[l] = t
				return fmt.Sprintf("let %s : %s := %s;\n", lv(l), leanTy[t], v) + a.cblock(rest, e2)
			case token.ASSIGN:
				if env[l] != t {
					bail("assignment %s", nodeStr(x))
				}
				return fmt.Sprintf("let %s : %s := %s;\n", lv(l), leanTy[t], v) + a.cblock(rest, env)
			case token.ADD_ASSIGN:
				if env[l] != tStr || t != tStr {
					bail("assignment %s", nodeStr(x))
				}
				return fmt.Sprintf("let %s : Str := %s ++ %s;\n", lv(l), lv(l), v) + a.cblock(rest, env)
			}
		}
		bail("assignment %s", nodeStr(x))
	case *ast.IfStmt:
		if c, ok := errGuard(x); ok {
			if line, ok := a.writeCall(c, env); ok {
				return line + a.cblock(rest, env)
			}
			bail("guarded call %s", nodeStr(c))
		}
		if x.Init != nil {
			bail("if-initialiser %s", nodeStr(x.Init))
		}
		c, ct := a.expr(x.Cond, env)
		if ct != tBool {
			bail("condition %s", nodeStr(x.Cond))
		}
		th := a.cblock(append(append([]ast.Stmt{}, x.Body.List...), rest...), env.copy())
		el := a.cblock(append(append([]ast.Stmt{}, elseList(x)...), rest...), env.copy())
		return "if " + c + " then (\n" + th + ")\nelse (\n" + el + ")"
	case *ast.SwitchStmt:
		// switch t.typ { case A, B: … }
		if x.Init != nil || x.Tag == nil {
			bail("switch %s", squeeze(x.Tag))
		}
		tag, tt := a.expr(x.Tag, env)
		if tt != tTokTyp {
			bail("switch over %s", nodeStr(x.Tag))
		}
		out, closers := "", ""
		var def []ast.Stmt
		for _, cs := range x.Body.List {
			cc := cs.(*ast.CaseClause)
			if cc.List == nil {
				def = cc.Body
				continue
			}
			var conds []string
			for _, e := range cc.List {
				v, t := a.expr(e, env)
				if t != tTokTyp {
					bail("case %s", nodeStr(e))
				}
				conds = append(conds, "("+tag+" == "+v+")")
			}
			out += "if (" + strings.Join(conds, " || ") + ") then (\n" + a.cblock(append(append([]ast.Stmt{}, cc.Body...), rest...), env.copy()) + ")\nelse (\n"
			closers += ")"
		}
		return out + a.cblock(append(append([]ast.Stmt{}, def...), rest...), env.copy()) + closers
	case *ast.TypeSwitchStmt:
		// switch t.content.(type) { case bool, string: … default: panic }
		es, ok := x.Assign.(*ast.ExprStmt)
		if !ok || x.Init != nil {
			bail("type switch %s", squeeze(x.Assign))
		}
		ta, ok := es.X.(*ast.TypeAssertExpr)
		if !ok || ta.Type != nil {
			bail("type switch %s", squeeze(x.Assign))
		}
		v, vt := a.expr(ta.X, env)
		if vt != tDyn {
			bail("type switch over %s", nodeStr(ta.X))
		}
		out, closers := "", ""
		var def []ast.Stmt
		hasDef := false
		for _, cs := range x.Body.List {
			cc := cs.(*ast.CaseClause)
			if cc.List == nil {
				def, hasDef = cc.Body, true
				continue
			}
			var names []string
			for _, e := range cc.List {
				names = append(names, fmt.Sprintf("%q", squeeze(e)))
			}
			out += "if (Go.dynIs " + v + " [" + strings.Join(names, ", ") + "]) then (\n" + a.cblock(append(append([]ast.Stmt{}, cc.Body...), rest...), env.copy()) + ")\nelse (\n"
			closers += ")"
		}
		if !hasDef {
			def = nil
		}
		return out + a.cblock(append(append([]ast.Stmt{}, def...), rest...), env.copy()) + closers
	}
	bail("statement %s", nodeStr(s))
	return ""
}

func (a *algo) translateTokenRender(key string) {
	d := a.fns[key]
	env := aenv{}
	rn := d.Recv.List[0].Names[0].Name
	env[rn] = tToken
	a.tokDyn[rn] = true
	a.writer[key] = writerParam(d)
	if a.writer[key] == "" {
		bail("no writer parameter")
	}
	env["f"] = tFile
	env[a.writer[key]] = tWriter
	body := a.cblock(d.Body.List, env)
	pos := fset.Position(d.Pos()).String()
	a.out[key] = "/-- translated from `" + key + "` (" + pos[strings.LastIndex(pos, "/jen/")+1:] + ") -/\ndef " + leanName(key) + " (cfg : Cfg) (rec : Go.Rec) (" + lv(rn) + "_typ : Go.TokTyp) (" + lv(rn) + "_val : Go.Dyn) (f : FileS) (" + lv(a.writer[key]) + " : Str) : Option (Str × FileS) :=\n" + indent(body) + "\n"
	a.order = append(a.order, key)
	delete(a.tokDyn, rn)
}
