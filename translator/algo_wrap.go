package main

// Tie 1b, seventh group: the remaining entry points, which are wrappers of translated ones.
//
//   func (x *T) Render(w io.Writer) error { return x.RenderWithFile(w, NewFile("")) }
//       = the translated RenderWithFile under the File that the translated NewFile returns
//   func (x *T) GoString() string { buf := bytes.Buffer{}; if err := x.Render(&buf); err != nil { panic(err) }; return buf.String() }
//       = the translated Render under a writer that never fails (an in-memory buffer); the result is
//         (Result.ok, the bytes it wrote, File state) or (the error the function panics with, [], state)
// Any other body: untranslated.

import (
	"fmt"
	"go/ast"
	"go/token"
	"strings"
)

var wrapTargets = []string{"Statement.Render", "Group.Render", "Statement.GoString", "Group.GoString", "File.GoString"}

func isWrapTarget(key string) bool {
	for _, k := range wrapTargets {
		if k == key {
			return true
		}
	}
	return false
}

func (a *algo) translateWrap(key string) {
	d := a.fns[key]
	if d.Recv == nil || len(d.Recv.List) != 1 || len(d.Recv.List[0].Names) != 1 {
		bail("receiver")
	}
	rn := d.Recv.List[0].Names[0].Name
	recvTy := key[:strings.Index(key, ".")]
	var params, recvArgs string
	switch recvTy {
	case "Statement":
		params, recvArgs = fmt.Sprintf("(%s : List Code)", lv(rn)), lv(rn)
	case "Group":
		params, recvArgs = fmt.Sprintf("(%s : GInfo) (%s_items : List Code)", lv(rn), lv(rn)), lv(rn)+" "+lv(rn)+"_items"
	case "File":
		if rn != "f" {
			bail("receiver is not named f")
		}
		params, recvArgs = "(v_items : List Code) (f : FileS)", "v_items f"
	}
	need := func(callee string) string {
		a.translate(callee)
		if _, bad := a.failed[callee]; bad {
			bail("calls %s, which is untranslated", callee)
		}
		return leanName(callee)
	}
	pos := fset.Position(d.Pos()).String()
	head := "/-- translated from `" + key + "` (" + pos[strings.LastIndex(pos, "/jen/")+1:] + ") -/\ndef " + leanName(key) + " (cfg : Cfg) (rec : Go.Rec) "
	if strings.HasSuffix(key, ".Render") {
		// return x.RenderWithFile(w, NewFile("…"))
		if len(d.Type.Params.List) != 1 || len(d.Type.Params.List[0].Names) != 1 || goType(d.Type.Params.List[0].Type) != tWriter {
			bail("parameters")
		}
		wn := d.Type.Params.List[0].Names[0].Name
		if len(d.Body.List) != 1 {
			bail("body is not a single return")
		}
		rs, ok := d.Body.List[0].(*ast.ReturnStmt)
		if !ok || len(rs.Results) != 1 {
			bail("body is not a single return")
		}
		c, ok := rs.Results[0].(*ast.CallExpr)
		if !ok || len(c.Args) != 2 || squeeze(c.Fun) != rn+".RenderWithFile" || nodeStr(c.Args[0]) != wn {
			bail("does not return %s.RenderWithFile(%s, …)", rn, wn)
		}
		nf, ok := c.Args[1].(*ast.CallExpr)
		if !ok || len(nf.Args) != 1 || squeeze(nf.Fun) != "NewFile" {
			bail("the File is not NewFile(…)")
		}
		arg, t := a.expr(nf.Args[0], aenv{})
		if t != tStr {
			bail("argument of NewFile")
		}
		rwf, ctor := need(recvTy+".RenderWithFile"), need(".NewFile")
		a.out[key] = head + "(world : World) " + params + " : Result × List Effect × FileS :=\n  (" + rwf + " cfg rec world " + recvArgs + " (" + ctor + " cfg " + arg + ").2)\n"
		a.order = append(a.order, key)
		return
	}
	// GoString
	if d.Type.Params != nil && len(d.Type.Params.List) != 0 {
		bail("parameters")
	}
	if len(d.Body.List) != 3 {
		bail("body is not buffer / guarded Render / return")
	}
	as, ok := d.Body.List[0].(*ast.AssignStmt)
	if !ok || as.Tok != token.DEFINE || len(as.Lhs) != 1 || len(as.Rhs) != 1 || (squeeze(as.Rhs[0]) != "bytes.Buffer{}" && squeeze(as.Rhs[0]) != "&bytes.Buffer{}") {
		bail("first statement is not a fresh bytes.Buffer")
	}
	bn := nodeStr(as.Lhs[0])
	is, ok := d.Body.List[1].(*ast.IfStmt)
	if !ok || is.Else != nil || len(is.Body.List) != 1 {
		bail("second statement is not a guarded call")
	}
	ia, ok := is.Init.(*ast.AssignStmt)
	if !ok || ia.Tok != token.DEFINE || len(ia.Lhs) != 1 || len(ia.Rhs) != 1 || squeeze(is.Cond) != nodeStr(ia.Lhs[0])+"!=nil" {
		bail("second statement is not `if err := …; err != nil`")
	}
	if squeeze(is.Body.List[0]) != "panic("+nodeStr(ia.Lhs[0])+")" {
		bail("the error is not raised as a panic")
	}
	c, ok := ia.Rhs[0].(*ast.CallExpr)
	if !ok || len(c.Args) != 1 || squeeze(c.Fun) != rn+".Render" || (squeeze(c.Args[0]) != "&"+bn && squeeze(c.Args[0]) != bn) {
		bail("does not call %s.Render on the buffer", rn)
	}
	rs, ok := d.Body.List[2].(*ast.ReturnStmt)
	if !ok || len(rs.Results) != 1 || squeeze(rs.Results[0]) != bn+".String()" {
		bail("does not return the buffer's content")
	}
	render := need(recvTy + ".Render")
	a.out[key] = head + "(gofmt : Str → Option Str) " + params + " : Result × Str × FileS :=\n" +
		"  let v_buf : Str := [];\n" +
		"  let t := (" + render + " cfg rec { gofmt := gofmt, writer := fun _ => true, fs := fun _ => true } " + recvArgs + ");\n" +
		"  match t.1 with\n  | Result.ok => (Result.ok, v_buf ++ Go.callerWritten t.2.1, t.2.2)\n  | e => (e, [], t.2.2)\n"
	a.order = append(a.order, key)
}
