package main

// Tie 1b, sixth group: the constructors of File (`NewFile`, `NewFilePath`, `NewFilePathName`).
// Each must be a single `return &File{…}`; the translation is the pair (GInfo of the embedded
// Group, FileS).  A field of File that the model does not know, a map that does not start
// empty, an embedded Group with items: untranslated.

import (
	"fmt"
	"go/ast"
	"go/token"
	"strings"
)

func isCtorTarget(key string) bool {
	return key == ".NewFile" || key == ".NewFilePath" || key == ".NewFilePathName"
}

var groupFields = map[string]struct {
	lean string
	t    aty
}{"name": {"name", tStr}, "open": {"opn", tStr}, "close": {"cls", tStr}, "separator": {"sep", tStr}, "multi": {"multi", tBool}}

func (a *algo) translateCtor(key string) {
	d := a.fns[key]
	env := aenv{}
	var params []string
	if d.Recv != nil {
		bail("constructor with a receiver")
	}
	for _, p := range d.Type.Params.List {
		t := goType(p.Type)
		if t != tStr {
			bail("parameter type %s", nodeStr(p.Type))
		}
		for _, n := range p.Names {
			env[n.Name] = t
			params = append(params, fmt.Sprintf("(%s : Str)", lv(n.Name)))
		}
	}
	if d.Type.Results == nil || len(d.Type.Results.List) != 1 || nodeStr(d.Type.Results.List[0].Type) != "*File" {
		bail("result type")
	}
	if len(d.Body.List) != 1 {
		bail("constructor body is not a single return")
	}
	rs, ok := d.Body.List[0].(*ast.ReturnStmt)
	if !ok || len(rs.Results) != 1 {
		bail("constructor body is not a single return")
	}
	ue, ok := rs.Results[0].(*ast.UnaryExpr)
	if !ok || ue.Op != token.AND {
		bail("constructor does not return &File{…}")
	}
	cl, ok := ue.X.(*ast.CompositeLit)
	if !ok || nodeStr(cl.Type) != "File" {
		bail("constructor does not return &File{…}")
	}
	ginfo := map[string]string{"name": "([] : Str)", "opn": "([] : Str)", "cls": "([] : Str)", "sep": "([] : Str)", "multi": "false"}
	var fields []string
	seenGroup := false
	for _, el := range cl.Elts {
		kv, ok := el.(*ast.KeyValueExpr)
		if !ok {
			bail("positional field in &File{…}")
		}
		k := nodeStr(kv.Key)
		if k == "Group" {
			seenGroup = true
			gu, ok := kv.Value.(*ast.UnaryExpr)
			if !ok || gu.Op != token.AND {
				bail("embedded Group is not &Group{…}")
			}
			gl, ok := gu.X.(*ast.CompositeLit)
			if !ok || nodeStr(gl.Type) != "Group" {
				bail("embedded Group is not &Group{…}")
			}
			for _, ge := range gl.Elts {
				gkv, ok := ge.(*ast.KeyValueExpr)
				if !ok {
					bail("positional field in &Group{…}")
				}
				gf, ok := groupFields[nodeStr(gkv.Key)]
				if !ok {
					bail("field %s of the embedded Group", nodeStr(gkv.Key))
				}
				v, t := a.expr(gkv.Value, env)
				if t != gf.t {
					bail("type of Group field %s", nodeStr(gkv.Key))
				}
				ginfo[gf.lean] = v
			}
			continue
		}
		ff, ok := fileFields[k]
		if !ok {
			bail("field %s of File is outside the model", k)
		}
		if ff.t == tMapDef {
			ml, ok := kv.Value.(*ast.CompositeLit)
			if !ok || len(ml.Elts) != 0 || strings.Join(strings.Fields(nodeStr(ml.Type)), "") != "map[string]importdef" {
				bail("map field %s does not start empty", k)
			}
			fields = append(fields, ff.lean+" := []")
			continue
		}
		v, t := a.expr(kv.Value, env)
		if t != ff.t {
			bail("type of field %s", k)
		}
		fields = append(fields, ff.lean+" := "+v)
	}
	if !seenGroup {
		bail("no embedded Group (a nil *Group)")
	}
	gi := fmt.Sprintf("({ name := %s, opn := %s, cls := %s, sep := %s, multi := %s } : GInfo)", ginfo["name"], ginfo["opn"], ginfo["cls"], ginfo["sep"], ginfo["multi"])
	body := "(" + gi + ", ({ " + strings.Join(fields, ", ") + " } : FileS))"
	sig := "def " + leanName(key) + " (cfg : Cfg)"
	if a.needsLib[key] {
		sig += " (lib : Go.Lib)"
	}
	if a.needsFuel[key] {
		sig += " (fuel : Nat)"
	}
	for _, p := range params {
		sig += " " + p
	}
	pos := fset.Position(d.Pos()).String()
	a.out[key] = "/-- translated from `" + key[1:] + "` (" + pos[strings.LastIndex(pos, "/jen/")+1:] + ") -/\n" + sig + " : GInfo × FileS :=\n" + indent(body) + "\n"
	a.order = append(a.order, key)
}
