package main

// Tie 1b, eighth group: `Statement.previous` — the one place where jennifer compares POINTERS
// (`item == c` on interface values).  The model's `Code` values have no identity; the comparison
// is the parameter `same : Code → Bool` ("is this item the value we are looking for"), and the
// theorem about the translation says what the function returns when `same` first holds at the
// position that is being rendered (Tie/PreviousSrc).  Recognised shape (names free):
//
//	idx := -1
//	for i, item := range *s { if item == c { idx = i; break } }
//	if idx > 0 { return (*s)[idx-1] }
//	return nil

import (
	"fmt"
	"go/ast"
	"go/token"
	"strings"
)

func (a *algo) translatePrevious(key string) {
	d := a.fns[key]
	if d.Recv == nil || len(d.Recv.List) != 1 || len(d.Recv.List[0].Names) != 1 {
		bail("receiver")
	}
	s := d.Recv.List[0].Names[0].Name
	if len(d.Type.Params.List) != 1 || len(d.Type.Params.List[0].Names) != 1 || nodeStr(d.Type.Params.List[0].Type) != "Code" {
		bail("parameters")
	}
	c := d.Type.Params.List[0].Names[0].Name
	if d.Type.Results == nil || len(d.Type.Results.List) != 1 || nodeStr(d.Type.Results.List[0].Type) != "Code" {
		bail("result type")
	}
	if len(d.Body.List) != 4 {
		bail("body is not init / search loop / guarded return / return nil")
	}
	as, ok := d.Body.List[0].(*ast.AssignStmt)
	if !ok || as.Tok != token.DEFINE || len(as.Lhs) != 1 || squeeze(as.Rhs[0]) != "-1" {
		bail("first statement is not `idx := -1`")
	}
	idx := nodeStr(as.Lhs[0])
	rg, ok := d.Body.List[1].(*ast.RangeStmt)
	if !ok || rg.Tok != token.DEFINE || rg.Key == nil || rg.Value == nil || squeeze(rg.X) != "*"+s || len(rg.Body.List) != 1 {
		bail("second statement is not `for i, item := range *%s`", s)
	}
	i, item := nodeStr(rg.Key), nodeStr(rg.Value)
	is, ok := rg.Body.List[0].(*ast.IfStmt)
	if !ok || is.Init != nil || is.Else != nil || len(is.Body.List) != 2 ||
		(squeeze(is.Cond) != item+"=="+c && squeeze(is.Cond) != c+"=="+item) ||
		squeeze(is.Body.List[0]) != idx+"="+i || squeeze(is.Body.List[1]) != "break" {
		bail("loop body is not `if %s == %s { %s = %s; break }`", item, c, idx, i)
	}
	g, ok := d.Body.List[2].(*ast.IfStmt)
	if !ok || g.Init != nil || g.Else != nil || len(g.Body.List) != 1 || squeeze(g.Cond) != idx+">0" ||
		squeeze(g.Body.List[0]) != fmt.Sprintf("return(*%s)[%s-1]", s, idx) {
		bail("third statement is not `if %s > 0 { return (*%s)[%s-1] }`", idx, s, idx)
	}
	if squeeze(d.Body.List[3]) != "returnnil" {
		bail("last statement is not `return nil`")
	}
	pos := fset.Position(d.Pos()).String()
	a.out[key] = "/-- translated from `" + key + "` (" + pos[strings.LastIndex(pos, "/jen/")+1:] + "); `same x` stands for the pointer comparison `x == " + c + "` -/\n" +
		"def Statement_previous (cfg : Cfg) (" + lv(s) + " : List Code) (same : Code → Bool) : Option Code :=\n" +
		"  let " + lv(idx) + " : Int := (-1 : Int);\n" +
		"  let " + lv(idx) + " : Int := (Go.firstIndexOr " + lv(s) + " same " + lv(idx) + ");\n" +
		"  if (decide (" + lv(idx) + " > (0 : Int))) then (\n  (Go.itemAt " + lv(s) + " (" + lv(idx) + " - 1)))\n  else (\n  none)\n"
	a.order = append(a.order, key)
}
