#!/usr/bin/env python3
"""Driver of one property check (see DESIGN.md §2.6)."""
import fcntl, json, os, re, subprocess, sys, time

prop, tier, seed = sys.argv[1], sys.argv[2], int(sys.argv[3])
V = os.environ.get("VERIF_ROOT") or os.path.dirname(os.path.dirname(os.path.abspath(__file__)))
REPO = os.environ.get("VERIF_REPO") or "/repo"
BUILD = V + "/.build"
LEAN = V + "/lean"
t0 = time.time()
ALLOWED_AXIOMS = {"propext", "Classical.choice", "Quot.sound"}

def sh(cmd, cwd=None, timeout=None):
    p = subprocess.run(cmd, shell=True, cwd=cwd, stdout=subprocess.PIPE, stderr=subprocess.STDOUT, text=True, timeout=timeout)
    out = "\n".join(l for l in p.stdout.splitlines() if not l.startswith("WARNING conda"))
    return p.returncode, out

def machinery(msg):
    print("MACHINERY ERROR (not a property violation):", msg)
    sys.exit(2)

os.makedirs(BUILD, exist_ok=True)
lock = open(BUILD + "/lock", "w")
fcntl.flock(lock, fcntl.LOCK_EX)

# 1. regenerate (tie 1)
if not os.path.exists(BUILD + "/translator") or os.path.getmtime(BUILD + "/translator") < os.path.getmtime(V + "/translator/main.go"):
    rc, out = sh("go build -o %s/translator ." % BUILD, cwd=V + "/translator")
    if rc: machinery("translator does not build:\n" + out)
for f in os.listdir(LEAN + "/JenVerif/Gen") if os.path.isdir(LEAN + "/JenVerif/Gen") else []:
    pass
rc, tout = sh("%s/translator -repo %s -out %s/JenVerif/Gen -harness %s/harness" % (BUILD, REPO, LEAN, V))
if rc:
    # /repo's sources do not parse: nothing can be checked
    machinery("translator failed on /repo:\n" + tout)

# 2. prove: build the property's theorem file against the regenerated tables
propfile = "%s/JenVerif/Props/%s.lean" % (LEAN, prop)
src = open(propfile).read()
thms = [(m.start(), m.group(2)) for m in re.finditer(r"^(theorem|lemma)\s+([A-Za-z0-9_.']+)", src, re.M)]
lines_of = []
for i, (pos, name) in enumerate(thms):
    start = src.count("\n", 0, pos) + 1
    end = src.count("\n", 0, thms[i + 1][0]) if i + 1 < len(thms) else src.count("\n") + 1
    lines_of.append((name, start, end))
obligations = [n for n, _, _ in lines_of]
rc, bout = sh("lake build JenVerif.Props.%s driver" % prop, cwd=LEAN, timeout=3000)
failed = []
build_errors = []
if rc:
    for m in re.finditer(r"error: (\S+?\.lean):(\d+):(\d+): (.*)", bout):
        build_errors.append(m.group(0))
        if m.group(1).endswith("Props/%s.lean" % prop):
            ln = int(m.group(2))
            for n, s, e in lines_of:
                if s <= ln <= e and n not in failed:
                    failed.append(n)
    if not failed:
        # an error in a lemma file or a regenerated table: every theorem of the property is unproved
        failed = list(obligations) or ["<build>"]
    if "Driver" in bout and "error" in bout and not os.path.exists(LEAN + "/.lake/build/bin/driver"):
        machinery("model driver does not build:\n" + bout[-3000:])

# 2b. tie 1b: the registry functions translated from /repo's Go source = the model (DESIGN §11)
TIE_PROPS = {"C%02d" % i for i in range(1, 21)}
TIE_THEOREMS = {".IsReservedWord": "IsReservedWord_eq", "File.isLocal": "isLocal_eq", "File.isValidAlias": "isValidAlias_eq",
                "File.isDotImport": "isDotImport_eq", "File.prefixed": "prefixed_eq", ".guessAlias": "guessAlias_eq",
                "File.register": "register_src_eq_model", "File.Anon": "Anon_eq", "File.ImportName": "ImportName_eq",
                "File.ImportNames": "ImportNames_eq", "File.ImportAlias": "ImportAlias_eq",
                "comment.render": "comment_render_eq", "tag.isNull": "tag_isNull_eq", "tag.render": "tag_render_eq",
                "File.renderImports": "renderImports_src_eq_model",
                "token.isNull": "token_isNull_eq", "comment.isNull": "comment_isNull_eq", "Group.isNullItems": "Group_isNullItems_eq", "Group.countItems": "Group_countItems_eq",
                "Group.isNull": "Group_isNull_eq", "Statement.isNull": "Statement_isNull_eq", "Dict.isNull": "Dict_isNull_eq",
                "Statement.render": "Statement_render_eq", "Group.renderItems": "Group_renderItems_eq", "Group.render": "Group_render_eq",
                "File.Render": "File_Render_eq", "Statement.RenderWithFile": "Statement_RenderWithFile_eq",
                "Group.RenderWithFile": "Group_RenderWithFile_eq", "File.Save": "File_Save_eq",
                "Dict.render": "Dict_render_eq", "token.render": "token_render_eq",
                ".NewFile": "NewFile_eq", ".NewFilePath": "NewFilePath_eq", ".NewFilePathName": "NewFilePathName_eq",
                "File.HeaderComment": "HeaderComment_eq", "File.PackageComment": "PackageComment_eq", "File.CgoPreamble": "CgoPreamble_eq",
                "Statement.Render": "Statement_Render_eq", "Group.Render": "Group_Render_eq", "Statement.GoString": "Statement_GoString_eq",
                "Group.GoString": "Group_GoString_eq", "File.GoString": "File_GoString_eq", "Statement.previous": "Statement_previous_eq"}
syntactic_tie = None
escalate = 1
rct = 0
if prop in TIE_PROPS:
    gen = open(LEAN + "/JenVerif/Gen/SrcRegistry.lean").read()
    translated = {m.group(1): m.group(2) == "true" for m in re.finditer(r'\("([^"]+)", (true|false)\)', gen)}
    rct, tie_out = sh("lake build JenVerif.Tie.All", cwd=LEAN, timeout=3000)
    bad_thms, bad_files = set(), set()
    if rct:
        for m in re.finditer(r"error: (JenVerif/Tie/\S+?\.lean):(\d+):(\d+)", tie_out):
            bad_files.add(m.group(1))
            tsrc = open(LEAN + "/" + m.group(1)).read()
            tl = [(mm.start(), mm.group(2)) for mm in re.finditer(r"^(theorem|lemma)\s+([A-Za-z0-9_.']+)", tsrc, re.M)]
            ln = int(m.group(2))
            cur = None
            for pos, name in tl:
                if tsrc.count("\n", 0, pos) + 1 <= ln: cur = name
            if cur: bad_thms.add(cur)
    syntactic_tie = {}
    THM_FILE = {t: "JenVerif/Tie/RegistrySrc.lean" for t in TIE_THEOREMS.values()}
    THM_FILE.update({"guessAlias_eq": "JenVerif/Tie/GuessAliasSrc.lean", "register_src_eq_model": "JenVerif/Tie/Registry.lean",
                     "comment_render_eq": "JenVerif/Tie/TextSrc.lean", "tag_isNull_eq": "JenVerif/Tie/TextSrc.lean", "tag_render_eq": "JenVerif/Tie/TextSrc.lean",
                     "renderImports_src_eq_model": "JenVerif/Tie/Registry.lean"})
    THM_FILE["Dict_render_eq"] = "JenVerif/Tie/DictSrc.lean"
    THM_FILE["token_render_eq"] = "JenVerif/Tie/TokenSrc.lean"
    THM_FILE.update({t: "JenVerif/Tie/EntrySrc.lean" for t in ("File_Render_eq", "Statement_RenderWithFile_eq", "Group_RenderWithFile_eq", "File_Save_eq")})
    THM_FILE.update({t: "JenVerif/Tie/RenderSrc.lean" for t in ("Statement_render_eq", "Group_renderItems_eq", "Group_render_eq", "Group_countItems_eq")})
    THM_FILE.update({t: "JenVerif/Tie/NullSrc.lean" for t in ("token_isNull_eq", "comment_isNull_eq", "Group_isNullItems_eq", "Group_isNull_eq", "Statement_isNull_eq", "Dict_isNull_eq")})
    DEPS = {"JenVerif/Tie/RegistrySrc.lean": [], "JenVerif/Tie/GuessAliasSrc.lean": [],
            "JenVerif/Tie/RegisterSrc.lean": ["JenVerif/Tie/RegistrySrc.lean"], "JenVerif/Tie/TextSrc.lean": [], "JenVerif/Tie/ImportsSrc.lean": [], "JenVerif/Tie/NullSrc.lean": ["JenVerif/Tie/RegistrySrc.lean"],
            "JenVerif/Tie/RenderSrc.lean": ["JenVerif/Tie/RegistrySrc.lean", "JenVerif/Tie/NullSrc.lean"],
            "JenVerif/Tie/Registry.lean": ["JenVerif/Tie/RegisterSrc.lean", "JenVerif/Tie/GuessAliasSrc.lean", "JenVerif/Tie/RegistrySrc.lean",
                                           "JenVerif/Tie/TextSrc.lean", "JenVerif/Tie/ImportsSrc.lean", "JenVerif/Tie/NullSrc.lean", "JenVerif/Tie/RenderSrc.lean"]}
    THM_FILE.update({t: "JenVerif/Tie/FileOpsSrc.lean" for t in ("NewFile_eq", "NewFilePath_eq", "NewFilePathName_eq", "HeaderComment_eq", "PackageComment_eq", "CgoPreamble_eq")})
    DEPS["JenVerif/Tie/FileOpsSrc.lean"] = ["JenVerif/Tie/GuessAliasSrc.lean"]
    THM_FILE.update({t: "JenVerif/Tie/WrapSrc.lean" for t in ("Statement_Render_eq", "Group_Render_eq", "Statement_GoString_eq", "Group_GoString_eq", "File_GoString_eq")})
    THM_FILE["Statement_previous_eq"] = "JenVerif/Tie/PreviousSrc.lean"
    DEPS["JenVerif/Tie/PreviousSrc.lean"] = []
    DEPS["JenVerif/Tie/DictSrc.lean"] = ["JenVerif/Tie/RenderSrc.lean"] + DEPS["JenVerif/Tie/RenderSrc.lean"]
    DEPS["JenVerif/Tie/TokenSrc.lean"] = ["JenVerif/Tie/RenderSrc.lean"] + DEPS["JenVerif/Tie/RenderSrc.lean"]
    DEPS["JenVerif/Tie/EntrySrc.lean"] = ["JenVerif/Tie/Registry.lean"] + DEPS["JenVerif/Tie/Registry.lean"]
    DEPS["JenVerif/Tie/WrapSrc.lean"] = ["JenVerif/Tie/EntrySrc.lean", "JenVerif/Tie/FileOpsSrc.lean"] + DEPS["JenVerif/Tie/EntrySrc.lean"]
    gen_broken = rct and ("Gen/SrcRegistry.lean" in tie_out and "error" in tie_out and not bad_files)
    for fn_, thm in TIE_THEOREMS.items():
        tf = THM_FILE[thm]
        if not translated.get(fn_):
            syntactic_tie[fn_] = "untranslated (outside the translated subset of Go); behavioural tie only"
        elif not rct:
            syntactic_tie[fn_] = "proved: translated definition = model (Tie.%s)" % thm
        elif thm in bad_thms or (thm == "register_src_eq_model" and ("register_eq" in bad_thms or "guessAlias_eq" in bad_thms)) or \
                (thm == "renderImports_src_eq_model" and ("renderImports_eq" in bad_thms or "comment_render_eq" in bad_thms)):
            syntactic_tie[fn_] = "NOT proved equal to the model (Tie.%s no longer checks); behavioural tie only" % thm
        elif gen_broken or any(d in bad_files for d in DEPS[tf]):
            syntactic_tie[fn_] = "unchecked (a module it depends on does not build); behavioural tie only"
        else:
            syntactic_tie[fn_] = "proved: translated definition = model (Tie.%s)" % thm
    if rct or not all(translated.get(k) for k in TIE_THEOREMS):
        escalate = 6

# 2c. fingerprints of /repo's functions against the committed baseline: a changed function makes
# the correspondence and the oracles run with the escalated budget (never a failure by itself)
def fp_entries(path):
    try:
        return dict(re.findall(r'\(b!"([^"]+)", b!"([0-9a-f]+)"\)', open(path).read()))
    except OSError:
        return {}
fp_now, fp_base = fp_entries(LEAN + "/JenVerif/Gen/Fingerprints.lean"), fp_entries(V + "/translator/fingerprints.baseline")
fp_changed = sorted(k for k in set(fp_now) | set(fp_base) if fp_now.get(k) != fp_base.get(k))
if fp_changed:
    escalate = 6

# forbidden constructs
grep_hits = []
rcg, gout = sh(r"(grep -rnwE 'sorry|admit|native_decide|bv_decide|implemented_by|unsafe' --include=*.lean JenVerif Driver.lean; grep -rnE '^axiom |maxHeartbeats 0' --include=*.lean JenVerif Driver.lean) | grep -v '^[^:]*:[0-9]*:\s*--' || true", cwd=LEAN)
for l in gout.splitlines():
    if "/Gen/" in l: continue
    txt = l.split(":", 2)[2] if l.count(":") >= 2 else l
    if txt.strip().startswith("--") or txt.strip().startswith("/-"): continue
    grep_hits.append(l)

# axioms
axioms = {}
tie_axioms = None
# (the audit imports the tie modules only when the whole tie build succeeded)
tie_proved = syntactic_tie is not None and not rct and all(v.startswith("proved") for v in syntactic_tie.values())
if not rc and obligations:
    audit = "import JenVerif.Props.%s\n" % prop + "".join("#print axioms %s.%s\n" % (prop, n) for n in obligations)
    if tie_proved:
        audit = "import JenVerif.Tie.All\n" + audit + "".join("#print axioms Tie.%s\n" % t for t in sorted(set(TIE_THEOREMS.values()) | {"register_src_keeps_invariant", "register_src_fuel_stable", "renderImports_src_of_inv", "File_Render_eq_of_inv", "File_Save_eq_of_inv",
                                                                                                                                     "srcRec_null", "srcRec_render", "srcRec_render_strong",
                                                                                                                                     "File_Render_closed", "File_Save_closed", "Statement_RenderWithFile_closed", "Group_RenderWithFile_closed", "Statement_GoString_closed", "Group_GoString_closed",
                                                                                                                                     "C10_render_on_code", "C10_save_on_code", "C13_insert_void_on_code", "C08_rerender_on_code", "carried_prev_is_previous",
                                                                                                                                     "C07_tag_on_code", "C07_imports_on_code", "C07_importNames_on_code", "C17_lookup_on_code", "C15_line_comment_on_code", "C15_block_comment_on_code", "C06_local_on_code", "C04_block_exact_on_code", "C19_C_on_code", "C03_final_table_on_code", "C16_dict_on_code", "C12_string_on_code", "C12_byte_on_code", "C11_int_on_code", "C11_sized_on_code"}))
    ap = "%s/audit_%s.lean" % (BUILD, prop)
    open(ap, "w").write(audit)
    rca, aout = sh("lake env lean %s" % ap, cwd=LEAN, timeout=600)
    cur = None
    for m in re.finditer(r"'([^']+)' (does not depend on any axioms|depends on axioms: \[([^\]]*)\])", aout.replace("\n", " ")):
        axioms[m.group(1).split(".", 1)[-1]] = [a.strip() for a in (m.group(3) or "").split(",") if a.strip()]
    bad = {n: a for n, a in axioms.items() if set(a) - ALLOWED_AXIOMS}
    missing = [n for n in obligations if n not in axioms]
    if tie_proved and "register_src_eq_model" not in axioms: missing.append("Tie.register_src_eq_model")
    tie_axioms = {k: v for k, v in axioms.items() if k in TIE_THEOREMS.values() or k.startswith("register_src_") or k.startswith("renderImports_src_") or k.endswith("_of_inv") or k.startswith("srcRec_") or k.endswith("_closed") or k.endswith("_on_code") or k == "carried_prev_is_previous"}
    for k in tie_axioms: axioms.pop(k)
    bad.update({n: a for n, a in tie_axioms.items() if set(a) - ALLOWED_AXIOMS})
    if bad or grep_hits or rca or missing:
        machinery("proof audit failed: axioms=%s grep=%s\n%s" % (bad, grep_hits, aout[-2000:] if rca else ""))
elif grep_hits:
    machinery("forbidden constructs: %s" % grep_hits)

leanchecker = None
if tier == "thorough" and not rc:
    rcl, lout = sh("lake env leanchecker JenVerif.Props.%s" % prop, cwd=LEAN, timeout=3000)
    leanchecker = "ok" if rcl == 0 else lout[-500:]
    if rcl: machinery("leanchecker rejects the compiled proofs: " + lout[-1500:])

# 3. harness against /repo's working tree
sh("cp -f %s/go.sum %s/harness/go.sum" % (REPO, V))
modflag = ""
if REPO != "/repo":
    # an alternative working tree of dave/jennifer (scratch copy): same harness, other replace target
    sh("cp go.mod %s/go.alt.mod; cp go.sum %s/go.alt.sum; go mod edit -modfile=%s/go.alt.mod -replace github.com/dave/jennifer=%s" % (BUILD, BUILD, BUILD, REPO), cwd=V + "/harness")
    modflag = "-modfile=%s/go.alt.mod " % BUILD
os.environ["VERIF_REPO"] = REPO
race = "-race " if prop == "C09" else ""
hbin = BUILD + ("/harness-race" if race else "/harness")
cover = ""
if os.environ.get("VERIF_COVERDIR"):
    # measurement only (bin/coverage): which statements of dave/jennifer the correspondence runs reach
    cover = "-cover -covermode=atomic -coverpkg=github.com/dave/jennifer/jen,verif/harness "
    hbin += "-cover"
    os.environ["GOCOVERDIR"] = os.environ["VERIF_COVERDIR"]
rc2, hout = sh("go build %s%s%s-o %s ." % (modflag, race, cover, hbin), cwd=V + "/harness", timeout=1800)
fcntl.flock(lock, fcntl.LOCK_UN)
if rc2:
    # /repo no longer compiles (or its API lost something the harness relies on)
    print(hout[-3000:])
    machinery("harness does not build against /repo")

# 4.-6. correspondence, oracle, decision
part = "%s/evidence_%s.json" % (BUILD, prop)
if os.path.exists(part): os.remove(part)
cmd = "%s check %s --tier %s --seed %d --evidence %s --replays %s/replays --known %s/known_findings.json --corpus %s/corpus" % (hbin, prop, tier, seed, part, V, V, V)
if escalate > 1:
    cmd += " --escalate %d" % escalate
if failed:
    cmd += " --failed-obligations '%s'" % ",".join("JenVerif.Props.%s.%s" % (prop, f) if not f.startswith("<") else f for f in failed)
env_extra = "GORACE='halt_on_error=0 exitcode=66' " if race else ""
os.environ["VERIF_DRIVER"] = LEAN + "/.lake/build/bin/driver"
p = subprocess.run(env_extra + cmd, shell=True, cwd=V, stdout=subprocess.PIPE, stderr=subprocess.PIPE, text=True)
stdout = "\n".join(l for l in p.stdout.splitlines() if not l.startswith("WARNING conda"))
print(stdout)
races = p.stderr.count("WARNING: DATA RACE")
exit_code = p.returncode
if p.returncode not in (0, 1) and not races:
    print(p.stderr[-3000:])
    machinery("harness exited with %d" % p.returncode)
if races:
    rp = "%s/replays/%s-%d-race.json" % (V, prop, seed)
    json.dump({"kind": "data-race", "report": p.stderr[-6000:], "rerun": "bin/check C09 quick"}, open(rp, "w"), indent=1)
    print("VIOLATION property=%s replay=%s" % (prop, rp))
    exit_code = 1
if failed:
    for e in build_errors[:10]:
        print("proof obligation broken:", e)

h = json.load(open(part)) if os.path.exists(part) else {}
nviol = h.get("violations", 0) + (1 if races else 0)
ev = {
    "property_id": prop, "tier": tier, "seed": seed, "level": "proof",
    "coverage": {
        "obligations": len(obligations), "discharged": len(obligations) - len([f for f in failed if f in obligations]) if obligations else 0,
        "checker_cmd": "cd " + LEAN + " && lake build JenVerif.Props.%s  (then `lake env lean` on #print axioms for every theorem%s)" % (prop, "; lake env leanchecker" if tier == "thorough" else ""),
        "trusted_base": ["Lean 4.33.0 kernel", "axioms: propext, Classical.choice, Quot.sound only (audited per theorem below)",
                         "translator /verif/translator (go/ast): Gen tables = literals of /repo's working tree",
                         "correspondence harness /verif/harness (differential testing of the hand-written model against the real library)",
                         "go/format, go/parser, fmt/strconv, Go map semantics, io/os: modelled as parameters (DESIGN.md §6)"],
        "theorems": obligations, "failed_obligations": failed, "axioms": axioms, "leanchecker": leanchecker,
        "regenerated_tables": tout.strip(),
        "syntactic_tie": syntactic_tie, "syntactic_tie_axioms": tie_axioms,
        "changed_functions_vs_baseline": fp_changed, "budget_escalation": escalate,
        "evaluations": h.get("correspondence_cases", 0) + h.get("oracle_cases", 0),
        "distinct_nontrivial": h.get("distinct_nontrivial", 0),
        "rule": "recipes from the seeded generators of /verif/harness (DESIGN.md §2.4); distinct = distinct recipe text with at least one render op executed",
        "samples": h.get("samples", []),
        "correspondence": {k: h.get(k) for k in ("corpus_cases", "correspondence_cases", "correspondence_render_ops", "correspondence_disagreements", "outcome_classes")},
        "oracle": {k: h.get(k) for k in ("oracle_cases", "oracle_findings")},
        "input_distribution": h.get("histogram"), "notes": h.get("notes"), "extra": h.get("extra"),
        "data_races_reported": races,
    },
    "assumptions": ["see DESIGN.md §6 (trusted base) and the per-property `Trust/partial` paragraph of §4"],
    "wall_s": round(time.time() - t0, 2), "violations": nviol,
}
json.dump(ev, open("%s/evidence/%s.json" % (V, prop), "w"), indent=1)
sys.exit(1 if exit_code else 0)
