# common environment for every /verif command (sourced)
export GOFLAGS=-mod=mod GOPROXY=off GOSUMDB=off GOTOOLCHAIN=local CARGO_NET_OFFLINE=true PIP_NO_INDEX=1
export VERIF=/verif
export BUILD=/verif/.build
mkdir -p "$BUILD" /verif/evidence /verif/replays
