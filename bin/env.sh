# common environment for every command of the verification machinery (sourced)
export GOFLAGS=-mod=mod GOPROXY=off GOSUMDB=off GOTOOLCHAIN=local CARGO_NET_OFFLINE=true PIP_NO_INDEX=1
export VERIF_ROOT="${VERIF_ROOT:-$(cd "$(dirname "${BASH_SOURCE[0]}")/.." && pwd)}"
export VERIF="$VERIF_ROOT"
export BUILD="$VERIF_ROOT/.build"
mkdir -p "$BUILD" "$VERIF_ROOT/evidence" "$VERIF_ROOT/replays"
