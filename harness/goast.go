package main

// G-real (C01): Go source files -> recipes.  Every syntactic construct is built with the DSL
// element documented for it; comments are dropped.  The converter reports constructs it cannot
// express instead of silently skipping them.

import (
	"fmt"
	"go/ast"
	"go/constant"
	"go/parser"
	"go/token"
	"strconv"
	"strings"
	"unicode/utf8"
)

type conv struct {
	rawLits bool // mirror of the Lean builder: literal and tag texts are atoms
	fset    *token.FileSet
	imports map[string]string // local name -> path
	pool    []string          // Qual index -> path
	poolIdx map[string]int
	errs    []string
}

func (c *conv) fail(format string, a ...interface{}) {
	c.errs = append(c.errs, fmt.Sprintf(format, a...))
}

func one(items ...SItem) *Stmt { return &Stmt{Items: items} }

func add(s *Stmt) SItem { return &AddItems{Args: []Arg{s}} }

func (c *conv) exprs(xs []ast.Expr) []Arg {
	out := make([]Arg, len(xs))
	for i, x := range xs {
		out[i] = c.expr(x)
	}
	return out
}

func (c *conv) lit(b *ast.BasicLit) *Stmt {
	if c.rawLits {
		return one(id(b.Value))
	}
	raw := one(op(b.Value))
	switch b.Kind {
	case token.INT:
		if v, err := strconv.ParseInt(strings.ReplaceAll(b.Value, "_", ""), 0, 64); err == nil && int64(int(v)) == v {
			return one(mkLit(int(v)))
		}
		return raw
	case token.FLOAT:
		v, err := strconv.ParseFloat(strings.ReplaceAll(b.Value, "_", ""), 64)
		if err == nil && finite(v) {
			a := constant.MakeFromLiteral(b.Value, token.FLOAT, 0)
			t := strconv.FormatFloat(v, 'g', -1, 64)
			if !strings.ContainsAny(t, ".e") {
				t += ".0"
			}
			bb := constant.MakeFromLiteral(t, token.FLOAT, 0)
			if a.Kind() != constant.Unknown && bb.Kind() != constant.Unknown && constant.Compare(a, token.EQL, bb) {
				return one(mkLit(v))
			}
		}
		return raw
	case token.CHAR:
		r, _, _, err := strconv.UnquoteChar(b.Value[1:len(b.Value)-1], '\'')
		if err == nil && utf8.ValidRune(r) && !(r == utf8.RuneError && !strings.Contains(b.Value, "\\ufffd") && !strings.Contains(b.Value, "�")) {
			return one(mkRune(r))
		}
		return raw
	case token.STRING:
		s, err := strconv.Unquote(b.Value)
		if err == nil {
			return one(mkLit(s))
		}
		return raw
	}
	return raw
}

func (c *conv) fieldList(fl *ast.FieldList) []Arg {
	if fl == nil {
		return nil
	}
	var out []Arg
	for _, f := range fl.List {
		s := one()
		if len(f.Names) == 1 {
			s.Items = append(s.Items, id(f.Names[0].Name))
		} else if len(f.Names) > 1 {
			var ns []Arg
			for _, n := range f.Names {
				ns = append(ns, one(id(n.Name)))
			}
			s.Items = append(s.Items, &Grp{Api: "List", Args: ns})
		}
		s.Items = append(s.Items, add(c.expr(f.Type)))
		if f.Tag != nil {
			s.Items = append(s.Items, add(c.lit(f.Tag)))
		}
		out = append(out, s)
	}
	return out
}

func (c *conv) results(fl *ast.FieldList) []SItem {
	if fl == nil || len(fl.List) == 0 {
		return nil
	}
	if len(fl.List) == 1 && len(fl.List[0].Names) == 0 {
		return []SItem{add(c.expr(fl.List[0].Type))}
	}
	return []SItem{&Grp{Api: "Params", Args: c.fieldList(fl)}}
}

func (c *conv) funcSig(s *Stmt, ft *ast.FuncType) {
	if ft.TypeParams != nil && len(ft.TypeParams.List) > 0 {
		s.Items = append(s.Items, &Grp{Api: "Types", Args: c.fieldList(ft.TypeParams)})
	}
	s.Items = append(s.Items, &Grp{Api: "Params", Args: c.fieldList(ft.Params)})
	s.Items = append(s.Items, c.results(ft.Results)...)
}

func (c *conv) qualIndex(path string) int {
	if i, ok := c.poolIdx[path]; ok {
		return i
	}
	c.poolIdx[path] = len(c.pool)
	c.pool = append(c.pool, path)
	return len(c.pool) - 1
}

func (c *conv) expr(e ast.Expr) *Stmt {
	switch x := e.(type) {
	case nil:
		return one()
	case *ast.Ident:
		return one(id(x.Name))
	case *ast.BasicLit:
		return c.lit(x)
	case *ast.ParenExpr:
		return one(&Grp{Api: "Parens", Args: []Arg{c.expr(x.X)}})
	case *ast.SelectorExpr:
		if pid, ok := x.X.(*ast.Ident); ok {
			if path, imp := c.imports[pid.Name]; imp && pid.Obj == nil {
				// a reference to an imported package: Qual (the name carries the pool index in
				// the harness convention only for generated bodies; real programs keep names)
				return one(Qual{Path: path, Name: x.Sel.Name})
			}
		}
		return one(add(c.expr(x.X)), Tok{Api: "Dot", HasArg: true, Arg: x.Sel.Name})
	case *ast.IndexExpr:
		return one(add(c.expr(x.X)), &Grp{Api: "Index", Args: []Arg{c.expr(x.Index)}})
	case *ast.IndexListExpr:
		return one(add(c.expr(x.X)), &Grp{Api: "Types", Args: c.exprs(x.Indices)})
	case *ast.SliceExpr:
		bound := func(b ast.Expr) Arg {
			if b == nil {
				return one(kw("Empty"))
			}
			return c.expr(b)
		}
		args := []Arg{bound(x.Low), bound(x.High)}
		if x.Slice3 {
			args = append(args, bound(x.Max))
		}
		return one(add(c.expr(x.X)), &Grp{Api: "Index", Args: args})
	case *ast.TypeAssertExpr:
		if x.Type == nil {
			return one(add(c.expr(x.X)), &Grp{Api: "Assert", Args: []Arg{one(kw("Type"))}})
		}
		return one(add(c.expr(x.X)), &Grp{Api: "Assert", Args: []Arg{c.expr(x.Type)}})
	case *ast.CallExpr:
		args := c.exprs(x.Args)
		if x.Ellipsis.IsValid() && len(args) > 0 {
			last := args[len(args)-1].(*Stmt)
			args[len(args)-1] = one(add(last), op("..."))
		}
		return one(add(c.expr(x.Fun)), &Grp{Api: "Call", Args: args})
	case *ast.StarExpr:
		return one(op("*"), add(c.expr(x.X)))
	case *ast.UnaryExpr:
		return one(op(x.Op.String()), add(c.expr(x.X)))
	case *ast.BinaryExpr:
		return one(add(c.expr(x.X)), op(x.Op.String()), add(c.expr(x.Y)))
	case *ast.KeyValueExpr:
		return one(add(c.expr(x.Key)), op(":"), add(c.expr(x.Value)))
	case *ast.CompositeLit:
		s := one()
		if x.Type != nil {
			s.Items = append(s.Items, add(c.expr(x.Type)))
		}
		s.Items = append(s.Items, &Grp{Api: "Values", Args: c.exprs(x.Elts)})
		return s
	case *ast.FuncLit:
		s := one(kw("Func"))
		c.funcSig(s, x.Type)
		s.Items = append(s.Items, c.block(x.Body))
		return s
	case *ast.ArrayType:
		if x.Len == nil {
			return one(&Grp{Api: "Index"}, add(c.expr(x.Elt)))
		}
		return one(&Grp{Api: "Index", Args: []Arg{c.expr(x.Len)}}, add(c.expr(x.Elt)))
	case *ast.Ellipsis:
		if x.Elt == nil {
			return one(op("..."))
		}
		return one(op("..."), add(c.expr(x.Elt)))
	case *ast.MapType:
		return one(&Grp{Api: "Map", Args: []Arg{c.expr(x.Key)}}, add(c.expr(x.Value)))
	case *ast.ChanType:
		switch x.Dir {
		case ast.SEND:
			return one(kw("Chan"), op("<-"), add(c.expr(x.Value)))
		case ast.RECV:
			return one(op("<-"), kw("Chan"), add(c.expr(x.Value)))
		}
		// chan (<-chan T) needs its parentheses, which are a ParenExpr in the source tree
		return one(kw("Chan"), add(c.expr(x.Value)))
	case *ast.FuncType:
		s := one(kw("Func"))
		c.funcSig(s, x)
		return s
	case *ast.StructType:
		return one(&Grp{Api: "Struct", Args: c.fieldList(x.Fields)})
	case *ast.InterfaceType:
		var ms []Arg
		for _, f := range x.Methods.List {
			if len(f.Names) == 1 {
				if ft, ok := f.Type.(*ast.FuncType); ok {
					s := one(id(f.Names[0].Name))
					c.funcSig(s, ft)
					ms = append(ms, s)
					continue
				}
			}
			ms = append(ms, c.expr(f.Type))
		}
		return one(&Grp{Api: "Interface", Args: ms})
	}
	c.fail("unsupported expression %T", e)
	return one()
}

func (c *conv) block(b *ast.BlockStmt) SItem {
	if b == nil {
		return &Grp{Api: "Block"}
	}
	return &Grp{Api: "Block", Args: c.stmts(b.List)}
}

func (c *conv) stmts(list []ast.Stmt) []Arg {
	var out []Arg
	for _, s := range list {
		if _, empty := s.(*ast.EmptyStmt); empty {
			continue
		}
		out = append(out, c.stmt(s))
	}
	return out
}

func listOrOne(args []Arg) SItem {
	if len(args) == 1 {
		return add(args[0].(*Stmt))
	}
	return &Grp{Api: "List", Args: args}
}

func (c *conv) simple(s ast.Stmt) Arg {
	if s == nil {
		return one(kw("Empty"))
	}
	return c.stmt(s)
}

func (c *conv) clauseBody(list []ast.Stmt) SItem { return &Grp{Api: "Block", Args: c.stmts(list)} }

func (c *conv) stmt(s ast.Stmt) *Stmt {
	switch x := s.(type) {
	case *ast.ExprStmt:
		return c.expr(x.X)
	case *ast.SendStmt:
		return one(add(c.expr(x.Chan)), op("<-"), add(c.expr(x.Value)))
	case *ast.IncDecStmt:
		return one(add(c.expr(x.X)), op(x.Tok.String()))
	case *ast.AssignStmt:
		return one(listOrOne(c.exprs(x.Lhs)), op(x.Tok.String()), listOrOne(c.exprs(x.Rhs)))
	case *ast.GoStmt:
		return one(kw("Go"), add(c.expr(x.Call)))
	case *ast.DeferStmt:
		return one(kw("Defer"), add(c.expr(x.Call)))
	case *ast.ReturnStmt:
		return one(&Grp{Api: "Return", Args: c.exprs(x.Results)})
	case *ast.BranchStmt:
		var k SItem
		switch x.Tok {
		case token.BREAK:
			k = kw("Break")
		case token.CONTINUE:
			k = kw("Continue")
		case token.GOTO:
			k = kw("Goto")
		default:
			k = kw("Fallthrough")
		}
		if x.Label != nil {
			return one(k, id(x.Label.Name))
		}
		return one(k)
	case *ast.BlockStmt:
		return one(c.block(x))
	case *ast.IfStmt:
		var conds []Arg
		if x.Init != nil {
			conds = append(conds, c.stmt(x.Init))
		}
		conds = append(conds, c.expr(x.Cond))
		st := one(&Grp{Api: "If", Args: conds}, c.block(x.Body))
		if x.Else != nil {
			st.Items = append(st.Items, kw("Else"))
			st.Items = append(st.Items, c.stmt(x.Else).Items...)
		}
		return st
	case *ast.SwitchStmt:
		var conds []Arg
		if x.Init != nil {
			conds = append(conds, c.stmt(x.Init))
			if x.Tag == nil {
				conds = append(conds, one(kw("Empty")))
			}
		}
		if x.Tag != nil {
			conds = append(conds, c.expr(x.Tag))
		}
		return one(&Grp{Api: "Switch", Args: conds}, &Grp{Api: "Block", Args: c.clauses(x.Body.List)})
	case *ast.TypeSwitchStmt:
		var conds []Arg
		if x.Init != nil {
			conds = append(conds, c.stmt(x.Init))
		}
		conds = append(conds, c.stmt(x.Assign))
		return one(&Grp{Api: "Switch", Args: conds}, &Grp{Api: "Block", Args: c.clauses(x.Body.List)})
	case *ast.SelectStmt:
		return one(kw("Select"), &Grp{Api: "Block", Args: c.clauses(x.Body.List)})
	case *ast.ForStmt:
		var conds []Arg
		switch {
		case x.Init == nil && x.Post == nil && x.Cond == nil:
		case x.Init == nil && x.Post == nil:
			conds = []Arg{c.expr(x.Cond)}
		default:
			cond := Arg(one(kw("Empty")))
			if x.Cond != nil {
				cond = c.expr(x.Cond)
			}
			conds = []Arg{c.simple(x.Init), cond, c.simple(x.Post)}
		}
		return one(&Grp{Api: "For", Args: conds}, c.block(x.Body))
	case *ast.RangeStmt:
		h := one()
		if x.Key != nil {
			lhs := []Arg{c.expr(x.Key)}
			if x.Value != nil {
				lhs = append(lhs, c.expr(x.Value))
			}
			h.Items = append(h.Items, listOrOne(lhs), op(x.Tok.String()))
		}
		h.Items = append(h.Items, kw("Range"), add(c.expr(x.X)))
		return one(&Grp{Api: "For", Args: []Arg{h}}, c.block(x.Body))
	case *ast.LabeledStmt:
		st := one(id(x.Label.Name), op(":"), kw("Line"))
		if es, empty := x.Stmt.(*ast.EmptyStmt); !empty {
			if !c.rawLits && len(x.Label.Name)%2 == 1 {
				// the other way of writing it (there is no dedicated element for labels): label,
				// colon and the labelled statement as ONE chain, e.g. Id("L").Op(":").Block(…) —
				// chosen by the label's length so that both ways occur in every corpus
				// (the mirror of the Lean builder always uses the first way)
				st = one(id(x.Label.Name), op(":"))
				st.Items = append(st.Items, c.stmt(x.Stmt).Items...)
				return st
			}
			st.Items = append(st.Items, add(c.stmt(x.Stmt)))
		} else if !es.Implicit {
			// `L: ;` followed by further statements: without the explicit semicolon the label
			// would attach to the next statement
			st.Items = append(st.Items, op(";"))
		}
		return st
	case *ast.DeclStmt:
		return c.genDecl(x.Decl.(*ast.GenDecl))
	case *ast.EmptyStmt:
		return one(kw("Empty"))
	}
	c.fail("unsupported statement %T", s)
	return one()
}

func (c *conv) clauses(list []ast.Stmt) []Arg {
	var out []Arg
	for _, s := range list {
		switch x := s.(type) {
		case *ast.CaseClause:
			if x.List == nil {
				out = append(out, one(kw("Default"), c.clauseBody(x.Body)))
			} else {
				out = append(out, one(&Grp{Api: "Case", Args: c.exprs(x.List)}, c.clauseBody(x.Body)))
			}
		case *ast.CommClause:
			if x.Comm == nil {
				out = append(out, one(kw("Default"), c.clauseBody(x.Body)))
			} else {
				out = append(out, one(&Grp{Api: "Case", Args: []Arg{c.stmt(x.Comm)}}, c.clauseBody(x.Body)))
			}
		default:
			c.fail("unsupported clause %T", s)
		}
	}
	return out
}

func (c *conv) spec(sp ast.Spec) *Stmt {
	switch x := sp.(type) {
	case *ast.ValueSpec:
		var names []Arg
		for _, n := range x.Names {
			names = append(names, one(id(n.Name)))
		}
		st := one(listOrOne(names))
		if x.Type != nil {
			st.Items = append(st.Items, add(c.expr(x.Type)))
		}
		if len(x.Values) > 0 {
			st.Items = append(st.Items, op("="), listOrOne(c.exprs(x.Values)))
		}
		return st
	case *ast.TypeSpec:
		st := one(id(x.Name.Name))
		if x.TypeParams != nil && len(x.TypeParams.List) > 0 {
			st.Items = append(st.Items, &Grp{Api: "Types", Args: c.fieldList(x.TypeParams)})
		}
		if x.Assign.IsValid() {
			st.Items = append(st.Items, op("="))
		}
		st.Items = append(st.Items, add(c.expr(x.Type)))
		return st
	}
	c.fail("unsupported spec %T", sp)
	return one()
}

func (c *conv) genDecl(d *ast.GenDecl) *Stmt {
	var k SItem
	switch d.Tok {
	case token.VAR:
		k = kw("Var")
	case token.CONST:
		k = kw("Const")
	case token.TYPE:
		k = kw("Type")
	default:
		c.fail("unexpected GenDecl %v", d.Tok)
		return one()
	}
	if d.Lparen.IsValid() {
		var specs []Arg
		for _, sp := range d.Specs {
			specs = append(specs, c.spec(sp))
		}
		return one(k, &Grp{Api: "Defs", Args: specs})
	}
	st := one(k)
	st.Items = append(st.Items, c.spec(d.Specs[0]).Items...)
	return st
}

func (c *conv) funcDecl(d *ast.FuncDecl) *Stmt {
	st := one(kw("Func"))
	if d.Recv != nil {
		st.Items = append(st.Items, &Grp{Api: "Params", Args: c.fieldList(d.Recv)})
	}
	st.Items = append(st.Items, id(d.Name.Name))
	c.funcSig(st, d.Type)
	if d.Body != nil {
		st.Items = append(st.Items, c.block(d.Body))
	}
	return st
}

// ConvertFile turns Go source into a recipe.  ok=false when the file uses something the
// converter cannot express (reported in problems).
func ConvertFile(name string, src []byte, caseID string) (cs *Case, file *ast.File, problems []string) {
	return convertFile(name, src, caseID, false)
}

// ConvertFileSyn: the converter in mirror mode (NoFormat file, literal texts as atoms) paired with
// the GoSyn term of the same declarations for the model driver.
func ConvertFileSyn(name string, src []byte, caseID string) (*Case, string) {
	cs, f, problems := convertFile(name, src, caseID, true)
	if cs == nil || len(problems) > 0 {
		return nil, "converter: " + strings.Join(problems, "; ")
	}
	imports := map[string]string{}
	var setup []string
	for _, o := range cs.Ops {
		switch o.Kind {
		case OpHintName, OpHintAlias:
			imports[o.Str[1]] = o.Str[0]
		}
		if o.Kind != OpFAdd && o.Kind != OpRender {
			setup = append(setup, o.Line())
		}
	}
	line, why := SynLine(f, imports, 0)
	if why != "" {
		return nil, "outside GoSyn: " + why
	}
	cs.ModelText = "case " + caseID + "\n" + strings.Join(setup, "\n") + "\n" + line + "\nrender F0\nend\n"
	return cs, ""
}

func convertFile(name string, src []byte, caseID string, mirror bool) (cs *Case, file *ast.File, problems []string) {
	fset := token.NewFileSet()
	f, err := parser.ParseFile(fset, name, src, parser.SkipObjectResolution)
	if err != nil {
		return nil, nil, []string{"source does not parse: " + err.Error()}
	}
	c := &conv{fset: fset, imports: map[string]string{}, poolIdx: map[string]int{}, rawLits: mirror}
	cs = &Case{ID: caseID}
	cs.Ops = append(cs.Ops, Op{Kind: OpFile, F: 0, Str: []string{"new", "", f.Name.Name}})
	if mirror {
		cs.Ops = append(cs.Ops, Op{Kind: OpSet, F: 0, Str: []string{"noformat", "1"}})
	}
	seenPath := map[string]bool{}
	for _, is := range f.Imports {
		path, _ := strconv.Unquote(is.Path.Value)
		if seenPath[path] {
			return nil, f, []string{"the same path is imported twice (the DSL keeps one entry per path)"}
		}
		seenPath[path] = true
		switch {
		case is.Name != nil && is.Name.Name == "_":
			cs.Ops = append(cs.Ops, Op{Kind: OpAnon, F: 0, Str: []string{path}})
		case is.Name != nil && is.Name.Name == ".":
			// dot imports cannot be referenced through Qual from the source text alone
			return nil, f, []string{"dot import (references are indistinguishable from local names)"}
		case is.Name != nil:
			c.imports[is.Name.Name] = path
			cs.Ops = append(cs.Ops, Op{Kind: OpHintAlias, F: 0, Str: []string{path, is.Name.Name}})
		default:
			n := stdDeclName(path)
			if n == "" {
				n = path[strings.LastIndex(path, "/")+1:]
			}
			if path == "C" {
				return nil, f, []string{"cgo file"}
			}
			c.imports[n] = path
			cs.Ops = append(cs.Ops, Op{Kind: OpHintName, F: 0, Str: []string{path, n}})
		}
	}
	// SkipObjectResolution leaves Ident.Obj nil: a selector on an identifier that names an
	// import is treated as a package reference (shadowing would render the same text anyway)
	for _, d := range f.Decls {
		switch x := d.(type) {
		case *ast.FuncDecl:
			cs.Ops = append(cs.Ops, Op{Kind: OpFAdd, F: 0, Args: []Arg{c.funcDecl(x)}})
		case *ast.GenDecl:
			if x.Tok == token.IMPORT {
				continue
			}
			cs.Ops = append(cs.Ops, Op{Kind: OpFAdd, F: 0, Args: []Arg{c.genDecl(x)}})
		}
	}
	cs.Ops = append(cs.Ops, Op{Kind: OpRender, F: 0})
	// every named import must have been recognised in some selector, otherwise the converter
	// guessed the package's name wrong (non-standard path without an explicit name)
	used := map[string]bool{}
	walkCase(cs, &termVisitor{item: func(it SItem) {
		if q, ok := it.(Qual); ok {
			used[q.Path] = true
		}
	}})
	for _, p := range c.imports {
		if !used[p] {
			c.errs = append(c.errs, "import never recognised in a selector (package name unknown to the converter)")
			break
		}
	}
	return cs, f, c.errs
}
