package main

// Histories in which the TREE changes between renders through statements the caller still holds
// (DESIGN §10.6, fifth round), and the render-erasure oracle.

import (
	"fmt"
)

// genPlaceholderHistory: a statement that is null when first rendered (empty, Null(), an empty
// List) sits inside a list-like construct of a larger statement; it is rendered (as a fragment
// with the File and/or through File.Render), then the held placeholder is extended with real
// items and everything is rendered again.  No qualified identifiers: what is rendered cannot
// depend on import naming, so erasing the earlier renders must not change the later ones.
func genPlaceholderHistory(cx *CheckCtx, i int, prop string) *Case {
	r := cx.R.Fork()
	c := &Case{ID: fmt.Sprintf("%s-placeholder-%d-%d", prop, cx.Seed, i)}
	c.Ops = append(c.Ops, Op{Kind: OpFile, F: 0, Str: []string{"new", "", "p"}})
	if r.Chance(40) {
		c.Ops = append(c.Ops, Op{Kind: OpSet, F: 0, Str: []string{"noformat", "1"}})
	}
	reg := 0
	type ph struct {
		reg, host int
		types     bool
	}
	var phs []ph
	for k := 0; k < 1+r.Intn(3); k++ {
		reg++
		p := ph{reg: reg}
		var items []SItem
		switch r.Intn(4) {
		case 1:
			items = []SItem{kw("Null")}
		case 2:
			items = []SItem{&Grp{Api: "List"}}
		case 3:
			items = []SItem{&AddItems{}}
		}
		c.Ops = append(c.Ops, Op{Kind: OpStmt, S: p.reg, Items: items})
		reg++
		p.host = reg
		ref := Ref{Reg: p.reg}
		var host *Stmt
		top := false
		switch r.Intn(8) {
		case 0:
			host = st(id("f"), &Grp{Api: "Call", Args: []Arg{st(&Grp{Api: "List", Args: []Arg{ref}}), st(id("x"))}})
		case 1:
			host = st(kw("Func"), id(fmt.Sprintf("g%d", k)), &Grp{Api: "Types", Args: []Arg{ref}}, &Grp{Api: "Params", Args: []Arg{st(id("xs"), &Grp{Api: "Index"}, id("T"))}}, &Grp{Api: "Block"})
			top, p.types = true, true
		case 2:
			host = st(kw("Type"), id(fmt.Sprintf("U%d", k)), &Grp{Api: "Interface", Args: []Arg{st(&Grp{Api: "Union", Args: []Arg{ref, st(kw("Int"))}})}})
			top, p.types = true, true
		case 3:
			host = st(id("f"), &Grp{Api: "Call", Args: []Arg{ref, st(id("x"))}})
		case 4:
			host = st(id("a"), op("="), &Grp{Api: "Index"}, kw("Int"), &Grp{Api: "Values", Args: []Arg{st(mkLit(1)), ref}})
		case 5:
			host = st(&Grp{Api: "Return", Args: []Arg{ref}})
		case 6:
			host = st(id("f"), &Custom{Open: "(", Close: ")", Sep: ",", Args: []Arg{st(&Custom{Sep: "+", Args: []Arg{ref}}), st(id("z"))}})
		default:
			host = st(id("f"), &Grp{Api: "Call", Args: []Arg{st(&Grp{Api: "List", Args: []Arg{st(&Grp{Api: "List", Args: []Arg{ref}})}}), st(id("x"))}})
		}
		c.Ops = append(c.Ops, Op{Kind: OpStmt, S: p.host, Items: host.Items})
		if top {
			c.Ops = append(c.Ops, Op{Kind: OpFAdd, F: 0, Args: []Arg{Ref{Reg: p.host}}})
		} else {
			c.Ops = append(c.Ops, Op{Kind: OpFAdd, F: 0, Args: []Arg{st(kw("Func"), id(fmt.Sprintf("h%d", k)), &Grp{Api: "Params"}, &Grp{Api: "Block", Args: []Arg{Ref{Reg: p.host}}})}})
		}
		phs = append(phs, p)
	}
	render := func() {
		switch r.Intn(4) {
		case 0:
			c.Ops = append(c.Ops, Op{Kind: OpFrag, S: pickPh(r, len(phs), func(k int) int { return phs[k].host }), F: 0})
		case 1:
			c.Ops = append(c.Ops, Op{Kind: OpGFrag, F: 0, F2: 0})
		default:
			c.Ops = append(c.Ops, Op{Kind: OpRender, F: 0})
		}
	}
	render()
	if r.Bool() {
		render()
	}
	for round := 0; round < 1+r.Intn(3); round++ {
		p := phs[r.Intn(len(phs))]
		var late []SItem
		switch {
		case p.types && r.Bool():
			late = []SItem{id("T"), kw("Any")}
		case p.types:
			late = []SItem{kw("String")}
		case r.Bool():
			late = []SItem{id(fmt.Sprintf("late%d", round))}
		default:
			late = []SItem{mkLit(round + 7)}
		}
		c.Ops = append(c.Ops, Op{Kind: OpApp, S: p.reg, Items: late})
		render()
	}
	c.Ops = append(c.Ops, Op{Kind: OpRender, F: 0}, Op{Kind: OpRender, F: 0})
	return c
}

func pickPh(r *Rng, n int, f func(int) int) int { return f(r.Intn(n)) }

// erasureOracle ("rendering does not change what is rendered next"): for a history with several
// renders, the history with the EARLIER render operations erased is run as well, on the model and
// on the real library.  Earlier renders may legitimately matter (names once printed are final),
// and the model says when: if the model renders the last operation identically with and without
// the earlier renders, the real library must do so too.  The comparison that decides is real
// against real; the finding's replay is the history itself.
func erasureOracle(cx *CheckCtx, runs []*CaseRun, prop string, sampleN int) []Finding {
	var fs []Finding
	type job struct {
		cr *CaseRun
		k  int // render index examined
	}
	var jobs []job
	var multi []*CaseRun
	for _, cr := range runs {
		if cr.BuildPanic != "" || cr.Case.ModelText != "" || dictRegistersInMapOrder(cr.Case) || hasEqualKeyTexts(cr.Case) {
			continue
		}
		n := len(cr.Real)
		if n < 2 || len(cr.Model) < n {
			continue
		}
		multi = append(multi, cr)
		for _, d := range cr.Dis {
			if d.OpIndex >= 1 && d.OpIndex < n {
				jobs = append(jobs, job{cr, d.OpIndex})
				break
			}
		}
	}
	if len(jobs) > 40 {
		jobs = jobs[:40]
	}
	for k := 0; k < sampleN && len(multi) > 0; k++ {
		cr := multi[cx.R.Intn(len(multi))]
		jobs = append(jobs, job{cr, len(cr.Real) - 1})
	}
	if len(jobs) == 0 {
		return nil
	}
	var erased []*Case
	for _, j := range jobs {
		e := &Case{ID: j.cr.Case.ID + "-erased"}
		ri := -1
		for _, o := range j.cr.Case.Ops {
			if o.IsRender() {
				ri++
				if ri < j.k {
					continue
				}
				e.Ops = append(e.Ops, o)
				break
			}
			e.Ops = append(e.Ops, o)
		}
		erased = append(erased, e)
	}
	eruns, err := RunAll(erased, 7)
	if err != nil {
		cx.note("erasure oracle: " + err.Error())
		return nil
	}
	for idx, j := range jobs {
		er := eruns[idx]
		cx.Stats.OracleCases++
		if er.BuildPanic != "" || len(er.Real) == 0 || len(er.Model) == 0 {
			continue
		}
		earlierOK := true
		for q := 0; q < j.k; q++ {
			if cl := j.cr.Real[q].Class; cl != "ok" && cl != "err:format" {
				earlierOK = false
			}
		}
		if !earlierOK {
			continue
		}
		mf, me := j.cr.Model[j.k], er.Model[0]
		rf, re := j.cr.Real[j.k], er.Real[0]
		if mf.Class != me.Class || mf.Raw != me.Raw {
			cx.hist("erasure:earlier-renders-matter-per-model")
			continue // the earlier renders legitimately matter here (names already printed are kept)
		}
		cx.hist("erasure:compared")
		if rf.Class != re.Class || rf.Out != re.Out {
			fs = append(fs, Finding{Property: prop, Shape: "earlier-render-changes-later-one",
				What:     fmt.Sprintf("render #%d of this history differs from the same render when the %d earlier render operation(s) are left out (the model renders both identically)", j.k+1, j.k),
				Case:     j.cr.Case.Text(),
				Expected: trunc(re.Class + " " + re.Out + re.Err), Observed: trunc(rf.Class + " " + rf.Out + rf.Err)})
			if len(fs) >= 5 {
				break
			}
		}
	}
	return fs
}

// genFileLevelHistory: header comments, package comments and CanonicalPath set, changed and
// cleared BETWEEN renders of one File.
func genFileLevelHistory(cx *CheckCtx, i int) *Case {
	r := cx.R.Fork()
	c := &Case{ID: fmt.Sprintf("C15-filelevel-%d-%d", cx.Seed, i)}
	c.Ops = append(c.Ops, Op{Kind: OpFile, F: 0, Str: []string{"new", "", pick(r, []string{"p", "main", "foo"})}})
	if r.Chance(35) {
		c.Ops = append(c.Ops, Op{Kind: OpSet, F: 0, Str: []string{"noformat", "1"}})
	}
	n := 0
	mutate := func() {
		n++
		switch r.Intn(4) {
		case 0:
			c.Ops = append(c.Ops, Op{Kind: OpSet, F: 0, Str: []string{"canonical", pick(r, []string{"a.com/canon", "b.org/x/other", "", "x"})}})
		case 1:
			c.Ops = append(c.Ops, Op{Kind: OpHeader, F: 0, Str: []string{fmt.Sprintf("generated header %d", n)}})
		case 2:
			c.Ops = append(c.Ops, Op{Kind: OpPkgComment, F: 0, Str: []string{fmt.Sprintf("Package doc line %d.", n)}})
		default:
			c.Ops = append(c.Ops, Op{Kind: OpFAdd, F: 0, Args: []Arg{st(kw("Var"), id(fmt.Sprintf("v%d", n)), kw("Int"))}})
		}
	}
	for k := 0; k < r.Intn(3); k++ {
		mutate()
	}
	c.Ops = append(c.Ops, Op{Kind: OpFAdd, F: 0, Args: []Arg{st(kw("Var"), id("x"), kw("Int"))}}, Op{Kind: OpRender, F: 0})
	for round := 0; round < 1+r.Intn(4); round++ {
		for k := 0; k < 1+r.Intn(2); k++ {
			mutate()
		}
		c.Ops = append(c.Ops, Op{Kind: OpRender, F: 0})
	}
	return c
}
