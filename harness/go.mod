module verif/harness

go 1.20

require github.com/dave/jennifer v0.0.0

replace github.com/dave/jennifer => /repo
