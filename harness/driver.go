package main

// Running the Lean model driver over a batch of cases and collecting its per-render output.

import (
	"bufio"
	"bytes"
	"fmt"
	"os"
	"os/exec"
	"strings"
	"sync"
)

type ModelObs struct {
	Class    string // ok | err:misuse | error:<driver message>
	Raw      string
	Print    string // C01: text of the reference printer for the same file (when the case is a GoSyn term)
	HasPrint bool
}

var driverCmd []string

func initDriver() {
	if p := os.Getenv("VERIF_DRIVER"); p != "" {
		driverCmd = strings.Fields(p)
		return
	}
	driverCmd = []string{"/verif/lean/.lake/build/bin/driver"}
}

// runDriverLines feeds raw protocol lines and returns raw output lines.
func runDriverLines(input string) ([]string, error) {
	cmd := exec.Command(driverCmd[0], driverCmd[1:]...)
	cmd.Stdin = strings.NewReader(input)
	var out, errb bytes.Buffer
	cmd.Stdout = &out
	cmd.Stderr = &errb
	if err := cmd.Run(); err != nil {
		return nil, fmt.Errorf("driver failed: %v: %s", err, errb.String())
	}
	var lines []string
	sc := bufio.NewScanner(&out)
	sc.Buffer(make([]byte, 1<<20), 1<<28)
	for sc.Scan() {
		lines = append(lines, sc.Text())
	}
	return lines, nil
}

// RunModel runs all cases through the driver (sharded over `par` processes) and returns, per
// case, the observations of its render ops in order.
func RunModel(cases []*Case, par int) ([][]ModelObs, error) {
	res := make([][]ModelObs, len(cases))
	if par < 1 {
		par = 1
	}
	chunk := (len(cases) + par - 1) / par
	var wg sync.WaitGroup
	var mu sync.Mutex
	var firstErr error
	for s := 0; s < len(cases); s += chunk {
		e := s + chunk
		if e > len(cases) {
			e = len(cases)
		}
		wg.Add(1)
		go func(s, e int) {
			defer wg.Done()
			var in strings.Builder
			for _, c := range cases[s:e] {
				in.WriteString(c.DriverText())
			}
			lines, err := runDriverLines(in.String())
			if err != nil {
				mu.Lock()
				if firstErr == nil {
					firstErr = err
				}
				mu.Unlock()
				return
			}
			idx := s - 1
			for _, l := range lines {
				switch {
				case strings.HasPrefix(l, "case "):
					idx++
				case l == ".":
				case strings.HasPrefix(l, "R "):
					res[idx] = append(res[idx], ModelObs{Class: "ok", Raw: unesc(l[2:])})
				case l == "R":
					res[idx] = append(res[idx], ModelObs{Class: "ok", Raw: ""})
				case strings.HasPrefix(l, "P "):
					if n := len(res[idx]); n > 0 {
						res[idx][n-1].Print = unesc(l[2:])
						res[idx][n-1].HasPrint = true
					}
				case strings.HasPrefix(l, "E "):
					res[idx] = append(res[idx], ModelObs{Class: "err:" + l[2:]})
				case strings.HasPrefix(l, "! "):
					res[idx] = append(res[idx], ModelObs{Class: "error:" + l[2:]})
				}
			}
			if idx != e-1 {
				mu.Lock()
				if firstErr == nil {
					firstErr = fmt.Errorf("driver answered %d cases of %d", idx-s+1, e-s)
				}
				mu.Unlock()
			}
		}(s, e)
	}
	wg.Wait()
	return res, firstErr
}
