package main

// Rare-syntax corpus (after round twelve of seeded changes): small Go sources, one per syntactic
// construct that real code uses seldom (a quick-tier sample of GOROOT/src may hold none of them):
// labelled blocks, labelled loops/switches/selects with break/continue/goto, 3-index slices,
// bare returns, empty clause bodies, fallthrough, type switches with and without binding, select
// with send/receive/default, anonymous structs and interfaces, method expressions and values,
// array literals with `...`, iota blocks, variadic calls, channel directions, generic types with
// constraints, conversions to parenthesised types, labels with names of odd and even length (the
// converter writes a labelled statement in two ways, chosen by the label's length).  They go
// through the same pipeline as the files of GOROOT/src.

import "fmt"

var rareSyntax = []struct{ name, src string }{
	{"labelled-block-odd", "func f(x int) int {\nBody:\n\t{\n\t\tif x > 10 {\n\t\t\tbreak Body\n\t\t}\n\t\tx++\n\t}\n\treturn x\n}\n"},
	{"labelled-block-even", "func f(x int) int {\nBody2:\n\t{\n\t\tif x > 10 {\n\t\t\tbreak Body2\n\t\t}\n\t\tx++\n\t}\n\treturn x\n}\n"},
	{"labelled-block-first-in-case", "func f(x int) {\n\tswitch x {\n\tcase 1:\n\tL:\n\t\t{\n\t\t\tx++\n\t\t\tbreak L\n\t\t}\n\tdefault:\n\tMM:\n\t\t{\n\t\t\tbreak MM\n\t\t}\n\t}\n}\n"},
	{"labelled-loops", "func f(xs [][]int) {\nouter:\n\tfor _, r := range xs {\n\tinner1:\n\t\tfor _, v := range r {\n\t\t\tif v == 0 {\n\t\t\t\tcontinue outer\n\t\t\t}\n\t\t\tif v == 1 {\n\t\t\t\tbreak inner1\n\t\t\t}\n\t\t}\n\t}\n}\n"},
	{"labelled-switch-select", "func f(c chan int, x int) {\nsw:\n\tswitch x {\n\tcase 1:\n\t\tbreak sw\n\t}\nsel1:\n\tselect {\n\tcase <-c:\n\t\tbreak sel1\n\tdefault:\n\t}\n}\n"},
	{"goto-labels", "func f(x int) {\n\tgoto end\nmid:\n\tx++\nend:\n\tif x < 3 {\n\t\tgoto mid\n\t}\n}\n"},
	{"label-before-closing-brace", "func f() {\n\tfor {\n\t\tgoto L\n\tL:\n\t}\n}\n"},
	{"label-on-nested-labels", "func f() {\nA:\nBB:\n\tfor {\n\t\tbreak A\n\t\tbreak BB\n\t}\n}\n"},
	{"label-on-simple-statements", "func f(x int, c chan int) {\nA:\n\tx++\nBB:\n\tx = 1\nCCC:\n\tc <- x\nDDDD:\n\tgo f(x, c)\nE5555:\n\tdefer f(x, c)\nF66666:\n\treturn\n\tgoto A\n\tgoto BB\n\tgoto CCC\n\tgoto DDDD\n\tgoto E5555\n\tgoto F66666\n}\n"},
	{"three-index-slice", "var a = b[1:2:3]\n\nvar c = b[:2:3]\n\nvar d = b[:]\n\nvar e = b[1:]\n\nvar g = b[:2]\n"},
	{"bare-return-and-named-results", "func f() (n int, err error) {\n\tn = 1\n\treturn\n}\n"},
	{"empty-clause-bodies", "func f(x int, c chan int) {\n\tswitch x {\n\tcase 1:\n\tcase 2, 3:\n\tdefault:\n\t}\n\tselect {\n\tcase <-c:\n\tdefault:\n\t}\n\tswitch {\n\t}\n\tselect {}\n}\n"},
	{"fallthrough", "func f(x int) {\n\tswitch x {\n\tcase 1:\n\t\tx++\n\t\tfallthrough\n\tcase 2:\n\t\tx--\n\t}\n}\n"},
	{"type-switches", "func f(v interface{}) {\n\tswitch v.(type) {\n\tcase int, string:\n\tcase nil:\n\t}\n\tswitch t := v.(type) {\n\tcase error:\n\t\t_ = t\n\tdefault:\n\t\t_ = t\n\t}\n\tswitch x := 1; y := v.(type) {\n\tcase int:\n\t\t_, _ = x, y\n\t}\n}\n"},
	{"select-forms", "func f(a, b chan int) {\n\tselect {\n\tcase v := <-a:\n\t\t_ = v\n\tcase v, ok := <-b:\n\t\t_, _ = v, ok\n\tcase a <- 1:\n\tcase <-b:\n\t}\n}\n"},
	{"anonymous-types", "var v struct {\n\tA int\n\tB struct{ C, D string }\n\tE interface{ M() }\n}\n\nvar w = struct{ X int }{X: 1}\n\nvar i interface {\n\tM(int) (string, error)\n\tN()\n}\n"},
	{"method-expressions", "var f = T.M\n\nvar g = (*T).M\n\nvar h = t.M\n\nvar k = (*T)(nil).M\n"},
	{"array-literals", "var a = [...]int{1, 2, 3}\n\nvar b = [...]string{2: \"x\", 5: \"y\"}\n\nvar c = [2][3]int{{1, 2, 3}, {4, 5, 6}}\n\nvar d = []*T{{1}, {2}}\n\nvar e = map[K]V{{1}: {2}}\n"},
	{"iota-blocks", "const (\n\tA = iota\n\tB\n\tC\n\t_\n\tE = 1 << iota\n\tF, G = iota, iota * 2\n)\n"},
	{"variadics", "func f(a int, bs ...string) {\n\tg(a, bs...)\n\th(bs...)\n}\n\nvar v func(...int)\n"},
	{"channel-directions", "var a chan int\n\nvar b <-chan int\n\nvar c chan<- int\n\nvar d chan (<-chan int)\n\nvar e chan<- chan int\n\nvar g <-chan <-chan int\n\nfunc f(in <-chan int, out chan<- int) {\n\tout <- <-in\n}\n"},
	{"generics", "type Pair[K comparable, V any] struct {\n\tKey K\n\tVal V\n}\n\ntype Num interface {\n\t~int | ~int64 | float64\n}\n\nfunc Map[T, U any](xs []T, f func(T) U) []U {\n\treturn nil\n}\n\nvar p = Pair[string, int]{Key: \"a\", Val: 1}\n\nvar m = Map[int, string]\n\nfunc (p *Pair[K, V]) Get() V {\n\treturn p.Val\n}\n"},
	{"conversions", "var a = (*int)(nil)\n\nvar b = (func())(nil)\n\nvar c = []byte(\"x\")\n\nvar d = (<-chan int)(nil)\n\nvar e = interface{}(1)\n\nvar g = (chan int)(nil)\n"},
	{"if-for-init-forms", "func f(m map[string]int) {\n\tif v, ok := m[\"a\"]; ok {\n\t\t_ = v\n\t} else if w := v + 1; w > 2 {\n\t\t_ = w\n\t} else {\n\t}\n\tfor i, j := 0, 10; i < j; i, j = i+1, j-1 {\n\t}\n\tfor ; ; {\n\t}\n\tfor range m {\n\t}\n\tfor k := range m {\n\t\t_ = k\n\t}\n\tfor i := range 10 {\n\t\t_ = i\n\t}\n}\n"},
	{"func-literals-invoked", "func f() {\n\tdefer func() {\n\t\trecover()\n\t}()\n\tgo func(x int) {\n\t}(1)\n\tfunc() {}()\n\tx := func() int { return 1 }()\n\t_ = x\n}\n"},
	{"unary-and-binary-mix", "var a = -x - -y\n\nvar b = +x + +y\n\nvar c = !a && !b || ^d&^e == 0\n\nvar d = *p * *q\n\nvar e = &x\n\nvar f = <-c\n\nvar g = x<<1 | y>>2&3 ^ 4\n\nvar h = a &^ b\n"},
	{"struct-tags-and-embedded", "type T struct {\n\tA int `json:\"a\"`\n\tB, C string `x:\"y\" z:\"w\"`\n\t*U\n\tpkg.V\n\t_ int\n}\n"},
	{"inc-dec-and-op-assign", "func f(x int, p *int, a []int) {\n\tx++\n\tx--\n\t*p++\n\ta[0]--\n\tx += 1\n\tx -= 1\n\tx *= 2\n\tx /= 2\n\tx %= 2\n\tx &= 1\n\tx |= 1\n\tx ^= 1\n\tx <<= 1\n\tx >>= 1\n\tx &^= 1\n}\n"},
	{"imaginary-rune-and-number-forms", "var a = 1i\n\nvar b = 'x'\n\nvar c = '\\n'\n\nvar d = 0x1p-2\n\nvar e = 1_000_000\n\nvar f = 0b1010\n\nvar g = 0o17\n\nvar h = .5\n\nvar i = 1e10\n\nvar j = '\\u00e9'\n\nvar k = `raw\nstring`\n"},
}

func rareSyntaxCases(cx *CheckCtx) []*Case {
	var cs []*Case
	skipped := map[string]string{}
	for _, rs := range rareSyntax {
		id := "C01-rare-" + rs.name
		src := "package p\n\n" + rs.src
		c, _, problems := ConvertFile(id+".go", []byte(src), id)
		if c == nil || len(problems) > 0 {
			skipped[rs.name] = fmt.Sprint(problems)
			continue
		}
		c01Sources[id] = []byte(src)
		cs = append(cs, c)
		cx.hist("rare-syntax:" + rs.name)
	}
	cx.Extra["rare_syntax_files"] = len(cs)
	if len(skipped) > 0 {
		cx.Extra["rare_syntax_not_expressible"] = skipped
	}
	return cs
}
